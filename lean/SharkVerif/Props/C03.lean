/-
C03 — Dataset containers keep every element, its order and its input-label pairing.

Property theorems about `Model/Dataset.lean` (hand-written model of Dataset.h /
Impl/Dataset.inl / DataView.h, tied to the C++ by the correspondence check
`checks/c03.py`) and about `Gen/BatchArith.lean` (machine-translated from
Impl/Dataset.inl on every run by `translate/batch_arith.py`).

Sections
  A  batch arithmetic (`optimalBatchSizes`, all n, m)            — on the generated definition
  B  every structural operation of `Data` maps the flat element sequence as documented
     (incl. the element-by-element copy loop of `repartition`, indexed subsets and complements)
  C  the element iterator: elements(), element(i), reverse iteration and batches() agree; `it += n` for signed n
  D  LabeledData: inputs and labels stay in the same partitioning, pairs are never separated
     (createFromRange, repartition, splitBatch, splice, splitAtElement, append, indexedSubset, reorder, transform)
  E  arbitrary operation histories on one dataset and on two datasets exchanging elements; DataView / toDataset
  F  class-wise operations: repartitionByClass, binarySubProblem, oneVersusRest

All statements quantify over every element type, element count, batch size and
partition; nothing is bounded.  Hypotheses of the form `op … = .ok d'` select
the calls whose C++ preconditions hold (the model returns `.error` otherwise).
-/
import SharkVerif.Lemmas.BatchArith
import SharkVerif.Lemmas.Dataset
import SharkVerif.Lemmas.IterAdvance
import SharkVerif.Lemmas.Subset
import SharkVerif.Lemmas.View
import SharkVerif.Lemmas.ByClass
import SharkVerif.Lemmas.RepartitionLoop
import SharkVerif.Lemmas.BinarySub
import SharkVerif.Lemmas.SortedRuns
import SharkVerif.Lemmas.PureBatches
import SharkVerif.Lemmas.DatasetSim
import SharkVerif.Lemmas.DatasetWrite
namespace SharkVerif.C03
open SharkVerif.CheckedNat SharkVerif.Gen.BatchArith SharkVerif.BatchArith SharkVerif.Dataset

variable {ε ι κ : Type}

/-! ## A. batch arithmetic -/

/-- for n, m > 0 the generated `optimalBatchSizes` stays inside defined arithmetic (no division by
zero, no size_t wrap-around) and returns the closed form `obsSpec` -/
theorem optimalBatchSizes_defined {n m : Nat} (hn : 0 < n) (hm : 0 < m) :
    optimalBatchSizes n m = some (obsSpec n m) := optimalBatchSizes_eq_spec hn hm

theorem sum_range_ite (q r : Nat) : ∀ b : Nat,
    ((List.range b).map fun j => if j < r then q + 1 else q).sum = b * q + min r b := by
  intro b
  induction b with
  | zero => simp
  | succ b ih =>
    rw [List.range_succ, List.map_append, List.sum_append, ih, Nat.succ_mul]
    by_cases h : b < r
    · simp [h]; omega
    · simp [h]; omega

/-- the number of batches is ⌈n/m⌉ -/
theorem optimalBatchSizes_count {n m : Nat} (hn : 0 < n) (hm : 0 < m) :
    ∃ l, optimalBatchSizes n m = some l ∧ l.length = (n + m - 1) / m := by
  refine ⟨_, optimalBatchSizes_defined hn hm, ?_⟩
  simp only [obsSpec, List.length_map, List.length_range, numBatches]
  have h1 := Nat.div_add_mod n m
  split
  · rename_i h
    have : n + m - 1 = m * (n / m + 1) + (n % m - 1) := by rw [Nat.mul_add]; omega
    rw [this, Nat.mul_add_div hm]
    have : (n % m - 1) / m = 0 := Nat.div_eq_of_lt (by have := Nat.mod_lt n hm; omega)
    omega
  · rename_i h
    have h0 : n % m = 0 := by omega
    have : n + m - 1 = m * (n / m) + (m - 1) := by omega
    rw [this, Nat.mul_add_div hm]
    have : (m - 1) / m = 0 := Nat.div_eq_of_lt (by omega)
    omega

/-- batch sizes sum to the element count -/
theorem optimalBatchSizes_sum {n m : Nat} (hn : 0 < n) (hm : 0 < m) :
    ∃ l, optimalBatchSizes n m = some l ∧ l.sum = n := by
  refine ⟨_, optimalBatchSizes_defined hn hm, ?_⟩
  have hb := numBatches_pos hn hm
  simp only [obsSpec]
  rw [sum_range_ite]
  have := Nat.div_add_mod n (numBatches n m)
  have := Nat.mod_lt n hb
  rw [Nat.min_eq_left (by omega)]
  omega

theorem numBatches_mul_ge {n m : Nat} (hm : 0 < m) : n ≤ numBatches n m * m := by
  have h1 := Nat.div_add_mod n m
  have h2 := Nat.mod_lt n hm
  unfold numBatches
  split
  · rw [Nat.add_mul, Nat.mul_comm (n / m) m]; omega
  · rw [Nat.mul_comm]; omega

theorem numBatches_le {n m : Nat} (hn : 0 < n) (hm : 0 < m) : numBatches n m ≤ n := by
  have h1 := Nat.div_add_mod n m
  unfold numBatches
  split
  · rename_i h
    have hm2 : 2 ≤ m := by
      apply Classical.byContradiction; intro hc
      have : m = 1 := by omega
      subst this
      simp [Nat.mod_one] at h
    have : 2 * (n / m) ≤ m * (n / m) := Nat.mul_le_mul_right _ hm2
    omega
  · exact Nat.div_le_self n m

/-- every batch size is between 1 and the maximum batch size, and any two differ by at most one -/
theorem optimalBatchSizes_le_max_balanced {n m : Nat} (hn : 0 < n) (hm : 0 < m) :
    ∃ l, optimalBatchSizes n m = some l ∧ (∀ s ∈ l, 1 ≤ s ∧ s ≤ m) ∧ (∀ s ∈ l, ∀ t ∈ l, s ≤ t + 1) := by
  refine ⟨_, optimalBatchSizes_defined hn hm, ?_, ?_⟩
  · intro s hs
    have hb := numBatches_pos hn hm
    have hge := numBatches_mul_ge (n := n) hm
    have hle := numBatches_le hn hm
    have hdm := Nat.div_add_mod n (numBatches n m)
    have hq1 : 1 ≤ n / numBatches n m := (Nat.one_le_div_iff hb).mpr hle
    simp only [obsSpec, List.mem_map, List.mem_range] at hs
    obtain ⟨j, _, rfl⟩ := hs
    have hqm : n / numBatches n m ≤ m := by
      apply Nat.div_le_of_le_mul
      exact hge
    by_cases hr : n % numBatches n m = 0
    · have : ¬ (j < n % numBatches n m) := by omega
      simp only [this, if_false]; exact ⟨hq1, hqm⟩
    · split
      · refine ⟨by omega, ?_⟩
        rcases Nat.lt_or_ge (n / numBatches n m) m with h | h
        · omega
        · have : numBatches n m * m ≤ numBatches n m * (n / numBatches n m) := Nat.mul_le_mul_left _ h
          omega
      · exact ⟨hq1, hqm⟩
  · intro s hs t ht
    simp only [obsSpec, List.mem_map, List.mem_range] at hs ht
    obtain ⟨j, _, rfl⟩ := hs
    obtain ⟨k, _, rfl⟩ := ht
    split <;> split <;> omega

/-- what the C++ does for zero elements: either it leaves defined arithmetic (division by zero —
finding F1, the unrepaired source) or it returns no batch at all (repaired source).  Which of the two
the current source shows is printed by the check (`generated_optimalBatchSizes_at_zero`). -/
theorem optimalBatchSizes_zero {m : Nat} (hm : 0 < m) :
    optimalBatchSizes 0 m = none ∨ optimalBatchSizes 0 m = some [] := by
  first
    | (right; simp [optimalBatchSizes]; done)
    | (left; simp [optimalBatchSizes, cdiv, csub, Nat.ne_of_gt hm]; done)

/-- the copy of the arithmetic inside `createDataFromRange` agrees with `optimalBatchSizes` (n > 0) -/
theorem rangeBatchSizes_eq {n m : Nat} (hn : 0 < n) (hm : 0 < m) :
    rangeBatchSizes n m = optimalBatchSizes n m := by
  rw [optimalBatchSizes_defined hn hm]
  have hb := numBatches_pos hn hm
  have h1 := Nat.div_add_mod n m
  have hq : numBatches n m * (n / numBatches n m) ≤ n := Nat.mul_div_le n _
  have hr : n - numBatches n m * (n / numBatches n m) = n % numBatches n m := by
    have := Nat.div_add_mod n (numBatches n m); omega
  have e1 : (if n > n / m * m then n / m + 1 else n / m) = numBatches n m := by
    unfold numBatches
    rw [Nat.mul_comm]
    by_cases h : 0 < n % m
    · have : n > m * (n / m) := by omega
      simp [h, this]
    · have : ¬ (n > m * (n / m)) := by omega
      simp [h, this]
  simp only [rangeBatchSizes, cdiv, Nat.ne_of_gt hm, if_false, Option.bind_eq_bind, Option.bind_some, e1,
    Nat.ne_of_gt hb, csub, hq, if_true, hr, obsSpec]
  rfl

/-! ## B. structural operations of `Data` -/

/-- batch sizes always sum to the element count -/
theorem batch_sizes_sum (d : Data ε) : d.partitioning.sum = d.numberOfElements ∧ d.numberOfElements = d.flat.length :=
  ⟨rfl, d.numberOfElements_eq⟩

/-- `createDataFromRange`: all elements, in order, in ⌈n/m⌉ balanced batches -/
theorem createDataFromRange_flat (xs : List ε) (m : Nat) (sh : Shape) (hn : 0 < xs.length) (hm : 0 < m) :
    ∃ d, createDataFromRange xs m sh = .ok d ∧ d.flat = xs ∧ d.partitioning = obsSpec xs.length m ∧ d.shape = sh := by
  have hs := optimalBatchSizes_sum hn hm
  rw [optimalBatchSizes_defined hn hm] at hs
  obtain ⟨l, hl, hsum⟩ := hs
  cases hl
  refine ⟨{ batches := splitBySizes xs (obsSpec xs.length m), shape := sh }, ?_, ?_, ?_, rfl⟩
  · simp [createDataFromRange, Nat.ne_of_gt hm, rangeBatchSizes_eq hn hm, optimalBatchSizes_defined hn hm, ofOpt,
      bind, Except.bind, pure, Except.pure]
  · exact splitBySizes_flatten _ _ hsum
  · exact splitBySizes_lengths _ _ (Nat.le_of_eq hsum)

/-- `repartition`: same elements in the same order, exactly the requested batch sizes, shape kept -/
theorem repartition_flat (d d' : Data ε) (sizes : List Nat) (h : d.repartition sizes = .ok d') :
    d'.flat = d.flat ∧ d'.partitioning = sizes ∧ d'.shape = d.shape := by
  simp only [Data.repartition, bind_ok, require_ok, pure_ok, decide_eq_true_eq] at h
  obtain ⟨_, hs, _, _, rfl⟩ := h
  rw [d.numberOfElements_eq] at hs
  exact ⟨splitBySizes_flatten _ _ hs, splitBySizes_lengths _ _ (Nat.le_of_eq hs), rfl⟩

/-- **the copy loop of `repartition`** (`SharedContainer::repartition`: currentBatch / currentBatchIndex walking the
old batches element by element) computes exactly the abstract `repartition` — same success condition, same result -/
theorem repartition_loop_eq (d : Data ε) (sizes : List Nat) : d.repartitionByLoop sizes = d.repartition sizes := by
  unfold Data.repartitionByLoop Data.repartition
  by_cases h1 : sizes.sum = d.numberOfElements
  · by_cases h2 : (d.nonEmptyBatches && sizes.all (· > 0)) = true
    · have h2' := h2
      simp only [Bool.and_eq_true] at h2'
      have := repartition_loop_refines d sizes h2'.1 h2'.2 h1
      simp [require, h1, h2, this, ofOpt, bind, Except.bind, pure, Except.pure]
    · simp [require, h1, h2, bind, Except.bind]
  · simp [require, h1, bind, Except.bind]

/-- `splitBatch`: same elements in the same order -/
theorem splitBatch_flat (d d' : Data ε) (b k : Nat) (h : d.splitBatch b k = .ok d') :
    d'.flat = d.flat ∧ d'.shape = d.shape := by
  simp only [Data.splitBatch, bind_ok, require_ok, ofOpt_ok] at h
  obtain ⟨src, hsrc, _, _, h⟩ := h
  split at h
  · simp only [pure_ok] at h; subst h; exact ⟨rfl, rfl⟩
  · simp only [pure_ok] at h; subst h
    refine ⟨?_, rfl⟩
    have := batch_split d.batches b src hsrc
    simp only [Data.flat]
    conv => rhs; rw [this]
    simp
    rw [← List.append_assoc, List.take_append_drop]

/-- `splice`: the two parts concatenate to the original; the right part inherits the shape -/
theorem splice_flat (d l r : Data ε) (b : Nat) (h : d.splice b = .ok (l, r)) :
    l.flat ++ r.flat = d.flat ∧ l.shape = d.shape ∧ r.shape = d.shape := by
  simp only [Data.splice, bind_ok, require_ok, pure_ok, Prod.mk.injEq] at h
  obtain ⟨_, _, rfl, rfl⟩ := h
  simp [Data.flat, ← List.flatten_append]

theorem append_flat (d o : Data ε) : (d.append o).flat = d.flat ++ o.flat ∧ (d.append o).shape = d.shape := by
  simp [Data.append, Data.flat]

theorem pushBack_flat (d : Data ε) (b : List ε) : (d.pushBack b).flat = d.flat ++ b := by
  simp [Data.pushBack, Data.flat]

/-- `transform`: element-wise image, batch structure unchanged -/
theorem transform_flat (d : Data ε) (f : ε → κ) (sh : Shape) :
    (d.transform f sh).flat = d.flat.map f ∧ (d.transform f sh).partitioning = d.partitioning := by
  simp [Data.transform, Data.flat, Data.partitioning, List.map_flatten]

/-- `indexedSubset`: batch j of the result is batch `indices[j]` of the source; shape kept -/
theorem indexedSubset_batches (d d' : Data ε) (idx : List Nat) (h : d.indexedSubset idx = .ok d') :
    d'.batches.map some = idx.map (d.batches[·]?) ∧ d'.shape = d.shape := by
  simp only [Data.indexedSubset, bind_ok, pure_ok] at h
  obtain ⟨bs, hbs, rfl⟩ := h
  refine ⟨?_, rfl⟩
  simp only
  induction idx generalizing bs with
  | nil => simp [List.mapM_nil, pure, Except.pure] at hbs; simp [← hbs]
  | cons i idx ih =>
    simp only [List.mapM_cons, bind_ok, ofOpt_ok, pure_ok] at hbs
    obtain ⟨b, hb, bs', hbs', rfl⟩ := hbs
    simp [hb, ih bs' hbs']

/-- `reorderElements`: new element j is old element `indices[j]`; batch structure and shape kept -/
theorem reorderElements_flat (d d' : Data ε) (idx : List Nat) (hne : allPos d.partitioning)
    (h : d.reorderElements idx = .ok d') :
    d'.flat.map some = (idx.take d.numberOfElements).map (d.flat[·]?) ∧ d'.partitioning = d.partitioning ∧
      d'.shape = d.shape := by
  simp only [Data.reorderElements, bind_ok, require_ok, pure_ok, decide_eq_true_eq] at h
  obtain ⟨_, hlen, picked, hp, rfl⟩ := h
  have hpick : picked.map some = (idx.take d.numberOfElements).map (d.flat[·]?) ∧
      picked.length = (idx.take d.numberOfElements).length := by
    generalize idx.take d.numberOfElements = l at hp
    clear hlen
    induction l generalizing picked with
    | nil => simp [List.mapM_nil, pure, Except.pure] at hp; simp [← hp]
    | cons i l ih =>
      simp only [List.mapM_cons, bind_ok, require_ok, ofOpt_ok, pure_ok, decide_eq_true_eq] at hp
      obtain ⟨x, ⟨_, hi, hx⟩, rest, hrest, rfl⟩ := hp
      rw [d.numberOfElements_eq] at hi
      rw [elementAt_eq_flat d hne i hi] at hx
      simp [hx, ih rest hrest]
  have hl : d.partitioning.sum = picked.length := by
    rw [hpick.2, List.length_take]; simp only [Data.numberOfElements] at hlen ⊢; omega
  refine ⟨?_, splitBySizes_lengths _ _ (Nat.le_of_eq hl), rfl⟩
  simp only [Data.flat] at hpick ⊢
  rw [splitBySizes_flatten _ _ hl]; exact hpick.1

/-- with a permutation as index vector (what `shuffle` passes) the multiset of elements is unchanged -/
theorem reorderElements_perm (d d' : Data ε) (idx : List Nat) (hne : allPos d.partitioning)
    (hperm : idx.Perm (List.range d.numberOfElements)) (h : d.reorderElements idx = .ok d') :
    d'.flat.Perm d.flat := by
  have hlen : idx.length = d.numberOfElements := by simpa using hperm.length_eq
  have := (reorderElements_flat d d' idx hne h).1
  rw [← hlen, List.take_length] at this
  have h2 : (idx.map (d.flat[·]?)).Perm ((List.range d.numberOfElements).map (d.flat[·]?)) := hperm.map _
  have h3 : (List.range d.numberOfElements).map (d.flat[·]?) = d.flat.map some := by
    rw [d.numberOfElements_eq]
    apply List.ext_getElem?
    intro i
    by_cases hi : i < d.flat.length
    · simp [hi]
    · simp [hi]
  rw [← this, h3] at h2
  have := h2.filterMap id
  simpa [List.filterMap_map] using this

/-! ## C. the element iterator -/

/-- for every partition into non-empty batches: iterating `elements()` forward, indexing with
`element(i)`, iterating backward from `end()` and reading batch by batch all yield the same sequence -/
theorem element_eq_iter_eq_batch (d : Data ε) (hne : allPos d.partitioning) :
    d.container.elementsFwd = d.flat.map some ∧
    d.container.elementsIdx = d.flat.map some ∧
    d.container.elementsRev.reverse = d.flat.map some := by
  have hs := d.sum_partitioning
  refine ⟨?_, ?_, ?_⟩
  · have := walkFwd_eq d hne d.flat.length 0 (by omega)
    rw [canon_zero _ hne] at this
    simpa [Container.elementsFwd, Data.container, hs] using this
  · simp only [Container.elementsIdx, Data.container, hs]
    apply List.ext_getElem?
    intro i
    by_cases hi : i < d.flat.length
    · simp only [List.getElem?_map, List.getElem?_range hi, Option.map_some]
      have := elementAt_eq_flat d hne i hi
      simp only [Data.container] at this
      rw [this, List.getElem?_eq_getElem hi]; rfl
    · simp [hi]
  · have := walkRev_eq d hne d.flat.length (Nat.le_refl _)
    rw [← hs, canon_end] at this
    simp only [Container.elementsRev, Data.container]
    rw [hs] at this ⊢
    simp only [Data.container] at this
    rw [this]; simp

/-- `++it` and `--it` are inverse to each other on every position, across batch borders -/
theorem iter_inc_dec_inverse (sizes : List Nat) (hne : allPos sizes) (p : Nat) (hp : p < sizes.sum) :
    (Iter.increment sizes (canon sizes p)).bind (Iter.decrement sizes) = some (canon sizes p) ∧
    (Iter.decrement sizes (canon sizes (p + 1))).bind (Iter.increment sizes) = some (canon sizes (p + 1)) := by
  simp [increment_canon sizes hne p hp, decrement_canon sizes hne p hp]

/-- `begin + i` lands on the canonical (batch, offset) of position i and dereferences to the i-th element -/
theorem iter_advance_from_begin (d : Data ε) (hne : allPos d.partitioning) (i : Nat) (hi : i < d.flat.length) :
    d.container.elementAt i = d.flat[i]? := elementAt_eq_flat d hne i hi

/-- **iter_advance_correct**: for every partition into non-empty batches, every position `p ≤ total` and every
signed distance `n` with `0 ≤ p + n ≤ total`, `it += n` started on the canonical (batch, offset) of `p` lands on
the canonical (batch, offset) of `p + n` (crossing any number of batch borders in either direction), and
dereferencing there yields element `p + n` of the flat sequence -/
theorem iter_advance_correct (d : Data ε) (hne : allPos d.partitioning) (p : Nat) (hp : p ≤ d.flat.length) (n : Int)
    (h0 : 0 ≤ (p : Int) + n) (h1 : (p : Int) + n ≤ d.flat.length) :
    Iter.advance d.partitioning (canon d.partitioning p) n = some (canon d.partitioning ((p : Int) + n).toNat) ∧
    (((p : Int) + n).toNat < d.flat.length →
      d.container.deref (canon d.partitioning ((p : Int) + n).toNat) = d.flat[((p : Int) + n).toNat]?) := by
  have hs := d.sum_partitioning
  refine ⟨advance_canon d.partitioning hne p (by omega) n h0 (by omega), fun hq => deref_canon d _ hq⟩

/-- witness for the hypothesis `allPos` (no empty batch) of the iterator theorems: with an empty batch in the
middle (`Data(numBatches)` creates such datasets) `++it` from position 0 lands *on* the empty batch (1, 0), not on
the canonical position (2, 0) of element 1 — the C++ then reads `getBatchElement(emptyBatch, 0)`.  The real
containers never produce empty batches through the operations of this property (checked by the oracle). -/
theorem iter_needs_nonempty_batches_witness :
    Iter.increment [1, 0, 2] (canon [1, 0, 2] 0) = some ⟨1, 0, 1⟩ ∧ canon [1, 0, 2] 1 = ⟨2, 0, 1⟩ := by decide

/-! ## D. LabeledData: same partitioning, pairs never separated -/

/-- inputs and labels are partitioned identically -/
def WF (d : LabeledData ι κ) : Prop := d.inputs.partitioning = d.labels.partitioning

/-- the sequence of (input, label) pairs -/
def pairs (d : LabeledData ι κ) : List (ι × κ) := List.zip d.inputs.flat d.labels.flat

/-- reading labelled batches pairs the i-th input with the i-th label -/
theorem flat_eq_pairs (d : LabeledData ι κ) (h : WF d) : d.flat = pairs d := by
  simp only [LabeledData.flat, pairs, Data.flat]
  exact zip_flatten d.inputs.batches d.labels.batches h

theorem createFromRange_pairs (xs : List ι) (ls : List κ) (m : Nat) (shI shL : Shape) (hlen : xs.length = ls.length)
    (hn : 0 < xs.length) (hm : 0 < m) :
    ∃ d, LabeledData.createFromRange xs ls m shI shL = .ok d ∧ WF d ∧ pairs d = List.zip xs ls := by
  obtain ⟨di, hi, hif, hip, _⟩ := createDataFromRange_flat xs m shI hn hm
  obtain ⟨dl, hl, hlf, hlp, _⟩ := createDataFromRange_flat ls m shL (hlen ▸ hn) hm
  refine ⟨⟨di, dl⟩, ?_, ?_, ?_⟩
  · have : di.numberOfElements = dl.numberOfElements := by
      rw [di.numberOfElements_eq, dl.numberOfElements_eq, hif, hlf, hlen]
    simp [LabeledData.createFromRange, hlen, Nat.ne_of_gt hm, hi, hl, bind, Except.bind, LabeledData.mk', this]
  · simp [WF, hip, hlp, hlen]
  · simp [pairs, hif, hlf]

theorem repartition_pairs (d d' : LabeledData ι κ) (sizes : List Nat) (h : d.repartition sizes = .ok d') :
    WF d' ∧ pairs d' = pairs d ∧ d'.partitioning = sizes := by
  simp only [LabeledData.repartition, bind_ok, pure_ok] at h
  obtain ⟨i, hi, l, hl, rfl⟩ := h
  obtain ⟨hif, hip, _⟩ := repartition_flat _ _ _ hi
  obtain ⟨hlf, hlp, _⟩ := repartition_flat _ _ _ hl
  exact ⟨by simp [WF, hip, hlp], by simp [pairs, hif, hlf], hip⟩

theorem splitBatch_pairs (d d' : LabeledData ι κ) (b k : Nat) (h : d.splitBatch b k = .ok d') :
    pairs d' = pairs d := by
  simp only [LabeledData.splitBatch, bind_ok, pure_ok] at h
  obtain ⟨i, hi, l, hl, rfl⟩ := h
  simp [pairs, (splitBatch_flat _ _ _ _ hi).1, (splitBatch_flat _ _ _ _ hl).1]

theorem append_pairs (d o : LabeledData ι κ) (hd : WF d) : pairs (d.append o) = pairs d ++ pairs o := by
  have hlen : d.inputs.flat.length = d.labels.flat.length := by
    rw [← Data.numberOfElements_eq, ← Data.numberOfElements_eq]
    simp only [Data.numberOfElements]; rw [hd]
  simp only [pairs, LabeledData.append, (append_flat _ _).1]
  exact List.zip_append hlen

/-- `reorderElements` / `shuffle` move inputs and labels by the same index vector: pair j of the result
is pair `indices[j]` of the source -/
theorem reorderElements_pairs (d d' : LabeledData ι κ) (idx : List Nat) (hd : WF d)
    (hne : allPos d.inputs.partitioning) (h : d.reorderElements idx = .ok d') :
    WF d' ∧ (pairs d').map some = (idx.take d.numberOfElements).map ((pairs d)[·]?) := by
  simp only [LabeledData.reorderElements, bind_ok, pure_ok] at h
  obtain ⟨i, hi, l, hl, rfl⟩ := h
  obtain ⟨hif, hip, _⟩ := reorderElements_flat _ _ _ hne hi
  obtain ⟨hlf, hlp, _⟩ := reorderElements_flat _ _ _ (hd ▸ hne) hl
  have hn : d.labels.numberOfElements = d.inputs.numberOfElements := by
    simp only [Data.numberOfElements]; rw [hd]
  refine ⟨by show i.partitioning = l.partitioning; rw [hip, hlp]; exact hd, ?_⟩
  simp only [pairs, LabeledData.numberOfElements]
  rw [hn] at hlf
  generalize idx.take d.inputs.numberOfElements = l' at hif hlf
  apply List.ext_getElem?
  intro j
  have h1 := congrArg (·[j]?) hif
  have h2 := congrArg (·[j]?) hlf
  simp only [List.getElem?_map, getElem?_zip_bind] at h1 h2 ⊢
  cases hlj : l'[j]? with
  | none =>
    simp only [hlj, Option.map_none, Option.map_eq_none_iff] at h1 h2 ⊢
    simp [h1]
  | some x =>
    simp only [hlj, Option.map_some] at h1 h2 ⊢
    cases ha : i.flat[j]? <;> cases hb : l.flat[j]? <;> cases hA : d.inputs.flat[x]? <;>
      cases hB : d.labels.flat[x]? <;> simp_all

theorem WF_flat_length (d : LabeledData ι κ) (h : WF d) : d.inputs.flat.length = d.labels.flat.length := by
  rw [← Data.numberOfElements_eq, ← Data.numberOfElements_eq]
  simp only [Data.numberOfElements]; rw [h]

theorem pairs_length (d : LabeledData ι κ) (h : WF d) : (pairs d).length = d.numberOfElements := by
  simp [pairs, LabeledData.numberOfElements, d.inputs.numberOfElements_eq, WF_flat_length d h]

/-- `transformLabels` / `oneVersusRestProblem`: inputs untouched, every label replaced by its image, pairing kept -/
theorem transformLabels_pairs {κ' : Type} (d : LabeledData ι κ) (f : κ → κ') (sh : Shape) (h : WF d) :
    ∃ d', d.transformLabels f sh = .ok d' ∧ WF d' ∧ pairs d' = (pairs d).map (fun p => (p.1, f p.2)) ∧
      d'.inputs = d.inputs := by
  have hn : d.inputs.numberOfElements = (d.labels.transform f sh).numberOfElements := by
    simp only [Data.numberOfElements, (transform_flat d.labels f sh).2]; rw [h]
  refine ⟨⟨d.inputs, d.labels.transform f sh⟩, by simp [LabeledData.transformLabels, LabeledData.mk', hn], ?_, ?_, rfl⟩
  · show d.inputs.partitioning = (d.labels.transform f sh).partitioning
    rw [(transform_flat d.labels f sh).2]; exact h
  · simp only [pairs, (transform_flat d.labels f sh).1]
    rw [List.zip_map_right]
    apply List.map_congr_left; intro p _; rfl

/-- `transformInputs`: labels untouched, every input replaced by its image, pairing kept -/
theorem transformInputs_pairs {ι' : Type} (d : LabeledData ι κ) (f : ι → ι') (sh : Shape) (h : WF d) :
    ∃ d', d.transformInputs f sh = .ok d' ∧ WF d' ∧ pairs d' = (pairs d).map (fun p => (f p.1, p.2)) := by
  have hn : (d.inputs.transform f sh).numberOfElements = d.labels.numberOfElements := by
    simp only [Data.numberOfElements, (transform_flat d.inputs f sh).2]; rw [h]
  refine ⟨⟨d.inputs.transform f sh, d.labels⟩, by simp [LabeledData.transformInputs, LabeledData.mk', hn], ?_, ?_⟩
  · show (d.inputs.transform f sh).partitioning = d.labels.partitioning
    rw [(transform_flat d.inputs f sh).2]; exact h
  · simp only [pairs, (transform_flat d.inputs f sh).1]
    rw [List.zip_map_left]
    apply List.map_congr_left; intro p _; rfl

/-- `push_back(inputBatch, labelBatch)` with batches of equal size appends exactly those pairs and keeps the
dataset well-formed -/
theorem pushBack_pairs (d : LabeledData ι κ) (bi : List ι) (bl : List κ) (hd : WF d) (hlen : bi.length = bl.length) :
    WF (d.pushBack bi bl) ∧ pairs (d.pushBack bi bl) = pairs d ++ List.zip bi bl := by
  refine ⟨?_, ?_⟩
  · show (d.inputs.pushBack bi).partitioning = (d.labels.pushBack bl).partitioning
    have h1 : d.inputs.partitioning = d.labels.partitioning := hd
    simp only [Data.pushBack, Data.partitioning, List.map_append, List.map_cons, List.map_nil] at h1 ⊢
    rw [h1, hlen]
  · simp only [pairs, LabeledData.pushBack, pushBack_flat]
    exact List.zip_append (WF_flat_length d hd)

theorem splice_partitioning (d l r : Data ε) (b : Nat) (h : d.splice b = .ok (l, r)) :
    l.partitioning = d.partitioning.take b ∧ r.partitioning = d.partitioning.drop b := by
  simp only [Data.splice, bind_ok, require_ok, pure_ok, Prod.mk.injEq] at h
  obtain ⟨_, _, rfl, rfl⟩ := h
  simp [Data.partitioning, List.map_take, List.map_drop]

/-- `splice`: both parts stay well-formed and their pair sequences concatenate to the original -/
theorem splice_pairs (d l r : LabeledData ι κ) (b : Nat) (hd : WF d) (h : d.splice b = .ok (l, r)) :
    WF l ∧ WF r ∧ pairs l ++ pairs r = pairs d ∧ l.partitioning = d.partitioning.take b := by
  simp only [LabeledData.splice, bind_ok, pure_ok, Prod.mk.injEq] at h
  obtain ⟨⟨il, ir⟩, hi, ⟨ll, lr⟩, hl, x, hmk, rfl, rfl⟩ := h
  simp only [LabeledData.mk'] at hmk
  split at hmk
  · simp only [Except.ok.injEq] at hmk; subst hmk
    obtain ⟨hip, hir⟩ := splice_partitioning _ _ _ _ hi
    obtain ⟨hlp, hlr⟩ := splice_partitioning _ _ _ _ hl
    have hwl : WF (⟨il, ll⟩ : LabeledData ι κ) := by show il.partitioning = ll.partitioning; rw [hip, hlp, hd]
    have hwr : WF (⟨ir, lr⟩ : LabeledData ι κ) := by show ir.partitioning = lr.partitioning; rw [hir, hlr, hd]
    refine ⟨hwl, hwr, ?_, hip⟩
    simp only [pairs]
    rw [← (splice_flat _ _ _ _ hi).1, ← (splice_flat _ _ _ _ hl).1]
    exact (List.zip_append (WF_flat_length _ hwl)).symm
  · simp at hmk

/-- the scan of `splitAtElement`: it stops at the first batch whose end reaches `k` -/
theorem splitScan_spec (P : List Nat) : ∀ (batchPos batchStart k bp bs : Nat),
    LabeledData.splitScan P batchPos batchStart k = some (bp, bs) →
    ∃ j s, bp = batchPos + j ∧ P[j]? = some s ∧ bs = batchStart + (P.take j).sum ∧ k ≤ bs + s ∧
      (bs < k ∨ j = 0) := by
  induction P with
  | nil => intro _ _ _ _ _ h; simp [LabeledData.splitScan] at h
  | cons s rest ih =>
    intro batchPos batchStart k bp bs h
    unfold LabeledData.splitScan at h
    split at h
    · rename_i hlt
      obtain ⟨j, s', hbp, hs', hbs, hk, hj⟩ := ih _ _ _ _ _ h
      refine ⟨j + 1, s', by omega, by simpa using hs', by simp [List.take_succ_cons]; omega, hk, Or.inl ?_⟩
      rcases hj with hj | hj
      · exact hj
      · subst hj; simp at hbs; omega
    · rename_i hge
      simp only [Option.some.injEq, Prod.mk.injEq] at h
      obtain ⟨rfl, rfl⟩ := h
      exact ⟨0, s, rfl, by simp, by simp, by omega, Or.inr rfl⟩

theorem zip_map_fst_snd' {α β : Type} (l : List (α × β)) : List.zip (l.map (·.1)) (l.map (·.2)) = l := by
  induction l with
  | nil => rfl
  | cons a l ih => simp [ih]

/-! ### indexed subsets and complements -/

/-- the elements of `indexedSubset(indices)` are the listed batches in the listed order -/
theorem indexedSubset_elements (d d' : Data ε) (idx : List Nat) (h : d.indexedSubset idx = .ok d') :
    d'.flat = idx.flatMap (fun i => d.batches.getD i []) ∧ ∀ i ∈ idx, i < d.numberOfBatches :=
  indexedSubset_flat d d' idx h

/-- `indexedSubset(indices, subset, complement)`: for a duplicate-free index set, subset and complement
together hold exactly the elements of the dataset (a permutation: nothing lost, nothing duplicated) -/
theorem indexedSubset_complement_perm (d s c : Data ε) (idx : List Nat) (hnd : idx.Nodup)
    (h : d.indexedSubsetCompl idx = .ok (s, c)) : (s.flat ++ c.flat).Perm d.flat := by
  simp only [Data.indexedSubsetCompl, bind_ok, pure_ok, Prod.mk.injEq] at h
  obtain ⟨s', hs, c', hc, rfl, rfl⟩ := h
  exact subset_complement_elements d s' c' idx hnd hs hc

/-- LabeledData::indexedSubset applies the same batch indices to inputs and labels: well-formedness is
kept and batch j of the result pairs input batch `idx[j]` with label batch `idx[j]` -/
theorem indexedSubset_pairs (d d' : LabeledData ι κ) (idx : List Nat) (hd : WF d) (h : d.indexedSubset idx = .ok d') :
    WF d' ∧ d'.inputs.batches.map some = idx.map (d.inputs.batches[·]?) ∧
      d'.labels.batches.map some = idx.map (d.labels.batches[·]?) ∧ pairs d' = d'.flat := by
  simp only [LabeledData.indexedSubset, bind_ok] at h
  obtain ⟨i, hi, l, hl, hmk⟩ := h
  simp only [LabeledData.mk'] at hmk
  split at hmk
  · simp only [Except.ok.injEq] at hmk; subst hmk
    have h1 := (indexedSubset_batches _ _ _ hi).1
    have h2 := (indexedSubset_batches _ _ _ hl).1
    have hw : WF (⟨i, l⟩ : LabeledData ι κ) := by
      show i.partitioning = l.partitioning
      have e1 : i.partitioning.map some = idx.map (d.inputs.partitioning[·]?) := by
        have := congrArg (List.map (Option.map List.length)) h1
        simpa [Data.partitioning, List.map_map, Function.comp_def] using this
      have e2 : l.partitioning.map some = idx.map (d.labels.partitioning[·]?) := by
        have := congrArg (List.map (Option.map List.length)) h2
        simpa [Data.partitioning, List.map_map, Function.comp_def] using this
      rw [hd] at e1
      have := e1.trans e2.symm
      have h4 := congrArg (List.filterMap id) this
      simpa [List.filterMap_map] using h4
    exact ⟨hw, h1, h2, (flat_eq_pairs _ hw).symm⟩
  · simp at hmk

/-! ### DataView -/

/-- `DataView(dataset)` lists every (input, label) pair of a well-formed dataset, in order -/
theorem view_lists_dataset (d : LabeledData ι κ) (h : WF d) : (View.ofDataset d).elements = (pairs d).map some := by
  rw [view_elements d h, flat_eq_pairs d h]

theorem view_go_index : ∀ (sizes : List Nat) (b idx0 : Nat),
    (View.ofDataset.go sizes b idx0).map (·.datasetIndex) = List.range' idx0 sizes.sum := by
  intro sizes
  induction sizes with
  | nil => intro b idx0; simp [View.ofDataset.go]
  | cons s rest ih =>
    intro b idx0
    simp only [View.ofDataset.go, List.map_append, List.map_map, ih, List.sum_cons]
    rw [← List.range'_append_1]
    congr 1
    apply List.ext_getElem (by simp)
    intro i h1 h2
    simp

/-- `DataView::index(i)`: the view of a dataset numbers its elements 0 … n-1 in order, and a subset reports the dataset
indices of the elements it picked (`subset(v, idx).index(j) = v.index(idx[j])`) -/
theorem view_index (d : LabeledData ι κ) (v w : View ι κ) (idx : List Nat) (h : v.subset idx = .ok w) :
    (View.ofDataset d).indices.map (·.datasetIndex) = List.range d.numberOfElements ∧
    w.indices.map (fun ix => some ix.datasetIndex) = idx.map (fun i => (v.indices[i]?).map (·.datasetIndex)) := by
  constructor
  · simp only [View.ofDataset, view_go_index, LabeledData.numberOfElements, Data.numberOfElements, LabeledData.partitioning]
    exact List.range_eq_range'.symm
  · simp only [View.subset, bind_ok, pure_ok] at h
    obtain ⟨r, hr, rfl⟩ := h
    simp only
    induction idx generalizing r with
    | nil => simp [List.mapM_nil, pure, Except.pure] at hr; subst hr; simp
    | cons i idx ih =>
      simp only [List.mapM_cons, bind_ok, ofOpt_ok, pure_ok] at hr
      obtain ⟨x, hx, r', hr', rfl⟩ := hr
      simp [hx, ih r' hr']

/-- **view_subset_comp**: element j of `subset(view, idx)` is element `idx[j]` of the view; hence a subset of a
subset is the subset by the composed index vector -/
theorem view_subset_comp (v w u : View ι κ) (a b : List Nat) (h1 : v.subset a = .ok w) (h2 : w.subset b = .ok u) :
    w.elements = a.map (fun i => (v.elements[i]?).join) ∧
    u.elements = b.map (fun j => ((a[j]?).bind fun i => v.elements[i]?).join) := by
  obtain ⟨hw, _, _⟩ := subset_elements v w a h1
  obtain ⟨hu, _, _⟩ := subset_elements w u b h2
  refine ⟨hw, ?_⟩
  rw [hu, hw]
  apply List.map_congr_left
  intro j _
  simp only [List.getElem?_map]
  cases a[j]? <;> simp

theorem sum_replicate' (k x : Nat) : (List.replicate k x).sum = k * x := by
  induction k with
  | zero => simp
  | succ k ih => simp [List.replicate_succ, ih, Nat.succ_mul, Nat.add_comm]

theorem initializeBatchSizes_sum (n bs : Nat) (l : List Nat) (h : initializeBatchSizes n bs = some l) : l.sum = n := by
  unfold initializeBatchSizes at h
  by_cases hc : bs = 0 ∨ bs > n
  · rw [if_pos hc] at h; simp only [Option.some.injEq] at h; simp [← h]
  · have hb0 : bs ≠ 0 := by omega
    rw [if_neg hc] at h
    simp only [if_false, cdiv, cmod, hb0, Option.bind_eq_bind, Option.bind_some, Option.bind_eq_some_iff, csub] at h
    obtain ⟨full, hfull, last, hlast, hl⟩ := h
    by_cases h1 : 1 ≤ n / bs + (if n % bs > 0 then 1 else 0)
    · simp only [h1, if_true, Option.some.injEq] at hfull
      by_cases h2 : full * bs ≤ n
      · simp only [h2, if_true, Option.some.injEq] at hlast
        simp only [Option.pure_def, Option.some.injEq] at hl
        subst hl
        simp [List.sum_append, sum_replicate']
        omega
      · simp [h2] at hlast
    · simp [h1] at hfull

/-- **toDataset_view**: `toDataset(view, batchSize)` of a non-empty view is a well-formed dataset whose
(input, label) sequence is exactly the view's element sequence (so `toDataset(subset(toView(d), idx))` is the
gather of `d` by `idx`), in batches whose sizes sum to the view size -/
theorem toDataset_view (v : View ι κ) (bs : Nat) (d' : LabeledData ι κ) (hs : v.size ≠ 0)
    (h : v.toDataset bs = .ok d') :
    WF d' ∧ (pairs d').map some = v.elements ∧ d'.numberOfElements = v.size := by
  simp only [View.toDataset, hs, if_false, bind_ok, ofOpt_ok, pure_ok] at h
  obtain ⟨els, hels, sizes, hsz, rfl⟩ := h
  have hsum := initializeBatchSizes_sum _ _ _ hsz
  have hel := mapM_id_some _ _ hels
  have hlen : els.length = v.size := by
    have := congrArg List.length hel
    simpa [View.elements] using this.symm
  have h1 : sizes.sum = (els.map (·.1)).length := by simp [hsum, hlen]
  have h2 : sizes.sum = (els.map (·.2)).length := by simp [hsum, hlen]
  refine ⟨?_, ?_, ?_⟩
  · show (splitBySizes _ sizes).map List.length = (splitBySizes _ sizes).map List.length
    rw [splitBySizes_lengths _ _ (Nat.le_of_eq h1), splitBySizes_lengths _ _ (Nat.le_of_eq h2)]
  · simp only [pairs, Data.flat]
    rw [splitBySizes_flatten _ _ h1, splitBySizes_flatten _ _ h2, zip_map_fst_snd', hel]
  · simp only [LabeledData.numberOfElements, Data.numberOfElements, Data.partitioning]
    rw [splitBySizes_lengths _ _ (Nat.le_of_eq h1), hsum]

/-! ## E. arbitrary operation histories -/

/-- how `splitBatch b k` changes a partitioning -/
def splitPart (P : List Nat) (b k : Nat) : List Nat :=
  match P[b]? with
  | some s => if k = 0 ∨ k = s then P else P.take b ++ [k, s - k] ++ P.drop (b + 1)
  | none => P

theorem splitBatch_partitioning (d d' : Data ε) (b k : Nat) (h : d.splitBatch b k = .ok d') :
    d'.partitioning = splitPart d.partitioning b k ∧ (∀ s, d.partitioning[b]? = some s → k ≤ s) := by
  simp only [Data.splitBatch, bind_ok, require_ok, ofOpt_ok, decide_eq_true_eq] at h
  obtain ⟨src, hsrc, _, hk, h⟩ := h
  have hp : d.partitioning[b]? = some src.length := by simp [Data.partitioning, hsrc]
  refine ⟨?_, fun s hs => by rw [hp] at hs; cases hs; exact hk⟩
  simp only [splitPart, hp]
  split at h
  · rename_i hc; simp only [pure_ok] at h; subst h; simp [hc]
  · rename_i hc; simp only [pure_ok] at h; subst h
    simp [hc, Data.partitioning, List.map_take, List.map_drop, List.length_take, List.length_drop]
    omega

theorem allPos_splitPart (P : List Nat) (b k : Nat) (hP : allPos P) (hk : ∀ s, P[b]? = some s → k ≤ s) :
    allPos (splitPart P b k) := by
  unfold splitPart
  cases hb : P[b]? with
  | none => simpa using hP
  | some s =>
    simp only
    split
    · exact hP
    · rename_i hc
      have := hk s hb
      intro x hx
      simp only [List.mem_append, List.mem_cons, List.not_mem_nil, or_false] at hx
      rcases hx with (hx | hx | hx) | hx
      · exact hP x (List.mem_of_mem_take hx)
      · omega
      · omega
      · exact hP x (List.mem_of_mem_drop hx)

theorem splitBatch_WF (d d' : LabeledData ι κ) (b k : Nat) (hd : WF d) (h : d.splitBatch b k = .ok d') :
    WF d' ∧ d'.inputs.partitioning = splitPart d.inputs.partitioning b k ∧
      (∀ s, d.inputs.partitioning[b]? = some s → k ≤ s) := by
  simp only [LabeledData.splitBatch, bind_ok, pure_ok] at h
  obtain ⟨i, hi, l, hl, rfl⟩ := h
  obtain ⟨hip, hik⟩ := splitBatch_partitioning _ _ _ _ hi
  obtain ⟨hlp, _⟩ := splitBatch_partitioning _ _ _ _ hl
  exact ⟨by show i.partitioning = l.partitioning; rw [hip, hlp, hd], hip, hik⟩

theorem sum_take_succ (P : List Nat) (j s : Nat) (h : P[j]? = some s) : (P.take (j + 1)).sum = (P.take j).sum + s := by
  have hj : j < P.length := by
    rcases Nat.lt_or_ge j P.length with hlt | hge
    · exact hlt
    · rw [List.getElem?_eq_none hge] at h; simp at h
  rw [List.take_succ_eq_append_getElem hj, List.sum_append]
  have : P[j] = s := by rw [List.getElem?_eq_getElem hj] at h; exact Option.some.inj h
  simp [this]

/-- **splitAtElement(data, k)**: the first `k` (input, label) pairs stay, the rest is returned, both parts are
well-formed, nothing is lost, duplicated or re-paired — for every partitioning and every `k ≤ n` -/
theorem splitAtElement_pairs (d l r : LabeledData ι κ) (k : Nat) (hd : WF d) (h : d.splitAtElement k = .ok (l, r)) :
    WF l ∧ WF r ∧ pairs l ++ pairs r = pairs d ∧ (pairs l).length = k := by
  simp only [LabeledData.splitAtElement, bind_ok, require_ok, ofOpt_ok, decide_eq_true_eq] at h
  obtain ⟨_, _, ⟨bp, bs⟩, hscan, sp, hsp, h⟩ := h
  obtain ⟨j, s, hbp, hs, hbs, hk, hj⟩ := splitScan_spec _ _ _ _ _ _ hscan
  simp only [Nat.zero_add] at hbp hbs
  have hbp' : j = bp := hbp.symm
  subst hbp'
  simp only [csub] at hsp
  split at hsp
  · rename_i hle
    simp only [Option.some.injEq] at hsp
    subst hsp
    simp only [LabeledData.partitioning] at hs hbs
    by_cases h0 : k - bs = 0
    · simp only [h0, ne_eq, not_true_eq_false, if_false] at h
      obtain ⟨hwl, hwr, hpairs, hlp⟩ := splice_pairs d l r j hd h
      refine ⟨hwl, hwr, hpairs, ?_⟩
      rw [pairs_length l hwl]
      simp only [LabeledData.numberOfElements, Data.numberOfElements]
      have : l.inputs.partitioning = d.inputs.partitioning.take j := hlp
      rw [this]; omega
    · simp only [h0, ne_eq, not_false_eq_true, if_true, bind_ok] at h
      obtain ⟨d', hsb, hspl⟩ := h
      obtain ⟨hwd', hpart, _⟩ := splitBatch_WF d d' j (k - bs) hd hsb
      have hpd := splitBatch_pairs d d' j (k - bs) hsb
      obtain ⟨hwl, hwr, hpairs, hlp⟩ := splice_pairs d' l r (j + 1) hwd' hspl
      refine ⟨hwl, hwr, by rw [hpairs, hpd], ?_⟩
      rw [pairs_length l hwl]
      simp only [LabeledData.numberOfElements, Data.numberOfElements]
      have hl' : l.inputs.partitioning = d'.inputs.partitioning.take (j + 1) := hlp
      rw [hl', hpart]
      simp only [splitPart, hs]
      have hjlt : j < d.inputs.partitioning.length := by
        rcases Nat.lt_or_ge j d.inputs.partitioning.length with hlt | hge
        · exact hlt
        · rw [List.getElem?_eq_none hge] at hs; simp at hs
      by_cases hc : k - bs = 0 ∨ k - bs = s
      · simp only [hc, if_true]
        rw [sum_take_succ _ _ _ hs]; omega
      · simp only [hc, if_false]
        have hlen : (d.inputs.partitioning.take j).length = j := by rw [List.length_take]; omega
        rw [List.append_assoc, List.take_append, hlen, List.take_of_length_le (by omega)]
        have e1 : j + 1 - j = 1 := by omega
        rw [e1]
        simp [List.sum_append]
        omega
  · simp at hsp

/-- the structure-changing operations a client can apply to one labelled dataset -/
inductive Op where
  | repartition (sizes : List Nat)
  | splitBatch (b k : Nat)
  | reorder (idx : List Nat)        -- reorderElements / shuffle (idx = the permutation drawn)

def Op.apply (d : LabeledData ι κ) : Op → R (LabeledData ι κ)
  | .repartition sizes => d.repartition sizes
  | .splitBatch b k => d.splitBatch b k
  | .reorder idx => d.reorderElements idx

/-- `reorder` is given a permutation of the element indices (what `shuffle` draws); the other
preconditions are checked by the model itself (`.ok`) -/
def Op.valid (d : LabeledData ι κ) : Op → Prop
  | .reorder idx => idx.Perm (List.range d.numberOfElements)
  | _ => True

/-- `Reach d d'`: d' is obtained from d by some finite history of valid, successful operations -/
inductive Reach : LabeledData ι κ → LabeledData ι κ → Prop where
  | refl (d : LabeledData ι κ) : Reach d d
  | step {d d' d'' : LabeledData ι κ} (op : Op) : Reach d d' → op.valid d' → op.apply d' = .ok d'' → Reach d d''

/-- invariant of the history theorem -/
def Inv (d : LabeledData ι κ) : Prop := WF d ∧ allPos d.inputs.partitioning

theorem step_preserves (d d' : LabeledData ι κ) (op : Op) (hinv : Inv d) (hv : op.valid d) (h : op.apply d = .ok d') :
    Inv d' ∧ (pairs d').Perm (pairs d) := by
  obtain ⟨hwf, hne⟩ := hinv
  cases op with
  | repartition sizes =>
    have h' := h
    simp only [Op.apply, LabeledData.repartition, bind_ok, pure_ok] at h'
    obtain ⟨i, hi, l, _, rfl⟩ := h'
    obtain ⟨hw, hp, hs⟩ := repartition_pairs d _ sizes h
    simp only [Data.repartition, bind_ok, require_ok, pure_ok, Bool.and_eq_true] at hi
    obtain ⟨_, _, _, ⟨_, hall⟩, _⟩ := hi
    refine ⟨⟨hw, ?_⟩, by rw [hp]⟩
    have : LabeledData.partitioning (⟨i, l⟩ : LabeledData ι κ) = sizes := hs
    simp only [LabeledData.partitioning] at this
    rw [this]; exact allPos_of_all sizes hall
  | splitBatch b k =>
    have hp := splitBatch_pairs d d' b k h
    simp only [Op.apply, LabeledData.splitBatch, bind_ok, pure_ok] at h
    obtain ⟨i, hi, l, hl, rfl⟩ := h
    obtain ⟨hip, hik⟩ := splitBatch_partitioning _ _ _ _ hi
    obtain ⟨hlp, _⟩ := splitBatch_partitioning _ _ _ _ hl
    refine ⟨⟨?_, ?_⟩, by rw [hp]⟩
    · show i.partitioning = l.partitioning
      rw [hip, hlp, hwf]
    · show allPos i.partitioning
      rw [hip]; exact allPos_splitPart _ _ _ hne hik
  | reorder idx =>
    obtain ⟨hw, hp⟩ := reorderElements_pairs d d' idx hwf hne h
    have h' := h
    simp only [Op.apply, LabeledData.reorderElements, bind_ok, pure_ok] at h'
    obtain ⟨i, hi, l, _, rfl⟩ := h'
    obtain ⟨_, hip, _⟩ := reorderElements_flat _ _ _ hne hi
    refine ⟨⟨hw, by show allPos i.partitioning; rw [hip]; exact hne⟩, ?_⟩
    have hv' : idx.Perm (List.range d.numberOfElements) := hv
    have hlen : idx.length = d.numberOfElements := by simpa using hv'.length_eq
    rw [← hlen, List.take_length] at hp
    have hpl : (pairs d).length = d.numberOfElements := by
      have hlen2 : d.inputs.flat.length = d.labels.flat.length := by
        rw [← Data.numberOfElements_eq, ← Data.numberOfElements_eq]
        simp only [Data.numberOfElements]; rw [hwf]
      simp [pairs, LabeledData.numberOfElements, d.inputs.numberOfElements_eq, hlen2]
    have h2 : (idx.map ((pairs d)[·]?)).Perm ((List.range d.numberOfElements).map ((pairs d)[·]?)) := hv'.map _
    have h3 : (List.range d.numberOfElements).map ((pairs d)[·]?) = (pairs d).map some := by
      rw [← hpl]
      apply List.ext_getElem?
      intro j
      by_cases hj : j < (pairs d).length
      · simp [hj]
      · simp [hj]
    rw [← hp, h3] at h2
    have := h2.filterMap id
    simpa [List.filterMap_map] using this

/-- **every finite history** of repartition / splitBatch / reorderElements / shuffle operations on a
well-formed labelled dataset with non-empty batches leaves the multiset of (input, label) pairs
unchanged, keeps inputs and labels in the same partitioning and keeps all batches non-empty -/
theorem ops_preserve_multiset (d d' : LabeledData ι κ) (hinv : Inv d) (h : Reach d d') :
    Inv d' ∧ (pairs d').Perm (pairs d) := by
  induction h with
  | refl => exact ⟨hinv, List.Perm.refl _⟩
  | step op _ hv ha ih =>
    obtain ⟨hi, hp⟩ := ih
    obtain ⟨hi', hp'⟩ := step_preserves _ _ op hi hv ha
    exact ⟨hi', hp'.trans hp⟩

/-- … and in every reachable state the access paths agree and the batch sizes sum to the element count -/
theorem reachable_access_paths (d d' : LabeledData ι κ) (hinv : Inv d) (h : Reach d d') :
    d'.inputs.container.elementsFwd = d'.inputs.flat.map some ∧
    d'.inputs.container.elementsIdx = d'.inputs.flat.map some ∧
    d'.inputs.container.elementsRev.reverse = d'.inputs.flat.map some ∧
    d'.inputs.partitioning.sum = d'.inputs.flat.length := by
  obtain ⟨⟨_, hne⟩, _⟩ := ops_preserve_multiset d d' hinv h
  obtain ⟨h1, h2, h3⟩ := element_eq_iter_eq_batch d'.inputs hne
  exact ⟨h1, h2, h3, d'.inputs.sum_partitioning⟩

/-- **element_eq_iter_eq_batch for labelled datasets**: for every well-formed labelled dataset with non-empty
batches, `elements()`, `element(i)`, reverse iteration and batch-wise reading all yield the (input, label) pairs -/
theorem labeled_element_eq_iter_eq_batch (d : LabeledData ι κ) (hinv : Inv d) :
    d.container.elementsFwd = (pairs d).map some ∧
    d.container.elementsIdx = (pairs d).map some ∧
    d.container.elementsRev.reverse = (pairs d).map some ∧
    d.flat = pairs d :=
  let ⟨h1, h2, h3⟩ := labeled_access_paths d hinv.1 hinv.2
  ⟨h1, h2, h3, flat_eq_pairs d hinv.1⟩

/-- … in every state reachable by a history of structural operations -/
theorem reachable_labeled_access_paths (d d' : LabeledData ι κ) (hinv : Inv d) (h : Reach d d') :
    d'.container.elementsFwd = (pairs d').map some ∧
    d'.container.elementsIdx = (pairs d').map some ∧
    d'.container.elementsRev.reverse = (pairs d').map some ∧
    d'.flat = pairs d' ∧ (pairs d').Perm (pairs d) := by
  obtain ⟨hinv', hp⟩ := ops_preserve_multiset d d' hinv h
  obtain ⟨h1, h2, h3, h4⟩ := labeled_element_eq_iter_eq_batch d' hinv'
  exact ⟨h1, h2, h3, h4, hp⟩

/-! ### histories over two datasets (elements moving between them) -/

theorem splice_inv (d l r : LabeledData ι κ) (b : Nat) (hd : Inv d) (h : d.splice b = .ok (l, r)) : Inv l ∧ Inv r := by
  obtain ⟨hwl, hwr, _, _⟩ := splice_pairs d l r b hd.1 h
  simp only [LabeledData.splice, bind_ok, pure_ok, Prod.mk.injEq] at h
  obtain ⟨⟨il, ir⟩, hi, ⟨ll, lr⟩, _, x, hmk, rfl, rfl⟩ := h
  simp only [LabeledData.mk'] at hmk
  split at hmk
  · simp only [Except.ok.injEq] at hmk; subst hmk
    obtain ⟨hip, hir⟩ := splice_partitioning _ _ _ _ hi
    refine ⟨⟨hwl, ?_⟩, ⟨hwr, ?_⟩⟩
    · show allPos il.partitioning
      rw [hip]; exact fun x hx => hd.2 x (List.mem_of_mem_take hx)
    · show allPos ir.partitioning
      rw [hir]; exact fun x hx => hd.2 x (List.mem_of_mem_drop hx)
  · simp at hmk

theorem splitAtElement_inv (d l r : LabeledData ι κ) (k : Nat) (hd : Inv d) (h : d.splitAtElement k = .ok (l, r)) :
    Inv l ∧ Inv r := by
  simp only [LabeledData.splitAtElement, bind_ok, require_ok, ofOpt_ok] at h
  obtain ⟨_, _, ⟨bp, bs⟩, _, sp, _, h⟩ := h
  by_cases h0 : sp = 0
  · simp only [h0, ne_eq, not_true_eq_false, if_false] at h
    exact splice_inv d l r _ hd h
  · simp only [h0, ne_eq, not_false_eq_true, if_true, bind_ok] at h
    obtain ⟨d', hsb, hspl⟩ := h
    obtain ⟨hwd', hpart, hk⟩ := splitBatch_WF d d' bp sp hd.1 hsb
    have hinv' : Inv d' := ⟨hwd', by rw [hpart]; exact allPos_splitPart _ _ _ hd.2 hk⟩
    exact splice_inv d' l r _ hinv' hspl

theorem append_inv (a b : LabeledData ι κ) (ha : Inv a) (hb : Inv b) : Inv (a.append b) := by
  refine ⟨?_, ?_⟩
  · show (a.inputs.append b.inputs).partitioning = (a.labels.append b.labels).partitioning
    simp only [Data.append, Data.partitioning, List.map_append]
    have h1 : a.inputs.partitioning = a.labels.partitioning := ha.1
    have h2 : b.inputs.partitioning = b.labels.partitioning := hb.1
    simp only [Data.partitioning] at h1 h2
    rw [h1, h2]
  · show allPos (a.inputs.append b.inputs).partitioning
    simp only [Data.append, Data.partitioning, List.map_append]
    intro x hx
    rcases List.mem_append.mp hx with hx | hx
    · exact ha.2 x hx
    · exact hb.2 x hx

theorem empty_inv : Inv (LabeledData.empty : LabeledData ι κ) :=
  ⟨rfl, fun x hx => by simp [LabeledData.empty, Data.empty, Data.partitioning] at hx⟩

/-- operations on a pair of datasets: local structural operations on either one, and the two operations that
move elements between them -/
inductive Op2 where
  | left (op : Op)
  | right (op : Op)
  | splitAt (k : Nat)          -- b = splitAtElement(a, k)   (b must be empty before)
  | appendMove                 -- a.append(b); b = {}
  | swap

def Op2.valid (s : LabeledData ι κ × LabeledData ι κ) : Op2 → Prop
  | .left op => op.valid s.1
  | .right op => op.valid s.2
  | .splitAt _ => pairs s.2 = []
  | _ => True

def Op2.apply (s : LabeledData ι κ × LabeledData ι κ) : Op2 → R (LabeledData ι κ × LabeledData ι κ)
  | .left op => do pure (← op.apply s.1, s.2)
  | .right op => do pure (s.1, ← op.apply s.2)
  | .splitAt k => s.1.splitAtElement k
  | .appendMove => pure (s.1.append s.2, LabeledData.empty)
  | .swap => pure (s.2, s.1)

inductive Reach2 : LabeledData ι κ × LabeledData ι κ → LabeledData ι κ × LabeledData ι κ → Prop where
  | refl (s : LabeledData ι κ × LabeledData ι κ) : Reach2 s s
  | step {s s' s'' : LabeledData ι κ × LabeledData ι κ} (op : Op2) :
      Reach2 s s' → op.valid s' → op.apply s' = .ok s'' → Reach2 s s''

/-- **ops_preserve_multiset, two datasets**: every finite history of local operations, `splitAtElement` into the
(empty) second dataset, appending the second onto the first and swapping keeps both datasets well-formed with
non-empty batches and keeps the multiset of all (input, label) pairs held by the two together -/
theorem ops2_preserve_multiset (s s' : LabeledData ι κ × LabeledData ι κ) (h1 : Inv s.1) (h2 : Inv s.2)
    (h : Reach2 s s') :
    Inv s'.1 ∧ Inv s'.2 ∧ (pairs s'.1 ++ pairs s'.2).Perm (pairs s.1 ++ pairs s.2) := by
  induction h with
  | refl => exact ⟨h1, h2, List.Perm.refl _⟩
  | @step t t' op _ hv ha ih =>
    obtain ⟨i1, i2, hp⟩ := ih
    cases op with
    | left op =>
      simp only [Op2.apply, bind_ok, pure_ok] at ha
      obtain ⟨x, hx, rfl⟩ := ha
      obtain ⟨hi, hpp⟩ := step_preserves _ _ op i1 hv hx
      exact ⟨hi, i2, (hpp.append_right _).trans hp⟩
    | right op =>
      simp only [Op2.apply, bind_ok, pure_ok] at ha
      obtain ⟨x, hx, rfl⟩ := ha
      obtain ⟨hi, hpp⟩ := step_preserves _ _ op i2 hv hx
      exact ⟨i1, hi, (hpp.append_left _).trans hp⟩
    | splitAt k =>
      simp only [Op2.apply] at ha
      obtain ⟨l, r⟩ := t'
      obtain ⟨il, ir⟩ := splitAtElement_inv _ _ _ k i1 ha
      obtain ⟨_, _, hpairs, _⟩ := splitAtElement_pairs _ _ _ k i1.1 ha
      have hv' : pairs t.2 = [] := hv
      refine ⟨il, ir, ?_⟩
      show (pairs l ++ pairs r).Perm _
      rw [hpairs]
      rw [hv', List.append_nil] at hp
      exact hp
    | appendMove =>
      simp only [Op2.apply, pure_ok] at ha
      subst ha
      refine ⟨append_inv _ _ i1 i2, empty_inv, ?_⟩
      show (pairs (t.1.append t.2) ++ pairs LabeledData.empty).Perm _
      rw [append_pairs _ _ i1.1]
      simpa [pairs, LabeledData.empty, Data.empty, Data.flat] using hp
    | swap =>
      simp only [Op2.apply, pure_ok] at ha
      subst ha
      exact ⟨i2, i1, List.perm_append_comm.trans hp⟩

/-! ## F. class-wise repartitioning -/

/-- **repartitionByClass**: whenever the call succeeds (for any label multiset — gaps included — and any
maximum batch size), the result is well-formed, is a permutation of the original (input, label) pairs, and is
exactly the original sequence gathered by the class-order index vector (all members of class 0 in their
original order, then class 1, …) -/
theorem repartitionByClass_perm (d d' : CData ι) (bs : Nat) (hw : WF d) (h : repartitionByClass d bs = .ok d') :
    WF d' ∧ (pairs d').Perm (pairs d) ∧
    (pairs d').map some =
      (classOrder d.labels.flat (d.labels.flat.foldl max 0 + 1)).map ((pairs d)[·]?) := by
  simp only [repartitionByClass, bind_ok, ofOpt_ok] at h
  obtain ⟨counts, hcounts, ⟨_, _, sizes⟩, _, d1, hrep, labs, hlabs, hreo⟩ := h
  -- class counts
  simp only [classSizes, numberOfClasses, bind_ok, require_ok, pure_ok] at hcounts
  obtain ⟨C, ⟨_, _, hC⟩, hcnt⟩ := hcounts
  have hclen : counts.length = d.labels.flat.foldl max 0 + 1 := by rw [← hcnt, ← hC]; simp
  -- after repartition
  obtain ⟨hw1, hp1, hpart1⟩ := repartition_pairs d d1 sizes hrep
  have hne1 : allPos d1.inputs.partitioning := by
    have hr := hrep
    simp only [LabeledData.repartition, bind_ok, pure_ok] at hr
    obtain ⟨i, hi, l, _, rfl⟩ := hr
    have hip := (repartition_flat _ _ _ hi).2.1
    simp only [Data.repartition, bind_ok, require_ok, pure_ok, Bool.and_eq_true] at hi
    obtain ⟨_, _, _, ⟨_, hall⟩, _⟩ := hi
    show allPos i.partitioning
    rw [hip]; exact allPos_of_all sizes hall
  -- the labels read through the element iterator
  have hfwd := labeled_elementsFwd d1 hw1 hne1
  have hl := mapM_id_some _ _ hlabs
  rw [hfwd] at hl
  have hlabs' : labs = pairs d1 := by
    have h4 := congrArg (List.filterMap id) hl
    simpa [List.filterMap_map, pairs] using h4.symm
  have hlenfl : d.inputs.flat.length = d.labels.flat.length := WF_flat_length d hw
  have hsnd : labs.map (·.2) = d.labels.flat := by
    rw [hlabs', hp1]
    simp only [pairs]
    apply List.map_snd_zip; omega
  rw [hsnd, hclen] at hreo
  -- the index vector is a permutation of all positions
  have hbound : ∀ l ∈ d.labels.flat, l < d.labels.flat.foldl max 0 + 1 := by
    intro l hl
    have := (foldl_max_ge d.labels.flat 0).1 l hl
    omega
  have hperm := classOrder_perm d.labels.flat _ hbound
  have hn1 : d1.numberOfElements = d.labels.flat.length := by
    rw [← pairs_length d1 hw1, hp1]; simp [pairs, hlenfl]
  have hv : (Op.reorder (classOrder d.labels.flat (d.labels.flat.foldl max 0 + 1))).valid d1 := by
    show (classOrder _ _).Perm (List.range d1.numberOfElements)
    rw [hn1]; exact hperm
  obtain ⟨⟨hw2, _⟩, hp2⟩ := step_preserves d1 d' (.reorder _) ⟨hw1, hne1⟩ hv hreo
  refine ⟨hw2, hp1 ▸ hp2, ?_⟩
  have := (reorderElements_pairs d1 d' _ hw1 hne1 hreo).2
  rw [hp1] at this
  rw [this]
  have hlen : (classOrder d.labels.flat (d.labels.flat.foldl max 0 + 1)).length = d1.numberOfElements := by
    rw [hperm.length_eq, hn1]; simp
  rw [← hlen, List.take_length]

/-- **repartitionByClass_sorted**: after a successful `repartitionByClass` the labels appear in ascending
order (the elements are grouped by class), for every label multiset incl. absent classes -/
theorem repartitionByClass_sorted (d d' : CData ι) (bs : Nat) (hw : WF d) (h : repartitionByClass d bs = .ok d') :
    ((pairs d').map (·.2)).Pairwise (· ≤ ·) := by
  obtain ⟨_, _, hexp⟩ := repartitionByClass_perm d d' bs hw h
  have hlen := WF_flat_length d hw
  have h1 := congrArg (List.map (fun o : Option (ι × Nat) => (o.map (·.2)).getD 0)) hexp
  simp only [List.map_map] at h1
  have e1 : (List.map ((fun o : Option (ι × Nat) => (o.map (·.2)).getD 0) ∘ some) (pairs d')) = (pairs d').map (·.2) := by
    apply List.map_congr_left; intro x _; rfl
  have e2 : List.map ((fun o : Option (ι × Nat) => (o.map (·.2)).getD 0) ∘ fun x => (pairs d)[x]?)
      (classOrder d.labels.flat (d.labels.flat.foldl max 0 + 1)) =
      (classOrder d.labels.flat (d.labels.flat.foldl max 0 + 1)).map (fun i => d.labels.flat[i]?.getD 0) := by
    apply List.map_congr_left
    intro i _
    simp only [Function.comp, pairs, getElem?_zip_bind]
    cases ha : d.inputs.flat[i]? with
    | none =>
      have : d.inputs.flat.length ≤ i := by
        rcases Nat.lt_or_ge i d.inputs.flat.length with hlt | hge
        · rw [List.getElem?_eq_getElem hlt] at ha; simp at ha
        · exact hge
      rw [List.getElem?_eq_none (by omega : d.labels.flat.length ≤ i)]
      simp
    | some a => cases hb : d.labels.flat[i]? <;> simp
  rw [e1, e2] at h1
  rw [h1]
  exact classOrder_sorted _ _

/-- **binarySubProblem, exactly as the C++ scans**: with non-empty batches, let `fl` be the label of the first
element of every batch.  The function takes the first maximal run of batches with `fl = smaller`, then the first
later maximal run with `fl = bigger`, and returns those batches (in that order, inputs paired with their labels:
`indexedSubset_pairs`) with every label `l` replaced by `[l = oneClass]` (`transformLabels_pairs`); it throws iff
one of the two runs does not exist.  On a class-grouped dataset (what `repartitionByClass` leaves) these runs are
all batches of the two classes. -/
theorem binarySubProblem_spec (d : CData ι) (hne : ∀ b ∈ d.labels.batches, b ≠ []) (c0 c1 : Nat) :
    let sm := min c0 c1
    let bg := max c0 c1
    let fl := d.labels.batches.map (·[0]?)
    let l1 := fl.dropWhile (fun x => x != some sm)
    let s1 := (fl.takeWhile (fun x => x != some sm)).length
    let k1 := (l1.takeWhile (fun x => x == some sm)).length
    let l2 := l1.dropWhile (fun x => x == some sm)
    let l3 := l2.dropWhile (fun x => x != some bg)
    let s2 := s1 + k1 + (l2.takeWhile (fun x => x != some bg)).length
    let k2 := (l3.takeWhile (fun x => x == some bg)).length
    binarySubProblem d c0 c1 =
      if l1.isEmpty then .error .exception
      else if l3.isEmpty then .error .exception
      else (d.indexedSubset ((List.range k1).map (· + s1) ++ (List.range k2).map (· + s2))) >>= fun sub =>
        sub.transformLabels (fun l => if l = c1 then 1 else 0) [] := by
  intro sm bg fl l1 s1 k1 l2 l3 s2 k2
  exact bsp_aux d hne c0 c1 sm bg fl l1 l2 l3 s1 k1 s2 k2 rfl rfl rfl rfl rfl rfl rfl rfl rfl rfl

theorem ne_some_comp (c : Nat) : ((fun x : Option Nat => x != some c) ∘ some) = (fun x : Nat => x != c) := by
  funext x
  by_cases h : x = c
  · simp [h]
  · simp [h, bne, show (some x == some c) = false from by simp [h], show (x == c) = false from by simp [h]]
theorem eq_some_comp (c : Nat) : ((fun x : Option Nat => x == some c) ∘ some) = (fun x : Nat => x == c) := by
  funext x
  by_cases h : x = c <;> simp [h]

/-- **binarySubProblem_exact**: on a dataset whose batches are non-empty and whose batch classes (label of the
first element of each batch) `cls` are sorted ascending — what `repartitionByClass` leaves — a successful
`binarySubProblem(data, c0, c1)` with c0 ≠ c1 returns exactly the batches of class min(c0,c1) followed by the batches
of class max(c0,c1) (all of them, in order), with every label `l` replaced by `[l = c1]` -/
theorem binarySubProblem_exact (d : CData ι) (hne : ∀ b ∈ d.labels.batches, b ≠ []) (c0 c1 : Nat) (hc : c0 ≠ c1)
    (cls : List Nat) (hfl : d.labels.batches.map (·[0]?) = cls.map some) (hs : cls.Pairwise (· ≤ ·))
    (d' : CData ι) (h : binarySubProblem d c0 c1 = .ok d') :
    ∃ sub, d.indexedSubset (idxs (min c0 c1) cls 0 ++ idxs (max c0 c1) cls 0) = .ok sub ∧
      sub.transformLabels (fun l => if l = c1 then 1 else 0) [] = .ok d' := by
  have hspec := binarySubProblem_spec d hne c0 c1
  simp only [hfl, List.dropWhile_map, List.takeWhile_map, ne_some_comp, eq_some_comp, List.length_map,
    List.isEmpty_map] at hspec
  rw [hspec] at h
  by_cases e1 : (cls.dropWhile (fun x => x != min c0 c1)).isEmpty = true
  · simp [e1] at h
  · simp only [e1, Bool.false_eq_true, if_false] at h
    by_cases e3 : (((cls.dropWhile (fun x => x != min c0 c1)).dropWhile (fun x => x == min c0 c1)).dropWhile
        (fun x => x != max c0 c1)).isEmpty = true
    · simp [e3] at h
    · simp only [e3, Bool.false_eq_true, if_false, bind_ok] at h
      obtain ⟨sub, hsub, htr⟩ := h
      have hlt : min c0 c1 < max c0 c1 := by omega
      have hruns := runs_eq_idxs cls hs (min c0 c1) (max c0 c1) hlt _ _ _ _ _ _ _ rfl rfl rfl rfl rfl rfl rfl
        (by intro h0; simp [h0] at e1) (by intro h0; simp [h0] at e3)
      rw [hruns.1, hruns.2] at hsub
      exact ⟨sub, hsub, htr⟩

/-- `oneVersusRestProblem`: inputs untouched, label `l` becomes `[l = oneClass]` -/
theorem oneVersusRest_pairs (d : CData ι) (c : Nat) (h : WF d) :
    ∃ d', oneVersusRestProblem d c = .ok d' ∧ WF d' ∧
      pairs d' = (pairs d).map (fun p => (p.1, if p.2 = c then 1 else 0)) := by
  obtain ⟨d', h1, h2, h3, _⟩ := transformLabels_pairs d (fun l => if l = c then 1 else 0) [] h
  exact ⟨d', h1, h2, h3⟩

/-- the labels after `repartitionByClass`: class by class, as many copies of each class as it has members -/
theorem repartitionByClass_labels (d d' : CData ι) (bs : Nat) (hw : WF d) (h : repartitionByClass d bs = .ok d') :
    d'.labels.flat = (List.range (d.labels.flat.foldl max 0 + 1)).flatMap
      (fun c => List.replicate (d.labels.flat.count c) c) := by
  obtain ⟨hw', _, hexp⟩ := repartitionByClass_perm d d' bs hw h
  have hlen := WF_flat_length d hw
  have h1 := congrArg (List.map (fun o : Option (ι × Nat) => (o.map (·.2)).getD 0)) hexp
  simp only [List.map_map] at h1
  have e1 : (List.map ((fun o : Option (ι × Nat) => (o.map (·.2)).getD 0) ∘ some) (pairs d')) = (pairs d').map (·.2) := by
    apply List.map_congr_left; intro x _; rfl
  have e2 : List.map ((fun o : Option (ι × Nat) => (o.map (·.2)).getD 0) ∘ fun x => (pairs d)[x]?)
      (classOrder d.labels.flat (d.labels.flat.foldl max 0 + 1)) =
      (classOrder d.labels.flat (d.labels.flat.foldl max 0 + 1)).map (fun i => d.labels.flat[i]?.getD 0) := by
    apply List.map_congr_left
    intro i _
    simp only [Function.comp, pairs, getElem?_zip_bind]
    cases ha : d.inputs.flat[i]? with
    | none =>
      have : d.inputs.flat.length ≤ i := by
        rcases Nat.lt_or_ge i d.inputs.flat.length with hlt | hge
        · rw [List.getElem?_eq_getElem hlt] at ha; simp at ha
        · exact hge
      rw [List.getElem?_eq_none (by omega : d.labels.flat.length ≤ i)]
      simp
    | some a => cases hb : d.labels.flat[i]? <;> simp
  rw [e1, e2, classOrder_labels] at h1
  rw [← h1]
  simp only [pairs]
  exact (List.map_snd_zip (by rw [WF_flat_length d' hw']; exact Nat.le_refl _)).symm

/-- **layout after repartitionByClass** (source returning no batch for zero elements, `hz`): the label batches
are, class by class in ascending order, the block of that class' labels cut into the batch sizes
`optimalBatchSizes` gives for the class count — so every batch is non-empty and holds one class only -/
theorem repartitionByClass_layout (d d' : CData ι) (bs : Nat) (hw : WF d) (hbs : 0 < bs)
    (hz : optimalBatchSizes 0 bs = some []) (h : repartitionByClass d bs = .ok d') :
    d'.labels.batches = ((List.range (d.labels.flat.foldl max 0 + 1)).map
        (fun c => List.replicate (d.labels.flat.count c) c)).flatMap
      (fun blk => splitBySizes blk (obs0 bs blk.length)) := by
  have hlab := repartitionByClass_labels d d' bs hw h
  obtain ⟨hw', _, _⟩ := repartitionByClass_perm d d' bs hw h
  -- the partitioning of the result
  have hpart : d'.labels.partitioning =
      ((List.range (d.labels.flat.foldl max 0 + 1)).map (fun c => d.labels.flat.count c)).flatMap (obs0 bs) := by
    simp only [repartitionByClass, bind_ok, ofOpt_ok] at h
    obtain ⟨counts, hcounts, ⟨nb, st, sizes⟩, hbp, d1, hrep, labs, _, hreo⟩ := h
    simp only [classSizes, numberOfClasses, bind_ok, require_ok, pure_ok] at hcounts
    obtain ⟨C, ⟨_, _, hC⟩, hcnt⟩ := hcounts
    subst hC
    have hspec := batchPartitioning_eq counts [] [] bs (obs0 bs) (fun p _ => by
      unfold obs0
      by_cases h0 : p = 0
      · subst h0; simpa using hz
      · simp only [h0, if_false]; exact optimalBatchSizes_defined (Nat.pos_of_ne_zero h0) hbs)
    rw [hspec] at hbp
    simp only [List.nil_append, Option.some.injEq, Prod.mk.injEq] at hbp
    obtain ⟨_, _, hsizes⟩ := hbp
    obtain ⟨hw1, _, hpart1⟩ := repartition_pairs d d1 sizes hrep
    have hne1 : allPos d1.inputs.partitioning := by
      have hr := hrep
      simp only [LabeledData.repartition, bind_ok, pure_ok] at hr
      obtain ⟨i, hi, l, _, rfl⟩ := hr
      have hip := (repartition_flat _ _ _ hi).2.1
      simp only [Data.repartition, bind_ok, require_ok, pure_ok, Bool.and_eq_true] at hi
      obtain ⟨_, _, _, ⟨_, hall⟩, _⟩ := hi
      show allPos i.partitioning
      rw [hip]; exact allPos_of_all sizes hall
    have hr := hreo
    simp only [LabeledData.reorderElements, bind_ok, pure_ok] at hr
    obtain ⟨i, _, l, hl, rfl⟩ := hr
    have hlp := (reorderElements_flat _ _ _ (hw1 ▸ hne1) hl).2.1
    show l.partitioning = _
    rw [hlp, ← hw1]
    have : d1.inputs.partitioning = sizes := hpart1
    rw [this, ← hsizes, ← hcnt]
  have hb := batches_eq_split d'.labels.batches
  have hflat : d'.labels.batches.flatten = d'.labels.flat := rfl
  have hp2 : d'.labels.batches.map List.length = d'.labels.partitioning := rfl
  rw [hflat, hp2, hlab, hpart] at hb
  rw [← hb]
  have hfl : (List.range (d.labels.flat.foldl max 0 + 1)).flatMap (fun c => List.replicate (d.labels.flat.count c) c) =
      ((List.range (d.labels.flat.foldl max 0 + 1)).map (fun c => List.replicate (d.labels.flat.count c) c)).flatten := by
    rw [List.flatMap_def]
  rw [hfl]
  have hsz : ((List.range (d.labels.flat.foldl max 0 + 1)).map (fun c => d.labels.flat.count c)).flatMap (obs0 bs) =
      ((List.range (d.labels.flat.foldl max 0 + 1)).map (fun c => List.replicate (d.labels.flat.count c) c)).flatMap
        (fun blk => obs0 bs blk.length) := by
    rw [List.flatMap_def, List.flatMap_def, List.map_map, List.map_map]
    congr 1
    apply List.map_congr_left
    intro c _
    simp
  rw [hsz]
  exact splitBySizes_blocks (fun blk => obs0 bs blk.length) (fun blk => by
    unfold obs0
    by_cases h0 : blk.length = 0
    · simp [h0]
    · simp only [h0, if_false]
      obtain ⟨l, hl, hs⟩ := optimalBatchSizes_sum (Nat.pos_of_ne_zero h0) hbs
      rw [optimalBatchSizes_defined (Nat.pos_of_ne_zero h0) hbs] at hl
      cases hl; exact hs) _

theorem obs0_pos (bs : Nat) (hbs : 0 < bs) (n : Nat) : ∀ s ∈ obs0 bs n, 0 < s := by
  intro s hs
  unfold obs0 at hs
  by_cases h0 : n = 0
  · simp [h0] at hs
  · simp only [h0, if_false] at hs
    obtain ⟨l, hl, hb, _⟩ := optimalBatchSizes_le_max_balanced (Nat.pos_of_ne_zero h0) hbs
    rw [optimalBatchSizes_defined (Nat.pos_of_ne_zero h0) hbs] at hl
    cases hl
    exact (hb s hs).1

theorem split_replicate_heads (c : Nat) : ∀ (sz : List Nat) (m : Nat), sz.sum = m → (∀ s ∈ sz, 0 < s) →
    (splitBySizes (List.replicate m c) sz).map (·[0]?) = List.replicate sz.length (some c) := by
  intro sz
  induction sz with
  | nil => intro m _ _; simp [splitBySizes]
  | cons s ss ih =>
    intro m hsum hpos
    simp only [List.sum_cons] at hsum
    have hs : 0 < s := hpos s (by simp)
    have hle : s ≤ m := by omega
    simp only [splitBySizes, List.map_cons, List.length_cons, List.replicate_succ, List.take_replicate,
      List.drop_replicate, Nat.min_eq_left hle]
    rw [ih (m - s) (by omega) (fun x hx => hpos x (by simp [hx]))]
    congr 1
    cases s with
    | zero => omega
    | succ k => simp [List.replicate_succ]

/-- **after repartitionByClass every batch is non-empty and holds a single class**, and the classes of the
batches (label of the first element) are sorted ascending: `cls` lists class c once per batch that
`optimalBatchSizes` allots to its members -/
theorem repartitionByClass_batches_pure (d d' : CData ι) (bs : Nat) (hw : WF d) (hbs : 0 < bs)
    (hz : optimalBatchSizes 0 bs = some []) (h : repartitionByClass d bs = .ok d') :
    (∀ b ∈ d'.labels.batches, b ≠ [] ∧ ∃ c, ∀ x ∈ b, x = c) ∧
    ∃ cls : List Nat, cls.Pairwise (· ≤ ·) ∧ d'.labels.batches.map (·[0]?) = cls.map some := by
  have hlay := repartitionByClass_layout d d' bs hw hbs hz h
  have hsumb : ∀ n, (obs0 bs n).sum = n := by
    intro n
    unfold obs0
    by_cases h0 : n = 0
    · simp [h0]
    · simp only [h0, if_false]
      obtain ⟨l, hl, hs⟩ := optimalBatchSizes_sum (Nat.pos_of_ne_zero h0) hbs
      rw [optimalBatchSizes_defined (Nat.pos_of_ne_zero h0) hbs] at hl
      cases hl; exact hs
  refine ⟨?_, ?_⟩
  · intro b hb
    rw [hlay] at hb
    simp only [List.mem_flatMap, List.mem_map, List.mem_range] at hb
    obtain ⟨blk, ⟨c, _, rfl⟩, hbm⟩ := hb
    simp only [List.length_replicate] at hbm
    refine ⟨?_, c, fun x hx => ?_⟩
    · have hl := splitBySizes_lengths (obs0 bs (d.labels.flat.count c)) (List.replicate (d.labels.flat.count c) c)
        (by simp [hsumb])
      have : b.length ∈ obs0 bs (d.labels.flat.count c) := by
        rw [← hl]; exact List.mem_map_of_mem hbm
      have := obs0_pos bs hbs _ _ this
      intro h0; rw [h0] at this; simp at this
    · have := mem_of_mem_splitBySizes _ _ b hbm x hx
      exact (List.mem_replicate.mp this).2
  · refine ⟨(List.range (d.labels.flat.foldl max 0 + 1)).flatMap
        (fun c => List.replicate (obs0 bs (d.labels.flat.count c)).length c), ?_, ?_⟩
    · rw [List.pairwise_flatMap]
      refine ⟨fun c _ => ?_, ?_⟩
      · apply List.Pairwise.imp_of_mem (R := fun _ _ => True)
        · intro a b ha hb _
          rw [(List.mem_replicate.mp ha).2, (List.mem_replicate.mp hb).2]
          exact Nat.le_refl _
        · exact List.pairwise_of_forall (fun _ _ => trivial)
      · apply List.Pairwise.imp _ List.pairwise_lt_range
        intro a b hab x hx y hy
        rw [(List.mem_replicate.mp hx).2, (List.mem_replicate.mp hy).2]
        omega
    · rw [hlay, List.map_flatMap, List.map_flatMap, List.flatMap_def, List.flatMap_def, List.map_map]
      congr 1
      apply List.map_congr_left
      intro c _
      simp only [Function.comp, List.length_replicate]
      rw [split_replicate_heads c _ _ (hsumb _) (obs0_pos bs hbs _)]
      simp

/-- **binary sub-problem of a class-repartitioned dataset**: `binarySubProblem(repartitionByClass(d), c0, c1)`
(c0 ≠ c1), when it succeeds, consists of exactly all batches of class min(c0,c1) followed by all batches of class
max(c0,c1) — every batch holding that single class — with labels replaced by `[l = c1]` -/
theorem binarySubProblem_after_repartitionByClass (d d1 d2 : CData ι) (bs : Nat) (hw : WF d) (hbs : 0 < bs)
    (hz : optimalBatchSizes 0 bs = some []) (h1 : repartitionByClass d bs = .ok d1) (c0 c1 : Nat) (hc : c0 ≠ c1)
    (h2 : binarySubProblem d1 c0 c1 = .ok d2) :
    ∃ cls : List Nat, cls.Pairwise (· ≤ ·) ∧ d1.labels.batches.map (·[0]?) = cls.map some ∧
      (∀ b ∈ d1.labels.batches, b ≠ [] ∧ ∃ c, ∀ x ∈ b, x = c) ∧
      ∃ sub, d1.indexedSubset (idxs (min c0 c1) cls 0 ++ idxs (max c0 c1) cls 0) = .ok sub ∧
        sub.transformLabels (fun l => if l = c1 then 1 else 0) [] = .ok d2 := by
  obtain ⟨hpure, cls, hs, hcls⟩ := repartitionByClass_batches_pure d d1 bs hw hbs hz h1
  obtain ⟨sub, hsub, htr⟩ := binarySubProblem_exact d1 (fun b hb => (hpure b hb).1) c0 c1 hc cls hcls hs d2 h2
  exact ⟨cls, hs, hcls, hpure, sub, hsub, htr⟩

/-! ## H. WeightedLabeledData: the weight follows its element -/

section Weighted
variable {ω : Type}

/-- gathering two lists by one index vector gathers their zip -/
theorem gather_zip {α β : Type} (a a' : List α) (b b' : List β) (idx : List Nat)
    (ha : a'.map some = idx.map (a[·]?)) (hb : b'.map some = idx.map (b[·]?)) :
    (List.zip a' b').map some = idx.map ((List.zip a b)[·]?) := by
  apply List.ext_getElem?
  intro j
  have h1 := congrArg (·[j]?) ha
  have h2 := congrArg (·[j]?) hb
  simp only [List.getElem?_map, getElem?_zip_bind] at h1 h2 ⊢
  cases hlj : idx[j]? with
  | none =>
    simp only [hlj, Option.map_none, Option.map_eq_none_iff] at h1 h2 ⊢
    simp [h1]
  | some x =>
    simp only [hlj, Option.map_some] at h1 h2 ⊢
    cases hA' : a'[j]? <;> cases hB' : b'[j]? <;> cases hA : a[x]? <;> cases hB : b[x]? <;> simp_all

/-- a gather by a permutation of all positions is a permutation -/
theorem perm_of_gather {α : Type} (l l' : List α) (idx : List Nat) (h : l'.map some = idx.map (l[·]?))
    (hp : idx.Perm (List.range l.length)) : l'.Perm l := by
  have h2 : (idx.map (l[·]?)).Perm ((List.range l.length).map (l[·]?)) := hp.map _
  have h3 : (List.range l.length).map (l[·]?) = l.map some := by
    apply List.ext_getElem?
    intro j
    by_cases hj : j < l.length
    · simp [hj]
    · simp [hj]
  rw [← h, h3] at h2
  have := h2.filterMap id
  simpa [List.filterMap_map] using this

/-- data and weights are batched alike -/
def WWF (d : WeightedData ι κ ω) : Prop := WF d.data ∧ d.data.inputs.partitioning = d.weights.partitioning

/-- the ((input, label), weight) triples -/
def triples (d : WeightedData ι κ ω) : List ((ι × κ) × ω) := List.zip (pairs d.data) d.weights.flat

def WInv (d : WeightedData ι κ ω) : Prop := WWF d ∧ allPos d.data.inputs.partitioning

theorem weighted_repartition (d d' : WeightedData ι κ ω) (sizes : List Nat) (h : d.repartition sizes = .ok d') :
    WWF d' ∧ triples d' = triples d ∧ d'.data.inputs.partitioning = sizes ∧ allPos sizes := by
  simp only [WeightedData.repartition, bind_ok, pure_ok] at h
  obtain ⟨x, hx, wts, hw, rfl⟩ := h
  obtain ⟨hwf, hp, hs⟩ := repartition_pairs d.data x sizes hx
  obtain ⟨hwf', hwp, _⟩ := repartition_flat d.weights wts sizes hw
  have hs' : x.inputs.partitioning = sizes := hs
  simp only [Data.repartition, bind_ok, require_ok, pure_ok, Bool.and_eq_true] at hw
  obtain ⟨_, _, _, ⟨_, hall⟩, _⟩ := hw
  exact ⟨⟨hwf, by rw [hs', hwp]⟩, by simp [triples, hp, hwf'], hs', allPos_of_all sizes hall⟩

theorem weighted_splitBatch (d d' : WeightedData ι κ ω) (b k : Nat) (hd : WWF d) (h : d.splitBatch b k = .ok d') :
    WWF d' ∧ triples d' = triples d ∧ d'.data.inputs.partitioning = splitPart d.data.inputs.partitioning b k ∧
      (∀ s, d.data.inputs.partitioning[b]? = some s → k ≤ s) := by
  simp only [WeightedData.splitBatch, bind_ok, pure_ok] at h
  obtain ⟨x, hx, wts, hw, rfl⟩ := h
  obtain ⟨hwf, hpart, hk⟩ := splitBatch_WF d.data x b k hd.1 hx
  have hp := splitBatch_pairs d.data x b k hx
  obtain ⟨hwp, _⟩ := splitBatch_partitioning _ _ _ _ hw
  refine ⟨⟨hwf, by rw [hpart, hwp, hd.2]⟩, ?_, hpart, hk⟩
  simp [triples, hp, (splitBatch_flat _ _ _ _ hw).1]

theorem weighted_reorder (d d' : WeightedData ι κ ω) (idx : List Nat) (hd : WInv d) (h : d.reorderElements idx = .ok d') :
    WInv d' ∧ (triples d').map some = (idx.take d.numberOfElements).map ((triples d)[·]?) := by
  simp only [WeightedData.reorderElements, bind_ok, pure_ok] at h
  obtain ⟨x, hx, wts, hw, rfl⟩ := h
  obtain ⟨⟨hwf, hiw⟩, hne⟩ := hd
  obtain ⟨hwf', hp⟩ := reorderElements_pairs d.data x idx hwf hne hx
  obtain ⟨hwflat, hwp, _⟩ := reorderElements_flat d.weights wts idx (hiw ▸ hne) hw
  have hxp : x.inputs.partitioning = d.data.inputs.partitioning := by
    simp only [LabeledData.reorderElements, bind_ok, pure_ok] at hx
    obtain ⟨i, hi, l, _, rfl⟩ := hx
    exact (reorderElements_flat _ _ _ hne hi).2.1
  have hn : d.weights.numberOfElements = d.data.numberOfElements := by
    simp only [Data.numberOfElements, LabeledData.numberOfElements]; rw [hiw]
  rw [hn] at hwflat
  refine ⟨⟨⟨hwf', by rw [hxp, hwp, hiw]⟩, by rw [hxp]; exact hne⟩, ?_⟩
  exact gather_zip _ _ _ _ _ hp hwflat

/-- the structure-changing operations on one weighted dataset; `reorder` with a permutation is `shuffle()` -/
def WOp.apply (d : WeightedData ι κ ω) : Op → R (WeightedData ι κ ω)
  | .repartition sizes => d.repartition sizes
  | .splitBatch b k => d.splitBatch b k
  | .reorder idx => d.reorderElements idx

def WOp.valid (d : WeightedData ι κ ω) : Op → Prop
  | .reorder idx => idx.Perm (List.range d.numberOfElements)
  | _ => True

inductive WReach : WeightedData ι κ ω → WeightedData ι κ ω → Prop where
  | refl (d : WeightedData ι κ ω) : WReach d d
  | step {d d' d'' : WeightedData ι κ ω} (op : Op) : WReach d d' → WOp.valid d' op → WOp.apply d' op = .ok d'' → WReach d d''

theorem triples_length (d : WeightedData ι κ ω) (h : WWF d) : (triples d).length = d.numberOfElements := by
  have h1 := pairs_length d.data h.1
  have h2 : d.weights.flat.length = d.numberOfElements := by
    rw [← Data.numberOfElements_eq]
    simp only [Data.numberOfElements, WeightedData.numberOfElements, LabeledData.numberOfElements]; rw [h.2]
  simp [triples, h1, h2, WeightedData.numberOfElements]

theorem weighted_step_preserves (d d' : WeightedData ι κ ω) (op : Op) (hinv : WInv d) (hv : WOp.valid d op)
    (h : WOp.apply d op = .ok d') : WInv d' ∧ (triples d').Perm (triples d) := by
  cases op with
  | repartition sizes =>
    obtain ⟨hw, ht, hs, hall⟩ := weighted_repartition d d' sizes h
    exact ⟨⟨hw, by rw [hs]; exact hall⟩, by rw [ht]⟩
  | splitBatch b k =>
    obtain ⟨hw, ht, hs, hk⟩ := weighted_splitBatch d d' b k hinv.1 h
    exact ⟨⟨hw, by rw [hs]; exact allPos_splitPart _ _ _ hinv.2 hk⟩, by rw [ht]⟩
  | reorder idx =>
    obtain ⟨hi, ht⟩ := weighted_reorder d d' idx hinv h
    refine ⟨hi, ?_⟩
    have hv' : idx.Perm (List.range d.numberOfElements) := hv
    have hlen : idx.length = d.numberOfElements := by simpa using hv'.length_eq
    rw [← hlen, List.take_length] at ht
    exact perm_of_gather _ _ idx ht (by rw [triples_length d hinv.1]; exact hv')

/-- **every finite history** of repartition / splitBatch / shuffle operations on a weighted labelled dataset keeps inputs,
labels and weights in one partitioning with non-empty batches and keeps the multiset of ((input, label), weight) triples:
a weight is never separated from its element -/
theorem weighted_ops_preserve_triples (d d' : WeightedData ι κ ω) (hinv : WInv d) (h : WReach d d') :
    WInv d' ∧ (triples d').Perm (triples d) := by
  induction h with
  | refl => exact ⟨hinv, List.Perm.refl _⟩
  | step op _ hv ha ih =>
    obtain ⟨hi, hp⟩ := ih
    obtain ⟨hi', hp'⟩ := weighted_step_preserves _ _ op hi hv ha
    exact ⟨hi', hp'.trans hp⟩

theorem weights_flat_length (d : WeightedData ι κ ω) (h : WWF d) : (pairs d.data).length = d.weights.flat.length := by
  rw [pairs_length d.data h.1, ← Data.numberOfElements_eq]
  simp only [LabeledData.numberOfElements, Data.numberOfElements]
  rw [h.2]

/-- `append` of weighted datasets concatenates the triples; data and weights stay batched alike -/
theorem weighted_append (d o : WeightedData ι κ ω) (hd : WWF d) (ho : WWF o) :
    WWF (d.append o) ∧ triples (d.append o) = triples d ++ triples o := by
  refine ⟨⟨?_, ?_⟩, ?_⟩
  · show (d.data.inputs.append o.data.inputs).partitioning = (d.data.labels.append o.data.labels).partitioning
    have h1 : d.data.inputs.partitioning = d.data.labels.partitioning := hd.1
    have h2 : o.data.inputs.partitioning = o.data.labels.partitioning := ho.1
    simp only [Data.append, Data.partitioning, List.map_append] at h1 h2 ⊢
    rw [h1, h2]
  · show (d.data.inputs.append o.data.inputs).partitioning = (d.weights.append o.weights).partitioning
    have h1 := hd.2
    have h2 := ho.2
    simp only [Data.append, Data.partitioning, List.map_append] at h1 h2 ⊢
    rw [h1, h2]
  · simp only [triples, WeightedData.append, append_pairs _ _ hd.1, (append_flat _ _).1]
    exact List.zip_append (weights_flat_length d hd)

/-- `splice` of a weighted dataset: both parts keep data and weights batched alike, their triples concatenate to the original -/
theorem weighted_splice (d l r : WeightedData ι κ ω) (b : Nat) (hd : WWF d) (h : d.splice b = .ok (l, r)) :
    WWF l ∧ WWF r ∧ triples l ++ triples r = triples d := by
  simp only [WeightedData.splice, bind_ok, pure_ok, Prod.mk.injEq] at h
  obtain ⟨⟨dl, dr⟩, hdata, ⟨wl, wr⟩, hw, x, hmk, rfl, rfl⟩ := h
  simp only [WeightedData.mk'] at hmk
  split at hmk
  · simp only [Except.ok.injEq] at hmk; subst hmk
    obtain ⟨hwl, hwr, hpairs, hlp⟩ := splice_pairs d.data dl dr b hd.1 hdata
    obtain ⟨hwp, hwq⟩ := splice_partitioning _ _ _ _ hw
    have hrp : dr.inputs.partitioning = d.data.inputs.partitioning.drop b := by
      simp only [LabeledData.splice, bind_ok, pure_ok, Prod.mk.injEq] at hdata
      obtain ⟨⟨il, ir⟩, hi, ⟨ll, lr⟩, _, y, hy, rfl, rfl⟩ := hdata
      simp only [LabeledData.mk'] at hy
      split at hy
      · simp only [Except.ok.injEq] at hy; subst hy
        exact (splice_partitioning _ _ _ _ hi).2
      · simp at hy
    have hlp' : dl.inputs.partitioning = d.data.inputs.partitioning.take b := hlp
    have wl_ : WWF (⟨dl, wl⟩ : WeightedData ι κ ω) := ⟨hwl, by show dl.inputs.partitioning = wl.partitioning; rw [hlp', hwp, hd.2]⟩
    have wr_ : WWF (⟨dr, wr⟩ : WeightedData ι κ ω) := ⟨hwr, by show dr.inputs.partitioning = wr.partitioning; rw [hrp, hwq, hd.2]⟩
    refine ⟨wl_, wr_, ?_⟩
    simp only [triples]
    rw [← hpairs, ← (splice_flat _ _ _ _ hw).1]
    exact (List.zip_append (weights_flat_length _ wl_)).symm
  · simp at hmk

/-- `indexedSubset` of a weighted dataset applies one index list to inputs, labels and weights -/
theorem weighted_indexedSubset (d d' : WeightedData ι κ ω) (idx : List Nat) (hd : WWF d) (h : d.indexedSubset idx = .ok d') :
    WWF d' := by
  simp only [WeightedData.indexedSubset, bind_ok, pure_ok] at h
  obtain ⟨x, hx, wts, hw, rfl⟩ := h
  obtain ⟨hwf, h1, _, _⟩ := indexedSubset_pairs d.data x idx hd.1 hx
  refine ⟨hwf, ?_⟩
  have h2 := (indexedSubset_batches _ _ _ hw).1
  have e1 : x.inputs.partitioning.map some = idx.map (d.data.inputs.partitioning[·]?) := by
    have := congrArg (List.map (Option.map List.length)) h1
    simpa [Data.partitioning, List.map_map, Function.comp_def] using this
  have e2 : wts.partitioning.map some = idx.map (d.weights.partitioning[·]?) := by
    have := congrArg (List.map (Option.map List.length)) h2
    simpa [Data.partitioning, List.map_map, Function.comp_def] using this
  rw [hd.2] at e1
  have h4 := congrArg (List.filterMap id) (e1.trans e2.symm)
  simpa [List.filterMap_map] using h4

end Weighted

/-! ## G. shared batches (`boost::shared_ptr`): structural operations never let one dataset change another -/

section Sharing
open SharkVerif.Dataset.Shared

/-- **frame**: a container does not notice that other operations allocate batches (the heap only grows) -/
theorem shared_frame {β : Type} (h e : Heap β) (p : PData) (hv : p.valid h) : p.resolve (h ++ e) = p.resolve h :=
  resolve_append h e p hv

/-- **every structural operation on shared batches** (copy, swap, makeIndependent, splitBatch, splice, repartition,
splitAtElement, append, push_back, indexedSubset, reorderElements/shuffle, creation of a fresh dataset, transformInputs,
transformLabels, DataView, view subsets) keeps all addresses valid and acts on the *values* of the slots exactly like the
value-level operation of sections B–F acts on independent datasets -/
theorem structural_op_simulates_values (w w' : World ι κ) (hv : w.Valid) (op : SOp ι κ) (h : op.run w = .ok w') :
    w'.Valid ∧ op.runV w.absD = .ok w'.absD := World.SOp.simulates w w' hv op h

/-- **every finite history** of such operations: sharing of batches is not observable -/
theorem histories_simulate_values (ops : List (SOp ι κ)) (w w' : World ι κ) (hv : w.Valid) (h : runAll w ops = .ok w') :
    w'.Valid ∧ runAllV w.absD ops = .ok w'.absD := runAll_simulates ops w w' hv h

/-- the slots an operation may change -/
def SOp.targets : SOp ι κ → List Nat
  | .copy _ b => [b]
  | .swap a b => [a, b]
  | .indep a => [a]
  | .splitBatch a _ _ => [a]
  | .splice a b _ => [a, b]
  | .repartition a _ => [a]
  | .splitAt a b _ => [a, b]
  | .append a _ => [a]
  | .pushBack a _ _ => [a]
  | .subset _ b _ => [b]
  | .reorder a _ => [a]
  | .store a _ => [a]
  | .mapInputs _ b _ _ => [b]
  | .mapLabels _ b _ _ => [b]
  | .view _ _ => []
  | .viewSubset _ _ _ => []

theorem getElem?_set_ne' {α : Type} (l : List α) (a k : Nat) (x : α) (h : k ≠ a) : (l.set a x)[k]? = l[k]? := by
  simp [List.getElem?_set, Ne.symm h]

/-- value level: an operation changes the slots it names only -/
theorem runV_frame (s s' : List (LabeledData ι κ)) (op : SOp ι κ) (h : op.runV s = .ok s') (k : Nat)
    (hk : k ∉ SOp.targets op) : s'[k]? = s[k]? := by
  cases op <;>
    simp only [SOp.runV, SOp.targets, bind_ok, ofOpt_ok, require_ok, pure_ok, List.mem_cons, List.not_mem_nil, or_false,
      not_or, List.mem_singleton] at h hk
  case copy a b => obtain ⟨_, _, _, _, rfl⟩ := h; exact getElem?_set_ne' _ _ _ _ hk
  case swap a b => obtain ⟨_, _, _, _, rfl⟩ := h; rw [getElem?_set_ne' _ _ _ _ hk.2, getElem?_set_ne' _ _ _ _ hk.1]
  case indep a => obtain ⟨_, _, rfl⟩ := h; rfl
  case splitBatch a b c => obtain ⟨_, _, _, _, rfl⟩ := h; exact getElem?_set_ne' _ _ _ _ hk
  case splice a b c =>
    obtain ⟨_, _, _, _, ⟨l, r⟩, _, rfl⟩ := h
    rw [getElem?_set_ne' _ _ _ _ hk.2, getElem?_set_ne' _ _ _ _ hk.1]
  case repartition a sz => obtain ⟨_, _, _, _, rfl⟩ := h; exact getElem?_set_ne' _ _ _ _ hk
  case splitAt a b c =>
    obtain ⟨_, _, _, _, ⟨l, r⟩, _, rfl⟩ := h
    rw [getElem?_set_ne' _ _ _ _ hk.2, getElem?_set_ne' _ _ _ _ hk.1]
  case append a b => obtain ⟨_, _, _, _, rfl⟩ := h; exact getElem?_set_ne' _ _ _ _ hk
  case pushBack a b i => obtain ⟨_, _, _, _, _, _, _, _, rfl⟩ := h; exact getElem?_set_ne' _ _ _ _ hk
  case subset a b idx => obtain ⟨_, _, _, _, _, _, rfl⟩ := h; exact getElem?_set_ne' _ _ _ _ hk
  case reorder a idx => obtain ⟨_, _, _, _, rfl⟩ := h; exact getElem?_set_ne' _ _ _ _ hk
  case store a x => obtain ⟨_, _, rfl⟩ := h; exact getElem?_set_ne' _ _ _ _ hk
  case mapInputs a b f sh => obtain ⟨_, _, _, _, _, _, rfl⟩ := h; exact getElem?_set_ne' _ _ _ _ hk
  case mapLabels a b f sh => obtain ⟨_, _, _, _, _, _, rfl⟩ := h; exact getElem?_set_ne' _ _ _ _ hk
  case view => subst h; rfl
  case viewSubset => subst h; rfl

/-- **isolation**: a structural operation on shared batches leaves the value of every dataset it does not name unchanged --
in particular every sibling that shares batches with the operand (copies, subsets, appended datasets, views' sources) -/
theorem structural_op_isolation (w w' : World ι κ) (hv : w.Valid) (op : SOp ι κ) (h : op.run w = .ok w') (k : Nat)
    (hk : k ∉ SOp.targets op) : w'.value k = w.value k := by
  obtain ⟨_, hsim⟩ := World.SOp.simulates w w' hv op h
  rw [World.value_eq, World.value_eq, runV_frame _ _ op hsim k hk]

/-- the operations that re-seat batch pointers in place demand independence: `splitBatch`, `splice` and `repartition` succeed
only if every batch pointer of the container has use-count 1 … -/
theorem guarded_ops_need_independence {β : Type} (h : Heap β) (uc : Nat → Nat) (p : PData) (hv : p.valid h) :
    (∀ b k h' p', Shared.splitBatch h uc p b k = .ok (h', p') → independent uc p = true) ∧
    (∀ b l r, Shared.splice uc p b = .ok (l, r) → independent uc p = true) ∧
    (∀ sizes h' p', Shared.repartition h uc p sizes = .ok (h', p') → independent uc p = true) :=
  ⟨fun b k h' p' hs => (splitBatch_ext h h' uc p p' b k hv hs).choose_spec.2.2,
   fun b l r hs => (splice_spec uc p l r b h hv hs).2.2.2,
   fun sizes h' p' hs => (repartition_ext h h' uc p p' sizes hs).choose_spec.2.2⟩

/-- … and on a shared container they throw ("Container is not Independent") -/
theorem splitBatch_throws_on_shared {β : Type} (h : Heap β) (uc : Nat → Nat) (p : PData) (b k a : Nat)
    (ha : p.ptrs[b]? = some a) (hk : k ≤ (cell h a).length) (hsh : independent uc p = false) :
    Shared.splitBatch h uc p b k = .error .exception := by
  simp [Shared.splitBatch, ha, ofOpt, require, hk, guardIndep, hsh, bind, Except.bind]

/-- `makeIndependent` never changes the value of the dataset (it copies the batches iff some batch is shared) -/
theorem makeIndependent_value (w w' : World ι κ) (hv : w.Valid) (a : Nat) (h : w.makeIndependent a = .ok w') (k : Nat) :
    w'.value k = w.value k := by
  obtain ⟨_, hsim⟩ := World.sim_indep w w' hv a h
  simp only [SOp.runV, bind_ok, ofOpt_ok, pure_ok] at hsim
  obtain ⟨_, _, hs⟩ := hsim
  rw [World.value_eq, World.value_eq, ← hs]

/-- **in-place writes** (`data.element(i) = x`, the only operations that overwrite an existing batch): a container that
holds none of the writer's batches does not change -/
theorem in_place_write_frame {β : Type} (h h' : Heap β) (p q : PData) (i : Nat) (x : β)
    (hs : Shared.setElement h p i x = .ok h') (hdisj : ∀ a ∈ p.ptrs, a ∉ q.ptrs) : q.resolve h' = q.resolve h :=
  (setElement_frame h h' p q i x hs hdisj).1

/-- **copy-on-write discipline**: after `D[a].makeIndependent()`, writing through an element proxy of `D[a]` changes no
other dataset -- whatever copies, subsets, appended datasets or views shared batches with it before -/
theorem write_after_makeIndependent_isolated (w w1 w2 : World ι κ) (hv : w.Valid) (a i : Nat) (x : ι) (y : κ)
    (h1 : w.makeIndependent a = .ok w1) (h2 : w1.setElement a i x y = .ok w2) (k : Nat) (hk : k ≠ a) :
    w2.value k = w.value k := World.write_after_makeIndependent_isolated w w1 w2 hv a i x y h1 h2 k hk

theorem labeled_repartition_loop_eq (d : LabeledData ι κ) (sizes : List Nat) :
    d.repartitionByLoop sizes = d.repartition sizes := by
  simp only [LabeledData.repartitionByLoop, LabeledData.repartition, repartition_loop_eq]

/-- **class-wise repartitioning on shared batches** (`repartition` + `reorderElements` at the pointer level): the value of the
dataset is what the value-level `repartitionByClass` of section F computes, no other dataset changes -/
theorem repartitionByClass_simulates_values (w w' : World ι Nat) (hv : w.Valid) (a bs : Nat)
    (h : w.repartitionByClass a bs = .ok w') :
    w'.Valid ∧ Dataset.repartitionByClass (w.value a) bs = .ok (w'.value a) ∧ ∀ k, k ≠ a → w'.value k = w.value k := by
  simp only [World.repartitionByClass, bind_ok, ofOpt_ok] at h
  obtain ⟨counts, hc, ⟨x1, x2, sizes⟩, hbp, w1, hrep, labs, hlabs, hreo⟩ := h
  obtain ⟨v1, s1⟩ := World.sim_repartition w w1 hv a sizes hrep
  obtain ⟨v2, s2⟩ := World.sim_reorder w1 w' v1 a _ hreo
  simp only [SOp.runV, bind_ok, ofOpt_ok, pure_ok] at s1 s2
  obtain ⟨x, hx, xr, hxr, e1⟩ := s1
  obtain ⟨y, hy, yr, hyr, e2⟩ := s2
  have alt : a < w.absD.length := by
    rcases Nat.lt_or_ge a w.absD.length with hlt | hge
    · exact hlt
    · rw [List.getElem?_eq_none hge] at hx; simp at hx
  have hva : w.value a = x := by rw [World.value_eq, hx]; rfl
  have hw1 : w1.value a = xr := by rw [World.value_eq, ← e1]; simp [alt]
  have hyx : y = xr := by
    rw [← e1] at hy
    simp [alt] at hy
    exact hy.symm
  subst hyx
  have alt1 : a < w1.absD.length := by rw [← e1]; simpa using alt
  have hw' : w'.value a = yr := by rw [World.value_eq, ← e2]; simp [alt1]
  refine ⟨v2, ?_, ?_⟩
  · rw [hva] at hc
    rw [hw1] at hlabs
    rw [hva, hw']
    simp only [Dataset.repartitionByClass, bind_ok, ofOpt_ok]
    exact ⟨counts, hc, (x1, x2, sizes), hbp, y, by rw [← labeled_repartition_loop_eq]; exact hxr, labs, hlabs, hyr⟩
  · intro k hk
    rw [World.value_eq, World.value_eq, ← e2, ← e1]
    simp [List.getElem?_set, Ne.symm hk]

/-- witness that the hypothesis `makeIndependent` matters: without it the write shows in the copy -/
theorem write_on_shared_changes_sibling_witness :
    let w0 : World Nat Nat := { hi := [[1, 2, 3]], hl := [[7, 8, 9]], d := [⟨⟨[0], []⟩, ⟨[0], []⟩⟩, ⟨⟨[0], []⟩, ⟨[0], []⟩⟩], v := [] }
    (w0.setElement 1 0 5 6).map (fun w => (w.value 0).flat) = .ok [(5, 6), (2, 8), (3, 9)] := by
  intro w0
  rfl

end Sharing

/-! ## I. boundary cases and index lists of any form -/

/-- `binarySubProblem` is `indexedSubset` by the scanned batch index set followed by the relabelling (the two are the
same four loops; the sharing model uses the index set to share the input batches) -/
theorem binarySubProblem_eq_indexSet (d : CData ι) (c0 c1 : Nat) :
    binarySubProblem d c0 c1 = (do
      let idx ← binaryIndexSet d c0 c1
      let sub ← d.indexedSubset idx
      sub.transformLabels (fun l => if l = c1 then 1 else 0) []) := by
  unfold binarySubProblem binaryIndexSet
  simp only [bind_assoc, pure_bind]
  congr 1; funext x
  by_cases h1 : x.1.isEmpty = true
  · simp only [h1, if_true]; rfl
  · simp only [if_neg h1, bind_assoc]
    congr 1; funext y
    congr 1; funext z
    by_cases h2 : z.1.isEmpty = true
    · simp only [h2, if_true]; rfl
    · simp only [if_neg h2, bind_assoc, pure_bind]

/-- `indexedSubset(indices, subset, complement)` for index lists of **any** form (unsorted, with duplicates, empty, all):
the subset holds the listed batches in the listed order (a batch listed twice appears twice), the complement holds exactly
the batches not listed, each once, in ascending batch order -/
theorem indexedSubset_complement_any (d s c : Data ε) (idx : List Nat) (h : d.indexedSubsetCompl idx = .ok (s, c)) :
    s.flat = idx.flatMap (fun i => d.batches.getD i []) ∧
    c.flat = (Data.complement idx d.numberOfBatches).flatMap (fun i => d.batches.getD i []) ∧
    (∀ i, i ∈ Data.complement idx d.numberOfBatches ↔ (i < d.numberOfBatches ∧ i ∉ idx)) ∧
    (Data.complement idx d.numberOfBatches).Pairwise (· < ·) := by
  simp only [Data.indexedSubsetCompl, bind_ok, pure_ok, Prod.mk.injEq] at h
  obtain ⟨s', hs, c', hc, rfl, rfl⟩ := h
  refine ⟨(indexedSubset_flat d s' idx hs).1, (indexedSubset_flat d c' _ hc).1, (complement_spec idx _).1, ?_⟩
  exact List.Pairwise.sublist List.filter_sublist List.pairwise_lt_range

/-- the two-result `indexedSubset` applied to the inputs and to the labels of a well-formed dataset (any index list) yields
two well-formed datasets: subset and complement pair every input batch with its label batch -/
theorem indexedSubsetCompl_pairs (d : LabeledData ι κ) (idx : List Nat) (hd : WF d) (si ci : Data ι) (sl cl : Data κ)
    (hi : d.inputs.indexedSubsetCompl idx = .ok (si, ci)) (hl : d.labels.indexedSubsetCompl idx = .ok (sl, cl)) :
    WF ⟨si, sl⟩ ∧ WF ⟨ci, cl⟩ := by
  simp only [Data.indexedSubsetCompl, bind_ok, pure_ok, Prod.mk.injEq] at hi hl
  obtain ⟨si', hsi, ci', hci, rfl, rfl⟩ := hi
  obtain ⟨sl', hsl, cl', hcl, rfl, rfl⟩ := hl
  have hnb : d.inputs.numberOfBatches = d.labels.numberOfBatches := by
    have := congrArg List.length hd
    simpa [Data.partitioning, Data.numberOfBatches] using this
  rw [← hnb] at hcl
  have part : ∀ (l : List Nat) (x : Data ι) (y : Data κ), d.inputs.indexedSubset l = .ok x → d.labels.indexedSubset l = .ok y →
      x.partitioning = y.partitioning := by
    intro l x y hx hy
    have h1 := (indexedSubset_batches _ _ _ hx).1
    have h2 := (indexedSubset_batches _ _ _ hy).1
    have e1 : x.partitioning.map some = l.map (d.inputs.partitioning[·]?) := by
      have := congrArg (List.map (Option.map List.length)) h1
      simpa [Data.partitioning, List.map_map, Function.comp_def] using this
    have e2 : y.partitioning.map some = l.map (d.labels.partitioning[·]?) := by
      have := congrArg (List.map (Option.map List.length)) h2
      simpa [Data.partitioning, List.map_map, Function.comp_def] using this
    rw [hd] at e1
    have h4 := congrArg (List.filterMap id) (e1.trans e2.symm)
    simpa [List.filterMap_map] using h4
  refine ⟨?_, ?_⟩
  · show si'.partitioning = sl'.partitioning
    exact part _ si' sl' hsi hsl
  · show ci'.partitioning = cl'.partitioning
    exact part _ ci' cl' hci hcl

/-- `splitAtElement` at the two ends: at 0 everything moves to the result, at n nothing does -/
theorem splitAtElement_ends (d l r : LabeledData ι κ) (k : Nat) (hd : WF d) (h : d.splitAtElement k = .ok (l, r)) :
    (k = 0 → pairs l = [] ∧ pairs r = pairs d) ∧ (k = d.numberOfElements → pairs r = [] ∧ pairs l = pairs d) := by
  obtain ⟨_, _, hcat, hlen⟩ := splitAtElement_pairs d l r k hd h
  constructor
  · intro h0
    have : pairs l = [] := List.eq_nil_of_length_eq_zero (by omega)
    exact ⟨this, by rw [← hcat, this]; rfl⟩
  · intro hn
    have hl : (pairs l).length = (pairs d).length := by rw [hlen, hn, pairs_length d hd]
    have hr : (pairs r).length = 0 := by
      have := congrArg List.length hcat
      simp only [List.length_append] at this
      omega
    have : pairs r = [] := List.eq_nil_of_length_eq_zero hr
    exact ⟨this, by rw [← hcat, this, List.append_nil]⟩

/-- `repartition` is defined only for sizes that sum to the element count (the C++ states it as `SIZE_CHECK`; with
`NDEBUG` a smaller sum silently drops the trailing elements, a larger one reads past the last batch) -/
theorem repartition_defined_only_for_matching_sum (d d' : Data ε) (sizes : List Nat) (h : d.repartition sizes = .ok d') :
    sizes.sum = d.numberOfElements := by
  simp only [Data.repartition, bind_ok, require_ok, pure_ok, decide_eq_true_eq] at h
  exact h.choose_spec.1

/-- `Data(size, element, batchSize)` / `toDataset`: all batches but the last have exactly `batchSize` elements, the last one
between 1 and `batchSize`; `batchSize = 0` or `> size` gives a single batch -- which is *empty* for `size = 0` -/
theorem initializeBatchSizes_layout (n bs : Nat) (l : List Nat) (h : initializeBatchSizes n bs = some l) :
    (bs = 0 ∨ bs > n → l = [n]) ∧
    (¬(bs = 0 ∨ bs > n) → ∃ full last, l = List.replicate full bs ++ [last] ∧ 0 < last ∧ last ≤ bs ∧ full * bs + last = n) := by
  unfold initializeBatchSizes at h
  constructor
  · intro hc; rw [if_pos hc] at h; simp only [Option.some.injEq] at h; exact h.symm
  · intro hc
    have hb0 : bs ≠ 0 := by omega
    rw [if_neg hc] at h
    simp only [cdiv, cmod, hb0, if_false, Option.bind_eq_bind, Option.bind_some, Option.bind_eq_some_iff, csub] at h
    obtain ⟨full, hfull, last, hlast, hl⟩ := h
    by_cases h1 : 1 ≤ n / bs + (if n % bs > 0 then 1 else 0)
    · simp only [h1, if_true, Option.some.injEq] at hfull
      by_cases h2 : full * bs ≤ n
      · simp only [h2, if_true, Option.some.injEq] at hlast
        simp only [Option.pure_def, Option.some.injEq] at hl
        have hdm := Nat.div_add_mod n bs
        have hml := Nat.mod_lt n (Nat.pos_of_ne_zero hb0)
        rw [Nat.mul_comm] at hdm
        generalize n / bs = q at hfull h1 hdm
        generalize n % bs = r at hfull h1 hdm hml
        by_cases hr : r > 0
        · simp only [hr, if_true] at hfull h1
          have hf : full = q := by omega
          subst hf
          exact ⟨full, last, hl.symm, by omega, by omega, by omega⟩
        · simp only [hr, if_false] at hfull h1
          have hq1 : q = full + 1 := by omega
          have hmul : q * bs = full * bs + bs := by rw [hq1, Nat.succ_mul]
          exact ⟨full, last, hl.symm, by omega, by omega, by omega⟩
      · simp [h2] at hlast
    · simp [h1] at hfull

/-- `toDataset` carries the element shapes of the viewed dataset over (repaired source; F-C03-16) and lays the elements out
in batches of `batchSize` -/
theorem toDataset_shape_layout (v : View ι κ) (bs : Nat) (d' : LabeledData ι κ) (hs : v.size ≠ 0) (h : v.toDataset bs = .ok d') :
    d'.inputs.shape = v.dataset.inputs.shape ∧ d'.labels.shape = v.dataset.labels.shape ∧
    initializeBatchSizes v.size bs = some d'.inputs.partitioning := by
  simp only [View.toDataset, hs, if_false, bind_ok, ofOpt_ok, pure_ok] at h
  obtain ⟨els, hels, sizes, hsz, rfl⟩ := h
  refine ⟨rfl, rfl, ?_⟩
  have hsum := initializeBatchSizes_sum _ _ _ hsz
  have hel := mapM_id_some _ _ hels
  have hlen : els.length = v.size := by
    have := congrArg List.length hel
    simpa [View.elements] using this.symm
  have h1 : sizes.sum ≤ (els.map (·.1)).length := by simp [hsum, hlen]
  simp only [Data.partitioning]
  rw [splitBySizes_lengths _ _ h1, hsz]

/-! ## non-vacuity -/
example : optimalBatchSizes 10 4 = some [4, 3, 3] := by decide
example : createDataFromRange [1, 2, 3, 4, 5] 2 [] = .ok (⟨[[1, 2], [3, 4], [5]], []⟩ : Data Nat) := by rfl
example : (⟨[[1, 2], [3]], []⟩ : Data Nat).repartition [1, 2] = .ok ⟨[[1], [2, 3]], []⟩ := by rfl
example : (⟨[[1, 2], [3]], []⟩ : Data Nat).splitBatch 0 1 = .ok ⟨[[1], [2], [3]], []⟩ := by rfl
example : (⟨[[1, 2], [3]], []⟩ : Data Nat).reorderElements [2, 0, 1] = .ok ⟨[[3, 1], [2]], []⟩ := by rfl
example : Iter.advance [2, 3, 1] (canon [2, 3, 1] 5) (-4) = some (canon [2, 3, 1] 1) := by decide
example : allPos (⟨[[1, 2], [3]], []⟩ : Data Nat).partitioning := by intro s hs; simp [Data.partitioning] at hs; omega
example : Inv (⟨⟨[[1, 2], [3]], []⟩, ⟨[[7, 8], [9]], []⟩⟩ : LabeledData Nat Nat) :=
  ⟨rfl, by intro s hs; simp [Data.partitioning] at hs; omega⟩
example : Reach (⟨⟨[[1, 2], [3]], []⟩, ⟨[[7, 8], [9]], []⟩⟩ : LabeledData Nat Nat)
    ⟨⟨[[3], [1, 2]], []⟩, ⟨[[9], [7, 8]], []⟩⟩ :=
  .step (d' := ⟨⟨[[1], [2, 3]], []⟩, ⟨[[7], [8, 9]], []⟩⟩) (.reorder [2, 0, 1])
    (.step (d' := ⟨⟨[[1, 2], [3]], []⟩, ⟨[[7, 8], [9]], []⟩⟩) (.repartition [1, 2]) (.refl _) trivial (by rfl))
    (by show [2, 0, 1].Perm (List.range 3); decide) (by rfl)

example : Reach2 ((⟨⟨[[1, 2], [3]], []⟩, ⟨[[7, 8], [9]], []⟩⟩ : LabeledData Nat Nat), LabeledData.empty)
    (⟨⟨[[1], [2], [3]], []⟩, ⟨[[7], [8], [9]], []⟩⟩, LabeledData.empty) :=
  .step (s' := (⟨⟨[[1]], []⟩, ⟨[[7]], []⟩⟩, ⟨⟨[[2], [3]], []⟩, ⟨[[8], [9]], []⟩⟩)) .appendMove
    (.step (s' := ((⟨⟨[[1, 2], [3]], []⟩, ⟨[[7, 8], [9]], []⟩⟩ : LabeledData Nat Nat), LabeledData.empty))
      (.splitAt 1) (.refl _) rfl (by rfl))
    trivial (by rfl)
example : repartitionByClass (⟨⟨[[10, 11], [12]], []⟩, ⟨[[2, 0], [2]], []⟩⟩ : CData Nat) 2 =
    (if optimalBatchSizes 0 2 = some [] then .ok ⟨⟨[[11], [10, 12]], []⟩, ⟨[[0], [2, 2]], []⟩⟩ else .error .undefined) := by
  first | (simp [optimalBatchSizes]; rfl) | decide | rfl

example : initializeBatchSizes 0 2 = some [0] ∧ initializeBatchSizes 7 3 = some [3, 3, 1] ∧ initializeBatchSizes 6 3 = some [3, 3] := by decide
example : (⟨[[1, 2], [3], [4]], []⟩ : Data Nat).indexedSubsetCompl [2, 0, 2] = .ok (⟨[[4], [1, 2], [4]], []⟩, ⟨[[3]], []⟩) := by rfl
example : WInv (⟨⟨⟨[[1, 2], [3]], []⟩, ⟨[[7, 8], [9]], []⟩⟩, ⟨[[10, 20], [30]], []⟩⟩ : WeightedData Nat Nat Nat) :=
  ⟨⟨rfl, rfl⟩, fun x hx => by simp [Data.partitioning] at hx; omega⟩
example : WReach (⟨⟨⟨[[1, 2], [3]], []⟩, ⟨[[7, 8], [9]], []⟩⟩, ⟨[[10, 20], [30]], []⟩⟩ : WeightedData Nat Nat Nat)
    ⟨⟨⟨[[3], [1, 2]], []⟩, ⟨[[9], [7, 8]], []⟩⟩, ⟨[[30], [10, 20]], []⟩⟩ :=
  WReach.step (.reorder [2, 0, 1]) (WReach.step (.repartition [1, 2]) (WReach.refl _) trivial rfl)
    (by show [2, 0, 1].Perm (List.range 3); decide) rfl
/-- two datasets sharing one batch: a structural operation on the copy (here `reorderElements`) leaves the original alone,
`splitBatch` on it throws -/
example :
    let w0 : Shared.World Nat Nat := { hi := [[1, 2, 3]], hl := [[7, 8, 9]], d := [⟨⟨[0], []⟩, ⟨[0], []⟩⟩, ⟨⟨[0], []⟩, ⟨[0], []⟩⟩], v := [] }
    (w0.reorderElements 1 [2, 1, 0]).map (fun w => (w.value 0, w.value 1)) =
      .ok (⟨⟨[[1, 2, 3]], []⟩, ⟨[[7, 8, 9]], []⟩⟩, ⟨⟨[[3, 2, 1]], []⟩, ⟨[[9, 8, 7]], []⟩⟩) ∧
    (w0.splitBatch 1 0 1).toOption.isNone := by
  intro w0
  exact ⟨rfl, rfl⟩
end SharkVerif.C03
