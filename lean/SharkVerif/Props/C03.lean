/-
C03 — Dataset containers keep every element, its order and its input-label pairing.
(property theorems; work in progress — see the sections below)
-/
import SharkVerif.Lemmas.BatchArith
namespace SharkVerif.C03
open SharkVerif.CheckedNat SharkVerif.Gen.BatchArith SharkVerif.BatchArith

/-- for n, m > 0 the generated `optimalBatchSizes` stays inside defined arithmetic and returns the closed form -/
theorem optimalBatchSizes_defined {n m : Nat} (hn : 0 < n) (hm : 0 < m) :
    optimalBatchSizes n m = some (obsSpec n m) := optimalBatchSizes_eq_spec hn hm

end SharkVerif.C03
