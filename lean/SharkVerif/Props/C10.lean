/-
C10 — Gradient-based optimizers report consistent solutions and make progress.

Property theorems about the models in `Model/GradOpt.lean` (tied to the real
Shark optimizers by the correspondence check `checks/c10.py`).
-/
import SharkVerif.Model.GradOpt
namespace SharkVerif.C10
open SharkVerif.Opt

variable {α : Type} [Scalar α]

/-- the reported solution is consistent with the objective -/
def Consistent (o : Objective α) (b : Best α) : Prop := b.value = o.f b.point

theorem sd_init_consistent (o : Objective α) (lr mom : α) (x0 : Vec α) :
    Consistent o (SD.init o lr mom x0).best := rfl

theorem sd_step_consistent (o : Objective α) (s : SD α) : Consistent o (s.step o).best := rfl

end SharkVerif.C10
