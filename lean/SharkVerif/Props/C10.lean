/-
C10 — Gradient-based optimizers report consistent solutions and make progress.

Property theorems about the models in `Model/GradOpt.lean` (tied to the real
Shark optimizers by the correspondence check `checks/c10.py`: bit-for-bit for
SteepestDescent/Adam/Rprop, one-step refinement for BFGS/CG/L-BFGS).

All statements quantify over every objective (arbitrary functions `f`, `grad`,
`feasible`), every starting point, every parameter setting and every number of
steps.  Statements that need no arithmetic are proved for *every* scalar type
(so they also hold of the `Float` instance the driver executes); order
statements are over `Rat`.

What is NOT proved here and only exercised by the correspondence: that the
directions of CG and L-BFGS are descent directions (for BFGS it is proved:
`linesearch_methods_monotone_bfgs`, via `Lemmas/BFGSMatrix.lean` and
`Lemmas/BFGSList.lean`); the Wolfe and dlinmin line searches (only their
contracts `LSSound`/`LSNoIncrease`/`LSDim` appear, as hypotheses, and are checked on
the real code by the harness oracle); box-feasibility of the L-BFGS dog-leg;
trust-region Newton; convergence.
-/
import SharkVerif.Lemmas.GradOpt
import SharkVerif.Gen.OptFields
import SharkVerif.Gen.LbfgsBox
import SharkVerif.Lemmas.BFGSList
import SharkVerif.Lemmas.BoxDir
import Mathlib.Tactic.Ring
import Mathlib.Tactic.FieldSimp
import Mathlib.Tactic.NormNum
namespace SharkVerif.C10
open SharkVerif.Opt

variable {α : Type} [Scalar α]

/-! ## the optimizers of the model as one state machine -/

/-- everything the optimizers take from their environment -/
structure Env (α : Type) where
  o : Objective α
  sqrt : α → α
  pow : α → Nat → α
  ls : LineSearch α

inductive Opt (α : Type) where
  | sd (s : SD α)
  | adam (s : Adam α)
  | rprop (s : Rprop α)
  | ls (s : LSOpt α)

namespace Opt
def best : Opt α → Best α
  | sd s => s.best | adam s => s.best | rprop s => s.best | ls s => s.best

def step (e : Env α) : Opt α → Opt α
  | sd s => sd (s.step e.o)
  | adam s => adam (s.step e.sqrt e.pow e.o)
  | rprop s => rprop (s.step e.o)
  | ls s => ls (s.step e.ls e.o)

/-- the states `init` can produce (any parameters, any starting point) -/
inductive IsInit (e : Env α) : Opt α → Prop
  | sd (lr mom : α) (x0 : Vec α) : IsInit e (sd (SD.init e.o lr mom x0))
  | adam (eta b1 b2 eps : α) (x0 : Vec α) : IsInit e (adam (Adam.init e.o eta b1 b2 eps x0))
  | rprop (inc dec mx mn : α) (fr bt ov : Bool) (big d0 : α) (x0 : Vec α) :
      IsInit e (rprop (Rprop.init e.o inc dec mx mn fr bt ov big d0 x0))
  | ls (kind : LSModel α) (x0 : Vec α) : IsInit e (ls (LSOpt.init e.o kind x0))

/-- the state after `n` steps -/
def run (e : Env α) (s : Opt α) : Nat → Opt α
  | 0 => s
  | n+1 => step e (run e s n)
end Opt

/-- `n`-fold iteration -/
def iterN {β : Type} (f : β → β) (s : β) : Nat → β
  | 0 => s
  | n+1 => f (iterN f s n)

/-- the reported solution is consistent with the objective -/
def Consistent (o : Objective α) (b : Best α) : Prop := b.value = o.f b.point

/-- contract of a line search: the reported value is the objective at the reported point -/
def LSSound (ls : LineSearch α) : Prop :=
  ∀ (o : Objective α) (p : Vec α) (v : α) (d g : Vec α) (t : α),
    v = o.f p → (ls o p v d g t).value = o.f (ls o p v d g t).point

/-- the backtracking line search of `LineSearch.cpp` satisfies the contract -/
theorem backtracking_sound : LSSound (backtracking (α := α)) := by
  intro o p v d g t hv
  unfold backtracking
  simp only
  split
  · next t' fnew gnew h => exact (backtrackGo_some o p d v _ _ _ _ _ _ h).1
  · exact hv

theorem computeSearchDirection_best (s : LSOpt α) : (LSOpt.computeSearchDirection s).best = s.best := by
  unfold LSOpt.computeSearchDirection
  split
  · rfl
  · simp only; split
    · rfl
    · split <;> rfl
  · rfl

theorem step_consistent (e : Env α) (hls : LSSound e.ls) (s : Opt α)
    (h : Consistent e.o s.best) : Consistent e.o (s.step e).best := by
  cases s with
  | sd s => rfl
  | adam s => rfl
  | rprop s => rfl
  | ls s =>
    simp only [Opt.step, Opt.best, LSOpt.step, computeSearchDirection_best]
    exact hls e.o _ _ _ _ _ h

/-- **best_value_is_f_best_point.**  After `init` and after every `step`, for every optimizer
of the model (steepest descent, Adam, the Rprop family, BFGS, CG, L-BFGS with any line search
satisfying `LSSound`), every objective and every number of steps:
`best.value = f best.point`. -/
theorem best_value_is_f_best_point (e : Env α) (hls : LSSound e.ls) (s0 : Opt α)
    (h0 : Opt.IsInit e s0) (n : Nat) : Consistent e.o (Opt.run e s0 n).best := by
  induction n with
  | zero => cases h0 <;> rfl
  | succ n ih => exact step_consistent e hls _ ih

/-- non-vacuity: the hypothesis `LSSound` is met by the line search that is in the model -/
example (o : Objective α) (sq : α → α) (pw : α → Nat → α) (kind : LSModel α) (x0 : Vec α) (n : Nat) :
    Consistent o (Opt.run ⟨o, sq, pw, backtracking⟩ (.ls (LSOpt.init o kind x0)) n).best :=
  best_value_is_f_best_point ⟨o, sq, pw, backtracking⟩ backtracking_sound _ (.ls kind x0) n

/-! ## the gradient kept by the line-search optimizers is the gradient of the reported point -/

def LSGradSound (ls : LineSearch α) : Prop :=
  ∀ (o : Objective α) (p : Vec α) (v : α) (d g : Vec α) (t : α),
    g = o.grad p → (ls o p v d g t).gradient = o.grad (ls o p v d g t).point

theorem backtracking_grad_sound : LSGradSound (backtracking (α := α)) := by
  intro o p v d g t hg
  unfold backtracking
  simp only
  split
  · next t' fnew gnew h => exact (backtrackGo_some o p d v _ _ _ _ _ _ h).2.1
  · exact hg

theorem computeSearchDirection_derivative (s : LSOpt α) :
    (LSOpt.computeSearchDirection s).derivative = s.derivative := by
  unfold LSOpt.computeSearchDirection
  split
  · rfl
  · simp only; split
    · rfl
    · split <;> rfl
  · rfl

/-- `m_derivative` is the gradient at `m_best.point` after init and after every step -/
theorem ls_derivative_is_grad_best_point (o : Objective α) (ls : LineSearch α) (hg : LSGradSound ls)
    (kind : LSModel α) (x0 : Vec α) (n : Nat) :
    (iterN (LSOpt.step ls o) (LSOpt.init o kind x0) n).derivative
      = o.grad (iterN (LSOpt.step ls o) (LSOpt.init o kind x0) n).best.point := by
  induction n with
  | zero => rfl
  | succ n ih =>
    simp only [iterN, LSOpt.step, computeSearchDirection_derivative, computeSearchDirection_best]
    exact hg o _ _ _ _ _ ih

/-! ## backtracking never increases the objective along a non-ascent direction -/

/-- **backtracking_no_increase.**  Over `Rat`: if `gᵀd ≤ 0` and the initial step length is
non-negative, the value returned by the backtracking line search is `≤` the old one; moreover
either the triple (point, value, gradient) is returned unchanged (failure after 100 halvings) or
the new value is *strictly* smaller by the Armijo margin. -/
theorem backtracking_no_increase (o : Objective Rat) (p : Vec Rat) (v : Rat) (d g : Vec Rat) (t : Rat)
    (hgd : Vec.dot g d ≤ 0) (ht : 0 ≤ t) :
    (backtracking o p v d g t).value ≤ v ∧
    ((backtracking o p v d g t) = ⟨p, v, g⟩ ∨
      ∃ t', 0 ≤ t' ∧ (backtracking o p v d g t).point = Vec.axpy p t' d ∧
        (backtracking o p v d g t).value < v + (1/10000) * t' * Vec.dot g d) := by
  unfold backtracking
  simp only
  split
  · next t' fnew gnew h =>
    have hs := backtrackGo_some o p d v _ _ _ _ _ _ h
    have ht' := backtrackGo_step_nonneg o p d v _ _ _ _ _ _ ht h
    have hlt : fnew < v + (1/10000) * t' * Vec.dot g d := by
      have := hs.2.2; simpa only [Scalar.ofRat] using this
    have hnp : (1/10000 : Rat) * t' * Vec.dot g d ≤ 0 := by
      have : 0 ≤ (1/10000 : Rat) * t' := by positivity
      exact mul_nonpos_of_nonneg_of_nonpos this hgd
    refine ⟨by simp only; linarith, Or.inr ⟨t', ht', rfl, hlt⟩⟩
  · exact ⟨le_refl _, Or.inl rfl⟩

/-- on failure (no step accepted within 100 halvings) point, value and gradient are unchanged -/
theorem backtracking_failure_unchanged (o : Objective α) (p : Vec α) (v : α) (d g : Vec α) (t : α)
    (h : backtrackGo o p d v (Vec.dot g d) 100 t = none) : backtracking o p v d g t = ⟨p, v, g⟩ := by
  unfold backtracking; simp only [h]

/-- non-vacuity of `backtracking_no_increase`: f(x) = x², x = 1, d = -2 (steepest descent), t = 1:
the first trial lands on -1 (no decrease), the second on 0 and is accepted -/
example :
    let o : Objective Rat := ⟨fun x => Vec.get x 0 * Vec.get x 0, fun x => [2 * Vec.get x 0], fun _ => true, false, [], []⟩
    (backtracking o [1] 1 [-2] [2] 1).point = [0] ∧ (backtracking o [1] 1 [-2] [2] 1).value = 0 := by
  norm_num [backtracking, backtrackGo, Vec.dot, Vec.axpy, Vec.get, Scalar.ofRat, Scalar.half, Scalar.zero]

/-- contract used for the monotonicity theorem (what `dlinmin`/`wolfecubic` are *assumed* to satisfy;
checked on the real code by the harness oracle only) -/
def LSNoIncrease (ls : LineSearch Rat) : Prop :=
  ∀ (o : Objective Rat) (p : Vec Rat) (v : Rat) (d g : Vec Rat) (t : Rat),
    Vec.dot g d ≤ 0 → 0 ≤ t → (ls o p v d g t).value ≤ v

theorem backtracking_LSNoIncrease : LSNoIncrease backtracking :=
  fun o p v d g t h ht => (backtracking_no_increase o p v d g t h ht).1

/-- the invariant under which the line-search optimizers are monotone: the stored direction is a
non-ascent direction for the stored gradient and the initial step length is non-negative -/
def DescentReady (s : LSOpt Rat) : Prop := Vec.dot s.derivative s.dir ≤ 0 ∧ 0 ≤ s.initialStep

/-- **linesearch_methods_monotone_partial.**  One step of BFGS/CG/L-BFGS (any line search with the
`LSNoIncrease` contract, in particular backtracking) does not increase the reported value, *provided*
the current direction is a non-ascent direction.  Missing for the full statement: that
`computeSearchDirection` re-establishes `DescentReady` (true for the steepest-descent restart
`direction_descent_neg_gradient`, and in exact arithmetic for BFGS by `bfgs_update_pd`; *not* true in
general for the C++ CG "restart" branch `d := d - g`, nor for CG with an Armijo-only line search). -/
theorem linesearch_methods_monotone_partial (ls : LineSearch Rat) (hls : LSNoIncrease ls)
    (o : Objective Rat) (s : LSOpt Rat) (h : DescentReady s) :
    (LSOpt.step ls o s).best.value ≤ s.best.value := by
  simp only [LSOpt.step, computeSearchDirection_best, LSOpt.afterLineSearch]
  exact hls o _ _ _ _ _ h.1 h.2

/-! ## descent directions -/

theorem dot_neg_self_nonpos_aux : ∀ (g : List Rat) (acc : Rat), acc ≤ 0 →
    (List.zipWith (· * ·) g (g.map (- ·))).foldl (· + ·) acc ≤ 0 := by
  intro g
  induction g with
  | nil => intro acc h; simpa using h
  | cons x xs ih =>
    intro acc h
    simp only [List.map_cons, List.zipWith_cons_cons, List.foldl_cons]
    apply ih
    nlinarith [mul_self_nonneg x]

/-- **direction_descent (steepest descent / restart).**  `d = -g` is a non-ascent direction:
`gᵀ(-g) ≤ 0`.  This is the direction after `init` and after every CG restart (`m_count == m_dimension`). -/
theorem direction_descent_neg_gradient (g : Vec Rat) : Vec.dot g (Vec.neg g) ≤ 0 := by
  unfold Vec.dot Vec.neg
  exact dot_neg_self_nonpos_aux g _ (by simp [Scalar.zero, Scalar.ofRat])

/-- after `init` the line-search optimizers are ready for a monotone first step
(when the initial step length came out non-negative, which it does whenever `‖g‖₁ ≥ 0`) -/
theorem init_descent_ready (o : Objective Rat) (kind : LSModel Rat) (x0 : Vec Rat)
    (h : 0 ≤ (LSOpt.init o kind x0).initialStep) : DescentReady (LSOpt.init o kind x0) :=
  ⟨direction_descent_neg_gradient _, h⟩

/-- **bfgs_update_pd** (algebraic core, for an arbitrary symmetric bilinear form on any vector space
presented by its values): write `q(u,v) = uᵀHv`, `a = δᵀx`, `d = γᵀδ`.  The BFGS update of
`BFGS::computeSearchDirection`, `H' = H + scale·δδᵀ − (Hγ δᵀ + δ (Hγ)ᵀ)/d` with
`scale = (γᵀHγ/d + 1)/d`, satisfies
`xᵀH'x = zᵀHz + a²/d` where `z = x − (a/d)·γ`,
hence `xᵀH'x ≥ 0` when `H` is positive semidefinite and `d > 0`, and `> 0` when moreover
`zᵀHz > 0` or `a ≠ 0`.  The statement is about the scalars the C++ computes. -/
theorem bfgs_update_pd (qxx qgx qgg a d : Rat) (hd : 0 < d)
    -- zᵀHz for z = x − (a/d)γ, expanded by bilinearity and symmetry
    (hz : 0 ≤ qxx - 2 * (a / d) * qgx + (a / d) ^ 2 * qgg) :
    let scale := (qgg / d + 1) / d
    -- xᵀH'x expanded: xᵀHx + scale·a² − (2·a·(γᵀHx))/d
    let qx' := qxx + (scale * (a * a) - (qgx * a + a * qgx) / d)
    qx' = (qxx - 2 * (a / d) * qgx + (a / d) ^ 2 * qgg) + a ^ 2 / d ∧ 0 ≤ qx' ∧
    (a ≠ 0 → 0 < qx') := by
  intro scale qx'
  have key : qx' = (qxx - 2 * (a / d) * qgx + (a / d) ^ 2 * qgg) + a ^ 2 / d := by
    simp only [qx', scale]
    field_simp
    ring
  have h2 : 0 ≤ a ^ 2 / d := by positivity
  refine ⟨key, by rw [key]; linarith, fun ha => ?_⟩
  have : 0 < a ^ 2 / d := by positivity
  rw [key]; linarith

/-! ## box constraints -/

/-- **box_feasible_inv (Rprop).**  If the starting point is feasible, the point reported by the Rprop
family is feasible after every step — for every feasibility predicate, every variant, every
objective (an infeasible coordinate move is undone inside the coordinate loop). -/
theorem box_feasible_inv_rprop (o : Objective α) (s : Rprop α)
    (h : o.feasible s.best.point = true) : o.feasible (s.step o).best.point = true := by
  unfold Rprop.step
  exact Rprop.fold_feasible o s _ _ h

theorem box_feasible_inv_rprop_run (o : Objective α) (inc dec mx mn : α) (fr bt ov : Bool) (big d0 : α)
    (x0 : Vec α) (h : o.feasible x0 = true) (n : Nat) :
    o.feasible (iterN (Rprop.step o) (Rprop.init o inc dec mx mn fr bt ov big d0 x0) n).best.point = true := by
  induction n with
  | zero => exact h
  | succ n ih => exact box_feasible_inv_rprop o _ ih

/-! ## save / restore -/

/-- `read (write s) = s` for the archived member lists of the repaired tree (findings F8a/F8b):
every member `step` reads is archived (the Rprop variant flags are configuration of the receiving
instance). -/
theorem sd_read_write (fresh s : SD α) : SD.read fresh s.write = s := rfl
theorem adam_read_write (fresh s : Adam α) : Adam.read fresh s.write = s := rfl
theorem rprop_read_write (fresh s : Rprop α) (h1 : fresh.useFreezing = s.useFreezing)
    (h2 : fresh.useBacktracking = s.useBacktracking) (h3 : fresh.useOldValue = s.useOldValue) :
    Rprop.read fresh s.write = s := by
  cases s; cases fresh; simp_all [Rprop.read, Rprop.write]
theorem ls_read_write (fresh s : LSOpt α) : LSOpt.read fresh s.write = s := rfl

/-- restoring a saved optimizer into a fresh instance -/
def Opt.restore : Opt α → Opt α → Opt α
  | .sd fresh, .sd s => .sd (SD.read fresh s.write)
  | .adam fresh, .adam s => .adam (Adam.read fresh s.write)
  | .rprop fresh, .rprop s => .rprop (Rprop.read fresh s.write)
  | .ls fresh, .ls s => .ls (LSOpt.read fresh s.write)
  | _, s => s

/-- the fresh instance is of the same class and (Rprop) configured with the same variant flags -/
def Opt.Compatible : Opt α → Opt α → Prop
  | .sd _, .sd _ => True
  | .adam _, .adam _ => True
  | .rprop fresh, .rprop s => fresh.useFreezing = s.useFreezing ∧ fresh.useBacktracking = s.useBacktracking ∧
      fresh.useOldValue = s.useOldValue
  | .ls _, .ls _ => True
  | _, _ => False

/-- **resume_same_iterates.**  An optimizer saved after any number `k` of steps and restored into a
fresh instance continues with exactly the iterates of the uninterrupted run: for all `n`,
`run (restore fresh (run s0 k)) n = run s0 (k+n)` — `step` is a function of the serialised state. -/
theorem resume_same_iterates (e : Env α) (s0 fresh : Opt α) (k n : Nat)
    (hc : Opt.Compatible fresh (Opt.run e s0 k)) :
    Opt.run e (Opt.restore fresh (Opt.run e s0 k)) n = Opt.run e s0 (k + n) := by
  have hr : Opt.restore fresh (Opt.run e s0 k) = Opt.run e s0 k := by
    generalize Opt.run e s0 k = s at hc ⊢
    cases fresh <;> cases s <;> simp_all [Opt.restore, Opt.Compatible, sd_read_write, adam_read_write, ls_read_write]
    exact rprop_read_write _ _ hc.1 hc.2.1 hc.2.2
  rw [hr]
  induction n with
  | zero => rfl
  | succ n ih => show Opt.step e _ = Opt.step e _; rw [ih]; rfl

/-- non-vacuity: a default-constructed SteepestDescent is compatible with any saved SteepestDescent -/
example (e : Env α) (lr mom : α) (x0 : Vec α) (k n : Nat) :
    Opt.run e (Opt.restore (.sd (SD.init e.o Scalar.zero Scalar.zero [])) (Opt.run e (.sd (SD.init e.o lr mom x0)) k)) n
      = Opt.run e (.sd (SD.init e.o lr mom x0)) (k + n) := by
  apply resume_same_iterates
  have : ∀ k, ∃ s, Opt.run e (.sd (SD.init e.o lr mom x0)) k = .sd s := by
    intro k; induction k with
    | zero => exact ⟨_, rfl⟩
    | succ k ih => obtain ⟨s, hs⟩ := ih; exact ⟨s.step e.o, by simp [Opt.run, hs, Opt.step]⟩
  obtain ⟨s, hs⟩ := this k
  rw [hs]; trivial

/-! ## BFGS with a no-increase line search is monotone — the full statement for one optimizer -/
section bfgs
open SharkVerif.BFGS

/-- the objective's gradient has the dimension of its argument -/
def GradDim (o : Objective Rat) : Prop := ∀ x, (o.grad x).length = x.length

/-- a line search keeps the dimension of point and gradient -/
def LSDim (ls : LineSearch Rat) : Prop :=
  ∀ (o : Objective Rat) (p : Vec Rat) (v : Rat) (d g : Vec Rat) (t : Rat), GradDim o →
    d.length = p.length → g.length = p.length →
    (ls o p v d g t).point.length = p.length ∧ (ls o p v d g t).gradient.length = p.length

theorem backtracking_LSDim : LSDim backtracking := by
  intro o p v d g t ho hd hg
  unfold backtracking
  simp only
  split
  · next t' fnew gnew h =>
    have hs := backtrackGo_some o p d v _ _ _ _ _ _ h
    have hl : (Vec.axpy p t' d).length = p.length := by simp [Vec.axpy, hd]
    exact ⟨hl, by rw [hs.2.1, ho, hl]⟩
  · exact ⟨rfl, hg⟩

/-- the invariant of a BFGS run: `n × n` symmetric positive definite inverse-Hessian approximation,
all vectors of dimension `n`, direction `= −H·g`, non-negative initial step length -/
def BFGSInv (n : Nat) (s : LSOpt Rat) : Prop :=
  ∃ H, s.model = .bfgs H ∧ ListPD n H ∧ s.best.point.length = n ∧ s.derivative.length = n ∧
    s.dir.length = n ∧ Vec.dot s.derivative s.dir ≤ 0 ∧ 0 ≤ s.initialStep

theorem foldl_abs_nonneg (l : List Rat) : ∀ acc : Rat, 0 ≤ acc → 0 ≤ (l.map Scalar.abs).foldl (· + ·) acc := by
  induction l with
  | nil => intro acc h; simpa using h
  | cons x xs ih =>
    intro acc h
    simp only [List.map_cons, List.foldl_cons]
    apply ih
    have : 0 ≤ Scalar.abs x := by
      unfold Scalar.abs; split
      · next hx => have : x < 0 := by simpa [Scalar.zero, Scalar.ofRat] using hx
                   linarith
      · next hx => have : ¬ x < 0 := by simpa [Scalar.zero, Scalar.ofRat] using hx
                   linarith
    linarith

theorem shrink_nonneg (o : Objective Rat) (p d : Vec Rat) : ∀ (k : Nat) (t : Rat), 0 ≤ t →
    0 ≤ LSOpt.shrinkInitialStep o p d k t := by
  intro k
  induction k with
  | zero => intro t h; exact h
  | succ k ih =>
    intro t h
    unfold LSOpt.shrinkInitialStep
    split
    · exact h
    · apply ih; simp only [Scalar.two, Scalar.ofRat]; positivity

theorem bfgs_init_inv (o : Objective Rat) (ho : GradDim o) (x0 : Vec Rat) (H0 : Mat Rat) :
    BFGSInv x0.length (LSOpt.init o (.bfgs H0) x0) := by
  refine ⟨Mat.identity x0.length, rfl, ⟨identity_dim _, by rw [identity_matFn]; exact one_symPD _⟩, rfl, ho x0,
    by simp [LSOpt.init, Vec.neg, ho x0], direction_descent_neg_gradient _, ?_⟩
  simp only [LSOpt.init]
  apply shrink_nonneg
  have hn : (0 : Rat) ≤ Vec.norm1 (o.grad x0) := by
    unfold Vec.norm1; exact foldl_abs_nonneg _ _ (by simp [Scalar.zero, Scalar.ofRat])
  unfold Scalar.min
  split
  · simp only [Scalar.one, Scalar.ofRat]; positivity
  · simp [Scalar.one, Scalar.ofRat]

theorem sub_length (a b : Vec Rat) (n : Nat) (ha : a.length = n) (hb : b.length = n) : (Vec.sub a b).length = n := by
  simp [Vec.sub, ha, hb]

theorem bfgs_step_inv (ls : LineSearch Rat) (hd : LSDim ls) (o : Objective Rat) (ho : GradDim o) (n : Nat)
    (s : LSOpt Rat) (h : BFGSInv n s) : BFGSInv n (LSOpt.step ls o s) := by
  obtain ⟨H, hm, hH, hp, hg, hdir, _, _⟩ := h
  have hl := hd o s.best.point s.best.value s.dir s.derivative s.initialStep ho (by rw [hdir, hp]) (by rw [hg, hp])
  unfold LSOpt.step LSOpt.computeSearchDirection
  simp only [LSOpt.afterLineSearch, hm]
  set r := ls o s.best.point s.best.value s.dir s.derivative s.initialStep
  have hrp : r.point.length = n := by rw [hl.1, hp]
  have hrg : r.gradient.length = n := by rw [hl.2, hp]
  have hH' := bfgsUpdate_listPD n H (Vec.sub r.gradient s.derivative) (Vec.sub r.point s.best.point) hH
    (sub_length _ _ n hrg hg) (sub_length _ _ n hrp hp)
  refine ⟨_, rfl, hH', hrp, hrg, ?_, bfgs_direction_nonascent n _ _ hH' hrg, by simp [Scalar.one, Scalar.ofRat]⟩
  simp [Vec.neg, mulVec_length, hH'.1.1]

/-- **linesearch_methods_monotone (BFGS).**  For every objective whose gradient has the right dimension,
every starting point and every line search that keeps dimensions and never increases the value along a
non-ascent direction (the backtracking line search of the model is one: `backtracking_LSNoIncrease`,
`backtracking_LSDim`), the values reported by BFGS are non-increasing over the whole run — because the
inverse-Hessian approximation stays symmetric positive definite (`bfgsUpdate_listPD`), so every direction
is a non-ascent direction. -/
theorem linesearch_methods_monotone_bfgs (ls : LineSearch Rat) (hni : LSNoIncrease ls) (hd : LSDim ls)
    (o : Objective Rat) (ho : GradDim o) (x0 : Vec Rat) (H0 : Mat Rat) (k : Nat) :
    (iterN (LSOpt.step ls o) (LSOpt.init o (.bfgs H0) x0) (k + 1)).best.value
      ≤ (iterN (LSOpt.step ls o) (LSOpt.init o (.bfgs H0) x0) k).best.value := by
  have inv : ∀ k, BFGSInv x0.length (iterN (LSOpt.step ls o) (LSOpt.init o (.bfgs H0) x0) k) := by
    intro k
    induction k with
    | zero => exact bfgs_init_inv o ho x0 H0
    | succ k ih => exact bfgs_step_inv ls hd o ho _ _ ih
  obtain ⟨_, _, _, _, _, _, h1, h2⟩ := inv k
  exact linesearch_methods_monotone_partial ls hni o _ ⟨h1, h2⟩

/-- non-vacuity: the backtracking line search satisfies both contracts -/
example (o : Objective Rat) (ho : GradDim o) (x0 : Vec Rat) (k : Nat) :
    (iterN (LSOpt.step backtracking o) (LSOpt.init o (.bfgs []) x0) (k + 1)).best.value
      ≤ (iterN (LSOpt.step backtracking o) (LSOpt.init o (.bfgs []) x0) k).best.value :=
  linesearch_methods_monotone_bfgs backtracking backtracking_LSNoIncrease backtracking_LSDim o ho x0 [] k
end bfgs


/-! ## the archived member lists of the real code

`Gen/OptFields.lean` is regenerated from the C++ `read`/`write` bodies on every run
(`translate/opt_fields.py`).  The lists of members that `step` reads are written down here from the
C++ `step` bodies; the theorems say that each of them is archived, that `read` mirrors `write`, and
that the archived list is exactly the field list of the model's `Saved` structure — which is what
`resume_same_iterates` quantifies over.  On the unpatched tree (findings F8a–c) they fail. -/
section fields
open SharkVerif.Gen.OptFields

def sdStepReads : List String := ["m_learningRate", "m_derivative", "m_momentum", "m_path", "m_best"]
def adamStepReads : List String :=
  ["m_beta1", "m_avgGrad", "m_derivative", "m_beta2", "m_secondMoment", "m_counter", "m_eta", "m_epsilon", "m_best"]
def rpropStepReads : List String :=
  ["m_parameterSize", "m_best.point", "m_derivative", "m_oldDerivative", "m_maxDelta", "m_increaseFactor", "m_delta",
   "m_deltaw", "m_minDelta", "m_decreaseFactor", "m_oldValue", "m_best.value"]
/-- configuration of the receiving instance, deliberately not archived -/
def rpropConfig : List String := ["m_useFreezing", "m_useBacktracking", "m_useOldValue"]
def lsStepReads : List String :=
  ["m_derivative", "m_best", "m_searchDirection", "m_initialStepLength", "m_linesearch", "m_lastDerivative", "m_lastPoint", "m_dimension"]
def trnStepReads : List String := ["m_derivatives.gradient", "m_derivatives.hessian", "m_delta", "m_best", "m_minImprovementRatio"]

/-- every member `SteepestDescent::step` reads is archived, `read` mirrors `write`, and the archive is
exactly the field list of `SD.Saved` (path, learningRate, momentum, derivative, best) -/
theorem sd_step_reads_archived :
    sdStepReads.all (· ∈ sdWrite) = true ∧ sdWrite = sdRead ∧
    sdWrite = ["m_path", "m_learningRate", "m_momentum", "m_derivative", "m_best"] := by decide

theorem adam_step_reads_archived : adamStepReads.all (· ∈ adamWrite) = true ∧ adamWrite = adamRead := by decide

/-- `Rprop.Saved` = delta, deltaw, oldDerivative, oldValue, the four factors, best (point, value), derivative
(+ `m_parameterSize`, which the model derives from the point's length) -/
theorem rprop_step_reads_archived :
    rpropStepReads.all (· ∈ rpropWrite) = true ∧ rpropWrite = rpropRead ∧
    rpropWrite = ["m_delta", "m_deltaw", "m_oldDerivative", "m_oldValue", "m_increaseFactor", "m_decreaseFactor",
                  "m_maxDelta", "m_minDelta", "m_parameterSize", "m_best.point", "m_best.value", "m_derivative"] := by decide

/-- AbstractLineSearchOptimizer archives all of `LSOpt`'s base fields; the subclasses add exactly their model -/
theorem ls_step_reads_archived :
    lsStepReads.all (· ∈ lsbaseWrite) = true ∧ lsbaseWrite = lsbaseRead ∧
    bfgsWrite = ["base:AbstractLineSearchOptimizer", "m_hessian"] ∧ bfgsWrite = bfgsRead ∧
    cgWrite = ["base:AbstractLineSearchOptimizer", "m_count"] ∧ cgWrite = cgRead ∧
    lbfgsWrite = ["base:AbstractLineSearchOptimizer", "m_numHist", "m_bdiag", "m_steps", "m_gradientDifferences"] ∧
    lbfgsWrite = lbfgsRead ∧ linesearchWrite = linesearchRead := by decide

/-- TrustRegionNewton has a `write`, and it covers what `step` reads (fails on the unpatched tree, F8c) -/
theorem trn_step_reads_archived :
    trnHasWrite = true ∧ trnStepReads.all (· ∈ trnWrite) = true ∧ trnWrite = trnRead := by decide
end fields

end SharkVerif.C10

/-! ## the box-constrained L-BFGS direction (`LBFGS::getBoxConstrainedDirection`, model `Box.direction`)

What the Cauchy-point / dog-leg computation guarantees, for every dimension, every box, every point inside it,
every gradient and every pair of implicit matrices that are positive on the projected gradient:
`box_direction_feasible_partial` (the target `x + d` is inside the box, unless the Cauchy point touches a bound:
`box_direction_touching_witness`, finding F-C10-12), `box_direction_descent` (`gᵀd < 0` whenever the projected
gradient is non-zero) and `box_direction_nonzero` (`d ≠ 0` in that case). -/
namespace SharkVerif.C10.Box
open SharkVerif.Opt SharkVerif.Opt.LSOpt.Box SharkVerif.Opt.LSOpt

/-! ### hypotheses -/

/-- what the split into movable and blocked variables guarantees for a point with `l ≤ x ≤ u`:
a blocked variable has `p0 = step = 0`; a movable one that wants to decrease is strictly above its lower
bound (by at least `eps`), one that wants to increase is strictly below its upper bound -/
structure CoordOK (c : BoxCoord Rat) : Prop where
  lx : c.l ≤ c.x
  xu : c.x ≤ c.u
  blocked0 : c.act = false → c.p0 = 0 ∧ c.step = 0
  roomL : c.act = true → c.p0 < 0 → c.l < c.x
  roomU : c.act = true → 0 < c.p0 → c.x < c.u

/-- no movable coordinate has its Cauchy point exactly on the bound that `step - cauchy` points to -/
def NoTouch (pBp : Rat) (c : BoxCoord Rat) : Prop :=
  c.act = true → (0 < c.step - cauchy pBp c → c.x + cauchy pBp c < c.u) ∧
                 (c.step - cauchy pBp c < 0 → c.l < c.x + cauchy pBp c)

theorem eps_pos : (0 : Rat) < (eps : Rat) := by
  show (0 : Rat) < 1 / 10000000000000
  norm_num

theorem cauchy_sign (pBp : Rat) (hB : 0 < pBp) (c : BoxCoord Rat) :
    (0 < cauchy pBp c ↔ 0 < c.p0) ∧ (cauchy pBp c < 0 ↔ c.p0 < 0) ∧ (c.p0 = 0 → cauchy pBp c = 0) := by
  unfold cauchy
  refine ⟨?_, ?_, ?_⟩
  · constructor
    · intro h; by_contra hn; have : c.p0 / pBp ≤ 0 := div_nonpos_of_nonpos_of_nonneg (not_lt.mp hn) (le_of_lt hB); linarith
    · intro h; exact div_pos h hB
  · constructor
    · intro h; by_contra hn; have : 0 ≤ c.p0 / pBp := div_nonneg (not_lt.mp hn) (le_of_lt hB); linarith
    · intro h; exact div_neg_of_neg_of_pos h hB
  · intro h; rw [h]; simp

/-- the Cauchy stage: `x + clip·cauchy` stays in the box -/
theorem cauchy_stage_feasible (pBp : Rat) (hB : 0 < pBp) (cs : List (BoxCoord Rat)) (hok : ∀ c ∈ cs, CoordOK c)
    (c : BoxCoord Rat) (hc : c ∈ cs) :
    c.l ≤ c.x + clip (·.x) (cauchy pBp) cs 1 * cauchy pBp c ∧
    c.x + clip (·.x) (cauchy pBp) cs 1 * cauchy pBp c ≤ c.u := by
  have ok := hok c hc
  have hs := cauchy_sign pBp hB c
  exact clip_move_feasible (·.x) (cauchy pBp) cs c hc ok.lx ok.xu
    (fun h => hs.2.2 (ok.blocked0 h).1)
    (fun h hd => ok.roomU h (hs.1.mp hd))
    (fun h hd => ok.roomL h (hs.2.1.mp hd))

/-- **box_direction_feasible_partial.**  For a point inside the box, `x + direction` is inside the box,
provided no movable coordinate has its Cauchy point exactly on the bound the dog-leg moves towards
(`NoTouch`; without it the statement is false: `box_direction_touching_witness`). -/
theorem box_direction_feasible_partial (pBp : Rat) (hB : 0 < pBp) (cs : List (BoxCoord Rat))
    (hok : ∀ c ∈ cs, CoordOK c) (hnt : ∀ c ∈ cs, NoTouch pBp c) (c : BoxCoord Rat) (hc : c ∈ cs) :
    c.l ≤ c.x + dirCoord pBp cs c ∧ c.x + dirCoord pBp cs c ≤ c.u := by
  have ok := hok c hc
  unfold dirCoord
  by_cases h1 : Scalar.beq (Vec.normSqr (cs.map (·.p0))) (Scalar.zero : Rat) = true
  · simp only [if_pos h1]
    have hz := beq_zero_true _ h1
    unfold Vec.normSqr at hz
    rw [dot_map_map] at hz
    have := sumsq_zero cs (·.p0) hz c hc
    rw [this]; constructor <;> linarith [ok.lx, ok.xu]
  · simp only [if_neg h1]
    by_cases h2 : (!(cs.any stepInfeasibleAt)) = true
    · simp only [if_pos h2]
      have hnone : stepInfeasibleAt c = false := by
        by_contra hne
        have : cs.any stepInfeasibleAt = true := List.any_eq_true.mpr ⟨c, hc, by simpa using hne⟩
        simp [this] at h2
      cases hact : c.act with
      | false => rw [(ok.blocked0 hact).2]; constructor <;> linarith [ok.lx, ok.xu]
      | true =>
        unfold stepInfeasibleAt at hnone
        simp only [hact, Bool.true_and, Bool.or_eq_false_iff, decide_eq_false_iff_not, not_lt] at hnone
        have he := eps_pos
        constructor <;> linarith [hnone.1, hnone.2]
    · simp only [if_neg h2]
      have hle : clip (·.x) (cauchy pBp) cs (1 : Rat) ≤ 1 := clip_le _ _ cs 1
      by_cases h3 : clip (·.x) (cauchy pBp) cs Scalar.one < (Scalar.one : Rat)
      · simp only [if_pos h3]
        exact cauchy_stage_feasible pBp hB cs hok c hc
      · simp only [if_neg h3]
        have h1' : clip (·.x) (cauchy pBp) cs (1 : Rat) = 1 := le_antisymm hle (not_lt.mp h3)
        have hcp := cauchy_stage_feasible pBp hB cs hok c hc
        rw [h1', one_mul] at hcp
        have hs := cauchy_sign pBp hB c
        have hm := clip_move_feasible (fun c => c.x + cauchy pBp c) (fun c => c.step - cauchy pBp c) cs c hc hcp.1 hcp.2
          (fun h => by
            have hb := ok.blocked0 h
            show c.step - cauchy pBp c = 0
            rw [hb.2, hs.2.2 hb.1]; ring)
          (fun h hd => (hnt c hc h).1 hd)
          (fun h hd => (hnt c hc h).2 hd)
        constructor
        · have := hm.1; show c.l ≤ c.x + (cauchy pBp c + clip _ _ cs 1 * (c.step - cauchy pBp c)); linarith
        · have := hm.2; show c.x + (cauchy pBp c + clip _ _ cs 1 * (c.step - cauchy pBp c)) ≤ c.u; linarith

/-- **box_direction_descent.**  Whenever the projected gradient is non-zero (`Σ p0ᵢ² > 0`), and the two
implicit matrices are positive on `p0` (`p0ᵀBp0 > 0`, `p0ᵀB⁻¹p0 > 0`), the returned direction `d` satisfies
`Σ p0ᵢ·dᵢ > 0`, i.e. `gᵀd < 0` (`p0 = -g` on the movable coordinates and `d = 0` on the blocked ones):
it is a descent direction.  No feasibility hypothesis is needed: the clipped step lengths are positive
because the loop only ever takes minima with positive numbers. -/
theorem box_direction_descent (pBp : Rat) (hB : 0 < pBp) (cs : List (BoxCoord Rat))
    (hp : 0 < (cs.map fun c => c.p0 * c.p0).sum) (hs : 0 < (cs.map fun c => c.p0 * c.step).sum) :
    0 < (cs.map fun c => c.p0 * dirCoord pBp cs c).sum := by
  unfold dirCoord
  by_cases h1 : Scalar.beq (Vec.normSqr (cs.map (·.p0))) (Scalar.zero : Rat) = true
  · simp only [if_pos h1]; exact hp
  · simp only [if_neg h1]
    by_cases h2 : (!(cs.any stepInfeasibleAt)) = true
    · simp only [if_pos h2]; exact hs
    · simp only [if_neg h2]
      by_cases h3 : clip (·.x) (cauchy pBp) cs Scalar.one < (Scalar.one : Rat)
      · simp only [if_pos h3]
        have hpos : 0 < clip (·.x) (cauchy pBp) cs (1 : Rat) := clip_pos _ _ cs 1 (by norm_num)
        set a := clip (·.x) (cauchy pBp) cs (Scalar.one : Rat) with ha
        have hfun : (fun c : BoxCoord Rat => c.p0 * (a * cauchy pBp c)) = fun c => (a / pBp) * (c.p0 * c.p0) := by
          funext c; unfold cauchy; field_simp
        rw [hfun, List.sum_map_mul_left]
        have : 0 < a / pBp := div_pos hpos hB
        positivity
      · simp only [if_neg h3]
        set a2 := clip (fun c => c.x + cauchy pBp c) (fun c => c.step - cauchy pBp c) cs (Scalar.one : Rat) with ha2
        have hpos : 0 < a2 := clip_pos _ _ cs 1 (by norm_num)
        have hle : a2 ≤ 1 := clip_le _ _ cs 1
        have hfun : (fun c : BoxCoord Rat => c.p0 * (cauchy pBp c + a2 * (c.step - cauchy pBp c)))
            = fun c => ((1 - a2) / pBp) * (c.p0 * c.p0) + a2 * (c.p0 * c.step) := by
          funext c; unfold cauchy; field_simp; ring
        rw [hfun, List.sum_map_add, List.sum_map_mul_left, List.sum_map_mul_left]
        have h4 : 0 ≤ (1 - a2) / pBp := div_nonneg (by linarith) (le_of_lt hB)
        have h5 : 0 ≤ (1 - a2) / pBp * (cs.map fun c => c.p0 * c.p0).sum := mul_nonneg h4 (le_of_lt hp)
        have h6 : 0 < a2 * (cs.map fun c => c.p0 * c.step).sum := mul_pos hpos hs
        linarith

/-- **box_direction_nonzero.**  Under the same hypotheses the returned direction is not the zero vector
(the statement a clipping test `u_alpha >= 0` instead of `> 0` falsifies: a variable sitting exactly on its
upper bound and pushed inward then gives `alpha = 0` and the optimizer freezes at a non-optimal point). -/
theorem box_direction_nonzero (pBp : Rat) (hB : 0 < pBp) (cs : List (BoxCoord Rat))
    (hp : 0 < (cs.map fun c => c.p0 * c.p0).sum) (hs : 0 < (cs.map fun c => c.p0 * c.step).sum) :
    ∃ d ∈ direction pBp cs, d ≠ 0 := by
  by_contra hall
  have hall' : ∀ d ∈ direction pBp cs, d = 0 := by
    intro d hd; by_contra hne; exact hall ⟨d, hd, hne⟩
  have hd := box_direction_descent pBp hB cs hp hs
  have hz : (cs.map fun c => c.p0 * dirCoord pBp cs c).sum = 0 := by
    apply List.sum_eq_zero
    intro x hx
    obtain ⟨c, hc, rfl⟩ := List.mem_map.mp hx
    have : dirCoord pBp cs c = 0 := hall' _ (by rw [direction_eq_map]; exact List.mem_map.mpr ⟨c, hc, rfl⟩)
    rw [this]; ring
  linarith

/-! ### the records built by `coords` satisfy `CoordOK` for a point inside the box -/

theorem mem_zipWith_exists {β γ δ : Type} (f : β → γ → δ) : ∀ (A : List β) (B : List γ) (c : δ),
    c ∈ List.zipWith f A B → ∃ a ∈ A, ∃ b ∈ B, c = f a b := by
  intro A
  induction A with
  | nil => intro B c h; simp at h
  | cons a A ih =>
    intro B c h
    cases B with
    | nil => simp at h
    | cons b B =>
      simp only [List.zipWith_cons_cons, List.mem_cons] at h
      rcases h with rfl | h
      · exact ⟨a, List.mem_cons_self, b, List.mem_cons_self, rfl⟩
      · obtain ⟨a', ha', b', hb', rfl⟩ := ih B c h
        exact ⟨a', List.mem_cons_of_mem _ ha', b', List.mem_cons_of_mem _ hb', rfl⟩

theorem blocked_false_room (l u x p : Rat) (h : blocked l u x p = false) :
    (p < 0 → l < x) ∧ (0 < p → x < u) := by
  unfold blocked at h
  have he := eps_pos
  simp only [Bool.or_eq_false_iff, Bool.and_eq_false_iff, decide_eq_false_iff_not, not_lt] at h
  constructor
  · intro hp
    rcases h.1 with h1 | h1
    · linarith
    · exact absurd hp (not_lt.mpr h1)
  · intro hp
    rcases h.2 with h1 | h1
    · linarith
    · exact absurd hp (not_lt.mpr h1)

/-- the variant-parametrised model instantiated with the unrepaired variant is `direction` (the function the
theorems of this section are about); the driver runs `directionV` with the variant regenerated from the tree -/
theorem directionV_head (pp pBp : Rat) (cs : List (BoxCoord Rat)) :
    directionV ⟨false, false⟩ pp pBp cs = direction pBp cs := rfl

/-- **coords_ok.**  For a point with `l ≤ x ≤ u` (coordinate-wise), every record produced by the active-set
split of `getBoxConstrainedDirection` satisfies `CoordOK` — whatever `multBInv` returns. -/
theorem coords_ok (binv : Vec Rat → Vec Rat) (l u x g : Vec Rat)
    (hbox : ∀ t ∈ List.zip l (List.zip u x), t.1 ≤ t.2.2 ∧ t.2.2 ≤ t.2.1) :
    ∀ c ∈ coords binv l u x g, CoordOK c := by
  intro c hc
  unfold coords at hc
  obtain ⟨a, ha, b, _, rfl⟩ := mem_zipWith_exists _ _ _ c hc
  have hb := hbox a ha
  cases hblk : blocked a.1 a.2.1 a.2.2 (-b.1) with
  | true =>
    refine ⟨hb.1, hb.2, ?_, ?_, ?_⟩
    · intro _; simp [zero_eq']
    · intro h; simp at h
    · intro h; simp at h
  | false =>
    have hr := blocked_false_room _ _ _ _ hblk
    refine ⟨hb.1, hb.2, ?_, ?_, ?_⟩
    · intro h; simp at h
    · intro _ hp; exact hr.1 (by simpa using hp)
    · intro _ hp; exact hr.2 (by simpa using hp)

/-- **box_direction_touching_witness.**  The hypothesis `NoTouch` of `box_direction_feasible_partial` cannot be
dropped: `B = I`, `x = (0,0)`, `g = (-1,-1)`, box `[-1,1/2] × [-1,10]`.  The quasi-Newton step `(1,1)` is infeasible,
the Cauchy point `(1/2,1/2)` lies exactly on the upper bound of the first variable, the dog-leg stage skips that
bound (`u_alpha = 0` is not `> 0`) and returns `(1,1)`: `x + d` leaves the box (finding F-C10-12). -/
theorem box_direction_touching_witness :
    let cs : List (BoxCoord Rat) := [⟨-1, 1/2, 0, true, 1, 1⟩, ⟨-1, 10, 0, true, 1, 1⟩]
    (∀ c ∈ cs, CoordOK c) ∧ direction (2 : Rat) cs = [1, 1] ∧ ¬ ((0 : Rat) + 1 ≤ 1/2) := by
  intro cs
  refine ⟨?_, ?_, by norm_num⟩
  · intro c hc
    simp only [cs, List.mem_cons, List.not_mem_nil, or_false] at hc
    rcases hc with rfl | rfl <;> exact ⟨by norm_num, by norm_num, by simp, by norm_num, by norm_num⟩
  · norm_num [cs, direction, Vec.normSqr, Vec.dot, Scalar.beq, Scalar.zero, Scalar.one, Scalar.ofRat, stepInfeasibleAt,
      eps, clip, clipStep, cauchy, Scalar.min]

/-- non-vacuity of the three theorems: first step of a run (empty history, `B = bdiag·I` with `bdiag = 2`),
`x = (0, 1)`, box `[0,1]²`, `g = (-4, -1)`: the second variable is blocked (on its upper bound, pushed outward), the
quasi-Newton step `(2, 0)` is infeasible, the Cauchy step `(4,0)/32` is feasible, the dog-leg returns `(1, 0)` -/
example :
    let cs := coords (fun p => p.map (· / 2)) [0, 0] [1, 1] [0, 1] [-4, -1]
    (∀ c ∈ cs, CoordOK c) ∧ (∀ c ∈ cs, NoTouch (32 : Rat) c) ∧ 0 < (cs.map fun c => c.p0 * c.p0).sum ∧
      0 < (cs.map fun c => c.p0 * c.step).sum ∧ direction (32 : Rat) cs = [1, 0] := by
  intro cs
  have hcs : cs = [⟨0, 1, 0, true, 4, 2⟩, ⟨0, 1, 1, false, 0, 0⟩] := by
    norm_num [cs, coords, p0, blocked, eps, Scalar.zero, Scalar.ofRat]
  refine ⟨coords_ok _ _ _ _ _ (by norm_num), ?_, ?_, ?_, ?_⟩
  · intro c hc
    rw [hcs] at hc
    simp only [List.mem_cons, List.not_mem_nil, or_false] at hc
    rcases hc with rfl | rfl <;> norm_num [NoTouch, cauchy]
  · rw [hcs]; norm_num
  · rw [hcs]; norm_num
  · rw [hcs]
    norm_num [direction, Vec.normSqr, Vec.dot, Scalar.beq, Scalar.zero, Scalar.one, Scalar.ofRat, stepInfeasibleAt,
      eps, clip, clipStep, cauchy, Scalar.min]

/-! ### the repaired variants of the direction -/

/-- component of `directionV v pp pBp cs` belonging to the coordinate record `c` -/
def dirCoordV (v : Variant) (pp pBp : Rat) (cs : List (BoxCoord Rat)) (c : BoxCoord Rat) : Rat :=
  if Scalar.beq (Vec.normSqr (cs.map (·.p0))) Scalar.zero then c.p0
  else if !(cs.any stepInfeasibleAt) then c.step
  else if clipV v (·.x) (cauchyV v pp pBp) cs Scalar.one < Scalar.one then
    clipV v (·.x) (cauchyV v pp pBp) cs Scalar.one * cauchyV v pp pBp c
  else cauchyV v pp pBp c +
    clipV v (fun c => c.x + cauchyV v pp pBp c) (fun c => c.step - cauchyV v pp pBp c) cs Scalar.one
      * (c.step - cauchyV v pp pBp c)

theorem directionV_eq_map (v : Variant) (pp pBp : Rat) (cs : List (BoxCoord Rat)) :
    directionV v pp pBp cs = cs.map (dirCoordV v pp pBp cs) := by
  unfold directionV dirCoordV
  by_cases h1 : Scalar.beq (Vec.normSqr (cs.map (·.p0))) (Scalar.zero : Rat) = true
  · simp only [if_pos h1]
  · simp only [if_neg h1]
    by_cases h2 : (!(cs.any stepInfeasibleAt)) = true
    · simp only [if_pos h2]
    · simp only [if_neg h2]
      by_cases h3 : clipV v (·.x) (cauchyV v pp pBp) cs Scalar.one < (Scalar.one : Rat)
      · simp only [if_pos h3]
      · simp only [if_neg h3]

theorem clipV_sign (v : Variant) (hv : v.clipBySign = true) (pt d : BoxCoord Rat → Rat) (cs : List (BoxCoord Rat)) (a0 : Rat) :
    clipV v pt d cs a0 = clipS pt d cs a0 := by
  unfold clipV clipS; rw [hv]; rfl

/-- the factor `k` with `cauchy_i = k · p0_i` -/
def cauchyFactor (v : Variant) (pp pBp : Rat) : Rat := bif v.cauchyScaled then pp / pBp else 1 / pBp

theorem cauchyV_eq (v : Variant) (pp pBp : Rat) (c : BoxCoord Rat) :
    cauchyV v pp pBp c = cauchyFactor v pp pBp * c.p0 := by
  unfold cauchyV cauchyFactor cauchy
  cases v.cauchyScaled with
  | true => show c.p0 * (pp / pBp) = pp / pBp * c.p0; ring
  | false => show c.p0 / pBp = 1 / pBp * c.p0; ring

theorem cauchyFactor_pos (v : Variant) (pp pBp : Rat) (hpp : 0 < pp) (hB : 0 < pBp) : 0 < cauchyFactor v pp pBp := by
  unfold cauchyFactor
  cases v.cauchyScaled with
  | true => exact div_pos hpp hB
  | false => exact div_pos one_pos hB

/-- **box_direction_feasible_repaired.**  With the clipping loops that choose the bound by the sign of the direction
(findings F-C10-12/13 repaired; either Cauchy variant), `x + direction` is inside the box for EVERY point inside the
box: no hypothesis about the Cauchy point touching a bound, none about the implicit matrices. -/
theorem box_direction_feasible_repaired (v : Variant) (hv : v.clipBySign = true) (pp pBp : Rat)
    (cs : List (BoxCoord Rat))
    (hok : ∀ c ∈ cs, c.l ≤ c.x ∧ c.x ≤ c.u ∧ (c.act = false → c.p0 = 0 ∧ c.step = 0))
    (c : BoxCoord Rat) (hc : c ∈ cs) :
    c.l ≤ c.x + dirCoordV v pp pBp cs c ∧ c.x + dirCoordV v pp pBp cs c ≤ c.u := by
  obtain ⟨hlx, hxu, hblk⟩ := hok c hc
  have hstep : stepInfeasibleAt c = false → c.act = true → c.l ≤ c.x + c.step ∧ c.x + c.step ≤ c.u := by
    intro hnone hact
    unfold stepInfeasibleAt at hnone
    simp only [hact, Bool.true_and, Bool.or_eq_false_iff, decide_eq_false_iff_not, not_lt] at hnone
    have he := eps_pos
    constructor <;> linarith [hnone.1, hnone.2]
  have hcau0 : ∀ c' : BoxCoord Rat, c'.p0 = 0 → cauchyV v pp pBp c' = 0 := by
    intro c' h; rw [cauchyV_eq, h]; ring
  have stage1 : ∀ c' ∈ cs, c'.l ≤ c'.x + clipS (·.x) (cauchyV v pp pBp) cs 1 * cauchyV v pp pBp c' ∧
      c'.x + clipS (·.x) (cauchyV v pp pBp) cs 1 * cauchyV v pp pBp c' ≤ c'.u := by
    intro c' hc'
    obtain ⟨h1, h2, h3⟩ := hok c' hc'
    exact clipS_move_feasible (·.x) (cauchyV v pp pBp) cs c' hc' h1 h2 (fun h => hcau0 c' (h3 h).1)
  unfold dirCoordV
  by_cases h1 : Scalar.beq (Vec.normSqr (cs.map (·.p0))) (Scalar.zero : Rat) = true
  · simp only [if_pos h1]
    have hz := beq_zero_true _ h1
    unfold Vec.normSqr at hz
    rw [dot_map_map] at hz
    have := sumsq_zero cs (·.p0) hz c hc
    rw [this]; constructor <;> linarith
  · simp only [if_neg h1]
    by_cases h2 : (!(cs.any stepInfeasibleAt)) = true
    · simp only [if_pos h2]
      have hnone : stepInfeasibleAt c = false := by
        by_contra hne
        have : cs.any stepInfeasibleAt = true := List.any_eq_true.mpr ⟨c, hc, by simpa using hne⟩
        simp [this] at h2
      cases hact : c.act with
      | false => rw [(hblk hact).2]; constructor <;> linarith
      | true => exact hstep hnone hact
    · simp only [if_neg h2]
      rw [clipV_sign v hv, clipV_sign v hv]
      have hle : clipS (·.x) (cauchyV v pp pBp) cs (1 : Rat) ≤ 1 := clipS_le _ _ cs 1
      by_cases h3 : clipS (·.x) (cauchyV v pp pBp) cs Scalar.one < (Scalar.one : Rat)
      · simp only [if_pos h3]
        exact stage1 c hc
      · simp only [if_neg h3]
        have h1' : clipS (·.x) (cauchyV v pp pBp) cs (1 : Rat) = 1 := le_antisymm hle (not_lt.mp h3)
        have hcp := stage1 c hc
        rw [h1', one_mul] at hcp
        have hm := clipS_move_feasible (fun c => c.x + cauchyV v pp pBp c) (fun c => c.step - cauchyV v pp pBp c) cs c hc
          hcp.1 hcp.2
          (fun h => by
            have hb := hblk h
            show c.step - cauchyV v pp pBp c = 0
            rw [hb.2, hcau0 c hb.1]; ring)
        constructor
        · have := hm.1
          show c.l ≤ c.x + (cauchyV v pp pBp c + clipS _ _ cs 1 * (c.step - cauchyV v pp pBp c)); linarith
        · have := hm.2
          show c.x + (cauchyV v pp pBp c + clipS _ _ cs 1 * (c.step - cauchyV v pp pBp c)) ≤ c.u; linarith

/-- **box_direction_descent_repaired.**  Repaired clipping loops, either Cauchy variant: for a point inside the box
(`CoordOK`), positive `p0ᵀBp0`, `p0ᵀp0`, `p0ᵀB⁻¹p0`, the direction satisfies `Σ p0ᵢ·dᵢ > 0`, i.e. `gᵀd < 0`.  Here the
positivity of the first step length needs the active-set rule: a movable variable has room (≥ eps) in the direction it
wants to move. -/
theorem box_direction_descent_repaired (v : Variant) (hv : v.clipBySign = true) (pp pBp : Rat) (hpp : 0 < pp) (hB : 0 < pBp)
    (cs : List (BoxCoord Rat)) (hok : ∀ c ∈ cs, CoordOK c)
    (hp : 0 < (cs.map fun c => c.p0 * c.p0).sum) (hs : 0 < (cs.map fun c => c.p0 * c.step).sum) :
    0 < (cs.map fun c => c.p0 * dirCoordV v pp pBp cs c).sum := by
  have hk := cauchyFactor_pos v pp pBp hpp hB
  set k := cauchyFactor v pp pBp with hkdef
  unfold dirCoordV
  by_cases h1 : Scalar.beq (Vec.normSqr (cs.map (·.p0))) (Scalar.zero : Rat) = true
  · simp only [if_pos h1]; exact hp
  · simp only [if_neg h1]
    by_cases h2 : (!(cs.any stepInfeasibleAt)) = true
    · simp only [if_pos h2]; exact hs
    · simp only [if_neg h2]
      rw [clipV_sign v hv, clipV_sign v hv]
      have hpos : 0 < clipS (·.x) (cauchyV v pp pBp) cs (1 : Rat) := by
        apply clipS_pos _ _ cs 1 (by norm_num)
        intro c hc hact hd
        have ok := hok c hc
        unfold signQuot
        rw [cauchyV_eq] at hd ⊢
        by_cases hsgn : (Scalar.zero : Rat) < k * c.p0
        · rw [if_pos hsgn]
          have hp0 : 0 < c.p0 := by
            by_contra hn
            have : k * c.p0 ≤ 0 := mul_nonpos_of_nonneg_of_nonpos (le_of_lt hk) (not_lt.mp hn)
            exact absurd hsgn (not_lt.mpr this)
          exact div_pos (by linarith [ok.roomU hact hp0]) hsgn
        · rw [if_neg hsgn]
          have hneg : k * c.p0 < 0 := lt_of_le_of_ne (not_lt.mp hsgn) hd
          have hp0 : c.p0 < 0 := by
            by_contra hn
            have : 0 ≤ k * c.p0 := mul_nonneg (le_of_lt hk) (not_lt.mp hn)
            linarith
          exact div_pos_of_neg_of_neg (by linarith [ok.roomL hact hp0]) hneg
      by_cases h3 : clipS (·.x) (cauchyV v pp pBp) cs Scalar.one < (Scalar.one : Rat)
      · simp only [if_pos h3]
        set a := clipS (·.x) (cauchyV v pp pBp) cs (Scalar.one : Rat) with ha
        have hfun : (fun c : BoxCoord Rat => c.p0 * (a * cauchyV v pp pBp c)) = fun c => (a * k) * (c.p0 * c.p0) := by
          funext c; rw [cauchyV_eq]; ring
        rw [hfun, List.sum_map_mul_left]
        have : 0 < a * k := mul_pos hpos hk
        positivity
      · simp only [if_neg h3]
        set a2 := clipS (fun c => c.x + cauchyV v pp pBp c) (fun c => c.step - cauchyV v pp pBp c) cs (Scalar.one : Rat) with ha2
        have hnn : 0 ≤ a2 := clipS_nonneg _ _ cs 1 (by norm_num)
        have hle : a2 ≤ 1 := clipS_le _ _ cs 1
        have hfun : (fun c : BoxCoord Rat => c.p0 * (cauchyV v pp pBp c + a2 * (c.step - cauchyV v pp pBp c)))
            = fun c => ((1 - a2) * k) * (c.p0 * c.p0) + a2 * (c.p0 * c.step) := by
          funext c; rw [cauchyV_eq]; ring
        rw [hfun, List.sum_map_add, List.sum_map_mul_left, List.sum_map_mul_left]
        rcases lt_or_eq_of_le hle with hlt | heq
        · have h4 : 0 < (1 - a2) * k := mul_pos (by linarith) hk
          have h5 : 0 < (1 - a2) * k * (cs.map fun c => c.p0 * c.p0).sum := mul_pos h4 hp
          have h6 : 0 ≤ a2 * (cs.map fun c => c.p0 * c.step).sum := mul_nonneg hnn (le_of_lt hs)
          linarith
        · rw [heq]; simp only [sub_self, zero_mul, one_mul, zero_add]; exact hs

/-- **box_direction_nonzero_repaired.** -/
theorem box_direction_nonzero_repaired (v : Variant) (hv : v.clipBySign = true) (pp pBp : Rat) (hpp : 0 < pp) (hB : 0 < pBp)
    (cs : List (BoxCoord Rat)) (hok : ∀ c ∈ cs, CoordOK c)
    (hp : 0 < (cs.map fun c => c.p0 * c.p0).sum) (hs : 0 < (cs.map fun c => c.p0 * c.step).sum) :
    ∃ d ∈ directionV v pp pBp cs, d ≠ 0 := by
  by_contra hall
  have hall' : ∀ d ∈ directionV v pp pBp cs, d = 0 := by
    intro d hd; by_contra hne; exact hall ⟨d, hd, hne⟩
  have hd := box_direction_descent_repaired v hv pp pBp hpp hB cs hok hp hs
  have hz : (cs.map fun c => c.p0 * dirCoordV v pp pBp cs c).sum = 0 := by
    apply List.sum_eq_zero
    intro x hx
    obtain ⟨c, hc, rfl⟩ := List.mem_map.mp hx
    have : dirCoordV v pp pBp cs c = 0 := hall' _ (by rw [directionV_eq_map]; exact List.mem_map.mpr ⟨c, hc, rfl⟩)
    rw [this]; ring
  linarith

/-- the variant of `getBoxConstrainedDirection` found in the checked tree (regenerated by `translate/lbfgs_box.py`
on every run) is one the theorems of this section cover: the unrepaired one (`box_direction_feasible_partial`,
`box_direction_descent`, `box_direction_nonzero` via `directionV_head`) or one with repaired clipping loops
(`box_direction_*_repaired`).  (Scaled Cauchy step with unrepaired loops is modelled and tied but has no theorems:
this obligation then fails.) -/
theorem tree_variant_covered :
    SharkVerif.Gen.LbfgsBox.variant = ⟨false, false⟩ ∨ SharkVerif.Gen.LbfgsBox.variant.clipBySign = true := by decide

end SharkVerif.C10.Box

