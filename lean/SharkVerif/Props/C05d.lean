/-
C05, third part (continued) — further base kernels satisfying `KernelInputDerivs` (the hypothesis of the `ModelKernel`
chain theorems of Props/C05c.lean): the polynomial kernel `(⟨x,z⟩ + c)ⁿ` for every degree (degree 1, offset 0 = the
linear kernel; offset 0 = the monomial kernel), closure under scaling (`ScaledKernel`) and sums (`WeightedSumKernel` with
fixed weights), so that the theorems apply to ModelKernels over sums / scalings of Gaussian and polynomial kernels.
-/
import SharkVerif.Props.C05c
set_option linter.unusedSectionVars false
set_option linter.unusedVariables false
namespace SharkVerif.C05
open SharkVerif SharkVerif.Models SharkVerif.Kernels Finset

/-- `(⟨x,z⟩ + c)ⁿ` on points of dimension `d` -/
noncomputable def polyFn (n : ℕ) (c : ℝ) (d : ℕ) (x z : ℕ → ℝ) : ℝ :=
  ((∑ a ∈ range d, x a * z a) + c) ^ n

/-- `PolynomialKernel::weightedInputDerivative(Y1, Y2, C)`: row `i`, column `a` -/
noncomputable def polyD1 (n : ℕ) (c : ℝ) (d B2 : ℕ) (C Y1 Y2 : ℕ → ℕ → ℝ) (i a : ℕ) : ℝ :=
  ∑ j ∈ range B2, C i j * ((n : ℝ) * ((∑ b ∈ range d, Y1 i b * Y2 j b) + c) ^ (n - 1)) * Y2 j a
/-- `PolynomialKernel::weightedInputDerivative(Y2, Y1, Cᵀ)`: row `j`, column `a` -/
noncomputable def polyD2 (n : ℕ) (c : ℝ) (d B1 : ℕ) (C Y1 Y2 : ℕ → ℕ → ℝ) (j a : ℕ) : ℝ :=
  ∑ i ∈ range B1, C i j * ((n : ℝ) * ((∑ b ∈ range d, Y1 i b * Y2 j b) + c) ^ (n - 1)) * Y1 i a

theorem poly_kernelInputDerivs (n : ℕ) (c : ℝ) (d B1 B2 : ℕ) (C Y1 Y2 : ℕ → ℕ → ℝ) :
    KernelInputDerivs (polyFn n c d) d B1 B2 C Y1 Y2 (polyD1 n c d B2 C Y1 Y2) (polyD2 n c d B1 C Y1 Y2) := by
  intro U1 U2 U1' U2' t0 h1 h2 hU1 hU2
  subst h1 h2
  have term : ∀ i, i < B1 → ∀ j, j < B2 →
      HasDerivAt (fun t => C i j * polyFn n c d (U1 t i) (U2 t j))
        ((∑ a ∈ range d, C i j * ((n : ℝ) * ((∑ b ∈ range d, U1 t0 i b * U2 t0 j b) + c) ^ (n - 1)) * U2 t0 j a * U1' i a) +
         (∑ a ∈ range d, C i j * ((n : ℝ) * ((∑ b ∈ range d, U1 t0 i b * U2 t0 j b) + c) ^ (n - 1)) * U1 t0 i a * U2' j a)) t0 := by
    intro i hi j hj
    have hs : HasDerivAt (fun t => ∑ a ∈ range d, U1 t i a * U2 t j a)
        (∑ a ∈ range d, (U1' i a * U2 t0 j a + U1 t0 i a * U2' j a)) t0 := by
      apply HasDerivAt.fun_sum
      intro a ha
      exact (hU1 i hi a (Finset.mem_range.1 ha)).mul (hU2 j hj a (Finset.mem_range.1 ha))
    have he := (((hs.add_const c).pow n)).const_mul (C i j)
    unfold polyFn
    refine he.congr_deriv ?_
    rw [← Finset.sum_add_distrib]
    generalize ((∑ b ∈ range d, U1 t0 i b * U2 t0 j b) + c) ^ (n - 1) = E
    rw [Finset.mul_sum, Finset.mul_sum]
    apply Finset.sum_congr rfl
    intro a _
    ring
  have hsum : HasDerivAt (fun t => ∑ i ∈ range B1, ∑ j ∈ range B2, C i j * polyFn n c d (U1 t i) (U2 t j))
      (∑ i ∈ range B1, ∑ j ∈ range B2,
        ((∑ a ∈ range d, C i j * ((n : ℝ) * ((∑ b ∈ range d, U1 t0 i b * U2 t0 j b) + c) ^ (n - 1)) * U2 t0 j a * U1' i a) +
         (∑ a ∈ range d, C i j * ((n : ℝ) * ((∑ b ∈ range d, U1 t0 i b * U2 t0 j b) + c) ^ (n - 1)) * U1 t0 i a * U2' j a))) t0 := by
    apply HasDerivAt.fun_sum
    intro i hi
    apply HasDerivAt.fun_sum
    intro j hj
    exact term i (Finset.mem_range.1 hi) j (Finset.mem_range.1 hj)
  refine hsum.congr_deriv ?_
  unfold polyD1 polyD2
  simp only [Finset.sum_add_distrib, Finset.sum_mul]
  congr 1
  · apply Finset.sum_congr rfl; intro i _; exact Finset.sum_comm
  · rw [Finset.sum_comm]; apply Finset.sum_congr rfl; intro j _; exact Finset.sum_comm

/-- the linear kernel is the polynomial kernel of degree 1 with offset 0 -/
theorem polyFn_linear (d : ℕ) (x z : ℕ → ℝ) : polyFn 1 0 d x z = ∑ a ∈ range d, x a * z a := by
  simp [polyFn]

/-- closure under `ScaledKernel`: `f·κ` has the input derivatives `f·D1`, `f·D2` -/
theorem scaled_kernelInputDerivs (κ : (ℕ → ℝ) → (ℕ → ℝ) → ℝ) (f : ℝ) (d B1 B2 : ℕ) (C Y1 Y2 D1 D2 : ℕ → ℕ → ℝ)
    (h : KernelInputDerivs κ d B1 B2 C Y1 Y2 D1 D2) :
    KernelInputDerivs (fun x z => f * κ x z) d B1 B2 C Y1 Y2 (fun i a => f * D1 i a) (fun j a => f * D2 j a) := by
  intro U1 U2 U1' U2' t0 h1 h2 hU1 hU2
  have hh := (h U1 U2 U1' U2' t0 h1 h2 hU1 hU2).const_mul f
  have e : (fun t => ∑ i ∈ range B1, ∑ j ∈ range B2, C i j * (f * κ (U1 t i) (U2 t j))) =
      fun t => f * ∑ i ∈ range B1, ∑ j ∈ range B2, C i j * κ (U1 t i) (U2 t j) := by
    funext t
    rw [Finset.mul_sum]
    apply Finset.sum_congr rfl; intro i _
    rw [Finset.mul_sum]
    apply Finset.sum_congr rfl; intro j _
    ring
  rw [e]
  refine hh.congr_deriv ?_
  rw [mul_add, Finset.mul_sum, Finset.mul_sum]
  congr 1
  · apply Finset.sum_congr rfl; intro i _
    rw [Finset.mul_sum]; apply Finset.sum_congr rfl; intro a _; ring
  · apply Finset.sum_congr rfl; intro j _
    rw [Finset.mul_sum]; apply Finset.sum_congr rfl; intro a _; ring

/-- closure under sums (`WeightedSumKernel` with fixed weights is a sum of scaled kernels) -/
theorem add_kernelInputDerivs (κ₁ κ₂ : (ℕ → ℝ) → (ℕ → ℝ) → ℝ) (d B1 B2 : ℕ) (C Y1 Y2 D1 D2 E1 E2 : ℕ → ℕ → ℝ)
    (h₁ : KernelInputDerivs κ₁ d B1 B2 C Y1 Y2 D1 D2) (h₂ : KernelInputDerivs κ₂ d B1 B2 C Y1 Y2 E1 E2) :
    KernelInputDerivs (fun x z => κ₁ x z + κ₂ x z) d B1 B2 C Y1 Y2 (fun i a => D1 i a + E1 i a) (fun j a => D2 j a + E2 j a) := by
  intro U1 U2 U1' U2' t0 h1 h2 hU1 hU2
  have hh := (h₁ U1 U2 U1' U2' t0 h1 h2 hU1 hU2).add (h₂ U1 U2 U1' U2' t0 h1 h2 hU1 hU2)
  have e : (fun t => ∑ i ∈ range B1, ∑ j ∈ range B2, C i j * (κ₁ (U1 t i) (U2 t j) + κ₂ (U1 t i) (U2 t j))) =
      (fun t => ∑ i ∈ range B1, ∑ j ∈ range B2, C i j * κ₁ (U1 t i) (U2 t j)) +
      (fun t => ∑ i ∈ range B1, ∑ j ∈ range B2, C i j * κ₂ (U1 t i) (U2 t j)) := by
    funext t
    simp only [Pi.add_apply, mul_add, Finset.sum_add_distrib]
  rw [e]
  refine hh.congr_deriv ?_
  simp only [add_mul, Finset.sum_add_distrib]
  ring

/-- non-vacuity: a ModelKernel over `2·Gaussian + polynomial` on the four-layer chain `chainDemo`, offset of the first layer's
successor — all hypotheses hold for every batch pair -/
example (B1 B2 : ℕ) (X1 X2 C : ℕ → ℕ → ℝ) (γ : ℝ) :
    ∃ D1 D2, KernelInputDerivs (fun x z => 2 * gaussFn γ 2 x z + polyFn 3 1 2 x z) 2 B1 B2 C
      (Chain.evalB Real.tanh Real.exp chainDemo X1) (Chain.evalB Real.tanh Real.exp chainDemo X2) D1 D2 :=
  ⟨_, _, add_kernelInputDerivs _ _ 2 B1 B2 C _ _ _ _ _ _
    (scaled_kernelInputDerivs _ 2 2 B1 B2 C _ _ _ _ (gauss_kernelInputDerivs γ 2 B1 B2 C _ _))
    (poly_kernelInputDerivs 3 1 2 B1 B2 C _ _)⟩

end SharkVerif.C05
