/-
C06 — Losses and error functions report the true mean loss and its true gradient.

Part 1 (this section): exact-arithmetic identities at the `Rat` instance of the
models in `Model/Loss.lean` (the instance the driver runs in exact mode), for all
batch sizes, dimensions and data.
Part 2: gradients are true derivatives (over `Real`, `Lemmas/LossDeriv.lean`).
Part 3: `ErrorFunction` — independence of batching, thread count and merge order.
-/
import SharkVerif.Lemmas.Loss
import SharkVerif.Lemmas.LossDeriv
import SharkVerif.Gen.ParRegions
import SharkVerif.Lemmas.ErrFn
import SharkVerif.Lemmas.ErrFn2
import SharkVerif.Lemmas.LossCurve1
import SharkVerif.Lemmas.LossCurve2
import SharkVerif.Lemmas.LossSecond
namespace SharkVerif.C06
open SharkVerif.Loss Scalar

/-! ## 1. batch value = sum of the per-element values -/

/-- generic form: every loss whose batch code is a loop over the rows -/
theorem rowwise_batch_eq_sum {L : Type} (f : L → List Rat → Rat) (labels : List L) (preds : List (List Rat)) :
    sumL (List.zipWith f labels preds) =
      (List.zipWith (fun l p => sumL (List.zipWith f [l] [p])) labels preds).sum :=
  zipWith_sum_singletons f labels preds

/-- SquaredLoss: `0.5·Σ_all (l−p)²` computed over the whole batch matrix equals the sum of the
single-element calls (each of which wraps its element into a batch of one) -/
theorem squared_batch_eq_sum (labels preds : List (List Rat)) :
    squaredEval labels preds = (List.zipWith (fun l p => squaredEval [l] [p]) labels preds).sum := by
  unfold squaredEval
  rw [sumL_eq_sum, List.map_flatten, List.sum_flatten]
  have : (List.map List.sum (List.map (List.map sqr) (List.zipWith zipSub labels preds)))
      = List.zipWith (fun l p => ((zipSub l p).map sqr).sum) labels preds := by
    induction labels generalizing preds with
    | nil => simp
    | cons l ls ih =>
      cases preds with
      | nil => simp
      | cons p ps => simp [ih]
  rw [this, zipWith_sum_mul]
  congr 1
  apply zipWith_congr'
  intro l _ p _
  simp [sumL_eq_sum]

theorem squaredClass_batch_eq_sum (labels : List Nat) (preds : List (List Rat)) :
    squaredClassEval labels preds = (List.zipWith (fun c p => squaredClassEval [c] [p]) labels preds).sum := by
  unfold squaredClassEval
  rw [sumL_eq_sum, zipWith_sum_mul]
  congr 1
  apply zipWith_congr'
  intro l _ p _
  simp [sumL_eq_sum]

/-- HingeLoss, both the binary (one output column) and the multi-class branch (which halves the
accumulated sum at the end); needs a proper matrix: all rows have the same width -/
theorem hinge_batch_eq_sum (m : Nat) (labels : List Nat) (preds : List (List Rat)) (h : WF m labels preds) :
    hingeEval labels preds = (List.zipWith (fun c p => hingeEval [c] [p]) labels preds).sum := by
  cases preds with
  | nil => simp [hingeEval]
  | cons p0 ps =>
    have hp0 : p0.length = m := h.2 p0 (by simp)
    have hrows : ∀ p ∈ p0 :: ps, p.length = m := h.2
    unfold hingeEval
    by_cases hm : m = 1
    · subst hm
      simp only [hp0, ↓reduceIte]
      rw [zipWith_sum_singletons]
      congr 1
      apply List.ext_getElem
      · simp
      · intro i h1 h2
        simp only [List.getElem_zipWith]
        have hi : i < (p0 :: ps).length := by simp at h2; simp; omega
        have : ((p0 :: ps)[i]'hi).length = 1 := hrows _ (List.getElem_mem _)
        simp [this]
    · have hne : ¬ p0.length = 1 := by rw [hp0]; exact hm
      simp only [hne, ↓reduceIte]
      rw [sumL_eq_sum, zipWith_sum_div]
      congr 1
      apply zipWith_congr'
      intro c _ p hp
      have : ¬ p.length = 1 := by rw [hrows p hp]; exact hm
      simp [this, sumL_eq_sum]

theorem epsHinge_batch_eq_sum (eps : Rat) (labels preds : List (List Rat)) :
    epsHingeEval eps labels preds = (List.zipWith (fun l p => epsHingeEval eps [l] [p]) labels preds).sum := by
  unfold epsHingeEval
  rw [sumL_eq_sum, List.map_flatten, List.sum_flatten]
  congr 1
  induction labels generalizing preds with
  | nil => simp
  | cons l ls ih =>
    cases preds with
    | nil => simp
    | cons p ps => simp [sumL_eq_sum, ih]

theorem sqEpsHinge_batch_eq_sum (e2 : Rat) (labels preds : List (List Rat)) :
    sqEpsHingeEval e2 labels preds = (List.zipWith (fun l p => sqEpsHingeEval e2 [l] [p]) labels preds).sum := by
  unfold sqEpsHingeEval
  rw [sumL_eq_sum, zipWith_sum_mul]
  congr 1
  apply zipWith_congr'
  intro l _ p _
  simp [sumL_eq_sum]

/-- Huber, CrossEntropy (class labels) and ZeroOne are loops over rows in the C++ -/
theorem huber_batch_eq_sum (sqrt : Rat → Rat) (d : Rat) (labels preds : List (List Rat)) :
    huberEval sqrt d labels preds = (List.zipWith (fun l p => huberEval sqrt d [l] [p]) labels preds).sum :=
  zipWith_sum_singletons _ labels preds
theorem crossEntropy_batch_eq_sum (exp log : Rat → Rat) (labels : List Nat) (preds : List (List Rat)) :
    ceEval exp log labels preds = (List.zipWith (fun c p => ceEval exp log [c] [p]) labels preds).sum :=
  zipWith_sum_singletons _ labels preds
theorem zeroOne_batch_eq_sum (th : Rat) (labels : List Nat) (preds : List (List Rat)) :
    zeroOneEval th labels preds = (List.zipWith (fun c p => zeroOneEval th [c] [p]) labels preds).sum :=
  zipWith_sum_singletons _ labels preds

/-! ## 2. the derivative call returns the value of plain evaluation -/

theorem squared_derivative_value (labels preds : List (List Rat)) :
    (squaredEvalDerivative labels preds).1 = squaredEval labels preds := rfl
theorem squaredClass_derivative_value (labels : List Nat) (preds : List (List Rat)) :
    (squaredClassEvalDerivative labels preds).1 = squaredClassEval labels preds := rfl
theorem hinge_derivative_value (labels : List Nat) (preds : List (List Rat)) :
    (hingeEvalDerivative labels preds).1 = hingeEval labels preds := by
  unfold hingeEvalDerivative hingeEval
  cases preds with
  | nil => rfl
  | cons p ps => simp only; split <;> rfl

/-- EpsilonHingeLoss: `eval` works on `|label − prediction|` through one remora expression, the
derivative call on `|prediction − label|` in its own loop -/
theorem epsHinge_derivative_value (eps : Rat) (labels preds : List (List Rat)) :
    (epsHingeEvalDerivative eps labels preds).1 = epsHingeEval eps labels preds := by
  unfold epsHingeEvalDerivative epsHingeEval
  simp only
  rw [sumL_eq_sum, sumL_eq_sum]
  congr 1
  simp only [List.map_flatten]
  congr 1
  induction labels generalizing preds with
  | nil => simp
  | cons l ls ih =>
    cases preds with
    | nil => simp
    | cons p ps =>
      simp only [List.zipWith_cons_cons, List.map_cons, ih ps]
      congr 1
      unfold zipSub
      induction l generalizing p with
      | nil => simp
      | cons x xs ihx =>
        cases p with
        | nil => simp
        | cons y ys =>
          simp only [List.zipWith_cons_cons, List.map_cons, ihx ys]
          rw [sabs_sub_comm y x]

/-- SquaredEpsilonHingeLoss: `0.5·Σ max(0,‖l−p‖²−ε²)` vs `Σ 0.5·max(0,‖p−l‖²−ε²)` -/
theorem sqEpsHinge_derivative_value (m : Nat) (e2 : Rat) (labels preds : List (List Rat))
    (h : WF m labels preds) (hl : ∀ l ∈ labels, l.length = m) :
    (sqEpsHingeEvalDerivative e2 labels preds).1 = sqEpsHingeEval e2 labels preds := by
  unfold sqEpsHingeEvalDerivative sqEpsHingeEval
  simp only
  rw [sumL_eq_sum, sumL_eq_sum, zipWith_sum_mul]
  congr 1
  obtain ⟨hlen, hrows⟩ := h
  induction labels generalizing preds with
  | nil => simp
  | cons l ls ih =>
    cases preds with
    | nil => simp
    | cons p ps =>
      have hl0 : l.length = m := hl l (by simp)
      have hp0 : p.length = m := hrows p (by simp)
      simp only [List.zipWith_cons_cons, List.map_cons]
      rw [ih ps (fun x hx => hl x (List.mem_cons_of_mem _ hx)) (by simpa using hlen)
        (fun x hx => hrows x (List.mem_cons_of_mem _ hx))]
      rw [normSqr_sub_comm p l (by rw [hl0, hp0])]

/-- CrossEntropy, multi-class: `eval` computes `(log Σ + max) − p_c`, the batch derivative
`(log Σ − p_c) + max`; binary case: same expression -/
theorem crossEntropy_derivative_value (exp log : Rat → Rat) (labels : List Nat) (preds : List (List Rat)) :
    (ceEvalDerivative exp log labels preds).1 = ceEval exp log labels preds := by
  unfold ceEvalDerivative ceEval
  simp only
  rw [sumL_eq_sum, sumL_eq_sum]
  congr 1
  induction labels generalizing preds with
  | nil => simp
  | cons c cs ih =>
    cases preds with
    | nil => simp
    | cons p ps =>
      simp only [List.zipWith_cons_cons, List.map_cons, ih ps]
      congr 1
      unfold ceRowEvalDerivative ceRowEval
      split
      · rfl
      · simp only; ring

/-! ## 2b. the returned gradient is the derivative of the value w.r.t. the prediction (over ℝ)

Statements are per coordinate: all other prediction coordinates are held fixed
(`p.set j t`), which for these (continuously differentiable away from the stated
kinks) functions is the gradient. -/
section Derivatives
open Real

/-- SquaredLoss: `∂/∂p_j ½‖l−p‖² = p_j − l_j`, and that is what `evalDerivative` returns -/
theorem squared_gradient_correct (l p : List ℝ) (j : ℕ) (hl : j < l.length) (hp : j < p.length) :
    HasDerivAt (fun t => squaredEval [l] [p.set j t]) (p[j] - l[j]) p[j] ∧
    ((squaredEvalDerivative [l] [p]).2.getD 0 []).getD j 0 = p[j] - l[j] := by
  constructor
  · have hg : HasDerivAt (fun t => (l[j] - t) ^ 2) (2 * (l[j] - p[j]) ^ (2 - 1) * (0 - 1)) p[j] :=
      ((hasDerivAt_const p[j] l[j]).sub (hasDerivAt_id p[j])).pow 2
    have := (hasDerivAt_zipWith_sum_set (fun a b => (a - b) ^ 2) j l p hl hp _ hg).const_mul (1 / 2 : ℝ)
    simp only [squaredEval_single]
    have e : 1 / 2 * (2 * (l[j] - p[j]) ^ (2 - 1) * (0 - 1)) = p[j] - l[j] := by
      first | (norm_num; done) | (norm_num; ring)
    rw [e] at this
    exact this
  · simp only [squaredEvalDerivative, List.zipWith_cons_cons, List.zipWith_nil_right, List.getD_cons_zero, zipSub]
    rw [List.getD_eq_getElem?_getD, List.getElem?_zipWith]
    simp [List.getElem?_eq_getElem hl, List.getElem?_eq_getElem hp]

/-- HingeLoss (binary): away from the kink `1 − y·p = 0` the returned gradient (`−y` on the
active side, `0` on the inactive side) is the derivative of `max(0, 1 − y·p)` -/
theorem hinge_binary_gradient_correct (c : ℕ) (p : ℝ) (hk : 1 - (2 * (c : ℝ) - 1) * p ≠ 0) :
    HasDerivAt (fun t => hingeRowBinary c [t]) ((hingeGradRowBinary c [p]).getD 0 0) p := by
  have hcont : Continuous fun t : ℝ => 1 - (2 * (c : ℝ) - 1) * t := by fun_prop
  have hlin : HasDerivAt (fun t : ℝ => 1 - (2 * (c : ℝ) - 1) * t) (-(2 * (c : ℝ) - 1)) p := by
    have := ((hasDerivAt_id p).const_mul (2 * (c : ℝ) - 1)).const_sub 1
    simpa using this
  simp only [hingeRowBinary_real]
  unfold hingeGradRowBinary
  simp only [List.getD_cons_zero]
  rw [smax_zero_real, two_real]
  change HasDerivAt _ ((if 0 < max 0 (1 - (2 * (c : ℝ) - 1) * p) then [-(2 * (c : ℝ) - 1)] else [0]).getD 0 0) p
  rcases lt_or_gt_of_ne hk with hneg | hpos
  · -- inactive side: the loss is constantly 0 near p
    have hev : ∀ᶠ t in nhds p, max 0 (1 - (2 * (c : ℝ) - 1) * t) = 0 := by
      have := (hcont.continuousAt (x := p)).eventually (gt_mem_nhds hneg)
      filter_upwards [this] with t ht
      exact max_eq_left (le_of_lt ht)
    have hnot : ¬ 0 < max 0 (1 - (2 * (c : ℝ) - 1) * p) := by
      rw [max_eq_left (le_of_lt hneg)]; exact lt_irrefl _
    simp only [hnot, ↓reduceIte, List.getD_cons_zero]
    exact (hasDerivAt_const p (0 : ℝ)).congr_of_eventuallyEq hev
  · have hev : ∀ᶠ t in nhds p, max 0 (1 - (2 * (c : ℝ) - 1) * t) = 1 - (2 * (c : ℝ) - 1) * t := by
      have := (hcont.continuousAt (x := p)).eventually (lt_mem_nhds hpos)
      filter_upwards [this] with t ht
      exact max_eq_right (le_of_lt ht)
    have hyes : 0 < max 0 (1 - (2 * (c : ℝ) - 1) * p) := by
      rw [max_eq_right (le_of_lt hpos)]; exact hpos
    simp only [hyes, ↓reduceIte, List.getD_cons_zero]
    exact hlin.congr_of_eventuallyEq hev

/-- CrossEntropy, one output (logistic loss): outside the `value·label < −200` shortcut the
returned gradient `−y·(1 − σ)` is the derivative of `log(1 + exp(−y·p))` -/
theorem crossEntropy_binary_gradient_correct (c : ℕ) (p : ℝ) (hns : -200 < p * (2 * (c : ℝ) - 1)) :
    HasDerivAt (fun t => ceRowEval Real.exp Real.log c [t])
      ((ceRowEvalDerivative Real.exp Real.log c [p]).2.getD 0 0) p := by
  have hcont : Continuous fun t : ℝ => t * (2 * (c : ℝ) - 1) := by fun_prop
  have hev : ∀ᶠ t in nhds p, ceRowEval Real.exp Real.log c [t]
      = Real.log (1 + Real.exp (-(2 * (c : ℝ) - 1) * t)) := by
    have := (hcont.continuousAt (x := p)).eventually (lt_mem_nhds hns)
    filter_upwards [this] with t ht
    unfold ceRowEval ceEvalError
    simp only [List.length_cons, List.length_nil, Nat.zero_add, ↓reduceIte, List.getD_cons_zero, two_real]
    have : ¬ t * (2 * (c : ℝ) - 1) < -((200 : ℕ) : ℝ) := by
      push_cast; exact not_lt.2 (le_of_lt ht)
    simp only [ofNat_real] at this ⊢
    rw [if_neg this]
  have hd := hasDerivAt_log_one_add_exp_neg (2 * (c : ℝ) - 1) p
  have hgrad : (ceRowEvalDerivative Real.exp Real.log c [p]).2.getD 0 0
      = -(2 * (c : ℝ) - 1) * (1 - 1 / (1 + Real.exp (-(2 * (c : ℝ) - 1) * p))) := by
    unfold ceRowEvalDerivative
    simp only [List.length_cons, List.length_nil, Nat.zero_add, ↓reduceIte, List.getD_cons_zero, two_real]
    rfl
  rw [hgrad]
  exact hd.congr_of_eventuallyEq hev

/-- CrossEntropy, several outputs: the value is the plain log-sum-exp minus the target output —
the `max` shift of the C++ does not change it -/
theorem crossEntropy_multiclass_value (c : ℕ) (p : List ℝ) (hlen : p.length ≠ 1) (hne : p ≠ []) :
    ceRowEval Real.exp Real.log c p = Real.log ((p.map Real.exp).sum) - p.getD c 0 := by
  unfold ceRowEval
  simp only [hlen, ↓reduceIte]
  rw [sumL_eq_sum_real, log_sum_exp_shift p _ hne]

/-- CrossEntropy, several outputs: the returned gradient row — softmax minus the indicator of the
target — is the gradient of the value, coordinate by coordinate -/
theorem crossEntropy_multiclass_gradient_correct (c j : ℕ) (p : List ℝ) (hlen : 2 ≤ p.length) (hj : j < p.length) :
    HasDerivAt (fun t => ceRowEval Real.exp Real.log c (p.set j t))
      ((ceRowEvalDerivative Real.exp Real.log c p).2.getD j 0) p[j] := by
  have hne : p ≠ [] := by intro e; rw [e] at hlen; simp at hlen
  have hS := sum_exp_pos p hne
  -- the value, for every t
  have hval : ∀ t, ceRowEval Real.exp Real.log c (p.set j t)
      = Real.log (((p.set j t).map Real.exp).sum) - (p.set j t).getD c 0 := by
    intro t
    apply crossEntropy_multiclass_value
    · simp; omega
    · intro e; have := congrArg List.length e; simp at this; rw [this] at hlen; simp at hlen
  -- its derivative
  have h1 := hasDerivAt_sum_exp_set p j hj
  have hset : p.set j p[j] = p := by simp
  have hS' : ((p.set j p[j]).map Real.exp).sum ≠ 0 := by rw [hset]; exact ne_of_gt hS
  have h2 := (h1.log hS').sub (hasDerivAt_getD_set p j c hj)
  rw [hset] at h2
  have h3 : HasDerivAt (fun t => ceRowEval Real.exp Real.log c (p.set j t))
      (Real.exp p[j] / (p.map Real.exp).sum - if j = c then 1 else 0) p[j] :=
    h2.congr_of_eventuallyEq (Filter.Eventually.of_forall hval)
  -- the model's gradient entry
  have hgrad : (ceRowEvalDerivative Real.exp Real.log c p).2.getD j 0
      = Real.exp p[j] / (p.map Real.exp).sum - if j = c then 1 else 0 := by
    unfold ceRowEvalDerivative
    have hl1 : ¬ p.length = 1 := by omega
    simp only [hl1, ↓reduceIte]
    rw [List.getD_eq_getElem?_getD, List.getElem?_map, List.getElem?_range (by simpa using hj)]
    simp only [Option.map_some, Option.getD_some]
    have hg : ((p.map fun x => Real.exp (x - maxL p)).map fun x => x / sumL (p.map fun x => Real.exp (x - maxL p))).getD j 0
        = Real.exp p[j] / (p.map Real.exp).sum := by
      rw [List.getD_eq_getElem?_getD, List.getElem?_map, List.getElem?_map, List.getElem?_eq_getElem hj]
      simp only [Option.map_some, Option.getD_some]
      rw [sumL_eq_sum_real, sum_exp_shift, sub_eq_add_neg, Real.exp_add]
      have := Real.exp_pos (-maxL p)
      field_simp
    split
    · rename_i e; rw [hg]
    · rename_i e; rw [hg]; simp
  rw [hgrad]; exact h3

/-- EpsilonHingeLoss: away from the kinks `|p_j − l_j| = ε` the returned gradient entry
(`±1` outside the ε-tube, `0` inside) is the partial derivative of `Σ_j max(0, |l_j − p_j| − ε)` -/
theorem epsHinge_gradient_correct (eps : ℝ) (heps : 0 ≤ eps) (l p : List ℝ) (j : ℕ)
    (hl : j < l.length) (hp : j < p.length) (hk : |p[j] - l[j]| ≠ eps) :
    HasDerivAt (fun t => epsHingeEval eps [l] [p.set j t])
      (if eps < |p[j] - l[j]| then (if l[j] < p[j] then 1 else -1) else 0) p[j] := by
  -- the value is a separable sum
  have hval : ∀ q : List ℝ, epsHingeEval eps [l] [q] = (List.zipWith (fun a b => max 0 (|a - b| - eps)) l q).sum := by
    intro q
    unfold epsHingeEval zipSub
    simp only [List.zipWith_cons_cons, List.zipWith_nil_right, List.flatten_cons, List.flatten_nil, List.append_nil]
    rw [sumL_eq_sum_real, List.map_zipWith]
    congr 1
    simp [smax_zero_real, sabs_real]
  simp only [hval]
  apply hasDerivAt_zipWith_sum_set (fun a b => max 0 (|a - b| - eps)) j l p hl hp
  -- one coordinate
  have hcont : Continuous fun t : ℝ => |l[j] - t| - eps := by fun_prop
  rcases lt_or_gt_of_ne hk with hin | hout
  · -- inside the tube: constantly 0 near p_j
    have hnot : ¬ eps < |p[j] - l[j]| := not_lt.2 (le_of_lt hin)
    simp only [hnot, ↓reduceIte]
    have hneg : |l[j] - p[j]| - eps < 0 := by rw [abs_sub_comm]; linarith
    have hev : (fun t : ℝ => max 0 (|l[j] - t| - eps)) =ᶠ[nhds p[j]] fun _ => (0 : ℝ) := by
      filter_upwards [(hcont.continuousAt (x := p[j])).eventually (gt_mem_nhds hneg)] with t ht
      exact max_eq_left (le_of_lt ht)
    exact (hasDerivAt_const _ (0 : ℝ)).congr_of_eventuallyEq hev
  · simp only [hout, ↓reduceIte]
    have hpos : 0 < |l[j] - p[j]| - eps := by rw [abs_sub_comm]; linarith
    have hne : p[j] - l[j] ≠ 0 := by
      intro e; rw [e, abs_zero] at hout; linarith
    by_cases hlt : l[j] < p[j]
    · simp only [hlt, ↓reduceIte]
      -- near p_j: l - t < 0, so |l - t| - eps = t - l - eps
      have hev : (fun t : ℝ => max 0 (|l[j] - t| - eps)) =ᶠ[nhds p[j]] fun t => t - l[j] - eps := by
        have h1 := (hcont.continuousAt (x := p[j])).eventually (lt_mem_nhds hpos)
        have h2 : ∀ᶠ t in nhds p[j], l[j] < t := lt_mem_nhds hlt
        filter_upwards [h1, h2] with t ht1 ht2
        rw [max_eq_right (le_of_lt ht1), abs_of_neg (by linarith)]; ring
      have hd : HasDerivAt (fun t : ℝ => t - l[j] - eps) 1 p[j] := by
        simpa using ((hasDerivAt_id' p[j]).sub_const l[j]).sub_const eps
      exact hd.congr_of_eventuallyEq hev
    · simp only [hlt, ↓reduceIte]
      have hgt : p[j] < l[j] := by
        rcases lt_trichotomy p[j] l[j] with h | h | h
        · exact h
        · exact absurd (by rw [h]; ring) hne
        · exact absurd h hlt
      have hev : (fun t : ℝ => max 0 (|l[j] - t| - eps)) =ᶠ[nhds p[j]] fun t => l[j] - t - eps := by
        have h1 := (hcont.continuousAt (x := p[j])).eventually (lt_mem_nhds hpos)
        have h2 : ∀ᶠ t in nhds p[j], t < l[j] := gt_mem_nhds hgt
        filter_upwards [h1, h2] with t ht1 ht2
        rw [max_eq_right (le_of_lt ht1), abs_of_pos (by linarith)]
      have hd : HasDerivAt (fun t : ℝ => l[j] - t - eps) (-1) p[j] := by
        simpa using ((hasDerivAt_id' p[j]).const_sub l[j]).sub_const eps
      exact hd.congr_of_eventuallyEq hev

/-- … and that is the entry the model's derivative call returns -/
theorem epsHinge_gradient_entry (eps : ℝ) (l p : List ℝ) (j : ℕ) (hl : j < l.length) (hp : j < p.length) :
    ((epsHingeEvalDerivative eps [l] [p]).2.getD 0 []).getD j 0 =
      (if 0 < max 0 (|p[j] - l[j]| - eps) then (if l[j] < p[j] then 1 else -1) else 0) := by
  simp only [epsHingeEvalDerivative, List.zipWith_cons_cons, List.zipWith_nil_right, List.map_cons, List.map_nil,
    List.getD_cons_zero]
  rw [List.getD_eq_getElem?_getD, List.getElem?_map, List.getElem?_zipWith]
  simp [List.getElem?_eq_getElem hl, List.getElem?_eq_getElem hp, smax_zero_real, sabs_real]

theorem normSqr_zipSub_real (l q : List ℝ) :
    normSqr (zipSub q l) = (List.zipWith (fun a b => (b - a) ^ 2) l q).sum := by
  unfold normSqr zipSub
  rw [sumL_eq_sum_real, List.map_zipWith]
  congr 1
  induction q generalizing l with
  | nil => simp
  | cons b q ih =>
    cases l with
    | nil => simp
    | cons a l =>
      rw [List.zipWith_cons_cons, List.zipWith_cons_cons, ih l]
      simp [sqr, pow_two]

/-- HuberLoss: inside the quadratic zone (`‖p−l‖² < δ²`) the gradient entry is `p_j − l_j`, outside
(`‖p−l‖² > δ²`) it is `δ·(p_j − l_j)/‖p−l‖`; both are the partial derivatives of the value. -/
theorem huber_gradient_correct (delta : ℝ) (l p : List ℝ) (j : ℕ) (hl : j < l.length) (hp : j < p.length)
    (hk : normSqr (zipSub p l) ≠ sqr delta) :
    HasDerivAt (fun t => huberRow Real.sqrt delta l (p.set j t))
      (if normSqr (zipSub p l) ≤ sqr delta then p[j] - l[j]
       else delta / Real.sqrt (normSqr (zipSub p l)) * (p[j] - l[j])) p[j] := by
  -- squared distance as a function of the j-th coordinate
  have hN : HasDerivAt (fun t => normSqr (zipSub (p.set j t) l)) (2 * (p[j] - l[j])) p[j] := by
    have hg : HasDerivAt (fun t : ℝ => (t - l[j]) ^ 2) (2 * (p[j] - l[j]) ^ (2 - 1) * 1) p[j] :=
      ((hasDerivAt_id' p[j]).sub_const l[j]).pow 2
    have := hasDerivAt_zipWith_sum_set (fun a b => (b - a) ^ 2) j l p hl hp _ hg
    have e : 2 * (p[j] - l[j]) ^ (2 - 1) * 1 = 2 * (p[j] - l[j]) := by norm_num
    rw [e] at this
    refine this.congr_of_eventuallyEq (Filter.Eventually.of_forall fun t => ?_)
    exact normSqr_zipSub_real l (p.set j t)
  have hset : p.set j p[j] = p := by simp
  have hcont : ContinuousAt (fun t => normSqr (zipSub (p.set j t) l)) p[j] := hN.continuousAt
  have hat : normSqr (zipSub (p.set j p[j]) l) = normSqr (zipSub p l) := by rw [hset]
  rcases lt_or_gt_of_ne hk with hin | hout
  · have hle : normSqr (zipSub p l) ≤ sqr delta := le_of_lt hin
    simp only [hle, ↓reduceIte]
    have hev : (fun t => huberRow Real.sqrt delta l (p.set j t))
        =ᶠ[nhds p[j]] fun t => (1 / 2 : ℝ) * normSqr (zipSub (p.set j t) l) := by
      have h0 : (fun t => normSqr (zipSub (p.set j t) l)) p[j] < sqr delta := by
        show normSqr (zipSub (p.set j p[j]) l) < sqr delta
        rw [hat]; exact hin
      have := hcont.eventually (gt_mem_nhds h0)
      filter_upwards [this] with t ht
      unfold huberRow
      simp only [le_of_lt ht, ↓reduceIte, half_real]
    have hd := hN.const_mul (1 / 2 : ℝ)
    have e : (1 / 2 : ℝ) * (2 * (p[j] - l[j])) = p[j] - l[j] := by ring
    rw [e] at hd
    exact hd.congr_of_eventuallyEq hev
  · have hnle : ¬ normSqr (zipSub p l) ≤ sqr delta := not_le.2 hout
    simp only [hnle, ↓reduceIte]
    have hpos : 0 < normSqr (zipSub p l) := lt_of_le_of_lt (by unfold sqr; exact mul_self_nonneg delta) hout
    have hev : (fun t => huberRow Real.sqrt delta l (p.set j t))
        =ᶠ[nhds p[j]] fun t => delta * Real.sqrt (normSqr (zipSub (p.set j t) l)) - (1 / 2 : ℝ) * sqr delta := by
      have h0 : sqr delta < (fun t => normSqr (zipSub (p.set j t) l)) p[j] := by
        show sqr delta < normSqr (zipSub (p.set j p[j]) l)
        rw [hat]; exact hout
      have := hcont.eventually (lt_mem_nhds h0)
      filter_upwards [this] with t ht
      unfold huberRow
      simp only [not_le.2 ht, ↓reduceIte, half_real]
    have hs := (hN.sqrt (by rw [hat]; exact ne_of_gt hpos))
    rw [hat] at hs
    have hd := (hs.const_mul delta).sub_const ((1 / 2 : ℝ) * sqr delta)
    have hsq : Real.sqrt (normSqr (zipSub p l)) ≠ 0 := ne_of_gt (Real.sqrt_pos.2 hpos)
    have e : delta * (2 * (p[j] - l[j]) / (2 * Real.sqrt (normSqr (zipSub p l))))
        = delta / Real.sqrt (normSqr (zipSub p l)) * (p[j] - l[j]) := by
      field_simp
    rw [e] at hd
    exact hd.congr_of_eventuallyEq hev

/-- the entry returned by the model of `HuberLoss::evalDerivative` (remora computes `a·p − a·l`) -/
theorem huber_gradient_entry (delta : ℝ) (l p : List ℝ) (j : ℕ) (hl : j < l.length) (hp : j < p.length) :
    (huberGradRow Real.sqrt delta l p).getD j 0 =
      (if normSqr (zipSub p l) ≤ sqr delta then p[j] - l[j]
       else delta / Real.sqrt (normSqr (zipSub p l)) * (p[j] - l[j])) := by
  simp only [huberGradRow]
  split
  · unfold zipSub
    rw [List.getD_eq_getElem?_getD, List.getElem?_zipWith]
    simp [List.getElem?_eq_getElem hl, List.getElem?_eq_getElem hp]
  · rw [List.getD_eq_getElem?_getD, List.getElem?_zipWith]
    simp [List.getElem?_eq_getElem hl, List.getElem?_eq_getElem hp]
    ring

/-- TwoNormRegularizer: `∂/∂x_j ½‖x‖² = x_j` -/
theorem twoNorm_gradient_correct (x : List ℝ) (j : ℕ) (hj : j < x.length) :
    HasDerivAt (fun t => twoNorm (x.set j t)) x[j] x[j] := by
  have hg : HasDerivAt (fun t : ℝ => t ^ 2) (2 * x[j] ^ (2 - 1) * 1) x[j] := (hasDerivAt_id x[j]).pow 2
  have := (hasDerivAt_zipWith_sum_set (fun _ b => b ^ 2) j x x hj hj _ hg).const_mul (1 / 2 : ℝ)
  have heq : ∀ q : List ℝ, q.length = x.length → twoNorm q = 1 / 2 * (List.zipWith (fun _ b => b ^ 2) x q).sum := by
    intro q hq
    unfold twoNorm normSqr
    rw [sumL_eq_sum_real, half_real]
    congr 2
    apply List.ext_getElem
    · simp [hq]
    · intro i h1 h2; simp [sqr, pow_two]
  have : HasDerivAt (fun t => twoNorm (x.set j t)) (1 / 2 * (2 * x[j] ^ (2 - 1) * 1)) x[j] := by
    refine this.congr_of_eventuallyEq (Filter.Eventually.of_forall fun t => ?_)
    exact heq _ (by simp)
  have e : 1 / 2 * (2 * x[j] ^ (2 - 1) * 1) = x[j] := by
    first | (norm_num; done) | (norm_num; ring)
  rw [e] at this
  exact this

end Derivatives

/-! ## 3. ErrorFunction: independent of thread count, merge order and batching -/

/-- sum of consecutive ranges telescopes -/
theorem rangeSum_split (bl : Nat → Rat) (a b c : Nat) (hab : a ≤ b) (hbc : b ≤ c) :
    rangeSum bl a b + rangeSum bl b c = rangeSum bl a c := by
  unfold rangeSum
  rw [sumL_eq_sum, sumL_eq_sum, sumL_eq_sum]
  have : c - a = (b - a) + (c - b) := by omega
  rw [this, List.range_add, List.map_append, List.sum_append, List.map_map]
  congr 2
  apply List.map_congr_left
  intro d _
  simp only [Function.comp]
  congr 1
  omega

/-- **thread-count independence** (thread ranges generated from the C++, `tile_Site1`): for every
number of batches `B`, every thread count `T ≥ 1`, summing the thread-local range sums in thread
order gives the sum over all batches -/
theorem thread_sums_eq_total (bl : Nat → Rat) (B T : Nat) (hT : 1 ≤ T) :
    ((List.range T).map fun t =>
      rangeSum bl (Gen.ParRegions.Site1.start B T t) (Gen.ParRegions.Site1.stop B T t)).sum
      = rangeSum bl 0 B := by
  obtain ⟨h0, hlast, hnext, hle⟩ := Gen.ParRegions.tile_Site1 B T hT
  have key : ∀ n, n ≤ T → ((List.range n).map fun t =>
      rangeSum bl (Gen.ParRegions.Site1.start B T t) (Gen.ParRegions.Site1.stop B T t)).sum
      = rangeSum bl 0 (Gen.ParRegions.Site1.start B T n) := by
    intro n
    induction n with
    | zero => intro _; rw [h0]; simp [rangeSum, sumL]
    | succ n ih =>
      intro hn
      rw [List.range_succ, List.map_append, List.sum_append, ih (by omega)]
      simp only [List.map_cons, List.map_nil, List.sum_cons, List.sum_nil, add_zero]
      rw [hnext n]
      apply rangeSum_split
      · rw [← h0]
        clear ih
        induction n with
        | zero => exact le_refl _
        | succ k ihk => have := hle k; rw [hnext k] at this; exact le_trans (ihk (by omega)) this
      · have := hle n; rw [hnext n] at this; exact this
  have hT' : Gen.ParRegions.Site1.start B T T = B := by
    have := hnext (T-1)
    rw [show T - 1 + 1 = T by omega] at this
    rw [← this, hlast]
  rw [key T (le_refl _), hT']

/-- **ErrorFunction.eval = mean loss**, for every batch count, every thread count and *every order*
in which the threads add their partial sums under the lock -/
theorem errorEval_eq_mean (bl : Nat → Rat) (ne : Rat) (B T : Nat) (hT : 1 ≤ T)
    (order : List Nat) (hperm : order.Perm (List.range T)) :
    errorEval bl ne (Gen.ParRegions.Site1.start B T) (Gen.ParRegions.Site1.stop B T) order
      = ((List.range B).map bl).sum / ne := by
  unfold errorEval
  rw [sumL_eq_sum, (hperm.map _).sum_eq, thread_sums_eq_total bl B T hT]
  unfold rangeSum
  rw [sumL_eq_sum]
  simp

/-- **batch-partition independence**: the sum of the batch losses only depends on the flattened
element losses (with `*_batch_eq_sum` and the model contract of C04: batch loss = Σ element losses) -/
theorem error_partition_independent (parts1 parts2 : List (List Rat)) (h : parts1.flatten = parts2.flatten) :
    (parts1.map List.sum).sum = (parts2.map List.sum).sum := by
  rw [← List.sum_flatten, ← List.sum_flatten, h]

/-- **equal weights give the unweighted mean** -/
theorem weighted_const_eq_unweighted (el : Nat → Nat → Rat) (sizes : List Nat) (c : Rat) (hc : c ≠ 0) :
    weightedErrorEval el (fun _ _ => c) sizes =
      ((List.range sizes.length).map fun b => ((List.range (sizes.getD b 0)).map fun j => el b j).sum).sum /
      ((List.range sizes.length).map fun b => ((sizes.getD b 0 : Nat) : Rat)).sum := by
  unfold weightedErrorEval
  simp only [sumL_eq_sum]
  have h1 : ∀ b, ((List.range (sizes.getD b 0)).map fun j => c * el b j).sum
      = c * ((List.range (sizes.getD b 0)).map fun j => el b j).sum := by
    intro b; rw [map_sum_mul]
  have h2 : ∀ b, ((List.range (sizes.getD b 0)).map fun _ => c).sum = c * ((sizes.getD b 0 : Nat) : Rat) := by
    intro b; simp [mul_comm]
  simp only [h1, h2, map_sum_mul]
  rw [mul_div_mul_left _ _ hc]

/-- **regularizers add exactly their stated term** -/
theorem regularizer_adds_term (value strength reg : Rat) :
    regularizedEval value strength reg = value + strength * reg := rfl

/-! ## 4. end to end: `ErrorFunction::evalDerivative` over a `ConcatenatedModel` (the Chain model of C04)

The evaluation loop is `ErrFn.evalDerivative` (Model/ErrFn.lean: per-thread ranges regenerated from the C++,
partial results merged in an arbitrary thread order, division by the number of elements); the model is any
chain `pre ++ dense m :: post` of C04 with its derivative theorem imported (`Chain.weight_derivative_correct`
through `chain_weight_contract`), the loss any loss with the total-derivative contract `BatchGradAt`
(`Lemmas/LossCurve1.lean`, `Lemmas/LossCurve2.lean`: every differentiable loss class of Shark). -/
section EndToEnd
open SharkVerif.ErrFn SharkVerif.Models Finset

/-- "the call returns the mean loss and the entry of the returned vector that belongs to the weight
`W[k0][j0]` of the dense layer `m` is the derivative of the mean loss w.r.t. that weight" -/
def EvalDerivativeCorrect {L : Type} (pre post : Chain ℝ) (m : Dense ℝ) (nIn k0 j0 : ℕ)
    (loss : LossFn ℝ L) (batches : ℕ → Batch ℝ L) (B threads : ℕ) (order : List ℕ) : Prop :=
  (ErrFn.evalDerivative (ofChain Real.tanh Real.exp (pre ++ (Layer.dense m, true) :: post)
      (Chain.nOut (pre ++ (Layer.dense m, true) :: post) nIn)) loss batches B threads order).1
    = (∑ b ∈ range B, loss.eval (batches b).labels
        (predictions (ofChain Real.tanh Real.exp (pre ++ (Layer.dense m, true) :: post)
          (Chain.nOut (pre ++ (Layer.dense m, true) :: post) nIn)) (batches b)))
        / (numElements batches B : ℝ) ∧
  HasDerivAt
    (fun t => (∑ b ∈ range B, loss.eval (batches b).labels
        (predictions (chainFamilyW pre post m nIn k0 j0 t) (batches b))) / (numElements batches B : ℝ))
    ((ErrFn.evalDerivative (ofChain Real.tanh Real.exp (pre ++ (Layer.dense m, true) :: post)
      (Chain.nOut (pre ++ (Layer.dense m, true) :: post) nIn)) loss batches B threads order).2.getD
      ((Chain.params pre).length + (k0 * m.nIn + j0)) 0) (m.W k0 j0)

/-- the labels of every batch fit the batch: one label per row -/
def LabelsFit {L : Type} (batches : ℕ → Batch ℝ L) (B : ℕ) : Prop :=
  ∀ b, b < B → (batches b).labels.length = (batches b).n

/-- **generic form**: every chain of C04, every loss satisfying the loss contract, every data set, every batch
partition (`batches`, `B`), every thread count and every merge order -/
theorem errorFunction_evalDerivative_end_to_end {L : Type} (pre post : Chain ℝ) (m : Dense ℝ) (nIn k0 j0 : ℕ)
    (hk0 : k0 < m.nOut) (hj0 : j0 < m.nIn)
    (hwf : Chain.WF (pre ++ (Layer.dense m, true) :: post) nIn)
    (loss : LossFn ℝ L) (batches : ℕ → Batch ℝ L) (B threads : ℕ) (hB : 1 ≤ B) (hthreads : 1 ≤ threads)
    (order : List ℕ) (hperm : order.Perm (List.range (min threads B)))
    (hnk : ∀ b, b < B → Chain.NoKink (batches b).n (pre ++ (Layer.dense m, true) :: post) (batches b).X)
    (hloss : ∀ b, b < B → BatchGradAt (batches b).n (Chain.nOut (pre ++ (Layer.dense m, true) :: post) nIn)
      (loss.eval (batches b).labels)
      (loss.evalDerivative (batches b).labels
        (toRows (batches b).n (Chain.nOut (pre ++ (Layer.dense m, true) :: post) nIn)
          (Chain.evalB Real.tanh Real.exp (pre ++ (Layer.dense m, true) :: post) (batches b).X))).2
      (Chain.evalB Real.tanh Real.exp (pre ++ (Layer.dense m, true) :: post) (batches b).X))
    (hval : ∀ (l : List L) (p : List (List ℝ)), (loss.evalDerivative l p).1 = loss.eval l p) :
    EvalDerivativeCorrect pre post m nIn k0 j0 loss batches B threads order :=
  errorFunction_chain_weight_correct pre post m nIn k0 j0 hk0 hj0 hwf loss batches B threads hB hthreads order hperm
    hnk hloss (fun b _ => hval _ _)

/-- **SquaredLoss** (no kink of the loss; the model's kinks are C04's `NoKink`) -/
theorem errorFunction_squared_end_to_end (pre post : Chain ℝ) (m : Dense ℝ) (nIn k0 j0 : ℕ)
    (hk0 : k0 < m.nOut) (hj0 : j0 < m.nIn)
    (hwf : Chain.WF (pre ++ (Layer.dense m, true) :: post) nIn)
    (batches : ℕ → Batch ℝ (List ℝ)) (B threads : ℕ) (hB : 1 ≤ B) (hthreads : 1 ≤ threads)
    (order : List ℕ) (hperm : order.Perm (List.range (min threads B)))
    (hnk : ∀ b, b < B → Chain.NoKink (batches b).n (pre ++ (Layer.dense m, true) :: post) (batches b).X)
    (hfit : LabelsFit batches B)
    (hdim : ∀ b, b < B → ∀ l ∈ (batches b).labels, l.length = Chain.nOut (pre ++ (Layer.dense m, true) :: post) nIn) :
    EvalDerivativeCorrect pre post m nIn k0 j0 squaredLoss batches B threads order :=
  errorFunction_evalDerivative_end_to_end pre post m nIn k0 j0 hk0 hj0 hwf squaredLoss batches B threads hB hthreads
    order hperm hnk (fun b hb => squared_batchGradAt _ _ _ _ (hfit b hb) (hdim b hb)) (fun _ _ => rfl)

/-- **CrossEntropy, several outputs** (class labels; no kink of the loss) -/
theorem errorFunction_crossEntropy_end_to_end (pre post : Chain ℝ) (m : Dense ℝ) (nIn k0 j0 : ℕ)
    (hk0 : k0 < m.nOut) (hj0 : j0 < m.nIn)
    (hwf : Chain.WF (pre ++ (Layer.dense m, true) :: post) nIn)
    (hm : 2 ≤ Chain.nOut (pre ++ (Layer.dense m, true) :: post) nIn)
    (batches : ℕ → Batch ℝ ℕ) (B threads : ℕ) (hB : 1 ≤ B) (hthreads : 1 ≤ threads)
    (order : List ℕ) (hperm : order.Perm (List.range (min threads B)))
    (hnk : ∀ b, b < B → Chain.NoKink (batches b).n (pre ++ (Layer.dense m, true) :: post) (batches b).X)
    (hfit : LabelsFit batches B) :
    EvalDerivativeCorrect pre post m nIn k0 j0 (crossEntropyLoss Real.exp Real.log) batches B threads order :=
  errorFunction_evalDerivative_end_to_end pre post m nIn k0 j0 hk0 hj0 hwf _ batches B threads hB hthreads
    order hperm hnk (fun b hb => crossEntropy_multi_batchGradAt _ _ _ _ (hfit b hb) hm)
    (fun l p => by
      show (ceEvalDerivative Real.exp Real.log l p).1 = ceEval Real.exp Real.log l p
      unfold ceEvalDerivative ceEval
      simp only
      rw [sumL_eq_sum_real, sumL_eq_sum_real]
      congr 1
      induction l generalizing p with
      | nil => simp
      | cons c cs ih =>
        cases p with
        | nil => simp
        | cons q qs =>
          simp only [List.zipWith_cons_cons, List.map_cons, ih qs]
          congr 1
          unfold ceRowEvalDerivative ceRowEval
          split
          · rfl
          · simp only; ring)

/-- **HingeLoss, one output column, labels {0,1}**: away from the kinks `1 − y·f(x) = 0` -/
theorem errorFunction_hinge_binary_end_to_end (pre post : Chain ℝ) (m : Dense ℝ) (nIn k0 j0 : ℕ)
    (hk0 : k0 < m.nOut) (hj0 : j0 < m.nIn)
    (hwf : Chain.WF (pre ++ (Layer.dense m, true) :: post) nIn)
    (hm : Chain.nOut (pre ++ (Layer.dense m, true) :: post) nIn = 1)
    (batches : ℕ → Batch ℝ ℕ) (B threads : ℕ) (hB : 1 ≤ B) (hthreads : 1 ≤ threads)
    (order : List ℕ) (hperm : order.Perm (List.range (min threads B)))
    (hnk : ∀ b, b < B → Chain.NoKink (batches b).n (pre ++ (Layer.dense m, true) :: post) (batches b).X)
    (hfit : LabelsFit batches B)
    (hkink : ∀ b, b < B → ∀ i, i < (batches b).n →
      1 - (2 * (((batches b).labels.getD i 0 : ℕ) : ℝ) - 1)
        * Chain.evalB Real.tanh Real.exp (pre ++ (Layer.dense m, true) :: post) (batches b).X i 0 ≠ 0) :
    EvalDerivativeCorrect pre post m nIn k0 j0 hingeLoss batches B threads order :=
  errorFunction_evalDerivative_end_to_end pre post m nIn k0 j0 hk0 hj0 hwf hingeLoss batches B threads hB hthreads
    order hperm hnk (fun b hb => by rw [hm]; exact hinge_binary_batchGradAt _ _ _ (hfit b hb) (hkink b hb))
    (fun l p => by
      show (hingeEvalDerivative l p).1 = hingeEval l p
      unfold hingeEvalDerivative hingeEval
      cases p with
      | nil => rfl
      | cons q qs => simp only; split <;> rfl)

/-- **independent of the batch partition**: two partitions of the same data set (any thread counts, any merge
orders) give the same error, for every chain and every row-wise loss -/
theorem errorFunction_partition_independent {L : Type} (c : Chain ℝ) (mOut : ℕ) (loss : LossFn ℝ L)
    (elem : L → List ℝ → ℝ) (hl : Rowwise loss elem) (Xall : ℕ → ℕ → ℝ) (lab : List L)
    (sizes1 sizes2 : List ℕ) (hsum1 : sizes1.sum = lab.length) (hsum2 : sizes2.sum = lab.length)
    (hB1 : 1 ≤ sizes1.length) (hB2 : 1 ≤ sizes2.length) (threads1 threads2 : ℕ)
    (ht1 : 1 ≤ threads1) (ht2 : 1 ≤ threads2) (order1 order2 : List ℕ)
    (hp1 : order1.Perm (List.range (min threads1 sizes1.length)))
    (hp2 : order2.Perm (List.range (min threads2 sizes2.length))) :
    ErrFn.eval (ofChain Real.tanh Real.exp c mOut) loss (partBatches Xall lab sizes1) sizes1.length threads1 order1
      = ErrFn.eval (ofChain Real.tanh Real.exp c mOut) loss (partBatches Xall lab sizes2) sizes2.length threads2 order2 :=
  eval_partition_independent _ loss elem Xall lab (rowLocal_ofChain c mOut) hl sizes1 sizes2 hsum1 hsum2 hB1 hB2
    threads1 threads2 ht1 ht2 order1 order2 hp1 hp2

/-! non-vacuity: the four-layer `chainDemo` of C04 (tanh dense layer, logistic neurons, linear dense layer,
softmax; two outputs), every data set whose batches carry one label per row, every partition / thread
count / merge order — all hypotheses of the end-to-end theorems are satisfiable -/
example (batches : ℕ → Batch ℝ (List ℝ)) (B threads : ℕ) (hB : 1 ≤ B) (hthreads : 1 ≤ threads)
    (order : List ℕ) (hperm : order.Perm (List.range (min threads B))) (hfit : LabelsFit batches B)
    (hdim : ∀ b, b < B → ∀ l ∈ (batches b).labels, l.length = 2) :
    EvalDerivativeCorrect chainDemoPre chainDemoPost chainDemoMid 2 1 2 squaredLoss batches B threads order :=
  errorFunction_squared_end_to_end chainDemoPre chainDemoPost chainDemoMid 2 1 2
    (by simp [chainDemoMid]) (by simp [chainDemoMid]) ⟨rfl, rfl, rfl, rfl, trivial⟩
    batches B threads hB hthreads order hperm
    (fun b _ => by simp [chainDemoPre, chainDemoMid, chainDemoPost, Chain.NoKink, Layer.NoKink])
    hfit hdim
example (batches : ℕ → Batch ℝ ℕ) (B threads : ℕ) (hB : 1 ≤ B) (hthreads : 1 ≤ threads)
    (order : List ℕ) (hperm : order.Perm (List.range (min threads B))) (hfit : LabelsFit batches B) :
    EvalDerivativeCorrect chainDemoPre chainDemoPost chainDemoMid 2 1 2 (crossEntropyLoss Real.exp Real.log)
      batches B threads order :=
  errorFunction_crossEntropy_end_to_end chainDemoPre chainDemoPost chainDemoMid 2 1 2
    (by simp [chainDemoMid]) (by simp [chainDemoMid]) ⟨rfl, rfl, rfl, rfl, trivial⟩ (le_refl 2)
    batches B threads hB hthreads order hperm
    (fun b _ => by simp [chainDemoPre, chainDemoMid, chainDemoPost, Chain.NoKink, Layer.NoKink])
    hfit
example : LabelsFit (fun _ => ({ n := 2, X := fun _ _ => 0, labels := [0, 1] } : Batch ℝ ℕ)) 3 := fun _ _ => rfl
example : [2, 0, 1].Perm (List.range (min 7 3)) := by decide

end EndToEnd

/-! ### non-vacuity -/
example : squaredEval [[1, 2], [3, 4]] [[(1:Rat)/2, 0], [3, 5]] = 21 / 8 := by
  simp [squaredEval, zipSub, sumL, sqr, half, Scalar.dyadic]; norm_num
example : WF 1 [0, 1, 1] [[(1:Rat)], [-2], [3]] := ⟨rfl, by simp⟩
example : (List.range 3).Perm [2, 0, 1] ∧ [2, 0, 1].Perm (List.range 3) := by decide

end SharkVerif.C06
