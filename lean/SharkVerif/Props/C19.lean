/-
C19 — Text importers are memory-safe on any input and round-trip exported data.

Property theorems about the importer model `Model/Import.lean` (tied to
`src/Data/SparseData.cpp` / `src/Data/Csv.cpp` by the correspondence check
`checks/c19.py`).  Helper lemmas: `Lemmas/Import.lean`.

All statements quantify over *every* list of parsed records (any length, any
indices, any values — `V` is an arbitrary type), every `highestIndex` argument,
every batch size and every allocation limit.

What is NOT a theorem here: that boost::spirit turns bytes into the records the
lexer model (`Model/ImportLex.lean`) says, and spirit's own memory safety — both
are exercised by the correspondence under ASan/UBSan only.
-/
import SharkVerif.Lemmas.Import
import SharkVerif.Lemmas.Peg
import SharkVerif.Lemmas.ImportCsv
import SharkVerif.Lemmas.ImportRt
import SharkVerif.Lemmas.ExportFmt
import SharkVerif.Lemmas.ExportSvm
import SharkVerif.Lemmas.ExportCsv
import SharkVerif.Model.ImportCsv
import SharkVerif.Model.ExportFmt
namespace SharkVerif.C19
open SharkVerif.Import SharkVerif.Import.Svm

variable {V : Type}

def wcfg : Cfg := { sparse := false, cls := true, dims := 0, bs := 256, allocLimit := 1000 }

/-! ## LibSVM importer: memory safety -/

/-- `build` never reports an out-of-bounds write when every write index is below the size -/
theorem build_no_oob (zero : V) (cfg : Cfg) (recs : List (Rec V)) (maxIndex : Nat) (hasZero : Bool)
    (labels : Labels V) (sh : Bool)
    (h : ∀ r ∈ recs, ∀ w ∈ writes (deltaOf hasZero) r, w.1 < vecSize maxIndex hasZero)
    (i n : Nat) : build zero cfg recs maxIndex hasZero labels sh ≠ .oobWrite i n := by
  have hn : oobOf cfg.sparse (vecSize maxIndex hasZero) (recs.map (writes (deltaOf hasZero))) = none := by
    apply oobOf_none
    intro ws hws w hw
    obtain ⟨r, hr, rfl⟩ := List.mem_map.mp hws
    exact h r hr w hw
  rcases build_eq zero cfg recs maxIndex hasZero labels sh with h1 | ⟨j, h1, _⟩ | ⟨_, h2⟩
  · rw [h1]; simp
  · rw [hn] at h1; simp at h1
  · rw [h2]; exact finish_ne_oob _ _ _ _ _ _ _ _ _

/-- if `build` runs into `max_element` of an empty batch, there were no class labels -/
theorem build_ub (zero : V) (cfg : Cfg) (recs : List (Rec V)) (maxIndex : Nat) (hasZero : Bool)
    (labels : Labels V) (sh : Bool)
    (h : build zero cfg recs maxIndex hasZero labels sh = .ubEmptyMax) : labels = .cls [] := by
  rcases build_eq zero cfg recs maxIndex hasZero labels sh with h1 | ⟨j, _, h1⟩ | ⟨_, h2⟩
  · rw [h1] at h; simp at h
  · rw [h1] at h; simp at h
  · rw [h2] at h; exact finish_ub _ _ _ _ _ _ _ h

/-- class labels exist for every record -/
theorem labelsOf_cls_length (labelInt : V → Option Int) (cfg : Cfg) (recs : List (Rec V)) (ls : List Nat)
    (h : labelsOf labelInt cfg recs = some (.cls ls)) : ls.length = recs.length := by
  unfold labelsOf at h
  split at h
  · simp only [Option.map_eq_some_iff] at h
    obtain ⟨l, hl1, hl2⟩ := h
    have : l = ls := by simpa using hl2
    subst this
    simpa using classLabels_length hl1
  · simp at h

/-- **C19, memory safety of the repaired LibSVM logic (full strength).**
For every list of records, every `highestIndex`, batch size, vector kind and label
kind: the repaired importer never writes outside the allocated vectors and never
takes the maximum of an empty batch. -/
theorem sparse_writes_in_bounds (zero : V) (labelInt : V → Option Int) (cfg : Cfg) (recs : List (Rec V)) :
    (∀ i n, importRepaired zero labelInt cfg recs ≠ .oobWrite i n) ∧
    importRepaired zero labelInt cfg recs ≠ .ubEmptyMax := by
  unfold importRepaired
  split
  · simp
  · rename_i hs
    have hs : recs.all recSorted = true := by simpa using hs
    split
    · simp
    · rename_i hempty
      simp only
      split
      · simp
      · split
        · simp
        · rename_i labels hl
          refine ⟨fun i n => build_no_oob zero cfg recs _ _ labels true
            (fun r hr w hw => writes_lt_size recs cfg.dims hs r hr w hw) i n, ?_⟩
          intro hub
          have hcls := build_ub _ _ _ _ _ _ _ hub
          subst hcls
          have hlen := labelsOf_cls_length labelInt cfg recs [] hl
          have hrecs : recs = [] := by
            cases recs with
            | nil => rfl
            | cons a t => simp at hlen
          have hc : cfg.cls = true := by
            unfold labelsOf at hl
            split at hl
            · assumption
            · simp at hl
          simp [hrecs, hc] at hempty

/-- **History: the LibSVM logic before the fixes 389df0e0 / a37b5a55 / 56711b68** (`importCurrent`; the tree
now has the logic `importRepaired`, for which `sparse_writes_in_bounds` holds without hypothesis).  The
pre-fix logic stayed inside its vectors only when the indices of every record were strictly increasing —
which is exactly the check the fix added to `importSparseDataReader`; the witnesses at the end of this file
show what happened without it, and are what a mutation removing the check is caught by. -/
theorem legacy_writes_in_bounds_of_sorted (zero : V) (labelInt : V → Option Int) (cfg : Cfg)
    (recs : List (Rec V)) (hs : recs.all recSorted = true) :
    ∀ i n, importCurrent zero labelInt cfg recs ≠ .oobWrite i n := by
  intro i n
  unfold importCurrent
  simp only
  split
  · simp
  · split
    · simp
    · exact build_no_oob zero cfg recs _ _ _ false
        (fun r hr w hw => writes_lt_size recs cfg.dims hs r hr w hw) i n

/-! ## LibSVM importer: the result is an error or a well-formed dataset -/

/-- rows produced by `finish` have the allocated size as dimension and are well-formed
when every write index is below the size and the stored indices increase -/
theorem finish_wf (zero : V) (cfg : Cfg) (size : Nat) (wss : List (List (Nat × V))) (batches : List Nat)
    (labels : Labels V) (n : Nat) (d : DataSet V)
    (hn : wss.length = n)
    (hb : batches.foldl (· + ·) 0 = n)
    (hbs : cfg.bs ≠ 0 → ∀ b ∈ batches, b ≤ cfg.bs)
    (hw : ∀ ws ∈ wss, (∀ w ∈ ws, w.1 < size) ∧ strictlyIncreasing (ws.map (·.1)) = true)
    (hl : match labels with
          | .cls ls => ls.length = n
          | .reg ls => ls.length = n ∧ ∀ l ∈ ls, l.length = 1
          | .none => False)
    (h : finish zero cfg size size wss batches labels = .ok d) :
    d.wf cfg.bs = true ∧ d.rows.length = n := by
  have hrows : ∀ r ∈ wss.map (fun ws => if cfg.sparse then Row.sparse size ws else Row.dense (denseRow zero size ws)),
      (some r.dim == some size && r.wf) = true := by
    intro r hr
    obtain ⟨ws, hws, rfl⟩ := List.mem_map.mp hr
    split
    · have := hw ws hws
      simp only [Row.dim, Row.wf, beq_self_eq_true, Bool.true_and, Bool.and_eq_true, List.all_eq_true,
        decide_eq_true_eq]
      exact ⟨fun p hp => this.1 p hp, this.2⟩
    · simp [Row.dim, Row.wf, denseRow_length]
  have hbatch : (cfg.bs == 0 || batches.all (fun b => decide (b ≤ cfg.bs))) = true := by
    by_cases h0 : cfg.bs = 0
    · simp [h0]
    · simp only [Bool.or_eq_true, List.all_eq_true, decide_eq_true_eq]
      exact Or.inr (hbs h0)
  unfold finish at h
  cases labels with
  | none => exact absurd hl (by simp)
  | cls ls =>
    simp only at h hl
    split at h
    · simp at h
    · simp only [Outcome.ok.injEq] at h
      subst h
      refine ⟨?_, by simp [hn]⟩
      simp only [DataSet.wf, Bool.and_eq_true, List.all_eq_true, beq_iff_eq, List.length_map, decide_eq_true_eq]
      refine ⟨⟨⟨fun r hr => by simpa using hrows r hr, by rw [hb, hn]⟩, ⟨by rw [hl, hn], fun l hl' => numberOfClasses_gt ls l hl'⟩⟩, ?_⟩
      simpa using hbatch
  | reg ls =>
    simp only at h hl
    simp only [Outcome.ok.injEq] at h
    subst h
    refine ⟨?_, by simp [hn]⟩
    simp only [DataSet.wf, Bool.and_eq_true, List.all_eq_true, beq_iff_eq, List.length_map]
    refine ⟨⟨⟨fun r hr => by simpa using hrows r hr, by rw [hb, hn]⟩, ⟨by rw [hl.1, hn], fun l hl' => by simp [hl.2 l hl']⟩⟩, ?_⟩
    simpa using hbatch

/-- **C19, LibSVM importers (repaired logic): error or well-formed dataset.**
For every list of parsed records and every configuration the result is the library's
exception, an allocation failure (dense vectors beyond the limit), or a dataset in which
all elements have the dimension reported by `shape()`, sparse rows hold strictly
increasing indices below it, class labels are below `numberOfClasses`, regression labels
have the reported dimension, there is one element per record, the batch sizes add up to
the element count and no batch exceeds the requested size. -/
theorem import_wellformed_or_error_svm (zero : V) (labelInt : V → Option Int) (cfg : Cfg) (recs : List (Rec V)) :
    match importRepaired zero labelInt cfg recs with
    | .ok d => d.wf cfg.bs = true ∧ d.rows.length = recs.length
    | .error => True
    | .allocFail => True
    | .oobWrite _ _ => False
    | .ubEmptyMax => False := by
  have hsafe := sparse_writes_in_bounds zero labelInt cfg recs
  cases hres : importRepaired zero labelInt cfg recs with
  | error => trivial
  | allocFail => trivial
  | oobWrite i n => exact absurd hres (hsafe.1 i n)
  | ubEmptyMax => exact absurd hres hsafe.2
  | ok d =>
    simp only
    unfold importRepaired at hres
    split at hres
    · simp at hres
    · rename_i hs
      have hs : recs.all recSorted = true := by simpa using hs
      split at hres
      · -- empty classification file
        rename_i hemp
        simp only [Outcome.ok.injEq] at hres
        subst hres
        have : recs = [] := by
          simp only [Bool.and_eq_true, List.isEmpty_iff] at hemp
          exact hemp.2
        subst this
        exact ⟨by simp [DataSet.wf], rfl⟩
      · simp only at hres
        split at hres
        · simp at hres
        · split at hres
          · simp at hres
          · rename_i labels hl
            rcases build_eq zero cfg recs (max (maxIndexLast recs) cfg.dims) (hasZeroFirst recs) labels true
              with h1 | ⟨j, _, h1⟩ | ⟨_, h2⟩
            · rw [h1] at hres; simp at hres
            · rw [h1] at hres; simp at hres
            · rw [h2] at hres
              simp only [if_true] at hres
              refine finish_wf zero cfg _ _ _ labels recs.length d (by simp) (initBatches_sum _ _)
                (fun h0 => initBatches_le _ _ (Nat.pos_of_ne_zero h0)) ?_ ?_ hres
              · intro ws hws
                obtain ⟨r, hr, rfl⟩ := List.mem_map.mp hws
                exact ⟨fun w hw => writes_lt_size recs cfg.dims hs r hr w hw, writes_increasing recs hs r hr⟩
              · cases labels with
                | cls ls => exact labelsOf_cls_length labelInt cfg recs ls hl
                | reg ls =>
                  unfold labelsOf at hl
                  split at hl
                  · simp only [Option.map_eq_some_iff] at hl
                    obtain ⟨l, _, hl2⟩ := hl
                    simp at hl2
                  · simp only [Option.some.injEq, Labels.reg.injEq] at hl
                    subst hl
                    exact ⟨by simp, fun l hl' => by
                      obtain ⟨r, _, rfl⟩ := List.mem_map.mp hl'
                      rfl⟩
                | none =>
                  unfold labelsOf at hl
                  split at hl
                  · simp only [Option.map_eq_some_iff] at hl
                    obtain ⟨l, _, hl2⟩ := hl
                    simp at hl2
                  · simp at hl

/-- non-vacuity: the `ok` branch is inhabited, with a dataset that has elements -/
example : (match importRepaired (0 : Nat) (fun v => some (v : Int)) wcfg
    [⟨1, [(1, 7), (3, 8)]⟩, ⟨0, [(2, 9)]⟩] with
    | .ok d => d.wf 256 && d.rows.length == 2
    | _ => false) = true := by decide

/-- **The repaired logic only differs where the current one misbehaves.**  On files whose
records have strictly increasing indices, that are not empty classification files and
are one-based, the repaired importer returns exactly what the importer in `/repo`
returns.  (The driver predicts with `importRepaired`; this theorem is why that is a
test of the current code on all such inputs.) -/
theorem repaired_eq_current (zero : V) (labelInt : V → Option Int) (cfg : Cfg) (recs : List (Rec V))
    (hs : recs.all recSorted = true) (hne : cfg.cls = false ∨ recs ≠ [])
    (hz : hasZeroFirst recs = false) :
    importRepaired zero labelInt cfg recs = importCurrent zero labelInt cfg recs := by
  unfold importRepaired importCurrent
  have hemp : (cfg.cls && recs.isEmpty) = false := by
    rcases hne with h | h
    · simp [h]
    · cases recs with
      | nil => exact absurd rfl h
      | cons a t => simp
  simp only [hs, Bool.not_true, Bool.false_eq_true, if_false, hemp, hz]
  split
  · rfl
  · split
    · rfl
    · unfold build
      simp [vecSize]

/-- for zero-based files the two differ in the reported `shape()` only (finding F2c) -/
theorem repaired_eq_current_zero_based_witness :
    importCurrent (0 : Nat) (fun v => some (v : Int)) wcfg [⟨1, [(0, 1), (2, 1)]⟩, ⟨0, [(1, 1)]⟩]
      = .ok { shape := some 2, lshape := some 2, batches := [2],
              rows := [.dense [1, 0, 1], .dense [0, 1, 0]], labels := .cls [1, 0] } ∧
    importRepaired (0 : Nat) (fun v => some (v : Int)) wcfg [⟨1, [(0, 1), (2, 1)]⟩, ⟨0, [(1, 1)]⟩]
      = .ok { shape := some 3, lshape := some 2, batches := [2],
              rows := [.dense [1, 0, 1], .dense [0, 1, 0]], labels := .cls [1, 0] } := by
  constructor <;> decide

/-! ## CSV importers: the result is an error or a well-formed dataset -/

/-- the batch part of `DataSet.wf` for `optimalBatchSizes` -/
theorem csv_batches_ok {n maxB : Nat} (hn : 0 < n) (hm : 0 < maxB) :
    ((optimalBatchSizes n maxB).foldl (· + ·) 0 == n) = true ∧
    (maxB == 0 || (optimalBatchSizes n maxB).all (fun b => decide (b ≤ maxB))) = true := by
  refine ⟨by simp [optimalBatchSizes_sum hn hm], ?_⟩
  simp only [Bool.or_eq_true, List.all_eq_true, decide_eq_true_eq]
  exact Or.inr (optimalBatchSizes_le hn hm)

/-- **C19, `csvStringToData(Data<RealVector>&, …)`**: for every list of parsed rows and every
maximum batch size ≥ 1 the result is the exception or a well-formed dataset with one element
per row, all of the dimension of the first row, in batches of at most `maxB` elements. -/
theorem import_wellformed_or_error_csv_rows (rows : List (List V)) (maxB : Nat) (hm : 0 < maxB) :
    match Csv.importRows rows maxB with
    | .ok d => d.wf maxB = true ∧ d.rows.length = rows.length
    | .error => True
    | _ => False := by
  unfold Csv.importRows
  cases rows with
  | nil => simp [Csv.emptySet, DataSet.wf]
  | cons r0 t =>
    simp only
    by_cases hall : ((r0 :: t).all fun r => r.length == r0.length) = true
    · rw [if_pos hall]
      have hb := csv_batches_ok (n := (r0 :: t).length) (maxB := maxB) (by simp) hm
      refine ⟨?_, by simp⟩
      simp only [DataSet.wf, Bool.and_eq_true, List.all_eq_true]
      refine ⟨⟨⟨?_, by simpa using hb.1⟩, trivial⟩, hb.2⟩
      intro r hr
      obtain ⟨xs, hxs, rfl⟩ := List.mem_map.mp hr
      have := List.all_eq_true.mp hall xs hxs
      simp only [beq_iff_eq] at this
      simp [Row.dim, Row.wf, this]
    · rw [if_neg hall]; trivial

/-- **C19, `csvStringToData(LabeledData<RealVector, unsigned int>&, …)`**: exception, or a
well-formed dataset whose labels are all below `numberOfClasses`. -/
theorem import_wellformed_or_error_csv_class (pts : List (Int × List V)) (maxB : Nat) (hm : 0 < maxB) :
    match Csv.importClass pts maxB with
    | .ok d => d.wf maxB = true ∧ d.rows.length = pts.length ∧
        (match d.labels with
         | .cls ls => ∀ l ∈ ls, l < numberOfClasses ls
         | _ => False)
    | .error => True
    | _ => False := by
  unfold Csv.importClass
  cases pts with
  | nil => simp [Csv.emptySet, DataSet.wf]
  | cons p0 t =>
    simp only
    cases hl : classLabels ((p0 :: t).map fun p => some p.1) with
    | none => trivial
    | some labels =>
      simp only
      by_cases hall : ((p0 :: t).all fun p => p.2.length == p0.2.length) = true
      · rw [if_pos hall]
        have hb := csv_batches_ok (n := (p0 :: t).length) (maxB := maxB) (by simp) hm
        have hlen := classLabels_length hl
        refine ⟨?_, by simp, fun l hl' => numberOfClasses_gt labels l hl'⟩
        simp only [DataSet.wf, Bool.and_eq_true, List.all_eq_true]
        refine ⟨⟨⟨?_, by simpa using hb.1⟩, by simpa using hlen⟩, hb.2⟩
        intro r hr
        obtain ⟨p, hp, rfl⟩ := List.mem_map.mp hr
        have := List.all_eq_true.mp hall p hp
        simp only [beq_iff_eq] at this
        simp [Row.dim, Row.wf, this]
      · rw [if_neg hall]; trivial

/-- **C19, `csvStringToData(LabeledData<RealVector, RealVector>&, …, lp, numberOfOutputs, …)`**:
exception, or a well-formed dataset with `numberOfOutputs`-dimensional labels. -/
theorem import_wellformed_or_error_csv_regr (rows : List (List V)) (labelFirst : Bool) (numOut maxB : Nat)
    (hm : 0 < maxB) :
    match Csv.importRegr rows labelFirst numOut maxB with
    | .ok d => d.wf maxB = true ∧ d.rows.length = rows.length
    | .error => True
    | _ => False := by
  unfold Csv.importRegr
  cases rows with
  | nil => simp [Csv.emptySet, DataSet.wf]
  | cons r0 t =>
    simp only
    by_cases hgt : r0.length > numOut
    · rw [if_neg (by simpa using hgt)]
      by_cases hall : ((r0 :: t).all fun r => r.length == r0.length) = true
      · rw [if_pos hall]
        have hb := csv_batches_ok (n := (r0 :: t).length) (maxB := maxB) (by simp) hm
        refine ⟨?_, by simp⟩
        simp only [DataSet.wf, Bool.and_eq_true, List.all_eq_true]
        refine ⟨⟨⟨?_, by simpa using hb.1⟩, ⟨by simp, ?_⟩⟩, hb.2⟩
        · intro r hr
          obtain ⟨xs, hxs, rfl⟩ := List.mem_map.mp hr
          have := List.all_eq_true.mp hall xs hxs
          simp only [beq_iff_eq] at this
          simp only [Row.dim, Row.wf, Bool.and_true, beq_iff_eq, Option.some.injEq, List.length_take,
            List.length_drop, this]
          cases labelFirst <;> simp <;> omega
        · intro l hl
          obtain ⟨xs, hxs, rfl⟩ := List.mem_map.mp hl
          have := List.all_eq_true.mp hall xs hxs
          simp only [beq_iff_eq] at this
          simp only [beq_iff_eq, Option.some.injEq, List.length_take, List.length_drop, this]
          cases labelFirst <;> simp <;> omega
      · rw [if_neg hall]; trivial
    · rw [if_pos (by simpa using hgt)]; trivial

/-- non-vacuity: a 3-row file in batches of at most 2 -/
example : (match Csv.importRows [[1, 2], [3, 4], [5, 6]] 2 with
    | .ok (d : DataSet Nat) => d.wf 2 && d.batches == [2, 1]
    | _ => false) = true := by decide

/-- **C19 (first sentence of the property, for the model of the post-parse logic):** every
importer family returns the library's exception (or, for dense LibSVM vectors beyond the
allocation limit, `bad_alloc`) or a well-formed dataset — equal dimensions, labels within the
class count, element count = record count, batches no larger than requested.  This is the
conjunction of the four theorems above; LibSVM: the repaired logic (`importRepaired`), which
`repaired_eq_current` identifies with the code in the tree on sorted, non-empty, one-based files. -/
theorem import_wellformed_or_error {V : Type} :
    (∀ (zero : V) (labelInt : V → Option Int) (cfg : Cfg) (recs : List (Rec V)),
      match importRepaired zero labelInt cfg recs with
      | .ok d => d.wf cfg.bs = true ∧ d.rows.length = recs.length
      | .error => True
      | .allocFail => True
      | .oobWrite _ _ => False
      | .ubEmptyMax => False) ∧
    (∀ (rows : List (List V)) (maxB : Nat), 0 < maxB →
      match Csv.importRows rows maxB with
      | .ok d => d.wf maxB = true ∧ d.rows.length = rows.length
      | .error => True
      | _ => False) ∧
    (∀ (pts : List (Int × List V)) (maxB : Nat), 0 < maxB →
      match Csv.importClass pts maxB with
      | .ok d => d.wf maxB = true ∧ d.rows.length = pts.length ∧
          (match d.labels with
           | .cls ls => ∀ l ∈ ls, l < numberOfClasses ls
           | _ => False)
      | .error => True
      | _ => False) ∧
    (∀ (rows : List (List V)) (labelFirst : Bool) (numOut maxB : Nat), 0 < maxB →
      match Csv.importRegr rows labelFirst numOut maxB with
      | .ok d => d.wf maxB = true ∧ d.rows.length = rows.length
      | .error => True
      | _ => False) :=
  ⟨import_wellformed_or_error_svm, import_wellformed_or_error_csv_rows, import_wellformed_or_error_csv_class,
   import_wellformed_or_error_csv_regr⟩


/-! ## from BYTES: every importer overload, reader and logic composed -/

/-- `optimalBatchSizes n 0 = [n]`: with the repair of finding F10 (`maximumBatchSize = 0` means
"unlimited", as in the constructors of `Data`) the C++ computes exactly this; the tree as it is divides
by zero there (known finding, probed on every run). -/
theorem optimalBatchSizes_zero {n : Nat} (hn : 0 < n) : optimalBatchSizes n 0 = [n] := by
  have h1 : n - 0 > 0 := by omega
  simp [optimalBatchSizes, hn, List.range_succ]

/-- the batch part of `DataSet.wf` for every maximum batch size, 0 (= unlimited) included -/
theorem csv_batches_ok_all {n : Nat} (maxB : Nat) (hn : 0 < n) :
    ((optimalBatchSizes n maxB).foldl (· + ·) 0 == n) = true ∧
    (maxB == 0 || (optimalBatchSizes n maxB).all (fun b => decide (b ≤ maxB))) = true := by
  by_cases hm : maxB = 0
  · subst hm; rw [optimalBatchSizes_zero hn]; simp
  · exact csv_batches_ok hn (Nat.pos_of_ne_zero hm)

/-- what the property allows an importer to do: a well-formed dataset with one element per record, the
library's exception, or (dense LibSVM vectors beyond the harness' allocation limit) `bad_alloc` -/
def Acceptable (o : Outcome Val) (maxBatch : Nat) : Prop :=
  match o with
  | .ok d => d.wf maxBatch = true
  | .error => True
  | .allocFail => True
  | .oobWrite _ _ => False
  | .ubEmptyMax => False

/-- **C19, first sentence, LibSVM importers, from bytes (full strength).**  For EVERY byte sequence and every
configuration (dense/sparse, classification/regression, `highestIndex`, batch size) the model of
`importSparseData` — line splitting, the `phrase_parse` record grammar, the index-order check, then the
importer logic — returns a well-formed dataset, the exception or `bad_alloc`; it never writes out of
bounds, never evaluates `max_element` of an empty batch. -/
theorem import_bytes_wellformed_or_error_svm (cfg : Cfg) (bytes : List Char) :
    Acceptable (Svm.importBytes cfg bytes) cfg.bs := by
  unfold Svm.importBytes
  cases svmRecords bytes with
  | none => trivial
  | some recs =>
    simp only
    have h := import_wellformed_or_error_svm Val.zero Val.toInt32 cfg
      (recs.map fun r => ({ label := r.1, feats := r.2 } : Rec Val))
    revert h
    cases importRepaired Val.zero Val.toInt32 cfg (recs.map fun r => ({ label := r.1, feats := r.2 } : Rec Val)) with
    | ok d => intro h; exact h.1
    | error => intro _; trivial
    | allocFail => intro _; trivial
    | oobWrite i n => intro h; exact h
    | ubEmptyMax => intro h; exact h

/-- `importRows` for every maximum batch size -/
theorem importRows_acceptable (rows : List (List Val)) (maxB : Nat) : Acceptable (Csv.importRows rows maxB) maxB := by
  unfold Csv.importRows
  cases rows with
  | nil => simp [Acceptable, Csv.emptySet, DataSet.wf]
  | cons r0 t =>
    simp only
    by_cases hall : ((r0 :: t).all fun r => r.length == r0.length) = true
    · rw [if_pos hall]
      have hb := csv_batches_ok_all (n := (r0 :: t).length) maxB (by simp)
      simp only [Acceptable, DataSet.wf, Bool.and_eq_true, List.all_eq_true]
      refine ⟨⟨⟨?_, by simpa using hb.1⟩, trivial⟩, hb.2⟩
      intro r hr
      obtain ⟨xs, hxs, rfl⟩ := List.mem_map.mp hr
      have := List.all_eq_true.mp hall xs hxs
      simp only [beq_iff_eq] at this
      simp [Row.dim, Row.wf, this]
    · rw [if_neg hall]; trivial

theorem importClass_acceptable (pts : List (Int × List Val)) (maxB : Nat) : Acceptable (Csv.importClass pts maxB) maxB := by
  unfold Csv.importClass
  cases pts with
  | nil => simp [Acceptable, Csv.emptySet, DataSet.wf]
  | cons p0 t =>
    simp only
    cases hl : classLabels ((p0 :: t).map fun p => some p.1) with
    | none => trivial
    | some labels =>
      simp only
      by_cases hall : ((p0 :: t).all fun p => p.2.length == p0.2.length) = true
      · rw [if_pos hall]
        have hb := csv_batches_ok_all (n := (p0 :: t).length) maxB (by simp)
        have hlen := classLabels_length hl
        simp only [Acceptable, DataSet.wf, Bool.and_eq_true, List.all_eq_true]
        refine ⟨⟨⟨?_, by simpa using hb.1⟩, by simpa using hlen⟩, hb.2⟩
        intro r hr
        obtain ⟨p, hp, rfl⟩ := List.mem_map.mp hr
        have := List.all_eq_true.mp hall p hp
        simp only [beq_iff_eq] at this
        simp [Row.dim, Row.wf, this]
      · rw [if_neg hall]; trivial

theorem importRegr_acceptable (rows : List (List Val)) (labelFirst : Bool) (numOut maxB : Nat) :
    Acceptable (Csv.importRegr rows labelFirst numOut maxB) maxB := by
  by_cases hm : maxB = 0
  · -- maxB = 0: one batch
    subst hm
    unfold Csv.importRegr
    cases rows with
    | nil => simp [Acceptable, Csv.emptySet, DataSet.wf]
    | cons r0 t =>
      simp only
      by_cases hgt : r0.length > numOut
      · rw [if_neg (by simpa using hgt)]
        by_cases hall : ((r0 :: t).all fun r => r.length == r0.length) = true
        · rw [if_pos hall]
          have hb := csv_batches_ok_all (n := (r0 :: t).length) 0 (by simp)
          simp only [Acceptable, DataSet.wf, Bool.and_eq_true, List.all_eq_true]
          refine ⟨⟨⟨?_, by simpa using hb.1⟩, ⟨by simp, ?_⟩⟩, hb.2⟩
          · intro r hr
            obtain ⟨xs, hxs, rfl⟩ := List.mem_map.mp hr
            have := List.all_eq_true.mp hall xs hxs
            simp only [beq_iff_eq] at this
            simp only [Row.dim, Row.wf, Bool.and_true, beq_iff_eq, Option.some.injEq, List.length_take,
              List.length_drop, this]
            cases labelFirst <;> simp <;> omega
          · intro l hl
            obtain ⟨xs, hxs, rfl⟩ := List.mem_map.mp hl
            have := List.all_eq_true.mp hall xs hxs
            simp only [beq_iff_eq] at this
            simp only [beq_iff_eq, Option.some.injEq, List.length_take, List.length_drop, this]
            cases labelFirst <;> simp <;> omega
        · rw [if_neg hall]; trivial
      · rw [if_pos (by simpa using hgt)]; trivial
  · have h := import_wellformed_or_error_csv_regr rows labelFirst numOut maxB (Nat.pos_of_ne_zero hm)
    revert h
    cases Csv.importRegr rows labelFirst numOut maxB with
    | ok d => intro h; exact h.1
    | error => intro _; trivial
    | allocFail => intro _; trivial
    | oobWrite i n => intro h; exact h
    | ubEmptyMax => intro h; exact h

/-- **C19, first sentence, CSV importers, from bytes (full strength).**  For EVERY byte sequence, separator,
comment character, label position, number of outputs and maximum batch size (0 = unlimited included) the
models of the three `csvStringToData` families — the PEG model of the `phrase_parse` grammar, then the
post-parse logic — return a well-formed dataset or the library's exception. -/
theorem import_bytes_wellformed_or_error_csv (bytes : List Char) (sep comment : Char) (labelFirst : Bool)
    (numOut maxB : Nat) :
    Acceptable (Csv.importRowsBytes bytes sep comment maxB) maxB ∧
    Acceptable (Csv.importClassBytes bytes labelFirst sep comment maxB) maxB ∧
    Acceptable (Csv.importRegrBytes bytes labelFirst numOut sep comment maxB) maxB := by
  refine ⟨?_, ?_, ?_⟩
  · unfold Csv.importRowsBytes
    cases Csv.readRows bytes sep comment with
    | none => trivial
    | some rows => exact importRows_acceptable rows maxB
  · unfold Csv.importClassBytes
    cases (if labelFirst then Csv.readPointsFirst bytes sep comment else Csv.readPointsLast bytes sep comment) with
    | none => trivial
    | some pts => exact importClass_acceptable pts maxB
  · unfold Csv.importRegrBytes
    cases Csv.readRows bytes sep comment with
    | none => trivial
    | some rows => exact importRegr_acceptable rows labelFirst numOut maxB

/-- the title lines of `importCSV(Data<T>&, fn, …, titleLines)` only shorten the input: the file overloads
are the string overloads on a suffix, so the theorem above covers them -/
theorem dropTitleLines_suffix : ∀ (k : Nat) (s : List Char), ∃ p, s = p ++ Csv.dropTitleLines k s := by
  intro k s
  induction s generalizing k with
  | nil => cases k <;> exact ⟨[], by simp [Csv.dropTitleLines]⟩
  | cons c t ih =>
    cases k with
    | zero => exact ⟨[], by simp [Csv.dropTitleLines]⟩
    | succ k =>
      simp only [Csv.dropTitleLines]
      split
      · obtain ⟨p, hp⟩ := ih k; exact ⟨c :: p, by rw [List.cons_append, ← hp]⟩
      · obtain ⟨p, hp⟩ := ih (k + 1); exact ⟨c :: p, by rw [List.cons_append, ← hp]⟩

/-- non-vacuity: bytes that do import — `"1,2\n3,4\n"`, unlimited batch size -/
example : (match Csv.importRowsBytes "1,2\n3,4\n".toList ',' '#' 0 with
    | .ok d => d.rows.length == 2 && d.batches == [2]
    | _ => false) = true := by decide

/-! ## exporters then importers (token level) -/

/-- **CSV round trip, classification (token level).**  The records `exportCSV` writes for a
labelled dataset — per element the class index and the `d` values — are read back by the
importer logic as the same elements with the same labels, for every maximum batch size,
provided class 0 occurs (the importer shifts labels by their minimum: see `csv_roundtrip_shift_witness`).
Label position and separator only matter to the lexer (`Model/Peg.lean`), exercised by the
correspondence stream `rt`. -/
theorem csv_roundtrip (pts : List (Nat × List V)) (d maxB : Nat) (hd : ∀ p ∈ pts, p.2.length = d)
    (hne : pts ≠ []) (h0 : 0 ∈ pts.map (·.1)) :
    Csv.importClass (pts.map fun p => (Int.ofNat p.1, p.2)) maxB =
      .ok { shape := some d, lshape := none, batches := optimalBatchSizes pts.length maxB,
            rows := pts.map (fun p => Row.dense p.2), labels := .cls (pts.map (·.1)) } := by
  unfold Csv.importClass
  cases hp : pts with
  | nil => exact absurd hp hne
  | cons p0 t =>
    rw [← hp]
    have hmap : (List.map (fun p => (Int.ofNat p.1, p.2)) pts) = (Int.ofNat p0.1, p0.2) :: t.map (fun p => (Int.ofNat p.1, p.2)) := by
      rw [hp]; rfl
    rw [hmap]
    simp only
    rw [← hmap]
    have hl : classLabels (List.map (fun p => some p.1) (List.map (fun p => (Int.ofNat p.1, p.2)) pts))
        = some (pts.map (·.1)) := by
      have := classLabels_nat (pts.map (·.1)) h0
      simpa [List.map_map, Function.comp_def] using this
    rw [hl]
    simp only
    have hd0 : p0.2.length = d := hd p0 (by rw [hp]; simp)
    have hall : ((List.map (fun p => (Int.ofNat p.1, p.2)) pts).all fun p => p.2.length == p0.2.length) = true := by
      rw [List.all_eq_true]
      intro q hq
      obtain ⟨p, hpm, rfl⟩ := List.mem_map.mp hq
      simp [hd p hpm, hd0]
    rw [if_pos hall]
    simp [hd0, List.map_map, Function.comp_def]

/-- without class 0 the importer renumbers the classes (by design: "class indices starting from
0 and 1 are supported"), so the round trip is not the identity -/
theorem csv_roundtrip_shift_witness :
    Csv.importClass [((1 : Int), [(7 : Nat)]), (2, [8])] 256 =
      .ok { shape := some 1, lshape := none, batches := [2],
            rows := [.dense [7], .dense [8]], labels := .cls [0, 1] } := by decide

/-- **CSV round trip, regression (token level)**: rows written as `labels ++ inputs`
(`FIRST_COLUMN`) or `inputs ++ labels` (`LAST_COLUMN`) are split back into the same inputs
and labels. -/
theorem csv_roundtrip_regression (pts : List (List V × List V)) (labelFirst : Bool) (dIn dOut maxB : Nat)
    (hin : ∀ p ∈ pts, p.1.length = dIn) (hout : ∀ p ∈ pts, p.2.length = dOut) (hpos : 0 < dIn)
    (hne : pts ≠ []) :
    Csv.importRegr (pts.map fun p => if labelFirst then p.2 ++ p.1 else p.1 ++ p.2) labelFirst dOut maxB =
      .ok { shape := some dIn, lshape := some dOut, batches := optimalBatchSizes pts.length maxB,
            rows := pts.map (fun p => Row.dense p.1), labels := .reg (pts.map (·.2)) } := by
  unfold Csv.importRegr
  cases hp : pts with
  | nil => exact absurd hp hne
  | cons p0 t =>
    rw [← hp]
    have hmap : (pts.map fun p => if labelFirst then p.2 ++ p.1 else p.1 ++ p.2)
        = (if labelFirst then p0.2 ++ p0.1 else p0.1 ++ p0.2) :: t.map (fun p => if labelFirst then p.2 ++ p.1 else p.1 ++ p.2) := by
      rw [hp]; rfl
    rw [hmap]
    simp only
    rw [← hmap]
    have h0i := hin p0 (by rw [hp]; simp)
    have h0o := hout p0 (by rw [hp]; simp)
    have hlen0 : (if labelFirst then p0.2 ++ p0.1 else p0.1 ++ p0.2).length = dIn + dOut := by
      cases labelFirst <;> simp [h0i, h0o, Nat.add_comm]
    rw [hlen0]
    rw [if_neg (by omega)]
    have hall : ((pts.map fun p => if labelFirst then p.2 ++ p.1 else p.1 ++ p.2).all fun r => r.length == dIn + dOut) = true := by
      rw [List.all_eq_true]
      intro q hq
      obtain ⟨p, hpm, rfl⟩ := List.mem_map.mp hq
      cases labelFirst <;> simp [hin p hpm, hout p hpm, Nat.add_comm]
    rw [if_pos hall]
    have hsub : dIn + dOut - dOut = dIn := by omega
    simp only [hsub, List.map_map, Function.comp_def, List.length_map, Outcome.ok.injEq, DataSet.mk.injEq,
      true_and, Labels.reg.injEq]
    constructor
    · apply List.map_congr_left
      intro p hpm
      have hi := hin p hpm; have ho := hout p hpm
      cases labelFirst
      · simp [← hi]
      · simp [← ho, ← hi]
    · apply List.map_congr_left
      intro p hpm
      have hi := hin p hpm; have ho := hout p hpm
      cases labelFirst
      · simp [← hi, ← ho]
      · simp [← ho]

/-- **LibSVM round trip, regression (token level).**  The records `exportSparseData` writes for
dense inputs — per element the label and `index:value` for the indices `1 … d` — are read back
by the (repaired = current, the indices are sorted) importer logic as the same vectors with the same
labels, for every batch size argument, when `highestIndex = d` is passed and the vectors fit the
allocation limit. -/
theorem libsvm_roundtrip {V : Type} (zero : V) (labelInt : V → Option Int) (pts : List (V × List V)) (d bs limit : Nat)
    (hd : ∀ p ∈ pts, p.2.length = d) (hpos : 0 < d) (hne : pts ≠ [])
    (hlimit : (initBatches pts.length bs).foldl max 1 * d ≤ limit) :
    importRepaired zero labelInt { sparse := false, cls := false, dims := d, bs := bs, allocLimit := limit }
        (pts.map fun p => ⟨p.1, enumFrom' 1 p.2⟩) =
      .ok { shape := some d, lshape := some 1, batches := initBatches pts.length bs,
            rows := pts.map (fun p => Row.dense p.2), labels := .reg (pts.map fun p => [p.1]) } := by
  have hvne : ∀ p ∈ pts, p.2 ≠ [] := by
    intro p hp h; have := hd p hp; rw [h] at this; simp at this; omega
  -- facts about the exported records
  have hsorted : (pts.map fun p => (⟨p.1, enumFrom' 1 p.2⟩ : Rec V)).all recSorted = true := by
    rw [List.all_eq_true]; intro r hr
    obtain ⟨p, _, rfl⟩ := List.mem_map.mp hr
    exact enum_sorted p.2 1
  have hmax : maxIndexLast (pts.map fun p => (⟨p.1, enumFrom' 1 p.2⟩ : Rec V)) = d := by
    apply Nat.le_antisymm
    · apply maxIndexLast_le
      intro r hr q hq
      obtain ⟨p, hp, rfl⟩ := List.mem_map.mp hr
      obtain ⟨x, hx⟩ := enum_last p.2 1 (hvne p hp)
      simp only at hq; rw [hx] at hq
      have := hd p hp
      simp only [Option.some.injEq] at hq; rw [← hq]; simp; omega
    · cases hp0 : pts with
      | nil => exact absurd hp0 hne
      | cons p0 t =>
        have hp : p0 ∈ pts := by rw [hp0]; simp
        obtain ⟨x, hx⟩ := enum_last p0.2 1 (hvne p0 hp)
        have := maxIndexLast_ge (pts.map fun p => (⟨p.1, enumFrom' 1 p.2⟩ : Rec V)) ⟨p0.1, enumFrom' 1 p0.2⟩
          (List.mem_map.mpr ⟨p0, hp, rfl⟩) _ hx
        have hd0 := hd p0 hp
        rw [hp0] at this
        simp only at this; omega
  have hzero : hasZeroFirst (pts.map fun p => (⟨p.1, enumFrom' 1 p.2⟩ : Rec V)) = false := by
    unfold hasZeroFirst
    rw [List.any_eq_false]
    intro r hr
    obtain ⟨p, hp, rfl⟩ := List.mem_map.mp hr
    obtain ⟨x, hx⟩ := enum_head p.2 1 (hvne p hp)
    simp [hx]
  unfold importRepaired
  simp only [hsorted, Bool.not_true, Bool.false_eq_true, if_false, Bool.false_and, hmax, Nat.max_self, hzero]
  rw [if_neg (by omega)]
  simp only [labelsOf, Bool.false_eq_true, if_false]
  unfold build
  simp only [vecSize, deltaOf, Bool.false_eq_true, if_false, Nat.add_zero, List.length_map, Bool.not_false,
    Bool.true_and, List.map_map]
  rw [if_neg (by simpa using hlimit)]
  have hw : (List.map (writes 1 ∘ fun p => (⟨p.1, enumFrom' 1 p.2⟩ : Rec V)) pts) = pts.map fun p => enumFrom' 0 p.2 := by
    apply List.map_congr_left
    intro p _
    exact writes_enum p.1 p.2 0
  rw [hw]
  have hoob : oobOf false d (pts.map fun p => enumFrom' 0 p.2) = none := by
    apply oobOf_none
    intro ws hws w hw'
    obtain ⟨p, hp, rfl⟩ := List.mem_map.mp hws
    -- indices of enumFrom' 0 vs are below vs.length = d
    have hlt : ∀ (vs : List V) (o : Nat), ∀ w ∈ enumFrom' o vs, w.1 < o + vs.length := by
      intro vs
      induction vs with
      | nil => intro o w hw; simp [enumFrom'] at hw
      | cons v t ih =>
        intro o w hw
        simp only [enumFrom', List.mem_cons] at hw
        rcases hw with rfl | hw
        · simp
        · have := ih (o + 1) w hw; simp only [List.length_cons]; omega
    have := hlt p.2 0 w hw'
    rw [hd p hp] at this; omega
  rw [hoob]
  simp only [finish, Bool.false_eq_true, if_false, List.map_map, if_true]
  have hrows : List.map ((fun ws => Row.dense (denseRow zero d ws)) ∘ fun p => enumFrom' 0 p.snd) pts
      = List.map (fun p => Row.dense p.snd) pts := by
    apply List.map_congr_left
    intro p hp
    simp only [Function.comp]
    rw [← hd p hp, denseRow_enum]
  rw [hrows]
  rfl


/-! ## LibSVM round trip with class-label mappings and sparse records (token level) -/

open SharkVerif.Import.Export in
/-- **LibSVM round trip, classification, sparse or dense inputs (token level).**  The records `exportSparseData`
writes for a labelled dataset — per element the mapped class label (`-1/+1` for two classes with `oneMinusOne`,
else `label + 1`) and `index+1:value` for the stored entries (strictly increasing indices below `d`; a dense
vector stores every cell) — are read back by the importer logic, for every batch size argument, sparse or dense
target vectors, as the same entries with the same class labels and `numberOfClasses` as label shape, when
`highestIndex = d` is passed, class 0 occurs (otherwise the importer's min-shift renumbers: `csv_roundtrip_shift_witness`)
and dense vectors fit the allocation limit. -/
theorem libsvm_roundtrip_class {V : Type} (zero : V) (ofInt : Int → V) (labelInt : V → Option Int)
    (pts : List (Nat × List (Nat × V))) (d bs limit : Nat) (sparse omo : Bool)
    (hli : ∀ p ∈ pts, labelInt (ofInt (svmLabelOut omo p.1)) = some (svmLabelOut omo p.1))
    (hidx : ∀ p ∈ pts, strictlyIncreasing (p.2.map (·.1)) = true ∧ ∀ q ∈ p.2, q.1 < d)
    (hne : pts ≠ []) (h0 : 0 ∈ pts.map (·.1)) (homo : omo = true → ∀ p ∈ pts, p.1 ≤ 1)
    (hlimit : sparse = true ∨ (initBatches pts.length bs).foldl max 1 * d ≤ limit) :
    importRepaired zero labelInt { sparse := sparse, cls := true, dims := d, bs := bs, allocLimit := limit }
        (pts.map fun p => ⟨ofInt (svmLabelOut omo p.1), p.2.map fun q => (q.1 + 1, q.2)⟩) =
      .ok { shape := some d, lshape := some (numberOfClasses (pts.map (·.1))), batches := initBatches pts.length bs,
            rows := pts.map (fun p => if sparse then Row.sparse d p.2 else Row.dense (denseRow zero d p.2)),
            labels := .cls (pts.map (·.1)) } := by
  have hsorted : (pts.map fun p => (⟨ofInt (svmLabelOut omo p.1), p.2.map fun q => (q.1 + 1, q.2)⟩ : Rec V)).all recSorted = true := by
    rw [List.all_eq_true]; intro r hr
    obtain ⟨p, hp, rfl⟩ := List.mem_map.mp hr
    unfold recSorted
    simp only [List.map_map]
    have : ((fun (x : Nat × V) => x.1) ∘ fun (q : Nat × V) => (q.1 + 1, q.2)) = (fun n => n + 1) ∘ (fun (x : Nat × V) => x.1) := rfl
    rw [this, ← List.map_map]
    exact si_map (hidx p hp).1 (fun x _ y _ h => by omega)
  have hmax : max (maxIndexLast (pts.map fun p => (⟨ofInt (svmLabelOut omo p.1), p.2.map fun q => (q.1 + 1, q.2)⟩ : Rec V))) d = d := by
    apply Nat.max_eq_right
    apply maxIndexLast_le
    intro r hr q hq
    obtain ⟨p, hp, rfl⟩ := List.mem_map.mp hr
    simp only at hq
    have hmem := List.mem_of_getLast? hq
    obtain ⟨q', hq', rfl⟩ := List.mem_map.mp hmem
    have := (hidx p hp).2 q' hq'
    simp; omega
  have hzero : hasZeroFirst (pts.map fun p => (⟨ofInt (svmLabelOut omo p.1), p.2.map fun q => (q.1 + 1, q.2)⟩ : Rec V)) = false := by
    unfold hasZeroFirst
    rw [List.any_eq_false]
    intro r hr
    obtain ⟨p, hp, rfl⟩ := List.mem_map.mp hr
    cases hh : p.2 with
    | nil => simp
    | cons a t => simp
  have hlab : classLabels ((pts.map fun p => (⟨ofInt (svmLabelOut omo p.1), p.2.map fun q => (q.1 + 1, q.2)⟩ : Rec V)).map
      fun r => labelInt r.label) = some (pts.map (·.1)) := by
    have hm : ((pts.map fun p => (⟨ofInt (svmLabelOut omo p.1), p.2.map fun q => (q.1 + 1, q.2)⟩ : Rec V)).map
        fun r => labelInt r.label) = pts.map (fun p => some (svmLabelOut omo p.1)) := by
      rw [List.map_map]; apply List.map_congr_left; intro p hp; exact hli p hp
    rw [hm]
    cases omo with
    | false =>
      have := classLabels_succ (pts.map (·.1)) h0
      simpa [svmLabelOut, List.map_map, Function.comp_def] using this
    | true =>
      have := classLabels_pm1 (pts.map (·.1)) h0 (by
        intro l hl; obtain ⟨p, hp, rfl⟩ := List.mem_map.mp hl; exact homo rfl p hp)
      simpa [svmLabelOut, List.map_map, Function.comp_def] using this
  have hpne : pts.isEmpty = false := by cases pts with
    | nil => exact absurd rfl hne
    | cons a t => rfl
  unfold importRepaired
  simp only [hsorted, Bool.not_true, Bool.false_eq_true, if_false, List.isEmpty_map, hpne, Bool.and_false, hmax, hzero]
  rw [if_neg (by omega)]
  simp only [labelsOf, if_true, hlab, Option.map_some]
  unfold build
  simp only [vecSize, deltaOf, Bool.false_eq_true, if_false, Nat.add_zero, List.length_map, List.map_map]
  rw [if_neg (by
    rcases hlimit with h | h
    · simp [h]
    · simp; intro _; omega)]
  have hw : (List.map (writes 1 ∘ fun p => (⟨ofInt (svmLabelOut omo p.1), p.2.map fun q => (q.1 + 1, q.2)⟩ : Rec V)) pts) = pts.map (·.2) := by
    apply List.map_congr_left
    intro p _
    simp only [Function.comp, writes, List.map_map]
    conv => rhs; rw [← List.map_id p.2]
    apply List.map_congr_left
    intro q _
    simp [writeIndex]
  rw [hw]
  have hoob : oobOf sparse d (pts.map (·.2)) = none := by
    apply oobOf_none
    intro ws hws w hw'
    obtain ⟨p, hp, rfl⟩ := List.mem_map.mp hws
    exact (hidx p hp).2 w hw'
  rw [hoob]
  simp only [finish, List.map_map, if_true]
  have hle : (pts.map (·.1)).isEmpty = false := by simp [hpne]
  rw [if_neg (by simp [hle])]
  rfl

/-- non-vacuity: two sparse elements, classes 0 and 1, written as `-1 2:7` and `+1 1:8 3:9` -/
example : importRepaired (0 : Int) some { sparse := true, cls := true, dims := 3, bs := 0, allocLimit := 0 }
    [⟨-1, [(2, 7)]⟩, ⟨1, [(1, 8), (3, 9)]⟩] =
    .ok { shape := some 3, lshape := some 2, batches := [2], rows := [.sparse 3 [(1, 7)], .sparse 3 [(0, 8), (2, 9)]],
          labels := .cls [0, 1] } := by decide

/-- **LibSVM round trip, regression labels, sparse or dense stored entries (token level).**  Records
`label index+1:value …` with strictly increasing indices below `d` are read back by the importer logic as the
same entries (a sparse row, or the dense vector they fill) with the same labels, for every batch size argument. -/
theorem libsvm_roundtrip_sparse {V : Type} (zero : V) (labelInt : V → Option Int)
    (pts : List (V × List (Nat × V))) (d bs limit : Nat) (sparse : Bool)
    (hidx : ∀ p ∈ pts, strictlyIncreasing (p.2.map (·.1)) = true ∧ ∀ q ∈ p.2, q.1 < d)
    (hlimit : sparse = true ∨ (initBatches pts.length bs).foldl max 1 * d ≤ limit) :
    importRepaired zero labelInt { sparse := sparse, cls := false, dims := d, bs := bs, allocLimit := limit }
        (pts.map fun p => ⟨p.1, p.2.map fun q => (q.1 + 1, q.2)⟩) =
      .ok { shape := some d, lshape := some 1, batches := initBatches pts.length bs,
            rows := pts.map (fun p => if sparse then Row.sparse d p.2 else Row.dense (denseRow zero d p.2)),
            labels := .reg (pts.map fun p => [p.1]) } := by
  have hsorted : (pts.map fun p => (⟨p.1, p.2.map fun q => (q.1 + 1, q.2)⟩ : Rec V)).all recSorted = true := by
    rw [List.all_eq_true]; intro r hr
    obtain ⟨p, hp, rfl⟩ := List.mem_map.mp hr
    unfold recSorted
    simp only [List.map_map]
    have : ((fun (x : Nat × V) => x.1) ∘ fun (q : Nat × V) => (q.1 + 1, q.2)) = (fun n => n + 1) ∘ (fun (x : Nat × V) => x.1) := rfl
    rw [this, ← List.map_map]
    exact si_map (hidx p hp).1 (fun x _ y _ h => by omega)
  have hmax : max (maxIndexLast (pts.map fun p => (⟨p.1, p.2.map fun q => (q.1 + 1, q.2)⟩ : Rec V))) d = d := by
    apply Nat.max_eq_right
    apply maxIndexLast_le
    intro r hr q hq
    obtain ⟨p, hp, rfl⟩ := List.mem_map.mp hr
    simp only at hq
    have hmem := List.mem_of_getLast? hq
    obtain ⟨q', hq', rfl⟩ := List.mem_map.mp hmem
    have := (hidx p hp).2 q' hq'
    simp; omega
  have hzero : hasZeroFirst (pts.map fun p => (⟨p.1, p.2.map fun q => (q.1 + 1, q.2)⟩ : Rec V)) = false := by
    unfold hasZeroFirst
    rw [List.any_eq_false]
    intro r hr
    obtain ⟨p, hp, rfl⟩ := List.mem_map.mp hr
    cases hh : p.2 with
    | nil => simp
    | cons a t => simp
  unfold importRepaired
  simp only [hsorted, Bool.not_true, Bool.false_eq_true, if_false, Bool.false_and, hmax, hzero]
  rw [if_neg (by omega)]
  simp only [labelsOf, Bool.false_eq_true, if_false]
  unfold build
  simp only [vecSize, deltaOf, Bool.false_eq_true, if_false, Nat.add_zero, List.length_map, List.map_map]
  rw [if_neg (by
    rcases hlimit with h | h
    · simp [h]
    · simp; intro _; omega)]
  have hw : (List.map (writes 1 ∘ fun p => (⟨p.1, p.2.map fun q => (q.1 + 1, q.2)⟩ : Rec V)) pts) = pts.map (·.2) := by
    apply List.map_congr_left
    intro p _
    simp only [Function.comp, writes, List.map_map]
    conv => rhs; rw [← List.map_id p.2]
    apply List.map_congr_left
    intro q _
    simp [writeIndex]
  rw [hw]
  have hoob : oobOf sparse d (pts.map (·.2)) = none := by
    apply oobOf_none
    intro ws hws w hw'
    obtain ⟨p, hp, rfl⟩ := List.mem_map.mp hws
    exact (hidx p hp).2 w hw'
  rw [hoob]
  simp only [finish, List.map_map]
  rfl

open SharkVerif.Import.Export in
/-- **C19, second sentence, `exportSparseData` → `importSparseData` FROM BYTES (regression labels).**  For every
dataset of binary64 values (labels and stored entries; indices strictly increasing below `d < 2^32`; sparse or
dense target, any batch size, `highestIndex = d`): importing the bytes the exporter wrote yields the dataset whose
labels and entries are the values read back token by token (`readBack` of the `%.6g` token: by `real_fmtG`
spirit's conversion of the value rounded to 6 significant digits), in the same order, same indices, same shape. -/
theorem libsvm_export_import_bytes (pts : List RegPoint) (d bs limit : Nat) (sparse : Bool)
    (htok : ∀ p ∈ pts, isDouble p.1.1 = true ∧ readBack (svmNum p.1.1) = some p.1.2 ∧
      ∀ q ∈ p.2, q.1 + 1 < 4294967296 ∧ isDouble q.2.1 = true ∧ readBack (svmNum q.2.1) = some q.2.2)
    (hidx : ∀ p ∈ pts, strictlyIncreasing (p.2.map (·.1)) = true ∧ ∀ q ∈ p.2, q.1 < d)
    (hlimit : sparse = true ∨ (initBatches pts.length bs).foldl max 1 * d ≤ limit) :
    Svm.importBytes { sparse := sparse, cls := false, dims := d, bs := bs, allocLimit := limit }
        (svmRegr (pts.map fun p => (p.1.1, p.2.map fun q => (q.1, q.2.1)))) =
      .ok { shape := some d, lshape := some 1, batches := initBatches pts.length bs,
            rows := pts.map (fun p => if sparse then Row.sparse d (p.2.map fun q => (q.1, q.2.2))
                                      else Row.dense (denseRow Val.zero d (p.2.map fun q => (q.1, q.2.2)))),
            labels := .reg (pts.map fun p => [p.1.2]) } := by
  unfold Svm.importBytes
  rw [svmRecords_svmRegr pts htok]
  simp only [List.map_map]
  have h := libsvm_roundtrip_sparse Val.zero Val.toInt32 (pts.map fun p => (p.1.2, p.2.map fun q => (q.1, q.2.2))) d bs limit sparse
    (by
      intro p' hp'
      obtain ⟨p, hp, rfl⟩ := List.mem_map.mp hp'
      have := hidx p hp
      simp only [List.map_map] at this ⊢
      refine ⟨by simpa [Function.comp_def] using this.1, ?_⟩
      intro q' hq'
      obtain ⟨q, hq, rfl⟩ := List.mem_map.mp hq'
      exact this.2 q hq)
    (by simpa using hlimit)
  simp only [List.map_map, List.length_map, Function.comp_def] at h ⊢
  exact h

open SharkVerif.Import.Export in
/-- non-vacuity: a two-element dataset `(2.5; x₁ = 1, x₃ = -0.25)`, `(-inf; x₂ = 0.1)` is written as below and imported
again (sparse, `highestIndex` 3) with every value read back exactly — all of them have at most 6 significant digits -/
example : svmRegr [(Val.fin false 5 (-1), [(0, Val.fin false 1 0), (2, Val.fin true 1 (-2))]),
                   (Val.inf true, [(1, Val.fin false 3602879701896397 (-55))])]
      = "2.5 1:1 3:-0.25\n-inf 2:0.1\n".toList ∧
    Svm.importBytes { sparse := true, cls := false, dims := 3, bs := 0, allocLimit := 0 } "2.5 1:1 3:-0.25\n-inf 2:0.1\n".toList
      = .ok { shape := some 3, lshape := some 1, batches := [2],
              rows := [.sparse 3 [(0, Val.fin false 1 0), (2, Val.fin true 1 (-2))],
                       .sparse 3 [(1, Val.fin false 3602879701896397 (-55))]],
              labels := .reg [[Val.fin false 5 (-1)], [Val.inf true]] } := by decide

open SharkVerif.Import.Export in
/-- **C19, second sentence, `exportSparseData` → `importSparseData` FROM BYTES (class labels).**  For every labelled
dataset (class indices below 2^31 - 1 with class 0 present, stored entries of binary64 values with strictly
increasing indices below `d`; `oneMinusOne` on or off, `sortLabels` off; sparse or dense target, any batch size,
`highestIndex = d`): importing the bytes the exporter wrote yields the same class labels — the label tokens
(`-1` / `+1` or `label + 1`) are integers, which `double_` converts exactly (`real_intDigits`) and the importer's
label logic maps back — `numberOfClasses` as label shape, and the entries read back token by token. -/
theorem libsvm_export_import_bytes_class (pts : List ClsPoint) (omo : Bool) (d bs limit : Nat) (sparse : Bool)
    (htok : ∀ p ∈ pts, p.1 + 1 < 2 ^ 31 ∧
      ∀ q ∈ p.2, q.1 + 1 < 4294967296 ∧ isDouble q.2.1 = true ∧ readBack (svmNum q.2.1) = some q.2.2)
    (hidx : ∀ p ∈ pts, strictlyIncreasing (p.2.map (·.1)) = true ∧ ∀ q ∈ p.2, q.1 < d)
    (hne : pts ≠ []) (h0 : 0 ∈ pts.map (·.1))
    (hlimit : sparse = true ∨ (initBatches pts.length bs).foldl max 1 * d ≤ limit) :
    Svm.importBytes { sparse := sparse, cls := true, dims := d, bs := bs, allocLimit := limit }
        (svmClass (pts.map fun p => (p.1, p.2.map fun q => (q.1, q.2.1))) omo false) =
      .ok { shape := some d, lshape := some (numberOfClasses (pts.map (·.1))), batches := initBatches pts.length bs,
            rows := pts.map (fun p => if sparse then Row.sparse d (p.2.map fun q => (q.1, q.2.2))
                                      else Row.dense (denseRow Val.zero d (p.2.map fun q => (q.1, q.2.2)))),
            labels := .cls (pts.map (·.1)) } := by
  unfold Svm.importBytes
  rw [svmRecords_svmClass pts omo htok]
  generalize hO : (omo && (if pts.isEmpty then 1 else numberOfClasses (pts.map (·.1))) == 2) = O
  have homo : O = true → ∀ p ∈ pts, p.1 ≤ 1 := by
    intro hOt p hp
    rw [hOt] at hO
    simp only [Bool.and_eq_true, beq_iff_eq] at hO
    have hpe : pts.isEmpty = false := by
      cases pts with
      | nil => exact absurd rfl hne
      | cons a t => rfl
    rw [hpe] at hO
    simp only [Bool.false_eq_true, if_false] at hO
    have := numberOfClasses_gt (pts.map (·.1)) p.1 (List.mem_map.mpr ⟨p, hp, rfl⟩)
    omega
  simp only [List.map_map]
  have h := libsvm_roundtrip_class Val.zero Val.ofInt Val.toInt32
    (pts.map fun p => (p.1, p.2.map fun q => (q.1, q.2.2))) d bs limit sparse O
    (by
      intro p' hp'
      obtain ⟨p, hp, rfl⟩ := List.mem_map.mp hp'
      obtain ⟨hz, _, hlo, hhi⟩ := svmLabelOut_props O p.1 (htok p hp).1 (fun hOt => homo hOt p hp)
      exact toInt32_ofInt _ hz hlo hhi)
    (by
      intro p' hp'
      obtain ⟨p, hp, rfl⟩ := List.mem_map.mp hp'
      have := hidx p hp
      simp only [List.map_map] at this ⊢
      refine ⟨by simpa [Function.comp_def] using this.1, ?_⟩
      intro q' hq'
      obtain ⟨q, hq, rfl⟩ := List.mem_map.mp hq'
      exact this.2 q hq)
    (by simpa using hne)
    (by simpa [List.map_map, Function.comp_def] using h0)
    (by
      intro hOt p' hp'
      obtain ⟨p, hp, rfl⟩ := List.mem_map.mp hp'
      exact homo hOt p hp)
    (by simpa using hlimit)
  simp only [List.map_map, List.length_map, Function.comp_def] at h ⊢
  exact h

open SharkVerif.Import.Export in
/-- non-vacuity: classes 0 / 1 with `oneMinusOne`, written as `-1  2:7.5` and `1  1:8 3:9` (the exporter puts a blank
after the label and one before each entry), imported again as the same dataset -/
example : svmClass [(0, [(1, Val.fin false 15 (-1))]), (1, [(0, Val.fin false 1 3), (2, Val.fin false 9 0)])] true false
      = "-1  2:7.5\n1  1:8 3:9\n".toList ∧
    Svm.importBytes { sparse := true, cls := true, dims := 3, bs := 0, allocLimit := 0 } "-1  2:7.5\n1  1:8 3:9\n".toList
      = .ok { shape := some 3, lshape := some 2, batches := [2],
              rows := [.sparse 3 [(1, Val.fin false 15 (-1))], .sparse 3 [(0, Val.fin false 1 3), (2, Val.fin false 9 0)]],
              labels := .cls [0, 1] } := by decide

open SharkVerif.Import.Export in
/-- **C19, second sentence for `exportSparseData` → `importSparseData`, from bytes, for EVERY dataset of binary64
values, without hypothesis on the tokens** (regression labels and class labels).  Every value the exporter prints
is accepted by the importer again (`readBack_fmtG_some`: the printed decimal exponent stays within spirit's range
`[-614, 308]`, never `1e+309`), so the import of the exported bytes succeeds and returns the dataset with the same
structure — element count, indices, shape, batches, class labels exactly — whose values are `reimport6 v`: spirit's
reading of `v` rounded to 6 significant decimal digits (`value_bytes_roundtrip_general`, `printed_decimal_is_nearest`). -/
theorem libsvm_export_import_bytes_all (d bs limit : Nat) (sparse : Bool) :
    (∀ (pts : List (Val × List (Nat × Val))),
      (∀ p ∈ pts, isDouble p.1 = true ∧ ∀ q ∈ p.2, q.1 + 1 < 4294967296 ∧ isDouble q.2 = true) →
      (∀ p ∈ pts, strictlyIncreasing (p.2.map (·.1)) = true ∧ ∀ q ∈ p.2, q.1 < d) →
      (sparse = true ∨ (initBatches pts.length bs).foldl max 1 * d ≤ limit) →
      Svm.importBytes { sparse := sparse, cls := false, dims := d, bs := bs, allocLimit := limit } (svmRegr pts) =
        .ok { shape := some d, lshape := some 1, batches := initBatches pts.length bs,
              rows := pts.map (fun p => if sparse then Row.sparse d (p.2.map fun q => (q.1, reimport6 q.2))
                                        else Row.dense (denseRow Val.zero d (p.2.map fun q => (q.1, reimport6 q.2)))),
              labels := .reg (pts.map fun p => [reimport6 p.1]) }) ∧
    (∀ (pts : List (Nat × List (Nat × Val))) (omo : Bool),
      (∀ p ∈ pts, p.1 + 1 < 2 ^ 31 ∧ ∀ q ∈ p.2, q.1 + 1 < 4294967296 ∧ isDouble q.2 = true) →
      (∀ p ∈ pts, strictlyIncreasing (p.2.map (·.1)) = true ∧ ∀ q ∈ p.2, q.1 < d) →
      pts ≠ [] → 0 ∈ pts.map (·.1) →
      (sparse = true ∨ (initBatches pts.length bs).foldl max 1 * d ≤ limit) →
      Svm.importBytes { sparse := sparse, cls := true, dims := d, bs := bs, allocLimit := limit } (svmClass pts omo false) =
        .ok { shape := some d, lshape := some (numberOfClasses (pts.map (·.1))), batches := initBatches pts.length bs,
              rows := pts.map (fun p => if sparse then Row.sparse d (p.2.map fun q => (q.1, reimport6 q.2))
                                        else Row.dense (denseRow Val.zero d (p.2.map fun q => (q.1, reimport6 q.2)))),
              labels := .cls (pts.map (·.1)) }) := by
  constructor
  · intro pts hv hidx hlimit
    have h := libsvm_export_import_bytes
      (pts.map fun p => ((p.1, reimport6 p.1), p.2.map fun q => (q.1, q.2, reimport6 q.2))) d bs limit sparse
      (by
        intro p' hp'
        obtain ⟨p, hp, rfl⟩ := List.mem_map.mp hp'
        refine ⟨(hv p hp).1, readBack_svmNum _ (hv p hp).1, ?_⟩
        intro q' hq'
        obtain ⟨q, hq, rfl⟩ := List.mem_map.mp hq'
        exact ⟨((hv p hp).2 q hq).1, ((hv p hp).2 q hq).2, readBack_svmNum _ ((hv p hp).2 q hq).2⟩)
      (by
        intro p' hp'
        obtain ⟨p, hp, rfl⟩ := List.mem_map.mp hp'
        have := hidx p hp
        simp only [List.map_map] at this ⊢
        refine ⟨by simpa [Function.comp_def] using this.1, ?_⟩
        intro q' hq'
        obtain ⟨q, hq, rfl⟩ := List.mem_map.mp hq'
        exact this.2 q hq)
      (by simpa using hlimit)
    simp only [List.map_map, List.length_map, Function.comp_def, List.map_id'] at h
    have hid : (pts.map fun p => (p.1, p.2.map fun q => (q.1, q.2))) = pts := by
      conv => rhs; rw [← List.map_id pts]
      apply List.map_congr_left
      intro p _
      simp
    simpa [hid] using h
  · intro pts omo hv hidx hne h0 hlimit
    have h := libsvm_export_import_bytes_class
      (pts.map fun p => (p.1, p.2.map fun q => (q.1, q.2, reimport6 q.2))) omo d bs limit sparse
      (by
        intro p' hp'
        obtain ⟨p, hp, rfl⟩ := List.mem_map.mp hp'
        refine ⟨(hv p hp).1, ?_⟩
        intro q' hq'
        obtain ⟨q, hq, rfl⟩ := List.mem_map.mp hq'
        exact ⟨((hv p hp).2 q hq).1, ((hv p hp).2 q hq).2, readBack_svmNum _ ((hv p hp).2 q hq).2⟩)
      (by
        intro p' hp'
        obtain ⟨p, hp, rfl⟩ := List.mem_map.mp hp'
        have := hidx p hp
        simp only [List.map_map] at this ⊢
        refine ⟨by simpa [Function.comp_def] using this.1, ?_⟩
        intro q' hq'
        obtain ⟨q, hq, rfl⟩ := List.mem_map.mp hq'
        exact this.2 q hq)
      (by simpa using hne)
      (by simpa [List.map_map, Function.comp_def] using h0)
      (by simpa using hlimit)
    simp only [List.map_map, List.length_map, Function.comp_def] at h
    have hid : (pts.map fun p => (p.1, p.2.map fun q => (q.1, q.2))) = pts := by
      conv => rhs; rw [← List.map_id pts]
      apply List.map_congr_left
      intro p _
      simp
    simpa [hid] using h

open SharkVerif.Import.Export in
/-- **C19, byte-level round trip of a value in `%.<p>g` format, every binary64 value** (`exportSparseData`: `%.6g`;
`exportCSV` with `scientific = false`: `%.10g`).  There are a mantissa `mant` and a count `z` of stripped trailing
zeros with `mant · 10^z = ds`, `(ds, ex) = sciDigits (P-1) v` the value rounded to `P` significant digits, such
that for everything that may follow the token (no digit, `.`, `e`, `E`) `double_` consumes exactly the token and
returns spirit's conversion of `mant · 10^(ex-(P-1)+z)` — the same decimal.  Infinite, NaN and zero tokens:
`real_fmtG_tok` (`Lemmas/ExportSvm.lean`), used by `libsvm_export_import_bytes`. -/
theorem value_bytes_roundtrip_general (p0 : Nat) (neg : Bool) (m : Nat) (e2 : Int) (hm : m ≠ 0)
    (hv : isDouble (.fin neg m e2) = true) :
    ∃ mant z : Nat,
      mant * 10 ^ z = (sciDigits ((if p0 = 0 then 1 else p0) - 1) (Val.fin neg m e2).ratOf.1 (Val.fin neg m e2).ratOf.2).1 ∧
      ∀ rest : List Char, NumEnd rest → real (fmtG p0 (Val.fin neg m e2) ++ rest) = scaled neg mant
        ((sciDigits ((if p0 = 0 then 1 else p0) - 1) (Val.fin neg m e2).ratOf.1 (Val.fin neg m e2).ratOf.2).2
          - (((if p0 = 0 then 1 else p0) - 1 : Nat) : Int) + (z : Int)) rest := by
  obtain ⟨mant, z, h1, _, h2⟩ := real_fmtG p0 neg m e2 hm hv
  exact ⟨mant, z, h1, h2⟩

open SharkVerif.Import.Export in
/-- non-vacuity: the three layouts of `%g` — `123.5`, `0.00025`, `1e+06` -/
example : fmtG 6 (Val.fin false 247 (-1)) = "123.5".toList ∧
    real (fmtG 6 (Val.fin false 247 (-1)) ++ [' ']) = some (Val.fin false 247 (-1), [' ']) := by decide

open SharkVerif.Import.Export in
example : fmtG 6 (Val.fin false 15625 6) = "1e+06".toList ∧
    real ("1e+06".toList ++ [',']) = some (Val.fin false 15625 6, [',']) := by decide

open SharkVerif.Import.Export in
example : fmtG 6 (Val.fin false 1 (-12)) = "0.000244141".toList ∧
    (real ("0.000244141".toList ++ ['\n'])).map (·.2) = some ['\n'] := by decide

/-! ## printed numbers at BYTE level: character set, and what the lexers read back -/

open SharkVerif.Import.Export in
/-- **C19, character set of everything the exporters print.**  Every number (`%.<p>e`, `%.<p>g`, any precision, any
value incl. inf / nan / zeros), every class label and feature index consists only of digits, sign, `.`, `e` and the
letters of `inf` / `nan`; a CSV cell additionally of the blanks `setw` pads with.  Hence a separator that is not one
of these characters never occurs inside a cell — the separator hypothesis of the token-level round-trip theorems
is a checked fact for every such separator, every format and field width. -/
theorem printed_number_charset (p : Nat) (v : Val) (n : Nat) (i : Int) (sci : Bool) (w : Nat) (sep : Char)
    (hsep : numChar sep = false) (hb : sep ≠ ' ') :
    AllNum (fmtE p v) ∧ AllNum (fmtG p v) ∧ AllNum (natDigits n) ∧ AllNum (intDigits i) ∧
    sep ∉ csvNum sci w v ∧ sep ∉ svmNum v ∧ sep ∉ natDigits n ∧ sep ∉ intDigits i := by
  have hnot : ∀ s : List Char, AllNum s → sep ∉ s := by
    intro s hs hmem
    have := hs sep hmem
    rw [hsep] at this; exact absurd this (by decide)
  exact ⟨fmtE_chars p v, fmtG_chars p v, AllNum.natDigits n, AllNum.intDigits i, csvNum_no_separator sci w v sep hsep hb,
    hnot _ (svmNum_chars v), hnot _ (AllNum.natDigits n), hnot _ (AllNum.intDigits i)⟩

open SharkVerif.Import.Export in
/-- non-vacuity: the separators of the generated stream (and `:` / line feed of the LibSVM format) qualify; the
characters of a number do not — with `-`, `+`, `.`, `e` or a digit as separator the written file is ambiguous,
with `E` it is too (`1E2`), which is why the round trip is claimed for separators outside these only -/
example : (([',', ';', '\t', '|', ':', '/', '_', '@', '&', '\n'] : List Char).all fun c => !numChar c) = true ∧
    ((['-', '+', '.', 'e', '0', '9'] : List Char).all numChar) = true := by decide

open SharkVerif.Import.Export in
/-- **C19, byte-level round trip of the integers the exporters print (exact).**  Class labels (`natDigits`, or
`intDigits` for `-1` / `+1`) are read back by `int_`, feature indices by `uint_`, as exactly the printed integer,
whatever follows the token as long as it does not start with a digit (separator, `:`, blank, line end, end of
input), for every value in the range of the C++ type. -/
theorem label_index_bytes_roundtrip (n : Nat) (i : Int) (rest : List Char) (hr : NoDigitHead rest) :
    (n ≤ 2147483647 → Import.int (natDigits n ++ rest) = some ((n : Int), rest)) ∧
    (-2147483648 ≤ i → i ≤ 2147483647 → Import.int (intDigits i ++ rest) = some (i, rest)) ∧
    (n < 4294967296 → uint (natDigits n ++ rest) = some (n, rest)) :=
  ⟨fun h => int_natDigits n rest h hr, fun h1 h2 => int_intDigits i rest h1 h2 hr, fun h => uint_natDigits n rest h hr⟩

open SharkVerif.Import.Export in
example : Import.int (intDigits (-1) ++ " 1:5".toList) = some (-1, " 1:5".toList) ∧
    uint (natDigits 4294967295 ++ ":7".toList) = some (4294967295, ":7".toList) ∧
    NoDigitHead ",1".toList := by
  refine ⟨by decide, by decide, ?_⟩
  intro c t h; injection h with h1 _; subst h1; decide

open SharkVerif.Import.Export in
/-- **C19, byte-level round trip of a value in scientific format, for every binary64 value** (`exportCSV` with
`scientific = true`, the default).  `double_` applied to the bytes `%.<p>e` printed for the finite non-zero
double `± m·2^e` — followed by anything that does not start with a digit — consumes exactly the token and returns
spirit's conversion (`scaled`, every rounding of `real_impl` modelled) of the DECIMAL ROUNDING of the value to
`p + 1` significant digits, `(ds, ex) = sciDigits p v`.  That is the precise content of "equals the original up
to the printed precision": `exportCSV` prints 11 significant digits (`precision(10)`), so the re-imported double
is the reading of that 11-digit decimal, in general not bit-identical to the original (witness below); values with
at most 11 significant decimal digits — all integers below 10^11 and short dyadic fractions — come back exactly. -/
theorem value_bytes_roundtrip_sci (p : Nat) (neg : Bool) (m : Nat) (e2 : Int) (rest : List Char) (hp : 0 < p)
    (hm : m ≠ 0) (hv : isDouble (.fin neg m e2) = true) (hr : NoDigitHead rest) :
    real (fmtE p (Val.fin neg m e2) ++ rest)
      = scaled neg (sciDigits p (Val.fin neg m e2).ratOf.1 (Val.fin neg m e2).ratOf.2).1
          ((sciDigits p (Val.fin neg m e2).ratOf.1 (Val.fin neg m e2).ratOf.2).2 - (p : Int)) rest ∧
    (sciDigits p (Val.fin neg m e2).ratOf.1 (Val.fin neg m e2).ratOf.2).1 < 10 ^ (p + 1) :=
  ⟨real_fmtE_double p neg m e2 rest hp hm hv hr, sciDigits_lt p _ _ (ratOf_bounds neg m e2 hv).2.1⟩

open SharkVerif.Import.Export in
/-- non-vacuity and exactness for short values: `-2.5` is printed as `-2.5000000000e+00` and read back as `-2.5`;
`0.1` (= 3602879701896397 · 2^-55) is printed as `1.0000000000e-01` and read back as the same double; the
neighbour of `0.1` one ulp above is printed identically, so it does NOT come back (precision 10 is not bit-exact) -/
example : real (fmtE 10 (Val.fin true 5 (-1)) ++ [',']) = some (Val.fin true 5 (-1), [',']) ∧
    real (fmtE 10 (Val.fin false 3602879701896397 (-55)) ++ ['\n']) = some (Val.fin false 3602879701896397 (-55), ['\n']) ∧
    fmtE 10 (Val.fin false 1801439850948199 (-54)) = fmtE 10 (Val.fin false 3602879701896397 (-55)) ∧
    isDouble (Val.fin false 3602879701896397 (-55)) = true := by decide

open SharkVerif.Import.Export in
/-- **C19, "up to the printed precision" made precise.**  The decimal `ds · 10^(ex-p)` that `%.<p>e` / `%.<p+1>g`
print for the positive rational `n/d` (`(ds, ex) = sciDigits p n d`) has at most `p + 1` digits and differs from
`n/d` by at most half a unit in the last printed place: with `e0 = decExp n d`, `|(n/d)·10^(p-e0) - ds·10^(ex-e0)| ≤ ½`
(stated without division), `ex ∈ {e0, e0+1}`.  Together with `value_bytes_roundtrip_sci` / `_general`: the
re-imported value is spirit's reading of the correctly rounded (`p+1`)-digit decimal of the original. -/
theorem printed_decimal_is_nearest (p n d : Nat) (hd : 0 < d) :
    (sciDigits p n d).1 < 10 ^ (p + 1) ∧
    ((sciDigits p n d).2 = decExp n d ∨ (sciDigits p n d).2 = decExp n d + 1) ∧
    2 * (((if (p : Int) - decExp n d ≥ 0 then n * 10 ^ ((p : Int) - decExp n d).toNat else n : Nat) : Int)
          - ((sciDigits p n d).1 * 10 ^ ((sciDigits p n d).2 - decExp n d).toNat : Nat)
            * ((if (p : Int) - decExp n d ≥ 0 then d else d * 10 ^ (-((p : Int) - decExp n d)).toNat : Nat) : Int)).natAbs
      ≤ (if (p : Int) - decExp n d ≥ 0 then d else d * 10 ^ (-((p : Int) - decExp n d)).toNat) :=
  ⟨sciDigits_lt p n d hd, (sciDigits_nearest p n d hd).1, (sciDigits_nearest p n d hd).2⟩

open SharkVerif.Import.Export in
/-- non-vacuity: 2/3 to 4 significant digits is 6667 · 10^-4 (rounded up), 1999.96 to 4 digits carries to 2.000e+03 -/
example : sciDigits 3 2 3 = (6667, -1) ∧ decExp 2 3 = -1 ∧ sciDigits 3 199996 100 = (2000, 3) ∧
    sciDigits 2 9996 1 = (100, 4) ∧ decExp 9996 1 = 3 := by decide

/-! ## `exportCSV` → `csvStringToData` from bytes -/

open SharkVerif.Import.Export in
/-- **C19, second sentence, `exportCSV` → `csvStringToData` FROM BYTES (unlabelled data and vector labels).**  For every
non-empty dataset of binary64 values with `d ≥ 1` inputs (and `dOut` outputs), every separator / comment character
allowed by `SepOk` (the separator is not white space, NUL, a character of a number, `E`, `i`/`I` or `(`; the
comment character is not a character of a number or the line feed), scientific format on or off, field width 0,
label position first or last and every maximum batch size (0 = unlimited): the exporter writes some bytes, and
importing these bytes returns the dataset with the same number of elements, the same dimensions and batch partition
as a direct construction, whose values are `reimportCsv sci v` — spirit's reading of `v` rounded to 11 significant
digits (`value_bytes_roundtrip_sci` / `_general`, `printed_decimal_is_nearest`); no printed value is rejected. -/
theorem csv_export_import_bytes {sep comment : Char} (hs : SepOk sep comment) (sci : Bool) (maxB : Nat) :
    (∀ (rows : List (List Val)) (d : Nat), rows ≠ [] → 0 < d →
      (∀ r ∈ rows, r.length = d ∧ ∀ v ∈ r, isDouble v = true) →
      ∃ bytes, csvRows rows sep sci 0 = some bytes ∧
        Csv.importRowsBytes bytes sep comment maxB =
          .ok { shape := some d, lshape := none, batches := optimalBatchSizes rows.length maxB,
                rows := rows.map (fun r => Row.dense (r.map (reimportCsv sci))), labels := .none }) ∧
    (∀ (pts : List (List Val × List Val)) (labelFirst : Bool) (dIn dOut : Nat), pts ≠ [] → 0 < dIn →
      (∀ p ∈ pts, p.1.length = dIn ∧ p.2.length = dOut ∧ (∀ v ∈ p.1, isDouble v = true) ∧ ∀ v ∈ p.2, isDouble v = true) →
      ∃ bytes, csvRegr pts labelFirst sep sci 0 = some bytes ∧
        Csv.importRegrBytes bytes labelFirst dOut sep comment maxB =
          .ok { shape := some dIn, lshape := some dOut, batches := optimalBatchSizes pts.length maxB,
                rows := pts.map (fun p => Row.dense (p.1.map (reimportCsv sci))),
                labels := .reg (pts.map fun p => p.2.map (reimportCsv sci)) }) := by
  constructor
  · intro rows d hne hd hrow
    obtain ⟨bytes, hb, hread⟩ := readRows_csvRows hs sci rows hne (fun r hr => by
      refine ⟨?_, (hrow r hr).2⟩
      intro h; have := (hrow r hr).1; rw [h] at this; simp at this; omega)
    refine ⟨bytes, hb, ?_⟩
    unfold Csv.importRowsBytes
    rw [hread]
    simp only
    obtain ⟨r0, rest, rfl⟩ : ∃ r0 rest, rows = r0 :: rest := by
      cases rows with
      | nil => exact absurd rfl hne
      | cons a t => exact ⟨a, t, rfl⟩
    have hall : (((r0 :: rest).map fun r => r.map (reimportCsv sci)).all fun r => r.length == (r0.map (reimportCsv sci)).length) = true := by
      rw [List.all_eq_true]
      intro r hr
      obtain ⟨r', hr', rfl⟩ := List.mem_map.mp hr
      simp [(hrow r' hr').1, (hrow r0 (by simp)).1]
    simp only [List.map_cons, Csv.importRows] at hall ⊢
    rw [if_pos hall]
    simp [(hrow r0 (by simp)).1, List.map_map, Function.comp_def]
  · intro pts labelFirst dIn dOut hne hd hpt
    obtain ⟨bytes, hb, hread⟩ := readRows_csvRegr hs sci labelFirst pts hne (fun p hp => by
      refine ⟨?_, (hpt p hp).2.2.1, (hpt p hp).2.2.2⟩
      intro h; have := (hpt p hp).1; rw [h] at this; simp at this; omega)
    refine ⟨bytes, hb, ?_⟩
    unfold Csv.importRegrBytes
    rw [hread]
    simp only
    have h := csv_roundtrip_regression (pts.map fun p => (p.1.map (reimportCsv sci), p.2.map (reimportCsv sci))) labelFirst dIn dOut maxB
      (by intro p' hp'; obtain ⟨p, hp, rfl⟩ := List.mem_map.mp hp'; simp [(hpt p hp).1])
      (by intro p' hp'; obtain ⟨p, hp, rfl⟩ := List.mem_map.mp hp'; simp [(hpt p hp).2.1])
      hd (by simpa using hne)
    simp only [List.map_map, Function.comp_def, List.length_map] at h ⊢
    exact h

open SharkVerif.Import.Export in
/-- **C19, second sentence, `exportCSV` → `csvStringToData` FROM BYTES, class labels in the first column.**  For every
non-empty labelled dataset (class indices below 2^31 with class 0 present, `d ≥ 1` inputs of binary64 values), every
`SepOk` separator / comment character, scientific format on or off, field width 0 and every maximum batch size: the
exported bytes are read by the FIRST_COLUMN point grammar (`lexeme[int_ >> -('.' >> *'0') >> !digit] >> *(sep >> cell)`)
record by record, and the import yields the same labels, dimensions and batch partition with every input value
`reimportCsv sci v`. -/
theorem csv_export_import_bytes_class_first {sep comment : Char} (hs : SepOk sep comment) (sci : Bool) (maxB : Nat)
    (pts : List (Nat × List Val)) (d : Nat) (hne : pts ≠ []) (hd : 0 < d)
    (hpt : ∀ p ∈ pts, p.1 ≤ 2147483647 ∧ p.2.length = d ∧ ∀ v ∈ p.2, isDouble v = true)
    (h0 : 0 ∈ pts.map (·.1)) :
    ∃ bytes, csvClass pts true sep sci 0 = some bytes ∧
      Csv.importClassBytes bytes true sep comment maxB =
        .ok { shape := some d, lshape := none, batches := optimalBatchSizes pts.length maxB,
              rows := pts.map (fun p => Row.dense (p.2.map (reimportCsv sci))), labels := .cls (pts.map (·.1)) } := by
  obtain ⟨bytes, hb, hread⟩ := readPointsFirst_csvClass hs sci pts hne (fun p hp => by
    refine ⟨(hpt p hp).1, ?_, (hpt p hp).2.2⟩
    intro h; have := (hpt p hp).2.1; rw [h] at this; simp at this; omega)
  refine ⟨bytes, hb, ?_⟩
  unfold Csv.importClassBytes
  simp only [if_true, hread]
  have h := csv_roundtrip (pts.map fun p => (p.1, p.2.map (reimportCsv sci))) d maxB
    (by intro p' hp'; obtain ⟨p, hp, rfl⟩ := List.mem_map.mp hp'; simp [(hpt p hp).2.1])
    (by simpa using hne) (by simpa [List.map_map, Function.comp_def] using h0)
  simp only [List.map_map, Function.comp_def, List.length_map] at h ⊢
  exact h

open SharkVerif.Import.Export in
/-- non-vacuity: classes 0 / 1 in the first column, `%.10g`, `|` as separator -/
example : csvClass [(0, [Val.fin false 5 (-1), Val.fin true 1 0]), (1, [Val.fin false 3 0, Val.fin false 1 (-2)])] true '|' false 0
      = some "0|2.5|-1\n1|3|0.25\n".toList ∧
    Csv.importClassBytes "0|2.5|-1\n1|3|0.25\n".toList true '|' '#' 1
      = .ok { shape := some 2, lshape := none, batches := [1, 1],
              rows := [.dense [Val.fin false 5 (-1), Val.fin true 1 0], .dense [Val.fin false 3 0, Val.fin false 1 (-2)]],
              labels := .cls [0, 1] } := by decide

open SharkVerif.Import.Export in
/-- **C19, second sentence, `exportCSV` → `csvStringToData` FROM BYTES, class labels in the last column.**  As
`csv_export_import_bytes_class_first`, for LAST_COLUMN: the exported bytes are consumed by the hand-written record loop
(`do { phrase_parse(*(cell >> sep) >> label >> (+eol | eoi)) } while(r && first != last)`) one record per call — the
`cell >> sep` loop backs off the label token because a line feed, not the separator, follows it — and the import
yields the same labels, dimensions, batch partition, with every input value `reimportCsv sci v`. -/
theorem csv_export_import_bytes_class_last {sep comment : Char} (hs : SepOk sep comment) (sci : Bool) (maxB : Nat)
    (pts : List (Nat × List Val)) (d : Nat) (hne : pts ≠ []) (hd : 0 < d)
    (hpt : ∀ p ∈ pts, p.1 ≤ 2147483647 ∧ p.2.length = d ∧ ∀ v ∈ p.2, isDouble v = true)
    (h0 : 0 ∈ pts.map (·.1)) :
    ∃ bytes, csvClass pts false sep sci 0 = some bytes ∧
      Csv.importClassBytes bytes false sep comment maxB =
        .ok { shape := some d, lshape := none, batches := optimalBatchSizes pts.length maxB,
              rows := pts.map (fun p => Row.dense (p.2.map (reimportCsv sci))), labels := .cls (pts.map (·.1)) } := by
  obtain ⟨bytes, hb, hread⟩ := readPointsLast_csvClass hs sci pts hne (fun p hp => by
    refine ⟨(hpt p hp).1, ?_, (hpt p hp).2.2⟩
    intro h; have := (hpt p hp).2.1; rw [h] at this; simp at this; omega)
  refine ⟨bytes, hb, ?_⟩
  unfold Csv.importClassBytes
  simp only [Bool.false_eq_true, if_false, hread]
  have h := csv_roundtrip (pts.map fun p => (p.1, p.2.map (reimportCsv sci))) d maxB
    (by intro p' hp'; obtain ⟨p, hp, rfl⟩ := List.mem_map.mp hp'; simp [(hpt p hp).2.1])
    (by simpa using hne) (by simpa [List.map_map, Function.comp_def] using h0)
  simp only [List.map_map, Function.comp_def, List.length_map] at h ⊢
  exact h

open SharkVerif.Import.Export in
/-- non-vacuity: classes 0 / 1 in the last column, scientific format, `,` -/
example : csvClass [(0, [Val.fin false 5 (-1)]), (1, [Val.fin true 3 0])] false ',' true 0
      = some "2.5000000000e+00,0\n-3.0000000000e+00,1\n".toList ∧
    Csv.importClassBytes "2.5000000000e+00,0\n-3.0000000000e+00,1\n".toList false ',' '#' 0
      = .ok { shape := some 1, lshape := none, batches := [2],
              rows := [.dense [Val.fin false 5 (-1)], .dense [Val.fin true 3 0]], labels := .cls [0, 1] } := by decide

open SharkVerif.Import.Export in
/-- non-vacuity: the separator / comment pairs of the generated stream satisfy `SepOk`; blanks, NUL, characters of a
number, `E`, `I`, `(` do not -/
example : SepOk ',' '#' ∧ SepOk ';' '%' ∧ SepOk '|' '!' ∧ SepOk ':' '#' ∧ SepOk '@' ';' := by
  refine ⟨⟨?_, ?_, ?_, ?_, ?_, ?_, ?_, ?_, ?_⟩, ⟨?_, ?_, ?_, ?_, ?_, ?_, ?_, ?_, ?_⟩, ⟨?_, ?_, ?_, ?_, ?_, ?_, ?_, ?_, ?_⟩,
    ⟨?_, ?_, ?_, ?_, ?_, ?_, ?_, ?_, ?_⟩, ⟨?_, ?_, ?_, ?_, ?_, ?_, ?_, ?_, ?_⟩⟩ <;> decide

open SharkVerif.Import.Export in
/-- non-vacuity: `(2.5, -1)`, `(0.1, -inf)` written with `;` in scientific format and imported again, one batch -/
example : csvRows [[Val.fin false 5 (-1), Val.fin true 1 0], [Val.fin false 3602879701896397 (-55), Val.inf true]] ';' true 0
      = some "2.5000000000e+00;-1.0000000000e+00\n1.0000000000e-01;-inf\n".toList ∧
    Csv.importRowsBytes "2.5000000000e+00;-1.0000000000e+00\n1.0000000000e-01;-inf\n".toList ';' '#' 0
      = .ok { shape := some 2, lshape := none, batches := [2],
              rows := [.dense [Val.fin false 5 (-1), Val.fin true 1 0],
                       .dense [Val.fin false 3602879701896397 (-55), Val.inf true]], labels := .none } := by decide

/-! ## the hand-written LAST_COLUMN record loop terminates; the grammars as written in `Csv.cpp` -/

open SharkVerif.Peg in
/-- **C19, "never hang" for the record loop of `import_csv_reader_points(…, LAST_COLUMN, …)`.**  `parser_total`
covers one `phrase_parse` call; the loop `do { … } while(r && first != last)` around it is hand-written C++.  For
every byte sequence, separator and comment character: each successful call consumes at least one byte (the label
grammar demands a digit), so the loop never repeats a call at the same position (`spin`) and finishes within
`length + 1` iterations (`fuel`); the importer model's reader is exactly this loop. -/
theorem last_column_loop_terminates (bytes : List Char) (sep comment : Char) :
    Csv.readPointsLast bytes sep comment =
      (Csv.readPointsLastLoopR (if Csv.wsSep sep then pointLastWs else pointLastSep sep) (csvSkipper comment)
        (bytes.length + 1) bytes []).toOption ∧
    Csv.readPointsLastLoopR (if Csv.wsSep sep then pointLastWs else pointLastSep sep) (csvSkipper comment)
        (bytes.length + 1) bytes [] ≠ .spin ∧
    Csv.readPointsLastLoopR (if Csv.wsSep sep then pointLastWs else pointLastSep sep) (csvSkipper comment)
        (bytes.length + 1) bytes [] ≠ .fuel := by
  have hc : consumes (if Csv.wsSep sep then pointLastWs else pointLastSep sep) = true := by split <;> rfl
  have hw : wfG (if Csv.wsSep sep then pointLastWs else pointLastSep sep) = true := by split <;> rfl
  have ht := Csv.readPointsLastLoopR_terminates _ (csvSkipper comment) hc hw (bytes.length + 1) bytes [] (Nat.lt_succ_self _)
  exact ⟨Csv.readPointsLastLoop_eq _ _ _ _ _, ht.1, ht.2⟩

open SharkVerif.Peg in
/-- non-vacuity: three records through the loop; and a grammar that does not consume would spin -/
example : Csv.readPointsLastLoopR (pointLastSep ',') (csvSkipper '#') 20 "1,2,0\n3,4,1\n5,6,0".toList []
      = .done [(0, [Val.fin false 1 0, Val.fin false 1 1]), (1, [Val.fin false 3 0, Val.fin false 1 2]),
               (0, [Val.fin false 5 0, Val.fin false 3 1])] ∧
    Csv.readPointsLastLoopR (.star .real) (csvSkipper '#') 5 "x".toList [] = .spin := by decide

open SharkVerif.Peg in
/-- **C19, the grammars as they are written in `Csv.cpp` since the repair of F-C19-11** (`cleanNumber<T>()` =
`&p >> p` in place of every `double_` / `auto_`): they parse every input exactly like the modelled grammars — same
success, same rest, same attribute events — so `import_bytes_wellformed_or_error_csv`, `parser_total` and
`last_column_loop_terminates` are statements about the repaired grammar text, and the scalar readers
`*cleanNumber<T>()` are `*int_` / `*uint_` / `*double_`. -/
theorem csv_grammars_as_written (g sk : G) (s : List Char) :
    phraseParse (cleanReal g) sk s = phraseParse g sk s ∧
    phraseParse (.star (clean .int)) sk s = phraseParse valuesInt sk s ∧
    phraseParse (.star (clean .uint)) sk s = phraseParse valuesUInt sk s ∧
    phraseParse (.star (clean .real)) sk s = phraseParse valuesReal sk s := by
  have hstar : ∀ p : G, phraseParse (.star (clean p)) sk s = phraseParse (.star p) sk s := by
    intro p
    have : parse (skipper sk) (clean p) = parse (skipper sk) p := funext (Csv.parse_clean _ p)
    simp only [phraseParse, parse, this]
  exact ⟨Csv.phraseParse_cleanReal g sk s, hstar _, hstar _, hstar _⟩

open SharkVerif.Peg in
/-- non-vacuity: the repaired text of the row grammar is a different grammar (with look-ahead) … -/
example : cleanReal (rowsSep ',') ≠ rowsSep ',' ∧
    phraseParse (cleanReal (rowsSep ',')) (csvSkipper '#') "1e309,7\n".toList = .fail ∧
    phraseParse (cleanReal (rowsSep ',')) (csvSkipper '#') "1e308,7\n".toList ≠ .fail := by decide

open SharkVerif.Peg in
/-- the three `csvStringToData` families with the grammar text of `Csv.cpp` (every `double_` replaced by
`cleanNumber<double>()`), spelled out: reader with `cleanReal g`, then the same post-parse logic -/
def importBytesAsWritten (bytes : List Char) (sep comment : Char) (labelFirst : Bool) (numOut maxB : Nat) :
    Outcome Val × Outcome Val × Outcome Val :=
  let rows := match phraseParse (cleanReal (if Csv.wsSep sep then rowsWs else rowsSep sep)) (csvSkipper comment) bytes with
    | .ok [] evs => some ((Csv.splitMarks evs [] []).map Csv.valsOf)
    | _ => none
  let ptsFirst := match phraseParse (cleanReal (if Csv.wsSep sep then pointsFirstWs else pointsFirstSep sep)) (csvSkipper comment) bytes with
    | .ok [] evs => some ((Csv.splitMarks evs [] []).map fun r => (Csv.labelOf r, Csv.valsOf r))
    | _ => none
  let ptsLast := Csv.readPointsLastLoop (cleanReal (if Csv.wsSep sep then pointLastWs else pointLastSep sep)) (csvSkipper comment)
    (bytes.length + 1) bytes []
  ((match rows with | none => .error | some r => Csv.importRows r maxB),
   (match (if labelFirst then ptsFirst else ptsLast) with | none => .error | some p => Csv.importClass p maxB),
   (match rows with | none => .error | some r => Csv.importRegr r labelFirst numOut maxB))

open SharkVerif.Peg in
theorem readPointsLastLoop_congr (g g' sk : G) (h : ∀ s, phraseParse g sk s = phraseParse g' sk s) :
    ∀ (f : Nat) (s : List Char) (acc : List (Int × List Val)),
      Csv.readPointsLastLoop g sk f s acc = Csv.readPointsLastLoop g' sk f s acc := by
  intro f
  induction f with
  | zero => intro s acc; rfl
  | succ f ih =>
    intro s acc
    simp only [Csv.readPointsLastLoop, h s]
    cases phraseParse g' sk s with
    | ok rest evs =>
      simp only
      split
      · rfl
      · split
        · exact ih _ _
        · rfl
    | fail => rfl
    | hang => rfl

open SharkVerif.Peg in
/-- **C19, first sentence, CSV importers with the repaired grammar text (`cleanNumber`), from bytes.**  The
importers as written in `Csv.cpp` since 25239316 are the modelled importers — on every byte sequence, separator,
comment character, label position, number of outputs and batch size — hence return a well-formed dataset or
the library's exception. -/
theorem import_bytes_wellformed_or_error_csv_as_written (bytes : List Char) (sep comment : Char) (labelFirst : Bool)
    (numOut maxB : Nat) :
    importBytesAsWritten bytes sep comment labelFirst numOut maxB =
      (Csv.importRowsBytes bytes sep comment maxB, Csv.importClassBytes bytes labelFirst sep comment maxB,
       Csv.importRegrBytes bytes labelFirst numOut sep comment maxB) ∧
    Acceptable (importBytesAsWritten bytes sep comment labelFirst numOut maxB).1 maxB ∧
    Acceptable (importBytesAsWritten bytes sep comment labelFirst numOut maxB).2.1 maxB ∧
    Acceptable (importBytesAsWritten bytes sep comment labelFirst numOut maxB).2.2 maxB := by
  have heq : importBytesAsWritten bytes sep comment labelFirst numOut maxB =
      (Csv.importRowsBytes bytes sep comment maxB, Csv.importClassBytes bytes labelFirst sep comment maxB,
       Csv.importRegrBytes bytes labelFirst numOut sep comment maxB) := by
    unfold importBytesAsWritten Csv.importRowsBytes Csv.importClassBytes Csv.importRegrBytes Csv.readRows
      Csv.readPointsFirst Csv.readPointsLast
    simp only [Csv.phraseParse_cleanReal,
      readPointsLastLoop_congr _ _ _ (fun s => Csv.phraseParse_cleanReal _ (csvSkipper comment) s)]
    cases labelFirst <;> rfl
  have h := import_bytes_wellformed_or_error_csv bytes sep comment labelFirst numOut maxB
  rw [heq]
  exact ⟨rfl, h.1, h.2.1, h.2.2⟩

/-! ## the parsers never hang -/

open SharkVerif.Peg in
/-- **C19, "never hang" for the model of the `phrase_parse` grammars.**  The PEG interpreter
(`Model/Peg.lean`) reports `Res.hang` exactly when a `*`, `+` or `%` loop of boost::spirit would
iterate without consuming input (an infinite loop in the C++).  For the eight grammars of
`Csv.cpp` / `SparseData.cpp`, every separator, every comment character and every input, that
never happens: each loop body consumes at least one character per successful iteration
(`Lemmas/Peg.lean`: `parse_no_hang` by induction over the grammar, `real_len` etc. for the
numeric lexers).  What is not proved: that spirit implements these operators as modelled. -/
theorem parser_total (bytes : List Char) (sep comment : Char) :
    phraseParse rowsWs (csvSkipper comment) bytes ≠ .hang ∧
    phraseParse (rowsSep sep) (csvSkipper comment) bytes ≠ .hang ∧
    phraseParse pointsFirstWs (csvSkipper comment) bytes ≠ .hang ∧
    phraseParse (pointsFirstSep sep) (csvSkipper comment) bytes ≠ .hang ∧
    phraseParse pointLastWs (csvSkipper comment) bytes ≠ .hang ∧
    phraseParse (pointLastSep sep) (csvSkipper comment) bytes ≠ .hang ∧
    phraseParse pointLastWsCurrent (csvSkipper comment) bytes ≠ .hang ∧
    phraseParse svmLineG .space bytes ≠ .hang := by
  refine ⟨?_, ?_, ?_, ?_, ?_, ?_, ?_, ?_⟩ <;> exact phraseParse_no_hang _ _ (by rfl) _

open SharkVerif.Peg in
/-- the hypothesis of `parse_no_hang` is not vacuous and not trivial: `*eps`-like grammars are rejected -/
example : wfG (.star (.opt .real)) = false ∧ wfG (rowsSep ',') = true := by decide

open SharkVerif.Peg in
/-- and such a grammar does hang in the interpreter (as `*(-double_)` would in spirit) -/
example : parse id (.star (.opt .real)) ['x'] = .hang := by decide

/-! ### witnesses: what the current code does without the hypothesis (DESIGN §7 F2) -/

/-- `"1 3:1 1:1\n"`: dimension 1 is taken from the last index, index 3 is written at 2 -/
theorem sparse_writes_oob_witness_unsorted :
    importCurrent (0 : Nat) (fun v => some (v : Int)) wcfg [⟨1, [(3, 1), (1, 1)]⟩] = .oobWrite 2 1 := by
  decide

/-- `"1 2:1 0:5\n0 1:1\n"`: zero-basedness is decided from the first indices (2 and 1),
so the vectors have one cell, index 2 is written at 1 (and index 0 at `0 - 1`) -/
theorem sparse_writes_oob_witness_zero :
    importCurrent (0 : Nat) (fun v => some (v : Int)) wcfg [⟨1, [(2, 1), (0, 5)]⟩, ⟨0, [(1, 1)]⟩]
      = .oobWrite 1 1 := by
  decide

/-- `"1 1:1\n1 1:1 0:5\n"`: index 0 in a file classified as one-based is written at
`0 - 1 = 2^64 - 1` (`std::size_t` arithmetic) -/
theorem sparse_writes_oob_witness_wrap :
    importCurrent (0 : Nat) (fun v => some (v : Int)) wcfg [⟨1, [(1, 1)]⟩, ⟨1, [(1, 1), (0, 5)]⟩]
      = .oobWrite 18446744073709551615 1 := by
  decide

/-- the empty file: `numberOfClasses` dereferences `max_element` of an empty batch -/
theorem empty_input_witness :
    importCurrent (0 : Nat) (fun v => some (v : Int)) wcfg [] = .ubEmptyMax := by
  decide

/-- non-vacuity of the hypothesis of `legacy_writes_in_bounds_of_sorted`, and of the
`ok` branch: a sorted two-record file is imported -/
example : (match importCurrent (0 : Nat) (fun v => some (v : Int)) wcfg
    [⟨1, [(1, 7), (3, 8)]⟩, ⟨0, [(2, 9)]⟩] with
    | .ok d => d.rows
    | _ => []) = [.dense [7, 0, 8], .dense [0, 9, 0]] := by decide

example : List.all [(⟨1, [(1, 7), (3, 8)]⟩ : Rec Nat), ⟨0, [(2, 9)]⟩] recSorted = true := by decide

end SharkVerif.C19
