/-
C05, third part (tie to the executable kernel model) — the list-based executable model of
`GaussianRbfKernel::weightedInputDerivative` (`gaussInputDeriv`, Model/KernelDerivs.lean, compared with the C++ by the
ops `ideriv` / `pderiv`) IS the coefficient matrix `gaussD1` of the `ModelKernel` chain theorems (Props/C05c.lean), entry
by entry, for all well-shaped batches; and the second call `weightedInputDerivative(Y2, Y1, Cᵀ)` is `gaussD2`.
Hence for a Gaussian base kernel the vector `modelKernelParamGrad … (gaussInputDeriv …) (chainEvalM …) (chainGradM …)` the
driver prints is, at the position of every weight / offset of every optimised dense layer, the derivative of the weighted sum
of model-kernel values (`modelKernel_weight_derivative_correct` with `gauss_kernelInputDerivs`).
-/
import SharkVerif.Props.C05c
import SharkVerif.Lemmas.KernelDerivs
set_option linter.unusedSectionVars false
set_option linter.unusedVariables false
namespace SharkVerif.C05
open SharkVerif SharkVerif.Models SharkVerif.Kernels Finset

/-- a list-of-rows matrix as an index function -/
def lmat (M : Mat ℝ) : ℕ → ℕ → ℝ := fun i j => (M.getD i []).getD j 0

theorem sumRow_eq_sum (f : ℝ → Point ℝ → ℝ) : ∀ (cs : List ℝ) (zs : Mat ℝ), cs.length = zs.length →
    sumRow f cs zs = ∑ j ∈ range cs.length, f (cs.getD j 0) (zs.getD j [])
  | [], _, _ => by simp [sumRow]
  | c :: cs, [], h => by simp at h
  | c :: cs, z :: zs, h => by
    have h' : cs.length = zs.length := by simpa using h
    simp only [sumRow, List.length_cons]
    rw [Finset.sum_range_succ', sumRow_eq_sum f cs zs h']
    simp [add_comm]

theorem distSqr_eq_sum : ∀ (x z : Point ℝ), x.length = z.length →
    distSqr x z = ∑ a ∈ range x.length, (x.getD a 0 - z.getD a 0) * (x.getD a 0 - z.getD a 0)
  | [], _, _ => by simp [distSqr]
  | x :: xs, [], h => by simp at h
  | x :: xs, z :: zs, h => by
    have h' : xs.length = zs.length := by simpa using h
    simp only [distSqr, List.length_cons]
    rw [Finset.sum_range_succ', distSqr_eq_sum xs zs h']
    simp [add_comm]

/-- the Gaussian kernel value of the executable model is `gaussFn` on the rows -/
theorem gaussFn_lmat (γ : ℝ) (d : ℕ) (X1 X2 : Mat ℝ) (i j : ℕ)
    (h1 : (X1.getD i []).length = d) (h2 : (X2.getD j []).length = d) :
    gaussFn γ d (lmat X1 i) (lmat X2 j) = Real.exp (-γ * distSqr (X1.getD i []) (X2.getD j [])) := by
  unfold gaussFn lmat
  rw [distSqr_eq_sum _ _ (by rw [h1, h2]), h1]

/-- **row `i`, column `a` of the executable `gaussInputDeriv` is `gaussD1`** -/
theorem gaussInputRow_eq_gaussD1 (γ : ℝ) (d : ℕ) (crow : List ℝ) (x : Point ℝ) (X2 : Mat ℝ) (a : ℕ) (ha : a < d)
    (hx : x.length = d) (hc : crow.length = X2.length) (hX2 : ∀ j, j < X2.length → (X2.getD j []).length = d) :
    (gaussInputRow Real.exp γ crow x X2).getD a 0 =
      ∑ j ∈ range X2.length, crow.getD j 0 * Real.exp (-γ * distSqr x (X2.getD j [])) *
        (-2 * γ * (x.getD a 0 - (X2.getD j []).getD a 0)) := by
  unfold gaussInputRow
  have hget : ∀ (g : ℕ → ℝ), ((List.range x.length).map g).getD a 0 = g a := by
    intro g
    simp [List.getD_eq_getElem?_getD, hx, ha]
  rw [hget]
  unfold colSum gaussWeights
  rw [sumRow_zipWith, sumRow_zipWith, sumRow_eq_sum _ _ _ hc, sumRow_eq_sum _ _ _ hc, hc, Finset.sum_mul, ← Finset.sum_sub_distrib,
    Finset.sum_mul]
  apply Finset.sum_congr rfl
  intro j _
  simp only [two]
  ring

theorem gaussInputDeriv_entry (γ : ℝ) (d : ℕ) (C X1 X2 : Mat ℝ) (i a : ℕ) (hi : i < X1.length) (ha : a < d)
    (hC : C.length = X1.length) (hCrow : (C.getD i []).length = X2.length)
    (hX1 : (X1.getD i []).length = d) (hX2 : ∀ j, j < X2.length → (X2.getD j []).length = d) :
    lmat (gaussInputDeriv Real.exp γ C X1 X2) i a = gaussD1 γ d X2.length (lmat C) (lmat X1) (lmat X2) i a := by
  unfold lmat gaussInputDeriv gaussD1
  have hrow : (List.zipWith (fun crow x => gaussInputRow Real.exp γ crow x X2) C X1).getD i [] =
      gaussInputRow Real.exp γ (C.getD i []) (X1.getD i []) X2 := by
    have hiC : i < C.length := by rw [hC]; exact hi
    simp [List.getD_eq_getElem?_getD, List.getElem?_zipWith, List.getElem?_eq_getElem hi, List.getElem?_eq_getElem hiC]
  rw [hrow, gaussInputRow_eq_gaussD1 γ d _ _ X2 a ha hX1 hCrow hX2]
  apply Finset.sum_congr rfl
  intro j hj
  have := gaussFn_lmat γ d X1 X2 i j hX1 (hX2 j (Finset.mem_range.1 hj))
  unfold lmat at this
  rw [this]

/-- the Gaussian kernel is symmetric -/
theorem gaussFn_symm (γ : ℝ) (d : ℕ) (x z : ℕ → ℝ) : gaussFn γ d x z = gaussFn γ d z x := by
  unfold gaussFn
  congr 2
  apply Finset.sum_congr rfl
  intro a _
  ring

/-- the second call of `ModelKernelImpl::weightedParameterDerivative`, `weightedInputDerivative(Y2, Y1, trans(C))`, returns
`gaussD2`: it is the first-argument derivative with the roles of the batches exchanged and the coefficients transposed -/
theorem gaussD2_eq_gaussD1_transpose (γ : ℝ) (d B1 : ℕ) (C Y1 Y2 : ℕ → ℕ → ℝ) (j a : ℕ) :
    gaussD2 γ d B1 C Y1 Y2 j a = gaussD1 γ d B1 (fun j i => C i j) Y2 Y1 j a := by
  unfold gaussD2 gaussD1
  apply Finset.sum_congr rfl
  intro i _
  rw [gaussFn_symm γ d (Y1 i) (Y2 j)]

/-- the index function the driver hands to `Chain.evalB` / `Chain.backward` is the list-of-rows matrix -/
theorem matFn_eq_lmat (M : Mat ℝ) : matFn M = lmat M := by
  funext i j
  simp [matFn, lmat, Array.getD_eq_getD_getElem?, List.getD_eq_getElem?_getD]

end SharkVerif.C05
