/-
C05 — Kernels are symmetric, positive semi-definite and correctly differentiable;
batch evaluation = single evaluations; Gram assembly is batch-partition independent.

Property theorems about the executable model `Model/Kernels.lean` (tied to the real
kernel classes by the correspondence check `checks/c05.py`).  All statements are
exact-arithmetic statements over an arbitrary field `K` (ordered where needed) with
`exp`/`sqrt` as arbitrary functions unless a hypothesis says otherwise; they quantify
over every kernel expression (any nesting), all points (lists of any length), all
parameters, all batch sizes and all batch partitions.
-/
import SharkVerif.Lemmas.Kernels
import SharkVerif.Lemmas.KernelsPSD
import SharkVerif.Lemmas.KernelsGaussPSD
import SharkVerif.Lemmas.KernelDerivs
import SharkVerif.Lemmas.KernelDerivsArd
import Mathlib.Algebra.BigOperators.Group.List.Basic
import Mathlib.Algebra.BigOperators.Fin
import Mathlib.Algebra.BigOperators.Ring.List
import Mathlib.Algebra.Order.BigOperators.Group.List
import Mathlib.Analysis.Real.Sqrt
import Mathlib.Analysis.SpecialFunctions.Exp
set_option linter.unusedSectionVars false
namespace SharkVerif.C05
open SharkVerif.Kernels

section field
variable {K : Type} [Field K] (exp sqrt : K → K)

/-! ## 1. Symmetry: `k(x,z) = k(z,x)` for every kernel expression -/

mutual
/-- **k_symm** — every kernel (any composition, any parameters, any `exp`/`sqrt`) is symmetric. -/
theorem k_symm : ∀ (k : Kern K) (x z : Point K), k.eval exp sqrt x z = k.eval exp sqrt z x
  | .linear, x, z => by simp only [Kern.eval]; exact dot_comm x z
  | .poly d c, x, z => by simp only [Kern.eval, dot_comm x z]
  | .monomial n, x, z => by simp only [Kern.eval, dot_comm x z]
  | .gauss g, x, z => by simp only [Kern.eval, distSqr_comm x z]
  | .ard gs, x, z => by simp only [Kern.eval, mahal_comm gs x z]
  | .normalized k, x, z => by
      simp only [Kern.eval]; rw [k_symm k x z]; ring
  | .scaled f k, x, z => by simp only [Kern.eval]; rw [k_symm k x z]
  | .wsum ws s ks, x, z => by simp only [Kern.eval]; rw [evalList_symm ks x z]
  | .prod ks, x, z => by simp only [Kern.eval]; rw [evalList_symm ks x z]
  | .subrange a b k, x, z => by simp only [Kern.eval]; rw [k_symm k]
  | .mapped A b k, x, z => by simp only [Kern.eval]; rw [k_symm k]
theorem evalList_symm : ∀ (ks : List (Kern K)) (x z : Point K),
    evalList exp sqrt ks x z = evalList exp sqrt ks z x
  | [], _, _ => by simp only [evalList]
  | k :: ks, x, z => by simp only [evalList]; rw [k_symm k x z, evalList_symm ks x z]
end

theorem evalList_eq_map : ∀ (ks : List (Kern K)) (x z : Point K),
    evalList exp sqrt ks x z = ks.map fun k => k.eval exp sqrt x z
  | [], _, _ => by simp only [evalList, List.map_nil]
  | k :: ks, x, z => by simp only [evalList, List.map_cons]; rw [evalList_eq_map ks x z]

/-! ## 2. Block evaluation = matrix of single evaluations -/

mutual
/-- **batch_eval_eq_single** (stateless path, the one `operator()`, the Gram assembly and
`KernelExpansion` use; includes the repaired stateless path of `NormalizedKernel`):
entry `(i,j)` of the block is `k(x1_i, x2_j)`, for every kernel expression and all batches. -/
theorem batch_eval_eq_single : ∀ (k : Kern K) (X1 X2 : Mat K),
    k.evalBlock exp sqrt X1 X2 = tab X1 X2 (k.eval exp sqrt)
  | .linear, X1, X2 => by simp only [Kern.evalBlock, gemmT_eq_tab]; rfl
  | .poly d c, X1, X2 => by
      simp only [Kern.evalBlock, gemmT_eq_tab, mapMat_tab]
      split
      · exact tab_congr _ _ _ _ fun x z => by simp only [Kern.eval]
      · rename_i h
        have hd : d = 1 := by simpa using h
        subst hd
        exact tab_congr _ _ _ _ fun x z => by simp only [Kern.eval, powNat_one]
  | .monomial n, X1, X2 => by
      simp only [Kern.evalBlock, gemmT_eq_tab, mapMat_tab]
      split
      · exact tab_congr _ _ _ _ fun x z => by simp only [Kern.eval]
      · rename_i h
        have hd : n = 1 := by simpa using h
        subst hd
        exact tab_congr _ _ _ _ fun x z => by simp only [Kern.eval, powNat_one]
  | .gauss g, X1, X2 => by
      simp only [Kern.evalBlock]
      show mapMat _ (tab X1 X2 distSqr) = _
      rw [mapMat_tab]
      exact tab_congr _ _ _ _ fun x z => by simp only [Kern.eval, distSqr_comm x z]
  | .ard gs, X1, X2 => by simp only [Kern.evalBlock]; rfl
  | .normalized k, X1, X2 => by
      simp only [Kern.evalBlock]
      rw [batch_eval_eq_single k X1 X2]
      unfold tab
      rw [zipWith_left_map]
      apply List.map_congr_left
      intro x _
      rw [zipWith_map_same]
      apply List.map_congr_left
      intro z _
      simp only [Kern.eval]
      rw [div_div]
  | .scaled f k, X1, X2 => by
      simp only [Kern.evalBlock]
      rw [batch_eval_eq_single k X1 X2, mapMat_tab]
      exact tab_congr _ _ _ _ fun x z => by simp only [Kern.eval]; ring
  | .wsum ws s ks, X1, X2 => by
      simp only [Kern.evalBlock]
      rw [batch_evalList_eq ks X1 X2, constMat_eq_tab, wfoldMat_tab, mapMat_tab]
      exact tab_congr _ _ _ _ fun x z => by
        simp only [Kern.eval, evalList_eq_map, List.map_map, Function.comp_def]
  | .prod ks, X1, X2 => by
      simp only [Kern.evalBlock]
      rw [batch_evalList_eq ks X1 X2]
      cases ks with
      | nil =>
        simp only [List.map_nil, constMat_eq_tab]
        exact tab_congr _ _ _ _ fun x z => by simp [Kern.eval, evalList, pfold]
      | cons k ks =>
        simp only [List.map_cons]
        rw [pfoldMat_tab]
        exact tab_congr _ _ _ _ fun x z => by
          simp only [Kern.eval, evalList, pfold, evalList_eq_map, List.map_map, Function.comp_def, one_mul]
  | .subrange a b k, X1, X2 => by
      simp only [Kern.evalBlock]
      rw [batch_eval_eq_single k, tab_map]
      exact tab_congr _ _ _ _ fun x z => by simp only [Kern.eval]
  | .mapped A b k, X1, X2 => by
      simp only [Kern.evalBlock]
      rw [batch_eval_eq_single k, tab_map]
      exact tab_congr _ _ _ _ fun x z => by simp only [Kern.eval]
theorem batch_evalList_eq : ∀ (ks : List (Kern K)) (X1 X2 : Mat K),
    evalBlockList exp sqrt ks X1 X2 = (ks.map fun k => k.eval exp sqrt).map (tab X1 X2)
  | [], _, _ => by simp only [evalBlockList, List.map_nil]
  | k :: ks, X1, X2 => by
      simp only [evalBlockList, List.map_cons]
      rw [batch_eval_eq_single k X1 X2, batch_evalList_eq ks X1 X2]
end

mutual
/-- **batch_eval_eq_single**, stateful path (`eval(batchX1, batchX2, result, state)`): same statement. -/
theorem batch_evalS_eq_single : ∀ (k : Kern K) (X1 X2 : Mat K),
    k.evalBlockS exp sqrt X1 X2 = tab X1 X2 (k.eval exp sqrt)
  | .linear, X1, X2 => by simp only [Kern.evalBlockS, gemmT_eq_tab]; rfl
  | .poly d c, X1, X2 => by
      simp only [Kern.evalBlockS, gemmT_eq_tab, mapMat_tab]
      split
      · exact tab_congr _ _ _ _ fun x z => by simp only [Kern.eval]
      · rename_i h
        have hd : d = 1 := by simpa using h
        subst hd
        exact tab_congr _ _ _ _ fun x z => by simp only [Kern.eval, powNat_one]
  | .monomial n, X1, X2 => by
      simp only [Kern.evalBlockS, gemmT_eq_tab, mapMat_tab]
      split
      · exact tab_congr _ _ _ _ fun x z => by simp only [Kern.eval]
      · rename_i h
        have hd : n = 1 := by simpa using h
        subst hd
        exact tab_congr _ _ _ _ fun x z => by simp only [Kern.eval, powNat_one]
  | .gauss g, X1, X2 => by
      simp only [Kern.evalBlockS]
      show mapMat _ (tab X1 X2 distSqr) = _
      rw [mapMat_tab]
      exact tab_congr _ _ _ _ fun x z => by simp only [Kern.eval, distSqr_comm x z]
  | .ard gs, X1, X2 => by simp only [Kern.evalBlockS]; rfl
  | .normalized k, X1, X2 => by
      simp only [Kern.evalBlockS]
      have hdiag : ∀ x : Point K, ((k.evalBlockS exp sqrt [x] [x]).headD []).headD 0 = k.eval exp sqrt x x := by
        intro x; rw [batch_evalS_eq_single k [x] [x]]; rfl
      simp only [hdiag]
      rw [batch_evalS_eq_single k X1 X2]
      unfold tab
      rw [zipWith_left_map]
      apply List.map_congr_left
      intro x _
      rw [zipWith_map_same]
      apply List.map_congr_left
      intro z _
      simp only [Kern.eval]
      rw [div_div]
  | .scaled f k, X1, X2 => by
      simp only [Kern.evalBlockS]
      rw [batch_evalS_eq_single k X1 X2, mapMat_tab]
      exact tab_congr _ _ _ _ fun x z => by simp only [Kern.eval]; ring
  | .wsum ws s ks, X1, X2 => by
      simp only [Kern.evalBlockS]
      rw [batch_evalSList_eq ks X1 X2, constMat_eq_tab, wfoldMat_tab, mapMat_tab]
      exact tab_congr _ _ _ _ fun x z => by
        simp only [Kern.eval, evalList_eq_map, List.map_map, Function.comp_def]
  | .prod ks, X1, X2 => by
      have h := batch_eval_eq_single exp sqrt (.prod ks) X1 X2
      simp only [Kern.evalBlock] at h
      simp only [Kern.evalBlockS]
      exact h
  | .subrange a b k, X1, X2 => by
      simp only [Kern.evalBlockS]
      rw [batch_evalS_eq_single k, tab_map]
      exact tab_congr _ _ _ _ fun x z => by simp only [Kern.eval]
  | .mapped A b k, X1, X2 => by
      simp only [Kern.evalBlockS]
      rw [batch_evalS_eq_single k, tab_map]
      exact tab_congr _ _ _ _ fun x z => by simp only [Kern.eval]
theorem batch_evalSList_eq : ∀ (ks : List (Kern K)) (X1 X2 : Mat K),
    evalBlockSList exp sqrt ks X1 X2 = (ks.map fun k => k.eval exp sqrt).map (tab X1 X2)
  | [], _, _ => by simp only [evalBlockSList, List.map_nil]
  | k :: ks, X1, X2 => by
      simp only [evalBlockSList, List.map_cons]
      rw [batch_evalS_eq_single k X1 X2, batch_evalSList_eq ks X1 X2]
end

/-- the three evaluation paths agree (in exact arithmetic) -/
theorem stateless_eq_stateful (k : Kern K) (X1 X2 : Mat K) :
    k.evalBlock exp sqrt X1 X2 = k.evalBlockS exp sqrt X1 X2 := by
  rw [batch_eval_eq_single, batch_evalS_eq_single]

/-- entry form of `batch_eval_eq_single`: entry `(i,j)` of the block is `k(X1[i], X2[j])` -/
theorem batch_eval_entry (k : Kern K) (X1 X2 : Mat K) (i j : Nat) (hi : i < X1.length) (hj : j < X2.length) :
    ((k.evalBlock exp sqrt X1 X2).getD i []).getD j 0 = k.eval exp sqrt (X1[i]) (X2[j]) := by
  rw [batch_eval_eq_single]
  exact getD_tab_entry (k.eval exp sqrt) X1 X2 i j hi hj

end field
end SharkVerif.C05

namespace SharkVerif.C05
open SharkVerif.Kernels

/-! ## 3. Blockwise Gram assembly is correct for EVERY batch partition -/
section gram
variable {α β : Type} [Add α] [OfNat α 0]

/-- **gram_assembly_correct** — `calculateRegularizedKernelMatrix`: for every list of batches
(= every batch partition of the dataset `batches.flatten`, including empty batches), every block
evaluation `kb` that returns the matrix of single evaluations of `κ`, every regulariser: entry
`(r,c)` of the assembled matrix is `κ(x_r, x_c)`, plus `reg` on the diagonal. -/
theorem gram_assembly_correct (κ : β → β → α) (kb : List β → List β → List (List α))
    (hkb : ∀ b1 b2, kb b1 b2 = b1.map fun x => b2.map fun z => κ x z)
    (reg : α) (batches : List (List β)) (r c : Nat)
    (hr : r < batches.flatten.length) (hc : c < batches.flatten.length) :
    regularizedGram kb reg batches r c =
      if r = c then κ (batches.flatten[r]) (batches.flatten[c]) + reg
      else κ (batches.flatten[r]) (batches.flatten[c]) := by
  have h := fillGram_in κ kb hkb reg batches batches 0 (fun _ _ => 0) r c hr hc
  simpa [regularizedGram] using h

/-- **gram_partition_independent** — two batch partitions of the same data give the same matrix. -/
theorem gram_partition_independent (κ : β → β → α) (kb : List β → List β → List (List α))
    (hkb : ∀ b1 b2, kb b1 b2 = b1.map fun x => b2.map fun z => κ x z)
    (reg : α) (p q : List (List β)) (hpq : p.flatten = q.flatten) (r c : Nat)
    (hr : r < p.flatten.length) (hc : c < p.flatten.length) :
    regularizedGram kb reg p r c = regularizedGram kb reg q r c := by
  rw [gram_assembly_correct κ kb hkb reg p r c hr hc,
    gram_assembly_correct κ kb hkb reg q r c (hpq ▸ hr) (hpq ▸ hc)]
  simp only [hpq]

/-- `calculateMixedKernelMatrix`: entry `(r,c)` is `κ(x_r, y_c)` for every pair of batch partitions. -/
theorem mixed_gram_assembly_correct (κ : β → β → α) (kb : List β → List β → List (List α))
    (hkb : ∀ b1 b2, kb b1 b2 = b1.map fun x => b2.map fun z => κ x z)
    (rows cols : List (List β)) (r c : Nat)
    (hr : r < rows.flatten.length) (hc : c < cols.flatten.length) :
    mixedGram kb rows cols r c = κ (rows.flatten[r]) (cols.flatten[c]) := by
  have h := fillMixed_in κ kb hkb cols rows 0 (fun _ _ => (0 : α)) r c hr hc
  simpa [mixedGram] using h

theorem mixed_gram_partition_independent (κ : β → β → α) (kb : List β → List β → List (List α))
    (hkb : ∀ b1 b2, kb b1 b2 = b1.map fun x => b2.map fun z => κ x z)
    (p p' q q' : List (List β)) (hp : p.flatten = p'.flatten) (hq : q.flatten = q'.flatten) (r c : Nat)
    (hr : r < p.flatten.length) (hc : c < q.flatten.length) :
    mixedGram kb p q r c = mixedGram kb p' q' r c := by
  rw [mixed_gram_assembly_correct κ kb hkb p q r c hr hc,
    mixed_gram_assembly_correct κ kb hkb p' q' r c (hp ▸ hr) (hq ▸ hc)]
  simp only [hp, hq]

/-- the partitions the correspondence generates: consecutive batches of the given sizes -/
theorem splitSizes_flatten : ∀ (sizes : List Nat) (xs : List β), sizes.sum = xs.length →
    (splitSizes xs sizes).flatten = xs
  | [], xs, h => by
      have : xs = [] := List.eq_nil_of_length_eq_zero (by simpa using h.symm)
      simp [splitSizes, this]
  | s :: ss, xs, h => by
      have hs : s ≤ xs.length := by simp only [List.sum_cons] at h; omega
      have : ss.sum = (xs.drop s).length := by simp only [List.sum_cons] at h; simp; omega
      simp only [splitSizes, List.flatten_cons]
      rw [splitSizes_flatten ss (xs.drop s) this, List.take_append_drop]

/-- DiscreteKernel (as repaired): block evaluation = matrix of single evaluations -/
theorem discrete_batch_eval_eq_single (t : Mat α) (is js : List Nat) :
    discreteBlock t is js = is.map fun i => js.map fun j => discreteEval t i j := rfl

end gram

section field
variable {K : Type} [Field K] (exp sqrt : K → K)

/-- Gram assembly with the real block evaluation of any kernel expression: entry `(r,c)` is the
single evaluation `k(x_r,x_c)` (+ regulariser on the diagonal), for every batch partition. -/
theorem kernel_gram_assembly_correct (k : Kern K) (reg : K) (batches : List (Mat K)) (r c : Nat)
    (hr : r < batches.flatten.length) (hc : c < batches.flatten.length) :
    regularizedGram (k.evalBlock exp sqrt) reg batches r c =
      if r = c then k.eval exp sqrt (batches.flatten[r]) (batches.flatten[c]) + reg
      else k.eval exp sqrt (batches.flatten[r]) (batches.flatten[c]) :=
  gram_assembly_correct (k.eval exp sqrt) _ (fun b1 b2 => batch_eval_eq_single exp sqrt k b1 b2) reg batches r c hr hc

theorem kernel_gram_partition_independent (k : Kern K) (reg : K) (p q : List (Mat K))
    (hpq : p.flatten = q.flatten) (r c : Nat) (hr : r < p.flatten.length) (hc : c < p.flatten.length) :
    regularizedGram (k.evalBlock exp sqrt) reg p r c = regularizedGram (k.evalBlock exp sqrt) reg q r c :=
  gram_partition_independent (k.eval exp sqrt) _ (fun b1 b2 => batch_eval_eq_single exp sqrt k b1 b2) reg p q hpq r c hr hc

/-- the assembled Gram matrix is symmetric (off the regulariser it is `k_symm`) -/
theorem kernel_gram_symm (k : Kern K) (reg : K) (batches : List (Mat K)) (r c : Nat)
    (hr : r < batches.flatten.length) (hc : c < batches.flatten.length) :
    regularizedGram (k.evalBlock exp sqrt) reg batches r c =
      regularizedGram (k.evalBlock exp sqrt) reg batches c r := by
  rw [kernel_gram_assembly_correct exp sqrt k reg batches r c hr hc,
    kernel_gram_assembly_correct exp sqrt k reg batches c r hc hr]
  by_cases h : r = c
  · subst h; rfl
  · rw [if_neg h, if_neg (Ne.symm h), k_symm]

end field
end SharkVerif.C05

namespace SharkVerif.C05
open SharkVerif.Kernels

/-! ## 4. Normalised kernels have unit diagonal; feature-space distance -/
section ordered
variable {K : Type} [Field K] [LinearOrder K] [IsStrictOrderedRing K] (exp sqrt : K → K)

/-- **normalized_diag_one** — `NormalizedKernel(k)(x,x) = 1` whenever `k(x,x) > 0`
(`sqrt` is any function that is a square root on non-negative arguments). -/
theorem normalized_diag_one (hsqrt : ∀ a : K, 0 ≤ a → sqrt a * sqrt a = a) (k : Kern K) (x : Point K)
    (hpos : 0 < k.eval exp sqrt x x) : (Kern.normalized k).eval exp sqrt x x = 1 := by
  simp only [Kern.eval]
  rw [div_div, hsqrt _ hpos.le, div_self (ne_of_gt hpos)]

/-- without positivity the claim fails: with `k(x,x) = 0` (linear kernel at the zero vector)
the normalised kernel evaluates `0/0`, which is `0` in a field with total division (NaN in IEEE) -/
theorem normalized_diag_one_needs_pos (hs0 : sqrt 0 = 0) :
    (Kern.normalized (.linear : Kern K)).eval exp sqrt [0] [0] ≠ 1 := by
  simp [Kern.eval, dot, hs0]

mutual
/-- every `NormalizedKernel` node that contributes to the `IS_NORMALIZED` flag of `k`
has a positive base diagonal at `x` -/
def DiagPos : Kern K → Point K → Prop
  | .normalized b, x => 0 < b.eval exp sqrt x x
  | .prod ks, x => DiagPosList ks x
  | _, _ => True
def DiagPosList : List (Kern K) → Point K → Prop
  | [], _ => True
  | k :: ks, x => DiagPos k x ∧ DiagPosList ks x
end

mutual
/-- **isNormalized_diag_one** — whenever a kernel *claims* to be normalised (`IS_NORMALIZED` flag:
Gaussian, ARD, normalised, products of such), `k(x,x) = 1`. -/
theorem isNormalized_diag_one (hexp : exp 0 = 1) (hsqrt : ∀ a : K, 0 ≤ a → sqrt a * sqrt a = a) :
    ∀ (k : Kern K) (x : Point K), k.isNormalized = true → DiagPos exp sqrt k x → k.eval exp sqrt x x = 1
  | .linear, _, hn, _ => by simp [Kern.isNormalized] at hn
  | .poly _ _, _, hn, _ => by simp [Kern.isNormalized] at hn
  | .monomial _, _, hn, _ => by simp [Kern.isNormalized] at hn
  | .gauss g, x, _, _ => by simp [Kern.eval, distSqr_self, hexp]
  | .ard gs, x, _, _ => by simp [Kern.eval, mahal_self, hexp]
  | .normalized b, x, _, h => by
      simp only [DiagPos] at h
      exact normalized_diag_one exp sqrt hsqrt b x h
  | .scaled _ _, _, hn, _ => by simp [Kern.isNormalized] at hn
  | .wsum _ _ _, _, hn, _ => by simp [Kern.isNormalized] at hn
  | .prod ks, x, hn, h => by
      simp only [Kern.isNormalized] at hn
      simp only [DiagPos] at h
      simp only [Kern.eval]
      exact pfold_all_one hexp hsqrt ks x hn h
  | .subrange _ _ _, _, hn, _ => by simp [Kern.isNormalized] at hn
  | .mapped _ _ _, _, hn, _ => by simp [Kern.isNormalized] at hn
theorem pfold_all_one (hexp : exp 0 = 1) (hsqrt : ∀ a : K, 0 ≤ a → sqrt a * sqrt a = a) :
    ∀ (ks : List (Kern K)) (x : Point K), allNormalized ks = true → DiagPosList exp sqrt ks x →
      pfold (evalList exp sqrt ks x x) 1 = 1
  | [], _, _, _ => by simp [evalList, pfold]
  | k :: ks, x, hn, h => by
      simp only [allNormalized, Bool.and_eq_true] at hn
      simp only [DiagPosList] at h
      simp only [evalList, pfold]
      rw [isNormalized_diag_one hexp hsqrt k x hn.1 h.1, mul_one]
      exact pfold_all_one hexp hsqrt ks x hn.2 h.2
end

/-- **featureDistance_def** — `featureDistanceSqr(x,z) = k(x,x) − 2 k(x,z) + k(z,z)` for every kernel
expression, including the `IS_NORMALIZED` shortcut `2 − 2k(x,z)` and `LinearKernel`'s override
`‖x−z‖²` (equal sizes are the C++ `SIZE_CHECK`). -/
theorem featureDistance_def (hexp : exp 0 = 1) (hsqrt : ∀ a : K, 0 ≤ a → sqrt a * sqrt a = a)
    (k : Kern K) (x z : Point K) (hlen : x.length = z.length)
    (hx : DiagPos exp sqrt k x) (hz : DiagPos exp sqrt k z) :
    k.featureDistanceSqr exp sqrt x z =
      k.eval exp sqrt x x - two * k.eval exp sqrt x z + k.eval exp sqrt z z := by
  have main : ∀ k : Kern K, DiagPos exp sqrt k x → DiagPos exp sqrt k z →
      (if k.isNormalized then two - two * k.eval exp sqrt x z
       else k.eval exp sqrt x x - two * k.eval exp sqrt x z + k.eval exp sqrt z z) =
      k.eval exp sqrt x x - two * k.eval exp sqrt x z + k.eval exp sqrt z z := by
    intro k hx hz
    by_cases hn : k.isNormalized = true
    · rw [if_pos hn, isNormalized_diag_one exp sqrt hexp hsqrt k x hn hx,
        isNormalized_diag_one exp sqrt hexp hsqrt k z hn hz]
      simp only [two]; ring
    · rw [if_neg hn]
  cases k with
  | linear =>
    simp only [Kern.featureDistanceSqr, Kern.eval]
    exact distSqr_expand x z hlen
  | poly d c => simpa [Kern.featureDistanceSqr] using main (.poly d c) hx hz
  | monomial n => simpa [Kern.featureDistanceSqr] using main (.monomial n) hx hz
  | gauss g => simpa [Kern.featureDistanceSqr] using main (.gauss g) hx hz
  | ard gs => simpa [Kern.featureDistanceSqr] using main (.ard gs) hx hz
  | normalized b => simpa [Kern.featureDistanceSqr] using main (.normalized b) hx hz
  | scaled f b => simpa [Kern.featureDistanceSqr] using main (.scaled f b) hx hz
  | wsum ws s ks => simpa [Kern.featureDistanceSqr] using main (.wsum ws s ks) hx hz
  | prod ks => simpa [Kern.featureDistanceSqr] using main (.prod ks) hx hz
  | subrange a b k => simpa [Kern.featureDistanceSqr] using main (.subrange a b k) hx hz
  | mapped A b k => simpa [Kern.featureDistanceSqr] using main (.mapped A b k) hx hz

end ordered
end SharkVerif.C05

namespace SharkVerif.C05
open SharkVerif.Kernels

/-! ## 5. Positive semi-definiteness (over ℝ, Mathlib's `Matrix.PosSemidef`)

`IsPSD κ` (Lemmas/KernelsPSD.lean): every finite Gram matrix of `κ` is positive semidefinite.
`exp`/`sqrt` are arbitrary functions; PSD-ness of the Gaussian and ARD *leaves* is an explicit
hypothesis (`Admissible` carries it), everything else is proved. -/
section psd
variable (exp sqrt : ℝ → ℝ)

/-- **linear_psd** — Gram matrices of the linear kernel are PSD (`X·Xᵀ`), any point lengths. -/
theorem linear_psd : IsPSD ((Kern.linear : Kern ℝ).eval exp sqrt) :=
  dot_psd.congr fun x z => by simp only [Kern.eval]

/-- closure lemmas, in kernel-function form -/
theorem psd_add {P : Type} {κ₁ κ₂ : P → P → ℝ} (h₁ : IsPSD κ₁) (h₂ : IsPSD κ₂) :
    IsPSD (fun x z => κ₁ x z + κ₂ x z) := h₁.add h₂
theorem psd_smul_nonneg {P : Type} {κ : P → P → ℝ} (h : IsPSD κ) {a : ℝ} (ha : 0 ≤ a) :
    IsPSD (fun x z => a * κ x z) := h.smul ha
/-- Schur product -/
theorem psd_hadamard {P : Type} {κ₁ κ₂ : P → P → ℝ} (h₁ : IsPSD κ₁) (h₂ : IsPSD κ₂) :
    IsPSD (fun x z => κ₁ x z * κ₂ x z) := h₁.mul h₂
theorem psd_normalized (k : Kern ℝ) (h : IsPSD (k.eval exp sqrt)) :
    IsPSD ((Kern.normalized k).eval exp sqrt) :=
  (h.normalize fun x => sqrt (k.eval exp sqrt x x)).congr fun x z => by simp only [Kern.eval]
theorem psd_subrange (a b : Nat) (k : Kern ℝ) (h : IsPSD (k.eval exp sqrt)) :
    IsPSD ((Kern.subrange a b k).eval exp sqrt) :=
  (h.comap (slice a b)).congr fun x z => by simp only [Kern.eval]

mutual
/-- parameters in their admissible range: polynomial offset ≥ 0, scaling factor ≥ 0, weights ≥ 0,
weight sum ≥ 0; for Gaussian / ARD leaves PSD-ness itself is the (unproved) hypothesis `GaussianPSD`. -/
def Admissible : Kern ℝ → Prop
  | .linear => True
  | .poly _ c => 0 ≤ c
  | .monomial _ => True
  | .gauss g => IsPSD fun x z : Point ℝ => exp (-g * distSqr z x)
  | .ard gs => IsPSD fun x z : Point ℝ => exp (-(mahal gs x z))
  | .normalized k => Admissible k
  | .scaled f k => 0 ≤ f ∧ Admissible k
  | .wsum ws s ks => (∀ w ∈ ws, 0 ≤ w) ∧ 0 ≤ s ∧ AdmissibleList ks
  | .prod ks => AdmissibleList ks
  | .subrange _ _ k => Admissible k
  | .mapped _ _ k => Admissible k
def AdmissibleList : List (Kern ℝ) → Prop
  | [] => True
  | k :: ks => Admissible k ∧ AdmissibleList ks
end

mutual
/-- **kernel_psd** — every kernel expression with admissible parameters is positive semi-definite:
linear, polynomial, monomial kernels outright; scaled, weighted-sum, product, normalised and sub-range
kernels over PSD bases; Gaussian/ARD leaves by hypothesis. Structural induction. -/
theorem kernel_psd : ∀ (k : Kern ℝ), Admissible exp k → IsPSD (k.eval exp sqrt)
  | .linear, _ => linear_psd exp sqrt
  | .poly d c, h => by
      simp only [Admissible] at h
      exact ((dot_psd.add (IsPSD.const h)).pow d).congr fun x z => by
        simp only [Kern.eval, powNat_eq_pow]
  | .monomial n, _ => (dot_psd.pow n).congr fun x z => by simp only [Kern.eval, powNat_eq_pow]
  | .gauss g, h => by
      simp only [Admissible] at h
      exact h.congr fun x z => by simp only [Kern.eval]
  | .ard gs, h => by
      simp only [Admissible] at h
      exact h.congr fun x z => by simp only [Kern.eval]
  | .normalized k, h => by
      simp only [Admissible] at h
      exact psd_normalized exp sqrt k (kernel_psd k h)
  | .scaled f k, h => by
      simp only [Admissible] at h
      exact ((kernel_psd k h.2).smul h.1).congr fun x z => by simp only [Kern.eval]
  | .wsum ws s ks, h => by
      simp only [Admissible] at h
      have hfs : ∀ f ∈ ks.map (fun k => k.eval exp sqrt), IsPSD f := kernelList_psd ks h.2.2
      have := (wfold_psd ws (ks.map fun k => k.eval exp sqrt) (fun _ _ => 0) h.1 hfs IsPSD.zero).smul
        (inv_nonneg.mpr h.2.1)
      exact this.congr fun x z => by
        simp only [Kern.eval, evalList_eq_map, List.map_map, Function.comp_def, div_eq_mul_inv]; ring
  | .prod ks, h => by
      simp only [Admissible] at h
      have hfs : ∀ f ∈ ks.map (fun k => k.eval exp sqrt), IsPSD f := kernelList_psd ks h
      have := pfold_psd (ks.map fun k => k.eval exp sqrt) (fun _ _ => 1) hfs (IsPSD.const zero_le_one)
      exact this.congr fun x z => by
        simp only [Kern.eval, evalList_eq_map, List.map_map, Function.comp_def]
  | .subrange a b k, h => by
      simp only [Admissible] at h
      exact psd_subrange exp sqrt a b k (kernel_psd k h)
  | .mapped A b k, h => by
      simp only [Admissible] at h
      exact ((kernel_psd k h).comap (affine A b)).congr fun x z => by simp only [Kern.eval]
theorem kernelList_psd : ∀ (ks : List (Kern ℝ)), AdmissibleList exp ks →
    ∀ f ∈ ks.map (fun k => k.eval exp sqrt), IsPSD f
  | [], _ => by simp
  | k' :: ks, h => by
      simp only [AdmissibleList] at h
      intro f hf
      simp only [List.map_cons, List.mem_cons] at hf
      rcases hf with rfl | hf
      · exact kernel_psd k' h.1
      · exact kernelList_psd ks h.2 f hf
end

/-- quadratic-form reading: `∑ᵢ ∑ⱼ cᵢ cⱼ k(xᵢ,xⱼ) ≥ 0` for all finite point families and coefficients -/
theorem kernel_quadForm_nonneg (k : Kern ℝ) (h : Admissible exp k) (n : ℕ) (x : Fin n → Point ℝ)
    (c : Fin n → ℝ) : 0 ≤ ∑ i, ∑ j, c i * c j * k.eval exp sqrt (x i) (x j) :=
  (kernel_psd exp sqrt k h).quadForm_nonneg n x c

/-- **gram_psd** — the matrix assembled by `calculateRegularizedKernelMatrix` over ANY batch partition,
with regulariser `reg ≥ 0`, is `Matrix.PosSemidef` (so: symmetric, no negative eigenvalue). -/
theorem gram_psd (k : Kern ℝ) (h : Admissible exp k) (reg : ℝ) (hreg : 0 ≤ reg) (batches : List (Mat ℝ)) :
    (Matrix.of fun (r c : Fin batches.flatten.length) =>
      regularizedGram (k.evalBlock exp sqrt) reg batches r c).PosSemidef := by
  have e : (Matrix.of fun (r c : Fin batches.flatten.length) =>
      regularizedGram (k.evalBlock exp sqrt) reg batches r c) =
      (Matrix.of fun (r c : Fin batches.flatten.length) =>
        k.eval exp sqrt (batches.flatten[r]) (batches.flatten[c])) + reg • (1 : Matrix _ _ ℝ) := by
    ext r c
    rw [Matrix.of_apply, kernel_gram_assembly_correct exp sqrt k reg batches r c r.2 c.2]
    by_cases hrc : r = c
    · subst hrc; simp
    · have : (r : ℕ) ≠ c := fun h => hrc (Fin.ext h)
      simp [this, Matrix.one_apply_ne hrc]
  rw [e]
  exact (kernel_psd exp sqrt k h _ _).add (Matrix.PosSemidef.one.smul hreg)

end psd
end SharkVerif.C05

/-! ## 6. Derivatives: the model's `weightedParameterDerivative` / `weightedInputDerivative` are the
true derivatives (`HasDerivAt` over ℝ) of the weighted sum of kernel values
`weightedSum κ C X1 X2 = Σᵢ Σⱼ Cᵢⱼ κ(x1ᵢ, x2ⱼ)`, for all batches, all coefficient matrices, all parameters.
Proved for the Gaussian (γ), polynomial (offset; input) and linear kernels (Model/KernelDerivs.lean);
the derivative code of the other kernel classes (ARD, normalised, scaled, weighted sum, sub-range,
monomial) is NOT modelled — it is covered only by the harness' finite-difference oracle. -/
namespace SharkVerif.C05
open SharkVerif.Kernels

/-- `GaussianRbfKernel::weightedParameterDerivative` = d/dγ Σ Cᵢⱼ exp(-γ‖x1ᵢ−x2ⱼ‖²) -/
theorem gauss_weightedParameterDerivative (sqrt : ℝ → ℝ) (γ : ℝ) (C X1 X2 : Mat ℝ) :
    HasDerivAt (fun g => weightedSum ((Kern.gauss g).eval Real.exp sqrt) C X1 X2)
      (gaussParamDeriv Real.exp γ C X1 X2) γ := gauss_param_hasDerivAt sqrt γ C X1 X2

/-- `PolynomialKernel::weightedParameterDerivative` (degree ≥ 1 not a parameter) = d/d(offset) Σ Cᵢⱼ (⟨x1ᵢ,x2ⱼ⟩+offset)^d,
including the `safe_div(·,·,0)` branch where the base vanishes -/
theorem poly_weightedParameterDerivative (exp sqrt : ℝ → ℝ) (d : ℕ) (hd : 1 ≤ d) (off : ℝ) (C X1 X2 : Mat ℝ) :
    HasDerivAt (fun c => weightedSum ((Kern.poly d c).eval exp sqrt) C X1 X2)
      (polyParamDeriv d off C X1 X2) off := poly_param_hasDerivAt exp sqrt d hd off C X1 X2

/-- `LinearKernel::weightedInputDerivative`: entry `t` of row `i` of `prod(C, X2)` is the partial derivative of
`Σⱼ Cᵢⱼ ⟨x, x2ⱼ⟩` with respect to coordinate `t` of `x = x1ᵢ` -/
theorem linear_weightedInputDerivative (exp sqrt : ℝ → ℝ) (crow : List ℝ) (x : Point ℝ) (X2 : Mat ℝ) (t : ℕ)
    (ht : t < x.length) (s₀ : ℝ) :
    HasDerivAt (fun s => sumRow (fun c z => c * (Kern.linear : Kern ℝ).eval exp sqrt (x.set t s) z) crow X2)
      ((gemmRow crow X2 x.length).getD t 0) s₀ := linear_input_hasDerivAt exp sqrt crow x X2 t ht s₀

/-- `PolynomialKernel::weightedInputDerivative`, degree ≥ 2 (degree 1 is the linear case) -/
theorem poly_weightedInputDerivative (exp sqrt : ℝ → ℝ) (d : ℕ) (hd : 2 ≤ d) (off : ℝ) (crow : List ℝ)
    (x : Point ℝ) (X2 : Mat ℝ) (t : ℕ) (ht : t < x.length) :
    HasDerivAt (fun s => sumRow (fun c z => c * (Kern.poly d off).eval exp sqrt (x.set t s) z) crow X2)
      ((polyInputRow d off crow x X2).getD t 0) (x.getD t 0) :=
  poly_input_hasDerivAt exp sqrt d hd off crow x X2 t ht

/-- `GaussianRbfKernel::weightedInputDerivative` (all points of `X2` at least as long as coordinate `t`:
the C++ `SIZE_CHECK`) -/
theorem gauss_weightedInputDerivative (sqrt : ℝ → ℝ) (γ : ℝ) (crow : List ℝ) (x : Point ℝ) (X2 : Mat ℝ) (t : ℕ)
    (ht : t < x.length) (hz : ∀ z ∈ X2, t < z.length) :
    HasDerivAt (fun s => sumRow (fun c z => c * (Kern.gauss γ).eval Real.exp sqrt (x.set t s) z) crow X2)
      ((gaussInputRow Real.exp γ crow x X2).getD t 0) (x.getD t 0) :=
  gauss_input_hasDerivAt sqrt γ crow x X2 t ht hz

/-- the rows of the matrix-valued derivative functions are the row functions above (structure of the C++ loops) -/
theorem gaussInputDeriv_rows (exp : ℝ → ℝ) (γ : ℝ) (C X1 X2 : Mat ℝ) :
    gaussInputDeriv exp γ C X1 X2 = List.zipWith (fun crow x => gaussInputRow exp γ crow x X2) C X1 := rfl
theorem polyInputDeriv_rows (d : ℕ) (hd : d ≠ 1) (off : ℝ) (C X1 X2 : Mat ℝ) :
    polyInputDeriv d off C X1 X2 = List.zipWith (fun crow x => polyInputRow d off crow x X2) C X1 := by
  unfold polyInputDeriv; rw [if_neg hd]
theorem polyInputDeriv_degree_one (off : ℝ) (C X1 X2 : Mat ℝ) :
    polyInputDeriv 1 off C X1 X2 = linearInputDeriv C X1 X2 := by
  unfold polyInputDeriv; rw [if_pos rfl]

/-- non-vacuity of `gauss_weightedInputDerivative`: a 2-point batch in dimension 2 -/
example : HasDerivAt (fun s => sumRow (fun c z => c * (Kern.gauss (1/2)).eval Real.exp Real.sqrt ([1, 2].set 1 s) z) [3, -1] [[0, 1], [2, 2]])
    ((gaussInputRow Real.exp (1/2) [3, -1] [1, 2] [[0, 1], [2, 2]]).getD 1 0) 2 := by
  have h := gauss_weightedInputDerivative Real.sqrt (1/2) [3, -1] [1, 2] [[0, 1], [2, 2]] 1 (by simp) (by simp)
  simpa using h

end SharkVerif.C05

/-! ## Non-vacuity: the hypotheses of the theorems above are satisfiable (and hold for the
real `exp`/`sqrt` and for concrete kernels the correspondence exercises) -/
namespace SharkVerif.C05
open SharkVerif.Kernels

/-- the real square root satisfies the `sqrt` hypothesis -/
theorem real_sqrt_spec : ∀ a : ℝ, 0 ≤ a → Real.sqrt a * Real.sqrt a = a := fun _ h => Real.mul_self_sqrt h

/-- `normalized_diag_one` is not vacuous: `NormalizedKernel(LinearKernel)` at `x = (1,2)` -/
example : (Kern.normalized (.linear : Kern ℝ)).eval Real.exp Real.sqrt [1, 2] [1, 2] = 1 :=
  normalized_diag_one Real.exp Real.sqrt real_sqrt_spec .linear [1, 2] (by norm_num [Kern.eval, dot])

/-- `isNormalized_diag_one` / `featureDistance_def` are not vacuous:
`ProductKernel(Gaussian(1/2), Normalized(Polynomial(2, 1)))`, which claims `IS_NORMALIZED` -/
example : (Kern.prod [.gauss (1/2), .normalized (.poly 2 1)] : Kern ℝ).eval Real.exp Real.sqrt [1, 2] [1, 2] = 1 :=
  isNormalized_diag_one Real.exp Real.sqrt Real.exp_zero real_sqrt_spec _ _
    (by simp [Kern.isNormalized, allNormalized])
    (by simp only [DiagPos, DiagPosList, Kern.eval, dot, powNat]; norm_num)

example : (Kern.prod [.gauss (1/2), .normalized (.poly 2 1)] : Kern ℝ).featureDistanceSqr Real.exp Real.sqrt [1, 2] [3, -1] =
    (Kern.prod [.gauss (1/2), .normalized (.poly 2 1)] : Kern ℝ).eval Real.exp Real.sqrt [1, 2] [1, 2]
      - two * (Kern.prod [.gauss (1/2), .normalized (.poly 2 1)] : Kern ℝ).eval Real.exp Real.sqrt [1, 2] [3, -1]
      + (Kern.prod [.gauss (1/2), .normalized (.poly 2 1)] : Kern ℝ).eval Real.exp Real.sqrt [3, -1] [3, -1] :=
  featureDistance_def Real.exp Real.sqrt Real.exp_zero real_sqrt_spec _ _ _ rfl
    (by simp only [DiagPos, DiagPosList, Kern.eval, dot, powNat]; norm_num)
    (by simp only [DiagPos, DiagPosList, Kern.eval, dot, powNat]; norm_num)

/-- `kernel_psd` is not vacuous: a composed kernel without Gaussian leaves needs no hypothesis at all -/
example : IsPSD ((Kern.normalized (.wsum [1, 2] 3 [.linear, .scaled (1/2) (.prod [.poly 3 1, .subrange 0 1 (.monomial 2)])]) : Kern ℝ).eval
    Real.exp Real.sqrt) :=
  kernel_psd Real.exp Real.sqrt _ (by
    simp only [Admissible, AdmissibleList, List.mem_cons, List.not_mem_nil, or_false, forall_eq_or_imp, forall_eq]
    norm_num)

/-- the `GaussianPSD` hypothesis is satisfiable (trivially at `γ = 0`, where the kernel is constant 1;
for `γ > 0` it is the classical theorem that is *not* proved here) -/
example : Admissible Real.exp (.gauss 0) := by
  simp only [Admissible]
  exact (IsPSD.const (P := Point ℝ) zero_le_one).congr fun x z => by simp

/-- `gram_assembly_correct` at a concrete partition: 3 points in batches of sizes (2,1) and (1,2) -/
example : ∀ r c, r < 3 → c < 3 →
    regularizedGram ((Kern.poly 2 1 : Kern ℚ).evalBlock id id) (1/2) [[[1], [2]], [[3]]] r c =
    regularizedGram ((Kern.poly 2 1 : Kern ℚ).evalBlock id id) (1/2) [[[1]], [[2], [3]]] r c :=
  fun r c hr hc => kernel_gram_partition_independent id id (.poly 2 1) (1/2)
    [[[1], [2]], [[3]]] [[[1]], [[2], [3]]] rfl r c hr hc

end SharkVerif.C05

/-! ## 7. `WeightedSumKernel::setParameterVector` produces admissible weights -/
namespace SharkVerif.C05
open SharkVerif.Kernels

theorem foldl_exp_pos (exp : ℝ → ℝ) (hexp : ∀ x, 0 < exp x) : ∀ (ps : List ℝ) (a : ℝ), 0 < a →
    0 < ps.foldl (fun s p => s + exp p) a
  | [], a, ha => by simpa using ha
  | p :: ps, a, ha => by
      simp only [List.foldl_cons]
      exact foldl_exp_pos exp hexp ps (a + exp p) (add_pos ha (hexp p))

/-- `WeightedSumKernel::setParameterVector` always produces admissible weights (weights `exp(pᵢ) > 0`,
weight sum `> 0`): the kernel it builds is PSD whenever its sub-kernels are. -/
theorem wsumOfParams_admissible (exp : ℝ → ℝ) (hexp : ∀ x, 0 < exp x) (ps : List ℝ) (ks : List (Kern ℝ))
    (hks : AdmissibleList exp ks) : Admissible exp (wsumOfParams exp ps ks) := by
  unfold wsumOfParams
  simp only [Admissible]
  refine ⟨?_, (foldl_exp_pos exp hexp ps 1 one_pos).le, hks⟩
  intro w hw
  rcases List.mem_cons.mp hw with rfl | hw
  · exact zero_le_one
  · obtain ⟨p, _, rfl⟩ := List.mem_map.mp hw
    exact (hexp p).le

theorem wsumOfParams_psd (sqrt : ℝ → ℝ) (ps : List ℝ) (ks : List (Kern ℝ)) (hks : AdmissibleList Real.exp ks) :
    IsPSD ((wsumOfParams Real.exp ps ks).eval Real.exp sqrt) :=
  kernel_psd Real.exp sqrt _ (wsumOfParams_admissible Real.exp Real.exp_pos ps ks hks)

end SharkVerif.C05

/-! ## 8. PSD-ness of the linear kernel over ANY ordered field (no Mathlib matrices) -/
namespace SharkVerif.C05
open SharkVerif.Kernels

section qf
variable {K : Type} [Field K] [LinearOrder K] [IsStrictOrderedRing K]

/-- the quadratic form `Σᵢ Σⱼ cᵢ cⱼ κ(xᵢ,xⱼ)` of a kernel on a finite weighted point list -/
def quadForm (κ : Point K → Point K → K) (ps : List (Point K × K)) : K :=
  (ps.map fun p => (ps.map fun q => p.2 * q.2 * κ p.1 q.1).sum).sum

theorem quadForm_rankOne (h : Point K → K) (ps : List (Point K × K)) :
    quadForm (fun x z => h x * h z) ps = (ps.map fun p => p.2 * h p.1).sum * (ps.map fun p => p.2 * h p.1).sum := by
  unfold quadForm
  rw [← List.sum_map_mul_right]
  apply congrArg
  apply List.map_congr_left
  intro p _
  rw [← List.sum_map_mul_left]
  apply congrArg
  apply List.map_congr_left
  intro q _
  ring

theorem quadForm_add (κ₁ κ₂ : Point K → Point K → K) (ps : List (Point K × K)) :
    quadForm (fun x z => κ₁ x z + κ₂ x z) ps = quadForm κ₁ ps + quadForm κ₂ ps := by
  unfold quadForm
  rw [← List.sum_map_add]
  apply congrArg
  apply List.map_congr_left
  intro p _
  rw [← List.sum_map_add]
  apply congrArg
  apply List.map_congr_left
  intro q _
  ring

theorem quadForm_comap (κ : Point K → Point K → K) (s : Point K → Point K) (ps : List (Point K × K)) :
    quadForm (fun x z => κ (s x) (s z)) ps = quadForm κ (ps.map fun p => (s p.1, p.2)) := by
  unfold quadForm
  simp [List.map_map, Function.comp_def]

theorem dot_head_tail' (x z : Point K) : dot x z = x.headD 0 * z.headD 0 + dot x.tail z.tail := by
  cases x with
  | nil => simp [dot_nil_left]
  | cons a x =>
    cases z with
    | nil => simp [dot_nil_right]
    | cons b z => simp

theorem linear_quadForm_nonneg_aux : ∀ (m : ℕ) (ps : List (Point K × K)), (∀ p ∈ ps, p.1.length ≤ m) →
    0 ≤ quadForm dot ps
  | 0, ps, h => by
      have : quadForm dot ps = 0 := by
        unfold quadForm
        apply List.sum_eq_zero
        intro v hv
        obtain ⟨p, hp, rfl⟩ := List.mem_map.mp hv
        apply List.sum_eq_zero
        intro w hw
        obtain ⟨q, _, rfl⟩ := List.mem_map.mp hw
        have : p.1 = [] := List.eq_nil_of_length_eq_zero (Nat.le_zero.mp (h p hp))
        simp [this, dot_nil_left]
      rw [this]
  | m + 1, ps, h => by
      have e : quadForm dot ps =
          quadForm (fun x z => (fun p : Point K => p.headD 0) x * (fun p : Point K => p.headD 0) z + dot x.tail z.tail) ps := by
        unfold quadForm
        apply congrArg
        apply List.map_congr_left
        intro p _
        apply congrArg
        apply List.map_congr_left
        intro q _
        rw [dot_head_tail' p.1 q.1]
      rw [e, quadForm_add, quadForm_rankOne, quadForm_comap dot List.tail]
      apply add_nonneg (mul_self_nonneg _)
      apply linear_quadForm_nonneg_aux m
      intro p hp
      obtain ⟨q, hq, rfl⟩ := List.mem_map.mp hp
      have := h q hq
      simp only [List.length_tail]; omega

/-- **linear_psd over any ordered field** (in particular ℚ, the instance the driver executes): for every finite
list of points (any lengths) with coefficients, `Σᵢ Σⱼ cᵢ cⱼ ⟨xᵢ,xⱼ⟩ ≥ 0` — a sum of squares, one per coordinate. -/
theorem linear_quadForm_nonneg (ps : List (Point K × K)) : 0 ≤ quadForm dot ps :=
  linear_quadForm_nonneg_aux ((ps.map fun p => p.1.length).foldr max 0) ps (by
    intro p hp
    induction ps with
    | nil => simp at hp
    | cons a l ih =>
      simp only [List.map_cons, List.foldr_cons]
      rcases List.mem_cons.mp hp with rfl | hp
      · exact le_max_left _ _
      · exact le_trans (ih hp) (le_max_right _ _))

end qf
end SharkVerif.C05

/-! ## 9. SubrangeKernel, ModelKernel, PointSetKernel -/
namespace SharkVerif.C05
open SharkVerif.Kernels

section field
variable {K : Type} [Field K] (exp sqrt : K → K)

/-- **pointSet_symm** — `PointSetKernel(k)(X,Z) = PointSetKernel(k)(Z,X)` for every base kernel expression
and all point sets (mean of the base block; the two double sums are exchanged) -/
theorem pointSet_symm (k : Kern K) (X Z : Mat K) :
    pointSetEval exp sqrt k X Z = pointSetEval exp sqrt k Z X := by
  unfold pointSetEval
  rw [batch_eval_eq_single, batch_eval_eq_single, matSum_tab, matSum_tab, sum_sum_comm, Nat.mul_comm]
  congr 2
  apply List.map_congr_left
  intro z _
  apply congrArg
  apply List.map_congr_left
  intro x _
  exact k_symm exp sqrt k x z

/-- `PointSetKernel`'s block evaluation is the matrix of its single evaluations -/
theorem pointSet_batch_eval_eq_single (k : Kern K) (B1 B2 : List (Mat K)) :
    pointSetBlock exp sqrt k B1 B2 = B1.map fun X => B2.map fun Z => pointSetEval exp sqrt k X Z := rfl

/-- Gram assembly over point-set data, every batch partition -/
theorem pointSet_gram_assembly_correct (k : Kern K) (reg : K) (batches : List (List (Mat K))) (r c : Nat)
    (hr : r < batches.flatten.length) (hc : c < batches.flatten.length) :
    regularizedGram (pointSetBlock exp sqrt k) reg batches r c =
      if r = c then pointSetEval exp sqrt k (batches.flatten[r]) (batches.flatten[c]) + reg
      else pointSetEval exp sqrt k (batches.flatten[r]) (batches.flatten[c]) :=
  gram_assembly_correct (pointSetEval exp sqrt k) _ (fun _ _ => rfl) reg batches r c hr hc

/-- value of the point-set kernel as a double sum of single evaluations -/
theorem pointSet_eq_mean (k : Kern K) (X Z : Mat K) :
    pointSetEval exp sqrt k X Z =
      (X.map fun x => (Z.map fun z => k.eval exp sqrt x z).sum).sum / natS (X.length * Z.length) := by
  unfold pointSetEval
  rw [batch_eval_eq_single, matSum_tab]

/-- `SubrangeKernel` is symmetric / batch = single because it *is* a kernel expression -/
theorem subrangeKernel_symm (ps : List K) (terms : List (Nat × Nat × Kern K)) (x z : Point K) :
    (subrangeKernel exp ps terms).eval exp sqrt x z = (subrangeKernel exp ps terms).eval exp sqrt z x :=
  k_symm exp sqrt _ x z

end field

/-- `SubrangeKernel` with admissible sub-kernels is PSD for every parameter vector -/
theorem subrangeKernel_psd (sqrt : ℝ → ℝ) (ps : List ℝ) (terms : List (Nat × Nat × Kern ℝ))
    (h : ∀ t ∈ terms, Admissible Real.exp t.2.2) :
    IsPSD ((subrangeKernel Real.exp ps terms).eval Real.exp sqrt) := by
  unfold subrangeKernel
  apply wsumOfParams_psd
  induction terms with
  | nil => simp [AdmissibleList]
  | cons t ts ih =>
    simp only [List.map_cons, AdmissibleList, Admissible]
    exact ⟨h t (List.mem_cons_self), ih fun t' ht' => h t' (List.mem_cons_of_mem _ ht')⟩

end SharkVerif.C05


/-! ## 10. Derivatives of ARDKernelUnconstrained (parameters log γ) and ScaledKernel -/
namespace SharkVerif.C05
open SharkVerif.Kernels

/-- `ARDKernelUnconstrained::weightedParameterDerivative`: entry `t` is the derivative of the weighted sum of
kernel values with respect to the parameter `η_t = log γ_t` — for all block sizes, in the C++ loop order. -/
theorem ard_weightedParameterDerivative (sqrt : ℝ → ℝ) (gs : List ℝ) (t : ℕ) (η₀ : ℝ) (ht : t < gs.length)
    (hγ : gs.getD t 0 = Real.exp η₀) (C X1 X2 : Mat ℝ)
    (hx : ∀ x ∈ X1, t < x.length) (hz : ∀ z ∈ X2, t < z.length) :
    HasDerivAt (fun η => weightedSum ((Kern.ard (gs.set t (Real.exp η))).eval Real.exp sqrt) C X1 X2)
      ((ardParamDeriv Real.exp gs C X1 X2 (gs.map fun _ => 0)).getD t 0) η₀ :=
  ard_param_hasDerivAt sqrt gs t η₀ ht hγ C X1 X2 hx hz

/-- `ARDKernelUnconstrained::weightedInputDerivative`, row `i`, coordinate `t` -/
theorem ard_weightedInputDerivative (sqrt : ℝ → ℝ) (gs : List ℝ) (crow : List ℝ) (x : Point ℝ) (X2 : Mat ℝ) (t : ℕ)
    (ht : t < gs.length) (hx : t < x.length) (hz : ∀ z ∈ X2, t < z.length) :
    HasDerivAt (fun s => sumRow (fun c z => c * (Kern.ard gs).eval Real.exp sqrt (x.set t s) z) crow X2)
      ((ardInputRow Real.exp gs crow x X2).getD t 0) (x.getD t 0) :=
  ard_input_hasDerivAt sqrt gs crow x X2 t ht hx hz

/-- `ScaledKernel::weightedParameterDerivative` / `weightedInputDerivative` (`gradient *= m_factor`): if `G` is the
derivative of the base kernel's weighted sum (in any parameter or input coordinate `p`), `G · factor` is the
derivative of the scaled kernel's weighted sum. -/
theorem scaled_weightedDerivative (exp sqrt : ℝ → ℝ) (factor : ℝ) (k : ℝ → Kern ℝ) (C X1 X2 : Mat ℝ) (G p : ℝ)
    (h : HasDerivAt (fun q => weightedSum ((k q).eval exp sqrt) C X1 X2) G p) :
    HasDerivAt (fun q => weightedSum ((Kern.scaled factor (k q)).eval exp sqrt) C X1 X2) (G * factor) p := by
  have e : (fun q => weightedSum ((Kern.scaled factor (k q)).eval exp sqrt) C X1 X2) =
      fun q => factor * weightedSum ((k q).eval exp sqrt) C X1 X2 := by
    funext q; exact weightedSum_scaled exp sqrt factor (k q) C X1 X2
  rw [e]
  exact scaled_hasDerivAt _ G p factor h

/-- non-vacuity of `ard_weightedParameterDerivative`: γ = (1, e⁰) … a 1×1 block in dimension 2 -/
example : HasDerivAt (fun η => weightedSum ((Kern.ard ([1, 1].set 1 (Real.exp η))).eval Real.exp Real.sqrt) [[2]] [[1, 2]] [[0, 1]])
    ((ardParamDeriv Real.exp [1, 1] [[2]] [[1, 2]] [[0, 1]] ([1, 1].map fun _ => 0)).getD 1 0) 0 :=
  ard_weightedParameterDerivative Real.sqrt [1, 1] 1 0 (by simp) (by simp) [[2]] [[1, 2]] [[0, 1]] (by simp) (by simp)

end SharkVerif.C05

/-! ## 11. WeightedSumKernel: derivative with respect to the log-weights -/
namespace SharkVerif.C05
open SharkVerif.Kernels

/-- **WeightedSumKernel, weight derivative**: entry `i` of the weight part of `weightedParameterDerivative` is the
derivative of the weighted sum of kernel values `Σ C_ab (Σ_j w_j k_j(x_a,z_b)) / W` with respect to the
log-weight `q = log w_{i+1}` (the other weights fixed; `W = Wrest + e^q` is the weight sum), at the current
weights. Holds for all sub-kernel expressions, all batches and coefficient matrices. -/
theorem wsum_weight_hasDerivAt (exp sqrt : ℝ → ℝ) (ws : List ℝ) (ks : List (Kern ℝ)) (C X1 X2 : Mat ℝ)
    (i : ℕ) (q₀ Wrest : ℝ) (hi : i + 1 < ws.length) (hk : i + 1 < ks.length)
    (hw : ws.getD (i + 1) 0 = Real.exp q₀) (hW : Wrest + Real.exp q₀ ≠ 0) :
    HasDerivAt (fun q => weightedSum ((Kern.wsum (ws.set (i + 1) (Real.exp q)) (Wrest + Real.exp q) ks).eval exp sqrt) C X1 X2)
      ((wsumWeightGrad exp sqrt ws (Wrest + Real.exp q₀) ks C X1 X2).getD i 0) q₀ := by
  -- the list of weighted sums of the sub-kernels
  set Ss : List ℝ := ks.map fun k => weightedSum (k.eval exp sqrt) C X1 X2 with hSs
  have hSlen : i + 1 < Ss.length := by simp [hSs, hk]
  -- numerator as a fold of the S_j
  have hN : ∀ ws' : List ℝ, weightedSum (fun x z => wfold ws' (evalList exp sqrt ks x z) 0) C X1 X2 = wfold ws' Ss 0 := by
    intro ws'
    have := weightedSum_wfold C X1 X2 ws' (ks.map fun k => k.eval exp sqrt) (fun _ _ => 0)
    simp only [List.map_map, Function.comp_def] at this
    have e0 : weightedSum (fun _ _ => (0 : ℝ)) C X1 X2 = 0 := by
      show sumBlock (fun c x z => c * (0 : ℝ)) C X1 X2 = 0
      have e : (fun (c : ℝ) (x z : Point ℝ) => c * (0 : ℝ)) = fun _ _ _ => 0 := by funext c x z; ring
      rw [e]; exact sumBlock_zero C X1 X2
    rw [e0] at this
    rw [← this]
    unfold weightedSum
    exact sumBlock_congr _ _ (fun c x z => by simp only [evalList_eq_map]) C X1 X2
  -- pull the division by the weight sum out of the weighted sum
  have hdiv : ∀ (ws' : List ℝ) (W : ℝ),
      weightedSum ((Kern.wsum ws' W ks).eval exp sqrt) C X1 X2 = wfold ws' Ss 0 / W := by
    intro ws' W
    rw [← hN ws', div_eq_mul_inv, mul_comm]
    unfold weightedSum
    rw [← sumBlock_mul_left]
    exact sumBlock_congr _ _ (fun c x z => by simp only [Kern.eval, div_eq_mul_inv]; ring) C X1 X2
  have hfun : (fun q => weightedSum ((Kern.wsum (ws.set (i + 1) (Real.exp q)) (Wrest + Real.exp q) ks).eval exp sqrt) C X1 X2) =
      fun q => ((wfold ws Ss 0 - ws.getD (i + 1) 0 * Ss.getD (i + 1) 0) + Real.exp q * Ss.getD (i + 1) 0) / (Wrest + Real.exp q) := by
    funext q
    rw [hdiv, wfold_set ws Ss (i + 1) _ hi hSlen]
    congr 1; ring
  rw [hfun]
  have h := scal_wsum_weight (wfold ws Ss 0 - ws.getD (i + 1) 0 * Ss.getD (i + 1) 0) Wrest (Ss.getD (i + 1) 0) q₀ hW
  refine h.congr_deriv ?_
  unfold wsumWeightGrad
  simp only []
  rw [getD_zipWith_drop _ ws _ i hi (by simpa [hSs] using hk), hN ws, ← hSs, hw]
  congr 1
  ring


end SharkVerif.C05

/-! ## 12. Gaussian and ARD kernels ARE positive semi-definite: the PSD clause without hypothesis (equal-dimension data) -/
namespace SharkVerif.C05
open SharkVerif.Kernels

mutual
/-- parameters in their admissible range — now without any PSD hypothesis: Gaussian `γ ≥ 0`, ARD `γ_t ≥ 0` -/
def AdmissibleG : Kern ℝ → Prop
  | .linear => True
  | .poly _ c => 0 ≤ c
  | .monomial _ => True
  | .gauss g => 0 ≤ g
  | .ard gs => ∀ g ∈ gs, 0 ≤ g
  | .normalized k => AdmissibleG k
  | .scaled f k => 0 ≤ f ∧ AdmissibleG k
  | .wsum ws s ks => (∀ w ∈ ws, 0 ≤ w) ∧ 0 ≤ s ∧ AdmissibleGList ks
  | .prod ks => AdmissibleGList ks
  | .subrange _ _ k => AdmissibleG k
  | .mapped _ _ k => AdmissibleG k
def AdmissibleGList : List (Kern ℝ) → Prop
  | [] => True
  | k :: ks => AdmissibleG k ∧ AdmissibleGList ks
end

mutual
/-- **kernel_psd_equalDim** — EVERY kernel expression with admissible parameters (Gaussian and ARD included, no
hypothesis left) has positive semidefinite Gram matrices on every finite family of points of equal dimension `d`
(the C++ `SIZE_CHECK`), for the real `exp` and any `sqrt`. -/
theorem kernel_psd_equalDim (sqrt : ℝ → ℝ) : ∀ (k : Kern ℝ), AdmissibleG k → ∀ (d n : ℕ) (x : Fin n → Point ℝ),
    (∀ i, (x i).length = d) → FamPSD x (k.eval Real.exp sqrt)
  | .linear, _, _, _, x, _ => (dot_psd.fam x).congr fun i j => by simp only [Kern.eval]
  | .poly deg c, h, _, _, x, _ => by
      simp only [AdmissibleG] at h
      exact (((dot_psd.add (IsPSD.const h)).pow deg).fam x).congr fun i j => by
        simp only [Kern.eval, powNat_eq_pow]
  | .monomial m, _, _, _, x, _ => ((dot_psd.pow m).fam x).congr fun i j => by simp only [Kern.eval, powNat_eq_pow]
  | .gauss g, h, d, _, x, hx => by
      simp only [AdmissibleG] at h
      exact (gaussian_fam_psd g h x d hx).congr fun i j => by simp only [Kern.eval]
  | .ard gs, h, d, _, x, hx => by
      simp only [AdmissibleG] at h
      exact (ard_fam_psd gs h x d hx).congr fun i j => by simp only [Kern.eval]
  | .normalized k, h, d, n, x, hx => by
      simp only [AdmissibleG] at h
      exact ((kernel_psd_equalDim sqrt k h d n x hx).normalize fun a => sqrt (k.eval Real.exp sqrt a a)).congr
        fun i j => by simp only [Kern.eval]
  | .scaled f k, h, d, n, x, hx => by
      simp only [AdmissibleG] at h
      exact ((kernel_psd_equalDim sqrt k h.2 d n x hx).smul h.1).congr fun i j => by simp only [Kern.eval]
  | .wsum ws s ks, h, d, n, x, hx => by
      simp only [AdmissibleG] at h
      have hfs := kernelList_psd_equalDim sqrt ks h.2.2 d n x hx
      have := (wfold_fam x ws (ks.map fun k => k.eval Real.exp sqrt) (fun _ _ => 0) h.1 hfs (IsPSD.zero.fam x)).smul
        (inv_nonneg.mpr h.2.1)
      exact this.congr fun i j => by
        simp only [Kern.eval, evalList_eq_map, List.map_map, Function.comp_def, div_eq_mul_inv]; ring
  | .prod ks, h, d, n, x, hx => by
      simp only [AdmissibleG] at h
      have hfs := kernelList_psd_equalDim sqrt ks h d n x hx
      have := pfold_fam x (ks.map fun k => k.eval Real.exp sqrt) (fun _ _ => 1) hfs ((IsPSD.const zero_le_one).fam x)
      exact this.congr fun i j => by
        simp only [Kern.eval, evalList_eq_map, List.map_map, Function.comp_def]
  | .subrange a b k, h, d, n, x, hx => by
      simp only [AdmissibleG] at h
      have := kernel_psd_equalDim sqrt k h (min (b - a) (d - a)) n (fun i => slice a b (x i)) (fun i => by
        simp [slice, hx i])
      exact (FamPSD.comap (slice a b) this).congr fun i j => by simp only [Kern.eval]
  | .mapped A b k, h, d, n, x, hx => by
      simp only [AdmissibleG] at h
      have := kernel_psd_equalDim sqrt k h (min A.length b.length) n (fun i => affine A b (x i)) (fun i => by
        simp [affine])
      exact (FamPSD.comap (affine A b) this).congr fun i j => by simp only [Kern.eval]
theorem kernelList_psd_equalDim (sqrt : ℝ → ℝ) : ∀ (ks : List (Kern ℝ)), AdmissibleGList ks →
    ∀ (d n : ℕ) (x : Fin n → Point ℝ), (∀ i, (x i).length = d) →
    ∀ f ∈ ks.map (fun k => k.eval Real.exp sqrt), FamPSD x f
  | [], _, _, _, _, _ => by simp
  | k' :: ks, h, d, n, x, hx => by
      simp only [AdmissibleGList] at h
      intro f hf
      simp only [List.map_cons, List.mem_cons] at hf
      rcases hf with rfl | hf
      · exact kernel_psd_equalDim sqrt k' h.1 d n x hx
      · exact kernelList_psd_equalDim sqrt ks h.2 d n x hx f hf
end

/-- **gram_psd_equalDim** — for data of equal dimension, the matrix assembled by `calculateRegularizedKernelMatrix`
over ANY batch partition with `reg ≥ 0` is positive semidefinite, for every admissible kernel expression
(Gaussian and ARD included) — no PSD hypothesis. -/
theorem gram_psd_equalDim (sqrt : ℝ → ℝ) (k : Kern ℝ) (h : AdmissibleG k) (reg : ℝ) (hreg : 0 ≤ reg)
    (batches : List (Mat ℝ)) (d : ℕ) (hd : ∀ p ∈ batches.flatten, p.length = d) :
    (Matrix.of fun (r c : Fin batches.flatten.length) =>
      regularizedGram (k.evalBlock Real.exp sqrt) reg batches r c).PosSemidef := by
  have e : (Matrix.of fun (r c : Fin batches.flatten.length) =>
      regularizedGram (k.evalBlock Real.exp sqrt) reg batches r c) =
      (Matrix.of fun (r c : Fin batches.flatten.length) =>
        k.eval Real.exp sqrt (batches.flatten[r]) (batches.flatten[c])) + reg • (1 : Matrix _ _ ℝ) := by
    ext r c
    rw [Matrix.of_apply, kernel_gram_assembly_correct Real.exp sqrt k reg batches r c r.2 c.2]
    by_cases hrc : r = c
    · subst hrc; simp
    · have : (r : ℕ) ≠ c := fun h => hrc (Fin.ext h)
      simp [this, Matrix.one_apply_ne hrc]
  rw [e]
  have hfam := kernel_psd_equalDim sqrt k h d batches.flatten.length (fun i => batches.flatten[i])
    (fun i => hd _ (List.getElem_mem _))
  exact Matrix.PosSemidef.add hfam (Matrix.PosSemidef.one.smul hreg)

/-- non-vacuity: a composed kernel with Gaussian and ARD leaves on three 2-dimensional points, batches (2,1) -/
example : (Matrix.of fun (r c : Fin ([[[1, 2], [0, 1]], [[3, -1]]] : List (Mat ℝ)).flatten.length) =>
    regularizedGram ((Kern.normalized (.wsum [1, 2] 3 [.gauss (1/2), .prod [.ard [1, 1/4], .poly 2 1]]) : Kern ℝ).evalBlock
      Real.exp Real.sqrt) (1/2) [[[1, 2], [0, 1]], [[3, -1]]] r c).PosSemidef :=
  gram_psd_equalDim Real.sqrt _ (by
    simp only [AdmissibleG, AdmissibleGList, List.mem_cons, List.not_mem_nil, or_false, forall_eq_or_imp, forall_eq]
    norm_num) (1/2) (by norm_num) _ 2 (by simp)

end SharkVerif.C05

/-! ## further non-vacuity examples -/
namespace SharkVerif.C05
open SharkVerif.Kernels

/-- non-vacuity of `wsum_weight_hasDerivAt`: weights (1, e⁰), sub-kernels (linear, polynomial), a 1×2 block -/
example : HasDerivAt (fun q => weightedSum ((Kern.wsum ([1, 1].set 1 (Real.exp q)) (1 + Real.exp q) [.linear, .poly 2 1]).eval Real.exp Real.sqrt)
      [[1, -2]] [[1, 2]] [[0, 1], [3, 1]])
    ((wsumWeightGrad Real.exp Real.sqrt [1, 1] (1 + Real.exp 0) [.linear, .poly 2 1] [[1, -2]] [[1, 2]] [[0, 1], [3, 1]]).getD 0 0) 0 :=
  wsum_weight_hasDerivAt Real.exp Real.sqrt [1, 1] [.linear, .poly 2 1] [[1, -2]] [[1, 2]] [[0, 1], [3, 1]] 0 0 1
    (by simp) (by simp) (by simp) (by positivity)

/-- non-vacuity of `gram_psd`: a regularised Gram matrix of a composed kernel over the batch partition (2,1) -/
example : (Matrix.of fun (r c : Fin ([[[1, 2], [0, 1]], [[3, -1]]] : List (Mat ℝ)).flatten.length) =>
    regularizedGram ((Kern.scaled 2 (.poly 2 1) : Kern ℝ).evalBlock Real.exp Real.sqrt) (1/2)
      [[[1, 2], [0, 1]], [[3, -1]]] r c).PosSemidef :=
  gram_psd Real.exp Real.sqrt _ (by simp only [Admissible]; norm_num) (1/2) (by norm_num) _

/-- non-vacuity of `poly_weightedInputDerivative` (degree 3) -/
example : HasDerivAt (fun s => sumRow (fun c z => c * (Kern.poly 3 1).eval Real.exp Real.sqrt ([1, 2].set 0 s) z) [2, -1] [[0, 1], [1, 1]])
    ((polyInputRow 3 1 [2, -1] [1, 2] [[0, 1], [1, 1]]).getD 0 0) 1 := by
  have h := poly_weightedInputDerivative Real.exp Real.sqrt 3 (by norm_num) 1 [2, -1] [1, 2] [[0, 1], [1, 1]] 0 (by simp)
  simpa using h

end SharkVerif.C05

/-! ## 13. PointSetKernel is positive semi-definite when its base kernel is (quadratic-form version, mean embedding) -/
namespace SharkVerif.C05
open SharkVerif.Kernels

/-- the quadratic form `Σ_p Σ_q c_p c_q κ(p,q)` of a kernel on a finite weighted list of inputs of any type -/
def quadFormG {P : Type} (κ : P → P → ℝ) (ps : List (P × ℝ)) : ℝ :=
  (ps.map fun p => (ps.map fun q => p.2 * q.2 * κ p.1 q.1).sum).sum

theorem quadFormG_nonneg_of_isPSD {P : Type} {κ : P → P → ℝ} (h : IsPSD κ) (ps : List (P × ℝ)) :
    0 ≤ quadFormG κ ps := by
  have := h.quadForm_nonneg ps.length (fun i => ps[i].1) (fun i => ps[i].2)
  refine le_of_le_of_eq this ?_
  unfold quadFormG
  rw [← Fin.sum_univ_fun_getElem ps (fun p => (ps.map fun q => p.2 * q.2 * κ p.1 q.1).sum)]
  refine Finset.sum_congr rfl fun i _ => ?_
  exact Fin.sum_univ_fun_getElem ps (fun q => ps[i].2 * q.2 * κ ps[i].1 q.1)

theorem sum_map_flatMap {A B : Type} (f : A → List B) (g : B → ℝ) : ∀ l : List A,
    ((l.flatMap f).map g).sum = (l.map fun a => ((f a).map g).sum).sum
  | [] => by simp
  | a :: l => by simp [List.flatMap_cons, sum_map_flatMap f g l]

theorem natS_eq_cast : ∀ n : ℕ, (natS n : ℝ) = (n : ℝ)
  | 0 => by simp [natS]
  | n + 1 => by simp [natS, natS_eq_cast n]

/-- the points of a weighted list of point sets, each carrying `coefficient / set size` -/
noncomputable def spread (W : List (Mat ℝ × ℝ)) : List (Point ℝ × ℝ) :=
  W.flatMap fun Xc => Xc.1.map fun x => (x, Xc.2 / (Xc.1.length : ℝ))

/-- the point-set quadratic form is the base kernel's quadratic form on the spread points (mean embedding) -/
theorem pointSet_quadForm_eq (exp sqrt : ℝ → ℝ) (k : Kern ℝ) (W : List (Mat ℝ × ℝ)) :
    quadFormG (pointSetEval exp sqrt k) W = quadFormG (k.eval exp sqrt) (spread W) := by
  unfold quadFormG spread
  rw [sum_map_flatMap]
  apply congrArg
  apply List.map_congr_left
  intro Xc _
  rw [List.map_map]
  -- inner sums
  have inner : ∀ p : Point ℝ × ℝ,
      ((W.flatMap fun Zc => Zc.1.map fun z => (z, Zc.2 / (Zc.1.length : ℝ))).map
        fun q => p.2 * q.2 * k.eval exp sqrt p.1 q.1).sum =
      (W.map fun Zc => ((Zc.1.map fun z => p.2 * (Zc.2 / (Zc.1.length : ℝ)) * k.eval exp sqrt p.1 z).sum)).sum := by
    intro p
    rw [sum_map_flatMap]
    apply congrArg
    apply List.map_congr_left
    intro Zc _
    rw [List.map_map]; rfl
  simp only [Function.comp_def, inner]
  -- exchange: Σ_x Σ_Z (...) = Σ_Z Σ_x (...)
  rw [sum_sum_comm (fun (x : Point ℝ) (Zc : Mat ℝ × ℝ) =>
      (Zc.1.map fun z => Xc.2 / (Xc.1.length : ℝ) * (Zc.2 / (Zc.1.length : ℝ)) * k.eval exp sqrt x z).sum) Xc.1 W]
  apply congrArg
  apply List.map_congr_left
  intro Zc _
  rw [pointSet_eq_mean, natS_eq_cast, Nat.cast_mul]
  -- pull the constants out of the double sum
  have e : ∀ x : Point ℝ, (Zc.1.map fun z => Xc.2 / (Xc.1.length : ℝ) * (Zc.2 / (Zc.1.length : ℝ)) * k.eval exp sqrt x z).sum =
      (Xc.2 / (Xc.1.length : ℝ) * (Zc.2 / (Zc.1.length : ℝ))) * (Zc.1.map fun z => k.eval exp sqrt x z).sum := by
    intro x; rw [List.sum_map_mul_left]
  simp only [e]
  rw [List.sum_map_mul_left]
  simp only [div_eq_mul_inv, mul_inv]; ring

/-- **pointSet_psd** (quadratic-form version): if the base kernel is PSD, so is the point-set kernel — for every
finite weighted list of point sets (of any sizes, also empty), `Σ_ab c_a c_b k_PS(X_a, X_b) ≥ 0`. -/
theorem pointSet_quadForm_nonneg (exp sqrt : ℝ → ℝ) (k : Kern ℝ) (h : IsPSD (k.eval exp sqrt)) (W : List (Mat ℝ × ℝ)) :
    0 ≤ quadFormG (pointSetEval exp sqrt k) W := by
  rw [pointSet_quadForm_eq]; exact quadFormG_nonneg_of_isPSD h _

end SharkVerif.C05

/-! ## 14. In-place reconfiguration: the flags cached by the constructors stay sound for EVERY history

A kernel object is constructed once; afterwards `ScaledKernel::setFactor` (e.g. by
`NormalizeKernelUnitVariance::train`) and `setParameterVector` change its parameters in place, while the
feature flags (`IS_NORMALIZED`, trusted by `featureDistanceSqr`) keep the value the constructors computed.
`KObj` (Model/Kernels.lean) models exactly this.  The theorems say: the cached flag equals the flag of the
*current* expression after every history of reconfigurations (because the constructors never let it depend
on a parameter value), hence the unit-diagonal and feature-distance clauses hold after every history. -/
namespace SharkVerif.C05
open SharkVerif.Kernels

section reconf
variable {K : Type} [Field K]

mutual
/-- `setFactor` never changes what the constructors decided about `IS_NORMALIZED` -/
theorem setFactor_isNormalized (f : K) : ∀ (k : Kern K) (i : Nat), (k.setFactor f i).isNormalized = k.isNormalized
  | .linear, _ => by simp only [Kern.setFactor]
  | .poly _ _, _ => by simp only [Kern.setFactor]
  | .monomial _, _ => by simp only [Kern.setFactor]
  | .gauss _, _ => by simp only [Kern.setFactor]
  | .ard _, _ => by simp only [Kern.setFactor]
  | .normalized k, i => by simp only [Kern.setFactor, Kern.isNormalized]
  | .scaled g k, 0 => by simp only [Kern.setFactor, Kern.isNormalized]
  | .scaled g k, i + 1 => by simp only [Kern.setFactor, Kern.isNormalized]
  | .wsum _ _ _, _ => by simp only [Kern.setFactor, Kern.isNormalized]
  | .prod ks, i => by simp only [Kern.setFactor, Kern.isNormalized]; exact setFactorList_allNormalized f ks i
  | .subrange _ _ _, _ => by simp only [Kern.setFactor, Kern.isNormalized]
  | .mapped _ _ _, _ => by simp only [Kern.setFactor, Kern.isNormalized]
theorem setFactorList_allNormalized (f : K) : ∀ (ks : List (Kern K)) (i : Nat),
    allNormalized (setFactorList f ks i) = allNormalized ks
  | [], _ => by simp only [setFactorList]
  | k :: ks, i => by
      simp only [setFactorList]
      split
      · simp only [allNormalized, setFactor_isNormalized f k i]
      · simp only [allNormalized, setFactorList_allNormalized f ks (i - k.numScaled)]
end

mutual
/-- `setParameterVector` never changes it either (no constructor looks at a parameter value) -/
theorem setParams_isNormalized (exp : K → K) : ∀ (k : Kern K) (ps : List K),
    (k.setParams exp ps).isNormalized = k.isNormalized
  | .linear, _ => by simp only [Kern.setParams]
  | .poly _ _, _ => by simp only [Kern.setParams, Kern.isNormalized]
  | .monomial _, _ => by simp only [Kern.setParams]
  | .gauss _, _ => by simp only [Kern.setParams, Kern.isNormalized]
  | .ard _, _ => by simp only [Kern.setParams, Kern.isNormalized]
  | .normalized k, ps => by simp only [Kern.setParams, Kern.isNormalized]
  | .scaled _ k, ps => by simp only [Kern.setParams, Kern.isNormalized]
  | .wsum _ _ _, _ => by simp only [Kern.setParams, Kern.isNormalized]
  | .prod ks, ps => by simp only [Kern.setParams, Kern.isNormalized]; exact setParamsList_allNormalized exp ks ps
  | .subrange _ _ _, _ => by simp only [Kern.setParams, Kern.isNormalized]
  | .mapped _ _ _, _ => by simp only [Kern.setParams, Kern.isNormalized]
theorem setParamsList_allNormalized (exp : K → K) : ∀ (ks : List (Kern K)) (ps : List K),
    allNormalized (setParamsList exp ks ps) = allNormalized ks
  | [], _ => by simp only [setParamsList]
  | k :: ks, ps => by
      simp only [setParamsList, allNormalized, setParams_isNormalized exp k,
        setParamsList_allNormalized exp ks]
end

/-- the invariant of a live object: the cached flag is the flag of the current expression -/
def FlagSound (o : KObj K) : Prop := o.normFlag = o.expr.isNormalized

theorem construct_flagSound (k : Kern K) : FlagSound (KObj.construct k) := rfl

theorem apply_flagSound (exp : K → K) (o : KObj K) (h : FlagSound o) (r : Reconf K) : FlagSound (o.apply exp r) := by
  cases r with
  | setFactor i f =>
    simp only [FlagSound, KObj.apply] at h ⊢
    rw [setFactor_isNormalized f o.expr i]; exact h
  | setParams ps =>
    simp only [FlagSound, KObj.apply] at h ⊢
    rw [setParams_isNormalized exp o.expr ps]; exact h

/-- **history_flag_sound** — after EVERY history of reconfigurations (any number of `setFactor` calls on any
`ScaledKernel` of the expression with any factor, any number of `setParameterVector` calls with any vector)
the `IS_NORMALIZED` flag cached at construction is the flag of the current expression. -/
theorem history_flag_sound (exp : K → K) (k : Kern K) (h : List (Reconf K)) :
    FlagSound ((KObj.construct k).run exp h) := by
  have gen : ∀ (h : List (Reconf K)) (o : KObj K), FlagSound o → FlagSound (o.run exp h) := by
    intro h
    induction h with
    | nil => intro o ho; exact ho
    | cons r rs ih => intro o ho; exact ih (o.apply exp r) (apply_flagSound exp o ho r)
  exact gen h _ (construct_flagSound k)

/-- the feature distance of a live object with a sound flag is the feature distance of its expression -/
theorem featureDistanceSqr_of_flagSound (exp sqrt : K → K) (o : KObj K) (h : FlagSound o) (x z : Point K) :
    o.featureDistanceSqr exp sqrt x z = o.expr.featureDistanceSqr exp sqrt x z := by
  obtain ⟨e, fl⟩ := o
  simp only [FlagSound] at h
  subst h
  cases e <;> rfl

/-- body of the batch `featureDistanceSqr` of `AbstractKernelFunction`, for a given value of the flag -/
theorem featureDistanceBlock_aux (exp sqrt : K → K) (k : Kern K) (fl : Bool) (X1 X2 : Mat K) :
    (if fl then mapMat (· + two) (mapMat (· * (-two)) (k.evalBlock exp sqrt X1 X2))
     else List.zipWith (fun x row =>
        List.zipWith (fun v s => v + (k.eval exp sqrt x x + s)) row (X2.map fun z => k.eval exp sqrt z z))
        X1 (mapMat (· * (-two)) (k.evalBlock exp sqrt X1 X2))) =
      tab X1 X2 fun x z =>
        if fl then two - two * k.eval exp sqrt x z
        else k.eval exp sqrt x x - two * k.eval exp sqrt x z + k.eval exp sqrt z z := by
  rw [batch_eval_eq_single, mapMat_tab]
  cases fl with
  | true =>
    simp only [if_true, mapMat_tab]
    exact tab_congr _ _ _ _ fun x z => by ring
  | false =>
    simp only [Bool.false_eq_true, if_false]
    unfold tab
    rw [zipWith_left_map]
    apply List.map_congr_left
    intro x _
    rw [zipWith_map_same]
    apply List.map_congr_left
    intro z _
    ring

/-- **featureDistanceBlock_eq_single** — the batch version of `featureDistanceSqr` (used by kernel nearest
neighbours / kernel k-means) is the matrix of the single-pair feature distances, for every live object. -/
theorem featureDistanceBlock_eq_single (exp sqrt : K → K) (o : KObj K) (X1 X2 : Mat K) :
    o.featureDistanceBlock exp sqrt X1 X2 = tab X1 X2 (o.featureDistanceSqr exp sqrt) := by
  obtain ⟨e, fl⟩ := o
  cases e with
  | linear => rfl
  | poly d c => exact featureDistanceBlock_aux exp sqrt (.poly d c) fl X1 X2
  | monomial n => exact featureDistanceBlock_aux exp sqrt (.monomial n) fl X1 X2
  | gauss g => exact featureDistanceBlock_aux exp sqrt (.gauss g) fl X1 X2
  | ard gs => exact featureDistanceBlock_aux exp sqrt (.ard gs) fl X1 X2
  | normalized b => exact featureDistanceBlock_aux exp sqrt (.normalized b) fl X1 X2
  | scaled f b => exact featureDistanceBlock_aux exp sqrt (.scaled f b) fl X1 X2
  | wsum ws w ks => exact featureDistanceBlock_aux exp sqrt (.wsum ws w ks) fl X1 X2
  | prod ks => exact featureDistanceBlock_aux exp sqrt (.prod ks) fl X1 X2
  | subrange a b k => exact featureDistanceBlock_aux exp sqrt (.subrange a b k) fl X1 X2
  | mapped A b k => exact featureDistanceBlock_aux exp sqrt (.mapped A b k) fl X1 X2

end reconf

section reconfOrdered
variable {K : Type} [Field K] [LinearOrder K] [IsStrictOrderedRing K] (exp sqrt : K → K)

/-- **history_diag_one** — whenever a live kernel object *claims* to be normalised, after any history of
reconfigurations, `k(x,x) = 1` for its current parameters. -/
theorem history_diag_one (hexp : exp 0 = 1) (hsqrt : ∀ a : K, 0 ≤ a → sqrt a * sqrt a = a)
    (k : Kern K) (h : List (Reconf K)) (x : Point K)
    (hclaim : ((KObj.construct k).run exp h).normFlag = true)
    (hpos : DiagPos exp sqrt ((KObj.construct k).run exp h).expr x) :
    ((KObj.construct k).run exp h).expr.eval exp sqrt x x = 1 := by
  have hs := history_flag_sound exp k h
  simp only [FlagSound] at hs
  exact isNormalized_diag_one exp sqrt hexp hsqrt _ x (hs ▸ hclaim) hpos

/-- **history_featureDistance_def** — after any history of reconfigurations `featureDistanceSqr` of the live
object (which trusts the flag cached at construction) is `k(x,x) − 2k(x,z) + k(z,z)` for the CURRENT parameters. -/
theorem history_featureDistance_def (hexp : exp 0 = 1) (hsqrt : ∀ a : K, 0 ≤ a → sqrt a * sqrt a = a)
    (k : Kern K) (h : List (Reconf K)) (x z : Point K) (hlen : x.length = z.length)
    (hx : DiagPos exp sqrt ((KObj.construct k).run exp h).expr x)
    (hz : DiagPos exp sqrt ((KObj.construct k).run exp h).expr z) :
    ((KObj.construct k).run exp h).featureDistanceSqr exp sqrt x z =
      ((KObj.construct k).run exp h).expr.eval exp sqrt x x
        - two * ((KObj.construct k).run exp h).expr.eval exp sqrt x z
        + ((KObj.construct k).run exp h).expr.eval exp sqrt z z := by
  rw [featureDistanceSqr_of_flagSound exp sqrt _ (history_flag_sound exp k h)]
  exact featureDistance_def exp sqrt hexp hsqrt _ x z hlen hx hz

/-- why the flag must not depend on a parameter value: a `ScaledKernel` over a normalised base has diagonal
`factor`, so a flag decided for factor 1 is wrong after `setFactor 2` -/
theorem scaled_diag (hexp : exp 0 = 1) (f g : K) (x : Point K) :
    ((KObj.construct (.scaled 1 (.gauss g))).apply exp (.setFactor 0 f)).expr.eval exp sqrt x x = f := by
  simp [KObj.apply, KObj.construct, Kern.setFactor, Kern.eval, distSqr_self, hexp]

end reconfOrdered
end SharkVerif.C05

/-! ### non-vacuity of §14 (the situation of `NormalizeKernelUnitVariance`: default factor, rescaled later) -/
namespace SharkVerif.C05
open SharkVerif.Kernels

example : ((KObj.construct (.scaled 1 (.gauss (1/2)) : Kern ℝ)).run Real.exp
      [.setFactor 0 (5/2), .setParams [1/4]]).expr = .scaled (5/2) (.gauss (1/4)) := by
  simp [KObj.run, KObj.apply, KObj.construct, Kern.setFactor, Kern.setParams]

example : ((KObj.construct (.scaled 1 (.gauss (1/2)) : Kern ℝ)).run Real.exp
      [.setFactor 0 (5/2), .setParams [1/4]]).normFlag = false := by
  simp [KObj.run, KObj.apply, KObj.construct, Kern.isNormalized]

/-- a product of a normalised polynomial kernel and a rescaled Gaussian keeps claiming `IS_NORMALIZED` only if no
ScaledKernel is involved; here the claim survives a `setParameterVector` and the diagonal is 1 -/
example : ((KObj.construct (.prod [.gauss (1/2), .normalized (.poly 2 1)] : Kern ℝ)).run Real.exp
      [.setParams [2, 3]]).expr.eval Real.exp Real.sqrt [1, 2] [1, 2] = 1 := by
  refine history_diag_one Real.exp Real.sqrt Real.exp_zero real_sqrt_spec _ _ _ (by
    simp [KObj.run, KObj.apply, KObj.construct, Kern.isNormalized, allNormalized]) ?_
  simp [KObj.run, KObj.apply, KObj.construct, Kern.setParams, setParamsList, Kern.numParams, DiagPos, DiagPosList,
    Kern.eval, dot, powNat]
  norm_num

example : ((KObj.construct (.scaled 1 (.gauss (1/2)) : Kern ℝ)).run Real.exp [.setFactor 0 (5/2)]).featureDistanceSqr
      Real.exp Real.sqrt [1, 2] [3, -1] =
    5/2 * Real.exp (-(1/2) * 13) * 0 + (5/2 - two * (5/2 * Real.exp (-(1/2) * 13)) + 5/2) := by
  rw [history_featureDistance_def Real.exp Real.sqrt Real.exp_zero real_sqrt_spec _ _ _ _ (by simp)
    (by simp [KObj.run, KObj.apply, KObj.construct, Kern.setFactor, DiagPos])
    (by simp [KObj.run, KObj.apply, KObj.construct, Kern.setFactor, DiagPos])]
  simp [KObj.run, KObj.apply, KObj.construct, Kern.setFactor, Kern.eval, distSqr]
  norm_num

end SharkVerif.C05
