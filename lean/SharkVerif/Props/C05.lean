/-
C05 — Kernels are symmetric, positive semi-definite and correctly differentiable;
batch evaluation = single evaluations; Gram assembly is batch-partition independent.

Property theorems about the executable model `Model/Kernels.lean` (tied to the real
kernel classes by the correspondence check `checks/c05.py`).  All statements are
exact-arithmetic statements over an arbitrary field `K` (ordered where needed) with
`exp`/`sqrt` as arbitrary functions unless a hypothesis says otherwise; they quantify
over every kernel expression (any nesting), all points (lists of any length), all
parameters, all batch sizes and all batch partitions.
-/
import SharkVerif.Lemmas.Kernels
set_option linter.unusedSectionVars false
namespace SharkVerif.C05
open SharkVerif.Kernels

section field
variable {K : Type} [Field K] (exp sqrt : K → K)

/-! ## 1. Symmetry: `k(x,z) = k(z,x)` for every kernel expression -/

mutual
/-- **k_symm** — every kernel (any composition, any parameters, any `exp`/`sqrt`) is symmetric. -/
theorem k_symm : ∀ (k : Kern K) (x z : Point K), k.eval exp sqrt x z = k.eval exp sqrt z x
  | .linear, x, z => by simp only [Kern.eval]; exact dot_comm x z
  | .poly d c, x, z => by simp only [Kern.eval, dot_comm x z]
  | .monomial n, x, z => by simp only [Kern.eval, dot_comm x z]
  | .gauss g, x, z => by simp only [Kern.eval, distSqr_comm x z]
  | .ard gs, x, z => by simp only [Kern.eval, mahal_comm gs x z]
  | .normalized k, x, z => by
      simp only [Kern.eval]; rw [k_symm k x z]; ring
  | .scaled f k, x, z => by simp only [Kern.eval]; rw [k_symm k x z]
  | .wsum ws s ks, x, z => by simp only [Kern.eval]; rw [evalList_symm ks x z]
  | .prod ks, x, z => by simp only [Kern.eval]; rw [evalList_symm ks x z]
  | .subrange a b k, x, z => by simp only [Kern.eval]; rw [k_symm k]
theorem evalList_symm : ∀ (ks : List (Kern K)) (x z : Point K),
    evalList exp sqrt ks x z = evalList exp sqrt ks z x
  | [], _, _ => by simp only [evalList]
  | k :: ks, x, z => by simp only [evalList]; rw [k_symm k x z, evalList_symm ks x z]
end

theorem evalList_eq_map : ∀ (ks : List (Kern K)) (x z : Point K),
    evalList exp sqrt ks x z = ks.map fun k => k.eval exp sqrt x z
  | [], _, _ => by simp only [evalList, List.map_nil]
  | k :: ks, x, z => by simp only [evalList, List.map_cons]; rw [evalList_eq_map ks x z]

/-! ## 2. Block evaluation = matrix of single evaluations -/

mutual
/-- **batch_eval_eq_single** (stateless path, the one `operator()`, the Gram assembly and
`KernelExpansion` use; includes the repaired stateless path of `NormalizedKernel`):
entry `(i,j)` of the block is `k(x1_i, x2_j)`, for every kernel expression and all batches. -/
theorem batch_eval_eq_single : ∀ (k : Kern K) (X1 X2 : Mat K),
    k.evalBlock exp sqrt X1 X2 = tab X1 X2 (k.eval exp sqrt)
  | .linear, X1, X2 => by simp only [Kern.evalBlock, gemmT_eq_tab]; rfl
  | .poly d c, X1, X2 => by
      simp only [Kern.evalBlock, gemmT_eq_tab, mapMat_tab]
      split
      · exact tab_congr _ _ _ _ fun x z => by simp only [Kern.eval]
      · rename_i h
        have hd : d = 1 := by simpa using h
        subst hd
        exact tab_congr _ _ _ _ fun x z => by simp only [Kern.eval, powNat_one]
  | .monomial n, X1, X2 => by
      simp only [Kern.evalBlock, gemmT_eq_tab, mapMat_tab]
      split
      · exact tab_congr _ _ _ _ fun x z => by simp only [Kern.eval]
      · rename_i h
        have hd : n = 1 := by simpa using h
        subst hd
        exact tab_congr _ _ _ _ fun x z => by simp only [Kern.eval, powNat_one]
  | .gauss g, X1, X2 => by
      simp only [Kern.evalBlock]
      show mapMat _ (tab X1 X2 distSqr) = _
      rw [mapMat_tab]
      exact tab_congr _ _ _ _ fun x z => by simp only [Kern.eval, distSqr_comm x z]
  | .ard gs, X1, X2 => by simp only [Kern.evalBlock]; rfl
  | .normalized k, X1, X2 => by
      simp only [Kern.evalBlock]
      rw [batch_eval_eq_single k X1 X2]
      unfold tab
      rw [zipWith_left_map]
      apply List.map_congr_left
      intro x _
      rw [zipWith_map_same]
      apply List.map_congr_left
      intro z _
      simp only [Kern.eval]
      rw [div_div]
  | .scaled f k, X1, X2 => by
      simp only [Kern.evalBlock]
      rw [batch_eval_eq_single k X1 X2, mapMat_tab]
      exact tab_congr _ _ _ _ fun x z => by simp only [Kern.eval]; ring
  | .wsum ws s ks, X1, X2 => by
      simp only [Kern.evalBlock]
      rw [batch_evalList_eq ks X1 X2, constMat_eq_tab, wfoldMat_tab, mapMat_tab]
      exact tab_congr _ _ _ _ fun x z => by
        simp only [Kern.eval, evalList_eq_map, List.map_map, Function.comp_def]
  | .prod ks, X1, X2 => by
      simp only [Kern.evalBlock]
      rw [batch_evalList_eq ks X1 X2]
      cases ks with
      | nil =>
        simp only [List.map_nil, constMat_eq_tab]
        exact tab_congr _ _ _ _ fun x z => by simp [Kern.eval, evalList, pfold]
      | cons k ks =>
        simp only [List.map_cons]
        rw [pfoldMat_tab]
        exact tab_congr _ _ _ _ fun x z => by
          simp only [Kern.eval, evalList, pfold, evalList_eq_map, List.map_map, Function.comp_def, one_mul]
  | .subrange a b k, X1, X2 => by
      simp only [Kern.evalBlock]
      rw [batch_eval_eq_single k, tab_map]
      exact tab_congr _ _ _ _ fun x z => by simp only [Kern.eval]
theorem batch_evalList_eq : ∀ (ks : List (Kern K)) (X1 X2 : Mat K),
    evalBlockList exp sqrt ks X1 X2 = (ks.map fun k => k.eval exp sqrt).map (tab X1 X2)
  | [], _, _ => by simp only [evalBlockList, List.map_nil]
  | k :: ks, X1, X2 => by
      simp only [evalBlockList, List.map_cons]
      rw [batch_eval_eq_single k X1 X2, batch_evalList_eq ks X1 X2]
end

mutual
/-- **batch_eval_eq_single**, stateful path (`eval(batchX1, batchX2, result, state)`): same statement. -/
theorem batch_evalS_eq_single : ∀ (k : Kern K) (X1 X2 : Mat K),
    k.evalBlockS exp sqrt X1 X2 = tab X1 X2 (k.eval exp sqrt)
  | .linear, X1, X2 => by simp only [Kern.evalBlockS, gemmT_eq_tab]; rfl
  | .poly d c, X1, X2 => by
      simp only [Kern.evalBlockS, gemmT_eq_tab, mapMat_tab]
      split
      · exact tab_congr _ _ _ _ fun x z => by simp only [Kern.eval]
      · rename_i h
        have hd : d = 1 := by simpa using h
        subst hd
        exact tab_congr _ _ _ _ fun x z => by simp only [Kern.eval, powNat_one]
  | .monomial n, X1, X2 => by
      simp only [Kern.evalBlockS, gemmT_eq_tab, mapMat_tab]
      split
      · exact tab_congr _ _ _ _ fun x z => by simp only [Kern.eval]
      · rename_i h
        have hd : n = 1 := by simpa using h
        subst hd
        exact tab_congr _ _ _ _ fun x z => by simp only [Kern.eval, powNat_one]
  | .gauss g, X1, X2 => by
      simp only [Kern.evalBlockS]
      show mapMat _ (tab X1 X2 distSqr) = _
      rw [mapMat_tab]
      exact tab_congr _ _ _ _ fun x z => by simp only [Kern.eval, distSqr_comm x z]
  | .ard gs, X1, X2 => by simp only [Kern.evalBlockS]; rfl
  | .normalized k, X1, X2 => by
      simp only [Kern.evalBlockS]
      have hdiag : ∀ x : Point K, ((k.evalBlockS exp sqrt [x] [x]).headD []).headD 0 = k.eval exp sqrt x x := by
        intro x; rw [batch_evalS_eq_single k [x] [x]]; rfl
      simp only [hdiag]
      rw [batch_evalS_eq_single k X1 X2]
      unfold tab
      rw [zipWith_left_map]
      apply List.map_congr_left
      intro x _
      rw [zipWith_map_same]
      apply List.map_congr_left
      intro z _
      simp only [Kern.eval]
      rw [div_div]
  | .scaled f k, X1, X2 => by
      simp only [Kern.evalBlockS]
      rw [batch_evalS_eq_single k X1 X2, mapMat_tab]
      exact tab_congr _ _ _ _ fun x z => by simp only [Kern.eval]; ring
  | .wsum ws s ks, X1, X2 => by
      simp only [Kern.evalBlockS]
      rw [batch_evalSList_eq ks X1 X2, constMat_eq_tab, wfoldMat_tab, mapMat_tab]
      exact tab_congr _ _ _ _ fun x z => by
        simp only [Kern.eval, evalList_eq_map, List.map_map, Function.comp_def]
  | .prod ks, X1, X2 => by
      have h := batch_eval_eq_single exp sqrt (.prod ks) X1 X2
      simp only [Kern.evalBlock] at h
      simp only [Kern.evalBlockS]
      exact h
  | .subrange a b k, X1, X2 => by
      simp only [Kern.evalBlockS]
      rw [batch_evalS_eq_single k, tab_map]
      exact tab_congr _ _ _ _ fun x z => by simp only [Kern.eval]
theorem batch_evalSList_eq : ∀ (ks : List (Kern K)) (X1 X2 : Mat K),
    evalBlockSList exp sqrt ks X1 X2 = (ks.map fun k => k.eval exp sqrt).map (tab X1 X2)
  | [], _, _ => by simp only [evalBlockSList, List.map_nil]
  | k :: ks, X1, X2 => by
      simp only [evalBlockSList, List.map_cons]
      rw [batch_evalS_eq_single k X1 X2, batch_evalSList_eq ks X1 X2]
end

/-- the three evaluation paths agree (in exact arithmetic) -/
theorem stateless_eq_stateful (k : Kern K) (X1 X2 : Mat K) :
    k.evalBlock exp sqrt X1 X2 = k.evalBlockS exp sqrt X1 X2 := by
  rw [batch_eval_eq_single, batch_evalS_eq_single]

/-- entry form of `batch_eval_eq_single`: entry `(i,j)` of the block is `k(X1[i], X2[j])` -/
theorem batch_eval_entry (k : Kern K) (X1 X2 : Mat K) (i j : Nat) (hi : i < X1.length) (hj : j < X2.length) :
    ((k.evalBlock exp sqrt X1 X2).getD i []).getD j 0 = k.eval exp sqrt (X1[i]) (X2[j]) := by
  rw [batch_eval_eq_single]
  exact getD_tab_entry (k.eval exp sqrt) X1 X2 i j hi hj

end field
end SharkVerif.C05

namespace SharkVerif.C05
open SharkVerif.Kernels

/-! ## 3. Blockwise Gram assembly is correct for EVERY batch partition -/
section gram
variable {α β : Type} [Add α] [OfNat α 0]

/-- **gram_assembly_correct** — `calculateRegularizedKernelMatrix`: for every list of batches
(= every batch partition of the dataset `batches.flatten`, including empty batches), every block
evaluation `kb` that returns the matrix of single evaluations of `κ`, every regulariser: entry
`(r,c)` of the assembled matrix is `κ(x_r, x_c)`, plus `reg` on the diagonal. -/
theorem gram_assembly_correct (κ : β → β → α) (kb : List β → List β → List (List α))
    (hkb : ∀ b1 b2, kb b1 b2 = b1.map fun x => b2.map fun z => κ x z)
    (reg : α) (batches : List (List β)) (r c : Nat)
    (hr : r < batches.flatten.length) (hc : c < batches.flatten.length) :
    regularizedGram kb reg batches r c =
      if r = c then κ (batches.flatten[r]) (batches.flatten[c]) + reg
      else κ (batches.flatten[r]) (batches.flatten[c]) := by
  have h := fillGram_in κ kb hkb reg batches batches 0 (fun _ _ => 0) r c hr hc
  simpa [regularizedGram] using h

/-- **gram_partition_independent** — two batch partitions of the same data give the same matrix. -/
theorem gram_partition_independent (κ : β → β → α) (kb : List β → List β → List (List α))
    (hkb : ∀ b1 b2, kb b1 b2 = b1.map fun x => b2.map fun z => κ x z)
    (reg : α) (p q : List (List β)) (hpq : p.flatten = q.flatten) (r c : Nat)
    (hr : r < p.flatten.length) (hc : c < p.flatten.length) :
    regularizedGram kb reg p r c = regularizedGram kb reg q r c := by
  rw [gram_assembly_correct κ kb hkb reg p r c hr hc,
    gram_assembly_correct κ kb hkb reg q r c (hpq ▸ hr) (hpq ▸ hc)]
  simp only [hpq]

/-- `calculateMixedKernelMatrix`: entry `(r,c)` is `κ(x_r, y_c)` for every pair of batch partitions. -/
theorem mixed_gram_assembly_correct (κ : β → β → α) (kb : List β → List β → List (List α))
    (hkb : ∀ b1 b2, kb b1 b2 = b1.map fun x => b2.map fun z => κ x z)
    (rows cols : List (List β)) (r c : Nat)
    (hr : r < rows.flatten.length) (hc : c < cols.flatten.length) :
    mixedGram kb rows cols r c = κ (rows.flatten[r]) (cols.flatten[c]) := by
  have h := fillMixed_in κ kb hkb cols rows 0 (fun _ _ => (0 : α)) r c hr hc
  simpa [mixedGram] using h

theorem mixed_gram_partition_independent (κ : β → β → α) (kb : List β → List β → List (List α))
    (hkb : ∀ b1 b2, kb b1 b2 = b1.map fun x => b2.map fun z => κ x z)
    (p p' q q' : List (List β)) (hp : p.flatten = p'.flatten) (hq : q.flatten = q'.flatten) (r c : Nat)
    (hr : r < p.flatten.length) (hc : c < q.flatten.length) :
    mixedGram kb p q r c = mixedGram kb p' q' r c := by
  rw [mixed_gram_assembly_correct κ kb hkb p q r c hr hc,
    mixed_gram_assembly_correct κ kb hkb p' q' r c (hp ▸ hr) (hq ▸ hc)]
  simp only [hp, hq]

/-- the partitions the correspondence generates: consecutive batches of the given sizes -/
theorem splitSizes_flatten : ∀ (sizes : List Nat) (xs : List β), sizes.sum = xs.length →
    (splitSizes xs sizes).flatten = xs
  | [], xs, h => by
      have : xs = [] := List.eq_nil_of_length_eq_zero (by simpa using h.symm)
      simp [splitSizes, this]
  | s :: ss, xs, h => by
      have hs : s ≤ xs.length := by simp only [List.sum_cons] at h; omega
      have : ss.sum = (xs.drop s).length := by simp only [List.sum_cons] at h; simp; omega
      simp only [splitSizes, List.flatten_cons]
      rw [splitSizes_flatten ss (xs.drop s) this, List.take_append_drop]

/-- DiscreteKernel (as repaired): block evaluation = matrix of single evaluations -/
theorem discrete_batch_eval_eq_single (t : Mat α) (is js : List Nat) :
    discreteBlock t is js = is.map fun i => js.map fun j => discreteEval t i j := rfl

end gram

section field
variable {K : Type} [Field K] (exp sqrt : K → K)

/-- Gram assembly with the real block evaluation of any kernel expression: entry `(r,c)` is the
single evaluation `k(x_r,x_c)` (+ regulariser on the diagonal), for every batch partition. -/
theorem kernel_gram_assembly_correct (k : Kern K) (reg : K) (batches : List (Mat K)) (r c : Nat)
    (hr : r < batches.flatten.length) (hc : c < batches.flatten.length) :
    regularizedGram (k.evalBlock exp sqrt) reg batches r c =
      if r = c then k.eval exp sqrt (batches.flatten[r]) (batches.flatten[c]) + reg
      else k.eval exp sqrt (batches.flatten[r]) (batches.flatten[c]) :=
  gram_assembly_correct (k.eval exp sqrt) _ (fun b1 b2 => batch_eval_eq_single exp sqrt k b1 b2) reg batches r c hr hc

theorem kernel_gram_partition_independent (k : Kern K) (reg : K) (p q : List (Mat K))
    (hpq : p.flatten = q.flatten) (r c : Nat) (hr : r < p.flatten.length) (hc : c < p.flatten.length) :
    regularizedGram (k.evalBlock exp sqrt) reg p r c = regularizedGram (k.evalBlock exp sqrt) reg q r c :=
  gram_partition_independent (k.eval exp sqrt) _ (fun b1 b2 => batch_eval_eq_single exp sqrt k b1 b2) reg p q hpq r c hr hc

/-- the assembled Gram matrix is symmetric (off the regulariser it is `k_symm`) -/
theorem kernel_gram_symm (k : Kern K) (reg : K) (batches : List (Mat K)) (r c : Nat)
    (hr : r < batches.flatten.length) (hc : c < batches.flatten.length) :
    regularizedGram (k.evalBlock exp sqrt) reg batches r c =
      regularizedGram (k.evalBlock exp sqrt) reg batches c r := by
  rw [kernel_gram_assembly_correct exp sqrt k reg batches r c hr hc,
    kernel_gram_assembly_correct exp sqrt k reg batches c r hc hr]
  by_cases h : r = c
  · subst h; rfl
  · rw [if_neg h, if_neg (Ne.symm h), k_symm]

end field
end SharkVerif.C05
