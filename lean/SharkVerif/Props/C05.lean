/-
C05 — kernels are symmetric, positive semi-definite, batch-independent (work in progress).
-/
import SharkVerif.Model.Kernels
namespace SharkVerif.C05
open SharkVerif.Kernels

/-- DiscreteKernel (as repaired): block evaluation = matrix of single evaluations -/
theorem discrete_batch_eval_eq_single {α : Type} [OfNat α 0] (t : Mat α) (is js : List Nat) :
    discreteBlock t is js = is.map fun i => js.map fun j => discreteEval t i j := rfl

end SharkVerif.C05
