/-
C14 — multi-objective optimizers keep a consistent, feasible, elitist population.
Property theorems about the selection model `Model/MOO.lean`.
-/
import SharkVerif.Lemmas.MOO
import SharkVerif.Lemmas.Hypervolume
namespace SharkVerif.C14
open SharkVerif.MOO SharkVerif.Pareto SharkVerif.HV

/-- **C14 (rank monotonicity)**: whatever the indicator returns, `IndicatorBasedSelection` never
keeps an individual of worse non-domination rank while discarding one of better rank. -/
theorem selection_rank_monotone (ind : Indicator) (ranks : List Nat) (mu : Nat) (i j : Nat)
    (hi : i < ranks.length) (hj : j < ranks.length)
    (hsel : (select ind ranks mu).getD i false = true) (hun : (select ind ranks mu).getD j true = false) :
    rankAt ranks i ≤ rankAt ranks j := by
  unfold select at hsel hun
  have hn : ¬ ranks.length = 0 := by omega
  simp only [hn, if_false] at hsel hun
  generalize dropFronts ranks mu (List.foldl max 0 ranks) ranks.length = rp at hsel hun
  obtain ⟨r, p⟩ := rp
  simp only [List.getD_eq_getElem?_getD, List.getElem?_map, List.getElem?_range hi,
    List.getElem?_range hj, Option.map_some, Option.getD_some, Bool.or_eq_true, decide_eq_true_eq,
    Bool.and_eq_true, beq_iff_eq, Bool.or_eq_false_iff, decide_eq_false_iff_not] at hsel hun
  rcases hsel with h | h
  · omega
  · have := h.1; omega


/-- **C14 (selection count)**: for every rank vector with ranks `≥ 1` (duplicates, single-front
populations and `mu = n` included), every `1 ≤ mu ≤ n` and every indicator that returns `K`
distinct positions of the front it is given, exactly `mu` individuals are marked selected. -/
theorem selection_count (ind : Indicator) (hind : IndOK ind) (ranks : List Nat) (mu : Nat)
    (hmu : 1 ≤ mu) (hn : mu ≤ ranks.length) (hpos : ∀ i, i < ranks.length → 1 ≤ rankAt ranks i) :
    (select ind ranks mu).count true = mu :=
  select_count ind hind ranks mu hmu hn hpos

/-- the hypothesis on the ranks is what `nonDominatedSort` delivers (C13): `rankSpec ≥ 1` -/
theorem selection_count_on_sorted_population (ind : Indicator) (hind : IndOK ind) (pts : List Pt) (m mu : Nat)
    (hd : ∀ p ∈ pts, p.length = m) (hmu : 1 ≤ mu) (hn : mu ≤ pts.length) :
    (select ind (fastSort pts) mu).count true = mu := by
  have hfs : fastSort pts = pts.map (rankSpec pts) := fastSort_eq hd
  apply select_count ind hind _ mu hmu (by rw [hfs]; simpa using hn)
  intro i hi
  rw [hfs] at hi ⊢
  simp only [List.length_map] at hi
  unfold rankAt
  rw [List.getD_eq_getElem?_getD, List.getElem?_map, List.getElem?_eq_getElem hi]
  exact rankSpec_pos _ _

/-- non-vacuity: an indicator satisfying the contract (deselect the first `K` positions) -/
def firstK : Indicator := fun _ _ K => List.range K

theorem firstK_ok : IndOK firstK := by
  intro front archive K hK
  refine ⟨by simp [firstK], List.nodup_range, fun x hx => ?_⟩
  have := List.mem_range.mp hx; omega

example : select firstK [1, 2, 1, 3, 2, 1] 4 = [true, false, true, false, true, true] := by decide

/-- the contract on the indicator cannot be dropped: an indicator that returns a position twice
(what `NSGA3Indicator` does on degenerate fronts, finding C14-NSGA3-DEGENERATE) breaks the count -/
theorem selection_count_needs_distinct_positions :
    (select (fun _ _ K => List.replicate K 0) [1, 1, 1, 1, 1] 3).count true = 4 := by decide

/-- **C14 (whole better fronts are kept)**: every individual whose rank is better than that of some
selected individual is selected. -/
theorem selection_keeps_better_fronts (ind : Indicator) (ranks : List Nat) (mu : Nat) (i j : Nat)
    (hi : i < ranks.length) (hj : j < ranks.length)
    (hsel : (select ind ranks mu).getD i false = true) (hlt : rankAt ranks j < rankAt ranks i) :
    (select ind ranks mu).getD j false = true := by
  unfold select at hsel ⊢
  have hn : ¬ ranks.length = 0 := by omega
  simp only [hn, if_false] at hsel ⊢
  generalize dropFronts ranks mu (List.foldl max 0 ranks) ranks.length = rp at hsel ⊢
  obtain ⟨r, p⟩ := rp
  simp only [List.getD_eq_getElem?_getD, List.getElem?_map, List.getElem?_range hi,
    List.getElem?_range hj, Option.map_some, Option.getD_some, Bool.or_eq_true, decide_eq_true_eq,
    Bool.and_eq_true, beq_iff_eq] at hsel ⊢
  left
  rcases hsel with h | h
  · omega
  · have := h.1; omega

/-! ### ElitistSelection -/

/-- **C14 (elitist selection)**: for every key-sorted order of the individuals (every outcome of
the unstable `std::sort`) the first `mu` are taken: exactly `mu`, and none of them has a larger
key than an individual left out. -/
theorem elitist_selects_best (keys : List Int) (order : List Nat) (mu : Nat)
    (hsorted : order.Pairwise fun a b => keys.getD a 0 ≤ keys.getD b 0) (hmu : mu ≤ order.length) :
    (elitist order mu).length = mu ∧
    ∀ a ∈ elitist order mu, ∀ b ∈ order.drop mu, keys.getD a 0 ≤ keys.getD b 0 := by
  refine ⟨by simp [elitist, hmu], ?_⟩
  intro a ha b hb
  have := List.take_append_drop mu order
  rw [← this, List.pairwise_append] at hsorted
  exact hsorted.2.2 a ha b hb

example : elitist [1, 3, 2, 0] 2 = [1, 3] ∧
    [1, 3, 2, 0].Pairwise (fun a b => [5, 1, 3, 1].getD a (0 : Int) ≤ [5, 1, 3, 1].getD b 0) := by decide


/-! ### steady-state hypervolume monotonicity (specification level, uses the C13 lemmas) -/

/-- **C14 (steady-state hypervolume never decreases)**: let `P` be the current population, `o` the
offspring, and let the individual with index `i` of `P ++ [o]` be the one discarded.  If either
(a) it is weakly dominated by another member of `P ++ [o]` — which is the case whenever
`IndicatorBasedSelection` discards from a front of rank `≥ 2`, and for duplicates — or (b) its
hypervolume contribution is at most the offspring's (least contributor of a single front,
`HypervolumeIndicator` with a fixed reference point `r`, C13), then the dominated hypervolume
of the next population is at least that of `P`. -/
theorem steady_state_hv_monotone (m : Nat) (P : List Pt) (o r : Pt) (i : Nat)
    (hr : r.length = m) (hP : ∀ p ∈ P, p.length = m) (ho : o.length = m)
    (hi : i < (P ++ [o]).length)
    (hcase : (∃ j, ∃ hj : j < (P ++ [o]).length, j ≠ i ∧ leAll ((P ++ [o])[j]) ((P ++ [o])[i]) = true) ∨
             contribSpec (P ++ [o]) r i ≤ contribSpec (P ++ [o]) r P.length) :
    hvSpec P r ≤ hvSpec ((P ++ [o]).eraseIdx i) r := by
  have hQ : ∀ q ∈ P ++ [o], q.length = m := by
    intro q hq
    rcases List.mem_append.mp hq with h | h
    · exact hP q h
    · simp at h; rw [h]; exact ho
  rcases hcase with ⟨j, hj, hne, hle⟩ | h
  · have hmem : (P ++ [o])[j] ∈ (P ++ [o]).eraseIdx i :=
      List.mem_eraseIdx_iff_getElem.mpr ⟨j, hj, hne, rfl⟩
    have hsplit : P ++ [o] = (P ++ [o]).take i ++ (P ++ [o])[i] :: (P ++ [o]).drop (i + 1) := by
      rw [List.getElem_cons_drop, List.take_append_drop]
    have herase : (P ++ [o]).eraseIdx i = (P ++ [o]).take i ++ (P ++ [o]).drop (i + 1) :=
      List.eraseIdx_eq_take_drop_succ ..
    have h1 : hvSpec ((P ++ [o]).eraseIdx i) r = hvSpec (P ++ [o]) r := by
      rw [herase] at hmem ⊢
      have h2 := hvSpec_insert_dominated (r := r) hmem hle
      rw [← hsplit] at h2
      exact h2.symm
    rw [h1]
    exact hvSpec_mono_subset hr hQ (fun p hp => List.mem_append.mpr (Or.inl hp))
  · unfold contribSpec at h
    have e : (P ++ [o]).eraseIdx P.length = P := by
      rw [List.eraseIdx_append_of_length_le (Nat.le_refl _)]; simp
    rw [e] at h
    omega

example : hvSpec [[1, 3], [3, 1]] [4, 4] ≤ hvSpec ((([[1, 3], [3, 1]] : List Pt) ++ [[2, 2]]).eraseIdx 0) [4, 4] ∧
    contribSpec (([[1, 3], [3, 1]] : List Pt) ++ [[2, 2]]) [4, 4] 0 ≤
      contribSpec (([[1, 3], [3, 1]] : List Pt) ++ [[2, 2]]) [4, 4] 2 := by
  decide

end SharkVerif.C14
