/-
C14 — multi-objective optimizers keep a consistent, feasible, elitist population.
Property theorems about the selection model `Model/MOO.lean`.
-/
import SharkVerif.Model.MOO
namespace SharkVerif.C14
open SharkVerif.MOO

/-- **C14 (rank monotonicity)**: whatever the indicator returns, `IndicatorBasedSelection` never
keeps an individual of worse non-domination rank while discarding one of better rank. -/
theorem selection_rank_monotone (ind : Indicator) (ranks : List Nat) (mu : Nat) (i j : Nat)
    (hi : i < ranks.length) (hj : j < ranks.length)
    (hsel : (select ind ranks mu).getD i false = true) (hun : (select ind ranks mu).getD j true = false) :
    rankAt ranks i ≤ rankAt ranks j := by
  unfold select at hsel hun
  have hn : ¬ ranks.length = 0 := by omega
  simp only [hn, if_false] at hsel hun
  generalize dropFronts ranks mu (List.foldl max 0 ranks) ranks.length = rp at hsel hun
  obtain ⟨r, p⟩ := rp
  simp only [List.getD_eq_getElem?_getD, List.getElem?_map, List.getElem?_range hi,
    List.getElem?_range hj, Option.map_some, Option.getD_some, Bool.or_eq_true, decide_eq_true_eq,
    Bool.and_eq_true, beq_iff_eq, Bool.or_eq_false_iff, decide_eq_false_iff_not] at hsel hun
  rcases hsel with h | h
  · omega
  · have := h.1; omega

end SharkVerif.C14
