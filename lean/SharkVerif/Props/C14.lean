/-
C14 — multi-objective optimizers keep a consistent, feasible, elitist population.
Property theorems about the selection model `Model/MOO.lean`.
-/
import SharkVerif.Lemmas.MOO
import SharkVerif.Lemmas.Hypervolume
import SharkVerif.Lemmas.MOOInd
import SharkVerif.Lemmas.MOOStep
import SharkVerif.Lemmas.MOOElit
import SharkVerif.Lemmas.MOOHv
import SharkVerif.Lemmas.Contrib
import SharkVerif.Lemmas.MOONsga3
namespace SharkVerif.C14
open SharkVerif.MOO SharkVerif.Pareto SharkVerif.HV

/-- **C14 (rank monotonicity)**: whatever the indicator returns, `IndicatorBasedSelection` never
keeps an individual of worse non-domination rank while discarding one of better rank. -/
theorem selection_rank_monotone (ind : Indicator) (ranks : List Nat) (mu : Nat) (i j : Nat)
    (hi : i < ranks.length) (hj : j < ranks.length)
    (hsel : (select ind ranks mu).getD i false = true) (hun : (select ind ranks mu).getD j true = false) :
    rankAt ranks i ≤ rankAt ranks j := by
  unfold select at hsel hun
  have hn : ¬ ranks.length = 0 := by omega
  simp only [hn, if_false] at hsel hun
  generalize dropFronts ranks mu (List.foldl max 0 ranks) ranks.length = rp at hsel hun
  obtain ⟨r, p⟩ := rp
  simp only [List.getD_eq_getElem?_getD, List.getElem?_map, List.getElem?_range hi,
    List.getElem?_range hj, Option.map_some, Option.getD_some, Bool.or_eq_true, decide_eq_true_eq,
    Bool.and_eq_true, beq_iff_eq, Bool.or_eq_false_iff, decide_eq_false_iff_not] at hsel hun
  rcases hsel with h | h
  · omega
  · have := h.1; omega


/-- **C14 (selection count)**: for every rank vector with ranks `≥ 1` (duplicates, single-front
populations and `mu = n` included), every `1 ≤ mu ≤ n` and every indicator that returns `K`
distinct positions of the front it is given, exactly `mu` individuals are marked selected. -/
theorem selection_count (ind : Indicator) (hind : IndOK ind) (ranks : List Nat) (mu : Nat)
    (hmu : 1 ≤ mu) (hn : mu ≤ ranks.length) (hpos : ∀ i, i < ranks.length → 1 ≤ rankAt ranks i) :
    (select ind ranks mu).count true = mu :=
  select_count ind hind ranks mu hmu hn hpos

/-- the hypothesis on the ranks is what `nonDominatedSort` delivers (C13): `rankSpec ≥ 1` -/
theorem selection_count_on_sorted_population (ind : Indicator) (hind : IndOK ind) (pts : List Pt) (m mu : Nat)
    (hd : ∀ p ∈ pts, p.length = m) (hmu : 1 ≤ mu) (hn : mu ≤ pts.length) :
    (select ind (fastSort pts) mu).count true = mu := by
  have hfs : fastSort pts = pts.map (rankSpec pts) := fastSort_eq hd
  apply select_count ind hind _ mu hmu (by rw [hfs]; simpa using hn)
  intro i hi
  rw [hfs] at hi ⊢
  simp only [List.length_map] at hi
  unfold rankAt
  rw [List.getD_eq_getElem?_getD, List.getElem?_map, List.getElem?_eq_getElem hi]
  exact rankSpec_pos _ _

/-- non-vacuity: an indicator satisfying the contract (deselect the first `K` positions) -/
def firstK : Indicator := fun _ _ K => List.range K

theorem firstK_ok : IndOK firstK := by
  intro front archive K hK
  refine ⟨by simp [firstK], List.nodup_range, fun x hx => ?_⟩
  have := List.mem_range.mp hx; omega

example : select firstK [1, 2, 1, 3, 2, 1] 4 = [true, false, true, false, true, true] := by decide

/-- the contract on the indicator cannot be dropped: an indicator that returns a position twice
(what `NSGA3Indicator` does on degenerate fronts, finding C14-NSGA3-DEGENERATE) breaks the count -/
theorem selection_count_needs_distinct_positions :
    (select (fun _ _ K => List.replicate K 0) [1, 1, 1, 1, 1] 3).count true = 4 := by decide

/-- **C14 (whole better fronts are kept)**: every individual whose rank is better than that of some
selected individual is selected. -/
theorem selection_keeps_better_fronts (ind : Indicator) (ranks : List Nat) (mu : Nat) (i j : Nat)
    (hi : i < ranks.length) (hj : j < ranks.length)
    (hsel : (select ind ranks mu).getD i false = true) (hlt : rankAt ranks j < rankAt ranks i) :
    (select ind ranks mu).getD j false = true := by
  unfold select at hsel ⊢
  have hn : ¬ ranks.length = 0 := by omega
  simp only [hn, if_false] at hsel ⊢
  generalize dropFronts ranks mu (List.foldl max 0 ranks) ranks.length = rp at hsel ⊢
  obtain ⟨r, p⟩ := rp
  simp only [List.getD_eq_getElem?_getD, List.getElem?_map, List.getElem?_range hi,
    List.getElem?_range hj, Option.map_some, Option.getD_some, Bool.or_eq_true, decide_eq_true_eq,
    Bool.and_eq_true, beq_iff_eq] at hsel ⊢
  left
  rcases hsel with h | h
  · omega
  · have := h.1; omega

/-! ### ElitistSelection -/

/-- **C14 (elitist selection)**: for every key-sorted order of the individuals (every outcome of
the unstable `std::sort`) the first `mu` are taken: exactly `mu`, and none of them has a larger
key than an individual left out. -/
theorem elitist_selects_best (keys : List Int) (order : List Nat) (mu : Nat)
    (hsorted : order.Pairwise fun a b => keys.getD a 0 ≤ keys.getD b 0) (hmu : mu ≤ order.length) :
    (elitist order mu).length = mu ∧
    ∀ a ∈ elitist order mu, ∀ b ∈ order.drop mu, keys.getD a 0 ≤ keys.getD b 0 := by
  refine ⟨by simp [elitist, hmu], ?_⟩
  intro a ha b hb
  have := List.take_append_drop mu order
  rw [← this, List.pairwise_append] at hsorted
  exact hsorted.2.2 a ha b hb

example : elitist [1, 3, 2, 0] 2 = [1, 3] ∧
    [1, 3, 2, 0].Pairwise (fun a b => [5, 1, 3, 1].getD a (0 : Int) ≤ [5, 1, 3, 1].getD b 0) := by decide


/-! ### steady-state hypervolume monotonicity (specification level, uses the C13 lemmas) -/

/-- **C14 (steady-state hypervolume never decreases)**: let `P` be the current population, `o` the
offspring, and let the individual with index `i` of `P ++ [o]` be the one discarded.  If either
(a) it is weakly dominated by another member of `P ++ [o]` — which is the case whenever
`IndicatorBasedSelection` discards from a front of rank `≥ 2`, and for duplicates — or (b) its
hypervolume contribution is at most the offspring's (least contributor of a single front,
`HypervolumeIndicator` with a fixed reference point `r`, C13), then the dominated hypervolume
of the next population is at least that of `P`. -/
theorem steady_state_hv_monotone (m : Nat) (P : List Pt) (o r : Pt) (i : Nat)
    (hr : r.length = m) (hP : ∀ p ∈ P, p.length = m) (ho : o.length = m)
    (hi : i < (P ++ [o]).length)
    (hcase : (∃ j, ∃ hj : j < (P ++ [o]).length, j ≠ i ∧ leAll ((P ++ [o])[j]) ((P ++ [o])[i]) = true) ∨
             contribSpec (P ++ [o]) r i ≤ contribSpec (P ++ [o]) r P.length) :
    hvSpec P r ≤ hvSpec ((P ++ [o]).eraseIdx i) r := by
  have hQ : ∀ q ∈ P ++ [o], q.length = m := by
    intro q hq
    rcases List.mem_append.mp hq with h | h
    · exact hP q h
    · simp at h; rw [h]; exact ho
  rcases hcase with ⟨j, hj, hne, hle⟩ | h
  · have hmem : (P ++ [o])[j] ∈ (P ++ [o]).eraseIdx i :=
      List.mem_eraseIdx_iff_getElem.mpr ⟨j, hj, hne, rfl⟩
    have hsplit : P ++ [o] = (P ++ [o]).take i ++ (P ++ [o])[i] :: (P ++ [o]).drop (i + 1) := by
      rw [List.getElem_cons_drop, List.take_append_drop]
    have herase : (P ++ [o]).eraseIdx i = (P ++ [o]).take i ++ (P ++ [o]).drop (i + 1) :=
      List.eraseIdx_eq_take_drop_succ ..
    have h1 : hvSpec ((P ++ [o]).eraseIdx i) r = hvSpec (P ++ [o]) r := by
      rw [herase] at hmem ⊢
      have h2 := hvSpec_insert_dominated (r := r) hmem hle
      rw [← hsplit] at h2
      exact h2.symm
    rw [h1]
    exact hvSpec_mono_subset hr hQ (fun p hp => List.mem_append.mpr (Or.inl hp))
  · unfold contribSpec at h
    have e : (P ++ [o]).eraseIdx P.length = P := by
      rw [List.eraseIdx_append_of_length_le (Nat.le_refl _)]; simp
    rw [e] at h
    omega

example : hvSpec [[1, 3], [3, 1]] [4, 4] ≤ hvSpec ((([[1, 3], [3, 1]] : List Pt) ++ [[2, 2]]).eraseIdx 0) [4, 4] ∧
    contribSpec (([[1, 3], [3, 1]] : List Pt) ++ [[2, 2]]) [4, 4] 0 ≤
      contribSpec (([[1, 3], [3, 1]] : List Pt) ++ [[2, 2]]) [4, 4] 2 := by
  decide

/-! ## the modelled indicators satisfy the contract of the selection theorems -/

/-- **C14 (indicator contract, generic)**: the `leastContributors` loop shared by
`HypervolumeIndicator`, `CrowdingDistance` and `AdditiveEpsilonIndicator` returns `K` distinct
positions of the front for every front, archive and `K ≤ |front|`, whenever the one-point routine
`leastContributor` returns a position inside the (non-empty) front it is given. -/
theorem leastContributors_loop_contract (lc : LeastFn) (hlc : LcOK lc) (pts : List Pt) :
    IndOK (mkIndicator lc pts) := mkIndicator_ok lc hlc pts

/-- **C14 (indicator contract, the four modelled indicators)**: hypervolume indicator with a
reference point (2-D and 3-D routines), hypervolume indicator without reference point (2-D),
additive epsilon indicator, crowding distance (for every arithmetic, in particular IEEE doubles
with NaN/inf): each returns `K` distinct positions of the front. -/
theorem modelled_indicators_contract (pts : List Pt) (r : Pt) {α : Type} (N : CrowdNum α) :
    IndOK (mkIndicator (hvLeastRef r) pts) ∧ IndOK (mkIndicator hvLeastNoRef2d pts) ∧
    IndOK (mkIndicator epsLeast pts) ∧ IndOK (mkIndicator (crowdLeast N) pts) :=
  ⟨mkIndicator_ok _ (hvLeastRef_ok r) pts, mkIndicator_ok _ hvLeastNoRef2d_ok pts,
   mkIndicator_ok _ epsLeast_ok pts, mkIndicator_ok _ (crowdLeast_ok N) pts⟩

example : mkIndicator epsLeast [[0, 3], [1, 1], [3, 0]] [0, 1, 2] [] 2 = [0, 2] := by decide


/-- **C14 (selection count with the modelled indicators)**: the hypothesis on the indicator of
`selection_count` is discharged: for every population of `m`-dimensional fitness vectors and
every `1 ≤ mu ≤ n`, `IndicatorBasedSelection` with any indicator built on the shared loop
(hypervolume, epsilon, crowding) marks exactly `mu` individuals. -/
theorem selection_count_modelled_indicators (lc : LeastFn) (hlc : LcOK lc) (pts : List Pt) (m mu : Nat)
    (hd : ∀ p ∈ pts, p.length = m) (hmu : 1 ≤ mu) (hn : mu ≤ pts.length) :
    (select (mkIndicator lc pts) (fastSort pts) mu).count true = mu := by
  have hfs : fastSort pts = pts.map (rankSpec pts) := fastSort_eq hd
  apply select_count _ (mkIndicator_ok lc hlc pts) _ mu hmu (by rw [hfs]; simpa using hn)
  intro i hi
  rw [hfs] at hi ⊢
  simp only [List.length_map] at hi
  unfold rankAt
  rw [List.getD_eq_getElem?_getD, List.getElem?_map, List.getElem?_eq_getElem hi]
  exact rankSpec_pos _ _

example : (select (mkIndicator epsLeast [[0, 3], [1, 1], [3, 0], [2, 2]])
    (fastSort [[0, 3], [1, 1], [3, 0], [2, 2]]) 2) = [false, true, true, false] := by decide

/-! ## PenalizingEvaluator -/

/-- **C14 (reported value = f(closest feasible point))**: for every objective `f`, box, penalty
factor and search point, `PenalizingEvaluator` stores the point unchanged, the unpenalized
fitness is `f` at the closest feasible point (the point itself if it is feasible), the
penalized fitness adds `alpha·‖x − closest‖²` to every objective, and the closest feasible
point of a well-formed box is feasible. -/
theorem evaluator_value_is_f_at_closest_feasible (f : List Int → Pt) (lo hi : List Int) (alpha : Int) (x : List Int) :
    (penEval f lo hi alpha x).x = x ∧
    (penEval f lo hi alpha x).unpen = f (clampBox lo hi x) ∧
    (penEval f lo hi alpha x).pen = (f (clampBox lo hi x)).map (· + alpha * normSqDiff (clampBox lo hi x) x) ∧
    (feasible lo hi x = true → clampBox lo hi x = x ∧ (penEval f lo hi alpha x).pen = f x) ∧
    (boxOK lo hi = true → feasible lo hi (clampBox lo hi x) = true) :=
  ⟨rfl, penEval_unpen .., penEval_pen .., fun h => ⟨clampBox_of_feasible _ _ _ h, penEval_pen_feasible _ _ _ _ _ h⟩,
   fun h => feasible_clampBox _ _ _ h⟩

example : penEval (fun x => [x.foldl (· + ·) 0, 7]) [0, 0] [2, 2] 3 [5, 1] =
    { x := [5, 1], unpen := [3, 7], pen := [30, 34] } := by decide

/-! ## TournamentSelection -/

/-- **C14 (tournament)**: for every rank vector and every sequence of drawn indices the winner
is one of the drawn candidates and no drawn candidate has a better rank. -/
theorem tournament_winner_best_of_drawn (ranks : List Nat) (d : Nat) (ds : List Nat) :
    tournament ranks (d :: ds) ∈ d :: ds ∧
    ∀ c ∈ d :: ds, ranks.getD (tournament ranks (d :: ds)) 0 ≤ ranks.getD c 0 :=
  tournament_fold_spec ranks ds d

example : tournament [3, 1, 2, 1] [0, 3, 1] = 3 := by decide

/-! ## population updates: size, consistency, box -/

/-- **C14 (solution-set size, all seven update rules)**: every population update returns exactly
`mu` individuals (the steady-state rules and MOEA/D: as many as there were parents). -/
theorem update_size_invariant (ind : List Pt → Indicator) (parents offspring : List Indiv) (o : Indiv) (mu : Nat)
    (hmu : mu ≤ parents.length + offspring.length) :
    (genUpdate ind parents offspring mu).length = mu ∧
    (steadyUpdate ind parents o mu).length = parents.length ∧
    (ssmocmaUpdate ind parents o mu).length = parents.length ∧
    (∀ groups grp apd, (rveaUpdate parents offspring groups grp apd mu).length = mu) ∧
    (∀ t weights nbh (s : MoeadState), (moeadUpdate t weights nbh s o).parents.length = s.parents.length) := by
  refine ⟨genUpdate_length ind parents offspring mu hmu, steadyUpdate_length ind parents o mu, ?_,
    fun groups grp apd => rveaUpdate_length parents offspring groups grp apd mu hmu,
    fun t weights nbh s => moeadUpdate_length t weights nbh s o⟩
  unfold ssmocmaUpdate
  simp only
  rw [(sortRankOne_perm _ _).length_eq, steadyUpdate_length]

/-- **C14 (no individual is invented)**: every member of the updated population carries the
search point and both fitness vectors of a parent or an offspring — for all seven update rules. -/
theorem update_members_from_pool (ind : List Pt → Indicator) (parents offspring : List Indiv) (o : Indiv) (mu : Nat) :
    (∀ q ∈ genUpdate ind parents offspring mu, ∃ p ∈ parents ++ offspring, core q = core p) ∧
    (∀ q ∈ steadyUpdate ind parents o mu, ∃ p ∈ parents ++ [o], core q = core p) ∧
    (∀ q ∈ ssmocmaUpdate ind parents o mu, ∃ p ∈ parents ++ [o], core q = core p) ∧
    (∀ groups grp apd, ∀ q ∈ rveaUpdate parents offspring groups grp apd mu, ∃ p ∈ parents ++ offspring, core q = core p) ∧
    (∀ t weights nbh (s : MoeadState), ∀ q ∈ (moeadUpdate t weights nbh s o).parents, q = o ∨ q ∈ s.parents) := by
  refine ⟨genUpdate_mem ind parents offspring mu, steadyUpdate_mem ind parents o mu, ?_,
    fun groups grp apd => rveaUpdate_mem parents offspring groups grp apd mu,
    fun t weights nbh s => moeadUpdate_mem t weights nbh s o⟩
  intro q hq
  unfold ssmocmaUpdate at hq
  exact steadyUpdate_mem ind parents o mu q ((sortRankOne_perm _ _).mem_iff.mp hq)

/-- **C14 (generational run: size, value = f(closest feasible point), in the box)**: for every
indicator, objective, well-formed box, penalty factor, *arbitrary* variation operator followed
by the clamp of SBX / polynomial mutation, every initial population of `mu` consistent in-box
individuals and every sequence of random streams (any number of steps), the population always
has `mu` members, each consistent and inside the box (NSGA-II, NSGA-III). -/
theorem generational_run_invariants (ind : List Pt → Indicator) (f : List Int → Pt) (lo hi : List Int)
    (hbox : boxOK lo hi = true) (alpha : Int) (vary : List Indiv → List Nat → List (List Int)) (mu : Nat)
    (pop0 : List Indiv) (hlen : pop0.length = mu)
    (h0 : ∀ p ∈ pop0, Consistent f lo hi p ∧ InBox lo hi p) (rnds : List (List Nat)) :
    (runSteps (genStep ind f lo hi alpha (boundedVariation vary lo hi) mu) pop0 rnds).length = mu ∧
    ∀ q ∈ runSteps (genStep ind f lo hi alpha (boundedVariation vary lo hi) mu) pop0 rnds,
      Consistent f lo hi q ∧ InBox lo hi q := by
  constructor
  · apply runSteps_length _ mu _ rnds pop0 hlen
    intro pop rnd hp
    exact genUpdate_length ind pop _ mu (by omega)
  · apply runSteps_inv _ _ _ rnds pop0 h0
    intro pop rnd hp q hq
    obtain ⟨p, hp', hc⟩ := genUpdate_mem ind pop _ mu q hq
    rcases List.mem_append.mp hp' with h | h
    · exact ⟨consistent_of_core hc (hp p h).1, inBox_of_core hc (hp p h).2⟩
    · obtain ⟨x, hx, rfl⟩ := List.mem_map.mp h
      obtain ⟨y, _, rfl⟩ := List.mem_map.mp hx
      exact ⟨consistent_of_core hc (penEval_consistent ..), inBox_of_core hc (penEval_inBox f lo hi alpha y hbox)⟩

/-- **C14 (generational run with unbounded variation: size and consistency)**: the same without
the clamp (MO-CMA-ES: Gaussian sampling leaves the box): size and value = f(closest feasible
point) still hold at every step. -/
theorem generational_run_consistency (ind : List Pt → Indicator) (f : List Int → Pt) (lo hi : List Int)
    (alpha : Int) (vary : List Indiv → List Nat → List (List Int)) (mu : Nat)
    (pop0 : List Indiv) (hlen : pop0.length = mu)
    (h0 : ∀ p ∈ pop0, Consistent f lo hi p) (rnds : List (List Nat)) :
    (runSteps (genStep ind f lo hi alpha vary mu) pop0 rnds).length = mu ∧
    ∀ q ∈ runSteps (genStep ind f lo hi alpha vary mu) pop0 rnds, Consistent f lo hi q := by
  constructor
  · apply runSteps_length _ mu _ rnds pop0 hlen
    intro pop rnd hp
    exact genUpdate_length ind pop _ mu (by omega)
  · apply runSteps_inv _ _ _ rnds pop0 h0
    intro pop rnd hp q hq
    obtain ⟨p, hp', hc⟩ := genUpdate_mem ind pop _ mu q hq
    rcases List.mem_append.mp hp' with h | h
    · exact consistent_of_core hc (hp p h)
    · obtain ⟨x, _, rfl⟩ := List.mem_map.mp h
      exact consistent_of_core hc (penEval_consistent ..)

/-- **C14 (steady-state run: size, consistency, box)**: SMS-EMOA (bounded variation); without the
`InBox` part the proof is the same for the steady-state MO-CMA-ES. -/
theorem steady_run_invariants (ind : List Pt → Indicator) (f : List Int → Pt) (lo hi : List Int)
    (hbox : boxOK lo hi = true) (alpha : Int) (vary : List Indiv → List Nat → List Int) (mu : Nat)
    (pop0 : List Indiv) (hlen : pop0.length = mu)
    (h0 : ∀ p ∈ pop0, Consistent f lo hi p ∧ InBox lo hi p) (rnds : List (List Nat)) :
    (runSteps (steadyStep ind f lo hi alpha (fun ps r => clampBox lo hi (vary ps r)) mu) pop0 rnds).length = mu ∧
    ∀ q ∈ runSteps (steadyStep ind f lo hi alpha (fun ps r => clampBox lo hi (vary ps r)) mu) pop0 rnds,
      Consistent f lo hi q ∧ InBox lo hi q := by
  constructor
  · apply runSteps_length _ mu _ rnds pop0 hlen
    intro pop rnd hp
    unfold steadyStep
    rw [steadyUpdate_length]; exact hp
  · apply runSteps_inv _ _ _ rnds pop0 h0
    intro pop rnd hp q hq
    obtain ⟨p, hp', hc⟩ := steadyUpdate_mem ind pop _ mu q hq
    rcases List.mem_append.mp hp' with h | h
    · exact ⟨consistent_of_core hc (hp p h).1, inBox_of_core hc (hp p h).2⟩
    · simp only [List.mem_singleton] at h
      subst h
      exact ⟨consistent_of_core hc (penEval_consistent ..), inBox_of_core hc (penEval_inBox f lo hi alpha _ hbox)⟩

example : (genStep (mkIndicator epsLeast) (fun x => [x.foldl (· + ·) 0, 3 - x.foldl (· + ·) 0]) [0] [3] 1
      (boundedVariation (fun _ r => r.map fun v => [Int.ofNat v]) [0] [3]) 2
      [{ x := [1], pen := [1, 2], unpen := [1, 2] }, { x := [2], pen := [2, 1], unpen := [2, 1] }] [7, 0]).map (·.x) = [[0], [3]] := by
  decide

/-! ## elitism of the truncation `std::partition; erase(begin + mu, end)` -/

/-- **C14 (the survivors are exactly the selected individuals)**: for every population `l` whose
`selected()` flags mark exactly `mu` individuals (what `IndicatorBasedSelection` delivers:
`selection_count_modelled_indicators`), libstdc++'s `std::partition` followed by
`erase(begin + mu, end)` keeps precisely the flagged individuals (as a multiset) and nothing else.
Together with `selection_rank_monotone` / `selection_keeps_better_fronts` (the flags never prefer
a worse non-domination rank) this is the elitism clause for NSGA-II, NSGA-III and MO-CMA-ES. -/
theorem truncation_keeps_exactly_the_selected (l : List Indiv) (mu : Nat)
    (hcount : l.countP (·.sel) = mu) :
    (∀ k ∈ (stdPartition l.length l).take mu, k.sel = true) ∧
    ((stdPartition l.length l).take mu).Perm (l.filter (·.sel)) := by
  obtain ⟨S, U, e, hS, hU⟩ := stdPartition_blocks l.length l (Nat.le_refl _)
  have hperm := stdPartition_perm l.length l
  rw [e] at hperm
  have hfS : S.filter (·.sel) = S := List.filter_eq_self.mpr (fun a ha => hS a ha)
  have hfU : U.filter (·.sel) = [] := List.filter_eq_nil_iff.mpr (fun a ha => by simp [hU a ha])
  have hfilt : (S ++ U).filter (·.sel) = S := by rw [List.filter_append, hfS, hfU]; simp
  have hlen : S.length = mu := by
    rw [← hcount, List.countP_eq_length_filter, ← (hperm.filter _).length_eq, hfilt]
  have htake : (stdPartition l.length l).take mu = S := by
    rw [e, ← hlen]; simp
  rw [htake]
  refine ⟨hS, ?_⟩
  have := hperm.filter (·.sel)
  rw [hfilt] at this
  exact this

example : (stdPartition 4 [{ x := [0], pen := [], unpen := [], sel := false }, { x := [1], pen := [], unpen := [], sel := true },
      { x := [2], pen := [], unpen := [], sel := false }, { x := [3], pen := [], unpen := [], sel := true }]).map (·.x) =
    [[3], [1], [2], [0]] := by decide

/-- **C14 (elitism of the generational update, no hypothesis on flags)**: for every indicator built on
the shared `leastContributors` loop (hypervolume, epsilon, crowding), all parent and offspring
populations with `m`-dimensional penalized fitness and every `1 ≤ mu ≤ |parents| + |offspring|`, the update of
NSGA-II / NSGA-III / MO-CMA-ES (`insert; select; std::partition; erase`) keeps exactly the `mu`
individuals marked by the selection (as a multiset), every survivor is marked, and no marked
individual has a worse non-domination rank than an unmarked (discarded) one. -/
theorem generational_update_elitist (lc : LeastFn) (hlc : LcOK lc) (parents offspring : List Indiv) (m mu : Nat)
    (hd : ∀ p ∈ parents ++ offspring, p.pen.length = m) (hmu : 1 ≤ mu) (hn : mu ≤ parents.length + offspring.length) :
    (genUpdate (mkIndicator lc) parents offspring mu).length = mu ∧
    (∀ k ∈ genUpdate (mkIndicator lc) parents offspring mu, k.sel = true) ∧
    (genUpdate (mkIndicator lc) parents offspring mu).Perm
      ((applySelect (mkIndicator lc) (parents ++ offspring) mu).filter (·.sel)) ∧
    (∀ i j, i < parents.length + offspring.length → j < parents.length + offspring.length →
      ((applySelect (mkIndicator lc) (parents ++ offspring) mu).getD i default).sel = true →
      ((applySelect (mkIndicator lc) (parents ++ offspring) mu).getD j default).sel = false →
      ((applySelect (mkIndicator lc) (parents ++ offspring) mu).getD i default).rank ≤
        ((applySelect (mkIndicator lc) (parents ++ offspring) mu).getD j default).rank) := by
  have hdp : ∀ p ∈ (parents ++ offspring).map (·.pen), p.length = m := by
    intro p hp
    obtain ⟨q, hq, rfl⟩ := List.mem_map.mp hp
    exact hd q hq
  have hcount : (applySelect (mkIndicator lc) (parents ++ offspring) mu).countP (·.sel) = mu := by
    rw [applySelect_countP _ _ mu m hd]
    exact selection_count_modelled_indicators lc hlc _ m mu hdp hmu (by simpa using hn)
  have htr := truncation_keeps_exactly_the_selected (applySelect (mkIndicator lc) (parents ++ offspring) mu) mu hcount
  refine ⟨genUpdate_length _ parents offspring mu hn, htr.1, htr.2, ?_⟩
  intro i j hi hj hsi hsj
  have hi' : i < (parents ++ offspring).length := by simpa using hi
  have hj' : j < (parents ++ offspring).length := by simpa using hj
  rw [applySelect_sel _ _ _ i hi'] at hsi
  rw [applySelect_sel _ _ _ j hj'] at hsj
  rw [applySelect_rank _ _ _ i hi', applySelect_rank _ _ _ j hj']
  have hlen : (fastSort ((parents ++ offspring).map (·.pen))).length = (parents ++ offspring).length := by
    rw [fastSort_length hdp]; simp
  have hsl := select_length (mkIndicator lc ((parents ++ offspring).map (·.pen))) (fastSort ((parents ++ offspring).map (·.pen))) mu
  apply selection_rank_monotone _ _ mu i j (by omega) (by omega) hsi
  rw [List.getD_eq_getElem?_getD, List.getElem?_eq_getElem (by omega)] at hsj ⊢
  simpa using hsj

example : (genUpdate (mkIndicator epsLeast) [{ x := [1], pen := [1, 2], unpen := [1, 2] }, { x := [2], pen := [2, 1], unpen := [2, 1] }]
    [{ x := [3], pen := [3, 3], unpen := [3, 3] }] 2).map (fun p => (p.x, p.rank, p.sel)) = [([1], 1, true), ([2], 1, true)] := by decide

/-! ## steady-state hypervolume monotonicity, composed end to end -/

/-- **C14 (steady-state hypervolume never decreases — end to end, any number of objectives)**: let
`lc` be a `leastContributor` routine that returns valid positions and, on fronts below the fixed
reference point `r`, a position of minimal hypervolume contribution.  Then for every parent
population of `mu ≥ 1` individuals and every offspring whose penalized fitness vectors are
`m`-dimensional and strictly below `r`, the update `SMSEMOA::updatePopulation` (append the offspring,
`IndicatorBasedSelection` with the indicator built on `lc`, replace the first unselected parent) never decreases the
dominated hypervolume `hvSpec` of the population. -/
theorem steady_update_hv_monotone_partial (m : Nat) (r : Pt) (hr : r.length = m) (lc : LeastFn) (hlc : LcOK lc)
    (hleast : LeastContribOn r lc) (parents : List Indiv) (o : Indiv) (mu : Nat)
    (hmu : 1 ≤ mu) (hlen : parents.length = mu)
    (hd : ∀ p ∈ parents ++ [o], p.pen.length = m) (hbelow : ∀ p ∈ parents ++ [o], ltAll p.pen r = true) :
    hvSpec (parents.map (·.pen)) r ≤ hvSpec ((steadyUpdate (mkIndicator lc) parents o mu).map (·.pen)) r := by
  have hpts : (parents ++ [o]).map (·.pen) = parents.map (·.pen) ++ [o.pen] := by simp
  have hdp : ∀ p ∈ parents.map (·.pen) ++ [o.pen], p.length = m := by
    intro p hp; rw [← hpts] at hp
    obtain ⟨q, hq, rfl⟩ := List.mem_map.mp hp; exact hd q hq
  have hbp : ∀ p ∈ parents.map (·.pen) ++ [o.pen], ltAll p r = true := by
    intro p hp; rw [← hpts] at hp
    obtain ⟨q, hq, rfl⟩ := List.mem_map.mp hp; exact hbelow q hq
  have hn : (parents.map (·.pen) ++ [o.pen]).length = mu + 1 := by simp [hlen]
  have hne : parents.map (·.pen) ++ [o.pen] ≠ [] := by simp
  have hall_pen := applySelect_map_pen (mkIndicator lc) (parents ++ [o]) mu
  have hall_len := applySelect_length (mkIndicator lc) (parents ++ [o]) mu
  have htake : ((applySelect (mkIndicator lc) (parents ++ [o]) mu).take parents.length).map (·.pen) = parents.map (·.pen) := by
    rw [List.map_take, hall_pen, hpts, List.take_left' (by simp)]
  unfold steadyUpdate
  simp only
  split
  · rcases replaceFirstUnselected_cases
      ((applySelect (mkIndicator lc) (parents ++ [o]) mu).getD parents.length default)
      ((applySelect (mkIndicator lc) (parents ++ [o]) mu).take parents.length) with h | ⟨A, p, B, h1, h2, h3⟩
    · rw [h, htake]; exact Nat.le_refl _
    · rw [h3]
      -- the discarded individual has index `A.length`
      have hAlen : A.length < parents.length := by
        have := congrArg List.length h1
        simp [hall_len] at this
        omega
      have hi' : A.length < (parents ++ [o]).length := by simp; omega
      have hpi : (applySelect (mkIndicator lc) (parents ++ [o]) mu).getD A.length default = p := by
        have hx : (applySelect (mkIndicator lc) (parents ++ [o]) mu).getD A.length default =
            ((applySelect (mkIndicator lc) (parents ++ [o]) mu).take parents.length).getD A.length default := by
          simp [List.getD_eq_getElem?_getD, hAlen]
        rw [hx, h1]; simp [List.getD_eq_getElem?_getD]
      have hselfalse := applySelect_sel (mkIndicator lc) (parents ++ [o]) mu A.length hi'
      rw [hpi, h2, hpts] at hselfalse
      have hflen := select_length (mkIndicator lc (parents.map (·.pen) ++ [o.pen]))
        (fastSort (parents.map (·.pen) ++ [o.pen])) mu
      rw [fastSort_length hdp, hn] at hflen
      have hfalse : (select (mkIndicator lc (parents.map (·.pen) ++ [o.pen]))
          (fastSort (parents.map (·.pen) ++ [o.pen])) mu).getD A.length true = false := by
        rw [List.getD_eq_getElem?_getD, List.getElem?_eq_getElem (by omega)]
        rw [List.getD_eq_getElem?_getD, List.getElem?_eq_getElem (by omega)] at hselfalse
        simpa using hselfalse.symm
      have hcases := select_unselected_cases _ (mkIndicator_ok lc hlc _) (fastSort (parents.map (·.pen) ++ [o.pen])) mu hmu
        (by rw [fastSort_length hdp, hn])
        (by
          intro j hj
          rw [fastSort_length hdp] at hj
          rw [rankAt_fastSort hdp j hj]; exact rankSpec_pos _ _)
        A.length (by rw [fastSort_length hdp, hn]; omega) hfalse
      have hiP : A.length < (parents.map (·.pen) ++ [o.pen]).length := by rw [hn]; omega
      have hmono := steady_state_hv_monotone m (parents.map (·.pen)) o.pen r A.length hr
        (fun p hp => hdp p (List.mem_append.mpr (Or.inl hp))) (hdp o.pen (by simp)) hiP
        (by
          rcases hcases with h2r | ⟨hall1, hmem⟩
          · left
            rw [rankAt_fastSort hdp A.length hiP] at h2r
            rcases rankSpec_cases (parents.map (·.pen) ++ [o.pen]) ((parents.map (·.pen) ++ [o.pen])[A.length]) with h1r | ⟨q, hq, hdq, _⟩
            · omega
            · obtain ⟨j, hj, e⟩ := List.getElem_of_mem hq
              refine ⟨j, hj, ?_, ?_⟩
              · intro hji
                subst hji
                rw [← e, dominates_irrefl] at hdq
                cases hdq
              · rw [e]
                simp only [dominates, Bool.and_eq_true] at hdq
                exact hdq.1
          · right
            rw [fastSort_length hdp] at hmem hall1
            rw [mkIndicator_single_front lc hlc _ hne] at hmem
            simp only [List.mem_singleton] at hmem
            rw [hmem]
            have hnd : ∀ a ∈ parents.map (·.pen) ++ [o.pen], ∀ b ∈ parents.map (·.pen) ++ [o.pen], dominates a b = false := by
              intro a ha b hb
              obtain ⟨j, hj, e⟩ := List.getElem_of_mem hb
              have h1 := hall1 j hj
              rw [rankAt_fastSort hdp j hj, e] at h1
              exact (rankSpec_eq_one_iff _ _).mp h1 a ha
            have := hleast _ hne (fun p hp => by rw [hdp p hp, hr]) hbp hnd (parents.map (·.pen)).length (by simp)
            exact this)
      refine Nat.le_trans hmono (Nat.le_of_eq (hvSpec_perm ?_))
      -- the surviving population is a permutation of `(P ++ [o]).eraseIdx i`
      have hPsplit : parents.map (·.pen) = A.map (·.pen) ++ p.pen :: B.map (·.pen) := by
        rw [← htake, h1]; simp
      have hlast : ((applySelect (mkIndicator lc) (parents ++ [o]) mu).getD parents.length default).pen = o.pen := by
        have h4 := congrArg (fun l => l.getD parents.length []) hall_pen
        simp only [hpts] at h4
        have hlt : parents.length < (applySelect (mkIndicator lc) (parents ++ [o]) mu).length := by rw [hall_len]; simp
        simp only [List.getD_eq_getElem?_getD, List.getElem?_map, List.getElem?_eq_getElem hlt, Option.map_some,
          Option.getD_some] at h4
        rw [List.getD_eq_getElem?_getD, List.getElem?_eq_getElem hlt]
        simp only [Option.getD_some]
        rw [h4]
        simp
      rw [hPsplit]
      simp only [List.map_append, List.map_cons, hlast]
      have he : (A.map (·.pen) ++ p.pen :: B.map (·.pen) ++ [o.pen]).eraseIdx A.length =
          A.map (·.pen) ++ (B.map (·.pen) ++ [o.pen]) := by
        rw [List.append_assoc, List.eraseIdx_append_of_length_le (by simp)]
        simp
      rw [he]
      exact (List.perm_append_comm (l₁ := B.map (·.pen)) (l₂ := [o.pen])).append_left _
  · rw [htake]; exact Nat.le_refl _


/-- non-vacuity / composition: SMS-EMOA with the specification-level hypervolume indicator never
decreases the dominated hypervolume, for every number of objectives -/
theorem steady_update_hv_monotone_spec_indicator (m : Nat) (r : Pt) (hr : r.length = m)
    (parents : List Indiv) (o : Indiv) (mu : Nat) (hmu : 1 ≤ mu) (hlen : parents.length = mu)
    (hd : ∀ p ∈ parents ++ [o], p.pen.length = m) (hbelow : ∀ p ∈ parents ++ [o], ltAll p.pen r = true) :
    hvSpec (parents.map (·.pen)) r ≤ hvSpec ((steadyUpdate (mkIndicator (specLeast r)) parents o mu).map (·.pen)) r :=
  steady_update_hv_monotone_partial m r hr _ (specLeast_ok r).1 (specLeast_ok r).2 parents o mu hmu hlen hd hbelow

/-- **C14 (the modelled 2-D hypervolume indicator picks a least contributor)**: on every front below the
reference point the model of `HypervolumeIndicator::leastContributor` (sentinel formula of
`HypervolumeContribution2D`, lexicographic order, last minimal entry of the heap) returns a position of minimal
`contribSpec` (uses C13 `contribs2dGo_eq_spec`). -/
theorem hvLeastRef_least_contributor_2d (r : Pt) (hr : r.length = 2) : LeastContribOn r (hvLeastRef r) := by
  intro pts hne hlen hlt hnd j hj
  have hS : ∀ p ∈ pts, p.length = 2 := fun p hp => by rw [hlen p hp, hr]
  have hle : ∀ p ∈ pts, leAll p r = true := fun p hp => leAll_of_ltAll (hlt p hp)
  obtain ⟨hperm, hval⟩ := contribs2dGo_eq_spec hS hr hle hnd (pts.zipIdx.mergeSort lexLe)
    (List.mergeSort_perm _ _) (lexSorted_mergeSort _)
  have hjmem : j ∈ (contribs2dGo (px r) (py r) (pts.zipIdx.mergeSort lexLe)).map (·.2) :=
    hperm.mem_iff.mpr (List.mem_range.mpr hj)
  obtain ⟨c, hc, hcj⟩ := List.mem_map.mp hjmem
  unfold hvLeastRef
  simp only [hr, beq_self_eq_true, if_true]
  unfold hvLeast2d contribs2dLit
  simp only
  split
  · rename_i b hb
    have h1 := lastMin_le hb c hc
    rw [hval b (lastMin_mem hb), hval c hc, hcj] at h1
    exact h1
  · rename_i hnone
    cases hl : contribs2dGo (px r) (py r) (pts.zipIdx.mergeSort lexLe) with
    | nil => rw [hl] at hc; cases hc
    | cons a as =>
      rw [hl] at hnone
      simp only [lastMin] at hnone
      cases hq : lastMin as <;> rw [hq] at hnone <;> simp at hnone
      split at hnone <;> simp at hnone

/-- **C14 (steady-state hypervolume never decreases — SMS-EMOA, 2 objectives, modelled indicator)**: for every
parent population of `mu ≥ 1` individuals and every offspring with 2-dimensional penalized fitness strictly below the
fixed reference point `r`, `SMSEMOA::updatePopulation` with the modelled `HypervolumeIndicator` never decreases the
dominated hypervolume.  No hypothesis on the indicator is left. -/
theorem steady_update_hv_monotone (r : Pt) (hr : r.length = 2) (parents : List Indiv) (o : Indiv) (mu : Nat)
    (hmu : 1 ≤ mu) (hlen : parents.length = mu)
    (hd : ∀ p ∈ parents ++ [o], p.pen.length = 2) (hbelow : ∀ p ∈ parents ++ [o], ltAll p.pen r = true) :
    hvSpec (parents.map (·.pen)) r ≤ hvSpec ((steadyUpdate (mkIndicator (hvLeastRef r)) parents o mu).map (·.pen)) r :=
  steady_update_hv_monotone_partial 2 r hr _ (hvLeastRef_ok r) (hvLeastRef_least_contributor_2d r hr) parents o mu hmu hlen hd hbelow

/-- **C14 (the same for the steady-state MO-CMA-ES)**: `SteadyStateMOCMA::updatePopulation` is the SMS-EMOA update
followed by `sortRankOneToFront`, a permutation of the population. -/
theorem ssmocma_update_hv_monotone (r : Pt) (hr : r.length = 2) (parents : List Indiv) (o : Indiv) (mu : Nat)
    (hmu : 1 ≤ mu) (hlen : parents.length = mu)
    (hd : ∀ p ∈ parents ++ [o], p.pen.length = 2) (hbelow : ∀ p ∈ parents ++ [o], ltAll p.pen r = true) :
    hvSpec (parents.map (·.pen)) r ≤ hvSpec ((ssmocmaUpdate (mkIndicator (hvLeastRef r)) parents o mu).map (·.pen)) r := by
  unfold ssmocmaUpdate
  simp only
  rw [hvSpec_perm ((sortRankOne_perm _ _).map (·.pen))]
  exact steady_update_hv_monotone r hr parents o mu hmu hlen hd hbelow

/-- along a whole run of the modelled SMS-EMOA with arbitrary variation: the hypervolume is non-decreasing from step to
step as long as every evaluated offspring stays strictly below the reference point -/
theorem steady_run_hv_monotone (r : Pt) (hr : r.length = 2) (step1 : List Indiv → List Nat → Indiv) (mu : Nat) (hmu : 1 ≤ mu)
    (hoff : ∀ pop rnd, (step1 pop rnd).pen.length = 2 ∧ ltAll (step1 pop rnd).pen r = true) :
    ∀ (rnds : List (List Nat)) (pop : List Indiv), pop.length = mu →
      (∀ p ∈ pop, p.pen.length = 2 ∧ ltAll p.pen r = true) →
      hvSpec (pop.map (·.pen)) r ≤
        hvSpec ((runSteps (fun ps rnd => steadyUpdate (mkIndicator (hvLeastRef r)) ps (step1 ps rnd) mu) pop rnds).map (·.pen)) r
  | [], pop, _, _ => by simp [runSteps]
  | rnd :: rs, pop, hlen, hp => by
    simp only [runSteps]
    have hall : ∀ p ∈ pop ++ [step1 pop rnd], p.pen.length = 2 ∧ ltAll p.pen r = true := by
      intro p hp'
      rcases List.mem_append.mp hp' with h | h
      · exact hp p h
      · simp only [List.mem_singleton] at h; subst h; exact hoff pop rnd
    have h1 := steady_update_hv_monotone r hr pop (step1 pop rnd) mu hmu hlen (fun p h => (hall p h).1) (fun p h => (hall p h).2)
    refine Nat.le_trans h1 (steady_run_hv_monotone r hr step1 mu hmu hoff rs _ (by rw [steadyUpdate_length]; exact hlen) ?_)
    intro q hq
    obtain ⟨p, hp', hc⟩ := steadyUpdate_mem _ pop _ mu q hq
    simp only [core, Prod.mk.injEq] at hc
    rw [hc.2.1]; exact hall p hp'

/-! ## NSGA-III -/

/-- the same for **every** family of indicators that satisfy the contract (used for NSGA-III below) -/
theorem generational_update_elitist_any_indicator (ind : List Pt → Indicator) (hind : ∀ pts, IndOK (ind pts)) (parents offspring : List Indiv) (m mu : Nat)
    (hd : ∀ p ∈ parents ++ offspring, p.pen.length = m) (hmu : 1 ≤ mu) (hn : mu ≤ parents.length + offspring.length) :
    (genUpdate ind parents offspring mu).length = mu ∧
    (∀ k ∈ genUpdate ind parents offspring mu, k.sel = true) ∧
    (genUpdate ind parents offspring mu).Perm
      ((applySelect ind (parents ++ offspring) mu).filter (·.sel)) ∧
    (∀ i j, i < parents.length + offspring.length → j < parents.length + offspring.length →
      ((applySelect ind (parents ++ offspring) mu).getD i default).sel = true →
      ((applySelect ind (parents ++ offspring) mu).getD j default).sel = false →
      ((applySelect ind (parents ++ offspring) mu).getD i default).rank ≤
        ((applySelect ind (parents ++ offspring) mu).getD j default).rank) := by
  have hdp : ∀ p ∈ (parents ++ offspring).map (·.pen), p.length = m := by
    intro p hp
    obtain ⟨q, hq, rfl⟩ := List.mem_map.mp hp
    exact hd q hq
  have hcount : (applySelect ind (parents ++ offspring) mu).countP (·.sel) = mu := by
    rw [applySelect_countP _ _ mu m hd]
    exact selection_count_on_sorted_population _ (hind _) _ m mu hdp hmu (by simpa using hn)
  have htr := truncation_keeps_exactly_the_selected (applySelect ind (parents ++ offspring) mu) mu hcount
  refine ⟨genUpdate_length _ parents offspring mu hn, htr.1, htr.2, ?_⟩
  intro i j hi hj hsi hsj
  have hi' : i < (parents ++ offspring).length := by simpa using hi
  have hj' : j < (parents ++ offspring).length := by simpa using hj
  rw [applySelect_sel _ _ _ i hi'] at hsi
  rw [applySelect_sel _ _ _ j hj'] at hsj
  rw [applySelect_rank _ _ _ i hi', applySelect_rank _ _ _ j hj']
  have hlen : (fastSort ((parents ++ offspring).map (·.pen))).length = (parents ++ offspring).length := by
    rw [fastSort_length hdp]; simp
  have hsl := select_length (ind ((parents ++ offspring).map (·.pen))) (fastSort ((parents ++ offspring).map (·.pen))) mu
  apply selection_rank_monotone _ _ mu i j (by omega) (by omega) hsi
  rw [List.getD_eq_getElem?_getD, List.getElem?_eq_getElem (by omega)] at hsj ⊢
  simpa using hsj


/-- **C14 (NSGA-III niche selection)**: whatever the floating-point association step produced (one `(distance key,
reference direction)` entry per archive and front point, directions in range), `NSGA3Indicator::leastContributors` returns
`K` distinct positions of the front; hence `IndicatorBasedSelection<NSGA3Indicator>` marks exactly `mu` individuals and
the update of `RealCodedNSGAIII` keeps exactly the marked individuals, none of worse rank than a discarded one. -/
theorem nsga3_update_elitist (nz : Nat) (assocOf : List Pt → List Nat → List Nat → List (Nat × Nat))
    (hassoc : ∀ pts, AssocOK nz (assocOf pts)) (parents offspring : List Indiv) (m mu : Nat)
    (hd : ∀ p ∈ parents ++ offspring, p.pen.length = m) (hmu : 1 ≤ mu) (hn : mu ≤ parents.length + offspring.length) :
    IndOK (nsga3Indicator nz (assocOf ((parents ++ offspring).map (·.pen)))) ∧
    (genUpdate (fun pts => nsga3Indicator nz (assocOf pts)) parents offspring mu).length = mu ∧
    (∀ k ∈ genUpdate (fun pts => nsga3Indicator nz (assocOf pts)) parents offspring mu, k.sel = true) ∧
    (genUpdate (fun pts => nsga3Indicator nz (assocOf pts)) parents offspring mu).Perm
      ((applySelect (fun pts => nsga3Indicator nz (assocOf pts)) (parents ++ offspring) mu).filter (·.sel)) := by
  have h := generational_update_elitist_any_indicator (fun pts => nsga3Indicator nz (assocOf pts))
    (fun pts => nsga3Indicator_ok nz _ (hassoc pts)) parents offspring m mu hd hmu hn
  exact ⟨nsga3Indicator_ok nz _ (hassoc _), h.1, h.2.1, h.2.2.1⟩

example : nsga3Least 2 1 [(5, 0), (3, 0), (1, 1), (2, 1), (4, 0)] 2 = [2, 3] := by decide

end SharkVerif.C14
