/-
C15 — closed-form trainers produce the exact solution of their stated problem.

Property theorems about the exact-arithmetic (`Rat`) models of `Model/Trainers.lean`,
which are tied to the real Shark trainers by the correspondence check `checks/c15.py`
(harness/c15.cpp, harness/c15b.cpp, driver `drv_c15`).  Helper lemmas live in
`Lemmas/Trainers.lean`, `Lemmas/LinReg.lean`, `Lemmas/Stats.lean`.

All statements quantify over every dataset (any number of points, any dimension, rows
of any length — components beyond the end of a row read as 0 —, rank-deficient or
constant features, more features than points) and every partition into batches.
Square roots, logarithms, the eigen-solver and the semi-definite solver are parameters;
what is assumed about them is a hypothesis of the theorem that uses them, and each such
hypothesis is checked on the values the real code returns by the correspondence.
-/
import SharkVerif.Lemmas.LinReg
import Mathlib.Tactic.NormNum
import Mathlib.Tactic.IntervalCases
namespace SharkVerif.C15
open SharkVerif.Trainers

/-! ## Statistics over batches -/

/-- **Batch independence of the statistics.**  For every way of cutting the same
sequence of rows into batches, the accumulated mean, variance and covariance are the
same. -/
theorem meanvar_batch_independent (bs bs' : List (List Vec)) (h : bs.flatten = bs'.flatten) (i j : Nat) :
    mean bs j = mean bs' j ∧ variance bs j = variance bs' j ∧ covariance bs i j = covariance bs' i j := by
  have hm : ∀ j, mean bs j = mean bs' j := by
    intro j; simp only [mean, bsum_eq_flatten, count_eq_flatten, h]
  refine ⟨hm j, ?_, ?_⟩
  · simp only [variance, bsum_eq_flatten, count_eq_flatten, h, hm]
  · simp only [covariance, bsum_eq_flatten, count_eq_flatten, h, hm]

/-! ## Linear (ridge) regression -/

/-- **Normal equations ⇔ vanishing gradient** (every `n`, `d`, label column `c`, batch
partition, `λ`): the parameter column `β` satisfies `(A·β)_i = (XᵀL)_{ic}` for all rows
`i ≤ d` of the accumulated system of `LinearRegression::train` iff every partial
derivative `linregGradient` of `½ Σ((x|1)·β − l_c)² + ½ λ Σ_{j<d} β_j²` vanishes. -/
theorem linreg_normal_equations (bs : LData) (d : Nat) (lam : Rat) (c : Nat) (β : Nat → Rat) :
    (∀ i, i ≤ d → matMul (d + 1) (linregA bs d lam) (fun j _ => β j) i 0 = linregRhs bs d i c)
      ↔ ∀ i, i ≤ d → linregGradient bs d lam c β i = 0 :=
  normalEq_iff_gradient bs d lam c β

/-- `linregGradient` *is* the gradient: the objective is exactly
`E(β+δ) = E(β) + ⟨∇E(β), δ⟩ + Q(δ)` with the non-negative quadratic form
`Q(δ) = ½ Σ ((x|1)·δ)² + ½ λ Σ_{j<d} δ_j²`. -/
theorem linreg_objective_expansion (bs : LData) (d : Nat) (lam : Rat) (c : Nat) (β δ : Nat → Rat) :
    linregObjective bs d lam c (fun j => β j + δ j)
      = linregObjective bs d lam c β + rsum (d + 1) (fun i => linregGradient bs d lam c β i * δ i)
        + linregQuad bs d lam δ
    ∧ (0 ≤ lam → 0 ≤ linregQuad bs d lam δ) :=
  ⟨objective_expansion bs d lam c β δ, fun h => linregQuad_nonneg bs d lam h δ⟩

/-- **Stationary ⇔ optimal.**  For `λ ≥ 0` the normal equations hold at `β` iff `β` is a
global minimiser of the regularised squared error (rank-deficient data and `d > n`
included: no uniqueness is claimed). -/
theorem linreg_normal_equations_iff_minimiser (bs : LData) (d : Nat) (lam : Rat) (hlam : 0 ≤ lam) (c : Nat)
    (β : Nat → Rat) :
    NormalEq bs d lam c β ↔ ∀ β', linregObjective bs d lam c β ≤ linregObjective bs d lam c β' :=
  ⟨minimiser_of_normalEq bs d lam hlam c β, normalEq_of_minimiser bs d lam hlam c β⟩

/-- specification of `solve(A, B, symm_semi_pos_def, left)`: it returns a solution
whenever one exists -/
def SolverSpec (solve : Solver) : Prop :=
  ∀ n k A R, (∃ X : Nat → Nat → Rat, ∀ i, i < n → ∀ c, c < k → matMul n A X i c = R i c) →
    ∀ i, i < n → ∀ c, c < k → matMul n A (solve n k A R) i c = R i c

/-- **The trained model is optimal** (all `n`, `d`, `k`, batch partitions, `λ ≥ 0`): if the
solver meets its specification and the accumulated system is solvable, the parameters
returned by `LinearRegression::train` make the gradient vanish in every output column
and minimise the total regularised squared error over all parameter matrices. -/
theorem linreg_train_optimal (solve : Solver) (hs : SolverSpec solve) (bs : LData) (d k : Nat) (lam : Rat)
    (hlam : 0 ≤ lam)
    (hcons : ∃ X : Nat → Nat → Rat, ∀ i, i < d + 1 → ∀ c, c < k →
      matMul (d + 1) (linregA bs d lam) X i c = linregRhs bs d i c) :
    let B := linregTrain solve bs d k lam
    (∀ c, c < k → ∀ i, i ≤ d → linregGradient bs d lam c (fun j => B j c) i = 0)
    ∧ ∀ B' : Nat → Nat → Rat, linregObjectiveAll bs d k lam B ≤ linregObjectiveAll bs d k lam B' := by
  intro B
  have hB : ∀ c, c < k → NormalEq bs d lam c (fun j => B j c) := by
    intro c hc i hi
    exact hs (d + 1) k _ _ hcons i (by omega) c hc
  refine ⟨fun c hc => (normalEq_iff_gradient bs d lam c _).mp (hB c hc), fun B' => ?_⟩
  unfold linregObjectiveAll
  have : ∀ c, c < k → 0 ≤ linregObjective bs d lam c (fun j => B' j c) - linregObjective bs d lam c (fun j => B j c) := by
    intro c hc
    have := minimiser_of_normalEq bs d lam hlam c _ (hB c hc) (fun j => B' j c)
    linarith
  have h2 := rsum_nonneg this
  rw [rsum_sub] at h2
  linarith

/-- the accumulated system does not depend on the batch partition, hence neither does
the trained model (for any solver, as a function of the system) -/
theorem linreg_batch_independent (solve : Solver) (bs bs' : LData) (h : bs.flatten = bs'.flatten)
    (d k : Nat) (lam : Rat) :
    linregA bs d lam = linregA bs' d lam ∧ linregRhs bs d = linregRhs bs' d
      ∧ linregTrain solve bs d k lam = linregTrain solve bs' d k lam := by
  have hA : linregA bs d lam = linregA bs' d lam := by
    funext i j; simp only [linregA, bsum_eq_flatten, h]
  have hR : linregRhs bs d = linregRhs bs' d := by
    funext i c; simp only [linregRhs, bsum_eq_flatten, h]
  exact ⟨hA, hR, by unfold linregTrain; rw [hA, hR]⟩

/-- non-vacuity: the points (0,1), (1,3) in two batches, `λ = 0`; `β = (2, 1)` solves the normal equations -/
example : NormalEq [[([0], [1])], [([1], [3])]] 1 0 0 (fun j => if j = 0 then 2 else 1) := by
  intro i hi
  interval_cases i <;> norm_num [applyA, linregA, linregRhs, bsum, lsum, rsum, ext1, Vec.at]

end SharkVerif.C15
