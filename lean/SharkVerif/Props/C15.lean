/-
C15 — closed-form trainers produce the exact solution of their stated problem.
Property theorems about the models of `Model/Trainers.lean` (tied to the real Shark
trainers by `checks/c15.py`).
-/
import SharkVerif.Lemmas.Trainers
namespace SharkVerif.C15
open SharkVerif.Trainers

/-- **Batch independence of the statistics.**  For every way of cutting the same
sequence of rows into batches, the accumulated mean, variance and covariance are the
same. -/
theorem meanvar_batch_independent (bs bs' : List (List Vec)) (h : bs.flatten = bs'.flatten) (i j : Nat) :
    mean bs j = mean bs' j ∧ variance bs j = variance bs' j ∧ covariance bs i j = covariance bs' i j := by
  have hm : ∀ j, mean bs j = mean bs' j := by
    intro j; simp only [mean, bsum_eq_flatten, count_eq_flatten, h]
  refine ⟨hm j, ?_, ?_⟩
  · simp only [variance, bsum_eq_flatten, count_eq_flatten, h, hm]
  · simp only [covariance, bsum_eq_flatten, count_eq_flatten, h, hm]

end SharkVerif.C15
