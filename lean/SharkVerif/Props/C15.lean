/-
C15 — closed-form trainers produce the exact solution of their stated problem.

Property theorems about the exact-arithmetic (`Rat`) models of `Model/Trainers.lean`,
which are tied to the real Shark trainers by the correspondence check `checks/c15.py`
(harness/c15.cpp, harness/c15b.cpp, driver `drv_c15`).  Helper lemmas live in
`Lemmas/Trainers.lean`, `Lemmas/LinReg.lean`, `Lemmas/Stats.lean`.

All statements quantify over every dataset (any number of points, any dimension, rows
of any length — components beyond the end of a row read as 0 —, rank-deficient or
constant features, more features than points) and every partition into batches.
Square roots, logarithms, the eigen-solver and the semi-definite solver are parameters;
what is assumed about them is a hypothesis of the theorem that uses them, and each such
hypothesis is checked on the values the real code returns by the correspondence.
-/
import SharkVerif.Lemmas.LinReg
import SharkVerif.Lemmas.Stats
import Mathlib.Tactic.NormNum
import Mathlib.Tactic.IntervalCases
namespace SharkVerif.C15
open SharkVerif.Trainers

/-! ## Statistics over batches -/

/-- **Batch independence of the statistics.**  For every way of cutting the same
sequence of rows into batches, the accumulated mean, variance and covariance are the
same. -/
theorem meanvar_batch_independent (bs bs' : List (List Vec)) (h : bs.flatten = bs'.flatten) (i j : Nat) :
    mean bs j = mean bs' j ∧ variance bs j = variance bs' j ∧ covariance bs i j = covariance bs' i j := by
  have hm : ∀ j, mean bs j = mean bs' j := by
    intro j; simp only [mean, bsum_eq_flatten, count_eq_flatten, h]
  refine ⟨hm j, ?_, ?_⟩
  · simp only [variance, bsum_eq_flatten, count_eq_flatten, h, hm]
  · simp only [covariance, bsum_eq_flatten, count_eq_flatten, h, hm]

/-- a column has zero variance exactly when it is constant -/
theorem variance_zero_iff_constant (bs : List (List Vec)) (j : Nat) (hne : bs.flatten ≠ []) :
    variance bs j = 0 ↔ ∀ x ∈ bs.flatten, x.at j = mean bs j :=
  variance_eq_zero_iff bs j hne

/-! ## Component normalisers -/

/-- **`NormalizeComponentsUnitVariance`** (every dataset, batch partition, dimension; `sqrt` is a
parameter whose specification `sqrt v · sqrt v = v` is assumed at the variance of the column).
On a non-constant column the transformed training data have variance 1 and mean 0 (mean
`mean/stddev` if the trainer was built with `zeroMean = false`); a constant column
(variance 0) is mapped to 0 identically. -/
theorem unitvariance_output (sqrt : Rat → Rat) (zeroMean : Bool) (bs : List (List Vec)) (d j : Nat) (hj : j < d)
    (hne : bs.flatten ≠ [])
    (hs : sqrt (variance bs j) * sqrt (variance bs j) = variance bs j) :
    let out := (unitVariance sqrt zeroMean bs).applyData d bs
    (variance bs j ≠ 0 →
        variance out j = 1 ∧ mean out j = if zeroMean then 0 else mean bs j / sqrt (variance bs j))
    ∧ (variance bs j = 0 → ∀ y ∈ out.flatten, y.at j = 0) := by
  intro out
  constructor
  · intro hv
    have hs0 : sqrt (variance bs j) ≠ 0 := by
      intro h0; rw [h0] at hs; exact hv (by linarith)
    have hT : ∀ x ∈ bs.flatten, ((unitVariance sqrt zeroMean bs).apply d x).at j
        = (1 / sqrt (variance bs j)) * x.at j
          + (if zeroMean then -(mean bs j) / sqrt (variance bs j) else 0) := by
      intro x _
      rw [normalizer_apply_at _ d j x hj]
      simp only [unitVariance, hs0, if_false]
    constructor
    · show variance ((bs.map fun b => b.map ((unitVariance sqrt zeroMean bs).apply d))) j = 1
      rw [variance_affine bs _ j _ _ hne hT]
      have : 1 / sqrt (variance bs j) * (1 / sqrt (variance bs j)) * (sqrt (variance bs j) * sqrt (variance bs j)) = 1 := by
        field_simp
      rw [hs] at this
      exact this
    · show mean ((bs.map fun b => b.map ((unitVariance sqrt zeroMean bs).apply d))) j = _
      rw [mean_affine bs _ j _ _ hne hT]
      cases zeroMean
      · simp; ring
      · simp; field_simp; ring
  · intro hv
    have hs0 : sqrt (variance bs j) = 0 := by
      have h0 : sqrt (variance bs j) * sqrt (variance bs j) = 0 := by rw [hs]; exact hv
      exact mul_self_eq_zero.mp h0
    intro y hy
    have : out.flatten = bs.flatten.map ((unitVariance sqrt zeroMean bs).apply d) := flatten_map_map bs _
    rw [this] at hy
    rcases List.mem_map.mp hy with ⟨x, _, rfl⟩
    rw [normalizer_apply_at _ d j x hj]
    simp [unitVariance, hs0]

/-- non-vacuity of `unitvariance_output`: the column (0, 2) has variance 1 and `sqrt 1 = 1` -/
example : ([[[0]], [[2]]] : List (List Vec)).flatten ≠ [] ∧
    (fun v : Rat => if v = 1 then 1 else 0) (variance [[[0]], [[2]]] 0)
      * (fun v : Rat => if v = 1 then 1 else 0) (variance [[[0]], [[2]]] 0) = variance [[[0]], [[2]]] 0
    ∧ variance [[[0]], [[2]]] 0 ≠ 0 := by
  refine ⟨by simp, ?_, ?_⟩ <;> norm_num [variance, mean, bsum, lsum, count, Vec.at]

/-- **`NormalizeComponentsUnitInterval`** (repaired trainer, see F-C15-1): on a non-constant
column the transformed training data lie in `[0,1]` and attain both 0 and 1; a constant
column is mapped to 1/2. -/
theorem unitinterval_output (bs : List (List Vec)) (d j : Nat) (hj : j < d) (hne : bs.flatten ≠ []) :
    let m := unitInterval bs
    (colMin bs j ≠ colMax bs j →
        (∀ x ∈ bs.flatten, 0 ≤ (m.apply d x).at j ∧ (m.apply d x).at j ≤ 1)
        ∧ (∃ x ∈ bs.flatten, (m.apply d x).at j = 0) ∧ (∃ x ∈ bs.flatten, (m.apply d x).at j = 1))
    ∧ (colMin bs j = colMax bs j → ∀ x ∈ bs.flatten, (m.apply d x).at j = 1 / 2) := by
  intro m
  constructor
  · intro hc
    obtain ⟨xlo, hxlo, hlo⟩ := colMin_attained bs j hne
    obtain ⟨xhi, hxhi, hhi⟩ := colMax_attained bs j hne
    have hle : colMin bs j ≤ colMax bs j := le_trans (colMin_le bs j xlo hxlo) (le_colMax bs j xlo hxlo)
    have hlt : 0 < colMax bs j - colMin bs j := by
      rcases lt_or_eq_of_le hle with h | h
      · linarith
      · exact absurd h hc
    have hval : ∀ x, (m.apply d x).at j = (x.at j - colMin bs j) / (colMax bs j - colMin bs j) := by
      intro x
      rw [normalizer_apply_at _ d j x hj]
      simp only [m, unitInterval, unitIntervalWith, hc, if_false]
      field_simp
      ring
    refine ⟨fun x hx => ?_, ⟨xlo, hxlo, ?_⟩, ⟨xhi, hxhi, ?_⟩⟩
    · rw [hval]
      have h1 := colMin_le bs j x hx
      have h2 := le_colMax bs j x hx
      exact ⟨div_nonneg (by linarith) hlt.le, by rw [div_le_iff₀ hlt]; linarith⟩
    · rw [hval, hlo]; simp
    · rw [hval, hhi]; exact div_self hlt.ne'
  · intro hc x _
    rw [normalizer_apply_at _ d j x hj]
    simp [m, unitInterval, unitIntervalWith, hc]

/-- **F-C15-1** — what the pinned source does on a constant column with value `v`:
every point is mapped to `1/2 − v`. -/
theorem unitinterval_pinned_constant_column (bs : List (List Vec)) (d j : Nat) (hj : j < d)
    (hc : colMin bs j = colMax bs j) (x : Vec) :
    ((unitIntervalPinned bs).apply d x).at j = 1 / 2 - colMin bs j := by
  rw [normalizer_apply_at _ d j x hj]
  simp [unitIntervalPinned, unitIntervalWith, hc]
  ring

/-- witness: two points with the constant feature 1 are mapped to −1/2, outside `[0,1]` -/
theorem unitinterval_pinned_out_of_range :
    ((unitIntervalPinned [[[1], [1]]]).apply 1 [1]).at 0 = -1 / 2 := by
  rw [unitinterval_pinned_constant_column _ 1 0 (by omega) (by norm_num [colMin, colMax, Vec.at])]
  norm_num [colMin, Vec.at]

/-! ## Linear (ridge) regression -/

/-- **Normal equations ⇔ vanishing gradient** (every `n`, `d`, label column `c`, batch
partition, `λ`): the parameter column `β` satisfies `(A·β)_i = (XᵀL)_{ic}` for all rows
`i ≤ d` of the accumulated system of `LinearRegression::train` iff every partial
derivative `linregGradient` of `½ Σ((x|1)·β − l_c)² + ½ λ Σ_{j<d} β_j²` vanishes. -/
theorem linreg_normal_equations (bs : LData) (d : Nat) (lam : Rat) (c : Nat) (β : Nat → Rat) :
    (∀ i, i ≤ d → matMul (d + 1) (linregA bs d lam) (fun j _ => β j) i 0 = linregRhs bs d i c)
      ↔ ∀ i, i ≤ d → linregGradient bs d lam c β i = 0 :=
  normalEq_iff_gradient bs d lam c β

/-- `linregGradient` *is* the gradient: the objective is exactly
`E(β+δ) = E(β) + ⟨∇E(β), δ⟩ + Q(δ)` with the non-negative quadratic form
`Q(δ) = ½ Σ ((x|1)·δ)² + ½ λ Σ_{j<d} δ_j²`. -/
theorem linreg_objective_expansion (bs : LData) (d : Nat) (lam : Rat) (c : Nat) (β δ : Nat → Rat) :
    linregObjective bs d lam c (fun j => β j + δ j)
      = linregObjective bs d lam c β + rsum (d + 1) (fun i => linregGradient bs d lam c β i * δ i)
        + linregQuad bs d lam δ
    ∧ (0 ≤ lam → 0 ≤ linregQuad bs d lam δ) :=
  ⟨objective_expansion bs d lam c β δ, fun h => linregQuad_nonneg bs d lam h δ⟩

/-- **Stationary ⇔ optimal.**  For `λ ≥ 0` the normal equations hold at `β` iff `β` is a
global minimiser of the regularised squared error (rank-deficient data and `d > n`
included: no uniqueness is claimed). -/
theorem linreg_normal_equations_iff_minimiser (bs : LData) (d : Nat) (lam : Rat) (hlam : 0 ≤ lam) (c : Nat)
    (β : Nat → Rat) :
    NormalEq bs d lam c β ↔ ∀ β', linregObjective bs d lam c β ≤ linregObjective bs d lam c β' :=
  ⟨minimiser_of_normalEq bs d lam hlam c β, normalEq_of_minimiser bs d lam hlam c β⟩

/-- specification of `solve(A, B, symm_semi_pos_def, left)`: it returns a solution
whenever one exists -/
def SolverSpec (solve : Solver) : Prop :=
  ∀ n k A R, (∃ X : Nat → Nat → Rat, ∀ i, i < n → ∀ c, c < k → matMul n A X i c = R i c) →
    ∀ i, i < n → ∀ c, c < k → matMul n A (solve n k A R) i c = R i c

/-- **The trained model is optimal** (all `n`, `d`, `k`, batch partitions, `λ ≥ 0`): if the
solver meets its specification and the accumulated system is solvable, the parameters
returned by `LinearRegression::train` make the gradient vanish in every output column
and minimise the total regularised squared error over all parameter matrices. -/
theorem linreg_train_optimal (solve : Solver) (hs : SolverSpec solve) (bs : LData) (d k : Nat) (lam : Rat)
    (hlam : 0 ≤ lam)
    (hcons : ∃ X : Nat → Nat → Rat, ∀ i, i < d + 1 → ∀ c, c < k →
      matMul (d + 1) (linregA bs d lam) X i c = linregRhs bs d i c) :
    let B := linregTrain solve bs d k lam
    (∀ c, c < k → ∀ i, i ≤ d → linregGradient bs d lam c (fun j => B j c) i = 0)
    ∧ ∀ B' : Nat → Nat → Rat, linregObjectiveAll bs d k lam B ≤ linregObjectiveAll bs d k lam B' := by
  intro B
  have hB : ∀ c, c < k → NormalEq bs d lam c (fun j => B j c) := by
    intro c hc i hi
    exact hs (d + 1) k _ _ hcons i (by omega) c hc
  refine ⟨fun c hc => (normalEq_iff_gradient bs d lam c _).mp (hB c hc), fun B' => ?_⟩
  unfold linregObjectiveAll
  have : ∀ c, c < k → 0 ≤ linregObjective bs d lam c (fun j => B' j c) - linregObjective bs d lam c (fun j => B j c) := by
    intro c hc
    have := minimiser_of_normalEq bs d lam hlam c _ (hB c hc) (fun j => B' j c)
    linarith
  have h2 := rsum_nonneg this
  rw [rsum_sub] at h2
  linarith

/-- the accumulated system does not depend on the batch partition, hence neither does
the trained model (for any solver, as a function of the system) -/
theorem linreg_batch_independent (solve : Solver) (bs bs' : LData) (h : bs.flatten = bs'.flatten)
    (d k : Nat) (lam : Rat) :
    linregA bs d lam = linregA bs' d lam ∧ linregRhs bs d = linregRhs bs' d
      ∧ linregTrain solve bs d k lam = linregTrain solve bs' d k lam := by
  have hA : linregA bs d lam = linregA bs' d lam := by
    funext i j; simp only [linregA, bsum_eq_flatten, h]
  have hR : linregRhs bs d = linregRhs bs' d := by
    funext i c; simp only [linregRhs, bsum_eq_flatten, h]
  exact ⟨hA, hR, by unfold linregTrain; rw [hA, hR]⟩

/-- non-vacuity: the points (0,1), (1,3) in two batches, `λ = 0`; `β = (2, 1)` solves the normal equations -/
example : NormalEq [[([0], [1])], [([1], [3])]] 1 0 0 (fun j => if j = 0 then 2 else 1) := by
  intro i hi
  interval_cases i <;> norm_num [applyA, linregA, linregRhs, bsum, lsum, rsum, ext1, Vec.at]

end SharkVerif.C15
