/-
C15 — closed-form trainers produce the exact solution of their stated problem.

Property theorems about the exact-arithmetic (`Rat`) models of `Model/Trainers.lean`,
which are tied to the real Shark trainers by the correspondence check `checks/c15.py`
(harness/c15.cpp, harness/c15b.cpp, driver `drv_c15`).  Helper lemmas live in
`Lemmas/Trainers.lean`, `Lemmas/LinReg.lean`, `Lemmas/Stats.lean`.

All statements quantify over every dataset (any number of points, any dimension, rows
of any length — components beyond the end of a row read as 0 —, rank-deficient or
constant features, more features than points) and every partition into batches.
Square roots, logarithms, the eigen-solver and the semi-definite solver are parameters;
what is assumed about them is a hypothesis of the theorem that uses them, and each such
hypothesis is checked on the values the real code returns by the correspondence.
-/
import SharkVerif.Lemmas.LinReg
import SharkVerif.Lemmas.LinRegExists
import SharkVerif.Lemmas.Stats
import SharkVerif.Lemmas.Linear
import SharkVerif.Lemmas.LDA
import SharkVerif.Lemmas.ZCA
import SharkVerif.Lemmas.TrainersKernel
import Mathlib.Tactic.NormNum
import Mathlib.Tactic.IntervalCases
namespace SharkVerif.C15
open SharkVerif.Trainers

/-! ## Statistics over batches -/

/-- **Batch independence of the statistics.**  For every way of cutting the same
sequence of rows into batches, the accumulated mean, variance and covariance are the
same. -/
theorem meanvar_batch_independent (bs bs' : List (List Vec)) (h : bs.flatten = bs'.flatten) (i j : Nat) :
    mean bs j = mean bs' j ∧ variance bs j = variance bs' j ∧ covariance bs i j = covariance bs' i j := by
  have hm : ∀ j, mean bs j = mean bs' j := by
    intro j; simp only [mean, bsum_eq_flatten, count_eq_flatten, h]
  refine ⟨hm j, ?_, ?_⟩
  · simp only [variance, bsum_eq_flatten, count_eq_flatten, h, hm]
  · simp only [covariance, bsum_eq_flatten, count_eq_flatten, h, hm]

/-- a column has zero variance exactly when it is constant -/
theorem variance_zero_iff_constant (bs : List (List Vec)) (j : Nat) (hne : bs.flatten ≠ []) :
    variance bs j = 0 ↔ ∀ x ∈ bs.flatten, x.at j = mean bs j :=
  variance_eq_zero_iff bs j hne

/-! ## Component normalisers -/

/-- **`NormalizeComponentsUnitVariance`** (every dataset, batch partition, dimension; `sqrt` is a
parameter whose specification `sqrt v · sqrt v = v` is assumed at the variance of the column).
On a non-constant column the transformed training data have variance 1 and mean 0 (mean
`mean/stddev` if the trainer was built with `zeroMean = false`); a constant column
(variance 0) is mapped to 0 identically. -/
theorem unitvariance_output (sqrt : Rat → Rat) (zeroMean : Bool) (bs : List (List Vec)) (d j : Nat) (hj : j < d)
    (hne : bs.flatten ≠ [])
    (hs : sqrt (variance bs j) * sqrt (variance bs j) = variance bs j) :
    let out := (unitVariance sqrt zeroMean bs).applyData d bs
    (variance bs j ≠ 0 →
        variance out j = 1 ∧ mean out j = if zeroMean then 0 else mean bs j / sqrt (variance bs j))
    ∧ (variance bs j = 0 → ∀ y ∈ out.flatten, y.at j = 0) := by
  intro out
  constructor
  · intro hv
    have hs0 : sqrt (variance bs j) ≠ 0 := by
      intro h0; rw [h0] at hs; exact hv (by linarith)
    have hT : ∀ x ∈ bs.flatten, ((unitVariance sqrt zeroMean bs).apply d x).at j
        = (1 / sqrt (variance bs j)) * x.at j
          + (if zeroMean then -(mean bs j) / sqrt (variance bs j) else 0) := by
      intro x _
      rw [normalizer_apply_at _ d j x hj]
      simp only [unitVariance, hs0, if_false]
    constructor
    · show variance ((bs.map fun b => b.map ((unitVariance sqrt zeroMean bs).apply d))) j = 1
      rw [variance_affine bs _ j _ _ hne hT]
      have : 1 / sqrt (variance bs j) * (1 / sqrt (variance bs j)) * (sqrt (variance bs j) * sqrt (variance bs j)) = 1 := by
        field_simp
      rw [hs] at this
      exact this
    · show mean ((bs.map fun b => b.map ((unitVariance sqrt zeroMean bs).apply d))) j = _
      rw [mean_affine bs _ j _ _ hne hT]
      cases zeroMean
      · simp; ring
      · simp; field_simp; ring
  · intro hv
    have hs0 : sqrt (variance bs j) = 0 := by
      have h0 : sqrt (variance bs j) * sqrt (variance bs j) = 0 := by rw [hs]; exact hv
      exact mul_self_eq_zero.mp h0
    intro y hy
    have : out.flatten = bs.flatten.map ((unitVariance sqrt zeroMean bs).apply d) := flatten_map_map bs _
    rw [this] at hy
    rcases List.mem_map.mp hy with ⟨x, _, rfl⟩
    rw [normalizer_apply_at _ d j x hj]
    simp [unitVariance, hs0]

/-- non-vacuity of `unitvariance_output`: the column (0, 2) has variance 1 and `sqrt 1 = 1` -/
example : ([[[0]], [[2]]] : List (List Vec)).flatten ≠ [] ∧
    (fun v : Rat => if v = 1 then 1 else 0) (variance [[[0]], [[2]]] 0)
      * (fun v : Rat => if v = 1 then 1 else 0) (variance [[[0]], [[2]]] 0) = variance [[[0]], [[2]]] 0
    ∧ variance [[[0]], [[2]]] 0 ≠ 0 := by
  refine ⟨by simp, ?_, ?_⟩ <;> norm_num [variance, mean, bsum, lsum, count, Vec.at]

/-- **`NormalizeComponentsUnitInterval`** (repaired trainer, see F-C15-1): on a non-constant
column the transformed training data lie in `[0,1]` and attain both 0 and 1; a constant
column is mapped to 1/2. -/
theorem unitinterval_output (bs : List (List Vec)) (d j : Nat) (hj : j < d) (hne : bs.flatten ≠ []) :
    let m := unitInterval bs
    (colMin bs j ≠ colMax bs j →
        (∀ x ∈ bs.flatten, 0 ≤ (m.apply d x).at j ∧ (m.apply d x).at j ≤ 1)
        ∧ (∃ x ∈ bs.flatten, (m.apply d x).at j = 0) ∧ (∃ x ∈ bs.flatten, (m.apply d x).at j = 1))
    ∧ (colMin bs j = colMax bs j → ∀ x ∈ bs.flatten, (m.apply d x).at j = 1 / 2) := by
  intro m
  constructor
  · intro hc
    obtain ⟨xlo, hxlo, hlo⟩ := colMin_attained bs j hne
    obtain ⟨xhi, hxhi, hhi⟩ := colMax_attained bs j hne
    have hle : colMin bs j ≤ colMax bs j := le_trans (colMin_le bs j xlo hxlo) (le_colMax bs j xlo hxlo)
    have hlt : 0 < colMax bs j - colMin bs j := by
      rcases lt_or_eq_of_le hle with h | h
      · linarith
      · exact absurd h hc
    have hval : ∀ x, (m.apply d x).at j = (x.at j - colMin bs j) / (colMax bs j - colMin bs j) := by
      intro x
      rw [normalizer_apply_at _ d j x hj]
      simp only [m, unitInterval, unitIntervalWith, hc, if_false]
      field_simp
      ring
    refine ⟨fun x hx => ?_, ⟨xlo, hxlo, ?_⟩, ⟨xhi, hxhi, ?_⟩⟩
    · rw [hval]
      have h1 := colMin_le bs j x hx
      have h2 := le_colMax bs j x hx
      exact ⟨div_nonneg (by linarith) hlt.le, by rw [div_le_iff₀ hlt]; linarith⟩
    · rw [hval, hlo]; simp
    · rw [hval, hhi]; exact div_self hlt.ne'
  · intro hc x _
    rw [normalizer_apply_at _ d j x hj]
    simp [m, unitInterval, unitIntervalWith, hc]

/-- **F-C15-1** — what the pinned source does on a constant column with value `v`:
every point is mapped to `1/2 − v`. -/
theorem unitinterval_pinned_constant_column (bs : List (List Vec)) (d j : Nat) (hj : j < d)
    (hc : colMin bs j = colMax bs j) (x : Vec) :
    ((unitIntervalPinned bs).apply d x).at j = 1 / 2 - colMin bs j := by
  rw [normalizer_apply_at _ d j x hj]
  simp [unitIntervalPinned, unitIntervalWith, hc]
  ring

/-- witness: two points with the constant feature 1 are mapped to −1/2, outside `[0,1]` -/
theorem unitinterval_pinned_out_of_range :
    ((unitIntervalPinned [[[1], [1]]]).apply 1 [1]).at 0 = -1 / 2 := by
  rw [unitinterval_pinned_constant_column _ 1 0 (by omega) (by norm_num [colMin, colMax, Vec.at])]
  norm_num [colMin, Vec.at]


/-- **The normalisers and the whitening model do not depend on the batch partition**: for two
batchings of the same sequence of rows, `NormalizeComponentsUnitVariance`, `…UnitInterval`
and the whitening / ZCA model (for any decomposition routine, as a function of the covariance)
are the same model. -/
theorem normalizers_batch_independent (bs bs' : List (List Vec)) (h : bs.flatten = bs'.flatten)
    (sqrt : Rat → Rat) (zeroMean : Bool)
    (factor : Nat → (Nat → Nat → Rat) → Nat × (Nat → Nat → Rat)) (sqrtT : Rat) (d : Nat) :
    unitVariance sqrt zeroMean bs = unitVariance sqrt zeroMean bs'
    ∧ unitInterval bs = unitInterval bs'
    ∧ whitening factor sqrtT bs d = whitening factor sqrtT bs' d := by
  have hm : mean bs = mean bs' := by
    funext j; exact (meanvar_batch_independent bs bs' h 0 j).1
  have hv : variance bs = variance bs' := by
    funext j; exact (meanvar_batch_independent bs bs' h 0 j).2.1
  have hc : covariance bs = covariance bs' := by
    funext i j; exact (meanvar_batch_independent bs bs' h i j).2.2
  have hmin : colMin bs = colMin bs' := by funext j; simp only [colMin, h]
  have hmax : colMax bs = colMax bs' := by funext j; simp only [colMax, h]
  refine ⟨?_, ?_, ?_⟩
  · simp only [unitVariance, hm, hv]
  · simp only [unitInterval, unitIntervalWith, hmin, hmax]
  · simp only [whitening, hm, hc]

/-! ## Whitening -/

/-- **`NormalizeComponentsWhitening` / `NormalizeComponentsZCA`** (every dataset, partition,
target variance `t = sqrtT²`): if the factor `C` (`r × d`) delivered by the decomposition of
the covariance satisfies its specification `C·Cov·Cᵀ = I_r`, the transformed training data
have mean 0 and covariance `t·I_r`.  (For a rank-deficient covariance `r` is the rank and
`C` comes from the pivoted Cholesky factor; the specification is what the correspondence
checks on the returned matrix.) -/
theorem whitening_output (factor : Nat → (Nat → Nat → Rat) → Nat × (Nat → Nat → Rat)) (sqrtT t : Rat)
    (bs : List (List Vec)) (d : Nat) (hne : bs.flatten ≠ []) (hs : sqrtT * sqrtT = t)
    (hC : ∀ a, a < (factor d (covariance bs)).1 → ∀ b, b < (factor d (covariance bs)).1 →
      rsum d (fun i => rsum d (fun j =>
        (factor d (covariance bs)).2 a i * covariance bs i j * (factor d (covariance bs)).2 b j))
        = if a = b then 1 else 0) :
    let m := whitening factor sqrtT bs d
    let out := m.applyData d bs
    ∀ a, a < m.rows → ∀ b, b < m.rows →
      mean out a = 0 ∧ covariance out a b = if a = b then t else 0 := by
  intro m out a ha b hb
  have hTa : ∀ x ∈ bs.flatten, (m.apply d x).at a = rsum d (fun j => m.W a j * x.at j) + m.b a :=
    fun x _ => linearModel_apply_at m d a x ha
  have hTb : ∀ x ∈ bs.flatten, (m.apply d x).at b = rsum d (fun j => m.W b j * x.at j) + m.b b :=
    fun x _ => linearModel_apply_at m d b x hb
  constructor
  · show mean (bs.map fun B => B.map (m.apply d)) a = 0
    rw [mean_linear bs _ d a _ _ hne hTa]
    show rsum d (fun j => (factor d (covariance bs)).2 a j * sqrtT * mean bs j)
      + -(rsum d fun j => (factor d (covariance bs)).2 a j * sqrtT * mean bs j) = 0
    ring
  · show covariance (bs.map fun B => B.map (m.apply d)) a b = _
    rw [covariance_linear bs _ d a b _ _ _ _ hne hTa hTb]
    have : ∀ i, i < d → rsum d (fun j => m.W a i * covariance bs i j * m.W b j)
        = t * rsum d (fun j => (factor d (covariance bs)).2 a i * covariance bs i j * (factor d (covariance bs)).2 b j) := by
      intro i _
      rw [← rsum_mul_left]
      apply rsum_congr; intro j _
      show (factor d (covariance bs)).2 a i * sqrtT * covariance bs i j * ((factor d (covariance bs)).2 b j * sqrtT) = _
      rw [← hs]; ring
    rw [rsum_congr this, rsum_mul_left, hC a ha b hb]
    by_cases e : a = b <;> simp [e]

/-- **`NormalizeComponentsZCA`** with a regular covariance: given the eigen-solver specification
(`Q` with orthonormal columns, `Cov = Q·diag(D)·Qᵀ`) and `s_k = 1/√D_k` specified by
`s_k²·D_k = 1` (so every `D_k ≠ 0`), the matrix `√t · Q·diag(s)·Qᵀ` the trainer installs maps
the training data to mean 0 and covariance `t·I_d`.  (For a singular covariance the pinned
source divides by zero — F-C15-2 — and the repaired one whitens only the range; that case is
covered by `zca_output` below, which has no such hypothesis; this is its regular case,
where the projector is the identity.) -/
theorem zca_output_regular (Q : Nat → Nat → Rat) (D s : Nat → Rat) (sqrtT t : Rat)
    (bs : List (List Vec)) (d : Nat) (hne : bs.flatten ≠ []) (hs : sqrtT * sqrtT = t)
    (hQ : ∀ k, k < d → ∀ l, l < d → rsum d (fun i => Q i k * Q i l) = if k = l then 1 else 0)
    (hcov : ∀ i, i < d → ∀ j, j < d → covariance bs i j = rsum d (fun k => Q i k * D k * Q j k))
    (hsD : ∀ k, k < d → s k * s k * D k = 1) :
    let m := whitening (fun _ _ => (d, zcaFactor Q s d)) sqrtT bs d
    let out := m.applyData d bs
    ∀ a, a < d → ∀ b, b < d → mean out a = 0 ∧ covariance out a b = if a = b then t else 0 :=
  whitening_output (fun _ _ => (d, zcaFactor Q s d)) sqrtT t bs d hne hs
    (fun a ha b hb => zca_factor_spec d Q D s (covariance bs) hQ hcov hsD a b ha hb)

/-- **Whitening, whatever the factor**: the transformed training data have mean 0 and covariance
`t · C·Cov·Cᵀ` (no specification of the factor assumed). -/
theorem whitening_output_general (factor : Nat → (Nat → Nat → Rat) → Nat × (Nat → Nat → Rat)) (sqrtT t : Rat)
    (bs : List (List Vec)) (d : Nat) (hne : bs.flatten ≠ []) (hs : sqrtT * sqrtT = t) :
    let m := whitening factor sqrtT bs d
    let out := m.applyData d bs
    ∀ a, a < m.rows → ∀ b, b < m.rows →
      mean out a = 0 ∧ covariance out a b = t * rsum d (fun i => rsum d (fun j =>
        (factor d (covariance bs)).2 a i * covariance bs i j * (factor d (covariance bs)).2 b j)) := by
  intro m out a ha b hb
  have hTa : ∀ x ∈ bs.flatten, (m.apply d x).at a = rsum d (fun j => m.W a j * x.at j) + m.b a :=
    fun x _ => linearModel_apply_at m d a x ha
  have hTb : ∀ x ∈ bs.flatten, (m.apply d x).at b = rsum d (fun j => m.W b j * x.at j) + m.b b :=
    fun x _ => linearModel_apply_at m d b x hb
  constructor
  · show mean (bs.map fun B => B.map (m.apply d)) a = 0
    rw [mean_linear bs _ d a _ _ hne hTa]
    show rsum d (fun j => (factor d (covariance bs)).2 a j * sqrtT * mean bs j)
      + -(rsum d fun j => (factor d (covariance bs)).2 a j * sqrtT * mean bs j) = 0
    ring
  · show covariance (bs.map fun B => B.map (m.apply d)) a b = _
    rw [covariance_linear bs _ d a b _ _ _ _ hne hTa hTb]
    have : ∀ i, i < d → rsum d (fun j => m.W a i * covariance bs i j * m.W b j)
        = t * rsum d (fun j => (factor d (covariance bs)).2 a i * covariance bs i j * (factor d (covariance bs)).2 b j) := by
      intro i _
      rw [← rsum_mul_left]
      apply rsum_congr; intro j _
      show (factor d (covariance bs)).2 a i * sqrtT * covariance bs i j * ((factor d (covariance bs)).2 b j * sqrtT) = _
      rw [← hs]; ring
    rw [rsum_congr this, rsum_mul_left]

/-- **`NormalizeComponentsZCA`, every covariance (singular included)**: given the eigen-solver specification
(`Q` with orthonormal columns, `Cov = Q·diag(D)·Qᵀ`) and scales with `s_k²·D_k = e_k ∈ {0,1}` — `e_k = 1` on the
directions the trainer rescales (`s_k = 1/√D_k`), `e_k = 0` on those it clears (`s_k = 0` for `D_k ≤ 1e-15·D_0`,
see `zca_scale_spec`) — the matrix `√t · Q·diag(s)·Qᵀ` maps the training data to mean 0 and covariance
`t · Q·diag(e)·Qᵀ`: `t` times the ORTHOGONAL PROJECTOR onto the kept eigen-directions (symmetric, idempotent),
which is `t·I` when nothing is cleared (`zca_output_regular`).  This replaces the former `zca_output_partial`:
no hypothesis excludes an input the trainer accepts. -/
theorem zca_output (Q : Nat → Nat → Rat) (D s e : Nat → Rat) (sqrtT t : Rat)
    (bs : List (List Vec)) (d : Nat) (hne : bs.flatten ≠ []) (hs : sqrtT * sqrtT = t)
    (hQ : ∀ k, k < d → ∀ l, l < d → rsum d (fun i => Q i k * Q i l) = if k = l then 1 else 0)
    (hcov : ∀ i, i < d → ∀ j, j < d → covariance bs i j = rsum d (fun k => Q i k * D k * Q j k))
    (hsD : ∀ k, k < d → s k * s k * D k = e k) (he : ∀ k, k < d → e k * e k = e k) :
    let m := whitening (fun _ _ => (d, zcaFactor Q s d)) sqrtT bs d
    let out := m.applyData d bs
    let P : Nat → Nat → Rat := fun a b => rsum d (fun k => Q a k * e k * Q b k)
    (∀ a, a < d → ∀ b, b < d → mean out a = 0 ∧ covariance out a b = t * P a b)
    ∧ (∀ a, a < d → ∀ b, b < d → P a b = P b a ∧ rsum d (fun j => P a j * P j b) = P a b) := by
  intro m out P
  constructor
  · intro a ha b hb
    have h := whitening_output_general (fun _ _ => (d, zcaFactor Q s d)) sqrtT t bs d hne hs a ha b hb
    refine ⟨h.1, ?_⟩
    rw [h.2]
    show t * rsum d (fun i => rsum d (fun j => zcaFactor Q s d a i * covariance bs i j * zcaFactor Q s d b j)) = _
    rw [zca_factor_spec_general d Q D s e (covariance bs) hQ hcov hsD a b ha hb]
  · intro a ha b hb
    exact ⟨rsum_congr (fun k _ => by ring), zca_projector_spec d Q e hQ he a b ha hb⟩

/-- the scales `NormalizeComponentsZCA::train` computes, `s_k = 1/√D_k` if `D_k > 1e-15·D_0` and 0 otherwise,
satisfy the hypothesis of `zca_output` with `e_k = [D_k > 1e-15·D_0]`, given `sqrt` at the kept eigenvalues -/
theorem zca_scale_spec (sqrt : Rat → Rat) (D : Nat → Rat) (k : Nat)
    (hsq : D k > (1 / 1000000000000000) * D 0 → sqrt (D k) * sqrt (D k) = D k ∧ sqrt (D k) ≠ 0) :
    zcaScale sqrt D k * zcaScale sqrt D k * D k = (if D k > (1 / 1000000000000000) * D 0 then 1 else 0)
    ∧ (if D k > (1 / 1000000000000000) * D 0 then (1 : Rat) else 0) * (if D k > (1 / 1000000000000000) * D 0 then 1 else 0)
        = (if D k > (1 / 1000000000000000) * D 0 then 1 else 0) := by
  unfold zcaScale
  by_cases h : D k > (1 / 1000000000000000) * D 0
  · obtain ⟨h1, h2⟩ := hsq h
    simp only [h, if_true]
    refine ⟨?_, by norm_num⟩
    have : 1 / sqrt (D k) * (1 / sqrt (D k)) * (sqrt (D k) * sqrt (D k)) = 1 := by field_simp
    rw [h1] at this
    exact this
  · rw [if_neg h, if_neg h]; norm_num

/-- non-vacuity of `zca_output` with a cleared direction: the points (−1,5), (1,5) — second feature constant —,
`Q = I`, `D = (1, 0)`, `s = e = (1, 0)` -/
example : (∀ i, i < 2 → ∀ j, j < 2 → covariance [[[-1, 5], [1, 5]]] i j
      = rsum 2 (fun k => (if i = k then (1 : Rat) else 0) * (if k = 0 then 1 else 0) * (if j = k then 1 else 0)))
    ∧ ∀ k, k < 2 → (if k = 0 then (1 : Rat) else 0) * (if k = 0 then 1 else 0) * (if k = 0 then 1 else 0) = (if k = 0 then 1 else 0) := by
  constructor
  · intro i hi j hj
    interval_cases i <;> interval_cases j <;> norm_num [rsum, covariance, mean, bsum, lsum, count, Vec.at]
  · intro k hk; interval_cases k <;> norm_num

/-- the general fact behind it: covariance of a linear image of the data is `W·Cov·W'ᵀ` -/
theorem linear_image_covariance (m : LinearModel) (bs : List (List Vec)) (d a b : Nat) (ha : a < m.rows)
    (hb : b < m.rows) (hne : bs.flatten ≠ []) :
    mean (m.applyData d bs) a = rsum d (fun j => m.W a j * mean bs j) + m.b a
    ∧ covariance (m.applyData d bs) a b = rsum d (fun i => rsum d (fun j => m.W a i * covariance bs i j * m.W b j)) :=
  ⟨mean_linear bs _ d a _ _ hne (fun x _ => linearModel_apply_at m d a x ha),
   covariance_linear bs _ d a b _ _ _ _ hne (fun x _ => linearModel_apply_at m d a x ha)
     (fun x _ => linearModel_apply_at m d b x hb)⟩

/-! ## Principal component analysis -/

/-- **Encoder / decoder = orthogonal projection** (every dimension `n`, number of components `m`,
mean `μ`, input `x`): if the first `m` directions (columns of `V`, as the eigen-solver
specification promises) are orthonormal then
(1) encoding a decoded code returns the code, so `decoder ∘ encoder` is idempotent,
(2) the reconstruction error `x − dec(enc x)` is orthogonal to every direction, and
(3) `dec(enc x)` is the point of `μ + span(V)` closest to `x`. -/
theorem pca_projection (V : Nat → Nat → Rat) (mu : Nat → Rat) (n m : Nat) (h : Orthonormal V n m) (x : Nat → Rat) :
    (∀ z : Nat → Rat, ∀ i, i < m → pcaEnc V mu n (pcaDec V mu m z) i = z i)
    ∧ (∀ i, i < m → rsum n (fun j => V j i * (x j - pcaDec V mu m (pcaEnc V mu n x) j)) = 0)
    ∧ (∀ z : Nat → Rat,
        rsum n (fun j => (x j - pcaDec V mu m (pcaEnc V mu n x) j) * (x j - pcaDec V mu m (pcaEnc V mu n x) j))
          ≤ rsum n (fun j => (x j - pcaDec V mu m z j) * (x j - pcaDec V mu m z j))) :=
  ⟨fun z i hi => enc_dec V mu n m h z i hi, fun i hi => residual_orthogonal V mu n m h x i hi,
   fun z => best_approximation V mu n m h x z⟩

/-- **…also when some directions are zero vectors.**  The repaired small-sample branch returns the
zero vector for a direction without variance (F-C15-3), so the returned system is "orthonormal or
zero" (`OrthoOrZero`: pairwise orthogonal, each column a unit vector or 0).  Then `encoder ∘ decoder`
is the identity on the codes of unit directions and 0 on the others, and `decoder ∘ encoder` is
still the orthogonal projection onto `μ + span(V)`: residual orthogonal to every direction, closest
point. -/
theorem pca_projection_general (V : Nat → Nat → Rat) (mu : Nat → Rat) (n m : Nat) (e : Nat → Rat)
    (h : OrthoOrZero V n m e) (x : Nat → Rat) :
    (∀ z : Nat → Rat, ∀ i, i < m → pcaEnc V mu n (pcaDec V mu m z) i = e i * z i)
    ∧ (∀ i, i < m → rsum n (fun j => V j i * (x j - pcaDec V mu m (pcaEnc V mu n x) j)) = 0)
    ∧ (∀ z : Nat → Rat,
        rsum n (fun j => (x j - pcaDec V mu m (pcaEnc V mu n x) j) * (x j - pcaDec V mu m (pcaEnc V mu n x) j))
          ≤ rsum n (fun j => (x j - pcaDec V mu m z j) * (x j - pcaDec V mu m z j))) :=
  ⟨fun z i hi => enc_dec_general V mu n m e h z i hi, fun i hi => residual_orthogonal_general V mu n m e h x i hi,
   fun z => best_approximation_general V mu n m e h x z⟩

/-- non-vacuity of `OrthoOrZero` with a zero direction: `V = (e₁, 0)` in ℚ² -/
example : OrthoOrZero (fun j i => if j = 0 ∧ i = 0 then 1 else 0) 2 2 (fun a => if a = 0 then 1 else 0) := by
  refine ⟨fun a ha => by interval_cases a <;> simp, fun a ha b hb => ?_⟩
  interval_cases a <;> interval_cases b <;> norm_num [rsum]

/-- `pcaEnc` / `pcaDec` are the linear models that `PCA::encoder` / `PCA::decoder` install -/
theorem pca_models_eval (V : Nat → Nat → Rat) (mu : Nat → Rat) (n m : Nat) (x z : Vec) (i j : Nat) :
    (pcaEncoder V mu n m).eval n x i = pcaEnc V mu n x.at i
    ∧ (pcaDecoder V mu n).eval m z j = pcaDec V mu m z.at j := by
  constructor
  · unfold LinearModel.eval pcaEncoder pcaEnc; rfl
  · unfold LinearModel.eval pcaDecoder pcaDec; rfl

/-- **The variances of the principal components are the eigenvalues** (every dataset,
partition, `m`): if `(V, ev)` meets the eigen-solver specification on the model's covariance
(`Cov·v_i = ev_i·v_i`, orthonormal columns) then the encoded training data have mean 0 and
covariance `diag(ev_0, …, ev_{m-1})` — non-increasing exactly when the solver returns sorted
eigenvalues (checked on the real code by the correspondence). -/
theorem pca_encoded_covariance (bs : List (List Vec)) (n m : Nat) (hne : bs.flatten ≠ [])
    (V : Nat → Nat → Rat) (ev : Nat → Rat) (horth : Orthonormal V n m)
    (heig : ∀ i, i < m → ∀ j, j < n → rsum n (fun k => covariance bs j k * V k i) = ev i * V j i) :
    let enc := pcaEncoder V (mean bs) n m
    ∀ a, a < m → ∀ b, b < m →
      mean (enc.applyData n bs) a = 0
      ∧ covariance (enc.applyData n bs) a b = if a = b then ev a else 0 := by
  intro enc a ha b hb
  obtain ⟨hm, hc⟩ := linear_image_covariance enc bs n a b ha hb hne
  constructor
  · rw [hm]
    show rsum n (fun j => V j a * mean bs j) + -(rsum n fun j => V j a * mean bs j) = 0
    ring
  · rw [hc]
    have h1 : ∀ i, i < n → rsum n (fun j => enc.W a i * covariance bs i j * enc.W b j) = ev b * (V i a * V i b) := by
      intro i hi
      show rsum n (fun j => V i a * covariance bs i j * V j b) = _
      rw [rsum_congr (g := fun j => V i a * (covariance bs i j * V j b)) (fun j _ => by ring), rsum_mul_left,
        heig b hb i hi]
      ring
    rw [rsum_congr h1, rsum_mul_left, horth a ha b hb]
    by_cases e : a = b
    · simp [e]
    · simp [e]

/-- the same for a system of unit-or-zero directions (`OrthoOrZero`, small-sample branch with
directions without variance): covariance `diag(ev_a·e_a)`, i.e. 0 on the zero directions -/
theorem pca_encoded_covariance_general (bs : List (List Vec)) (n m : Nat) (hne : bs.flatten ≠ [])
    (V : Nat → Nat → Rat) (ev e : Nat → Rat) (horth : OrthoOrZero V n m e)
    (heig : ∀ i, i < m → ∀ j, j < n → rsum n (fun k => covariance bs j k * V k i) = ev i * V j i) :
    let enc := pcaEncoder V (mean bs) n m
    ∀ a, a < m → ∀ b, b < m →
      mean (enc.applyData n bs) a = 0
      ∧ covariance (enc.applyData n bs) a b = if a = b then ev a * e a else 0 := by
  intro enc a ha b hb
  obtain ⟨hm, hc⟩ := linear_image_covariance enc bs n a b ha hb hne
  constructor
  · rw [hm]
    show rsum n (fun j => V j a * mean bs j) + -(rsum n fun j => V j a * mean bs j) = 0
    ring
  · rw [hc]
    have h1 : ∀ i, i < n → rsum n (fun j => enc.W a i * covariance bs i j * enc.W b j) = ev b * (V i a * V i b) := by
      intro i hi
      show rsum n (fun j => V i a * covariance bs i j * V j b) = _
      rw [rsum_congr (g := fun j => V i a * (covariance bs i j * V j b)) (fun j _ => by ring), rsum_mul_left,
        heig b hb i hi]
      ring
    rw [rsum_congr h1, rsum_mul_left, horth.2 a ha b hb]
    by_cases c : a = b
    · subst c; simp
    · simp [c]

/-- **PCA with whitening** (every dataset, partition, `m`; eigen-solver specification as in
`pca_encoded_covariance`, `r_i = sqrt(λ_i)` specified by `r_i² = λ_i` on the components that
are kept): the encoded training data have mean 0 and covariance `diag(1,…,1,0,…)` — 1 on every
kept component, 0 on the components cleared because their eigenvalue is negligible. -/
theorem pca_whitened_covariance (bs : List (List Vec)) (n m : Nat) (hne : bs.flatten ≠ [])
    (V : Nat → Nat → Rat) (ev r : Nat → Rat) (horth : Orthonormal V n m)
    (heig : ∀ i, i < m → ∀ j, j < n → rsum n (fun k => covariance bs j k * V k i) = ev i * V j i)
    (hr : ∀ i, i < m → ¬ ev i ≤ (1 / 1000000000000000) * ev 0 → r i * r i = ev i ∧ r i ≠ 0) :
    let enc := pcaEncoderWhitened V (mean bs) ev r n m
    ∀ a, a < m → ∀ b, b < m →
      mean (enc.applyData n bs) a = 0
      ∧ covariance (enc.applyData n bs) a b
          = if a = b then (if ev a ≤ (1 / 1000000000000000) * ev 0 then 0 else 1) else 0 := by
  intro enc a ha b hb
  obtain ⟨hm, hc⟩ := linear_image_covariance enc bs n a b ha hb hne
  let scale : Nat → Rat := fun i => if ev i ≤ (1 / 1000000000000000) * ev 0 then 0 else 1 / r i
  have hW : ∀ i j, enc.W i j = scale i * V j i := fun i j => rfl
  have hb' : ∀ i, enc.b i = scale i * -(rsum n fun j => V j i * mean bs j) := fun i => rfl
  constructor
  · rw [hm, hb', rsum_congr (g := fun j => scale a * (V j a * mean bs j)) (fun j _ => by rw [hW]; ring),
      rsum_mul_left]
    ring
  · rw [hc]
    have h1 : ∀ i, i < n → rsum n (fun j => enc.W a i * covariance bs i j * enc.W b j)
        = scale a * scale b * ev b * (V i a * V i b) := by
      intro i hi
      rw [rsum_congr (g := fun j => scale a * V i a * scale b * (covariance bs i j * V j b))
        (fun j _ => by rw [hW, hW]; ring), rsum_mul_left, heig b hb i hi]
      ring
    rw [rsum_congr h1, rsum_mul_left, horth a ha b hb]
    by_cases e : a = b
    · subst e
      simp only [if_true, mul_one]
      by_cases hcl : ev a ≤ (1 / 1000000000000000) * ev 0
      · have hs : scale a = 0 := if_pos hcl
        rw [hs, if_pos hcl]; ring
      · obtain ⟨h2, h3⟩ := hr a ha hcl
        have hs : scale a = 1 / r a := if_neg hcl
        rw [hs, if_neg hcl, ← h2]
        field_simp
    · simp [e]

/-- **Both branches of `PCA::setData` agree** (eigen-relation `XᵀX` vs `XXᵀ`): for a centred
design matrix `X` (`l × n`), if `u` is an eigenvector of `S = XXᵀ/l` with eigenvalue `λ`
(small-sample branch) then the lifted direction `Xᵀu` is an eigenvector of the covariance
`C = XᵀX/l` (standard branch) with the same eigenvalue, and lifted directions satisfy
`(Xᵀu)·(Xᵀu') = l·λ'·(u·u')`: orthogonal eigenvectors lift to orthogonal directions of squared
norm `l·λ` — which is 0 when `λ = 0`, the case in which the C++ normalisation divides 0 by 0
(finding F-C15-3). -/
theorem pca_small_sample_agrees (X : Nat → Nat → Rat) (l n : Nat) (hl : l ≠ 0) (u u' : Nat → Rat) (lam lam' : Rat)
    (hu : ∀ a, a < l → rsum l (fun b => (rsum n (fun j => X a j * X b j) / (l : Rat)) * u b) = lam * u a)
    (hu' : ∀ a, a < l → rsum l (fun b => (rsum n (fun j => X a j * X b j) / (l : Rat)) * u' b) = lam' * u' a) :
    (∀ i, rsum n (fun j => (rsum l (fun a => X a i * X a j) / (l : Rat)) * rsum l (fun b => X b j * u b))
        = lam * rsum l (fun a => X a i * u a))
    ∧ rsum n (fun j => rsum l (fun a => X a j * u a) * rsum l (fun b => X b j * u' b))
        = (l : Rat) * lam' * rsum l (fun a => u a * u' a) :=
  ⟨fun i => lift_eigen X l n u lam hu i, lift_inner X l n hl u u' lam' hu'⟩

/-- the same statement on the model of the small-sample branch: `gramSmall` is the matrix the
C++ assembles block by block, `liftDirection` the un-normalised direction `X0ᵀu`, and
`covariance` what the standard branch decomposes.  For every dataset and batch partition, an
eigenvector of `gramSmall` lifts to an eigenvector of `covariance` with the same eigenvalue. -/
theorem pca_small_sample_agrees_model (bs : List (List Vec)) (n : Nat) (u : Nat → Rat) (lam : Rat)
    (hu : ∀ a, a < count bs → rsum (count bs) (fun b => gramSmall bs n a b * u b) = lam * u a) (i : Nat) :
    rsum n (fun j => covariance bs i j * liftDirection bs u j) = lam * liftDirection bs u i := by
  have h := lift_eigen (centred bs) (count bs) n u lam hu i
  unfold liftDirection
  rw [← h]
  exact rsum_congr (fun j _ => by rw [covariance_eq_centred])

/-! ## Objects used more than once

The property quantifies over datasets and configurations, not over what a trainer, a model or an output
argument was used for before: a `PCA` object that has already decomposed another dataset, a covariance
matrix that already holds an earlier result, must give exactly what freshly constructed objects give.
The models `PcaObject.setData` / `meanvarInto` follow the C++ statement by statement, including remora's
`resize`, which keeps the old numbers in the storage. -/

/-- **`meanvar` into a used matrix.**  Whatever the output matrix held before (any shape, any content), after
`meanvar(data, mean, C)` it has shape `d × d` and holds the covariance of the data. -/
theorem meanvar_output_reuse (C : Mat) (bs : List (List Vec)) (d i j : Nat) :
    (meanvarInto C bs d).rows = d ∧ (meanvarInto C bs d).cols = d
    ∧ (meanvarInto C bs d).get i j = covariance bs i j := by
  refine ⟨rfl, rfl, ?_⟩
  simp [meanvarInto, Mat.divBy, Mat.add, Mat.clear, Mat.resize, covariance]

/-- **`PCA::setData` does not depend on the history of the object.**  For every eigen-solver, every
algorithm selection, every dataset and any two objects `o`, `o'` (whatever they decomposed before, in either
branch, with any shape), `setData` leaves the same decomposition; only the whitening flag (configuration,
set by the caller) is carried over. -/
theorem pca_setData_history_independent (eig : EigenSolver) (norm : (Nat → Rat) → Rat) (alg : Nat)
    (o o' : PcaObject) (bs : List (List Vec)) (n : Nat) (hw : o.whitening = o'.whitening) :
    o.setData eig norm alg bs n = o'.setData eig norm alg bs n := by
  unfold PcaObject.setData
  split
  · simp [PcaObject.setDataSmall, Mat.add, Mat.clear, Mat.resize, hw]
  · simp [PcaObject.setDataStandard, hw]

/-- in particular the re-used object returns the encoder / decoder of a fresh object with the same flag -/
theorem pca_reused_object_models (eig : EigenSolver) (norm : (Nat → Rat) → Rat) (alg : Nat)
    (o : PcaObject) (bs : List (List Vec)) (n m : Nat) :
    (o.setData eig norm alg bs n).encoder m = ((PcaObject.fresh o.whitening).setData eig norm alg bs n).encoder m
    ∧ (o.setData eig norm alg bs n).decoder = ((PcaObject.fresh o.whitening).setData eig norm alg bs n).decoder := by
  rw [pca_setData_history_independent eig norm alg o (PcaObject.fresh o.whitening) bs n rfl]
  exact ⟨rfl, rfl⟩

/-- the small-sample branch returns, for every direction with non-negligible eigenvalue, the normalised lift
`X0ᵀu / ‖X0ᵀu‖` of the eigenvector `u` of `X0·X0ᵀ/l` (to which `pca_small_sample_agrees_model` applies), on
any object -/
theorem pca_small_sample_object (eig : EigenSolver) (norm : (Nat → Rat) → Rat) (o : PcaObject)
    (bs : List (List Vec)) (n j i : Nat)
    (hi : (eig (count bs) (gramSmall bs n)).1 i > (1 / 1000000000000) * (eig (count bs) (gramSmall bs n)).1 0) :
    (o.setDataSmall eig norm true bs n).V.get j i
      = liftDirection bs (fun a => (eig (count bs) (gramSmall bs n)).2 a i) j
        / norm (fun k => liftDirection bs (fun a => (eig (count bs) (gramSmall bs n)).2 a i) k) := by
  simp only [PcaObject.setDataSmall, Mat.add, Mat.clear, Mat.resize]
  rw [if_pos hi]
  simp

/-- **The `clear()` is necessary** (witness): without it the branch accumulates into what `resize` kept — an
object that decomposed a 1×1 matrix before and a fresh one disagree on the same data. -/
theorem pca_setData_without_clear_depends_on_history :
    ∃ (eig : EigenSolver) (norm : (Nat → Rat) → Rat) (o o' : PcaObject) (bs : List (List Vec)) (n : Nat),
      o.whitening = o'.whitening ∧
      (o.setDataSmall eig norm false bs n).V.get 0 0 ≠ (o'.setDataSmall eig norm false bs n).V.get 0 0 := by
  refine ⟨fun _ _ => (fun _ => 1, fun _ _ => 0), fun _ => 1,
    { PcaObject.fresh false with V := { rows := 1, cols := 1, get := fun _ _ => 1 } }, PcaObject.fresh false,
    [[[0, 0]]], 2, rfl, ?_⟩
  simp [PcaObject.setDataSmall, PcaObject.fresh, Mat.add, Mat.resize, Mat.empty, liftDirection, count, rsum]
  norm_num

example : (1 : Rat) > (1 / 1000000000000) * 1 := by norm_num

/-! ## Weighted training (LDA) -/

/-- **Weights are scale invariant**: multiplying all example weights by `s ≠ 0` (in particular
`s > 0`) changes neither the weighted class means, nor the weighted pooled covariance
(with regularisation), nor the class priors of `LDA::train(WeightedLabeledData)` — for every
dataset, batch partition, number of classes — hence not the system `z·Cov = m` the rule is solved from. -/
theorem weights_scale_invariant (bs : WCData) (s : Rat) (hs : s ≠ 0) (classes : Nat) (reg : Rat) (c i j : Nat) :
    wldaMean (scaleWeights s bs) c j = wldaMean bs c j
    ∧ wldaCov (scaleWeights s bs) classes reg i j = wldaCov bs classes reg i j
    ∧ wldaPrior (scaleWeights s bs) c = wldaPrior bs c := by
  have hsum : sumOfWeights (scaleWeights s bs) = s * sumOfWeights bs := by
    unfold sumOfWeights scaleWeights
    rw [bsum_eq_flatten, bsum_eq_flatten, flatten_map_map, lsum_map, lsum_mul_left]
  have hcw : ∀ c, classWeight (scaleWeights s bs) c = s * classWeight bs c := by
    intro c
    unfold classWeight scaleWeights
    rw [bsum_eq_flatten, bsum_eq_flatten, flatten_map_map, lsum_map, ← lsum_mul_left]
    exact lsum_congr (fun p _ => by by_cases h : p.2.1 = c <;> simp [h])
  have hmean : ∀ c j, wldaMean (scaleWeights s bs) c j = wldaMean bs c j := by
    intro c j
    unfold wldaMean
    rw [hcw c]
    have : bsum (scaleWeights s bs) (fun p => if p.2.1 = c then p.2.2 * p.1.at j else 0)
        = s * bsum bs (fun p => if p.2.1 = c then p.2.2 * p.1.at j else 0) := by
      unfold scaleWeights
      rw [bsum_eq_flatten, bsum_eq_flatten, flatten_map_map, lsum_map, ← lsum_mul_left]
      exact lsum_congr (fun p _ => by by_cases h : p.2.1 = c <;> simp [h]; ring)
    rw [this, mul_div_mul_left _ _ hs]
  refine ⟨hmean c j, ?_, ?_⟩
  · unfold wldaCov
    rw [hsum]
    have h2 : bsum (scaleWeights s bs) (fun p => p.2.2 * (p.1.at i * p.1.at j))
        = s * bsum bs (fun p => p.2.2 * (p.1.at i * p.1.at j)) := by
      unfold scaleWeights
      rw [bsum_eq_flatten, bsum_eq_flatten, flatten_map_map, lsum_map, ← lsum_mul_left]
      exact lsum_congr (fun p _ => by ring)
    rw [h2, mul_div_mul_left _ _ hs]
    have h3 : ∀ c, c < classes →
        classWeight (scaleWeights s bs) c / (s * sumOfWeights bs) * (wldaMean (scaleWeights s bs) c i * wldaMean (scaleWeights s bs) c j)
        = classWeight bs c / sumOfWeights bs * (wldaMean bs c i * wldaMean bs c j) := by
      intro c _
      rw [hcw c, hmean c i, hmean c j, mul_div_mul_left _ _ hs]
    rw [rsum_congr h3]
  · unfold wldaPrior
    rw [hcw c, hsum, mul_div_mul_left _ _ hs]

/-- non-vacuity of the hypotheses of `pca_projection`: the two unit vectors of ℚ² -/
example : Orthonormal (fun j i => if j = i then 1 else 0) 2 2 := by
  intro a ha b hb
  interval_cases a <;> interval_cases b <;> norm_num [rsum]

/-! ## Linear discriminant analysis -/

/-- **LDA returns the Bayes rule of its estimates** (every dimension, number of classes, input
`x` in the range of the covariance — every `x` when the pooled covariance is regular).
Let `C` be the (symmetric) pooled covariance, `m_c` the class means, `π_c` the priors, and
`z_c` the rows returned by `solve(C, means, right)`, specified by `z_c·C = m_c`.  Then the
linear discriminant `δ_c(x) = x·z_c − ½ m_c·z_c + log π_c` that `LDA::train` installs
equals the Gaussian log-posterior `−½ (x−m_c)ᵀC⁻¹(x−m_c) + log π_c` up to a term that does
not depend on the class (`C⁻¹` expressed through any `y` with `C·y = x`:
`(x−m_c)ᵀC⁻¹(x−m_c) = (y−z_c)ᵀC(y−z_c)`); hence both rank the classes identically.
`_partial`: a singular pooled covariance whose range does not contain the class means (accepted by
the real trainer, which then returns the pseudo-inverse solution) is excluded by the hypothesis
`z_c·C = m_c` — `lda_partial_witness`; there the Gaussian model itself is degenerate. -/
theorem lda_bayes_rule_partial (d : Nat) (C z m : Nat → Nat → Rat) (logPrior : Nat → Rat) (x y : Nat → Rat)
    (hsym : ∀ j, j < d → ∀ k, k < d → C j k = C k j)
    (hy : ∀ j, j < d → rsum d (fun k => C j k * y k) = x j)
    (c c' : Nat)
    (hz : ∀ j, j < d → rsum d (fun k => z c k * C k j) = m c j)
    (hz' : ∀ j, j < d → rsum d (fun k => z c' k * C k j) = m c' j) :
    (ldaDiscriminant d z m logPrior c' x ≤ ldaDiscriminant d z m logPrior c x
      ↔ -(1 / 2) * quadForm d C (fun j => y j - z c' j) (fun j => y j - z c' j) + logPrior c'
        ≤ -(1 / 2) * quadForm d C (fun j => y j - z c j) (fun j => y j - z c j) + logPrior c) := by
  rw [lda_discriminant_eq d C z m logPrior c x y hsym hz hy,
    lda_discriminant_eq d C z m logPrior c' x y hsym hz' hy]
  constructor <;> intro h <;> linarith

/-- witness for the `_partial`: for the zero covariance (all examples of a class identical) and a
non-zero class mean no `z` satisfies the solve specification -/
theorem lda_partial_witness (z : Nat → Rat) : rsum 1 (fun k => z k * (0 : Rat)) ≠ 1 := by
  norm_num [rsum]

/-- **LDA estimates the pooled covariance** (every dataset, partition, number of classes): the
matrix `LDA::train` assembles from second moments, `Σ x xᵀ/(n−C) − Σ_c n_c/(n−C)·m_c m_cᵀ`, is the
pooled within-class covariance `Σ_i (x_i − m_{c_i})(x_i − m_{c_i})ᵀ / (n − C)` (plus `reg` on the
diagonal when `reg > 0`). -/
theorem lda_pooled_covariance (bs : CData) (classes : Nat) (reg : Rat) (i j : Nat)
    (hlab : ∀ p ∈ bs.flatten, p.2 < classes) :
    ldaCov bs classes reg i j
      = withinScatter bs i j / (((count bs : Nat) : Rat) - (classes : Nat))
        + (if i = j ∧ 0 < reg then reg else 0) := by
  unfold ldaCov
  dsimp only
  rw [← scatter_identity bs classes i j hlab]
  have : ∀ c, c < classes →
      classCount bs c / (((count bs : Nat) : Rat) - (classes : Nat)) * (ldaMean bs c i * ldaMean bs c j)
      = classCount bs c * (ldaMean bs c i * ldaMean bs c j) / (((count bs : Nat) : Rat) - (classes : Nat)) := by
    intro c _; ring
  rw [rsum_congr this, rsum_div]
  ring

/-- the weighted trainer likewise (positive weights): `Σ w x xᵀ/Σw − Σ_c (W_c/Σw)·m_c m_cᵀ` is the
weighted pooled within-class covariance `Σ_i w_i (x_i − m_{c_i})(x_i − m_{c_i})ᵀ / Σw` (plus `reg`
on the diagonal) -/
theorem wlda_pooled_covariance (bs : WCData) (classes : Nat) (reg : Rat) (i j : Nat)
    (hlab : ∀ p ∈ bs.flatten, p.2.1 < classes) (hw : ∀ p ∈ bs.flatten, 0 < p.2.2) :
    wldaCov bs classes reg i j
      = wWithinScatter bs i j / sumOfWeights bs + (if i = j then reg else 0) := by
  unfold wldaCov
  rw [← wscatter_identity bs classes i j hlab hw]
  have : ∀ c, c < classes →
      classWeight bs c / sumOfWeights bs * (wldaMean bs c i * wldaMean bs c j)
      = classWeight bs c * (wldaMean bs c i * wldaMean bs c j) / sumOfWeights bs := by
    intro c _; ring
  rw [rsum_congr this, rsum_div]
  ring

/-- **FisherLDA's global mean** as it should be, `Σ_c n_c·m_c / n`, is the mean of the inputs;
the pinned source divides once more by `n` (`fisherMeanPinned = mean / n`, finding F-C15-6), so
its offset `−W·mean` does not centre the projected data. -/
theorem fisher_mean (bs : CData) (classes : Nat) (j : Nat) (hlab : ∀ p ∈ bs.flatten, p.2 < classes) :
    fisherMean bs classes j = mean (bs.map fun b => b.map Prod.fst) j
    ∧ fisherMeanPinned bs classes j = mean (bs.map fun b => b.map Prod.fst) j / (count bs : Nat) := by
  have h := fisherMean_eq_mean bs classes j hlab
  exact ⟨h, by unfold fisherMeanPinned; rw [h]⟩

/-- the LDA statistics do not depend on the batch partition (unweighted and weighted) -/
theorem lda_batch_independent (bs bs' : CData) (h : bs.flatten = bs'.flatten) (classes : Nat) (reg : Rat) (c i j : Nat) :
    ldaMean bs c j = ldaMean bs' c j ∧ ldaCov bs classes reg i j = ldaCov bs' classes reg i j
      ∧ ldaPrior bs c = ldaPrior bs' c := by
  have hcc : ∀ c, classCount bs c = classCount bs' c := by
    intro c; simp only [classCount, bsum_eq_flatten, h]
  have hm : ∀ c j, ldaMean bs c j = ldaMean bs' c j := by
    intro c j; simp only [ldaMean, bsum_eq_flatten, h, hcc]
  have hn : count bs = count bs' := by rw [count_eq_flatten, count_eq_flatten, h]
  refine ⟨hm c j, ?_, ?_⟩
  · simp only [ldaCov, bsum_eq_flatten, h, hn, hcc, hm]
  · simp only [ldaPrior, hcc, hn]

/-- non-vacuity of `lda_bayes_rule_partial`: `C = I₂`, `z = m`, `y = x` -/
example : (∀ j, j < 2 → ∀ k, k < 2 → (fun j k : Nat => if j = k then (1 : Rat) else 0) j k
      = (fun j k : Nat => if j = k then (1 : Rat) else 0) k j)
    ∧ ∀ j, j < 2 → rsum 2 (fun k => (fun c k : Nat => ((c + k : Nat) : Rat)) 1 k * (if k = j then (1 : Rat) else 0))
      = (fun c k : Nat => ((c + k : Nat) : Rat)) 1 j := by
  constructor
  · intro j _ k _; by_cases h : j = k <;> simp [h, eq_comm]
  · intro j hj; interval_cases j <;> norm_num [rsum]

/-! ## Linear (ridge) regression -/

/-- **Normal equations ⇔ vanishing gradient** (every `n`, `d`, label column `c`, batch
partition, `λ`): the parameter column `β` satisfies `(A·β)_i = (XᵀL)_{ic}` for all rows
`i ≤ d` of the accumulated system of `LinearRegression::train` iff every partial
derivative `linregGradient` of `½ Σ((x|1)·β − l_c)² + ½ λ Σ_{j<d} β_j²` vanishes. -/
theorem linreg_normal_equations (bs : LData) (d : Nat) (lam : Rat) (c : Nat) (β : Nat → Rat) :
    (∀ i, i ≤ d → matMul (d + 1) (linregA bs d lam) (fun j _ => β j) i 0 = linregRhs bs d i c)
      ↔ ∀ i, i ≤ d → linregGradient bs d lam c β i = 0 :=
  normalEq_iff_gradient bs d lam c β

/-- `linregGradient` *is* the gradient: the objective is exactly
`E(β+δ) = E(β) + ⟨∇E(β), δ⟩ + Q(δ)` with the non-negative quadratic form
`Q(δ) = ½ Σ ((x|1)·δ)² + ½ λ Σ_{j<d} δ_j²`. -/
theorem linreg_objective_expansion (bs : LData) (d : Nat) (lam : Rat) (c : Nat) (β δ : Nat → Rat) :
    linregObjective bs d lam c (fun j => β j + δ j)
      = linregObjective bs d lam c β + rsum (d + 1) (fun i => linregGradient bs d lam c β i * δ i)
        + linregQuad bs d lam δ
    ∧ (0 ≤ lam → 0 ≤ linregQuad bs d lam δ) :=
  ⟨objective_expansion bs d lam c β δ, fun h => linregQuad_nonneg bs d lam h δ⟩

/-- **Stationary ⇔ optimal.**  For `λ ≥ 0` the normal equations hold at `β` iff `β` is a
global minimiser of the regularised squared error (rank-deficient data and `d > n`
included: no uniqueness is claimed). -/
theorem linreg_normal_equations_iff_minimiser (bs : LData) (d : Nat) (lam : Rat) (hlam : 0 ≤ lam) (c : Nat)
    (β : Nat → Rat) :
    NormalEq bs d lam c β ↔ ∀ β', linregObjective bs d lam c β ≤ linregObjective bs d lam c β' :=
  ⟨minimiser_of_normalEq bs d lam hlam c β, normalEq_of_minimiser bs d lam hlam c β⟩

/-- **Ridge regression is unique**: for `λ > 0` and a non-empty dataset (any rank, `d > n`
included) two solutions of the normal equations coincide, so the trained weights are THE
minimiser. -/
theorem linreg_regularised_unique (bs : LData) (d : Nat) (lam : Rat) (hlam : 0 < lam) (hne : bs.flatten ≠ [])
    (c : Nat) (β β' : Nat → Rat) (h : NormalEq bs d lam c β) (h' : NormalEq bs d lam c β') :
    ∀ i, i ≤ d → β i = β' i :=
  normalEq_unique bs d lam hlam hne c β β' h h'

/-- specification of `solve(A, B, symm_semi_pos_def, left)`: it returns a solution
whenever one exists -/
def SolverSpec (solve : Solver) : Prop :=
  ∀ n k A R, (∃ X : Nat → Nat → Rat, ∀ i, i < n → ∀ c, c < k → matMul n A X i c = R i c) →
    ∀ i, i < n → ∀ c, c < k → matMul n A (solve n k A R) i c = R i c

/-- **The normal equations are always solvable** (every dataset — rank-deficient, constant
features, `d > n`, even empty —, every batch partition, every `λ ≥ 0`, every label dimension):
the right-hand side `XᵀL` lies in the range of `A = (X|1)ᵀ(X|1) + λ·diag(1,…,1,0)`.  So the
consistency premise of the semi-definite solver's specification is met by construction. -/
theorem linreg_system_consistent (bs : LData) (d k : Nat) (lam : Rat) (hlam : 0 ≤ lam) :
    ∃ X : Nat → Nat → Rat, ∀ i, i < d + 1 → ∀ c, c < k →
      matMul (d + 1) (linregA bs d lam) X i c = linregRhs bs d i c :=
  normalEq_solvable bs d k lam hlam

/-- **The trained model is optimal** (all `n`, `d`, `k`, batch partitions, `λ ≥ 0`): if the
solver meets its specification (`SolverSpec`: it returns a solution whenever one exists), the
parameters returned by `LinearRegression::train` make the gradient vanish in every output
column and minimise the total regularised squared error over all parameter matrices. -/
theorem linreg_train_optimal (solve : Solver) (hs : SolverSpec solve) (bs : LData) (d k : Nat) (lam : Rat)
    (hlam : 0 ≤ lam) :
    let B := linregTrain solve bs d k lam
    (∀ c, c < k → ∀ i, i ≤ d → linregGradient bs d lam c (fun j => B j c) i = 0)
    ∧ ∀ B' : Nat → Nat → Rat, linregObjectiveAll bs d k lam B ≤ linregObjectiveAll bs d k lam B' := by
  intro B
  have hcons := normalEq_solvable bs d k lam hlam
  have hB : ∀ c, c < k → NormalEq bs d lam c (fun j => B j c) := by
    intro c hc i hi
    exact hs (d + 1) k _ _ hcons i (by omega) c hc
  refine ⟨fun c hc => (normalEq_iff_gradient bs d lam c _).mp (hB c hc), fun B' => ?_⟩
  unfold linregObjectiveAll
  have : ∀ c, c < k → 0 ≤ linregObjective bs d lam c (fun j => B' j c) - linregObjective bs d lam c (fun j => B j c) := by
    intro c hc
    have := minimiser_of_normalEq bs d lam hlam c _ (hB c hc) (fun j => B' j c)
    linarith
  have h2 := rsum_nonneg this
  rw [rsum_sub] at h2
  linarith

/-- non-vacuity of `SolverSpec`: a solver meeting the specification exists -/
example : ∃ solve : Solver, SolverSpec solve := by
  classical
  refine ⟨fun n k A R =>
    if h : ∃ X : Nat → Nat → Rat, ∀ i, i < n → ∀ c, c < k → matMul n A X i c = R i c
    then Classical.choose h else fun _ _ => 0, ?_⟩
  intro n k A R h
  simp only [h, dite_true]
  exact Classical.choose_spec h

/-- the accumulated system does not depend on the batch partition, hence neither does
the trained model (for any solver, as a function of the system) -/
theorem linreg_batch_independent (solve : Solver) (bs bs' : LData) (h : bs.flatten = bs'.flatten)
    (d k : Nat) (lam : Rat) :
    linregA bs d lam = linregA bs' d lam ∧ linregRhs bs d = linregRhs bs' d
      ∧ linregTrain solve bs d k lam = linregTrain solve bs' d k lam := by
  have hA : linregA bs d lam = linregA bs' d lam := by
    funext i j; simp only [linregA, bsum_eq_flatten, h]
  have hR : linregRhs bs d = linregRhs bs' d := by
    funext i c; simp only [linregRhs, bsum_eq_flatten, h]
  exact ⟨hA, hR, by unfold linregTrain; rw [hA, hR]⟩

/-- non-vacuity: the points (0,1), (1,3) in two batches, `λ = 0`; `β = (2, 1)` solves the normal equations -/
example : NormalEq [[([0], [1])], [([1], [3])]] 1 0 0 (fun j => if j = 0 then 2 else 1) := by
  intro i hi
  interval_cases i <;> norm_num [applyA, linregA, linregRhs, bsum, lsum, rsum, ext1, Vec.at]

/-- non-vacuity of `whitening_output`: the points −1, 1 (covariance 1), factor `C = (1)`, `t = 4 = 2·2` -/
example : ([[[-1], [1]]] : List (List Vec)).flatten ≠ [] ∧ (2 : Rat) * 2 = 4 ∧
    ∀ a, a < 1 → ∀ b, b < 1 →
      rsum 1 (fun i => rsum 1 (fun j => (fun _ _ : Nat => (1 : Rat)) a i * covariance [[[-1], [1]]] i j
        * (fun _ _ : Nat => (1 : Rat)) b j)) = if a = b then 1 else 0 := by
  refine ⟨by simp, by norm_num, ?_⟩
  intro a ha b hb
  interval_cases a; interval_cases b
  norm_num [rsum, covariance, mean, bsum, lsum, count, Vec.at]

/-- non-vacuity of `zca_output_regular` / `pca_encoded_covariance`: the same data, `Q = (1)`, `D = (1)`, `s = (1)` -/
example : (∀ k, k < 1 → ∀ l, l < 1 → rsum 1 (fun i => (fun _ _ : Nat => (1 : Rat)) i k * (fun _ _ : Nat => (1 : Rat)) i l)
      = if k = l then 1 else 0)
    ∧ (∀ i, i < 1 → ∀ j, j < 1 → covariance [[[-1], [1]]] i j
      = rsum 1 (fun k => (fun _ _ : Nat => (1 : Rat)) i k * (fun _ : Nat => (1 : Rat)) k * (fun _ _ : Nat => (1 : Rat)) j k))
    ∧ ∀ k, k < 1 → (fun _ : Nat => (1 : Rat)) k * (fun _ : Nat => (1 : Rat)) k * (fun _ : Nat => (1 : Rat)) k = 1 := by
  refine ⟨?_, ?_, ?_⟩
  · intro k hk l hl; interval_cases k; interval_cases l; norm_num [rsum]
  · intro i hi j hj; interval_cases i; interval_cases j
    norm_num [rsum, covariance, mean, bsum, lsum, count, Vec.at]
  · intro k _; norm_num

/-- non-vacuity of `weights_scale_invariant` is immediate (`s = 2`); of `fisher_mean`: labels below the class count -/
example : ∀ p ∈ ([[([0], 0), ([2], 1)]] : CData).flatten, p.2 < 2 := by
  intro p hp
  simp at hp
  rcases hp with rfl | rfl <;> simp

/-! ## NormalizeKernelUnitVariance (a normalisation trainer: unit variance in feature space) -/

/-- **`NormalizeKernelUnitVariance`** (every symmetric kernel, dataset, batch partition): the batch-pair loop of the
trainer computes the variance of the data in feature space, `1/N Σ k(x,x) − 1/N² Σ k(x,y)`, and with the factor it
installs in the `ScaledKernel` that variance is exactly 1 — unless it is 0 (all points coincide in feature space),
where no factor exists (the pinned source then installs `1/0`, finding F-C15-10). -/
theorem nkuv_unit_variance (k : Kernel) (hk : ∀ x y, k x y = k y x) (bs : List (List Vec)) :
    nkuvVariance k bs = featureVariance k bs.flatten
    ∧ (nkuvVariance k bs ≠ 0 → featureVariance (fun x y => nkuvFactor k bs * k x y) bs.flatten = 1) := by
  refine ⟨nkuvVariance_eq k hk bs, fun hv => ?_⟩
  rw [featureVariance_scale, ← nkuvVariance_eq k hk bs]
  unfold nkuvFactor
  field_simp

/-- the factor does not depend on the batch partition (symmetric kernel) -/
theorem nkuv_batch_independent (k : Kernel) (hk : ∀ x y, k x y = k y x) (bs bs' : List (List Vec))
    (h : bs.flatten = bs'.flatten) : nkuvFactor k bs = nkuvFactor k bs' := by
  unfold nkuvFactor
  rw [nkuvVariance_eq k hk, nkuvVariance_eq k hk, h]

/-- witness that the symmetry matters: for a non-symmetric "kernel" the loop (which visits the blocks below the diagonal
only and doubles them) does not sum the matrix -/
theorem nkuv_needs_symmetry :
    ∃ (k : Kernel) (bs : List (List Vec)), nkuvMean k bs ≠ lsum bs.flatten (fun x => lsum bs.flatten fun y => k x y) := by
  refine ⟨fun x y => x.at 0 * (y.at 0 + 1), [[[1]], [[2]]], ?_⟩
  norm_num [nkuvMean, nkuvMeanAux, blockSum, lsum, Vec.at]

/-- non-vacuity: the linear kernel is symmetric and the points 0, 2 have feature variance 1 ≠ 0 -/
example : (∀ x y, linearKernel 1 x y = linearKernel 1 y x) ∧ nkuvVariance (linearKernel 1) [[[0]], [[2]]] ≠ 0 := by
  constructor
  · intro x y; simp [linearKernel, rsum]; ring
  · norm_num [nkuvVariance, nkuvTrace, nkuvMean, nkuvMeanAux, blockSum, blockTrace, lsum, linearKernel, rsum, count, Vec.at]

/-! ## KernelMeanClassifier (weighted) -/

/-- **`KernelMeanClassifier` is the nearest-class-mean rule in feature space** (every kernel, weighted dataset, batch
partition, number of classes, input `x`): the difference of the decision values of two classes is `−½` the difference of
the squared feature-space distances of `x` to the weighted class means `μ_c = Σ_{i∈c} (w_i/W_c) φ(x_i)`; so the arg-max
class is the class with the nearest mean.  The binary model's single decision value is `decision₁ − decision₀`. -/
theorem kmean_nearest_mean (k : Kernel) (bs : WCData) (c c' : Nat) (x : Vec) :
    kmDecision k bs c x - kmDecision k bs c' x = -(1 / 2) * (kmDist2 k bs c x - kmDist2 k bs c' x)
    ∧ kmDecisionBinary k bs x = kmDecision k bs 1 x - kmDecision k bs 0 x := by
  constructor
  · unfold kmDecision kmDist2
    rw [kmOffset_eq, kmOffset_eq]
    ring
  · unfold kmDecisionBinary kmDecision
    rw [bsum_eq_flatten, bsum_eq_flatten, bsum_eq_flatten,
      lsum_congr (g := fun p => kmCoef bs 1 p * k p.1 x - kmCoef bs 0 p * k p.1 x) (fun p _ => by ring), lsum_sub]
    ring

theorem bsum_scaleWeights (s : Rat) (bs : WCData) (f : Vec × Nat × Rat → Rat) :
    bsum (scaleWeights s bs) f = bsum bs (fun p => f (p.1, p.2.1, s * p.2.2)) := by
  unfold scaleWeights
  rw [bsum_eq_flatten, bsum_eq_flatten, flatten_map_map, lsum_map]

/-- **weight-scale invariance of `KernelMeanClassifier`**: multiplying all example weights by `s ≠ 0` changes neither a
coefficient nor an offset, hence no decision value -/
theorem kmean_weights_scale_invariant (k : Kernel) (bs : WCData) (s : Rat) (hs : s ≠ 0) (c : Nat) (x : Vec) :
    kmOffset k (scaleWeights s bs) c = kmOffset k bs c
    ∧ kmDecision k (scaleWeights s bs) c x = kmDecision k bs c x := by
  have hoff : kmOffset k (scaleWeights s bs) c = kmOffset k bs c := by
    rw [kmOffset_eq, kmOffset_eq, bsum_scaleWeights]
    simp only [bsum_scaleWeights, kmCoef_scale bs s hs]
  refine ⟨hoff, ?_⟩
  unfold kmDecision
  rw [hoff, bsum_scaleWeights]
  simp only [kmCoef_scale bs s hs]

/-- the classifier does not depend on the batch partition -/
theorem kmean_batch_independent (k : Kernel) (bs bs' : WCData) (h : bs.flatten = bs'.flatten) (c : Nat) (x : Vec) :
    kmDecision k bs c x = kmDecision k bs' c x := by
  have hw : classWeight bs c = classWeight bs' c := by simp only [classWeight, bsum_eq_flatten, h]
  have hco : ∀ p, kmCoef bs c p = kmCoef bs' c p := fun p => by simp only [kmCoef, hw]
  unfold kmDecision
  rw [kmOffset_eq, kmOffset_eq]
  simp only [bsum_eq_flatten, h, hco]

/-! ## RegularizationNetworkTrainer (Gaussian process / kernel ridge regression) -/

/-- **Stationarity of the regularised risk** (every symmetric kernel, dataset, noise variance, label column): if the
coefficients solve `(K + σ²I)·α = l − mean(l)` then, with the offset `mean(l)` the trainer installs, every partial
derivative of `½ Σ_i (f(x_i) − l_i)² + ½ σ² αᵀKα`, `f = Σ_j α_j k(x_j,·) + b`, vanishes. -/
theorem regnet_stationary (k : Kernel) (hk : ∀ x y, k x y = k y x) (bs : List (List (Vec × Vec))) (noise : Rat) (c : Nat)
    (alpha : Nat → Rat)
    (hsys : ∀ i, i < count bs → rsum (count bs) (fun j => regnetM k bs noise i j * alpha j) = regnetRhs bs i c) :
    ∀ a, a < count bs → regnetGradient k bs noise c alpha (regnetMean bs c) a = 0 := by
  intro a _
  have hres : ∀ i, i < count bs → regnetPredict k bs alpha (regnetMean bs c) i - (elemAt bs i).2.at c = -noise * alpha i := by
    intro i hi
    have h := hsys i hi
    rw [regnetM_apply k bs noise alpha i hi] at h
    unfold regnetRhs at h
    unfold regnetPredict
    rw [rsum_congr (g := fun j => k (elemAt bs i).1 (elemAt bs j).1 * alpha j) (fun j _ => by rw [hk (elemAt bs j).1]; ring)]
    linarith
  unfold regnetGradient
  rw [rsum_congr (g := fun i => -noise * (k (elemAt bs a).1 (elemAt bs i).1 * alpha i)) (fun i hi => by rw [hres i hi]; ring),
    rsum_mul_left]
  ring

/-- **End to end through the C02 Cholesky solver.**  In the branch `alpha = inv(M, symm_pos_def()) % V` the coefficients
are those of the C02 model of `cholesky_decomposition::solve` (`potrf` + two triangular solves).  By C02's
`solve_spd_correct` they solve the system whenever `potrf` succeeds (returns 0) — no specification of the solver is
assumed, only that of the square root at the pivots — hence the trained expansion is a stationary point of the
regularised risk in every label column. -/
theorem regnet_train_cholesky_stationary (r : Rat → Rat) (k : Kernel) (hk : ∀ x y, k x y = k y x)
    (bs : List (List (Vec × Vec))) (noise : Rat) (c : Nat)
    (hr : C02.SqrtSpec r (count bs) (regnetM k bs noise))
    (h0 : LinSolve.potrfInfo false r (count bs) (regnetM k bs noise) = 0) :
    (∀ i, i < count bs →
        rsum (count bs) (fun j => regnetM k bs noise i j * regnetAlphaChol r k bs noise j c) = regnetRhs bs i c)
    ∧ ∀ a, a < count bs → regnetGradient k bs noise c (fun j => regnetAlphaChol r k bs noise j c) (regnetMean bs c) a = 0 := by
  have hsym : ∀ i j, i < count bs → j < count bs → regnetM k bs noise i j = regnetM k bs noise j i := by
    intro i j _ _
    unfold regnetM
    rw [hk (elemAt bs i).1]
    by_cases h : i = j
    · simp [h]
    · have : ¬ j = i := fun e => h e.symm
      simp [h, this]
  have hsys := solveSpd_spec r (count bs) (regnetM k bs noise) (fun i => regnetRhs bs i c) hr h0 hsym
  exact ⟨hsys, regnet_stationary k hk bs noise c _ hsys⟩

/-- the system (hence, for any solver that is a function of it, the trained expansion) does not depend on the batch partition -/
theorem regnet_batch_independent (r : Rat → Rat) (k : Kernel) (bs bs' : List (List (Vec × Vec))) (h : bs.flatten = bs'.flatten)
    (noise : Rat) :
    regnetM k bs noise = regnetM k bs' noise ∧ regnetRhs bs = regnetRhs bs' ∧ regnetMean bs = regnetMean bs'
      ∧ regnetAlphaChol r k bs noise = regnetAlphaChol r k bs' noise := by
  have he : ∀ a, elemAt bs a = elemAt bs' a := fun a => by simp only [elemAt, h]
  have hn : count bs = count bs' := by rw [count_eq_flatten, count_eq_flatten, h]
  have hm : regnetMean bs = regnetMean bs' := by funext c; simp only [regnetMean, bsum_eq_flatten, h, hn]
  have hM : regnetM k bs noise = regnetM k bs' noise := by funext a b; simp only [regnetM, he]
  have hR : regnetRhs bs = regnetRhs bs' := by funext a c; simp only [regnetRhs, he, hm]
  refine ⟨hM, hR, hm, ?_⟩
  funext a c
  simp only [regnetAlphaChol, hM, hR, hn]

/-! ## FisherLDA: the scatter solve through C02, and what a repair has to compute (F-C15-7) -/

/-- **`FisherLDA::meanAndScatter` through the C02 Cholesky solver**: the matrix handed to the eigen-solver satisfies
`Sw · scatter = Sb` (every dataset / class count / dimension for which `potrf` succeeds on `Sw`). -/
theorem fisher_scatter_spec (r : Rat → Rat) (bs : CData) (classes d : Nat)
    (hr : C02.SqrtSpec r d (withinScatterMoments bs classes))
    (h0 : LinSolve.potrfInfo false r d (withinScatterMoments bs classes) = 0) :
    ∀ i, i < d → ∀ j, rsum d (fun l => withinScatterMoments bs classes i l * fisherScatter r bs classes d l j)
      = betweenScatter bs classes i j := by
  intro i hi j
  exact solveSpd_spec r d (withinScatterMoments bs classes) (fun a => betweenScatter bs classes a j) hr h0
    (fun a b _ _ => withinScatterMoments_symm bs classes a b) i hi

/-- **F-C15-7, witness**: a solution `M` of `Sw·M = Sb` with symmetric `Sw`, `Sb` need not be symmetric
(`Sw = diag(1,2)`, `Sb = [[1,1],[1,1]]`: `M = [[1,1],[½,½]]`), yet `FisherLDA::train` hands it to the SYMMETRIC
eigen-solver, which reads one triangle only. -/
theorem fisher_scatter_not_symmetric_witness :
    ∃ Sw Sb M : Nat → Nat → Rat, (∀ i j, Sw i j = Sw j i) ∧ (∀ i j, Sb i j = Sb j i)
      ∧ (∀ i, i < 2 → ∀ j, j < 2 → rsum 2 (fun l => Sw i l * M l j) = Sb i j) ∧ M 0 1 ≠ M 1 0 := by
  refine ⟨fun i j => if i = j then (if i = 0 then 1 else 2) else 0, fun _ _ => 1,
    fun i _ => if i = 0 then 1 else 1 / 2, ?_, fun _ _ => rfl, ?_, by norm_num⟩
  · intro i j; by_cases h : i = j
    · subst h; rfl
    · have : ¬ j = i := fun e => h e.symm
      simp [h, this]
  · intro i hi j _
    interval_cases i <;> norm_num [rsum]

/-- **What the repair computes** (symmetrisation through the Cholesky factor of `Sw`, findings_proposed/C15.md): with
`Sw = L·Lᵀ`, if `v` is an eigenvector with eigenvalue `λ` of the SYMMETRIC matrix `L⁻¹·Sb·L⁻ᵀ` (stated without inverses:
`v = Lᵀw`, `L·u = Sb·w`, `u = λ·v`) then the back-transformed direction `w = L⁻ᵀv` satisfies the generalised
eigen-equation `Sb·w = λ·Sw·w`, i.e. it is a stationary point of the Fisher criterion `wᵀSb w / wᵀSw w`. -/
theorem fisher_symmetrised_direction (d : Nat) (Sw Sb L : Nat → Nat → Rat) (w v u : Nat → Rat) (lam : Rat)
    (hSw : ∀ i, i < d → ∀ j, j < d → Sw i j = rsum d (fun l => L i l * L j l))
    (hv : ∀ l, l < d → v l = rsum d (fun j => L j l * w j))
    (hu : ∀ i, i < d → rsum d (fun l => L i l * u l) = rsum d (fun j => Sb i j * w j))
    (heig : ∀ l, l < d → u l = lam * v l) :
    ∀ i, i < d → rsum d (fun j => Sb i j * w j) = lam * rsum d (fun j => Sw i j * w j) := by
  intro i hi
  have h1 : rsum d (fun j => Sw i j * w j) = rsum d (fun l => L i l * v l) := by
    rw [rsum_congr (g := fun j => rsum d (fun l => L i l * L j l * w j)) (fun j hj => by rw [hSw i hi j hj, rsum_mul_right]),
      rsum_rsum_comm]
    apply rsum_congr; intro l hl
    rw [hv l hl, ← rsum_mul_left]
    apply rsum_congr; intro j _; ring
  rw [← hu i hi, h1, ← rsum_mul_left]
  apply rsum_congr; intro l hl
  rw [heig l hl]; ring

/-- non-vacuity of `fisher_symmetrised_direction`: `d = 1`, `Sw = 4 = 2·2`, `Sb = 8`, `w = 1`, `v = 2`, `u = 4`, `λ = 2` -/
example : (∀ i, i < 1 → ∀ j, j < 1 → (fun _ _ : Nat => (4 : Rat)) i j = rsum 1 (fun l => (fun _ _ : Nat => (2 : Rat)) i l * (fun _ _ : Nat => (2 : Rat)) j l))
    ∧ (∀ l, l < 1 → (fun _ : Nat => (2 : Rat)) l = rsum 1 (fun j => (fun _ _ : Nat => (2 : Rat)) j l * (fun _ : Nat => (1 : Rat)) j))
    ∧ (∀ i, i < 1 → rsum 1 (fun l => (fun _ _ : Nat => (2 : Rat)) i l * (fun _ : Nat => (4 : Rat)) l) = rsum 1 (fun j => (fun _ _ : Nat => (8 : Rat)) i j * (fun _ : Nat => (1 : Rat)) j))
    ∧ ∀ l, l < 1 → (fun _ : Nat => (4 : Rat)) l = 2 * (fun _ : Nat => (2 : Rat)) l := by
  refine ⟨?_, ?_, ?_, ?_⟩ <;> intros <;> norm_num [rsum]

/-! ## LDA::train assembled: statistics + solve + discriminant -/

/-- specification of `solve(C, M, symm_semi_pos_def(), right)`: it returns a solution of `Z·C = M` whenever one exists -/
def RightSolverSpec (solve : RightSolver) : Prop :=
  ∀ d classes C M, (∃ Z : Nat → Nat → Rat, ∀ c, c < classes → ∀ j, j < d → rsum d (fun k => Z c k * C k j) = M c j) →
    ∀ c, c < classes → ∀ j, j < d → rsum d (fun k => solve d classes C M c k * C k j) = M c j

theorem ldaCov_symm (bs : CData) (classes : Nat) (reg : Rat) (i j : Nat) : ldaCov bs classes reg i j = ldaCov bs classes reg j i := by
  unfold ldaCov
  dsimp only
  have h1 : bsum bs (fun p => p.1.at i * p.1.at j) = bsum bs (fun p => p.1.at j * p.1.at i) := by
    rw [bsum_eq_flatten, bsum_eq_flatten]; exact lsum_congr (fun p _ => by ring)
  have h2 : ∀ c, c < classes → classCount bs c / (((count bs : Nat) : Rat) - (classes : Nat)) * (ldaMean bs c i * ldaMean bs c j)
      = classCount bs c / (((count bs : Nat) : Rat) - (classes : Nat)) * (ldaMean bs c j * ldaMean bs c i) := fun c _ => by ring
  rw [h1, rsum_congr h2]
  by_cases h : i = j
  · subst h; rfl
  · have : ¬ j = i := fun e => h e.symm
    simp [h, this]

/-- **`LDA::train` end to end** (every dataset, batch partition, number of classes, dimension, regularisation): the
discriminant the trainer installs — class means and pooled covariance accumulated over the batches
(`lda_pooled_covariance`), rows `z_c` from the solver, bias `−½ m_c·z_c + log π_c` — ranks two classes exactly like the
Gaussian log-posteriors with the estimated means, the estimated pooled covariance and the empirical priors, given only
the solver's specification (it returns a solution whenever one exists).  `_partial`: the hypothesis that `Z·C = means`
is solvable excludes singular pooled covariances whose range misses a class mean (`lda_partial_witness`); it always
holds for a regular covariance, in particular whenever `reg > 0`. -/
theorem lda_train_bayes_rule_partial (solve : RightSolver) (hs : RightSolverSpec solve) (log : Rat → Rat) (bs : CData)
    (classes d : Nat) (reg : Rat)
    (hsolv : ∃ Z : Nat → Nat → Rat, ∀ c, c < classes → ∀ j, j < d →
      rsum d (fun k => Z c k * ldaCov bs classes reg k j) = ldaMean bs c j)
    (x y : Nat → Rat) (hy : ∀ j, j < d → rsum d (fun k => ldaCov bs classes reg j k * y k) = x j)
    (c c' : Nat) (hc : c < classes) (hc' : c' < classes) :
    let z := solve d classes (ldaCov bs classes reg) (ldaMean bs)
    (ldaTrainDiscriminant solve log bs classes d reg c' x ≤ ldaTrainDiscriminant solve log bs classes d reg c x
      ↔ -(1 / 2) * quadForm d (ldaCov bs classes reg) (fun j => y j - z c' j) (fun j => y j - z c' j) + log (ldaPrior bs c')
        ≤ -(1 / 2) * quadForm d (ldaCov bs classes reg) (fun j => y j - z c j) (fun j => y j - z c j) + log (ldaPrior bs c)) := by
  intro z
  have hz := hs d classes (ldaCov bs classes reg) (ldaMean bs) hsolv
  exact lda_bayes_rule_partial d (ldaCov bs classes reg) z (ldaMean bs) (fun c => log (ldaPrior bs c)) x y
    (fun j _ k _ => ldaCov_symm bs classes reg j k) hy c c' (hz c hc) (hz c' hc')

/-- non-vacuity of `RightSolverSpec`: a solver meeting the specification exists -/
example : ∃ solve : RightSolver, RightSolverSpec solve := by
  classical
  refine ⟨fun d classes C M =>
    if h : ∃ Z : Nat → Nat → Rat, ∀ c, c < classes → ∀ j, j < d → rsum d (fun k => Z c k * C k j) = M c j
    then Classical.choose h else fun _ _ => 0, ?_⟩
  intro d classes C M h
  simp only [h, dite_true]
  exact Classical.choose_spec h

end SharkVerif.C15
