/-
C13 — tolerance inventory of the anchored files (obligation regenerated from the source on every run).

`Gen/C13Tolerances.lean` is written by `translate/c13_tolerances.py` from the 14 anchored files of C13: every floating
literal with `0 < |value| < 1` and every epsilon-style identifier, with the enclosing statement.  The theorems below
state that this list is exactly the one the models and the scale classes of the correspondence account for:

* no tolerance at all in `ParetoDominance.h`, the three sorters, the hypervolume calculators and the contribution
  algorithms (they are order-theoretic / exact, hence scale-free: `rankSpec_scale`, `hvSpec_scale_shift`);
* exactly two tolerances `1.e-10` in `HypervolumeSubsetSelection2D::upperEnvelope` (pop tests; RELATIVE to the compared
  values since /repo de702950, absolute before: finding F-C13-5), which the model
  treats as exact comparisons — sound on the scale classes `2^e`, `e ≥ -16`, the check restricts `ssp` to (finding
  C13-SSP-ABSTOL below that);
* the identifier `epsilon` only as the accessor of the approximation algorithm (not an exact algorithm).

A new or changed tolerance in any anchored file changes the generated list and breaks `c13_tolerances_inventory`.
-/
import SharkVerif.Gen.C13Tolerances

namespace SharkVerif.C13Tol
open SharkVerif.Gen.C13Tolerances

theorem c13_tolerances_inventory :
    found = [
      ("HypervolumeCalculator.h", "identifier", "epsilon", "return m_approximationAlgorithm.epsilon()"),
      ("HypervolumeCalculator.h", "identifier", "epsilon", "return m_approximationAlgorithm.epsilon()"),
      ("HypervolumeContribution.h", "identifier", "epsilon", "return m_approximationAlgorithm.epsilon()"),
      ("HypervolumeContribution.h", "identifier", "epsilon", "return m_approximationAlgorithm.epsilon()"),
      ("HypervolumeSubsetSelection2D.h", "literal", "1.e-10", "if (d1 <= d2 || std::abs(d1-d2) <= 1.e-10 * std::max(std::abs(d1), std::abs(d2)))"),
      ("HypervolumeSubsetSelection2D.h", "literal", "1.e-10", "if (d1 < d2 || std::abs(d1-d2) <= 1.e-10 * std::max(std::abs(d1), std::abs(d2)))")] := rfl

/-- all fourteen anchored files were scanned -/
theorem c13_tolerances_scanned_all : scanned.length = 14 ∧
    "ParetoDominance.h" ∈ scanned ∧ "FastNonDominatedSort.h" ∈ scanned ∧ "DCNonDominatedSort.h" ∈ scanned ∧
    "HypervolumeSubsetSelection2D.h" ∈ scanned := by
  refine ⟨rfl, ?_, ?_, ?_, ?_⟩ <;> simp [scanned]

/-- the dominance relation and the sorters contain no tolerance-like token at all -/
theorem c13_order_algorithms_have_no_tolerance :
    ∀ x ∈ found, x.1 ∉ ["ParetoDominance.h", "NonDominatedSort.h", "FastNonDominatedSort.h", "DCNonDominatedSort.h",
      "HypervolumeCalculator2D.h", "HypervolumeCalculator3D.h", "HypervolumeCalculatorMDHOY.h", "HypervolumeCalculatorMDWFG.h",
      "HypervolumeContribution2D.h", "HypervolumeContribution3D.h", "HypervolumeContributionMD.h"] := by
  intro x hx
  rw [c13_tolerances_inventory] at hx
  simp only [List.mem_cons, List.not_mem_nil, or_false] at hx
  rcases hx with h | h | h | h | h | h <;> subst h <;> decide

end SharkVerif.C13Tol
