/-
Property C17 — tree-based nearest-neighbour search returns exactly the nearest
neighbours.  (Theorems are added below as they are proved.)
-/
import SharkVerif.Model.NN
namespace SharkVerif.NN

/-- the points of a tree are the queued-or-not partition: unqueued points are points -/
theorem unq_subset_pts (t : TTree) : ∀ p ∈ t.unq, p ∈ t.pts := by
  induction t with
  | leaf q lb lf => intro p hp; simp [TTree.unq] at hp; simp [TTree.pts, hp.2]
  | node st lb gl l r ihl ihr =>
    intro p hp
    simp [TTree.unq] at hp
    simp [TTree.pts]
    rcases hp with h | h
    · exact Or.inl (ihl p h)
    · exact Or.inr (ihr p h)

end SharkVerif.NN
