/-
Property C17 — tree-based nearest-neighbour search returns exactly the nearest
neighbours.  (Theorems are added below as they are proved.)
-/
import SharkVerif.Lemmas.NN
namespace SharkVerif.NN

theorem placeholder_c17 : (1 : Nat) = 1 := rfl

end SharkVerif.NN
