/-
Property C17 — tree-based nearest-neighbour search returns exactly the nearest
neighbours.

Model: `SharkVerif/Model/NN.lean` (`IterativeNNQuery` state machine over an
abstract space-partitioning tree; kd-tree construction; brute force;
`NearestNeighborModel`).  All distances are SQUARED distances (`dist : Nat → Rat`
maps a point index to its squared distance from the query).

Theorems (all for EVERY tree shape, every query, every number of calls):
  * `radius_is_lower_bound`       — squaredRadius never exceeds the distance of a point not yet queued
                                     (needs only admissible lower bounds, no LeafUniform);
  * `next_returns_min`            — under `LeafUniform`, each `next()` returns a new point, its TRUE distance,
                                     and that distance is minimal among all points not yet returned;
  * `next_distances_nondecreasing`— the reported distances are non-decreasing;
  * `tree_knn_eq_bruteforce`      — the first k reported distances are the k smallest distances (sorted), all k ≤ n;
  * `next_wrong_without_leafuniform` — `decide`d witness: without `LeafUniform` the model (like the real code,
                                     finding K1) reports a wrong distance and a decreasing order;
  * `nn_model_backend_independent`— uniform-weight votes/predictions depend only on the multiset of
                                     (distance, label) neighbours; `nn_model_backend_independent_weighted` for
                                     arbitrary weights on the soft output.
  * kd construction: `indexList_perm`, `split_partitions`.
    NOT proved here (covered by the correspondence only, see checks/c17.py): `split_separates`
    (left < threshold ≤ right) and `kd_bound_admissible` (`kdTrace` yields `LbAdm`); the driver checks
    admissibility of every bound of every generated real tree/query exactly (`INADMISSIBLE` flag) and
    compares every kd bound and threshold of the model with the real ones.
-/
import SharkVerif.Lemmas.NNRun
import SharkVerif.Lemmas.KD
import SharkVerif.Lemmas.NNK1
import SharkVerif.Lemmas.KDSearch
import SharkVerif.Lemmas.PivTree
import SharkVerif.Lemmas.Vote
namespace SharkVerif.NN

/-- **radius_is_lower_bound.** In every state reachable from the constructor by
any number of `next()` calls, every point that has not been queued yet is at least
`squaredRadius` away from the query.  Hypothesis: the tree's lower bounds are
admissible.  No assumption on leaves, `k`, or the number of calls. -/
theorem radius_is_lower_bound (dist : Nat → Rat) (t : TTree) (hf : Fresh t) (ha : LbAdm dist t)
    (k : Nat) : ∀ p ∈ (stateAfter k (init t)).tree.unq, (stateAfter k (init t)).radius ≤ dist p :=
  (rinv_after k _ (rinv_init hf ha)).radius

/-- **next_returns_min.**  Under `LeafUniform` (every leaf holds copies of one
point, the header's documented precondition) and admissible bounds, for every
`k ≤ n` the first `k` calls of `next()` all succeed and return indices
`i₁ … i_k` such that: the reported value is the TRUE squared distance of the
reported point; the reported points together with the points not yet returned
are a permutation of the tree's index list (so no point is returned twice and
none is lost); and every reported distance is ≤ the distance of every point not
yet returned at that time (in particular the j-th result is a j-th nearest
neighbour). -/
theorem next_returns_min (dist : Nat → Rat) (t : TTree) (hf : Fresh t) (ha : LbAdm dist t)
    (hu : LeafUniform dist t) (hn : LeavesNonempty t) (k : Nat) (hk : k ≤ t.pts.length) :
    ∃ (is : List Nat) (s' : QState),
      treeKnn t k = is.map (fun i => some (dist i, i)) ∧ is.length = k ∧
      (is ++ remaining s').Perm t.pts ∧
      (∀ x ∈ is, ∀ y ∈ remaining s', dist x ≤ dist y) ∧
      is.Pairwise (fun a b => dist a ≤ dist b) := by
  obtain ⟨is, s', h1, h2, h3, h4⟩ := run_good (dist := dist) (all := t.pts) k (init t) []
    (init_good hf ha hu hn) (by simpa using hk) List.Pairwise.nil
  exact ⟨is, s', h1, h2, by simpa using h3.perm, by simpa using h3.sorted, by simpa using h4⟩

/-- the reported distances are non-decreasing -/
theorem next_distances_nondecreasing (dist : Nat → Rat) (t : TTree) (hf : Fresh t)
    (ha : LbAdm dist t) (hu : LeafUniform dist t) (hn : LeavesNonempty t) (k : Nat)
    (hk : k ≤ t.pts.length) :
    ∃ ds : List Rat, (treeKnn t k).map (Option.map Prod.fst) = ds.map some ∧ ds.Pairwise (· ≤ ·) := by
  obtain ⟨is, s', h1, _, _, _, h5⟩ := next_returns_min dist t hf ha hu hn k hk
  refine ⟨is.map dist, ?_, ?_⟩
  · rw [h1]; simp [List.map_map, Function.comp_def]
  · exact List.pairwise_map.mpr h5

/-- **tree_knn_eq_bruteforce.**  For all admissible trees with uniform leaves and
all `k ≤ n`: the distances reported by the first `k` calls of `next()` are exactly
the `k` smallest of all distances, in sorted order (`sortVals` = the model's
exhaustive search on distances). -/
theorem tree_knn_eq_bruteforce (dist : Nat → Rat) (t : TTree) (hf : Fresh t) (ha : LbAdm dist t)
    (hu : LeafUniform dist t) (hn : LeavesNonempty t) (k : Nat) (hk : k ≤ t.pts.length) :
    (treeKnn t k).map (Option.map Prod.fst) = ((sortVals (t.pts.map dist)).take k).map some := by
  obtain ⟨is, s', h1, h2, h3, h4, h5⟩ := next_returns_min dist t hf ha hu hn k hk
  have hp : (is.map dist ++ (remaining s').map dist).Perm (t.pts.map dist) := by
    rw [← List.map_append]; exact h3.map dist
  have hs := sorted_prefix (is.map dist) ((remaining s').map dist) (t.pts.map dist) hp
    (List.pairwise_map.mpr h5)
    (by
      intro a ha' b hb
      obtain ⟨x, hx, rfl⟩ := List.mem_map.mp ha'
      obtain ⟨y, hy, rfl⟩ := List.mem_map.mp hb
      exact h4 x hx y hy)
  rw [h1]
  have : (is.map (fun i => some (dist i, i))).map (Option.map Prod.fst) = (is.map dist).map some := by
    simp [List.map_map, Function.comp_def]
  rw [this, hs]
  simp [h2]

/-! ### The hypothesis `LeafUniform` is necessary (finding K1) -/

/-- 8 collinear points `0,5,10,15,50,55,60,65`, kd-tree with bucket size 3 (leaves
`{0,1} {2,3} {4,5} {6,7}` in index terms, thresholds 32.5 / 7.5 / 57.5), query at
12: the trace tree `kdTrace [12] _ (kdTree P 1 8 0 3) Box.top` written out (this is
the tree of `corpus/C17/k1_design_example.txt`, on which driver and real code
agree line by line). -/
def k1Tree : TTree :=
  .node .unq 0 true
    (.node .unq 0 false
      (.leaf false ((81 : Rat) / 4) [⟨144, 3, [0, 1]⟩])
      (.leaf false 0 [⟨4, 4, [2, 3]⟩]))
    (.node .unq ((1681 : Rat) / 4) true
      (.leaf false ((1681 : Rat) / 4) [⟨1444, 5, [4, 5]⟩])
      (.leaf false ((8281 : Rat) / 4) [⟨2304, 6, [6, 7]⟩]))

/-- true squared distances of the 8 points to the query 12 -/
def k1Dist : Nat → Rat := fun i => [144, 49, 4, 9, 1444, 1849, 2304, 2809].getD i 0

/-- **next_wrong_without_leafuniform.** On `k1Tree` the bounds are admissible and
the leaves non-empty, but each leaf holds two distinct points.  The model reports
squared distance 4 for point 3 (true: 9) and 144 for point 1 (true: 49), and the
true distances of the reported points, `4, 9, 144, 49`, are not sorted — point 1
should have come third.  This is what the real code does (finding K1). -/
theorem next_wrong_without_leafuniform :
    treeKnn k1Tree 4 = [some (4, 2), some (4, 3), some (144, 0), some (144, 1)] ∧
    k1Dist 3 = 9 ∧ k1Dist 1 = 49 ∧ k1Dist 1 < k1Dist 0 := by decide +kernel

/-- the witness satisfies every hypothesis of `next_returns_min` except `LeafUniform` -/
theorem k1Tree_hypotheses : Fresh k1Tree ∧ LbAdm k1Dist k1Tree ∧ LeavesNonempty k1Tree := by
  refine ⟨?_, ?_, ?_⟩
  · simp [k1Tree, Fresh]
  · simp [k1Tree, LbAdm, TTree.pts, k1Dist, qpts]; decide +kernel
  · simp [k1Tree, LeavesNonempty]

/-- **k1_exact_for_leaf_distance.**  What the search computes on a tree WITHOUT `LeafUniform`
(finding K1), for every tree shape, query and `k ≤ n`: an exact nearest-neighbour search for the
*leaf distance* of every point (`leafDist t i` = the distance stored at the leaf that holds `i`;
the real code stores the distance of the leaf's first point, `LeafAnchored`).  Every point is
reported once, with its leaf distance, in non-decreasing order of leaf distance, each minimal
among the points not yet returned.  The harness' K1 classification re-runs its brute-force
oracle with exactly these pseudo distances: a result that is not explained this way is NOT the
listed finding. -/
theorem k1_exact_for_leaf_distance (dist : Nat → Rat) (t : TTree) (hf : Fresh t) (ha : LbAdm dist t)
    (hc : LeafAnchored dist t) (hnd : t.pts.Nodup) (k : Nat) (hk : k ≤ t.pts.length) :
    ∃ (is : List Nat) (s' : QState),
      treeKnn t k = is.map (fun i => some (leafDist t i, i)) ∧ is.length = k ∧
      (is ++ remaining s').Perm t.pts ∧
      (∀ x ∈ is, ∀ y ∈ remaining s', leafDist t x ≤ leafDist t y) ∧
      is.Pairwise (fun a b => leafDist t a ≤ leafDist t b) :=
  next_returns_min (leafDist t) t hf (lbAdm_leafDist dist _ t hnd ha hc (fun _ _ => rfl))
    (leafUniform_leafDist _ t hnd (fun _ _ => rfl)) (anchored_nonempty dist t hc) k hk

/-- non-vacuity: the K1 witness satisfies the hypotheses; point 3 (true distance 9) has leaf distance 4 -/
example : LeafAnchored k1Dist k1Tree ∧ k1Tree.pts.Nodup ∧ leafDist k1Tree 3 = 4 ∧ leafDist k1Tree 1 = 144 := by
  refine ⟨?_, by decide, by decide +kernel, by decide +kernel⟩
  simp [k1Tree, LeafAnchored, k1Dist]

/-! ### kd-tree construction -/

/-- **indexList_perm.** The index list of `KDTree(dataset, TreeConstruction(maxDepth, maxBucket))`
is a permutation of `0 … n-1`, for every data set, dimension, bucket size and
depth limit. -/
theorem indexList_perm (P : Nat → Point) (dim n maxDepth maxBucket : Nat) :
    (kdTree P dim n maxDepth maxBucket).idx.Perm (List.range n) :=
  buildKD_perm P dim _ _ _ _

/-- every successful `splitList` distributes exactly the given indices over the two sides -/
theorem split_partitions (val : Nat → Rat) (idx : List Nat) (s : Split)
    (h : splitList val idx = some s) : (s.left ++ s.right).Perm idx :=
  splitList_perm h

/-- **calcCutDim_dim_uniform.** `KDTree::calculateCuttingDimension` answers "unsplittable" (`dim`)
only for a cell whose points agree in EVERY coordinate (all `dim` extents are inspected before the
zero-extent test) - so a kd-tree built with bucket size 1 gets a multi-point leaf only for copies of
one point, the precondition `LeafUniform` of `next_returns_min`.  (That a cell with positive extent
is always split further is not proved; the harness checks on every real tree built with bucket size 1
that no leaf holds two distinct points.) -/
theorem calcCutDim_dim_uniform (P : Nat → Point) (dim : Nat) (idx : List Nat) (hdim : 0 < dim)
    (h : calcCutDim P dim idx = dim) :
    ∀ i ∈ idx, ∀ j ∈ idx, ∀ d, d < dim → coord (P i) d = coord (P j) d := by
  intro i hi j hj d hd
  have spec := cutFold_spec (fun d => maxOver (fun i => coord (P i) d) idx - minOver (fun i => coord (P i) d) idx)
    (List.range dim) (0, maxOver (fun i => coord (P i) 0) idx - minOver (fun i => coord (P i) 0) idx)
  simp only at spec
  obtain ⟨_, h2, h3⟩ := spec
  unfold calcCutDim at h
  simp only at h
  split at h
  · rename_i hz
    have hd' := h2 d (List.mem_range.mpr hd)
    rw [hz] at hd'
    have a1 := le_maxOver (fun i => coord (P i) d) idx i hi
    have a2 := minOver_le (fun i => coord (P i) d) idx i hi
    have b1 := le_maxOver (fun i => coord (P i) d) idx j hj
    have b2 := minOver_le (fun i => coord (P i) d) idx j hj
    grind
  · rcases h3 with h3 | h3
    · rw [h3] at h; omega
    · have := List.mem_range.mp h3; rw [h] at this; omega
example : calcCutDim (fun i => [[1, 5], [1, 7]].getD i []) 2 [0, 1] = 1 ∧
    calcCutDim (fun i => [[1, 5], [1, 5]].getD i []) 2 [0, 1] = 2 := by decide +kernel

/-! ### Kernel-induced metrics -/

/-- **featureDist2_linear.**  The feature distance `k(x,x) - 2k(x,y) + k(y,y)` of the linear kernel
is the squared Euclidean distance: a `KHCTree` over `LinearKernel` searches the same metric as
kd- and LC-trees (the correspondence additionally runs `KHCTree` over the kernel `(<x,y>+1)^2`,
tree kind `khcp`, whose feature distance `featureDist2 (polyKernel 2 1)` is a different metric). -/
theorem featureDist2_linear : ∀ (x y : Point), x.length = y.length → featureDist2 dot x y = dist2 x y
  | [], [], _ => by simp [featureDist2, dot, dist2] <;> grind
  | [], _ :: _, h => by simp at h
  | _ :: _, [], h => by simp at h
  | a :: as, b :: bs, h => by
    have ih := featureDist2_linear as bs (by simpa using h)
    simp only [featureDist2, dot, dist2] at ih ⊢
    rw [← ih]
    grind

/-- the two metrics differ: points `-3` and `2`, query `-1` (corpus `kh1_khctree_kernel_metric.txt`):
Euclidean 4 < 9, feature distance of `(xy+1)^2`: 72 > 27 -/
example : dist2 [-3] [-1] < dist2 [2] [-1] ∧
    featureDist2 (polyKernel 2 1) [2] [-1] < featureDist2 (polyKernel 2 1) [-3] [-1] := by decide +kernel

/-! ### `NearestNeighborModel` -/

/-- **nn_model_backend_independent.**  Two neighbour lists that are equal as
multisets of (distance, label) pairs — which is what two exact search back-ends
deliver when there is no tie at the k-th distance, or when ties are resolved the
same way — give the same vote counts, the same soft output for ANY weight
function of the distance (uniform or `1/distance`), and the same predicted class
(arg max with the first-maximum rule). -/
theorem nn_model_backend_independent (numClasses : Nat) (w : Rat → Rat)
    (a b : List (Rat × Nat)) (h : a.Perm b) :
    voteCounts numClasses a = voteCounts numClasses b ∧
    softOutput ratArith numClasses w a = softOutput ratArith numClasses w b ∧
    predictClass ratArith numClasses w a = predictClass ratArith numClasses w b := by
  refine ⟨voteCounts_perm numClasses h, softOutput_perm numClasses w h, ?_⟩
  unfold predictClass
  rw [softOutput_perm numClasses w h]

example : predictClass ratArith 2 (fun _ => 1) [(4, 0), (9, 1), (9, 1)] = 1 := by decide +kernel

/-! ### End to end: construction + query, per tree type

`pq = false` is the C++ as it is (leaf queue: one entry per leaf, distance of its first point), `pq = true`
the point queue of the proposed repair of K1 (findings_proposed/C17-K1.patch).  The driver runs exactly
these functions (`kdTree`, `adoptKD`, `kdTrace`, `pivTrace`, `treeKnn`) on every generated case. -/

/-- a search-ready trace tree over the points `0..n-1` answers the first `k ≤ n` calls with the `k` smallest
distances in order (`tree_knn_eq_bruteforce` re-stated against the brute-force list of ALL points) -/
theorem search_exact_of_ready (dist : Nat → Rat) (T : TTree) (n : Nat) (hf : Fresh T) (ha : LbAdm dist T)
    (hu : LeafUniform dist T) (hne : LeavesNonempty T) (hp : T.pts.Perm (List.range n)) (k : Nat) (hk : k ≤ n) :
    (treeKnn T k).map (Option.map Prod.fst) = ((sortVals ((List.range n).map dist)).take k).map some := by
  have hl : T.pts.length = n := by simpa using hp.length_eq
  rw [tree_knn_eq_bruteforce dist T hf ha hu hne k (by omega)]
  have : sortVals (T.pts.map dist) = sortVals ((List.range n).map dist) :=
    sorted_perm_unique _ _ (((sortVals_perm _).trans (hp.map dist)).trans (sortVals_perm _).symm)
      (sortVals_sorted _) (sortVals_sorted _)
  rw [this]

/-- **split_separates.**  Every successful `BinaryTree::splitList` puts the values below the threshold to the
left and the values above it to the right; no value equals the threshold (it is the midpoint between the
largest left and the smallest right value), both sides are non-empty and strictly smaller. -/
theorem split_separates (val : Nat → Rat) (idx : List Nat) (s : Split) (hn : 2 ≤ idx.length)
    (h : splitList val idx = some s) :
    (∀ i ∈ s.left, val i < s.thr) ∧ (∀ i ∈ s.right, s.thr < val i) ∧ s.left ≠ [] ∧ s.right ≠ [] ∧
    s.left.length < idx.length ∧ s.right.length < idx.length :=
  ⟨(splitList_sep hn h).1, (splitList_sep hn h).2, (splitList_nonempty hn h).1, (splitList_nonempty hn h).2,
   (splitList_length_lt hn h).1, (splitList_length_lt hn h).2⟩
example : (splitList (fun i => [3, 1, 2, 2].getD i 0) [0, 1, 2, 3]).map (fun s => (s.left, s.right, s.thr)) =
    some ([1], [0, 2, 3], 3 / 2) := by decide +kernel

/-- **split_fails_iff_all_equal.**  "partitioning failed, all values are equal" is exact. -/
theorem split_fails_iff_all_equal (val : Nat → Rat) (idx : List Nat) (hn : 2 ≤ idx.length) :
    splitList val idx = none ↔ ∀ i ∈ idx, ∀ j ∈ idx, val i = val j :=
  splitList_none_iff hn
example : (splitList (fun _ => 7) [0, 1, 2]).isNone = true := by decide +kernel

/-- **kd_construction_terminates.**  The recursion of `KDTree::buildTree` never runs out of fuel: with any fuel
≥ the number of points the result is the same tree (duplicates included: a cell of equal points is a leaf, every
successful split makes both parts strictly smaller). -/
theorem kd_construction_terminates (P : Nat → Point) (dim bucket : Nat) (hb : 1 ≤ bucket) (f1 f2 depth : Nat)
    (idx : List Nat) (h1 : idx.length ≤ f1) (h2 : idx.length ≤ f2) :
    buildKD P dim bucket f1 depth idx = buildKD P dim bucket f2 depth idx :=
  buildKD_fuel P dim bucket hb f1 f2 depth idx h1 h2

/-- **kd_bound_admissible.**  For every data set, dimension, bucket size and depth limit, and every leaf order /
node ranks the real tree may have (`adoptKD`): `KDTree::squaredDistanceLowerBound` of every node never exceeds
the true squared distance of any point stored below the node. -/
theorem kd_bound_admissible (pq : Bool) (P : Nat → Point) (dim n maxDepth maxBucket : Nat) (real t : STree)
    (hdim : 0 < dim) (hP : ∀ i < n, (P i).length = dim) (q : Point) (hq : q.length = dim)
    (had : adoptKD (kdTree P dim n maxDepth maxBucket) real = some t) :
    LbAdm (fun i => dist2 (P i) q) (kdTrace pq q (fun i => dist2 (P i) q) t Box.top) := by
  have hs := adoptKD_sameCells had
  have hperm : t.idx.Perm (List.range n) := (hs.idx_perm).symm.trans (indexList_perm P dim n maxDepth maxBucket)
  refine kdTrace_lbAdm pq q _ (fun _ => rfl) t Box.top (hs.nodeBoxes (kdTree_nodeBoxes hdim)) ?_
  intro i hi
  rw [hP i (List.mem_range.mp (hperm.mem_iff.mp hi)), hq]

/-- **kd_search_exact.**  The C++ as it is (leaf queue), kd-tree with bucket size 1 (`maxBucketSize` 0 or 1), any
depth limit, any data (duplicates, points on split planes), any query, every `k ≤ n`: the distances reported by
the first `k` calls of `next()` on the tree built by `KDTree` are exactly the `k` smallest squared distances, in
non-decreasing order.  No hypothesis about the tree is left: admissibility, uniform leaves (a cell of positive
extent is always split), non-empty leaves and the permutation property are all proved from the construction. -/
theorem kd_search_exact (P : Nat → Point) (dim n maxDepth maxBucket : Nat) (real t : STree)
    (hdim : 0 < dim) (hn : 0 < n) (hP : ∀ i < n, (P i).length = dim) (q : Point) (hq : q.length = dim)
    (hb : maxBucket ≤ 1) (had : adoptKD (kdTree P dim n maxDepth maxBucket) real = some t)
    (k : Nat) (hk : k ≤ n) :
    (treeKnn (kdTrace false q (fun i => dist2 (P i) q) t Box.top) k).map (Option.map Prod.fst) =
      ((sortVals ((List.range n).map fun i => dist2 (P i) q)).take k).map some := by
  have hs := adoptKD_sameCells had
  have hperm : t.idx.Perm (List.range n) := (hs.idx_perm).symm.trans (indexList_perm P dim n maxDepth maxBucket)
  have hlen : ∀ i ∈ t.idx, (P i).length = dim := fun i hi => hP i (List.mem_range.mp (hperm.mem_iff.mp hi))
  have hne := hs.leavesNE (kdTree_leavesNE (P := P) (dim := dim) (maxDepth := maxDepth) (maxBucket := maxBucket) hn)
  exact search_exact_of_ready _ _ n (kdTrace_fresh _ _ _ _ _)
    (kd_bound_admissible false P dim n maxDepth maxBucket real t hdim hP q hq had)
    (kdTrace_leafUniform_lq q _ (fun _ => rfl) t Box.top (hs.leafSame (kdTree_leafSame hdim hb)) hne hlen)
    (kdTrace_leavesNonempty _ _ _ t _ hne) (by rw [kdTrace_pts]; exact hperm) k hk

/-- **kd_search_exact_point_queue.**  With the point queue (repair of K1) the same holds for EVERY bucket size. -/
theorem kd_search_exact_point_queue (P : Nat → Point) (dim n maxDepth maxBucket : Nat) (real t : STree)
    (hdim : 0 < dim) (hn : 0 < n) (hP : ∀ i < n, (P i).length = dim) (q : Point) (hq : q.length = dim)
    (had : adoptKD (kdTree P dim n maxDepth maxBucket) real = some t) (k : Nat) (hk : k ≤ n) :
    (treeKnn (kdTrace true q (fun i => dist2 (P i) q) t Box.top) k).map (Option.map Prod.fst) =
      ((sortVals ((List.range n).map fun i => dist2 (P i) q)).take k).map some := by
  have hs := adoptKD_sameCells had
  have hperm : t.idx.Perm (List.range n) := (hs.idx_perm).symm.trans (indexList_perm P dim n maxDepth maxBucket)
  have hne := hs.leavesNE (kdTree_leavesNE (P := P) (dim := dim) (maxDepth := maxDepth) (maxBucket := maxBucket) hn)
  exact search_exact_of_ready _ _ n (kdTrace_fresh _ _ _ _ _)
    (kd_bound_admissible true P dim n maxDepth maxBucket real t hdim hP q hq had)
    (kdTrace_leafUniform_pq q _ t Box.top) (kdTrace_leavesNonempty _ _ _ t _ hne)
    (by rw [kdTrace_pts]; exact hperm) k hk

/-- non-vacuity: 3 points on a line with a duplicate, bucket size 1; the model tree adopts itself -/
example : (adoptKD (kdTree (fun i => [[0], [4], [4]].getD i []) 1 3 0 1)
    (kdTree (fun i => [[0], [4], [4]].getD i []) 1 3 0 1)).map
      (fun t => treeKnn (kdTrace false [3] (fun i => dist2 ([[0], [4], [4]].getD i []) [3]) t Box.top) 3) =
    some [some (1, 1), some (1, 2), some (9, 0)] := by decide +kernel

/-- **lc_khc_construction.**  `LCTree::buildTree` / `KHCTree::buildTree` for every kernel, data set, pivot choice,
bucket size and depth limit: the index list stays a permutation of `0..n-1`; at every inner node the left
subtree lies strictly below and the right subtree strictly above the threshold in the projection onto the pivot
line; no leaf is empty; the recursion terminates (any fuel ≥ n gives the same tree); a leaf larger than the
bucket size exists only where all projections are equal. -/
theorem lc_khc_construction (k : Point → Point → Rat) (P : Nat → Point) (pick : List Nat → Nat × Nat)
    (n md mb : Nat) (hn : 0 < n) :
    (pivTree k P pick n md mb).idx.Perm (List.range n) ∧ (pivTree k P pick n md mb).Sep k P ∧
    (pivTree k P pick n md mb).LeavesNE ∧ (pivTree k P pick n md mb).LeafOK k P pick (normBucket mb) ∧
    ∀ fuel, n ≤ fuel →
      buildPiv k P pick (normBucket mb) fuel (normDepth md) (List.range n) = pivTree k P pick n md mb :=
  ⟨pivTree_perm k P pick n md mb, buildPiv_sep k P pick (one_le_normBucket mb) _ _ _,
   buildPiv_leavesNE k P pick (one_le_normBucket mb) _ _ _ (by
     intro h; have := congrArg List.length h; simp at this; omega),
   pivTree_bucket k P pick n md mb, fun fuel h => pivTree_fuel k P pick n md mb fuel h⟩

/-- **lc_bound_admissible / khc_bound_admissible.**  `squaredDistanceLowerBound` of LC-trees (Euclidean) and of
KHC-trees over the kernel `(<x,y>+1)^2` (ideal arithmetic): the bound of every node never exceeds the true squared
(feature) distance of any point below the node - for every data set, bucket size, depth limit and every pivot
choice that picks members of the cell (Cauchy-Schwarz in the feature space). -/
theorem lc_bound_admissible (pq : Bool) (P : Nat → Point) (q : Point) (dim n md mb : Nat) (hn : 0 < n)
    (hq : q.length = dim) (hP : ∀ i < n, (P i).length = dim) :
    LbAdm (fun i => dist2 (P i) q)
      (pivTrace pq dot P q (fun i => dist2 (P i) q) (pivTree dot P (pickFar dot P) n md mb) 0) :=
  (lcTree_pickFar_search_ready pq n md mb hn hq hP).2.1

theorem khc_bound_admissible (pq : Bool) (P : Nat → Point) (q : Point) (dim n md mb : Nat) (hn : 0 < n)
    (hq : q.length = dim) (hP : ∀ i < n, (P i).length = dim) :
    LbAdm (fun i => featureDist2 (polyKernel 2 1) (P i) q)
      (pivTrace pq (polyKernel 2 1) P q (fun i => featureDist2 (polyKernel 2 1) (P i) q)
        (pivTree (polyKernel 2 1) P (pickFar (polyKernel 2 1) P) n md mb) 0) :=
  (khcTree_poly21_pickFar_search_ready pq n md mb hn hq hP).2.1

/-- **lc_search_exact_point_queue.**  LC-tree, every bucket size and depth limit, point queue: exact search. -/
theorem lc_search_exact_point_queue (P : Nat → Point) (q : Point) (dim n md mb : Nat) (hn : 0 < n)
    (hq : q.length = dim) (hP : ∀ i < n, (P i).length = dim) (k : Nat) (hk : k ≤ n) :
    (treeKnn (pivTrace true dot P q (fun i => dist2 (P i) q) (pivTree dot P (pickFar dot P) n md mb) 0) k).map
        (Option.map Prod.fst) =
      ((sortVals ((List.range n).map fun i => dist2 (P i) q)).take k).map some := by
  obtain ⟨hf, ha, hne, hp⟩ := lcTree_pickFar_search_ready true (P := P) (q := q) n md mb hn hq hP
  exact search_exact_of_ready _ _ n hf ha (pivTrace_leafUniform_pq _ _ _ _ _ _) hne hp k hk

/-- **khc_search_exact_point_queue.**  KHC-tree over `(<x,y>+1)^2` (a non-Euclidean metric), point queue. -/
theorem khc_search_exact_point_queue (P : Nat → Point) (q : Point) (dim n md mb : Nat) (hn : 0 < n)
    (hq : q.length = dim) (hP : ∀ i < n, (P i).length = dim) (k : Nat) (hk : k ≤ n) :
    (treeKnn (pivTrace true (polyKernel 2 1) P q (fun i => featureDist2 (polyKernel 2 1) (P i) q)
        (pivTree (polyKernel 2 1) P (pickFar (polyKernel 2 1) P) n md mb) 0) k).map (Option.map Prod.fst) =
      ((sortVals ((List.range n).map fun i => featureDist2 (polyKernel 2 1) (P i) q)).take k).map some := by
  obtain ⟨hf, ha, hne, hp⟩ := khcTree_poly21_pickFar_search_ready true (P := P) (q := q) n md mb hn hq hP
  exact search_exact_of_ready _ _ n hf ha (pivTrace_leafUniform_pq _ _ _ _ _ _) hne hp k hk

/-- **lc_khc_search_exact_leaf_queue_partial.**  The C++ as it is (leaf queue) on LC/KHC trees: exact search
whenever every leaf holds copies of one point.  `_partial`: `LeafUniform` stays a hypothesis - at bucket size 1
a leaf with two points arises only where all projections onto a FARTHEST pair are equal (`lc_khc_construction`,
`LeafOK`), i.e. where all points of the cell coincide; that last step (maximality of `farthestPair`) is not
proved, the harness checks it on every real tree (`distinct-leaf-at-bucket-1` oracle).  For larger buckets the
real code is wrong (K1). -/
theorem lc_khc_search_exact_leaf_queue_partial (k : Point → Point → Rat) (P : Nat → Point)
    (pick : List Nat → Nat × Nat) (q : Point) (dim n md mb : Nat) (hn : 0 < n)
    (hcs : KernelCS k dim) (hq : q.length = dim) (hP : ∀ i < n, (P i).length = dim)
    (hpick : ∀ ix : List Nat, 2 ≤ ix.length → (pick ix).1 ∈ ix ∧ (pick ix).2 ∈ ix)
    (hnn : ∀ i < n, 0 ≤ featureDist2 k (P i) q)
    (hu : LeafUniform (fun i => featureDist2 k (P i) q)
      (pivTrace false k P q (fun i => featureDist2 k (P i) q) (pivTree k P pick n md mb) 0))
    (kk : Nat) (hk : kk ≤ n) :
    (treeKnn (pivTrace false k P q (fun i => featureDist2 k (P i) q) (pivTree k P pick n md mb) 0) kk).map
        (Option.map Prod.fst) =
      ((sortVals ((List.range n).map fun i => featureDist2 k (P i) q)).take kk).map some := by
  obtain ⟨hf, ha, hne, hp⟩ := pivTree_search_ready false (k := k) (P := P) (pick := pick) (q := q) (dim := dim)
    (dist := fun i => featureDist2 k (P i) q) n md mb hn hcs hq hP
    (fun ix hix h2 => ⟨hP _ (hix _ (hpick ix h2).1), hP _ (hix _ (hpick ix h2).2)⟩) (fun _ _ => rfl) hnn
  exact search_exact_of_ready _ _ n hf ha hu hne hp kk hk

/-! ### When is the prediction determined? -/

/-- **knn_prediction_determined.**  If there is no tie across the k-th boundary, or all data points at the k-th
smallest distance carry the same label (`BoundaryOk`), then ANY two k-nearest-neighbour selections from the data
(tree back-end, exhaustive back-end, whatever their tie-breaking) give the same votes, the same soft output for
every distance weighting, and the same predicted class. -/
theorem knn_prediction_determined {data a ra b rb : List (Rat × Nat)} {k : Nat}
    (hk : BoundaryOk data k) (ha : IsKnnSel data a ra k) (hb : IsKnnSel data b rb k)
    (numClasses : Nat) (w : Rat → Rat) :
    voteCounts numClasses a = voteCounts numClasses b ∧
    softOutput ratArith numClasses w a = softOutput ratArith numClasses w b ∧
    predictClass ratArith numClasses w a = predictClass ratArith numClasses w b :=
  prediction_determined_of_boundaryOk hk ha hb numClasses w

/-- **knn_prediction_not_determined_on_ties.**  With a tie in distance across the k-th boundary between points of
different labels the prediction is NOT well defined: two valid selections of the same data predict differently.
(The tree back-end resolves such ties by (distance, node address, position in the leaf), the exhaustive one by its
heap; the harness therefore compares the two back-ends only where `BoundaryOk` holds.) -/
theorem knn_prediction_not_determined_on_ties :
    ∃ (data a ra b rb : List (Rat × Nat)), IsKnnSel data a ra 2 ∧ IsKnnSel data b rb 2 ∧
      predictClass ratArith 2 (fun _ => 1) a ≠ predictClass ratArith 2 (fun _ => 1) b :=
  prediction_not_determined_on_ties

/-! ### Non-vacuity -/

/-- a uniform tree: three leaves `{0,1}` (duplicates), `{2}`, `{3}` -/
def exTree : TTree :=
  .node .unq 0 true
    (.node .unq 0 true (.leaf false 0 [⟨4, 0, [0, 1]⟩]) (.leaf false 1 [⟨9, 1, [2]⟩]))
    (.leaf false 16 [⟨25, 2, [3]⟩])

def exDist : Nat → Rat := fun i => [4, 4, 9, 25].getD i 0

example : Fresh exTree ∧ LbAdm exDist exTree ∧ LeafUniform exDist exTree ∧ LeavesNonempty exTree := by
  refine ⟨?_, ?_, ?_, ?_⟩
  · simp [exTree, Fresh]
  · simp [exTree, LbAdm, TTree.pts, exDist, qpts]; decide +kernel
  · simp [exTree, LeafUniform, exDist]
  · simp [exTree, LeavesNonempty]

example : treeKnn exTree 4 = [some (4, 0), some (4, 1), some (9, 2), some (25, 3)] := by decide +kernel

end SharkVerif.NN
