/-
C07 (continued) — the sentinel hypothesis of the equality-constrained end-to-end theorems, replaced by an explicit
magnitude bound on the DATA.

`Props/C07.lean` proves the end-to-end statements about the trainers with bias / offset (`CSvmTrainer` with bias,
`EpsilonSvmTrainer`, `OneClassSvmTrainer`) as `_partial` theorems: they carry a hypothesis about the RUN (`hsent`: the
gradients stay strictly inside the sentinels `±1e100` of the C++ at the start of every pass).  Here that hypothesis is
derived from the data: if the kernel entries are bounded by `κ` and the boxes are bounded, the gradient `lin − K·α` of
every state inside the invariant is bounded by `|lin0| + κ·Σ_y max(|L0 y|,|U0 y|)`; if that number is below `1e100` --
true for all realistic data -- every pass state is inside the sentinel range and the end-to-end theorems hold at full
strength.  Over `Rat`, all sizes.
-/
import SharkVerif.Props.C07
import Mathlib.Algebra.Order.Ring.Abs
namespace SharkVerif.C07
open SharkVerif.Qp SharkVerif.Smo SharkVerif.SvmTrainer

section Bounded
open SharkVerif.SvmUnpermute

variable {lin0 L0 U0 : Nat → Rat}

/-! ### the gradient of every state inside the invariant is bounded by the data -/

theorem abs_rsum_le (f : Nat → Rat) (n : Nat) : |rsum f n| ≤ rsum (fun k => |f k|) n := by
  induction n with
  | zero => simp
  | succ n ih =>
    rw [rsum_succ, rsum_succ]
    have h1 := abs_le.mp ih
    have h2 := abs_le.mp (le_refl |f n|)
    exact abs_le.mpr ⟨by linarith [h1.1, h2.1], by linarith [h1.2, h2.2]⟩

theorem rsum_const (c : Rat) (n : Nat) : rsum (fun _ => c) n = (n : Rat) * c := by
  induction n with
  | zero => simp
  | succ n ih => rw [rsum_succ, ih]; push_cast; ring

/-- a coefficient inside its box is bounded by the larger of the two box ends -/
theorem abs_le_max_of_box {l u x : Rat} (h : l ≤ x ∧ x ≤ u) : |x| ≤ max |l| |u| := by
  have h1 := neg_abs_le l
  have h2 := le_abs_self u
  have h3 := le_max_left |l| |u|
  have h4 := le_max_right |l| |u|
  exact abs_le.mpr ⟨by linarith [h.1], by linarith [h.2]⟩

/-- with all variables active, the maintained gradient of variable `a` is bounded by the data: the linear term of its
original variable plus (kernel bound) × (sum of the box bounds of ALL original variables) -/
theorem grad_bound_of_active {u : RS} (h : Inv u) (ht : Tied lin0 L0 U0 u) (hact : u.active = u.n) {κ : Rat}
    (hK : ∀ x y, x < u.n → y < u.n → |u.K x y| ≤ κ) (a : Nat) (ha : a < u.n) :
    |u.g a| ≤ |lin0 (u.perm a)| + κ * rsum (fun y => max |L0 y| |U0 y|) u.n := by
  have hκ : 0 ≤ κ := (abs_nonneg _).trans (hK a a ha ha)
  rw [h.grad a (by rw [hact]; exact ha), (ht.2 a ha).2.1]
  have h1 : |Kalpha u a| ≤ κ * rsum (fun y => max |L0 y| |U0 y|) u.n := by
    unfold Kalpha
    refine (abs_rsum_le _ _).trans ?_
    rw [← rsum_perm h.perm_lt h.perm_inj (fun y => max |L0 y| |U0 y|), ← rsum_mul_left]
    apply rsum_le
    intro b hb
    show |u.K (u.perm a) (u.perm b) * u.alpha b| ≤ κ * max |L0 (u.perm b)| |U0 (u.perm b)|
    rw [abs_mul]
    have hkb := hK _ _ (h.perm_lt a ha) (h.perm_lt b hb)
    have hbox := h.box b hb
    rw [(ht.2 b hb).2.2.1, (ht.2 b hb).2.2.2] at hbox
    exact mul_le_mul hkb (abs_le_max_of_box hbox) (abs_nonneg _) hκ
  have h2 := abs_le.mp h1
  have h3 := abs_le.mp (le_refl |lin0 (u.perm a)|)
  exact abs_le.mpr ⟨by linarith [h2.2, h3.1], by linarith [h2.1, h3.2]⟩

/-- **the sentinel range follows from a bound on the data.**  For every state inside the invariant and tied to the
original data (`lin0`, boxes `[L0,U0]`), with kernel entries bounded by `κ`: if `|lin0 x| + κ·Σ_y max(|L0 y|,|U0 y|)` is
below `1e100` for every original variable `x`, the gradients of the un-shrunk state lie strictly inside the sentinels
`±1e100` from which `LibSVMSelectionCriterion`, `getMaxKKTViolations` and `CSvmTrainer::computeBias` start their maxima
and minima.  (The gradient is `lin − K·α` and `α` lies in the boxes.) -/
theorem sentinelOK_of_bounds {t : RS} (h : Inv t) (ht : Tied lin0 L0 U0 t) {κ : Rat}
    (hK : ∀ x y, x < t.n → y < t.n → |t.K x y| ≤ κ)
    (hb : ∀ x, x < t.n → |lin0 x| + κ * rsum (fun y => max |L0 y| |U0 y|) t.n < 10 ^ 100) : SentinelOK t := by
  have hn : t.unshrink.n = t.n := orderFree_n.unshrink t
  have hKu : t.unshrink.K = t.K := by unfold State.unshrink; split <;> rfl
  have hI := inv_unshrink h
  intro a ha
  have hau : a < t.unshrink.n := by rw [hn]; exact ha
  have hg := grad_bound_of_active hI (tied_unshrink ht) (unshrink_active t) (κ := κ)
    (by rw [hn, hKu]; exact hK) a hau
  rw [hn] at hg
  have hp : t.unshrink.perm a < t.n := by have := hI.perm_lt a hau; rw [hn] at this; exact this
  have := hb _ hp
  have hlt : |t.unshrink.g a| < 10 ^ 100 := lt_of_le_of_lt hg this
  exact abs_lt.mp hlt

/-- **every pass of a run on the equality-constrained problem starts inside the sentinel range**, for data inside the
explicit bound: no hypothesis about the run is left (the states at which the passes of `QpSolver::solve` start are the
elements of `C08.passStates`; size, kernel, boxes and linear term never change during the run, the invariant is kept by
every pass that starts inside the sentinel range -- `C08.solveIter_inv_svm` -- so the bound propagates). -/
theorem passStates_sentinel_of_bounds {κ : Rat} (s0 : RS) (h0 : Inv s0) (ht0 : Tied lin0 L0 U0 s0) (he : s0.eqc = true)
    (eps : Rat) (heps : 0 < eps) (hK : ∀ x y, x < s0.n → y < s0.n → |s0.K x y| ≤ κ)
    (hb : ∀ x, x < s0.n → |lin0 x| + κ * rsum (fun y => max |L0 y| |U0 y|) s0.n < 10 ^ 100) :
    ∀ (fuel counter : Nat) (t : RS), t ∈ C08.passStates 1 eps fuel s0 counter → SentinelOK t := by
  have key : ∀ (fuel : Nat) (s : RS) (counter : Nat), Inv s → Tied lin0 L0 U0 s → s.eqc = true → s.n = s0.n →
      s.K = s0.K → ∀ t, t ∈ C08.passStates 1 eps fuel s counter → SentinelOK t := by
    intro fuel
    induction fuel with
    | zero => intro s counter _ _ _ _ _ t ht; simp [C08.passStates] at ht
    | succ fuel ih =>
      intro s counter h hT hes hn hKs t ht
      have hs : SentinelOK s :=
        sentinelOK_of_bounds h hT (κ := κ) (by rw [hn, hKs]; exact hK) (by rw [hn]; exact hb)
      unfold C08.passStates at ht
      cases hnx : (solveIter 1 eps s counter).2 with
      | none =>
        rw [hnx] at ht
        simp only [List.mem_cons, List.not_mem_nil, or_false] at ht
        rw [ht]; exact hs
      | some p =>
        obtain ⟨s', c'⟩ := p
        rw [hnx] at ht
        rcases List.mem_cons.mp ht with e | ht'
        · rw [e]; exact hs
        · obtain ⟨hI', he'⟩ := (C08.solveIter_inv_svm eps heps s counter h hes hs).2 s' c' hnx
          have hT' : Tied lin0 L0 U0 s' :=
            (solveIter_preserves (Tied lin0 L0 U0) 1 eps (fun _ h => tied_unshrink h) (fun _ h => tied_shrink h eps)
              (fun _ i j h => tied_updateSMO h i j) s counter hT).2 s' c' hnx
          have hn' : s'.n = s.n :=
            (solveIter_preserves (fun t => t.n = s.n) 1 eps (fun t h => (orderFree_n.unshrink t).trans h)
              (fun t h => (shrink_n t eps).trans h) (fun t i j h => ((updateSMO_frame t i j).1).trans h)
              s counter rfl).2 s' c' hnx
          have hK' : s'.K = s.K := (solveIter_K 1 eps s counter).2 s' c' hnx
          exact ih s' c' hI' hT' he' (hn'.trans hn) (hK'.trans hKs) t ht'
  intro fuel counter t ht
  exact key fuel s0 counter h0 ht0 he rfl rfl t ht

/-! ### the end-to-end theorems at full strength -/

/-- **end to end on the original data, equality-constrained problem, FULL strength** (LibSVM second-order selection, any
start state inside the invariant and tied to the original data, any accuracy, iteration limit and start counter).  If the
model of `QpSolver::solve` reports `AccuracyReached` for a PSD kernel, the vector `getUnpermutedAlpha()` returns lies in
the ORIGINAL boxes, has the coefficient sum of the start vector, satisfies the pairwise KKT conditions up to `eps` for
its TRUE gradient `G = lin0 − K·a`, has the dual objective `functionValue()` reports, no vector in the boxes with the same
sum is more than `eps·Σ(U0−L0)` better, and the bias `CSvmTrainer::computeBias` returns lies in the interval the
optimality conditions allow.  The only hypothesis beyond PSD-ness is the explicit magnitude bound on the DATA (`hK`,
`hb`: kernel entries bounded by `κ`, `|lin0 x| + κ·Σ_y max(|L0 y|,|U0 y|) < 1e100`) that keeps every gradient inside the
sentinels `±1e100` of the C++; no hypothesis about the run.  That some bound is needed is shown by the `_partial` version
(`solve_returned_optimal_svm_partial`) and the witnesses `bias_sentinel_witness`, `C08.selectLibSVM_sentinel_witness`. -/
theorem solve_returned_optimal_svm {κ : Rat} (s0 : RS) (h0 : Inv s0) (ht0 : Tied lin0 L0 U0 s0) (he : s0.eqc = true)
    (hpsd : KernelPSD s0.K) (eps : Rat) (heps : 0 < eps) (fuel counter it : Nat)
    (hK : ∀ x y, x < s0.n → y < s0.n → |s0.K x y| ≤ κ)
    (hb : ∀ x, x < s0.n → |lin0 x| + κ * rsum (fun y => max |L0 y| |U0 y|) s0.n < 10 ^ 100) :
    let r := solve 1 eps fuel s0 counter it
    let a := unpermutedAlpha r.1 0
    let G : Nat → Rat := fun x => lin0 x - rsum (fun y => s0.K x y * a y) s0.n
    r.2.1 = true →
      (∀ x, x < s0.n → L0 x ≤ a x ∧ a x ≤ U0 x) ∧
      rsum a s0.n = alphaSum s0 ∧
      (∀ x z, x < s0.n → z < s0.n → a x < U0 x → L0 z < a z → G x - G z ≤ eps) ∧
      r.1.functionValue = dual s0.n s0.K lin0 a ∧
      (∀ β : Nat → Rat, (∀ x, x < s0.n → L0 x ≤ β x ∧ β x ≤ U0 x) → rsum β s0.n = alphaSum s0 →
        dual s0.n s0.K lin0 β - dual s0.n s0.K lin0 a ≤ eps * rsum (fun x => U0 x - L0 x) s0.n) ∧
      (let b := computeBias r.1 (fun k => (k : Rat))
       ∀ x, x < s0.n → (a x < U0 x → G x - b ≤ eps) ∧ (L0 x < a x → b - G x ≤ eps)) :=
  solve_returned_optimal_svm_partial s0 h0 ht0 he hpsd eps heps fuel counter it
    (passStates_sentinel_of_bounds s0 h0 ht0 he eps heps hK hb fuel counter)

example : ∃ (s0 : RS) (lin0 L0 U0 : Nat → Rat) (eps κ : Rat), Inv s0 ∧ Tied lin0 L0 U0 s0 ∧ s0.eqc = true ∧
    KernelPSD s0.K ∧ 0 < eps ∧ 0 < s0.n ∧ (∀ x y, x < s0.n → y < s0.n → |s0.K x y| ≤ κ) ∧
    (∀ x, x < s0.n → |lin0 x| + κ * rsum (fun y => max |L0 y| |U0 y|) s0.n < 10 ^ 100) :=
  ⟨oneClassInit 2 (fun _ _ => 1) (1 / 2) ((2 : Nat) : Rat) false, _, _, _, 1 / 1000, 1,
   (oneClassInit_inv 2 (fun _ _ => 1) (1 / 2) false (fun _ _ => rfl) (by decide) (by norm_num) (by norm_num)).1,
   tied_oneClassInit 2 (fun _ _ => 1) (1 / 2) false, rfl, kernelPSD_one, by norm_num, by decide,
   fun _ _ _ _ => by show |(1 : Rat)| ≤ 1; norm_num,
   fun _ _ => by
     show |(0 : Rat)| + 1 * rsum (fun _ => max |(0 : Rat)| |1 / (1 / 2 * ((2 : Nat) : Rat))|) 2 < 10 ^ 100
     rw [rsum_const]; norm_num⟩

/-! ### C-SVM with bias -/

/-- the data bound of the C-SVM dual: `|lin0| = 1`, and the larger box end of variable `k` is `C₊w_k` resp. `C₋w_k` -/
theorem csvm_data_bound (n : Nat) (y : Nat → Bool) (Cn Cp : Rat) (w : Nat → Rat) (hCn : 0 ≤ Cn) (hCp : 0 ≤ Cp)
    (hw : ∀ k, k < n → 0 ≤ w k) {κ : Rat}
    (hb : 1 + κ * rsum (fun k => if y k then Cp * w k else Cn * w k) n < 10 ^ 100) :
    ∀ x, x < n → |(fun k => if y k then (1 : Rat) else -1) x|
      + κ * rsum (fun k => max |(fun k => if y k then (0 : Rat) else -(Cn * w k)) k|
          |(fun k => if y k then Cp * w k else (0 : Rat)) k|) n < 10 ^ 100 := by
  intro x _
  have e1 : |(fun k => if y k then (1 : Rat) else -1) x| = 1 := by
    show |if y x then (1 : Rat) else -1| = 1
    split
    · exact abs_one
    · rw [abs_neg]; exact abs_one
  have e2 : rsum (fun k => max |(fun k => if y k then (0 : Rat) else -(Cn * w k)) k|
      |(fun k => if y k then Cp * w k else (0 : Rat)) k|) n
      = rsum (fun k => if y k then Cp * w k else Cn * w k) n := by
    apply rsum_congr
    intro k hk
    show max |if y k then (0 : Rat) else -(Cn * w k)| |if y k then Cp * w k else (0 : Rat)|
      = if y k then Cp * w k else Cn * w k
    by_cases hy : y k = true
    · have hnn : 0 ≤ Cp * w k := mul_nonneg hCp (hw k hk)
      rw [if_pos hy, if_pos hy, if_pos hy, abs_zero, abs_of_nonneg hnn, max_eq_right hnn]
    · have hnn : 0 ≤ Cn * w k := mul_nonneg hCn (hw k hk)
      rw [if_neg hy, if_neg hy, if_neg hy, abs_zero, abs_neg, abs_of_nonneg hnn, max_eq_left hnn]
  rw [e1, e2]; exact hb

/-- **end to end on the original data, C-SVM with bias, FULL strength** (one or class-specific `C`, per-example weights,
cold start; the model of `CSvmTrainer::optimize` with `SvmShrinkingProblem`, any shrinking flag, any iteration limit).  If
training reports `AccuracyReached` for a PSD kernel, the coefficients stored in the model (`getUnpermutedAlpha()`) lie in
the boxes `[0, C₊w_k]` / `[−C₋w_k, 0]`, sum to 0 exactly, satisfy the pairwise KKT conditions of the dual up to `eps` for
their true gradient, `functionValue()` is their dual objective, no vector in the boxes with sum 0 is more than
`eps·Σ(U0−L0)` better, and the bias of `CSvmTrainer::computeBias` lies in the KKT interval.  The only hypothesis beyond
PSD-ness is the explicit magnitude bound on the DATA: kernel entries bounded by `κ` (`hK`) and
`1 + κ·Σ_k C_{y_k} w_k < 1e100` (`hb`) -- it keeps every gradient of the run inside the sentinels `±1e100` of the C++
(`passStates_sentinel_of_bounds`); there is no hypothesis about the run.  That a bound is needed:
`csvm_bias_returned_optimal_partial`, `bias_sentinel_witness`, `C08.selectLibSVM_sentinel_witness`. -/
theorem csvm_bias_returned_optimal {κ : Rat} (n : Nat) (K : Nat → Nat → Rat) (y : Nat → Bool) (Cn Cp : Rat)
    (w : Nat → Rat) (eps : Rat) (shrink : Bool) (maxIter : Nat) (hsym : ∀ x y, K x y = K y x) (hpsd : KernelPSD K)
    (hCn : 0 ≤ Cn) (hCp : 0 ≤ Cp) (hw : ∀ k, k < n → 0 ≤ w k) (heps : 0 < eps)
    (hK : ∀ x y, x < n → y < n → |K x y| ≤ κ)
    (hb : 1 + κ * rsum (fun k => if y k then Cp * w k else Cn * w k) n < 10 ^ 100) :
    let r := train2 n K y Cn Cp w eps true shrink maxIter
    let a := unpermutedAlpha r.1 0
    let lin0 : Nat → Rat := fun k => if y k then 1 else -1
    let L0 : Nat → Rat := fun k => if y k then 0 else -(Cn * w k)
    let U0 : Nat → Rat := fun k => if y k then Cp * w k else 0
    let G : Nat → Rat := fun x => lin0 x - rsum (fun z => K x z * a z) n
    r.2.1 = true →
      (∀ x, x < n → L0 x ≤ a x ∧ a x ≤ U0 x) ∧
      rsum a n = 0 ∧
      (∀ x z, x < n → z < n → a x < U0 x → L0 z < a z → G x - G z ≤ eps) ∧
      r.1.functionValue = dual n K lin0 a ∧
      (∀ β : Nat → Rat, (∀ x, x < n → L0 x ≤ β x ∧ β x ≤ U0 x) → rsum β n = 0 →
        dual n K lin0 β - dual n K lin0 a ≤ eps * rsum (fun x => U0 x - L0 x) n) ∧
      (let b := computeBias r.1 (fun k => (k : Rat))
       ∀ x, x < n → (a x < U0 x → G x - b ≤ eps) ∧ (L0 x < a x → b - G x ≤ eps)) :=
  csvm_bias_returned_optimal_partial n K y Cn Cp w eps shrink maxIter hsym hpsd hCn hCp hw heps
    (passStates_sentinel_of_bounds (csvmInit2 n K y Cn Cp w true shrink)
      (csvmInit2_inv n K y Cn Cp w true shrink hsym hCn hCp hw) (tied_csvmInit2 n K y Cn Cp w true shrink) rfl eps heps
      (κ := κ) hK (csvm_data_bound n y Cn Cp w hCn hCp hw hb) maxIter 0)

example : ∃ (n : Nat) (K : Nat → Nat → Rat) (y : Nat → Bool) (Cn Cp eps κ : Rat) (w : Nat → Rat),
    (∀ x y, K x y = K y x) ∧ KernelPSD K ∧ 0 ≤ Cn ∧ 0 ≤ Cp ∧ (∀ k, k < n → 0 ≤ w k) ∧ 0 < eps ∧ 0 < n ∧
    (∀ x y, x < n → y < n → |K x y| ≤ κ) ∧
    1 + κ * rsum (fun k => if y k then Cp * w k else Cn * w k) n < 10 ^ 100 :=
  ⟨2, fun _ _ => 1, fun k => k == 0, 1, 2, 1 / 1000, 1, fun _ => 1, fun _ _ => rfl, kernelPSD_one, by norm_num,
   by norm_num, fun _ _ => by norm_num, by norm_num, by decide, fun _ _ _ _ => by norm_num, by
     rw [show (2 : Nat) = 0 + 1 + 1 from rfl, rsum_succ, rsum_succ, rsum_zero]
     norm_num⟩

/-- **the same for a warm-started training with bias, FULL strength**, for every coefficient vector `a1` of the previous
model that is clipped, unbalanced beyond `1e-12` relative (`mustBalance`) or sums to 0 (`warm_start_inv`: the start vector `CSvmTrainer::optimize` hands to
`setInitialSolution` then sums to 0 exactly; this hypothesis is about the start vector, not about the run): the returned
coefficients sum to 0 and are `eps`-optimal among the vectors in the boxes with sum 0; the bias lies in the KKT interval.
Beyond PSD-ness only the explicit magnitude bound on the DATA (`hK`, `hb`) that keeps every gradient inside the sentinels
`±1e100` of the C++ (needed: `csvm_bias_warm_returned_optimal_partial`, `bias_sentinel_witness`,
`C08.selectLibSVM_sentinel_witness`). -/
theorem csvm_bias_warm_returned_optimal {κ : Rat} (n : Nat) (K : Nat → Nat → Rat) (y : Nat → Bool) (Cn Cp : Rat)
    (w : Nat → Rat) (eps : Rat) (shrink : Bool) (maxIter : Nat) (a1 : Nat → Rat) (hsym : ∀ x y, K x y = K y x)
    (hpsd : KernelPSD K) (hCn : 0 ≤ Cn) (hCp : 0 ≤ Cp) (hw : ∀ k, k < n → 0 ≤ w k) (heps : 0 < eps)
    (hz : mustBalance (csvmInit2 n K y Cn Cp w true shrink) a1 ∨ rsum a1 n = 0)
    (hK : ∀ x y, x < n → y < n → |K x y| ≤ κ)
    (hb : 1 + κ * rsum (fun k => if y k then Cp * w k else Cn * w k) n < 10 ^ 100) :
    let r := train2Warm n K y Cn Cp w eps true shrink maxIter a1
    let a := unpermutedAlpha r.1 0
    let lin0 : Nat → Rat := fun k => if y k then 1 else -1
    let L0 : Nat → Rat := fun k => if y k then 0 else -(Cn * w k)
    let U0 : Nat → Rat := fun k => if y k then Cp * w k else 0
    let G : Nat → Rat := fun x => lin0 x - rsum (fun z => K x z * a z) n
    r.2.1 = true →
      (∀ x, x < n → L0 x ≤ a x ∧ a x ≤ U0 x) ∧
      rsum a n = 0 ∧
      (∀ x z, x < n → z < n → a x < U0 x → L0 z < a z → G x - G z ≤ eps) ∧
      r.1.functionValue = dual n K lin0 a ∧
      (∀ β : Nat → Rat, (∀ x, x < n → L0 x ≤ β x ∧ β x ≤ U0 x) → rsum β n = 0 →
        dual n K lin0 β - dual n K lin0 a ≤ eps * rsum (fun x => U0 x - L0 x) n) ∧
      (let b := computeBias r.1 (fun k => (k : Rat))
       ∀ x, x < n → (a x < U0 x → G x - b ≤ eps) ∧ (L0 x < a x → b - G x ≤ eps)) :=
  csvm_bias_warm_returned_optimal_partial n K y Cn Cp w eps shrink maxIter a1 hsym hpsd hCn hCp hw heps hz
    (passStates_sentinel_of_bounds
      ((csvmInit2 n K y Cn Cp w true shrink).setInitialSolution
        (warmStartVector (csvmInit2 n K y Cn Cp w true shrink) a1 true))
      (warm_start_inv n K y Cn Cp w true shrink a1 hsym hCn hCp hw).1
      (tied_setInitialSolution (tied_csvmInit2 n K y Cn Cp w true shrink) _) rfl eps heps
      (κ := κ) hK (csvm_data_bound n y Cn Cp w hCn hCp hw hb) maxIter 0)

example : ∃ (n : Nat) (K : Nat → Nat → Rat) (y : Nat → Bool) (Cn Cp eps κ : Rat) (w a1 : Nat → Rat) (sh : Bool),
    (∀ x y, K x y = K y x) ∧ KernelPSD K ∧ 0 ≤ Cn ∧ 0 ≤ Cp ∧ (∀ k, k < n → 0 ≤ w k) ∧ 0 < eps ∧ 0 < n ∧
    (mustBalance (csvmInit2 n K y Cn Cp w true sh) a1 ∨ rsum a1 n = 0) ∧
    (∀ x y, x < n → y < n → |K x y| ≤ κ) ∧
    1 + κ * rsum (fun k => if y k then Cp * w k else Cn * w k) n < 10 ^ 100 :=
  ⟨2, fun _ _ => 1, fun k => k == 0, 1, 2, 1 / 1000, 1, fun _ => 1, fun _ => 0, false, fun _ _ => rfl, kernelPSD_one,
   by norm_num, by norm_num, fun _ _ => by norm_num, by norm_num, by decide, Or.inr (rsum_const_zero 2),
   fun _ _ _ _ => by norm_num, by
     rw [show (2 : Nat) = 0 + 1 + 1 from rfl, rsum_succ, rsum_succ, rsum_zero]
     norm_num⟩

/-! ### ε-regression and one-class machines -/

/-- the data bound of the ε-regression dual: `|y_k ∓ tube| ≤ |y_k| + |tube|`, every one of the `2n` boxes is `[0,C]` or
`[−C,0]` -/
theorem eps_data_bound (n : Nat) (y : Nat → Rat) (C tube : Rat) (hC : 0 < C) {κ : Rat}
    (hy : ∀ k, k < n → |y k| + |tube| + κ * (2 * (n : Rat) * C) < 10 ^ 100) :
    ∀ x, x < 2 * n → |(fun k => if k < n then y k - tube else y (k - n) + tube) x|
      + κ * rsum (fun k => max |(fun k => if k < n then (0 : Rat) else -C) k|
          |(fun k => if k < n then C else (0 : Rat)) k|) (2 * n) < 10 ^ 100 := by
  intro x hx
  have e2 : rsum (fun k => max |(fun k => if k < n then (0 : Rat) else -C) k|
      |(fun k => if k < n then C else (0 : Rat)) k|) (2 * n) = 2 * (n : Rat) * C := by
    have : rsum (fun k => max |(fun k => if k < n then (0 : Rat) else -C) k|
        |(fun k => if k < n then C else (0 : Rat)) k|) (2 * n) = rsum (fun _ => C) (2 * n) := by
      apply rsum_congr
      intro k _
      show max |if k < n then (0 : Rat) else -C| |if k < n then C else (0 : Rat)| = C
      by_cases hk : k < n
      · rw [if_pos hk, if_pos hk, abs_zero, abs_of_pos hC, max_eq_right (le_of_lt hC)]
      · rw [if_neg hk, if_neg hk, abs_zero, abs_neg, abs_of_pos hC, max_eq_left (le_of_lt hC)]
    rw [this, rsum_const]; push_cast; ring
  rw [e2]
  have ht1 := le_abs_self tube
  have ht2 := neg_abs_le tube
  show |if x < n then y x - tube else y (x - n) + tube| + κ * (2 * (n : Rat) * C) < 10 ^ 100
  by_cases hxn : x < n
  · rw [if_pos hxn]
    have h1 := le_abs_self (y x)
    have h2 := neg_abs_le (y x)
    have : |y x - tube| ≤ |y x| + |tube| := abs_le.mpr ⟨by linarith, by linarith⟩
    have := hy x hxn
    linarith
  · rw [if_neg hxn]
    have h1 := le_abs_self (y (x - n))
    have h2 := neg_abs_le (y (x - n))
    have : |y (x - n) + tube| ≤ |y (x - n)| + |tube| := abs_le.mpr ⟨by linarith, by linarith⟩
    have := hy (x - n) (by omega)
    linarith

/-- **end to end on the original data, ε-insensitive regression, FULL strength** (the model of
`EpsilonSvmTrainer::trainSVM`: `2n` variables over the block matrix `[[K,K],[K,K]]`, LibSVM selection, any shrinking flag
and iteration limit).  If training reports `AccuracyReached` for a PSD kernel and `C > 0`, then with
`a = getUnpermutedAlpha()`, the model coefficients `β_k = a_k + a_{n+k}`, the residual without offset
`F_k = y_k − Σ_j K(k,j) β_j` and the offset `b` the trainer computes: `a_k ∈ [0,C]`, `a_{n+k} ∈ [−C,0]`, `Σβ = 0`, and
`b` satisfies the optimality conditions of both halves up to `eps` -- up to `eps` every point with a free coefficient
lies on the boundary of the tube and the others on the correct side.  Beyond PSD-ness only the explicit magnitude bound on
the DATA: kernel entries bounded by `κ` (`hK`) and `|y_k| + |tube| + κ·2nC < 1e100` for every label (`hy`); it keeps every
gradient of the run inside the sentinels `±1e100` of the C++ (`passStates_sentinel_of_bounds`), there is no hypothesis about
the run.  That a bound is needed: `eps_regression_returned_partial`, `bias_sentinel_witness`,
`C08.selectLibSVM_sentinel_witness`. -/
theorem eps_regression_returned {κ : Rat} (n : Nat) (K : Nat → Nat → Rat) (y : Nat → Rat) (C tube eps : Rat) (sh : Bool)
    (fuel : Nat) (hsym : ∀ x y, K x y = K y x) (hpsd : KernelPSD K) (hC : 0 < C) (heps : 0 < eps)
    (hK : ∀ x y, x < n → y < n → |K x y| ≤ κ)
    (hy : ∀ k, k < n → |y k| + |tube| + κ * (2 * (n : Rat) * C) < 10 ^ 100) :
    let r := solve 1 eps fuel (epsInit n K y C tube sh) 0 0
    let a := unpermutedAlpha r.1 0
    let β : Nat → Rat := epsCoefficients n r.1 0
    let F : Nat → Rat := fun k => y k - rsum (fun j => K k j * β j) n
    let b := epsOffset r.1 (fun k => (k : Rat))
    r.2.1 = true →
      (∀ k, k < n → 0 ≤ a k ∧ a k ≤ C ∧ -C ≤ a (n + k) ∧ a (n + k) ≤ 0) ∧
      rsum β n = 0 ∧
      (∀ k, k < n →
        (a k < C → (F k - tube) - b ≤ eps) ∧ (0 < a k → b - (F k - tube) ≤ eps) ∧
        (a (n + k) < 0 → (F k + tube) - b ≤ eps) ∧ (-C < a (n + k) → b - (F k + tube) ≤ eps)) :=
  eps_regression_returned_partial n K y C tube eps sh fuel hsym hpsd hC heps
    (passStates_sentinel_of_bounds (epsInit n K y C tube sh) (epsInit_inv n K y C tube sh hsym (le_of_lt hC))
      (tied_epsInit n K y C tube sh) rfl eps heps (κ := κ)
      (fun x z hx hz => by
        have hx' : x < 2 * n := hx
        have hz' : z < 2 * n := hz
        exact hK _ _ (Nat.mod_lt _ (by omega)) (Nat.mod_lt _ (by omega)))
      (eps_data_bound n y C tube hC hy) fuel 0)

example : ∃ (n : Nat) (K : Nat → Nat → Rat) (y : Nat → Rat) (C tube eps κ : Rat),
    (∀ x y, K x y = K y x) ∧ KernelPSD K ∧ 0 < C ∧ 0 < eps ∧ 0 < n ∧ (∀ x y, x < n → y < n → |K x y| ≤ κ) ∧
    (∀ k, k < n → |y k| + |tube| + κ * (2 * (n : Rat) * C) < 10 ^ 100) :=
  ⟨2, fun _ _ => 1, fun _ => 1, 1, 1 / 10, 1 / 1000, 1, fun _ _ => rfl, kernelPSD_one, by norm_num, by norm_num,
   by decide, fun _ _ _ _ => by norm_num, fun _ _ => by norm_num [abs_of_pos]⟩

/-- the data bound of the one-class dual: zero linear term, `n` boxes `[0, 1/(nu·n)]`, so `Σ_y max = 1/nu` -/
theorem oneclass_data_bound (n : Nat) (nu : Rat) (hn0 : 0 < n) (hnu0 : 0 < nu) {κ : Rat}
    (hb : κ * (1 / nu) < 10 ^ 100) :
    ∀ x, x < n → |(fun _ => (0 : Rat)) x|
      + κ * rsum (fun k => max |(fun _ => (0 : Rat)) k| |(fun _ => 1 / (nu * (n : Rat))) k|) n < 10 ^ 100 := by
  intro x _
  have hnq : (0 : Rat) < (n : Rat) := by exact_mod_cast hn0
  have hup : (0 : Rat) < 1 / (nu * (n : Rat)) := div_pos one_pos (mul_pos hnu0 hnq)
  have e2 : rsum (fun k => max |(fun _ => (0 : Rat)) k| |(fun _ => 1 / (nu * (n : Rat))) k|) n = 1 / nu := by
    have : rsum (fun k => max |(fun _ => (0 : Rat)) k| |(fun _ => 1 / (nu * (n : Rat))) k|) n
        = rsum (fun _ => 1 / (nu * (n : Rat))) n := by
      apply rsum_congr
      intro k _
      show max |(0 : Rat)| |1 / (nu * (n : Rat))| = 1 / (nu * (n : Rat))
      rw [abs_zero, abs_of_pos hup, max_eq_right (le_of_lt hup)]
    rw [this, rsum_const]
    have h1 : nu ≠ 0 := ne_of_gt hnu0
    have h2 : (n : Rat) ≠ 0 := ne_of_gt hnq
    field_simp
  show |(0 : Rat)| + _ < _
  rw [e2, abs_zero, zero_add]; exact hb

/-- **end to end on the original data, one-class SVM, FULL strength** (the model of `OneClassSvmTrainer::trainSVM`:
`BoxedSVMProblem` with `alpha = 1/n`, zero linear term, box `[0, 1/(nu·n)]`, LibSVM selection).  If training reports
`AccuracyReached` for a PSD kernel, `0 < nu < 1`, then `a = getUnpermutedAlpha()` lies in `[0, 1/(nu·n)]`, sums to 1
exactly, and the offset `b` the trainer computes satisfies the optimality conditions up to `eps` for the true gradient
`G_x = −Σ_y K(x,y) a_y`.  Beyond PSD-ness only the explicit magnitude bound on the DATA: kernel entries bounded by `κ`
(`hK`) with `κ/nu < 1e100` (`hb`); it keeps every gradient of the run inside the sentinels `±1e100` of the C++
(`passStates_sentinel_of_bounds`), there is no hypothesis about the run.  That a bound is needed:
`oneclass_returned_partial`, `bias_sentinel_witness`, `C08.selectLibSVM_sentinel_witness`. -/
theorem oneclass_returned {κ : Rat} (n : Nat) (K : Nat → Nat → Rat) (nu eps : Rat) (sh : Bool) (fuel : Nat)
    (hsym : ∀ x y, K x y = K y x) (hpsd : KernelPSD K) (hn0 : 0 < n) (hnu0 : 0 < nu) (hnu1 : nu < 1) (heps : 0 < eps)
    (hK : ∀ x y, x < n → y < n → |K x y| ≤ κ) (hb : κ * (1 / nu) < 10 ^ 100) :
    let r := solve 1 eps fuel (oneClassInit n K nu (n : Rat) sh) 0 0
    let a := unpermutedAlpha r.1 0
    let G : Nat → Rat := fun x => - rsum (fun z => K x z * a z) n
    let b := oneClassOffset r.1 (1 / (nu * (n : Rat))) (fun k => (k : Rat))
    r.2.1 = true →
      (∀ x, x < n → 0 ≤ a x ∧ a x ≤ 1 / (nu * (n : Rat))) ∧
      rsum a n = 1 ∧
      (∀ x, x < n → (a x < 1 / (nu * (n : Rat)) → G x - b ≤ eps) ∧ (0 < a x → b - G x ≤ eps)) :=
  oneclass_returned_partial n K nu eps sh fuel hsym hpsd hn0 hnu0 hnu1 heps
    (passStates_sentinel_of_bounds (oneClassInit n K nu (n : Rat) sh)
      (oneClassInit_inv n K nu sh hsym hn0 hnu0 hnu1).1 (tied_oneClassInit n K nu sh) rfl eps heps (κ := κ) hK
      (oneclass_data_bound n nu hn0 hnu0 hb) fuel 0)

example : ∃ (n : Nat) (K : Nat → Nat → Rat) (nu eps κ : Rat),
    (∀ x y, K x y = K y x) ∧ KernelPSD K ∧ 0 < n ∧ 0 < nu ∧ nu < 1 ∧ 0 < eps ∧
    (∀ x y, x < n → y < n → |K x y| ≤ κ) ∧ κ * (1 / nu) < 10 ^ 100 :=
  ⟨2, fun _ _ => 1, 1 / 2, 1 / 1000, 1, fun _ _ => rfl, kernelPSD_one, by decide, by norm_num, by norm_num,
   by norm_num, fun _ _ _ _ => by norm_num, by norm_num⟩

/-! ### the premises are reachable

The two-point problems of `Props/C07.lean` (rank-one PSD kernel `K x y = (x+1)(y+1)`, entries bounded by `κ = 4`): ALL
hypotheses of the full-strength theorems hold -- the data bound is proved, not evaluated -- and the run does end with
`AccuracyReached` (evaluated by the kernel of Lean, exact rational arithmetic), so the theorems are not vacuous. -/

theorem rank1_two_bound : ∀ x y : Nat, x < 2 → y < 2 → |((x : Rat) + 1) * ((y : Rat) + 1)| ≤ 4 := by
  intro x y hx hy
  have hx1 : (x : Rat) ≤ 1 := by exact_mod_cast Nat.le_of_lt_succ hx
  have hy1 : (y : Rat) ≤ 1 := by exact_mod_cast Nat.le_of_lt_succ hy
  have hx0 : (0 : Rat) ≤ (x : Rat) := Nat.cast_nonneg x
  have hy0 : (0 : Rat) ≤ (y : Rat) := Nat.cast_nonneg y
  rw [abs_of_nonneg (mul_nonneg (by linarith) (by linarith))]
  nlinarith

/-- `csvm_bias_returned_optimal`, `csvm_bias_warm_returned_optimal`: hypotheses and premise hold together -/
example : ∃ (n : Nat) (K : Nat → Nat → Rat) (y : Nat → Bool) (Cn Cp eps κ : Rat) (w a1 : Nat → Rat) (sh : Bool)
    (maxIter : Nat),
    (∀ x y, K x y = K y x) ∧ KernelPSD K ∧ 0 ≤ Cn ∧ 0 ≤ Cp ∧ (∀ k, k < n → 0 ≤ w k) ∧ 0 < eps ∧
    (∀ x y, x < n → y < n → |K x y| ≤ κ) ∧
    1 + κ * rsum (fun k => if y k then Cp * w k else Cn * w k) n < 10 ^ 100 ∧
    (train2 n K y Cn Cp w eps true sh maxIter).2.1 = true ∧
    (mustBalance (csvmInit2 n K y Cn Cp w true sh) a1 ∨ rsum a1 n = 0) ∧
    (train2Warm n K y Cn Cp w eps true sh maxIter a1).2.1 = true :=
  ⟨2, fun x y => ((x : Rat) + 1) * ((y : Rat) + 1), fun k => k == 0, 1, 2, 1 / 1000, 4, fun _ => 1, fun _ => 7, true, 10,
   fun _ _ => mul_comm _ _, kernelPSD_rank1 (fun x => (x : Rat) + 1), by norm_num, by norm_num,
   fun _ _ => by norm_num, by norm_num, rank1_two_bound, by
     rw [show (2 : Nat) = 0 + 1 + 1 from rfl, rsum_succ, rsum_succ, rsum_zero]
     norm_num,
   by decide +kernel, Or.inl (Or.inl ⟨0, by decide, by decide +kernel⟩), by decide +kernel⟩

/-- `eps_regression_returned` -/
example : ∃ (n : Nat) (K : Nat → Nat → Rat) (y : Nat → Rat) (C tube eps κ : Rat) (sh : Bool) (fuel : Nat),
    (∀ x y, K x y = K y x) ∧ KernelPSD K ∧ 0 < C ∧ 0 < eps ∧ (∀ x y, x < n → y < n → |K x y| ≤ κ) ∧
    (∀ k, k < n → |y k| + |tube| + κ * (2 * (n : Rat) * C) < 10 ^ 100) ∧
    (solve 1 eps fuel (epsInit n K y C tube sh) 0 0).2.1 = true :=
  ⟨2, fun x y => ((x : Rat) + 1) * ((y : Rat) + 1), fun k => (k : Rat), 1, 1 / 10, 1 / 1000, 4, true, 40,
   fun _ _ => mul_comm _ _, kernelPSD_rank1 (fun x => (x : Rat) + 1), by norm_num, by norm_num, rank1_two_bound,
   fun k hk => by
     have hk1 : (k : Rat) ≤ 1 := by exact_mod_cast Nat.le_of_lt_succ hk
     have hk0 : (0 : Rat) ≤ (k : Rat) := Nat.cast_nonneg k
     show |(k : Rat)| + |(1 / 10 : Rat)| + 4 * (2 * ((2 : Nat) : Rat) * 1) < 10 ^ 100
     rw [abs_of_nonneg hk0, abs_of_pos (by norm_num : (0 : Rat) < 1 / 10)]
     have : (1 : Rat) + 1 / 10 + 4 * (2 * ((2 : Nat) : Rat) * 1) < 10 ^ 100 := by norm_num
     linarith,
   by decide +kernel⟩

/-- `oneclass_returned` -/
example : ∃ (n : Nat) (K : Nat → Nat → Rat) (nu eps κ : Rat) (sh : Bool) (fuel : Nat),
    (∀ x y, K x y = K y x) ∧ KernelPSD K ∧ 0 < n ∧ 0 < nu ∧ nu < 1 ∧ 0 < eps ∧
    (∀ x y, x < n → y < n → |K x y| ≤ κ) ∧ κ * (1 / nu) < 10 ^ 100 ∧
    (solve 1 eps fuel (oneClassInit n K nu (n : Rat) sh) 0 0).2.1 = true :=
  ⟨2, fun x y => ((x : Rat) + 1) * ((y : Rat) + 1), 1 / 2, 1 / 1000, 4, true, 40,
   fun _ _ => mul_comm _ _, kernelPSD_rank1 (fun x => (x : Rat) + 1), by decide, by norm_num, by norm_num,
   by norm_num, rank1_two_bound, by norm_num, by decide +kernel⟩

end Bounded

end SharkVerif.C07
