/-
C05, third part (end to end, ANY base kernel with a tied list-level input derivative) — the list-level theorems of
Props/C05f-g.lean generalised: `ListInputDeriv` bundles what is needed of a base kernel (its weighted sum is differentiable
along curves with the function-level matrix `D1f` — and its transposed call — as gradient; the list-based executable
`weightedInputDerivative` equals `D1f` entry by entry; `D1f` reads only in-range entries).  For every such kernel the vector
`modelKernelParamGrad` computes from lists is at every weight / offset position the derivative of the model kernel's weighted
sum (`listKernel_modelKernel_weight_derivative`, `listKernel_modelKernel_offset_derivative`).  Instances: the Gaussian kernel
(`gaussLID`) and the POLYNOMIAL kernel of every degree ≥ 1 and offset (`polyLID`: `polyInputDeriv` incl. its degree-1 branch
and the `safe_div` branch) - the base kernels of the EXACT `mn pderiv` correspondence.
-/
import SharkVerif.Props.C05g
import SharkVerif.Props.C05d
set_option linter.unusedSectionVars false
set_option linter.unusedVariables false
namespace SharkVerif.C05
open SharkVerif SharkVerif.Models SharkVerif.Kernels Finset

structure ListInputDeriv where
  /-- the kernel on points of dimension `d` -/
  κ : ℕ → (ℕ → ℝ) → (ℕ → ℝ) → ℝ
  /-- the list-based executable `weightedInputDerivative(X1, X2, C)` -/
  kI : Mat ℝ → Mat ℝ → Mat ℝ → Mat ℝ
  /-- its function-level counterpart: dimension, size of the second batch, coefficients, batches -/
  D1f : ℕ → ℕ → (ℕ → ℕ → ℝ) → (ℕ → ℕ → ℝ) → (ℕ → ℕ → ℝ) → ℕ → ℕ → ℝ
  derivs : ∀ (d B1 B2 : ℕ) (C Y1 Y2 : ℕ → ℕ → ℝ), KernelInputDerivs (κ d) d B1 B2 C Y1 Y2 (D1f d B2 C Y1 Y2)
    (D1f d B1 (fun j i => C i j) Y2 Y1)
  entry : ∀ (d : ℕ) (C X1 X2 : Mat ℝ) (i a : ℕ), i < X1.length → a < d → C.length = X1.length →
    (C.getD i []).length = X2.length → (X1.getD i []).length = d → (∀ j, j < X2.length → (X2.getD j []).length = d) →
    lmat (kI C X1 X2) i a = D1f d X2.length (lmat C) (lmat X1) (lmat X2) i a
  congr : ∀ (d B1 B2 : ℕ) (C C' Y1 Y1' Y2 Y2' : ℕ → ℕ → ℝ) (i a : ℕ), i < B1 → a < d →
    (∀ i, i < B1 → ∀ j, j < B2 → C i j = C' i j) → (∀ i, i < B1 → ∀ b, b < d → Y1 i b = Y1' i b) →
    (∀ j, j < B2 → ∀ b, b < d → Y2 j b = Y2' j b) → D1f d B2 C Y1 Y2 i a = D1f d B2 C' Y1' Y2' i a

/-- what both list-level theorems share: the coefficient matrices the executable model hands to the two backward passes agree,
inside the batch × output range, with the function-level matrices of the chain-rule theorem -/
theorem listKernel_coefficients (K : ListInputDeriv) (c : Chain ℝ) (nIn : ℕ) (C X1 X2 : Mat ℝ)
    (hCl : C.length = X1.length) (hCr : ∀ i, i < X1.length → (C.getD i []).length = X2.length) :
    (∀ i, i < X1.length → ∀ a, a < Chain.nOut c nIn →
      matFn (K.kI C (chainEvalM Real.tanh Real.exp c nIn X1) (chainEvalM Real.tanh Real.exp c nIn X2)) i a =
      K.D1f (Chain.nOut c nIn) X2.length (lmat C) (Chain.evalB Real.tanh Real.exp c (matFn X1))
        (Chain.evalB Real.tanh Real.exp c (matFn X2)) i a) ∧
    (∀ j, j < X2.length → ∀ a, a < Chain.nOut c nIn →
      matFn (K.kI (transposeM C X2.length) (chainEvalM Real.tanh Real.exp c nIn X2) (chainEvalM Real.tanh Real.exp c nIn X1)) j a =
      K.D1f (Chain.nOut c nIn) X1.length (fun j i => lmat C i j) (Chain.evalB Real.tanh Real.exp c (matFn X2))
        (Chain.evalB Real.tanh Real.exp c (matFn X1)) j a) := by
  set d := Chain.nOut c nIn with hd
  set Y1 := Chain.evalB Real.tanh Real.exp c (matFn X1) with hY1
  set Y2 := Chain.evalB Real.tanh Real.exp c (matFn X2) with hY2
  have hU1len : (chainEvalM Real.tanh Real.exp c nIn X1).length = X1.length := fnMat_length _ _ _
  have hU2len : (chainEvalM Real.tanh Real.exp c nIn X2).length = X2.length := fnMat_length _ _ _
  have hU1row : ∀ i, i < X1.length → ((chainEvalM Real.tanh Real.exp c nIn X1).getD i []).length = d := by
    intro i hi; unfold chainEvalM; rw [fnMat_row_length _ _ _ i hi, chainOutDim_eq_nOut]
  have hU2row : ∀ j, j < X2.length → ((chainEvalM Real.tanh Real.exp c nIn X2).getD j []).length = d := by
    intro j hj; unfold chainEvalM; rw [fnMat_row_length _ _ _ j hj, chainOutDim_eq_nOut]
  have hU1 : ∀ i, i < X1.length → ∀ b, b < d → lmat (chainEvalM Real.tanh Real.exp c nIn X1) i b = Y1 i b := by
    intro i hi b hb; unfold chainEvalM; rw [lmat_fnMat _ _ _ i b hi (by rw [chainOutDim_eq_nOut]; exact hb)]
  have hU2 : ∀ j, j < X2.length → ∀ b, b < d → lmat (chainEvalM Real.tanh Real.exp c nIn X2) j b = Y2 j b := by
    intro j hj b hb; unfold chainEvalM; rw [lmat_fnMat _ _ _ j b hj (by rw [chainOutDim_eq_nOut]; exact hb)]
  constructor
  · intro i hi a ha
    rw [matFn_eq_lmat,
      K.entry d C _ _ i a (by rw [hU1len]; exact hi) ha (by rw [hU1len]; exact hCl)
        (by rw [hU2len]; exact hCr i hi) (hU1row i hi) (by intro j hj; rw [hU2len] at hj; exact hU2row j hj), hU2len]
    exact K.congr d X1.length X2.length _ _ _ _ _ _ i a hi ha (fun _ _ _ _ => rfl)
      (fun i hi b hb => hU1 i hi b hb) (fun j hj b hb => hU2 j hj b hb)
  · intro j hj a ha
    rw [matFn_eq_lmat,
      K.entry d (transposeM C X2.length) _ _ j a (by rw [hU2len]; exact hj) ha
        (by rw [hU2len, transposeM_length]) (by rw [hU1len, transposeM_row_length _ _ j hj, hCl])
        (hU2row j hj) (by intro i hi; rw [hU1len] at hi; exact hU1row i hi), hU1len]
    exact K.congr d X2.length X1.length _ _ _ _ _ _ j a hj ha
      (fun j hj i hi => lmat_transposeM C X2.length i j hj (by rw [hCl]; exact hi))
      (fun j hj b hb => hU2 j hj b hb) (fun i hi b hb => hU1 i hi b hb)

/-- **end to end, weights, any tied base kernel** -/
theorem listKernel_modelKernel_weight_derivative (K : ListInputDeriv) (pre post : Chain ℝ) (m : Dense ℝ) (nIn : ℕ)
    (C X1 X2 : Mat ℝ) (k0 j0 : ℕ) (hk0 : k0 < m.nOut) (hj0 : j0 < m.nIn)
    (hCl : C.length = X1.length) (hCr : ∀ i, i < X1.length → (C.getD i []).length = X2.length)
    (hwf : Chain.WF (pre ++ (Layer.dense m, true) :: post) nIn)
    (hnk1 : Chain.NoKink X1.length (pre ++ (Layer.dense m, true) :: post) (matFn X1))
    (hnk2 : Chain.NoKink X2.length (pre ++ (Layer.dense m, true) :: post) (matFn X2)) :
    HasDerivAt (fun t => modelKernelSum (K.κ (Chain.nOut (pre ++ (Layer.dense m, true) :: post) nIn))
        (pre ++ (Layer.dense { m with W := fun k j => if k = k0 ∧ j = j0 then t else m.W k j }, true) :: post)
        X1.length X2.length (matFn X1) (matFn X2) (lmat C))
      ((chainGradM Real.tanh Real.exp (pre ++ (Layer.dense m, true) :: post) X1
          (K.kI C
            (chainEvalM Real.tanh Real.exp (pre ++ (Layer.dense m, true) :: post) nIn X1)
            (chainEvalM Real.tanh Real.exp (pre ++ (Layer.dense m, true) :: post) nIn X2))).getD
          ((Chain.params pre).length + (k0 * m.nIn + j0)) 0 +
       (chainGradM Real.tanh Real.exp (pre ++ (Layer.dense m, true) :: post) X2
          (K.kI (transposeM C X2.length)
            (chainEvalM Real.tanh Real.exp (pre ++ (Layer.dense m, true) :: post) nIn X2)
            (chainEvalM Real.tanh Real.exp (pre ++ (Layer.dense m, true) :: post) nIn X1))).getD
          ((Chain.params pre).length + (k0 * m.nIn + j0)) 0) (m.W k0 j0) := by
  obtain ⟨h1, h2⟩ := listKernel_coefficients K (pre ++ (Layer.dense m, true) :: post) nIn C X1 X2 hCl hCr
  have main := modelKernel_weight_derivative_correct (K.κ (Chain.nOut (pre ++ (Layer.dense m, true) :: post) nIn))
    pre post m X1.length X2.length nIn (matFn X1) (matFn X2) (lmat C) _ _ k0 j0 hk0 hj0 hwf hnk1 hnk2
    (K.derivs _ X1.length X2.length (lmat C) _ _)
  refine main.congr_deriv ?_
  rw [chainGradM_eq, chainGradM_eq]
  congr 1
  · exact (backward_weight_entry_congr pre post m X1.length nIn (matFn X1) _ _ k0 j0 hk0 hj0 hwf hnk1 h1).symm
  · exact (backward_weight_entry_congr pre post m X2.length nIn (matFn X2) _ _ k0 j0 hk0 hj0 hwf hnk2 h2).symm

/-- **end to end, offsets, any tied base kernel** -/
theorem listKernel_modelKernel_offset_derivative (K : ListInputDeriv) (pre post : Chain ℝ) (m : Dense ℝ) (nIn : ℕ)
    (C X1 X2 : Mat ℝ) (k0 : ℕ) (hk0 : k0 < m.nOut) (hb : m.hasB = true)
    (hCl : C.length = X1.length) (hCr : ∀ i, i < X1.length → (C.getD i []).length = X2.length)
    (hwf : Chain.WF (pre ++ (Layer.dense m, true) :: post) nIn)
    (hnk1 : Chain.NoKink X1.length (pre ++ (Layer.dense m, true) :: post) (matFn X1))
    (hnk2 : Chain.NoKink X2.length (pre ++ (Layer.dense m, true) :: post) (matFn X2)) :
    HasDerivAt (fun t => modelKernelSum (K.κ (Chain.nOut (pre ++ (Layer.dense m, true) :: post) nIn))
        (pre ++ (Layer.dense { m with b := fun k => if k = k0 then t else m.b k }, true) :: post)
        X1.length X2.length (matFn X1) (matFn X2) (lmat C))
      ((chainGradM Real.tanh Real.exp (pre ++ (Layer.dense m, true) :: post) X1
          (K.kI C
            (chainEvalM Real.tanh Real.exp (pre ++ (Layer.dense m, true) :: post) nIn X1)
            (chainEvalM Real.tanh Real.exp (pre ++ (Layer.dense m, true) :: post) nIn X2))).getD
          ((Chain.params pre).length + (m.nOut * m.nIn + k0)) 0 +
       (chainGradM Real.tanh Real.exp (pre ++ (Layer.dense m, true) :: post) X2
          (K.kI (transposeM C X2.length)
            (chainEvalM Real.tanh Real.exp (pre ++ (Layer.dense m, true) :: post) nIn X2)
            (chainEvalM Real.tanh Real.exp (pre ++ (Layer.dense m, true) :: post) nIn X1))).getD
          ((Chain.params pre).length + (m.nOut * m.nIn + k0)) 0) (m.b k0) := by
  obtain ⟨h1, h2⟩ := listKernel_coefficients K (pre ++ (Layer.dense m, true) :: post) nIn C X1 X2 hCl hCr
  have main := modelKernel_offset_derivative_correct (K.κ (Chain.nOut (pre ++ (Layer.dense m, true) :: post) nIn))
    pre post m X1.length X2.length nIn (matFn X1) (matFn X2) (lmat C) _ _ k0 hk0 hb hwf hnk1 hnk2
    (K.derivs _ X1.length X2.length (lmat C) _ _)
  refine main.congr_deriv ?_
  rw [chainGradM_eq, chainGradM_eq]
  congr 1
  · exact (backward_offset_entry_congr pre post m X1.length nIn (matFn X1) _ _ k0 hk0 hb hwf hnk1 h1).symm
  · exact (backward_offset_entry_congr pre post m X2.length nIn (matFn X2) _ _ k0 hk0 hb hwf hnk2 h2).symm

/-! ### instance: the Gaussian kernel -/

noncomputable def gaussLID (γ : ℝ) : ListInputDeriv where
  κ := fun d => gaussFn γ d
  kI := gaussInputDeriv Real.exp γ
  D1f := fun d B2 C Y1 Y2 => gaussD1 γ d B2 C Y1 Y2
  derivs := by
    intro d B1 B2 C Y1 Y2
    have h := gauss_kernelInputDerivs γ d B1 B2 C Y1 Y2
    have e : gaussD2 γ d B1 C Y1 Y2 = gaussD1 γ d B1 (fun j i => C i j) Y2 Y1 := by
      funext j a; exact gaussD2_eq_gaussD1_transpose γ d B1 C Y1 Y2 j a
    rw [e] at h
    exact h
  entry := fun d C X1 X2 i a hi ha hC hCrow hX1 hX2 => gaussInputDeriv_entry γ d C X1 X2 i a hi ha hC hCrow hX1 hX2
  congr := fun d B1 B2 C C' Y1 Y1' Y2 Y2' i a hi ha hC h1 h2 => gaussD1_congr γ d B1 B2 C C' Y1 Y1' Y2 Y2' i a hi ha hC h1 h2

/-! ### instance: the polynomial kernel (degree ≥ 1, any offset) -/

theorem dot_eq_sum : ∀ (x z : Point ℝ), x.length = z.length →
    dot x z = ∑ a ∈ range x.length, x.getD a 0 * z.getD a 0
  | [], _, _ => by simp [dot]
  | x :: xs, [], h => by simp at h
  | x :: xs, z :: zs, h => by
    have h' : xs.length = zs.length := by simpa using h
    simp only [dot, List.length_cons]
    rw [Finset.sum_range_succ', dot_eq_sum xs zs h']
    simp [add_comm]

theorem polyInputRow_eq_polyD1 (n : ℕ) (hn : 2 ≤ n) (off : ℝ) (d : ℕ) (crow : List ℝ) (x : Point ℝ) (X2 : Mat ℝ) (a : ℕ) (ha : a < d)
    (hx : x.length = d) (hc : crow.length = X2.length) (hX2 : ∀ j, j < X2.length → (X2.getD j []).length = d) :
    (polyInputRow n off crow x X2).getD a 0 =
      ∑ j ∈ range X2.length, crow.getD j 0 *
        ((n : ℝ) * ((∑ b ∈ range d, x.getD b 0 * (X2.getD j []).getD b 0) + off) ^ (n - 1)) * (X2.getD j []).getD a 0 := by
  unfold polyInputRow gemmRow
  have hget : ∀ (g : ℕ → ℝ), (((List.range x.length).map g).map (ofNatS n * ·)).getD a 0 = ofNatS n * g a := by
    intro g
    simp [List.getD_eq_getElem?_getD, hx, ha]
  rw [hget]
  unfold colSum polyWeights
  rw [sumRow_zipWith, sumRow_eq_sum _ _ _ hc, hc, Finset.mul_sum, ofNatS_eq_cast]
  apply Finset.sum_congr rfl
  intro j hj
  have hj' := Finset.mem_range.1 hj
  simp only
  rw [safeDiv_pow _ n hn, dot_eq_sum x (X2.getD j []) (by rw [hx, hX2 j hj']), hx]
  ring

theorem linearInputRow_eq_polyD1 (off : ℝ) (d : ℕ) (crow : List ℝ) (x : Point ℝ) (X2 : Mat ℝ) (a : ℕ) (ha : a < d)
    (hx : x.length = d) (hc : crow.length = X2.length) :
    (gemmRow crow X2 x.length).getD a 0 =
      ∑ j ∈ range X2.length, crow.getD j 0 *
        (((1 : ℕ) : ℝ) * ((∑ b ∈ range d, x.getD b 0 * (X2.getD j []).getD b 0) + off) ^ (1 - 1)) * (X2.getD j []).getD a 0 := by
  rw [getD_gemmRow crow X2 x.length a (by rw [hx]; exact ha)]
  unfold colSum
  rw [sumRow_eq_sum _ _ _ hc, hc]
  apply Finset.sum_congr rfl
  intro j _
  simp

theorem polyInputDeriv_entry (n : ℕ) (hn : 1 ≤ n) (off : ℝ) (d : ℕ) (C X1 X2 : Mat ℝ) (i a : ℕ) (hi : i < X1.length) (ha : a < d)
    (hC : C.length = X1.length) (hCrow : (C.getD i []).length = X2.length)
    (hX1 : (X1.getD i []).length = d) (hX2 : ∀ j, j < X2.length → (X2.getD j []).length = d) :
    lmat (polyInputDeriv n off C X1 X2) i a = polyD1 n off d X2.length (lmat C) (lmat X1) (lmat X2) i a := by
  have hiC : i < C.length := by rw [hC]; exact hi
  unfold lmat polyD1 polyInputDeriv
  by_cases h1 : n = 1
  · subst h1
    simp only [if_true]
    unfold linearInputDeriv
    have hrow : (List.zipWith (fun crow x => gemmRow crow X2 x.length) C X1).getD i [] =
        gemmRow (C.getD i []) X2 (X1.getD i []).length := by
      simp [List.getD_eq_getElem?_getD, List.getElem?_zipWith, List.getElem?_eq_getElem hi, List.getElem?_eq_getElem hiC]
    rw [hrow, linearInputRow_eq_polyD1 off d _ _ X2 a ha hX1 hCrow]
  · simp only [h1, if_false]
    have hrow : (List.zipWith (fun crow x => polyInputRow n off crow x X2) C X1).getD i [] =
        polyInputRow n off (C.getD i []) (X1.getD i []) X2 := by
      simp [List.getD_eq_getElem?_getD, List.getElem?_zipWith, List.getElem?_eq_getElem hi, List.getElem?_eq_getElem hiC]
    rw [hrow, polyInputRow_eq_polyD1 n (by omega) off d _ _ X2 a ha hX1 hCrow hX2]

theorem polyD1_congr (n : ℕ) (off : ℝ) (d B1 B2 : ℕ) (C C' Y1 Y1' Y2 Y2' : ℕ → ℕ → ℝ) (i a : ℕ) (hi : i < B1) (ha : a < d)
    (hC : ∀ i, i < B1 → ∀ j, j < B2 → C i j = C' i j)
    (h1 : ∀ i, i < B1 → ∀ b, b < d → Y1 i b = Y1' i b) (h2 : ∀ j, j < B2 → ∀ b, b < d → Y2 j b = Y2' j b) :
    polyD1 n off d B2 C Y1 Y2 i a = polyD1 n off d B2 C' Y1' Y2' i a := by
  unfold polyD1
  apply Finset.sum_congr rfl
  intro j hj
  have hj' := Finset.mem_range.1 hj
  have e : (∑ b ∈ range d, Y1 i b * Y2 j b) = ∑ b ∈ range d, Y1' i b * Y2' j b := by
    apply Finset.sum_congr rfl
    intro b hb
    rw [h1 i hi b (Finset.mem_range.1 hb), h2 j hj' b (Finset.mem_range.1 hb)]
  rw [hC i hi j hj', e, h2 j hj' a ha]

theorem polyD2_eq_polyD1_transpose (n : ℕ) (off : ℝ) (d B1 : ℕ) (C Y1 Y2 : ℕ → ℕ → ℝ) :
    polyD2 n off d B1 C Y1 Y2 = polyD1 n off d B1 (fun j i => C i j) Y2 Y1 := by
  funext j a
  unfold polyD2 polyD1
  apply Finset.sum_congr rfl
  intro i _
  have e : (∑ b ∈ range d, Y1 i b * Y2 j b) = ∑ b ∈ range d, Y2 j b * Y1 i b := by
    apply Finset.sum_congr rfl; intro b _; ring
  rw [e]

noncomputable def polyLID (n : ℕ) (hn : 1 ≤ n) (off : ℝ) : ListInputDeriv where
  κ := fun d => polyFn n off d
  kI := polyInputDeriv n off
  D1f := fun d B2 C Y1 Y2 => polyD1 n off d B2 C Y1 Y2
  derivs := by
    intro d B1 B2 C Y1 Y2
    have h := poly_kernelInputDerivs n off d B1 B2 C Y1 Y2
    rw [polyD2_eq_polyD1_transpose] at h
    exact h
  entry := fun d C X1 X2 i a hi ha hC hCrow hX1 hX2 => polyInputDeriv_entry n hn off d C X1 X2 i a hi ha hC hCrow hX1 hX2
  congr := fun d B1 B2 C C' Y1 Y1' Y2 Y2' i a hi ha hC h1 h2 => polyD1_congr n off d B1 B2 C C' Y1 Y1' Y2 Y2' i a hi ha hC h1 h2

/-- the polynomial corollary spelled out: ModelKernel over a chain with a polynomial base kernel — the configuration of
the EXACT (Rat) `mn pderiv` correspondence -/
theorem poly_modelKernel_weight_derivative_lists (n : ℕ) (hn : 1 ≤ n) (off : ℝ) (pre post : Chain ℝ) (m : Dense ℝ) (nIn : ℕ)
    (C X1 X2 : Mat ℝ) (k0 j0 : ℕ) (hk0 : k0 < m.nOut) (hj0 : j0 < m.nIn)
    (hCl : C.length = X1.length) (hCr : ∀ i, i < X1.length → (C.getD i []).length = X2.length)
    (hwf : Chain.WF (pre ++ (Layer.dense m, true) :: post) nIn)
    (hnk1 : Chain.NoKink X1.length (pre ++ (Layer.dense m, true) :: post) (matFn X1))
    (hnk2 : Chain.NoKink X2.length (pre ++ (Layer.dense m, true) :: post) (matFn X2)) :
    HasDerivAt (fun t => modelKernelSum (polyFn n off (Chain.nOut (pre ++ (Layer.dense m, true) :: post) nIn))
        (pre ++ (Layer.dense { m with W := fun k j => if k = k0 ∧ j = j0 then t else m.W k j }, true) :: post)
        X1.length X2.length (matFn X1) (matFn X2) (lmat C))
      ((chainGradM Real.tanh Real.exp (pre ++ (Layer.dense m, true) :: post) X1
          (polyInputDeriv n off C
            (chainEvalM Real.tanh Real.exp (pre ++ (Layer.dense m, true) :: post) nIn X1)
            (chainEvalM Real.tanh Real.exp (pre ++ (Layer.dense m, true) :: post) nIn X2))).getD
          ((Chain.params pre).length + (k0 * m.nIn + j0)) 0 +
       (chainGradM Real.tanh Real.exp (pre ++ (Layer.dense m, true) :: post) X2
          (polyInputDeriv n off (transposeM C X2.length)
            (chainEvalM Real.tanh Real.exp (pre ++ (Layer.dense m, true) :: post) nIn X2)
            (chainEvalM Real.tanh Real.exp (pre ++ (Layer.dense m, true) :: post) nIn X1))).getD
          ((Chain.params pre).length + (k0 * m.nIn + j0)) 0) (m.W k0 j0) :=
  listKernel_modelKernel_weight_derivative (polyLID n hn off) pre post m nIn C X1 X2 k0 j0 hk0 hj0 hCl hCr hwf hnk1 hnk2

end SharkVerif.C05
