/-
C04 — Models: batch equals single evaluation; derivatives are the true derivatives.

Models: `Model/Models.lean` (dense layers with element-wise activations,
normalizer/softmax rows, two-layer concatenation), tied to `LinearModel`,
`NeuronLayer` and `ConcatenatedModel` by `checks/c04.py`.
-/
import SharkVerif.Lemmas.Models
import SharkVerif.Lemmas.ModelsDeriv
namespace SharkVerif.C04
open SharkVerif.Models Scalar

/-! ## 1. batch evaluation = row-wise single evaluation (exact arithmetic) -/

/-- `inputs % trans(W)` row `i` equals `W % input_i`, for every batch, every shape, with or
without offset; hence a row's output does not depend on the other rows of the batch -/
theorem dense_batch_eq_single (tanh : Rat → Rat) (m : Dense Rat) (X : Nat → Nat → Rat) (i k : Nat) :
    m.evalB tanh X i k = m.eval tanh (X i) k := by
  unfold Dense.evalB Dense.eval Dense.preB Dense.pre
  have : (sumR m.nIn fun j => X i j * m.W k j) = sumR m.nIn fun j => m.W k j * X i j :=
    sumR_congr _ _ _ (fun j _ => mul_comm _ _)
  simp only [this]

/-- the same for a two-layer concatenation: each output row is a function of its own input row -/
theorem concat_batch_eq_single (tanh : Rat → Rat) (c : Concat2 Rat) (X : Nat → Nat → Rat) (i k : Nat) :
    c.evalB tanh X i k = c.g.eval tanh (fun h => c.f.eval tanh (X i) h) k := by
  unfold Concat2.evalB
  rw [dense_batch_eq_single]
  have : (Dense.evalB tanh c.f X i) = fun h => c.f.eval tanh (X i) h := by
    funext h; exact dense_batch_eq_single tanh c.f X i h
  rw [this]

/-- rows of a batch are independent: changing the other rows does not change row `i` -/
theorem dense_row_independent (tanh : Rat → Rat) (m : Dense Rat) (X Y : Nat → Nat → Rat) (i k : Nat)
    (h : ∀ j, X i j = Y i j) : m.evalB tanh X i k = m.evalB tanh Y i k := by
  rw [dense_batch_eq_single, dense_batch_eq_single]
  have : X i = Y i := funext h
  rw [this]

/-! ## 2. parameter vector round trip -/

theorem params_length (m : Dense Rat) : m.params.length = m.numberOfParameters := by
  unfold Dense.params Dense.numberOfParameters
  rw [List.length_append, flatRows_length]
  split <;> simp

/-- reading the parameters and setting them back leaves the weights … -/
theorem setParams_params_W (m : Dense Rat) (k j : Nat) (hk : k < m.nOut) (hj : j < m.nIn) :
    (m.setParams m.params).W k j = m.W k j := by
  unfold Dense.setParams Dense.params
  simp only
  have hlt : k * m.nIn + j < m.nOut * m.nIn := by
    calc k * m.nIn + j < k * m.nIn + m.nIn := by omega
      _ = (k + 1) * m.nIn := by rw [Nat.succ_mul]
      _ ≤ m.nOut * m.nIn := Nat.mul_le_mul_right _ hk
  rw [List.getD_eq_getElem?_getD, List.getElem?_append_left (by rw [flatRows_length]; exact hlt),
    ← List.getD_eq_getElem?_getD]
  exact flatRows_getD m.nOut m.nIn m.W 0 k j hk hj

/-- … and the offset unchanged -/
theorem setParams_params_b (m : Dense Rat) (k : Nat) (hk : k < m.nOut) (hb : m.hasB = true) :
    (m.setParams m.params).b k = m.b k := by
  unfold Dense.setParams Dense.params
  simp only [hb, ↓reduceIte]
  rw [List.getD_eq_getElem?_getD, List.getElem?_append_right (by rw [flatRows_length]; omega), flatRows_length]
  simp [hk]

/-- conversely: setting a vector of the reported length and reading it back is the identity -/
theorem params_setParams (m : Dense Rat) (p : List Rat) (hp : p.length = m.numberOfParameters) :
    (m.setParams p).params = p := by
  apply List.ext_getElem?
  intro n
  have hlen : (m.setParams p).params.length = p.length := by
    rw [params_length]; unfold Dense.numberOfParameters Dense.setParams; simp only; exact hp.symm
  by_cases hn : n < p.length
  · rw [List.getElem?_eq_getElem hn]
    unfold Dense.params Dense.setParams
    simp only
    unfold Dense.numberOfParameters at hp
    by_cases hw : n < m.nOut * m.nIn
    · rw [List.getElem?_append_left (by rw [flatRows_length]; exact hw)]
      have hin : 0 < m.nIn := by
        rcases Nat.eq_zero_or_pos m.nIn with h | h
        · rw [h] at hw; simp at hw
        · exact h
      have hk : n / m.nIn < m.nOut := by
        rw [Nat.div_lt_iff_lt_mul hin]; exact hw
      have hj : n % m.nIn < m.nIn := Nat.mod_lt _ hin
      have hn' : n = (n / m.nIn) * m.nIn + n % m.nIn := by
        rw [Nat.mul_comm]; exact (Nat.div_add_mod n m.nIn).symm
      have := flatRows_getD m.nOut m.nIn (fun k j => p.getD (k * m.nIn + j) 0) 0 (n / m.nIn) (n % m.nIn) hk hj
      rw [← hn', List.getD_eq_getElem?_getD] at this
      have hlt : n < ((List.range m.nOut).flatMap fun k => (List.range m.nIn).map fun j => p.getD (k * m.nIn + j) 0).length := by
        rw [flatRows_length]; exact hw
      rw [List.getElem?_eq_getElem hlt] at this ⊢
      simp only [Option.getD_some] at this
      rw [this, List.getD_eq_getElem?_getD, List.getElem?_eq_getElem hn]; rfl
    · rw [List.getElem?_append_right (by rw [flatRows_length]; omega), flatRows_length]
      by_cases hb : m.hasB = true
      · simp only [hb, ↓reduceIte] at hp ⊢
        have hk : n - m.nOut * m.nIn < m.nOut := by omega
        rw [List.getElem?_map, List.getElem?_range hk]
        simp only [Option.map_some]
        rw [List.getD_eq_getElem?_getD, show m.nOut * m.nIn + (n - m.nOut * m.nIn) = n by omega,
          List.getElem?_eq_getElem hn]; rfl
      · simp only [hb] at hp
        simp at hp
        omega
  · have hn' : p.length ≤ n := by omega
    rw [List.getElem?_eq_none hn', List.getElem?_eq_none (by rw [hlen]; exact hn')]

/-! ## 3. derivatives (over ℝ) -/
section Derivatives
open Finset

/-- replace one weight -/
def setW (m : Dense ℝ) (k0 j0 : ℕ) (t : ℝ) : Dense ℝ :=
  { m with W := fun k j => if k = k0 ∧ j = j0 then t else m.W k j }
/-- replace one offset entry -/
def setB (m : Dense ℝ) (k0 : ℕ) (t : ℝ) : Dense ℝ :=
  { m with b := fun k => if k = k0 then t else m.b k }

/-- the coefficient-weighted sum of the outputs of a batch -/
noncomputable def objective (m : Dense ℝ) (B : ℕ) (X C : ℕ → ℕ → ℝ) : ℝ :=
  ∑ i ∈ range B, ∑ k ∈ range m.nOut, C i k * m.evalB Real.tanh X i k

/-- no pre-activation of output `k0` sits on a kink of the activation -/
def NoKink (m : Dense ℝ) (B : ℕ) (X : ℕ → ℕ → ℝ) (k0 : ℕ) : Prop :=
  ∀ i, i < B → (m.act = .rectifier ∨ m.act = .fastSigmoid) → m.preB X i k0 ≠ 0

theorem preB_eq (m : Dense ℝ) (X : ℕ → ℕ → ℝ) (i k : ℕ) :
    m.preB X i k = (∑ j ∈ range m.nIn, X i j * m.W k j) + (if m.hasB then m.b k else 0) := by
  unfold Dense.preB
  simp only [sumR_eq_finset]
  split <;> simp

/-- **weighted parameter derivative, weight part**: `trans(delta) % patterns` at `(k0,j0)` is the
partial derivative of the weighted output sum w.r.t. `W[k0][j0]` -/
theorem weight_derivative_correct (m : Dense ℝ) (B : ℕ) (X C : ℕ → ℕ → ℝ) (k0 j0 : ℕ)
    (hk0 : k0 < m.nOut) (hj0 : j0 < m.nIn) (hnk : NoKink m B X k0) :
    HasDerivAt (fun t => objective (setW m k0 j0 t) B X C)
      (m.gradW B X (m.evalB Real.tanh X) C k0 j0) (m.W k0 j0) := by
  -- derivative of one pre-activation
  have hpre : ∀ i k, HasDerivAt (fun t => (setW m k0 j0 t).preB X i k)
      (if k = k0 then X i j0 else 0) (m.W k0 j0) := by
    intro i k
    have hfun : (fun t => (setW m k0 j0 t).preB X i k) = fun t =>
        (∑ j ∈ range m.nIn, X i j * (if k = k0 ∧ j = j0 then t else m.W k j)) + (if m.hasB then m.b k else 0) := by
      funext t; rw [preB_eq]; rfl
    rw [hfun]
    have hsum : HasDerivAt (fun t => ∑ j ∈ range m.nIn, X i j * (if k = k0 ∧ j = j0 then t else m.W k j))
        (∑ j ∈ range m.nIn, if k = k0 ∧ j = j0 then X i j else 0) (m.W k0 j0) := by
      apply HasDerivAt.fun_sum
      intro j _
      by_cases h : k = k0 ∧ j = j0
      · simp only [h, and_self, ↓reduceIte]
        simpa using (hasDerivAt_id' (m.W k0 j0)).const_mul (X i j0)
      · simp only [h, ↓reduceIte]
        exact hasDerivAt_const _ _
    have hval : (∑ j ∈ range m.nIn, if k = k0 ∧ j = j0 then X i j else 0) = if k = k0 then X i j0 else 0 := by
      by_cases hk : k = k0
      · simp only [hk, true_and, ↓reduceIte]
        rw [Finset.sum_ite_eq' (range m.nIn) j0 (fun j => X i j)]
        simp [hj0]
      · simp [hk]
    rw [hval] at hsum
    exact hsum.add_const _
  -- value of the pre-activation at the current weight
  have hat : ∀ i k, (setW m k0 j0 (m.W k0 j0)).preB X i k = m.preB X i k := by
    intro i k
    rw [preB_eq, preB_eq]
    congr 1
    apply Finset.sum_congr rfl
    intro j _
    show X i j * (if k = k0 ∧ j = j0 then m.W k0 j0 else m.W k j) = _
    split
    · rename_i h; rw [h.1, h.2]
    · rfl
  unfold objective
  have hterm : ∀ i ∈ range B, HasDerivAt
      (fun t => ∑ k ∈ range m.nOut, C i k * (setW m k0 j0 t).evalB Real.tanh X i k)
      (m.delta (m.evalB Real.tanh X) C i k0 * X i j0) (m.W k0 j0) := by
    intro i hi
    have hk : ∀ k ∈ range m.nOut, HasDerivAt (fun t => C i k * (setW m k0 j0 t).evalB Real.tanh X i k)
        (if k = k0 then m.delta (m.evalB Real.tanh X) C i k0 * X i j0 else 0) (m.W k0 j0) := by
      intro k _
      by_cases h : k = k0
      · subst h
        simp only [↓reduceIte]
        have hact := act_hasDerivAt m.act (m.preB X i k) (hnk i (List.mem_range.1 (by simpa using hi)))
        rw [← hat i k] at hact
        have hcomp : HasDerivAt (fun t => m.act.eval Real.tanh ((setW m k j0 t).preB X i k))
            (m.act.dfac (m.act.eval Real.tanh ((setW m k j0 (m.W k j0)).preB X i k)) * X i j0) (m.W k j0) := by
          have := hpre i k
          simp only [↓reduceIte] at this
          exact HasDerivAt.comp (h₂ := m.act.eval Real.tanh) (m.W k j0) hact this
        have := hcomp.const_mul (C i k)
        rw [hat i k] at this
        unfold Dense.delta Dense.evalB
        have e : C i k * m.act.dfac (m.act.eval Real.tanh (m.preB X i k)) * X i j0
            = C i k * (m.act.dfac (m.act.eval Real.tanh (m.preB X i k)) * X i j0) := by ring
        rw [e]; exact this
      · simp only [h, ↓reduceIte]
        have hconst : (fun t => C i k * (setW m k0 j0 t).evalB Real.tanh X i k)
            = fun _ => C i k * m.evalB Real.tanh X i k := by
          funext t
          unfold Dense.evalB
          congr 2
          rw [preB_eq, preB_eq]
          congr 1
          apply Finset.sum_congr rfl
          intro j _
          show X i j * (if k = k0 ∧ j = j0 then t else m.W k j) = _
          simp [h]
        rw [hconst]; exact hasDerivAt_const _ _
    have := HasDerivAt.fun_sum hk
    rw [Finset.sum_ite_eq' (range m.nOut) k0] at this
    simpa [hk0] using this
  have htot := HasDerivAt.fun_sum hterm
  unfold Dense.gradW
  rw [sumR_eq_finset]
  exact htot

/-- general form: the weighted output sum as a function of one scalar `t` through the
pre-activations.  Each pre-activation (of the batch rows and outputs that occur) is either
constant in `t` or differentiable at `t0` away from a kink of the activation. -/
theorem objective_hasDerivAt (a : Act) (B nOut : ℕ) (C : ℕ → ℕ → ℝ) (pre : ℝ → ℕ → ℕ → ℝ)
    (pre' : ℕ → ℕ → ℝ) (t0 : ℝ)
    (hcase : ∀ i, i < B → ∀ k, k < nOut → ((∀ t, pre t i k = pre t0 i k) ∧ pre' i k = 0) ∨
      (HasDerivAt (fun t => pre t i k) (pre' i k) t0 ∧
        ((a = .rectifier ∨ a = .fastSigmoid) → pre t0 i k ≠ 0))) :
    HasDerivAt (fun t => ∑ i ∈ range B, ∑ k ∈ range nOut, C i k * a.eval Real.tanh (pre t i k))
      (∑ i ∈ range B, ∑ k ∈ range nOut, C i k * a.dfac (a.eval Real.tanh (pre t0 i k)) * pre' i k) t0 := by
  apply HasDerivAt.fun_sum
  intro i hi
  apply HasDerivAt.fun_sum
  intro k hk
  rcases hcase i (Finset.mem_range.1 hi) k (Finset.mem_range.1 hk) with ⟨hconst, hz⟩ | ⟨hd, hnk⟩
  · have : (fun t => C i k * a.eval Real.tanh (pre t i k)) = fun _ => C i k * a.eval Real.tanh (pre t0 i k) := by
      funext t; rw [hconst t]
    rw [this, hz, mul_zero]
    exact hasDerivAt_const _ _
  · have hact := act_hasDerivAt a (pre t0 i k) hnk
    have hcomp : HasDerivAt (fun t => a.eval Real.tanh (pre t i k))
        (a.dfac (a.eval Real.tanh (pre t0 i k)) * pre' i k) t0 :=
      HasDerivAt.comp (h₂ := a.eval Real.tanh) t0 hact hd
    have := hcomp.const_mul (C i k)
    have e : C i k * a.dfac (a.eval Real.tanh (pre t0 i k)) * pre' i k
        = C i k * (a.dfac (a.eval Real.tanh (pre t0 i k)) * pre' i k) := by ring
    rw [e]; exact this

/-- **weighted parameter derivative, offset part**: `sum(as_columns(delta))` at `k0` is the partial
derivative of the weighted output sum w.r.t. the offset entry `b[k0]` -/
theorem offset_derivative_correct (m : Dense ℝ) (B : ℕ) (X C : ℕ → ℕ → ℝ) (k0 : ℕ)
    (hk0 : k0 < m.nOut) (hb : m.hasB = true) (hnk : NoKink m B X k0) :
    HasDerivAt (fun t => objective (setB m k0 t) B X C)
      (m.gradB B (m.evalB Real.tanh X) C k0) (m.b k0) := by
  have hpreT : ∀ t i k, (setB m k0 t).preB X i k =
      (∑ j ∈ range m.nIn, X i j * m.W k j) + (if k = k0 then t else m.b k) := by
    intro t i k; rw [preB_eq]; simp only [setB, hb, ↓reduceIte]
  have hat : ∀ i k, (setB m k0 (m.b k0)).preB X i k = m.preB X i k := by
    intro i k; rw [hpreT, preB_eq]; simp only [hb, ↓reduceIte]
    split
    · rename_i h; rw [h]
    · rfl
  have hcase : ∀ i, i < B → ∀ k, k < m.nOut →
      ((∀ t, (setB m k0 t).preB X i k = (setB m k0 (m.b k0)).preB X i k) ∧ (if k = k0 then (1:ℝ) else 0) = 0) ∨
      (HasDerivAt (fun t => (setB m k0 t).preB X i k) (if k = k0 then (1:ℝ) else 0) (m.b k0) ∧
        ((m.act = .rectifier ∨ m.act = .fastSigmoid) → (setB m k0 (m.b k0)).preB X i k ≠ 0)) := by
    intro i hi k _
    by_cases hk : k = k0
    · right
      subst hk
      refine ⟨?_, ?_⟩
      · simp only [↓reduceIte]
        have : (fun t => (setB m k t).preB X i k) = fun t => (∑ j ∈ range m.nIn, X i j * m.W k j) + t := by
          funext t; rw [hpreT]; simp
        rw [this]; exact (hasDerivAt_id' (m.b k)).const_add _
      · intro ha; rw [hat]; exact hnk i hi ha
    · left
      refine ⟨?_, by simp [hk]⟩
      intro t; rw [hpreT, hpreT]; simp [hk]
  have h := objective_hasDerivAt m.act B m.nOut C (fun t i k => (setB m k0 t).preB X i k)
    (fun _ k => if k = k0 then 1 else 0) (m.b k0) hcase
  have hval : (∑ i ∈ range B, ∑ k ∈ range m.nOut,
      C i k * m.act.dfac (m.act.eval Real.tanh ((setB m k0 (m.b k0)).preB X i k)) * (if k = k0 then (1:ℝ) else 0))
      = m.gradB B (m.evalB Real.tanh X) C k0 := by
    unfold Dense.gradB Dense.delta Dense.evalB
    rw [sumR_eq_finset]
    apply Finset.sum_congr rfl
    intro i _
    simp only [mul_ite, mul_one, mul_zero]
    rw [Finset.sum_ite_eq' (range m.nOut) k0]
    simp [hk0, hat]
  rw [← hval]
  exact h

/-- replace one input entry of the batch -/
def setX (X : ℕ → ℕ → ℝ) (i0 j0 : ℕ) (t : ℝ) : ℕ → ℕ → ℝ := fun i j => if i = i0 ∧ j = j0 then t else X i j

/-- **weighted input derivative**: `delta % m_matrix` at `(i0,j0)` is the partial derivative of the
weighted output sum w.r.t. the input entry `X[i0][j0]` -/
theorem input_derivative_correct (m : Dense ℝ) (B : ℕ) (X C : ℕ → ℕ → ℝ) (i0 j0 : ℕ)
    (hi0 : i0 < B) (hj0 : j0 < m.nIn) (hnk : ∀ k, k < m.nOut → NoKink m B X k) :
    HasDerivAt (fun t => objective m B (setX X i0 j0 t) C)
      (m.gradX (m.evalB Real.tanh X) C i0 j0) (X i0 j0) := by
  have hat : ∀ i k, m.preB (setX X i0 j0 (X i0 j0)) i k = m.preB X i k := by
    intro i k; rw [preB_eq, preB_eq]; congr 1
    apply Finset.sum_congr rfl
    intro j _
    simp only [setX]
    split
    · rename_i h; rw [h.1, h.2]
    · rfl
  have hcase : ∀ i, i < B → ∀ k, k < m.nOut →
      ((∀ t, m.preB (setX X i0 j0 t) i k = m.preB (setX X i0 j0 (X i0 j0)) i k) ∧ (if i = i0 then m.W k j0 else 0) = 0) ∨
      (HasDerivAt (fun t => m.preB (setX X i0 j0 t) i k) (if i = i0 then m.W k j0 else 0) (X i0 j0) ∧
        ((m.act = .rectifier ∨ m.act = .fastSigmoid) → m.preB (setX X i0 j0 (X i0 j0)) i k ≠ 0)) := by
    intro i hi k hk
    by_cases hii : i = i0
    · right
      subst hii
      refine ⟨?_, ?_⟩
      · simp only [↓reduceIte]
        have hfun : (fun t => m.preB (setX X i j0 t) i k) = fun t =>
            (∑ j ∈ range m.nIn, (if j = j0 then t else X i j) * m.W k j) + (if m.hasB then m.b k else 0) := by
          funext t; rw [preB_eq]; congr 1
          apply Finset.sum_congr rfl
          intro j _; simp [setX]
        rw [hfun]
        have hsum : HasDerivAt (fun t => ∑ j ∈ range m.nIn, (if j = j0 then t else X i j) * m.W k j)
            (∑ j ∈ range m.nIn, if j = j0 then m.W k j else 0) (X i j0) := by
          apply HasDerivAt.fun_sum
          intro j _
          by_cases h : j = j0
          · simp only [h, ↓reduceIte]
            simpa using (hasDerivAt_id' (X i j0)).mul_const (m.W k j0)
          · simp only [h, ↓reduceIte]
            exact hasDerivAt_const _ _
        rw [Finset.sum_ite_eq' (range m.nIn) j0 (fun j => m.W k j)] at hsum
        simp only [Finset.mem_range, hj0, ↓reduceIte] at hsum
        exact hsum.add_const _
      · intro ha; rw [hat]; exact hnk k hk i hi ha
    · left
      refine ⟨?_, by simp [hii]⟩
      intro t
      rw [preB_eq, preB_eq]; congr 1
      apply Finset.sum_congr rfl
      intro j _; simp [setX, hii]
  have h := objective_hasDerivAt m.act B m.nOut C (fun t i k => m.preB (setX X i0 j0 t) i k)
    (fun i k => if i = i0 then m.W k j0 else 0) (X i0 j0) hcase
  have hval : (∑ i ∈ range B, ∑ k ∈ range m.nOut,
      C i k * m.act.dfac (m.act.eval Real.tanh (m.preB (setX X i0 j0 (X i0 j0)) i k)) * (if i = i0 then m.W k j0 else 0))
      = m.gradX (m.evalB Real.tanh X) C i0 j0 := by
    unfold Dense.gradX Dense.delta Dense.evalB
    rw [sumR_eq_finset]
    have : ∀ i ∈ range B, (∑ k ∈ range m.nOut,
        C i k * m.act.dfac (m.act.eval Real.tanh (m.preB (setX X i0 j0 (X i0 j0)) i k)) * (if i = i0 then m.W k j0 else 0))
        = if i = i0 then ∑ k ∈ range m.nOut, C i0 k * m.act.dfac (m.act.eval Real.tanh (m.preB X i0 k)) * m.W k j0 else 0 := by
      intro i _
      by_cases hii : i = i0
      · subst hii; simp [hat]
      · simp [hii]
    rw [Finset.sum_congr rfl this, Finset.sum_ite_eq' (range B) i0]
    simp [hi0]
  rw [← hval]
  exact h

/-- replace one coordinate of a vector -/
def setZ (z : ℕ → ℝ) (j0 : ℕ) (t : ℝ) : ℕ → ℝ := fun k => if k = j0 then t else z k

theorem hasDerivAt_sum_setZ (n : ℕ) (w : ℕ → ℝ) (g : ℝ → ℝ) (g' : ℝ) (z : ℕ → ℝ) (j0 : ℕ) (hj : j0 < n)
    (hg : HasDerivAt g g' (z j0)) :
    HasDerivAt (fun t => ∑ k ∈ range n, w k * g (setZ z j0 t k)) (w j0 * g') (z j0) := by
  have h : ∀ k ∈ range n, HasDerivAt (fun t => w k * g (setZ z j0 t k)) (if k = j0 then w j0 * g' else 0) (z j0) := by
    intro k _
    by_cases hk : k = j0
    · subst hk
      simp only [setZ, ↓reduceIte]
      exact hg.const_mul _
    · simp only [setZ, hk, ↓reduceIte]
      exact hasDerivAt_const _ _
  have := HasDerivAt.fun_sum h
  rw [Finset.sum_ite_eq' (range n) j0] at this
  simpa [hj] using this

/-- **SoftmaxNeuron**: `multiplyDerivative` computes the Jacobian-transpose product: the `j0`-th
entry `(c_j0 − Σ c·out)·out_j0` is the partial derivative of `Σ_k c_k·softmax(z)_k` w.r.t. `z_j0` -/
theorem softmax_derivative_correct (n : ℕ) (z c : ℕ → ℝ) (j0 : ℕ) (hj : j0 < n) :
    HasDerivAt (fun t => ∑ k ∈ range n, c k * softmaxRow Real.exp n (setZ z j0 t) k)
      (softmaxDeriv n (softmaxRow Real.exp n z) c j0) (z j0) := by
  have hS : ∀ y : ℕ → ℝ, 0 < ∑ o ∈ range n, Real.exp (y o) := by
    intro y
    apply Finset.sum_pos
    · intro o _; exact Real.exp_pos _
    · exact ⟨j0, Finset.mem_range.2 hj⟩
  have hnum := hasDerivAt_sum_setZ n c Real.exp (Real.exp (z j0)) z j0 hj (Real.hasDerivAt_exp _)
  have hden := hasDerivAt_sum_setZ n (fun _ => 1) Real.exp (Real.exp (z j0)) z j0 hj (Real.hasDerivAt_exp _)
  simp only [one_mul] at hden
  have hz : setZ z j0 (z j0) = z := by funext k; simp only [setZ]; split <;> simp_all
  have hdiv := hnum.div hden (by rw [hz]; exact ne_of_gt (hS z))
  have hfun : (fun t => ∑ k ∈ range n, c k * softmaxRow Real.exp n (setZ z j0 t) k)
      = fun t => (∑ k ∈ range n, c k * Real.exp (setZ z j0 t k)) / ∑ k ∈ range n, Real.exp (setZ z j0 t k) := by
    funext t
    unfold softmaxRow
    rw [sumR_eq_finset, Finset.sum_div]
    apply Finset.sum_congr rfl
    intro k _; ring
  rw [hfun]
  rw [hz] at hdiv
  have hval : softmaxDeriv n (softmaxRow Real.exp n z) c j0 =
      (c j0 * Real.exp (z j0) * (∑ k ∈ range n, Real.exp (z k)) -
        (∑ k ∈ range n, c k * Real.exp (z k)) * Real.exp (z j0)) / (∑ k ∈ range n, Real.exp (z k)) ^ 2 := by
    unfold softmaxDeriv softmaxRow
    simp only [sumR_eq_finset]
    have hne := ne_of_gt (hS z)
    have : (∑ o ∈ range n, c o * (Real.exp (z o) / ∑ o ∈ range n, Real.exp (z o)))
        = (∑ o ∈ range n, c o * Real.exp (z o)) / ∑ o ∈ range n, Real.exp (z o) := by
      rw [Finset.sum_div]; apply Finset.sum_congr rfl; intro k _; ring
    rw [this]
    field_simp
  rw [hval]
  exact hdiv

/-- **NormalizerNeuron**: `multiplyDerivative` computes `(c_j0 − Σ c·out)/norm`, the partial
derivative of `Σ_k c_k·z_k/Σz` w.r.t. `z_j0` (for a non-zero norm) -/
theorem normalizer_derivative_correct (n : ℕ) (z c : ℕ → ℝ) (j0 : ℕ) (hj : j0 < n)
    (hN : (∑ o ∈ range n, z o) ≠ 0) :
    HasDerivAt (fun t => ∑ k ∈ range n, c k * normalizeRow n (setZ z j0 t) k)
      (normalizeDeriv n (normalizeRow n z) c (sumR n z) j0) (z j0) := by
  have hnum := hasDerivAt_sum_setZ n c id 1 z j0 hj (hasDerivAt_id _)
  have hden := hasDerivAt_sum_setZ n (fun _ => 1) id 1 z j0 hj (hasDerivAt_id _)
  simp only [one_mul, id, mul_one] at hnum hden
  have hz : setZ z j0 (z j0) = z := by funext k; simp only [setZ]; split <;> simp_all
  have hdiv := hnum.div hden (by rw [hz]; exact hN)
  have hfun : (fun t => ∑ k ∈ range n, c k * normalizeRow n (setZ z j0 t) k)
      = fun t => (∑ k ∈ range n, c k * setZ z j0 t k) / ∑ k ∈ range n, setZ z j0 t k := by
    funext t
    unfold normalizeRow
    rw [sumR_eq_finset, Finset.sum_div]
    apply Finset.sum_congr rfl
    intro k _; ring
  rw [hfun]
  rw [hz] at hdiv
  have hval : normalizeDeriv n (normalizeRow n z) c (sumR n z) j0 =
      (c j0 * (∑ k ∈ range n, z k) - (∑ k ∈ range n, c k * z k) * 1) / (∑ k ∈ range n, z k) ^ 2 := by
    unfold normalizeDeriv normalizeRow
    simp only [sumR_eq_finset]
    have : (∑ o ∈ range n, c o * (z o / ∑ o ∈ range n, z o))
        = (∑ o ∈ range n, c o * z o) / ∑ o ∈ range n, z o := by
      rw [Finset.sum_div]; apply Finset.sum_congr rfl; intro k _; ring
    rw [this]
    field_simp
  rw [hval]
  exact hdiv

/-- **generic chain rule** (what `ConcatenatedModel` relies on): if `f` and `g` are differentiable
with derivatives `f'`, `g'`, then the composition is, and its coefficient-weighted derivative
`(g'∘f')† c` is obtained by first taking the weighted (input) derivative of `g` and passing it
as coefficients to the weighted derivative of `f` — for arbitrary finite-dimensional shapes -/
theorem concat_chain_rule {n h k : ℕ}
    (f : EuclideanSpace ℝ (Fin n) → EuclideanSpace ℝ (Fin h))
    (g : EuclideanSpace ℝ (Fin h) → EuclideanSpace ℝ (Fin k))
    (f' : EuclideanSpace ℝ (Fin n) →L[ℝ] EuclideanSpace ℝ (Fin h))
    (g' : EuclideanSpace ℝ (Fin h) →L[ℝ] EuclideanSpace ℝ (Fin k))
    (x : EuclideanSpace ℝ (Fin n)) (hf : HasFDerivAt f f' x) (hg : HasFDerivAt g g' (f x))
    (c : EuclideanSpace ℝ (Fin k)) :
    HasFDerivAt (g ∘ f) (g'.comp f') x ∧
    ContinuousLinearMap.adjoint (g'.comp f') c =
      ContinuousLinearMap.adjoint f' (ContinuousLinearMap.adjoint g' c) := by
  refine ⟨hg.comp x hf, ?_⟩
  rw [ContinuousLinearMap.adjoint_comp]
  rfl

end Derivatives

/-! ### non-vacuity -/
def demo : Dense Rat := { nIn := 2, nOut := 2, W := fun k j => (k + 2 * j : Nat), hasB := true, b := fun k => (k : Nat), act := .rectifier }
example : demo.params = [0, 2, 1, 3, 0, 1] := by decide
example : demo.params.length = demo.numberOfParameters := params_length demo
example : demo.preB (fun i j => (i + j : Nat)) 1 1 = 8 := by
  simp [demo, Dense.preB, sumR, sumL, List.range_succ]; norm_num

end SharkVerif.C04
