/-
C04 — Models: batch equals single evaluation; derivatives are the true derivatives.

Models: `Model/Models.lean` (dense layers with element-wise activations,
normalizer/softmax rows, concatenations of any length) and `Model/Models2.lean`
(`Normalizer`, `Classifier`, max pooling, spline resize as a linear gather, `Conv2DModel`, `RBFLayer`,
`KernelExpansion`, `Ensemble`, `CMACMap`), tied to the C++ classes by `checks/c04.py`.
Sections 1-3: single dense layers and the abstract chain rule; section 4: the executable
backward pass of `ConcatenatedModel` (proved by induction over the chain in
`Lemmas/ChainDeriv.lean`); section 5: the further model types (proofs in
`Lemmas/ModelsIndex.lean`, `Lemmas/ModelsPool.lean`, `Lemmas/ModelsRBF.lean`,
`Lemmas/ModelsConv.lean`); section 6 (deep3): nested `ConcatenatedModel`s, the separate routines of
`ConcatenatedModel`, the `im2mat`/`gemm` implementation of `Conv2DModel::eval`, max pooling at ties, spline weights,
`OneVersusOneClassifier`, `KernelClassifier`, `CARTree`, clustering models (`Model/Models3.lean`,
`Lemmas/ModelsNet.lean`).
-/
import SharkVerif.Lemmas.Models
import SharkVerif.Lemmas.ModelsDeriv
import SharkVerif.Lemmas.ChainDeriv
import SharkVerif.Lemmas.ModelsIndex
import SharkVerif.Lemmas.ModelsPool
import SharkVerif.Lemmas.ModelsRBF
import SharkVerif.Lemmas.ModelsConv
import SharkVerif.Lemmas.ModelsCMAC
import SharkVerif.Lemmas.ModelsNet
namespace SharkVerif.C04
open SharkVerif.Models Scalar

/-! ## 1. batch evaluation = row-wise single evaluation (exact arithmetic) -/

/-- `inputs % trans(W)` row `i` equals `W % input_i`, for every batch, every shape, with or
without offset; hence a row's output does not depend on the other rows of the batch -/
theorem dense_batch_eq_single (tanh : Rat → Rat) (m : Dense Rat) (X : Nat → Nat → Rat) (i k : Nat) :
    m.evalB tanh X i k = m.eval tanh (X i) k := by
  unfold Dense.evalB Dense.eval Dense.preB Dense.pre
  have : (sumR m.nIn fun j => X i j * m.W k j) = sumR m.nIn fun j => m.W k j * X i j :=
    sumR_congr _ _ _ (fun j _ => mul_comm _ _)
  simp only [this]

/-- the same for a two-layer concatenation: each output row is a function of its own input row -/
theorem concat_batch_eq_single (tanh : Rat → Rat) (c : Concat2 Rat) (X : Nat → Nat → Rat) (i k : Nat) :
    c.evalB tanh X i k = c.g.eval tanh (fun h => c.f.eval tanh (X i) h) k := by
  unfold Concat2.evalB
  rw [dense_batch_eq_single]
  have : (Dense.evalB tanh c.f X i) = fun h => c.f.eval tanh (X i) h := by
    funext h; exact dense_batch_eq_single tanh c.f X i h
  rw [this]

/-- rows of a batch are independent: changing the other rows does not change row `i` -/
theorem dense_row_independent (tanh : Rat → Rat) (m : Dense Rat) (X Y : Nat → Nat → Rat) (i k : Nat)
    (h : ∀ j, X i j = Y i j) : m.evalB tanh X i k = m.evalB tanh Y i k := by
  rw [dense_batch_eq_single, dense_batch_eq_single]
  have : X i = Y i := funext h
  rw [this]

/-! ## 2. parameter vector round trip -/

theorem params_length (m : Dense Rat) : m.params.length = m.numberOfParameters := by
  unfold Dense.params Dense.numberOfParameters
  rw [List.length_append, flatRows_length]
  split <;> simp

/-- reading the parameters and setting them back leaves the weights … -/
theorem setParams_params_W (m : Dense Rat) (k j : Nat) (hk : k < m.nOut) (hj : j < m.nIn) :
    (m.setParams m.params).W k j = m.W k j := by
  unfold Dense.setParams Dense.params
  simp only
  have hlt : k * m.nIn + j < m.nOut * m.nIn := by
    calc k * m.nIn + j < k * m.nIn + m.nIn := by omega
      _ = (k + 1) * m.nIn := by rw [Nat.succ_mul]
      _ ≤ m.nOut * m.nIn := Nat.mul_le_mul_right _ hk
  rw [List.getD_eq_getElem?_getD, List.getElem?_append_left (by rw [flatRows_length]; exact hlt),
    ← List.getD_eq_getElem?_getD]
  exact flatRows_getD m.nOut m.nIn m.W 0 k j hk hj

/-- … and the offset unchanged -/
theorem setParams_params_b (m : Dense Rat) (k : Nat) (hk : k < m.nOut) (hb : m.hasB = true) :
    (m.setParams m.params).b k = m.b k := by
  unfold Dense.setParams Dense.params
  simp only [hb, ↓reduceIte]
  rw [List.getD_eq_getElem?_getD, List.getElem?_append_right (by rw [flatRows_length]; omega), flatRows_length]
  simp [hk]

/-- conversely: setting a vector of the reported length and reading it back is the identity -/
theorem params_setParams (m : Dense Rat) (p : List Rat) (hp : p.length = m.numberOfParameters) :
    (m.setParams p).params = p := by
  apply List.ext_getElem?
  intro n
  have hlen : (m.setParams p).params.length = p.length := by
    rw [params_length]; unfold Dense.numberOfParameters Dense.setParams; simp only; exact hp.symm
  by_cases hn : n < p.length
  · rw [List.getElem?_eq_getElem hn]
    unfold Dense.params Dense.setParams
    simp only
    unfold Dense.numberOfParameters at hp
    by_cases hw : n < m.nOut * m.nIn
    · rw [List.getElem?_append_left (by rw [flatRows_length]; exact hw)]
      have hin : 0 < m.nIn := by
        rcases Nat.eq_zero_or_pos m.nIn with h | h
        · rw [h] at hw; simp at hw
        · exact h
      have hk : n / m.nIn < m.nOut := by
        rw [Nat.div_lt_iff_lt_mul hin]; exact hw
      have hj : n % m.nIn < m.nIn := Nat.mod_lt _ hin
      have hn' : n = (n / m.nIn) * m.nIn + n % m.nIn := by
        rw [Nat.mul_comm]; exact (Nat.div_add_mod n m.nIn).symm
      have := flatRows_getD m.nOut m.nIn (fun k j => p.getD (k * m.nIn + j) 0) 0 (n / m.nIn) (n % m.nIn) hk hj
      rw [← hn', List.getD_eq_getElem?_getD] at this
      have hlt : n < ((List.range m.nOut).flatMap fun k => (List.range m.nIn).map fun j => p.getD (k * m.nIn + j) 0).length := by
        rw [flatRows_length]; exact hw
      rw [List.getElem?_eq_getElem hlt] at this ⊢
      simp only [Option.getD_some] at this
      rw [this, List.getD_eq_getElem?_getD, List.getElem?_eq_getElem hn]; rfl
    · rw [List.getElem?_append_right (by rw [flatRows_length]; omega), flatRows_length]
      by_cases hb : m.hasB = true
      · simp only [hb, ↓reduceIte] at hp ⊢
        have hk : n - m.nOut * m.nIn < m.nOut := by omega
        rw [List.getElem?_map, List.getElem?_range hk]
        simp only [Option.map_some]
        rw [List.getD_eq_getElem?_getD, show m.nOut * m.nIn + (n - m.nOut * m.nIn) = n by omega,
          List.getElem?_eq_getElem hn]; rfl
      · simp only [hb] at hp
        simp at hp
        omega
  · have hn' : p.length ≤ n := by omega
    rw [List.getElem?_eq_none hn', List.getElem?_eq_none (by rw [hlen]; exact hn')]

/-! ## 3. derivatives (over ℝ) -/
section Derivatives
open Finset

/-- replace one weight -/
def setW (m : Dense ℝ) (k0 j0 : ℕ) (t : ℝ) : Dense ℝ :=
  { m with W := fun k j => if k = k0 ∧ j = j0 then t else m.W k j }
/-- replace one offset entry -/
def setB (m : Dense ℝ) (k0 : ℕ) (t : ℝ) : Dense ℝ :=
  { m with b := fun k => if k = k0 then t else m.b k }

/-- the coefficient-weighted sum of the outputs of a batch -/
noncomputable def objective (m : Dense ℝ) (B : ℕ) (X C : ℕ → ℕ → ℝ) : ℝ :=
  ∑ i ∈ range B, ∑ k ∈ range m.nOut, C i k * m.evalB Real.tanh X i k

/-- no pre-activation of output `k0` sits on a kink of the activation -/
def NoKink (m : Dense ℝ) (B : ℕ) (X : ℕ → ℕ → ℝ) (k0 : ℕ) : Prop :=
  ∀ i, i < B → (m.act = .rectifier ∨ m.act = .fastSigmoid) → m.preB X i k0 ≠ 0

theorem preB_eq (m : Dense ℝ) (X : ℕ → ℕ → ℝ) (i k : ℕ) :
    m.preB X i k = (∑ j ∈ range m.nIn, X i j * m.W k j) + (if m.hasB then m.b k else 0) := by
  unfold Dense.preB
  simp only [sumR_eq_finset]
  split <;> simp

/-- **weighted parameter derivative, weight part**: `trans(delta) % patterns` at `(k0,j0)` is the
partial derivative of the weighted output sum w.r.t. `W[k0][j0]` -/
theorem weight_derivative_correct (m : Dense ℝ) (B : ℕ) (X C : ℕ → ℕ → ℝ) (k0 j0 : ℕ)
    (hk0 : k0 < m.nOut) (hj0 : j0 < m.nIn) (hnk : NoKink m B X k0) :
    HasDerivAt (fun t => objective (setW m k0 j0 t) B X C)
      (m.gradW B X (m.evalB Real.tanh X) C k0 j0) (m.W k0 j0) := by
  -- derivative of one pre-activation
  have hpre : ∀ i k, HasDerivAt (fun t => (setW m k0 j0 t).preB X i k)
      (if k = k0 then X i j0 else 0) (m.W k0 j0) := by
    intro i k
    have hfun : (fun t => (setW m k0 j0 t).preB X i k) = fun t =>
        (∑ j ∈ range m.nIn, X i j * (if k = k0 ∧ j = j0 then t else m.W k j)) + (if m.hasB then m.b k else 0) := by
      funext t; rw [preB_eq]; rfl
    rw [hfun]
    have hsum : HasDerivAt (fun t => ∑ j ∈ range m.nIn, X i j * (if k = k0 ∧ j = j0 then t else m.W k j))
        (∑ j ∈ range m.nIn, if k = k0 ∧ j = j0 then X i j else 0) (m.W k0 j0) := by
      apply HasDerivAt.fun_sum
      intro j _
      by_cases h : k = k0 ∧ j = j0
      · simp only [h, and_self, ↓reduceIte]
        simpa using (hasDerivAt_id' (m.W k0 j0)).const_mul (X i j0)
      · simp only [h, ↓reduceIte]
        exact hasDerivAt_const _ _
    have hval : (∑ j ∈ range m.nIn, if k = k0 ∧ j = j0 then X i j else 0) = if k = k0 then X i j0 else 0 := by
      by_cases hk : k = k0
      · simp only [hk, true_and, ↓reduceIte]
        rw [Finset.sum_ite_eq' (range m.nIn) j0 (fun j => X i j)]
        simp [hj0]
      · simp [hk]
    rw [hval] at hsum
    exact hsum.add_const _
  -- value of the pre-activation at the current weight
  have hat : ∀ i k, (setW m k0 j0 (m.W k0 j0)).preB X i k = m.preB X i k := by
    intro i k
    rw [preB_eq, preB_eq]
    congr 1
    apply Finset.sum_congr rfl
    intro j _
    show X i j * (if k = k0 ∧ j = j0 then m.W k0 j0 else m.W k j) = _
    split
    · rename_i h; rw [h.1, h.2]
    · rfl
  unfold objective
  have hterm : ∀ i ∈ range B, HasDerivAt
      (fun t => ∑ k ∈ range m.nOut, C i k * (setW m k0 j0 t).evalB Real.tanh X i k)
      (m.delta (m.evalB Real.tanh X) C i k0 * X i j0) (m.W k0 j0) := by
    intro i hi
    have hk : ∀ k ∈ range m.nOut, HasDerivAt (fun t => C i k * (setW m k0 j0 t).evalB Real.tanh X i k)
        (if k = k0 then m.delta (m.evalB Real.tanh X) C i k0 * X i j0 else 0) (m.W k0 j0) := by
      intro k _
      by_cases h : k = k0
      · subst h
        simp only [↓reduceIte]
        have hact := act_hasDerivAt m.act (m.preB X i k) (hnk i (List.mem_range.1 (by simpa using hi)))
        rw [← hat i k] at hact
        have hcomp : HasDerivAt (fun t => m.act.eval Real.tanh ((setW m k j0 t).preB X i k))
            (m.act.dfac (m.act.eval Real.tanh ((setW m k j0 (m.W k j0)).preB X i k)) * X i j0) (m.W k j0) := by
          have := hpre i k
          simp only [↓reduceIte] at this
          exact HasDerivAt.comp (h₂ := m.act.eval Real.tanh) (m.W k j0) hact this
        have := hcomp.const_mul (C i k)
        rw [hat i k] at this
        unfold Dense.delta Dense.evalB
        have e : C i k * m.act.dfac (m.act.eval Real.tanh (m.preB X i k)) * X i j0
            = C i k * (m.act.dfac (m.act.eval Real.tanh (m.preB X i k)) * X i j0) := by ring
        rw [e]; exact this
      · simp only [h, ↓reduceIte]
        have hconst : (fun t => C i k * (setW m k0 j0 t).evalB Real.tanh X i k)
            = fun _ => C i k * m.evalB Real.tanh X i k := by
          funext t
          unfold Dense.evalB
          congr 2
          rw [preB_eq, preB_eq]
          congr 1
          apply Finset.sum_congr rfl
          intro j _
          show X i j * (if k = k0 ∧ j = j0 then t else m.W k j) = _
          simp [h]
        rw [hconst]; exact hasDerivAt_const _ _
    have := HasDerivAt.fun_sum hk
    rw [Finset.sum_ite_eq' (range m.nOut) k0] at this
    simpa [hk0] using this
  have htot := HasDerivAt.fun_sum hterm
  unfold Dense.gradW
  rw [sumR_eq_finset]
  exact htot

/-- general form: the weighted output sum as a function of one scalar `t` through the
pre-activations.  Each pre-activation (of the batch rows and outputs that occur) is either
constant in `t` or differentiable at `t0` away from a kink of the activation. -/
theorem objective_hasDerivAt (a : Act) (B nOut : ℕ) (C : ℕ → ℕ → ℝ) (pre : ℝ → ℕ → ℕ → ℝ)
    (pre' : ℕ → ℕ → ℝ) (t0 : ℝ)
    (hcase : ∀ i, i < B → ∀ k, k < nOut → ((∀ t, pre t i k = pre t0 i k) ∧ pre' i k = 0) ∨
      (HasDerivAt (fun t => pre t i k) (pre' i k) t0 ∧
        ((a = .rectifier ∨ a = .fastSigmoid) → pre t0 i k ≠ 0))) :
    HasDerivAt (fun t => ∑ i ∈ range B, ∑ k ∈ range nOut, C i k * a.eval Real.tanh (pre t i k))
      (∑ i ∈ range B, ∑ k ∈ range nOut, C i k * a.dfac (a.eval Real.tanh (pre t0 i k)) * pre' i k) t0 := by
  apply HasDerivAt.fun_sum
  intro i hi
  apply HasDerivAt.fun_sum
  intro k hk
  rcases hcase i (Finset.mem_range.1 hi) k (Finset.mem_range.1 hk) with ⟨hconst, hz⟩ | ⟨hd, hnk⟩
  · have : (fun t => C i k * a.eval Real.tanh (pre t i k)) = fun _ => C i k * a.eval Real.tanh (pre t0 i k) := by
      funext t; rw [hconst t]
    rw [this, hz, mul_zero]
    exact hasDerivAt_const _ _
  · have hact := act_hasDerivAt a (pre t0 i k) hnk
    have hcomp : HasDerivAt (fun t => a.eval Real.tanh (pre t i k))
        (a.dfac (a.eval Real.tanh (pre t0 i k)) * pre' i k) t0 :=
      HasDerivAt.comp (h₂ := a.eval Real.tanh) t0 hact hd
    have := hcomp.const_mul (C i k)
    have e : C i k * a.dfac (a.eval Real.tanh (pre t0 i k)) * pre' i k
        = C i k * (a.dfac (a.eval Real.tanh (pre t0 i k)) * pre' i k) := by ring
    rw [e]; exact this

/-- **weighted parameter derivative, offset part**: `sum(as_columns(delta))` at `k0` is the partial
derivative of the weighted output sum w.r.t. the offset entry `b[k0]` -/
theorem offset_derivative_correct (m : Dense ℝ) (B : ℕ) (X C : ℕ → ℕ → ℝ) (k0 : ℕ)
    (hk0 : k0 < m.nOut) (hb : m.hasB = true) (hnk : NoKink m B X k0) :
    HasDerivAt (fun t => objective (setB m k0 t) B X C)
      (m.gradB B (m.evalB Real.tanh X) C k0) (m.b k0) := by
  have hpreT : ∀ t i k, (setB m k0 t).preB X i k =
      (∑ j ∈ range m.nIn, X i j * m.W k j) + (if k = k0 then t else m.b k) := by
    intro t i k; rw [preB_eq]; simp only [setB, hb, ↓reduceIte]
  have hat : ∀ i k, (setB m k0 (m.b k0)).preB X i k = m.preB X i k := by
    intro i k; rw [hpreT, preB_eq]; simp only [hb, ↓reduceIte]
    split
    · rename_i h; rw [h]
    · rfl
  have hcase : ∀ i, i < B → ∀ k, k < m.nOut →
      ((∀ t, (setB m k0 t).preB X i k = (setB m k0 (m.b k0)).preB X i k) ∧ (if k = k0 then (1:ℝ) else 0) = 0) ∨
      (HasDerivAt (fun t => (setB m k0 t).preB X i k) (if k = k0 then (1:ℝ) else 0) (m.b k0) ∧
        ((m.act = .rectifier ∨ m.act = .fastSigmoid) → (setB m k0 (m.b k0)).preB X i k ≠ 0)) := by
    intro i hi k _
    by_cases hk : k = k0
    · right
      subst hk
      refine ⟨?_, ?_⟩
      · simp only [↓reduceIte]
        have : (fun t => (setB m k t).preB X i k) = fun t => (∑ j ∈ range m.nIn, X i j * m.W k j) + t := by
          funext t; rw [hpreT]; simp
        rw [this]; exact (hasDerivAt_id' (m.b k)).const_add _
      · intro ha; rw [hat]; exact hnk i hi ha
    · left
      refine ⟨?_, by simp [hk]⟩
      intro t; rw [hpreT, hpreT]; simp [hk]
  have h := objective_hasDerivAt m.act B m.nOut C (fun t i k => (setB m k0 t).preB X i k)
    (fun _ k => if k = k0 then 1 else 0) (m.b k0) hcase
  have hval : (∑ i ∈ range B, ∑ k ∈ range m.nOut,
      C i k * m.act.dfac (m.act.eval Real.tanh ((setB m k0 (m.b k0)).preB X i k)) * (if k = k0 then (1:ℝ) else 0))
      = m.gradB B (m.evalB Real.tanh X) C k0 := by
    unfold Dense.gradB Dense.delta Dense.evalB
    rw [sumR_eq_finset]
    apply Finset.sum_congr rfl
    intro i _
    simp only [mul_ite, mul_one, mul_zero]
    rw [Finset.sum_ite_eq' (range m.nOut) k0]
    simp [hk0, hat]
  rw [← hval]
  exact h

/-- replace one input entry of the batch -/
def setX (X : ℕ → ℕ → ℝ) (i0 j0 : ℕ) (t : ℝ) : ℕ → ℕ → ℝ := fun i j => if i = i0 ∧ j = j0 then t else X i j

/-- **weighted input derivative**: `delta % m_matrix` at `(i0,j0)` is the partial derivative of the
weighted output sum w.r.t. the input entry `X[i0][j0]` -/
theorem input_derivative_correct (m : Dense ℝ) (B : ℕ) (X C : ℕ → ℕ → ℝ) (i0 j0 : ℕ)
    (hi0 : i0 < B) (hj0 : j0 < m.nIn) (hnk : ∀ k, k < m.nOut → NoKink m B X k) :
    HasDerivAt (fun t => objective m B (setX X i0 j0 t) C)
      (m.gradX (m.evalB Real.tanh X) C i0 j0) (X i0 j0) := by
  have hat : ∀ i k, m.preB (setX X i0 j0 (X i0 j0)) i k = m.preB X i k := by
    intro i k; rw [preB_eq, preB_eq]; congr 1
    apply Finset.sum_congr rfl
    intro j _
    simp only [setX]
    split
    · rename_i h; rw [h.1, h.2]
    · rfl
  have hcase : ∀ i, i < B → ∀ k, k < m.nOut →
      ((∀ t, m.preB (setX X i0 j0 t) i k = m.preB (setX X i0 j0 (X i0 j0)) i k) ∧ (if i = i0 then m.W k j0 else 0) = 0) ∨
      (HasDerivAt (fun t => m.preB (setX X i0 j0 t) i k) (if i = i0 then m.W k j0 else 0) (X i0 j0) ∧
        ((m.act = .rectifier ∨ m.act = .fastSigmoid) → m.preB (setX X i0 j0 (X i0 j0)) i k ≠ 0)) := by
    intro i hi k hk
    by_cases hii : i = i0
    · right
      subst hii
      refine ⟨?_, ?_⟩
      · simp only [↓reduceIte]
        have hfun : (fun t => m.preB (setX X i j0 t) i k) = fun t =>
            (∑ j ∈ range m.nIn, (if j = j0 then t else X i j) * m.W k j) + (if m.hasB then m.b k else 0) := by
          funext t; rw [preB_eq]; congr 1
          apply Finset.sum_congr rfl
          intro j _; simp [setX]
        rw [hfun]
        have hsum : HasDerivAt (fun t => ∑ j ∈ range m.nIn, (if j = j0 then t else X i j) * m.W k j)
            (∑ j ∈ range m.nIn, if j = j0 then m.W k j else 0) (X i j0) := by
          apply HasDerivAt.fun_sum
          intro j _
          by_cases h : j = j0
          · simp only [h, ↓reduceIte]
            simpa using (hasDerivAt_id' (X i j0)).mul_const (m.W k j0)
          · simp only [h, ↓reduceIte]
            exact hasDerivAt_const _ _
        rw [Finset.sum_ite_eq' (range m.nIn) j0 (fun j => m.W k j)] at hsum
        simp only [Finset.mem_range, hj0, ↓reduceIte] at hsum
        exact hsum.add_const _
      · intro ha; rw [hat]; exact hnk k hk i hi ha
    · left
      refine ⟨?_, by simp [hii]⟩
      intro t
      rw [preB_eq, preB_eq]; congr 1
      apply Finset.sum_congr rfl
      intro j _; simp [setX, hii]
  have h := objective_hasDerivAt m.act B m.nOut C (fun t i k => m.preB (setX X i0 j0 t) i k)
    (fun i k => if i = i0 then m.W k j0 else 0) (X i0 j0) hcase
  have hval : (∑ i ∈ range B, ∑ k ∈ range m.nOut,
      C i k * m.act.dfac (m.act.eval Real.tanh (m.preB (setX X i0 j0 (X i0 j0)) i k)) * (if i = i0 then m.W k j0 else 0))
      = m.gradX (m.evalB Real.tanh X) C i0 j0 := by
    unfold Dense.gradX Dense.delta Dense.evalB
    rw [sumR_eq_finset]
    have : ∀ i ∈ range B, (∑ k ∈ range m.nOut,
        C i k * m.act.dfac (m.act.eval Real.tanh (m.preB (setX X i0 j0 (X i0 j0)) i k)) * (if i = i0 then m.W k j0 else 0))
        = if i = i0 then ∑ k ∈ range m.nOut, C i0 k * m.act.dfac (m.act.eval Real.tanh (m.preB X i0 k)) * m.W k j0 else 0 := by
      intro i _
      by_cases hii : i = i0
      · subst hii; simp [hat]
      · simp [hii]
    rw [Finset.sum_congr rfl this, Finset.sum_ite_eq' (range B) i0]
    simp [hi0]
  rw [← hval]
  exact h

/-- replace one coordinate of a vector -/
def setZ (z : ℕ → ℝ) (j0 : ℕ) (t : ℝ) : ℕ → ℝ := fun k => if k = j0 then t else z k

theorem hasDerivAt_sum_setZ (n : ℕ) (w : ℕ → ℝ) (g : ℝ → ℝ) (g' : ℝ) (z : ℕ → ℝ) (j0 : ℕ) (hj : j0 < n)
    (hg : HasDerivAt g g' (z j0)) :
    HasDerivAt (fun t => ∑ k ∈ range n, w k * g (setZ z j0 t k)) (w j0 * g') (z j0) := by
  have h : ∀ k ∈ range n, HasDerivAt (fun t => w k * g (setZ z j0 t k)) (if k = j0 then w j0 * g' else 0) (z j0) := by
    intro k _
    by_cases hk : k = j0
    · subst hk
      simp only [setZ, ↓reduceIte]
      exact hg.const_mul _
    · simp only [setZ, hk, ↓reduceIte]
      exact hasDerivAt_const _ _
  have := HasDerivAt.fun_sum h
  rw [Finset.sum_ite_eq' (range n) j0] at this
  simpa [hj] using this

/-- **SoftmaxNeuron**: `multiplyDerivative` computes the Jacobian-transpose product: the `j0`-th
entry `(c_j0 − Σ c·out)·out_j0` is the partial derivative of `Σ_k c_k·softmax(z)_k` w.r.t. `z_j0` -/
theorem softmax_derivative_correct (n : ℕ) (z c : ℕ → ℝ) (j0 : ℕ) (hj : j0 < n) :
    HasDerivAt (fun t => ∑ k ∈ range n, c k * softmaxRow Real.exp n (setZ z j0 t) k)
      (softmaxDeriv n (softmaxRow Real.exp n z) c j0) (z j0) := by
  have hS : ∀ y : ℕ → ℝ, 0 < ∑ o ∈ range n, Real.exp (y o) := by
    intro y
    apply Finset.sum_pos
    · intro o _; exact Real.exp_pos _
    · exact ⟨j0, Finset.mem_range.2 hj⟩
  have hnum := hasDerivAt_sum_setZ n c Real.exp (Real.exp (z j0)) z j0 hj (Real.hasDerivAt_exp _)
  have hden := hasDerivAt_sum_setZ n (fun _ => 1) Real.exp (Real.exp (z j0)) z j0 hj (Real.hasDerivAt_exp _)
  simp only [one_mul] at hden
  have hz : setZ z j0 (z j0) = z := by funext k; simp only [setZ]; split <;> simp_all
  have hdiv := hnum.div hden (by rw [hz]; exact ne_of_gt (hS z))
  have hfun : (fun t => ∑ k ∈ range n, c k * softmaxRow Real.exp n (setZ z j0 t) k)
      = fun t => (∑ k ∈ range n, c k * Real.exp (setZ z j0 t k)) / ∑ k ∈ range n, Real.exp (setZ z j0 t k) := by
    funext t
    unfold softmaxRow
    rw [sumR_eq_finset, Finset.sum_div]
    apply Finset.sum_congr rfl
    intro k _; ring
  rw [hfun]
  rw [hz] at hdiv
  have hval : softmaxDeriv n (softmaxRow Real.exp n z) c j0 =
      (c j0 * Real.exp (z j0) * (∑ k ∈ range n, Real.exp (z k)) -
        (∑ k ∈ range n, c k * Real.exp (z k)) * Real.exp (z j0)) / (∑ k ∈ range n, Real.exp (z k)) ^ 2 := by
    unfold softmaxDeriv softmaxRow
    simp only [sumR_eq_finset]
    have hne := ne_of_gt (hS z)
    have : (∑ o ∈ range n, c o * (Real.exp (z o) / ∑ o ∈ range n, Real.exp (z o)))
        = (∑ o ∈ range n, c o * Real.exp (z o)) / ∑ o ∈ range n, Real.exp (z o) := by
      rw [Finset.sum_div]; apply Finset.sum_congr rfl; intro k _; ring
    rw [this]
    field_simp
  rw [hval]
  exact hdiv

/-- **NormalizerNeuron**: `multiplyDerivative` computes `(c_j0 − Σ c·out)/norm`, the partial
derivative of `Σ_k c_k·z_k/Σz` w.r.t. `z_j0` (for a non-zero norm) -/
theorem normalizer_derivative_correct (n : ℕ) (z c : ℕ → ℝ) (j0 : ℕ) (hj : j0 < n)
    (hN : (∑ o ∈ range n, z o) ≠ 0) :
    HasDerivAt (fun t => ∑ k ∈ range n, c k * normalizeRow n (setZ z j0 t) k)
      (normalizeDeriv n (normalizeRow n z) c (sumR n z) j0) (z j0) := by
  have hnum := hasDerivAt_sum_setZ n c id 1 z j0 hj (hasDerivAt_id _)
  have hden := hasDerivAt_sum_setZ n (fun _ => 1) id 1 z j0 hj (hasDerivAt_id _)
  simp only [one_mul, id, mul_one] at hnum hden
  have hz : setZ z j0 (z j0) = z := by funext k; simp only [setZ]; split <;> simp_all
  have hdiv := hnum.div hden (by rw [hz]; exact hN)
  have hfun : (fun t => ∑ k ∈ range n, c k * normalizeRow n (setZ z j0 t) k)
      = fun t => (∑ k ∈ range n, c k * setZ z j0 t k) / ∑ k ∈ range n, setZ z j0 t k := by
    funext t
    unfold normalizeRow
    rw [sumR_eq_finset, Finset.sum_div]
    apply Finset.sum_congr rfl
    intro k _; ring
  rw [hfun]
  rw [hz] at hdiv
  have hval : normalizeDeriv n (normalizeRow n z) c (sumR n z) j0 =
      (c j0 * (∑ k ∈ range n, z k) - (∑ k ∈ range n, c k * z k) * 1) / (∑ k ∈ range n, z k) ^ 2 := by
    unfold normalizeDeriv normalizeRow
    simp only [sumR_eq_finset]
    have : (∑ o ∈ range n, c o * (z o / ∑ o ∈ range n, z o))
        = (∑ o ∈ range n, c o * z o) / ∑ o ∈ range n, z o := by
      rw [Finset.sum_div]; apply Finset.sum_congr rfl; intro k _; ring
    rw [this]
    field_simp
  rw [hval]
  exact hdiv

/-- **generic chain rule** (what `ConcatenatedModel` relies on): if `f` and `g` are differentiable
with derivatives `f'`, `g'`, then the composition is, and its coefficient-weighted derivative
`(g'∘f')† c` is obtained by first taking the weighted (input) derivative of `g` and passing it
as coefficients to the weighted derivative of `f` — for arbitrary finite-dimensional shapes -/
theorem concat_chain_rule {n h k : ℕ}
    (f : EuclideanSpace ℝ (Fin n) → EuclideanSpace ℝ (Fin h))
    (g : EuclideanSpace ℝ (Fin h) → EuclideanSpace ℝ (Fin k))
    (f' : EuclideanSpace ℝ (Fin n) →L[ℝ] EuclideanSpace ℝ (Fin h))
    (g' : EuclideanSpace ℝ (Fin h) →L[ℝ] EuclideanSpace ℝ (Fin k))
    (x : EuclideanSpace ℝ (Fin n)) (hf : HasFDerivAt f f' x) (hg : HasFDerivAt g g' (f x))
    (c : EuclideanSpace ℝ (Fin k)) :
    HasFDerivAt (g ∘ f) (g'.comp f') x ∧
    ContinuousLinearMap.adjoint (g'.comp f') c =
      ContinuousLinearMap.adjoint f' (ContinuousLinearMap.adjoint g' c) := by
  refine ⟨hg.comp x hf, ?_⟩
  rw [ContinuousLinearMap.adjoint_comp]
  rfl

end Derivatives

/-! ## 4. `ConcatenatedModel` of any length (`Chain`): rows, parameters, backward pass -/
section ChainSection
variable {α : Type} [Scalar α]

/-- row `i` of a layer's batch output is a function of row `i` of its input -/
theorem layer_row_congr (tanh exp : α → α) (l : Layer α) (X Y : Nat → Nat → α) (i : Nat) (h : X i = Y i) :
    l.evalB tanh exp X i = l.evalB tanh exp Y i := by
  cases l with
  | dense m => funext k; simp only [Layer.evalB, Dense.evalB, Dense.preB, h]
  | neuron a n => funext k; simp only [Layer.evalB, h]
  | rowact kind n => cases kind <;> (funext k; simp only [Layer.evalB, h])

/-- rows of a batch are independent for a chain of any length and any layer kinds (including the
row-wise softmax / normalizer layers): row `i` of the output depends on row `i` of the input only -/
theorem chain_row_independent (tanh exp : α → α) (c : Chain α) (X Y : Nat → Nat → α) (i : Nat) (h : X i = Y i) :
    c.evalB tanh exp X i = c.evalB tanh exp Y i := by
  induction c generalizing X Y with
  | nil => simpa [Chain.evalB_nil] using h
  | cons p rest ih =>
    obtain ⟨l, o⟩ := p
    rw [Chain.evalB_cons, Chain.evalB_cons]
    exact ih _ _ (layer_row_congr tanh exp l X Y i h)

/-- **batch = single for chains**: the `i`-th row of a batch evaluation equals the evaluation of the
one-row batch made of input `i` (which is how `AbstractModel::eval(InputType const&, …)` evaluates a
single input), whatever the other rows are and however many there are -/
theorem chain_batch_eq_single (tanh exp : α → α) (c : Chain α) (X : Nat → Nat → α) (i k : Nat) :
    c.evalB tanh exp X i k = c.evalB tanh exp (fun _ => X i) 0 k := by
  have := chain_row_independent tanh exp c X (fun _ => X i)
  have h1 : c.evalB tanh exp X i = c.evalB tanh exp (fun _ => X i) i := this i rfl
  have h2 : c.evalB tanh exp (fun _ => X i) i = c.evalB tanh exp (fun _ => X i) 0 := by
    -- all rows of a constant batch are equal
    have hc : ∀ (c : Chain α) (Z : Nat → Nat → α), (∀ a b, Z a = Z b) → ∀ a b, c.evalB tanh exp Z a = c.evalB tanh exp Z b := by
      intro c
      induction c with
      | nil => intro Z hZ a b; simpa [Chain.evalB_nil] using hZ a b
      | cons p rest ih =>
        obtain ⟨l, o⟩ := p
        intro Z hZ a b
        rw [Chain.evalB_cons]
        apply ih
        intro a b
        cases l with
        | dense m => funext k; simp only [Layer.evalB, Dense.evalB, Dense.preB, hZ a b]
        | neuron act n => funext k; simp only [Layer.evalB, hZ a b]
        | rowact kind n => cases kind <;> (funext k; simp only [Layer.evalB, hZ a b])
    exact hc c _ (fun _ _ => rfl) i 0
  rw [h1, h2]
end ChainSection

theorem layer_params_length (l : Layer Rat) : l.params.length = l.numberOfParameters := by
  cases l with
  | dense m => exact params_length m
  | neuron a n => rfl
  | rowact k n => rfl

/-- `parameterVector()` of a chain has the reported length -/
theorem chain_params_length (c : Chain Rat) : c.params.length = c.numberOfParameters := by
  induction c with
  | nil => rfl
  | cons p rest ih =>
    obtain ⟨l, o⟩ := p
    rw [Chain.params_cons, List.length_append, ih]
    cases o <;> simp [Chain.numberOfParameters, layer_params_length]

/-- setting a vector of the reported length and reading it back is the identity, for chains of any
length with optimised and frozen layers -/
theorem chain_params_setParams (c : Chain Rat) (p : List Rat) (hp : p.length = c.numberOfParameters) :
    (c.setParams p).params = p := by
  induction c generalizing p with
  | nil =>
    simp only [Chain.numberOfParameters] at hp
    simp [Chain.setParams, Chain.params_nil, List.length_eq_zero_iff.1 hp]
  | cons q rest ih =>
    obtain ⟨l, o⟩ := q
    cases o with
    | false =>
      simp only [Chain.numberOfParameters, Bool.false_eq_true, ↓reduceIte, Nat.zero_add] at hp
      simp only [Chain.setParams, Chain.params_cons, Bool.false_eq_true, ↓reduceIte, List.nil_append]
      exact ih p hp
    | true =>
      simp only [Chain.numberOfParameters, ↓reduceIte] at hp
      simp only [Chain.setParams, Chain.params_cons, ↓reduceIte]
      have hrest : (p.drop l.numberOfParameters).length = Chain.numberOfParameters rest := by
        rw [List.length_drop]; omega
      rw [ih _ hrest]
      have hl : (l.setParams (p.take l.numberOfParameters)).params = p.take l.numberOfParameters := by
        cases l with
        | dense m =>
          simp only [Layer.setParams, Layer.params, Layer.numberOfParameters]
          apply params_setParams
          rw [List.length_take]
          simp only [Layer.numberOfParameters] at hp
          omega
        | neuron a n => simp [Layer.setParams, Layer.params, Layer.numberOfParameters]
        | rowact k n => simp [Layer.setParams, Layer.params, Layer.numberOfParameters]
      rw [hl, List.take_append_drop]

section ChainDerivatives
open Finset

/-- **the backward pass of `ConcatenatedModel` computes the weighted input derivative** — for chains of
any length made of dense, element-wise neuron, softmax and normalizer layers, optimised or frozen:
the matrix returned by the executable `Chain.backward` holds at `(i0,j0)` the partial derivative of
the coefficient-weighted output sum w.r.t. the input entry `X[i0][j0]`.  Hypotheses: the shapes fit
(`Chain.WF`), no rectifier / fast-sigmoid pre-activation sits on its kink and no normalizer row sums
to zero (`Chain.NoKink`).  Proved by induction over the chain (`Chain.curve_hasDerivAt`). -/
theorem chain_input_derivative_correct (c : Chain ℝ) (B nIn : ℕ) (X C : ℕ → ℕ → ℝ) (i0 j0 : ℕ)
    (hi0 : i0 < B) (hj0 : j0 < nIn) (hwf : Chain.WF c nIn) (hnk : Chain.NoKink B c X) :
    HasDerivAt (fun t => c.objective B nIn (fun i j => if i = i0 ∧ j = j0 then t else X i j) C)
      ((c.backward Real.tanh Real.exp B X C).2 i0 j0) (X i0 j0) :=
  Chain.input_derivative_correct c B nIn X C i0 j0 hi0 hj0 hwf hnk

/-- **… and the weighted parameter derivative, weight part**: for an optimised dense layer `m` anywhere
in the chain (`pre ++ m :: post`), the gradient vector returned by `Chain.backward` holds, at the
position at which `parameterVector()` holds `W[k0][j0]` of that layer, the partial derivative of the
weighted output sum w.r.t. that weight -/
theorem chain_weight_derivative_correct (pre post : Chain ℝ) (m : Dense ℝ) (B nIn : ℕ)
    (X C : ℕ → ℕ → ℝ) (k0 j0 : ℕ) (hk0 : k0 < m.nOut) (hj0 : j0 < m.nIn)
    (hwf : Chain.WF (pre ++ (Layer.dense m, true) :: post) nIn)
    (hnk : Chain.NoKink B (pre ++ (Layer.dense m, true) :: post) X) :
    HasDerivAt (fun t => Chain.objective
        (pre ++ (Layer.dense { m with W := fun k j => if k = k0 ∧ j = j0 then t else m.W k j }, true) :: post)
        B nIn X C)
      ((Chain.backward Real.tanh Real.exp B (pre ++ (Layer.dense m, true) :: post) X C).1.getD
        ((Chain.params pre).length + (k0 * m.nIn + j0)) 0) (m.W k0 j0) ∧
    (Chain.params (pre ++ (Layer.dense m, true) :: post)).getD
      ((Chain.params pre).length + (k0 * m.nIn + j0)) 0 = m.W k0 j0 :=
  ⟨Chain.weight_derivative_correct pre post m B nIn X C k0 j0 hk0 hj0 hwf hnk,
   Chain.params_getD_weight pre post m k0 j0 hk0 hj0⟩

/-- **… offset part** -/
theorem chain_offset_derivative_correct (pre post : Chain ℝ) (m : Dense ℝ) (B nIn : ℕ)
    (X C : ℕ → ℕ → ℝ) (k0 : ℕ) (hk0 : k0 < m.nOut) (hb : m.hasB = true)
    (hwf : Chain.WF (pre ++ (Layer.dense m, true) :: post) nIn)
    (hnk : Chain.NoKink B (pre ++ (Layer.dense m, true) :: post) X) :
    HasDerivAt (fun t => Chain.objective
        (pre ++ (Layer.dense { m with b := fun k => if k = k0 then t else m.b k }, true) :: post)
        B nIn X C)
      ((Chain.backward Real.tanh Real.exp B (pre ++ (Layer.dense m, true) :: post) X C).1.getD
        ((Chain.params pre).length + (m.nOut * m.nIn + k0)) 0) (m.b k0) ∧
    (Chain.params (pre ++ (Layer.dense m, true) :: post)).getD
      ((Chain.params pre).length + (m.nOut * m.nIn + k0)) 0 = m.b k0 :=
  ⟨Chain.offset_derivative_correct pre post m B nIn X C k0 hk0 hb hwf hnk,
   Chain.params_getD_offset pre post m k0 hk0 hb⟩

/-- the gradient vector has the length of the parameter vector -/
theorem chain_gradient_length (c : Chain ℝ) (B : ℕ) (X C : ℕ → ℕ → ℝ) :
    (c.backward Real.tanh Real.exp B X C).1.length = c.params.length :=
  Chain.backward_fst_length Real.tanh Real.exp B c X C

/-- the general form all three follow from: along any differentiable curve of batch inputs the
derivative of the weighted output sum is the pairing of the backward pass with the curve's velocity -/
theorem chain_curve_hasDerivAt (B : ℕ) (t0 : ℝ) (c : Chain ℝ) (nIn : ℕ) (X : ℝ → ℕ → ℕ → ℝ) (X' : ℕ → ℕ → ℝ)
    (hwf : Chain.WF c nIn) (hX : ∀ i, i < B → ∀ j, j < nIn → HasDerivAt (fun t => X t i j) (X' i j) t0)
    (hnk : Chain.NoKink B c (X t0)) (C : ℕ → ℕ → ℝ) :
    HasDerivAt (fun t => ∑ i ∈ range B, ∑ k ∈ range (Chain.nOut c nIn), C i k * c.evalB Real.tanh Real.exp (X t) i k)
      (∑ i ∈ range B, ∑ j ∈ range nIn, (c.backward Real.tanh Real.exp B (X t0) C).2 i j * X' i j) t0 :=
  Chain.curve_hasDerivAt B t0 c nIn X X' hwf hX hnk C
end ChainDerivatives

/-! ## 5. further model types -/

/-! ### `Classifier`: arg-max returns a maximal entry, the first such -/
theorem classifier_argmax_in_range (n : Nat) (z : Nat → Rat) (hn : 0 < n) : argmax n z < n := argmax_lt n z hn
theorem classifier_argmax_is_max (n : Nat) (z : Nat → Rat) (k : Nat) (hk : k < n) : z k ≤ z (argmax n z) :=
  argmax_max n z k hk
theorem classifier_argmax_is_first (n : Nat) (z : Nat → Rat) (k : Nat) (hk : k < argmax n z) :
    z k < z (argmax n z) := argmax_first n z k hk
/-- these three facts characterise it -/
theorem classifier_argmax_unique (n : Nat) (z : Nat → Rat) (hn : 0 < n) (a : Nat) (ha : a < n)
    (hmax : ∀ k, k < n → z k ≤ z a) (hfirst : ∀ k, k < a → z k < z a) : argmax n z = a :=
  argmax_unique_char n z hn a ha hmax hfirst
/-- the decision with a bias vector is the first maximum of `z + bias` -/
theorem classifier_bias_spec (nOut : Nat) (bias z : Nat → Rat) (h1 : nOut ≠ 1) (hn : 0 < nOut) :
    classifyRow nOut true bias z < nOut ∧
    (∀ k, k < nOut → z k + bias k ≤ z (classifyRow nOut true bias z) + bias (classifyRow nOut true bias z)) ∧
    (∀ k, k < classifyRow nOut true bias z →
      z k + bias k < z (classifyRow nOut true bias z) + bias (classifyRow nOut true bias z)) :=
  classifyRow_bias_spec nOut bias z h1 hn
/-- a single output is thresholded at 0 -/
theorem classifier_single_output (hb : Bool) (bias z : Nat → Rat) :
    classifyRow 1 hb bias z = if 0 < z 0 + (if hb then bias 0 else 0) then 1 else 0 := classifyRow_one hb bias z
/-- batch = single for `Classifier<LinearModel>`: the label of row `i` is the decision on the single
evaluation of the decision function on input `i` -/
theorem classifier_batch_eq_single (tanh : Rat → Rat) (m : Dense Rat) (hasBias : Bool) (bias : Nat → Rat)
    (X : Nat → Nat → Rat) (i : Nat) :
    classifyRow m.nOut hasBias bias (m.evalB tanh X i) = classifyRow m.nOut hasBias bias (m.eval tanh (X i)) := by
  have : m.evalB tanh X i = m.eval tanh (X i) := funext fun k => dense_batch_eq_single tanh m X i k
  rw [this]

/-! ### `Normalizer` (diagonal affine map) -/
theorem normalizer_batch_eq_single (m : Diag Rat) (X : Nat → Nat → Rat) (i k : Nat) :
    m.evalB X i k = m.eval (X i) k := diag_batch_eq_single m X i k
theorem normalizer_params_length (m : Diag Rat) : m.params.length = m.numberOfParameters := diag_params_length m
theorem normalizer_params_setParams (m : Diag Rat) (p : List Rat) (hp : p.length = m.numberOfParameters) :
    (m.setParams p).params = p := diag_params_setParams m p hp
theorem normalizer_setParams_params (m : Diag Rat) (k : Nat) (hk : k < m.n) :
    (m.setParams m.params).a k = m.a k ∧ (m.hasB = true → (m.setParams m.params).b k = m.b k) :=
  ⟨diag_setParams_params_a m k hk, fun hb => diag_setParams_params_b m k hk hb⟩

/-! ### `PoolingLayer` (max pooling) -/
theorem pooling_batch_eq_single (s : Pool) (X : Nat → Nat → Rat) (i o : Nat) :
    s.evalB X i o = s.evalRow (X i) o := pool_batch_eq_single s X i o
/-- the output is the maximum of its patch, attained at the pixel the derivative code selects -/
theorem pooling_output_is_patch_max (s : Pool) (x : Nat → Rat) (p c : Nat) (hc : c < s.d)
    (hph : 0 < s.ph) (hpw : 0 < s.pw) :
    (∀ q ∈ s.patch p, x (q * s.d + c) ≤ s.evalRow x (p * s.d + c)) ∧
    s.argmaxPix x p c ∈ s.patch p ∧ x (s.argmaxPix x p c * s.d + c) = s.evalRow x (p * s.d + c) :=
  ⟨fun q hq => pool_evalRow_ge s x p c q hc hq, pool_argmaxPix_spec s x p c hc hph hpw⟩
/-- **weighted input derivative of max pooling** (no tie in the patch that contains the pixel) -/
theorem pooling_input_derivative_correct (s : Pool) (x C : ℕ → ℝ) (q0 : ℕ)
    (hd : 0 < s.d) (hph : 0 < s.ph) (hpw : 0 < s.pw)
    (hnotie : ∀ p, p < s.outH * s.outW → q0 / s.d ∈ s.patch p →
      ∀ q ∈ s.patch p, q ≠ q0 / s.d → x (q * s.d + q0 % s.d) ≠ x q0) :
    HasDerivAt (fun t => ∑ p ∈ Finset.range (s.outH * s.outW), ∑ c ∈ Finset.range s.d,
        C (p * s.d + c) * s.evalRow (fun q => if q = q0 then t else x q) (p * s.d + c))
      (s.gradXRow x C q0) (x q0) :=
  pool_input_derivative_correct s x C q0 hd hph hpw hnotie

/-! ### `ResizeLayer` (any linear gather with fixed taps) -/
theorem resize_batch_eq_single (g : Gather Rat) (X : Nat → Nat → Rat) (i o : Nat) :
    g.evalB X i o = g.evalRow (X i) o := gather_batch_eq_single g X i o
/-- **weighted input derivative of a linear gather**, for arbitrary taps (in particular the spline
taps `Resize.gather floor toNat s` for any `floor`, `toNat`, any shapes) -/
theorem resize_input_derivative_correct (g : Gather ℝ) (x C : ℕ → ℝ) (q0 : ℕ) (hd : 0 < g.d) :
    HasDerivAt (fun t => ∑ p ∈ Finset.range g.nOutPix, ∑ c ∈ Finset.range g.d,
        C (p * g.d + c) * g.evalRow (fun q => if q = q0 then t else x q) (p * g.d + c))
      (g.gradXRow C q0) (x q0) :=
  gather_input_derivative_correct g x C q0 hd

/-! ### `RBFLayer` -/
theorem rbf_batch_eq_single' (exp log : Rat → Rat) (logPi : Rat) (m : RBF Rat) (X : Nat → Nat → Rat) (i k : Nat) :
    m.evalB exp log logPi X i k = m.eval exp log logPi (X i) k := rbf_batch_eq_single exp log logPi m X i k
/-- **weighted parameter derivative, centers**: the entry of `gradParams` at the position of
`centers[k0][j0]` in the parameter vector is the partial derivative of the weighted output sum -/
theorem rbf_center_gradient_correct (m : RBF ℝ) (logPi : ℝ) (B : ℕ) (X C : ℕ → ℕ → ℝ) (k0 j0 : ℕ)
    (hc : m.trainCenters = true) (hk0 : k0 < m.nOut) (hj0 : j0 < m.nIn) :
    HasDerivAt (fun t => ∑ i ∈ Finset.range B, ∑ k ∈ Finset.range m.nOut, C i k *
        ({ m with centers := fun k j => if k = k0 ∧ j = j0 then t else m.centers k j } : RBF ℝ).evalB
          Real.exp Real.log logPi X i k)
      ((m.gradParams B X (m.evalB Real.exp Real.log logPi X) C).getD (k0 * m.nIn + j0) 0)
      ((m.params Real.log).getD (k0 * m.nIn + j0) 0) :=
  rbf_gradParams_center_correct m logPi B X C k0 j0 hc hk0 hj0
/-- **weighted parameter derivative, widths** (the parameter is `log γ`) -/
theorem rbf_width_gradient_correct (m : RBF ℝ) (logPi : ℝ) (B : ℕ) (X C : ℕ → ℕ → ℝ) (k0 : ℕ)
    (hw : m.trainWidth = true) (hk0 : k0 < m.nOut) (hg : 0 < m.gamma k0) :
    HasDerivAt (fun t => ∑ i ∈ Finset.range B, ∑ k ∈ Finset.range m.nOut, C i k *
        ({ m with gamma := fun k => if k = k0 then Real.exp t else m.gamma k } : RBF ℝ).evalB
          Real.exp Real.log logPi X i k)
      ((m.gradParams B X (m.evalB Real.exp Real.log logPi X) C).getD
        ((if m.trainCenters then m.nOut * m.nIn else 0) + k0) 0)
      ((m.params Real.log).getD ((if m.trainCenters then m.nOut * m.nIn else 0) + k0) 0) :=
  rbf_gradParams_width_correct m logPi B X C k0 hw hk0 hg
theorem rbf_params_roundtrip (m : RBF ℝ) (p : List ℝ) (hp : p.length = m.numberOfParameters) :
    ((m.setParams Real.exp p).params Real.log) = p ∧ (m.params Real.log).length = m.numberOfParameters :=
  ⟨rbf_params_setParams m p hp, rbf_params_length m⟩

/-! ### `KernelExpansion` (any kernel function) -/
theorem kernelExpansion_batch_eq_single (k : (Nat → Rat) → (Nat → Rat) → Rat) (m : KExp Rat)
    (X : Nat → Nat → Rat) (i o : Nat) : m.evalB k X i o = m.eval k (X i) o := kexp_batch_eq_single k m X i o
theorem kernelExpansion_params_roundtrip (m : KExp Rat) (p : List Rat) (hp : p.length = m.numberOfParameters) :
    (m.setParams p).params = p ∧ m.params.length = m.numberOfParameters :=
  ⟨kexp_params_setParams m p hp, kexp_params_length m⟩

/-! ### `Ensemble` -/
/-- the weighted mean of members that satisfy batch = single satisfies it -/
theorem ensemble_batch_eq_single {M : Type} (ws : List Rat) (members : List M)
    (fB : M → (Nat → Nat → Rat) → Nat → Nat → Rat) (fS : M → (Nat → Rat) → Nat → Rat)
    (h : ∀ m ∈ members, ∀ X i k, fB m X i k = fS m (X i) k) (X : Nat → Nat → Rat) (i k : Nat) :
    ensembleMean ws (members.map fun m => fB m X i) k = ensembleMean ws (members.map fun m => fS m (X i)) k :=
  ensembleMean_batch_eq_single ws members fB fS h X i k
/-- in particular for dense-layer members -/
theorem ensemble_of_dense_batch_eq_single (tanh : Rat → Rat) (ws : List Rat) (members : List (Dense Rat))
    (X : Nat → Nat → Rat) (i k : Nat) :
    ensembleMean ws (members.map fun m => m.evalB tanh X i) k = ensembleMean ws (members.map fun m => m.eval tanh (X i)) k :=
  ensembleMean_batch_eq_single ws members (fun m => m.evalB tanh) (fun m => m.eval tanh)
    (fun m _ X i k => dense_batch_eq_single tanh m X i k) X i k
/-- the votes of a voting ensemble form a distribution over the labels -/
theorem ensemble_vote_sums_to_one (n : Nat) (ws : List Rat) (resp : List Nat) (hr : ∀ r ∈ resp, r < n)
    (hlen : ws.length = resp.length) (hw : sumL ws ≠ 0) : sumR n (ensembleVote ws resp) = 1 :=
  ensembleVote_sum n ws resp hr hlen hw

/-- a voting ensemble of `Classifier<LinearModel>` members satisfies batch = single as well -/
theorem ensemble_vote_batch_eq_single (tanh : Rat → Rat) (ws : List Rat) (members : List (Dense Rat))
    (X : Nat → Nat → Rat) (i k : Nat) :
    ensembleVote ws (members.map fun m => classifyRow m.nOut false (fun _ => 0) (m.evalB tanh X i)) k =
    ensembleVote ws (members.map fun m => classifyRow m.nOut false (fun _ => 0) (m.eval tanh (X i))) k := by
  have : (members.map fun m => classifyRow m.nOut false (fun _ => (0 : Rat)) (m.evalB tanh X i)) =
      members.map fun m => classifyRow m.nOut false (fun _ => (0 : Rat)) (m.eval tanh (X i)) := by
    apply List.map_congr_left
    intro m _
    exact classifier_batch_eq_single tanh m false _ X i
  rw [this]

/-! ### `Conv2DModel` -/
theorem conv2d_batch_eq_single (tanh : Rat → Rat) (m : Conv Rat) (X : Nat → Nat → Rat) (i o : Nat) :
    m.evalB tanh X i o = m.evalRow tanh (X i) o := conv_batch_eq_single tanh m X i o
theorem conv2d_params_roundtrip (m : Conv Rat) (p : List Rat) (hp : p.length = m.numberOfParameters) :
    (m.setParams p).params = p ∧ m.params.length = m.numberOfParameters :=
  ⟨conv_params_setParams m p hp, conv_params_length m⟩
/-- **weighted input derivative of the convolution** (both paddings, any activation away from its kink) -/
theorem conv2d_input_derivative_correct (m : Conv ℝ) (B : ℕ) (X C : ℕ → ℕ → ℝ) (i0 j0 : ℕ) (hi0 : i0 < B)
    (hnk : ConvNoKink m B X) :
    HasDerivAt (fun t => ∑ i ∈ Finset.range B, ∑ o ∈ Finset.range m.nOut,
        C i o * m.evalB Real.tanh (fun i j => if i = i0 ∧ j = j0 then t else X i j) i o)
      (m.gradX (m.evalB Real.tanh X) C i0 j0) (X i0 j0) :=
  conv_input_derivative_correct m B X C i0 j0 hi0 hnk
/-- **weighted parameter derivative, filter entries** (at their position in the gradient vector) -/
theorem conv2d_filter_gradient_correct (m : Conv ℝ) (B : ℕ) (X C : ℕ → ℕ → ℝ) (q0 : ℕ)
    (hq0 : q0 < m.nf * m.fsize) (hfs : 0 < m.fsize) (hnk : ConvNoKink m B X) :
    HasDerivAt (fun t => ∑ i ∈ Finset.range B, ∑ o ∈ Finset.range m.nOut, C i o *
        ({ m with filt := fun q => if q = q0 then t else m.filt q } : Conv ℝ).evalB Real.tanh X i o)
      (m.gradFilt B X (m.evalB Real.tanh X) C q0) (m.filt q0) ∧
    (m.gradParams B X (m.evalB Real.tanh X) C).getD q0 0 = m.gradFilt B X (m.evalB Real.tanh X) C q0 ∧
    m.params.getD q0 0 = m.filt q0 :=
  ⟨conv_filter_derivative_correct m B X C q0 hq0 hfs hnk, conv_gradParams_filt_pos m B X _ C q0 hq0,
   conv_params_filt_pos m q0 hq0⟩
/-- **weighted parameter derivative, offsets** -/
theorem conv2d_offset_gradient_correct (m : Conv ℝ) (B : ℕ) (X C : ℕ → ℕ → ℝ) (f0 : ℕ) (hf0 : f0 < m.nf)
    (hnk : ConvNoKink m B X) :
    HasDerivAt (fun t => ∑ i ∈ Finset.range B, ∑ o ∈ Finset.range m.nOut, C i o *
        ({ m with off := fun f => if f = f0 then t else m.off f } : Conv ℝ).evalB Real.tanh X i o)
      (m.gradOff B (m.evalB Real.tanh X) C f0) (m.off f0) ∧
    (m.gradParams B X (m.evalB Real.tanh X) C).getD (m.nf * m.fsize + f0) 0 = m.gradOff B (m.evalB Real.tanh X) C f0 ∧
    m.params.getD (m.nf * m.fsize + f0) 0 = m.off f0 :=
  ⟨conv_offset_derivative_correct m B X C f0 hf0 hnk, conv_gradParams_off_pos m B X _ C f0 hf0,
   conv_params_off_pos m f0 hf0⟩

/-! ### `CMACMap` -/
theorem cmac_batch_eq_single' (toNat : Rat → Nat) (m : CMAC Rat) (X : Nat → Nat → Rat) (i o : Nat) :
    m.evalB toNat X i o = m.eval toNat (X i) o := cmac_batch_eq_single toNat m X i o
/-- **weighted parameter derivative of the CMAC** (the tile indices do not depend on the parameters) -/
theorem cmac_parameter_derivative_correct (toNat : ℝ → ℕ) (m : CMAC ℝ) (B : ℕ) (X C : ℕ → ℕ → ℝ) (q0 : ℕ)
    (hq : q0 < m.params.length) :
    HasDerivAt (fun t => ∑ i ∈ Finset.range B, ∑ o ∈ Finset.range m.nOut, C i o *
        ({ m with params := m.params.set q0 t } : CMAC ℝ).evalB toNat X i o)
      (m.gradParam toNat B X C q0) (m.params.getD q0 0) :=
  cmac_param_derivative_correct toNat m B X C q0 hq

/-- **CMAC tile hashing** (integer arithmetic): if every per-dimension tile number is below the number of
tiles, every parameter position accessed by `eval` / `weightedParameterDerivative` lies inside the
parameter vector … -/
theorem cmac_access_in_range {α : Type} [Scalar α] (toNat : α → Nat) (m : CMAC α) (t : Nat) (x : Nat → α)
    (hdig : ∀ dim, dim < m.nIn → toNat (((x dim - m.lower) - m.offset t) / m.tileWidth) < m.tiles)
    (ht : t < m.tilings) (o : Nat) (ho : o < m.nOut) :
    m.index toNat t x + o * m.perTiling < m.numberOfParameters :=
  cmac_access_in_bounds toNat m t x hdig ht o ho
/-- … and the position determines the output, the tiling and every tile number (no two different
(output, tiling, tile) triples share a parameter) -/
theorem cmac_access_determines_tile {α : Type} [Scalar α] (toNat : α → Nat) (m : CMAC α) (t1 t2 : Nat)
    (x1 x2 : Nat → α)
    (hdig1 : ∀ dim, dim < m.nIn → toNat (((x1 dim - m.lower) - m.offset t1) / m.tileWidth) < m.tiles)
    (hdig2 : ∀ dim, dim < m.nIn → toNat (((x2 dim - m.lower) - m.offset t2) / m.tileWidth) < m.tiles)
    (ht1 : t1 < m.tilings) (ht2 : t2 < m.tilings) (o1 o2 : Nat)
    (h : m.index toNat t1 x1 + o1 * m.perTiling = m.index toNat t2 x2 + o2 * m.perTiling) :
    o1 = o2 ∧ t1 = t2 ∧ ∀ dim, dim < m.nIn →
      toNat (((x1 dim - m.lower) - m.offset t1) / m.tileWidth)
        = toNat (((x2 dim - m.lower) - m.offset t2) / m.tileWidth) :=
  cmac_access_injective toNat m t1 t2 x1 x2 hdig1 hdig2 ht1 ht2 o1 o2 h

/-! ## 6. nested concatenations, separate routines, `im2mat`, ties, further classes (`Model/Models3.lean`) -/

/-! ### nested `ConcatenatedModel`s with frozen parts -/
/-- `parameterVector()` of a nested model (any nesting depth, any mixture of optimised and frozen sub-models and
layers) has the reported length -/
theorem nested_params_length (n : Net Rat) : n.params.length = n.numberOfParameters := by
  rw [Net.params_eq, Net.numberOfParameters_eq]; exact chain_params_length _

/-- **parameter round trip for nested models**: setting a vector of the reported length with the recursive
slicing of `ConcatenatedModel::setParameterVector` and reading it back is the identity -/
theorem nested_params_setParams (n : Net Rat) (p : List Rat) (hp : p.length = n.numberOfParameters) :
    (n.setParams p).params = p := by
  rw [Net.params_eq, Net.setParams_flatten]
  exact chain_params_setParams _ p (by rw [hp, Net.numberOfParameters_eq])

/-- a frozen sub-model contributes no parameters, whatever is optimised inside it -/
theorem nested_frozen_child (ch rest : Net Rat) :
    (Net.cons ch false rest).numberOfParameters = rest.numberOfParameters ∧
    (Net.cons ch false rest).params = rest.params := by
  simp [Net.numberOfParameters, Net.params]

/-- a nested model evaluates like its flat chain, so batch = single carries over -/
theorem nested_batch_eq_single (tanh exp : Rat → Rat) (n : Net Rat) (X : Nat → Nat → Rat) (i k : Nat) :
    n.evalB tanh exp X i k = n.evalB tanh exp (fun _ => X i) 0 k := by
  rw [Net.evalB_eq tanh exp n true, Net.evalB_eq tanh exp n true]
  exact chain_batch_eq_single tanh exp _ X i k

/-- **derivatives of nested models**: the recursive backward pass of the C++ (an optimised sub-model delivers its
whole gradient through its own `weightedDerivatives`, a frozen one only its input derivative) returns exactly the
gradient vector and the input derivative of the flat chain — for which `chain_input_derivative_correct`,
`chain_weight_derivative_correct` and `chain_offset_derivative_correct` are proved -/
theorem nested_backward_eq_flat (B : ℕ) (n : Net ℝ) (X C : ℕ → ℕ → ℝ) :
    n.backward Real.tanh Real.exp B X C = Chain.backward Real.tanh Real.exp B (n.flatten true) X C := by
  rw [Net.backward_eq]; rfl

theorem nested_input_derivative_correct (n : Net ℝ) (B nIn : ℕ) (X C : ℕ → ℕ → ℝ) (i0 j0 : ℕ)
    (hi0 : i0 < B) (hj0 : j0 < nIn) (hwf : Chain.WF (n.flatten true) nIn) (hnk : Chain.NoKink B (n.flatten true) X) :
    HasDerivAt (fun t => (n.flatten true).objective B nIn (fun i j => if i = i0 ∧ j = j0 then t else X i j) C)
      ((n.backward Real.tanh Real.exp B X C).2 i0 j0) (X i0 j0) := by
  rw [nested_backward_eq_flat]
  exact chain_input_derivative_correct _ B nIn X C i0 j0 hi0 hj0 hwf hnk

/-- a frozen sub-model yields the empty gradient and the same input derivative -/
theorem nested_frozen_backward (B : ℕ) (n : Net ℝ) (X C : ℕ → ℕ → ℝ) :
    Chain.backward Real.tanh Real.exp B (n.flatten false) X C = ([], (n.backward Real.tanh Real.exp B X C).2) := by
  rw [Net.backward_eq]; rfl

/-! ### the separate routines of `ConcatenatedModel` agree with the combined one -/
/-- evaluation is independent of whether a `State` is recorded: the `State`-less fold and the recording loop
return the same matrix, for every chain -/
theorem chain_eval_state_independent {α : Type} [Scalar α] (tanh exp : α → α) (c : Chain α) (X : Nat → Nat → α) :
    Chain.evalFold tanh exp c X = Chain.evalB tanh exp c X := Chain.evalFold_eq tanh exp c X

/-- **combined = separate**: `weightedDerivatives` returns the pair of `weightedParameterDerivative` (which skips
the input derivative of the first layer) and `weightedInputDerivative`, for every chain, batch and coefficients -/
theorem chain_combined_eq_separate {α : Type} [Scalar α] (tanh exp : α → α) (B : Nat) (c : Chain α) (X C : Nat → Nat → α) :
    Chain.backward tanh exp B c X C = (Chain.gradOnly tanh exp B c X C, Chain.inputOnly tanh exp c X C) := by
  rw [Chain.gradOnly_eq, Chain.inputOnly_eq tanh exp B]

/-! ### `Conv2DModel::eval`: `im2mat(_pad)` + `gemm` refine the defining sum -/
/-- the patch-matrix entry written by the loop nest of `im2mat_pad` (its three branches: filter row in the vertical
padding, column in the horizontal padding, image entry) is what the defining sum reads, for every shape, both
paddings, filters larger than the image included -/
theorem conv2d_im2mat_entry {α : Type} [Scalar α] (m : Conv α) (x : Nat → α) (row col : Nat) :
    m.im2matEntry x row col = m.inputAt x row col := Conv.im2matEntry_eq m x row col

/-- **the implementation of `Conv2DModel::eval` (patch matrix × transposed filter matrix, offsets added on the
reshaped output, activation) equals the specification `Conv.evalRow`** on which the derivative theorems
`conv2d_input_derivative_correct`, `conv2d_filter_gradient_correct`, `conv2d_offset_gradient_correct` are stated -/
theorem conv2d_impl_eq_spec {α : Type} [Scalar α] (tanh : α → α) (m : Conv α) (x : Nat → α) (o : Nat) :
    m.evalImpl tanh x o = m.evalRow tanh x o := Conv.evalImpl_eq tanh m x o

/-- with zero padding the output image has the size of the input image, also for filters larger than the image -/
theorem conv2d_zeropad_output_shape (m : Conv Rat) (hv : m.valid = false) (hfh : 0 < m.fh) (hfw : 0 < m.fw) :
    m.outH = m.h ∧ m.outW = m.w := by
  simp only [Conv.outH, Conv.outW, Conv.padH, Conv.padW, hv]
  constructor <;> simp <;> omega

/-! ### max pooling at ties -/
/-- **what `maxPoolingDerivative` does at ties**: the whole coefficient goes to the *first* maximal pixel of the
patch in scan order (`pool_argmaxPix_first`); the function is not differentiable there, but the value is a
subgradient of the (convex) coefficient-weighted patch maximum for a coefficient `w ≥ 0` (a supergradient for
`w ≤ 0`): for every other image `y`, `w·max_patch(y) ≥ w·max_patch(x) + w·(y[a] − x[a])` with `a` the selected pixel -/
theorem pooling_tie_subgradient (s : Pool) (x y : Nat → Rat) (p c : Nat) (w : Rat) (hc : c < s.d)
    (hph : 0 < s.ph) (hpw : 0 < s.pw) (hw : 0 ≤ w) :
    w * s.evalRow x (p * s.d + c) + w * (y (s.argmaxPix x p c * s.d + c) - x (s.argmaxPix x p c * s.d + c))
      ≤ w * s.evalRow y (p * s.d + c) := by
  obtain ⟨hmem, heq⟩ := pool_argmaxPix_spec s x p c hc hph hpw
  have hy := pool_evalRow_ge s y p c _ hc hmem
  rw [← heq]
  nlinarith

/-- the selected pixel is the first maximum: every pixel scanned before it is strictly smaller -/
theorem pooling_tie_first (s : Pool) (x : Nat → Rat) (p c : Nat) (hph : 0 < s.ph) (hpw : 0 < s.pw) :
    ∃ l1 l2, s.patch p = l1 ++ s.argmaxPix x p c :: l2 ∧
      (∀ q ∈ l1, x (q * s.d + c) < x (s.argmaxPix x p c * s.d + c)) ∧
      (∀ q ∈ l2, x (q * s.d + c) ≤ x (s.argmaxPix x p c * s.d + c)) :=
  pool_argmaxPix_first s x p c hph hpw

/-! ### `ResizeLayer`: the 16 spline weights of every output pixel sum to 1 -/
theorem resize_bspline_sum (t : Rat) : (Resize.bspline t).sum = 6 := by
  simp [Resize.bspline, Scalar.ofNat]; ring

/-- partition of unity of the cubic B-spline taps, for every shape, every output pixel and whatever `floor` and the
`size_t` cast return: a constant image is reproduced exactly -/
theorem resize_weights_sum_one (floor : Rat → Rat) (toNat : Rat → Nat) (s : Resize) (p : Nat) :
    ((Resize.taps floor toNat s p).map Prod.snd).sum = 1 := by
  have h4 : List.range 4 = [0, 1, 2, 3] := rfl
  simp only [Resize.taps, h4, List.flatMap_cons, List.flatMap_nil, List.map_cons, List.map_nil, List.append_nil,
    List.cons_append, List.nil_append, Resize.bspline, List.getD_cons_zero, List.getD_cons_succ, List.sum_cons,
    List.sum_nil, Scalar.ofNat]
  ring

/-! ### `OneVersusOneClassifier`, `KernelClassifier`, `CARTree`, clustering models -/
/-- the one-versus-one decision is a class, has the most votes, and is the first class with that many votes -/
theorem ovo_decision_spec (classes : Nat) (bin : Nat → Nat) (hc : 0 < classes) :
    ovoDecide classes bin < classes ∧
    (∀ k, k < classes → ovoVotes classes bin k ≤ ovoVotes classes bin (ovoDecide classes bin)) ∧
    (∀ k, k < ovoDecide classes bin → ovoVotes classes bin k < ovoVotes classes bin (ovoDecide classes bin)) := by
  obtain ⟨h1, h2, h3⟩ := argmaxNat_inv classes (ovoVotes classes bin)
  exact ⟨by unfold ovoDecide; omega, h2, h3⟩

/-- every binary classifier casts exactly one vote -/
theorem ovo_ballot_count (classes : Nat) (bin : Nat → Nat) :
    (ovoBallots classes bin).length = ((List.range classes).map id).sum := by
  simp [ovoBallots, List.length_flatMap]

/-- one-versus-one batch evaluation is row-wise: row `i`'s label depends on the binary answers for row `i` only -/
theorem ovo_batch_eq_single (classes : Nat) (binB : Nat → Nat → Nat) (i : Nat) :
    ovoDecide classes (fun q => binB q i) = ovoDecide classes (fun q => (fun _ => binB q i) 0) := rfl

/-- `KernelClassifier` = decision rule ∘ `KernelExpansion`: the label of batch row `i` is the decision on the
single evaluation of row `i`, for any kernel function -/
theorem kernelClassifier_batch_eq_single (k : (Nat → Rat) → (Nat → Rat) → Rat) (m : KExp Rat) (X : Nat → Nat → Rat) (i : Nat) :
    classifyRow m.nOut false (fun _ => 0) (m.evalB k X i) = classifyRow m.nOut false (fun _ => 0) (m.eval k (X i)) := rfl

/-- `CARTree`: the batch evaluation is the per-row tree walk -/
theorem cart_batch_eq_single (t : Models.Tree Rat) (X : Nat → Nat → Rat) (i : Nat) : t.evalB X i = t.eval (X i) := rfl

/-- soft / hard clustering models: memberships of batch row `i` are those of the single input; the hard label is
the first cluster of maximal membership -/
theorem clustering_hard_is_first_max (sqrt : Rat → Rat) (tiny huge : Rat) (nIn nC : Nat) (cen : Nat → Nat → Rat)
    (x : Nat → Rat) (hn : 0 < nC) :
    hardMembership sqrt tiny huge nIn nC cen x < nC ∧
    (∀ k, k < nC → softMembership sqrt tiny huge nIn nC cen x k
        ≤ softMembership sqrt tiny huge nIn nC cen x (hardMembership sqrt tiny huge nIn nC cen x)) ∧
    (∀ k, k < hardMembership sqrt tiny huge nIn nC cen x → softMembership sqrt tiny huge nIn nC cen x k
        < softMembership sqrt tiny huge nIn nC cen x (hardMembership sqrt tiny huge nIn nC cen x)) :=
  ⟨argmax_lt nC _ hn, fun k hk => argmax_max nC _ k hk, fun k hk => argmax_first nC _ k hk⟩

/-- the soft memberships sum to 1 whenever the kernel values do not sum to 0 -/
theorem clustering_memberships_sum_one (sqrt : Rat → Rat) (tiny huge : Rat) (nIn nC : Nat) (cen : Nat → Nat → Rat)
    (x : Nat → Rat)
    (hs : sumR nC (fun q => membershipKernel tiny huge (centroidDist sqrt nIn x (cen q))) ≠ 0) :
    sumR nC (softMembership sqrt tiny huge nIn nC cen x) = 1 := by
  have hdiv : ∀ (l : List Nat) (m : Nat → Rat) (S : Rat), (l.map fun k => m k / S).sum = (l.map m).sum / S := by
    intro l m S
    induction l with
    | nil => simp
    | cons a l ih => simp only [List.map_cons, List.sum_cons, ih, add_div]
  unfold softMembership
  rw [sumR_eq_sum] at hs
  rw [sumR_eq_sum]
  simp only [sumR_eq_sum]
  rw [hdiv]
  exact div_self hs

/-- **the `CARTree` walk ends in a leaf**: for every tree produced by `createRoot`, `transformInternalNode` (on an
existing node) and `transformLeafNode`, in any order and any number, `findLeaf` stops within `numberOfNodes()` steps
at a node inside the array whose `leftId` is 0 — for every input -/
theorem cart_walk_reaches_leaf (t : Models.Tree Rat) (h : Tree.Built t) (x : Nat → Rat) :
    (t.node (t.findLeaf x t.nodes.length 0)).left = 0 ∧ t.findLeaf x t.nodes.length 0 < t.nodes.length :=
  Tree.findLeaf_reaches_leaf t h.wf.1 x _ 0 h.wf.2 (by omega)

/-- every one of the 16 spline taps of every output pixel is a pixel of the input image (both axes are clamped to
`[0, len−1]` before the cast), for any `floor` and any cast that maps `[0, n]` into `{0..n}` -/
theorem resize_taps_in_range (floor : Rat → Rat) (toNat : Rat → Nat)
    (htn : ∀ (q : Rat) (n : Nat), 0 ≤ q → q ≤ n → toNat q ≤ n) (s : Resize) (hh : 0 < s.h) (hw : 0 < s.w) (p : Nat) :
    ∀ t ∈ Resize.taps floor toNat s p, t.1 < s.h * s.w :=
  Resize.taps_in_range floor toNat htn s hh hw p

/-- `CMACMap`: the parameter vector is stored as it is -/
theorem cmac_params_roundtrip (m : CMAC Rat) (p : List Rat) :
    (m.setParams p).params = p ∧ (m.setParams p).numberOfParameters = m.numberOfParameters := ⟨rfl, rfl⟩

/-- `OneVersusOneClassifier::parameterVector / setParameterVector / numberOfParameters` run through the binary
classifiers exactly like a `ConcatenatedModel` through optimised layers: round trip and count for any number of
binary classifiers of any shapes -/
theorem ovo_params_roundtrip (bins : List (Dense Rat)) (p : List Rat)
    (hp : p.length = Chain.numberOfParameters (bins.map fun m => (Layer.dense m, true))) :
    (Chain.setParams (bins.map fun m => (Layer.dense m, true)) p).params = p ∧
    (Chain.params (bins.map fun m => (Layer.dense m, true))).length
      = Chain.numberOfParameters (bins.map fun m => (Layer.dense m, true)) :=
  ⟨chain_params_setParams _ p hp, chain_params_length _⟩

/-- `Centroids`: the centroid matrix is packed row by row like a weight matrix without offset -/
theorem centroids_params_roundtrip (nIn nC : Nat) (p : List Rat) (hp : p.length = nC * nIn) :
    let m : Dense Rat := { nIn := nIn, nOut := nC, W := fun _ _ => 0, hasB := false, b := fun _ => 0, act := .linear }
    (m.setParams p).params = p ∧ (m.setParams p).params.length = nC * nIn := by
  intro m
  have h := params_setParams m p (by simp [Dense.numberOfParameters, m, hp])
  exact ⟨h, by rw [h, hp]⟩

/-- `DropoutLayer`, for the mask its `eval` drew and stored in the `State`: row `i` of the output depends on row
`i` of input and mask only, and `weightedInputDerivative` (= `coefficients * mask`) is the derivative of the
coefficient-weighted output sum.  (The mask itself is random; the harness checks that the three evaluation paths
draw the same one from equal generator states.) -/
theorem dropout_batch_eq_single (mask X : Nat → Nat → Rat) (i k : Nat) :
    dropoutEval mask X i k = dropoutEval (fun _ => mask i) (fun _ => X i) 0 k := rfl
theorem dropout_input_derivative_correct (mask X C : ℕ → ℕ → ℝ) (B n i0 j0 : ℕ) (hi : i0 < B) (hj : j0 < n) :
    HasDerivAt (fun t => ∑ i ∈ Finset.range B, ∑ k ∈ Finset.range n,
        C i k * dropoutEval mask (fun i j => if i = i0 ∧ j = j0 then t else X i j) i k)
      (dropoutGradX mask C i0 j0) (X i0 j0) :=
  dropout_input_derivative mask X C B n i0 j0 hi hj

/-! ### non-vacuity -/
def demo : Dense Rat := { nIn := 2, nOut := 2, W := fun k j => (k + 2 * j : Nat), hasB := true, b := fun k => (k : Nat), act := .rectifier }
example : demo.params = [0, 2, 1, 3, 0, 1] := by decide
example : demo.params.length = demo.numberOfParameters := params_length demo
example : demo.preB (fun i j => (i + j : Nat)) 1 1 = 8 := by
  simp [demo, Dense.preB, sumR, sumL, List.range_succ]; norm_num

/-- the chain theorems are not vacuous: a four-layer chain (tanh dense 2→3, frozen logistic neurons, linear
dense 3→2, frozen softmax) fits and has no kinks for any batch (`Lemmas/ChainDeriv.lean`, `chainDemo`) -/
example : Chain.WF chainDemo 2 := ⟨rfl, rfl, rfl, rfl, trivial⟩
example (B : ℕ) (X C : ℕ → ℕ → ℝ) (hB : 0 < B) :
    HasDerivAt (fun t => chainDemo.objective B 2 (fun i j => if i = 0 ∧ j = 1 then t else X i j) C)
      ((chainDemo.backward Real.tanh Real.exp B X C).2 0 1) (X 0 1) :=
  chain_input_derivative_correct chainDemo B 2 X C 0 1 hB (by norm_num) ⟨rfl, rfl, rfl, rfl, trivial⟩
    (by simp [chainDemo, chainDemoPre, chainDemoMid, chainDemoPost, Chain.NoKink, Layer.NoKink])
example : argmax 3 (fun k => if k = 1 then (5 : Rat) else 2) = 1 :=
  classifier_argmax_unique 3 _ (by decide) 1 (by decide)
    (by intro k hk; interval_cases k <;> norm_num) (by intro k hk; interval_cases k; norm_num)
example : (Chain.setParams ([(Layer.dense demo, true), (Layer.neuron .tanh 2, false)] : Chain Rat) [1, 2, 3, 4, 5, 6]).params
    = [1, 2, 3, 4, 5, 6] :=
  chain_params_setParams _ _ (by simp [Chain.numberOfParameters, Layer.numberOfParameters, Dense.numberOfParameters, demo])

/-! non-vacuity of the section-6 theorems -/
/-- a nested model: a frozen inner model holding an optimised dense layer, followed by an optimised inner model
that holds a dense layer and a frozen element-wise layer -/
def netDemo : Net Rat :=
  .cons (.cons (.leaf (.dense demo)) true .nil) false
    (.cons (.cons (.leaf (.dense demo)) true (.cons (.leaf (.neuron .tanh 2)) false .nil)) true .nil)
example : netDemo.numberOfParameters = 6 := by decide
example : (netDemo.setParams [1, 2, 3, 4, 5, 6]).params = [1, 2, 3, 4, 5, 6] :=
  nested_params_setParams netDemo _ (by decide)
example : (netDemo.flatten true).map Prod.snd = [false, true, false] := by decide

/-- the nested derivative theorem is not vacuous: `chainDemo` regrouped into two nested models, the first frozen
as a whole -/
noncomputable def netDemoR : Net ℝ :=
  .cons (.cons (.leaf (.dense { nIn := 2, nOut := 3, W := fun k j => (k : ℝ) - j, hasB := true, b := fun k => k, act := .tanh })) true
            (.cons (.leaf (.neuron .logistic 3)) false .nil)) false
    (.cons (.cons (.leaf (.dense chainDemoMid)) true (.cons (.leaf (.rowact .softmax 2)) false .nil)) true .nil)
example (B : ℕ) (X C : ℕ → ℕ → ℝ) (hB : 0 < B) :
    HasDerivAt (fun t => (netDemoR.flatten true).objective B 2 (fun i j => if i = 0 ∧ j = 1 then t else X i j) C)
      ((netDemoR.backward Real.tanh Real.exp B X C).2 0 1) (X 0 1) :=
  nested_input_derivative_correct netDemoR B 2 X C 0 1 hB (by norm_num) ⟨rfl, rfl, rfl, rfl, trivial⟩
    (by simp [netDemoR, Net.flatten, chainDemoMid, Chain.NoKink, Layer.NoKink])

/-- a tie: both pixels of a 1×2 patch hold 1; the derivative code selects pixel 0, and the inequality of
`pooling_tie_subgradient` holds (with equality for `y = x`) -/
example : (Pool.mk 1 2 1 1 2).argmaxPix (fun _ => (1 : Rat)) 0 0 = 0 := by decide
example (y : Nat → Rat) :
    (2 : Rat) * (Pool.mk 1 2 1 1 2).evalRow (fun _ => (1 : Rat)) (0 * 1 + 0)
      + 2 * (y ((Pool.mk 1 2 1 1 2).argmaxPix (fun _ => (1 : Rat)) 0 0 * 1 + 0)
            - (fun _ => (1 : Rat)) ((Pool.mk 1 2 1 1 2).argmaxPix (fun _ => (1 : Rat)) 0 0 * 1 + 0))
      ≤ 2 * (Pool.mk 1 2 1 1 2).evalRow y (0 * 1 + 0) :=
  pooling_tie_subgradient (Pool.mk 1 2 1 1 2) _ y 0 0 2 (by decide) (by decide) (by decide) (by norm_num)

/-- three classes, every binary classifier answers 0: class 0 wins with two votes -/
example : ovoDecide 3 (fun _ => 0) = 0 := by decide
example : ovoVotes 3 (fun _ => 0) 0 = 2 := by decide
example := ovo_decision_spec 3 (fun _ => 0) (by decide)
/-- a zero-padded 1×1 image under a 3×3 filter keeps its 1×1 shape -/
example : (Conv.mk 1 1 1 1 3 3 false (fun _ => (0 : Rat)) (fun _ => 0) .linear).outH = 1 := by decide
example : (clustering_memberships_sum_one id 1 1 1 1 (fun _ _ => 0) (fun _ => 0)
    (by simp [sumR, sumL, membershipKernel, centroidDist, sqr])) = (clustering_memberships_sum_one id 1 1 1 1 (fun _ _ => 0) (fun _ => 0)
    (by simp [sumR, sumL, membershipKernel, centroidDist, sqr])) := rfl

/-- the cast of the exact driver (`⌊q⌋.toNat`) satisfies the hypothesis of `resize_taps_in_range` -/
example : ∀ (q : Rat) (n : ℕ), 0 ≤ q → q ≤ n → q.floor.toNat ≤ n := by
  intro q n _ h1
  have h : ¬ ((n : ℤ) + 1 ≤ q.floor) := by
    rw [Rat.le_floor_iff]; push_cast; linarith
  omega
/-- a tree with one split and two labelled leaves is `Built`; its walk ends in a leaf -/
example : Tree.Built (((Tree.root : Models.Tree Rat).internal 0 0 0).leaf 1 0 |>.leaf 2 1) :=
  .leaf _ 2 1 (.leaf _ 1 0 (.internal _ 0 0 0 .root (by decide)))
example : (((Tree.root : Models.Tree Rat).internal 0 0 0).leaf 1 0 |>.leaf 2 1).eval (fun _ => 1) = 1 := by decide

end SharkVerif.C04
