/-
C11 — Evolution strategies keep a valid search distribution and are rank-invariant.

Property theorems about the model `Model/CMA.lean` of `src/Algorithms/DirectSearch/CMA.cpp`
(tied to the real code by `checks/c11.py`: the `doInit` coefficients are compared bit for bit,
`updatePopulation` by one-step refinement on the real run's own offspring; the other methods
— CMSA, ElitistCMA, VD-CMA, cross-entropy method, simplex downhill — are covered by the harness
oracle only).

Exact arithmetic over `Rat` with `exp`, `sqrt`, `log`, `pow` as parameters constrained by the
hypotheses written in each statement; the covariance theorem is over `ℝ` with Mathlib's
`Matrix.PosSemidef` / `PosDef`.
-/
import SharkVerif.Model.CMA
import SharkVerif.Model.ES
import Mathlib.Tactic.Linarith
import Mathlib.Tactic.Positivity
import Mathlib.Tactic.FieldSimp
import Mathlib.Tactic.Ring
import Mathlib.LinearAlgebra.Matrix.PosDef
import Mathlib.Analysis.SpecialFunctions.Exp
import Mathlib.Algebra.Order.Star.Real
import SharkVerif.Lemmas.ES
import SharkVerif.Lemmas.CMACov
namespace SharkVerif.C11
open SharkVerif.Opt SharkVerif.Opt.CMA SharkVerif.Opt.ES

/-! ## rank invariance -/

section rank
variable {α : Type} [Scalar α]

/-- relabel the fitness of an individual -/
def relabel (φ : α → α) (i : Indiv α) : Indiv α := { i with fitness := φ i.fitness }

/-- `φ` preserves the only thing selection looks at: the outcome of `a ≤ b` -/
def OrderPreserving (φ : α → α) : Prop := ∀ a b : α, decide (a ≤ b) = decide (φ a ≤ φ b)

/-- key lemma (`sort_by f = sort_by (φ∘f)` for the stable merge sort): selection on relabelled
fitness values selects the same individuals in the same order -/
theorem select_relabel (φ : α → α) (hφ : OrderPreserving φ) (off : List (Indiv α)) (mu : Nat) :
    select (off.map (relabel φ)) mu = (select off mu).map (relabel φ) := by
  unfold select
  rw [List.map_take]
  congr 1
  symm
  apply List.map_mergeSort
  intro a _ b _
  exact hφ a.fitness b.fitness

theorem update_relabel (F : Fns α) (c : Coeffs α) (n : Nat) (d : CMA.Dist α) (sel : List (Indiv α)) (B : Mat α)
    (φ : α → α) : update F c n d (sel.map (relabel φ)) B = update F c n d sel B := by
  unfold update
  simp only [List.map_map]
  have h1 : ((fun i : Indiv α => i.chrom) ∘ relabel φ) = fun i => i.chrom := rfl
  have h2 : ((fun i : Indiv α => i.point) ∘ relabel φ) = fun i => i.point := rfl
  simp only [h1, h2]

/-- the two runs are in the same state up to the reported value, which is relabelled -/
def Related (φ : α → α) (s s' : State α) : Prop :=
  s'.dist = s.dist ∧ s'.bestPoint = s.bestPoint ∧ s'.bestValue = φ s.bestValue

theorem offspring_relabel (W : World α) (fit : Vec α → α) (φ : α → α) (s : State α) :
    offspring W (φ ∘ fit) s = (offspring W fit s).map (relabel φ) := by
  simp [offspring, List.map_map, relabel, Function.comp_def]

theorem finish_related (F : Fns α) (W : World α) (c : Coeffs α) (n : Nat) (φ : α → α)
    (s s' : State α) (h : Related φ s s') (sel : List (Indiv α)) :
    Related φ (finish F W c n s sel) (finish F W c n s' (sel.map (relabel φ))) := by
  obtain ⟨hd, hp, hv⟩ := h
  unfold finish
  rw [hd, update_relabel]
  cases sel with
  | nil => exact ⟨rfl, hp, hv⟩
  | cons b bs => exact ⟨rfl, rfl, rfl⟩

theorem step_related (F : Fns α) (W : World α) (c : Coeffs α) (n mu : Nat) (fit : Vec α → α)
    (φ : α → α) (hφ : OrderPreserving φ) (s s' : State α) (h : Related φ s s') :
    Related φ (step F W c n mu fit s) (step F W c n mu (φ ∘ fit) s') := by
  unfold step
  have hoff : offspring W (φ ∘ fit) s' = (offspring W fit s).map (relabel φ) := by
    rw [offspring_relabel]; unfold offspring; rw [h.1]
  rw [hoff, select_relabel φ hφ]
  exact finish_related F W c n φ s s' h _

/-- **rank_invariance.**  Fitness enters a CMA-ES run only through comparisons: for every
order-preserving `φ` (in particular every strictly increasing one), the run on `φ ∘ f` with the same
variate stream (same `World`) has, after every number of generations, the same search distribution
(σ, mean, evolution paths, covariance), and reports the same point, with value `φ(value)`. -/
theorem rank_invariance (F : Fns α) (W : World α) (c : Coeffs α) (n mu : Nat) (fit : Vec α → α)
    (φ : α → α) (hφ : OrderPreserving φ) (s s' : State α) (h : Related φ s s') (t : Nat) :
    Related φ (run F W c n mu fit s t) (run F W c n mu (φ ∘ fit) s' t) := by
  induction t with
  | zero => exact h
  | succ t ih => exact step_related F W c n mu fit φ hφ _ _ ih

/-- **deterministic.**  A run is a function of (variate stream, objective, initial state): two runs
with equal inputs are equal. (Definitional for a pure model; what the harness checks on the real code
is that nothing *else* — uninitialised memory, a hidden global — enters.) -/
theorem deterministic (F : Fns α) (W W' : World α) (c : Coeffs α) (n mu : Nat) (fit fit' : Vec α → α)
    (s s' : State α) (hW : W = W') (hf : fit = fit') (hs : s = s') (t : Nat) :
    run F W c n mu fit s t = run F W' c n mu fit' s' t := by subst hW hf hs; rfl

/-- **reported_value_is_f.**  After every generation that selected at least one individual, the
reported value is the fitness function evaluated at the reported point (`fit` is the objective at the
closest feasible point, `PenalizingEvaluator`'s `unpenalizedFitness`). -/
theorem reported_value_is_f (F : Fns α) (W : World α) (c : Coeffs α) (n mu : Nat) (fit : Vec α → α)
    (s : State α) (h : s.bestValue = fit s.bestPoint) :
    (step F W c n mu fit s).bestValue = fit (step F W c n mu fit s).bestPoint := by
  unfold step finish
  simp only
  split
  · exact h
  · next b bs hsel =>
    -- the selected individuals are among the evaluated offspring, whose fitness is `fit point`
    have hmem : b ∈ select (offspring W fit s) mu := by rw [hsel]; simp
    unfold select at hmem
    have := List.mem_of_mem_take hmem
    rw [List.mem_mergeSort] at this
    unfold offspring at this
    obtain ⟨pz, _, rfl⟩ := List.mem_map.mp this
    rfl

theorem reported_value_is_f_run (F : Fns α) (W : World α) (c : Coeffs α) (n mu : Nat) (fit : Vec α → α)
    (s : State α) (h : s.bestValue = fit s.bestPoint) (t : Nat) :
    (run F W c n mu fit s t).bestValue = fit (run F W c n mu fit s t).bestPoint := by
  induction t with
  | zero => exact h
  | succ t ih => exact reported_value_is_f F W c n mu fit _ ih

end rank

/-- non-vacuity of `OrderPreserving`: `x ↦ 2x` and `x ↦ x + 1` over `Rat` -/
example : OrderPreserving (fun x : Rat => 2 * x) := by
  intro a b; simp only [decide_eq_decide]; constructor <;> intro h <;> linarith
example : OrderPreserving (fun x : Rat => x + 1) := by
  intro a b; simp only [decide_eq_decide]; constructor <;> intro h <;> linarith

/-- every strictly increasing map is order preserving -/
theorem orderPreserving_of_strictMono (φ : Rat → Rat) (h : StrictMono φ) : OrderPreserving φ := by
  intro a b; simp only [decide_eq_decide]; exact h.le_iff_le.symm

/-! ## step size -/

/-- **sigma_pos** (one update): `σ' = σ·exp(…)` is positive when `σ` is and `exp` is a positive function -/
theorem sigma_update_pos (F : Fns Rat) (hexp : ∀ x, 0 < F.exp x) (c : Coeffs Rat) (n : Nat) (sigma : Rat)
    (ps : Vec Rat) (hs : 0 < sigma) : 0 < sigmaUpdate F c n sigma ps := by
  unfold sigmaUpdate
  exact mul_pos hs (hexp _)

/-- the lower-bound clamp keeps a positive step size positive (`lowerBound = 1e-40 > 0`,
last eigenvalue non-zero so that `sqrt |ev| > 0`) -/
theorem clamp_pos (F : Fns Rat) (lb sigma ev : Rat) (hlb : 0 < lb) (hs : 0 < sigma)
    (hr : 0 < F.sqrt (Scalar.abs ev)) : 0 < clampSigma F lb sigma ev := by
  unfold clampSigma
  simp only
  split
  · exact div_pos hlb hr
  · exact hs

/-- **sigma_pos.**  In every generation of every run the step size is positive, provided the initial
one is, `exp` is positive, and the square root of the last eigenvalue's modulus is positive. -/
theorem sigma_pos (F : Fns Rat) (W : World Rat) (c : Coeffs Rat) (n mu : Nat) (fit : Vec Rat → Rat)
    (hexp : ∀ x, 0 < F.exp x) (hlb : 0 < W.lowerBound) (hr : ∀ C, 0 < F.sqrt (Scalar.abs (W.lastEig C)))
    (s : State Rat) (hs : 0 < s.dist.sigma) (t : Nat) : 0 < (run F W c n mu fit s t).dist.sigma := by
  induction t with
  | zero => exact hs
  | succ t ih =>
    have key : ∀ s : State Rat, 0 < s.dist.sigma → 0 < (step F W c n mu fit s).dist.sigma := by
      intro s hs
      unfold step finish
      simp only
      have hpos : ∀ sel, 0 < clampSigma F W.lowerBound (update F c n s.dist sel (W.eigVec s.dist.C)).sigma
          (W.lastEig (update F c n s.dist sel (W.eigVec s.dist.C)).C) := by
        intro sel
        apply clamp_pos F _ _ _ hlb _ (hr _)
        unfold update
        exact sigma_update_pos F hexp c n _ _ hs
      split <;> exact hpos _
    exact key _ ih

/-- the hypothesis on `exp` is met by the real exponential -/
example : ∀ x : ℝ, 0 < Real.exp x := Real.exp_pos

/-! ## strategy parameters (learning rates, weights) — theorems about the formulas REGENERATED from the C++

`Gen/CMAParams.lean` is rewritten by `translate/cma_params.py` from `CMA::doInit`, `CMSA::doInit`,
`VDCMA::init`, the `CMAChromosome` constructor and `LMCMA::init` on every run; the same definitions
are run at `Float` by the driver and compared bit for bit with the members of the real objects. -/

open SharkVerif.Gen.CMAParams SharkVerif.ES

/-- **cma_consts_admissible** (learning rates of `CMA::doInit`).  For every dimension `n ≥ 1` and every value
`s ∈ (0,1]` of `Σwᵢ²` (which is what normalised positive weights give, see `doInit_admissible`): `μ_eff ≥ 1`,
`0 < c₁ < 1`, `0 < c_μ ≤ 1 − c₁` (so the factor `1 − c₁ − c_μ` of the old covariance is `≥ 0`),
`0 < c_σ < 1`, `0 < c_c ≤ 1`, and `d_σ ≥ 1 + c_σ` whatever `sqrt` returns. -/
theorem cma_consts_admissible (F : Fns Rat) (n : Nat) (hn : 1 ≤ n) (s : Rat) (hs0 : 0 < s) (hs1 : s ≤ 1) :
    let k := cma_consts F n s
    1 ≤ k.muEff ∧ (0 < k.c1 ∧ k.c1 < 1) ∧ (0 < k.cMu ∧ k.cMu ≤ 1 - k.c1 ∧ 0 ≤ 1 - k.c1 - k.cMu) ∧
      (0 < k.cSigma ∧ k.cSigma < 1) ∧ (0 < k.cC ∧ k.cC ≤ 1) ∧ 1 + k.cSigma ≤ k.dSigma := by
  intro k
  have hnn : (1 : Rat) ≤ (n : Rat) := by exact_mod_cast hn
  have hmu : (1 : Rat) ≤ k.muEff := by
    show 1 ≤ cma_muEff F s
    simp only [cma_muEff, ofRat_rat, div_one]
    rw [le_div_iff₀ hs0]; linarith
  have hmu0 : (0 : Rat) < k.muEff := by linarith
  have hc1 : 0 < k.c1 ∧ k.c1 < 1 := by
    show 0 < cma_c1 F n k.muEff ∧ cma_c1 F n k.muEff < 1
    simp only [cma_c1, ofRat_rat, ofNat_rat, div_one]
    have hden : 0 < ((n : Rat) + 13/10) * ((n : Rat) + 13/10) + k.muEff := by positivity
    refine ⟨by positivity, ?_⟩
    rw [div_lt_one hden]; push_cast; nlinarith
  have hcMu : 0 < k.cMu ∧ k.cMu ≤ 1 - k.c1 := by
    show 0 < cma_cMu F n k.c1 (cma_alphaMu F) (cma_rankMuAlpha F) k.muEff ∧ cma_cMu F n k.c1 (cma_alphaMu F) (cma_rankMuAlpha F) k.muEff ≤ 1 - k.c1
    simp only [cma_cMu, cma_alphaMu, cma_rankMuAlpha, ofRat_rat, ofNat_rat, smin_rat, div_one]
    refine ⟨lt_min (by linarith [hc1.2]) ?_, min_le_left _ _⟩
    have h1 : 0 < 3/10 + k.muEff - 2 + 1 / k.muEff := by
      have : 0 ≤ (k.muEff - 1) ^ 2 / k.muEff := by positivity
      have e : (k.muEff - 1) ^ 2 / k.muEff = k.muEff + 1 / k.muEff - 2 := by field_simp; ring
      norm_num at *; linarith
    have h2 : (0 : Rat) < (((n + 2) * (n + 2) : Nat) : Rat) + 2 * k.muEff / (2 : Nat) := by positivity
    positivity
  refine ⟨hmu, hc1, ⟨hcMu.1, hcMu.2, by linarith [hcMu.2]⟩, ?_, ?_, ?_⟩
  · show 0 < cma_cSigma F n k.muEff ∧ cma_cSigma F n k.muEff < 1
    simp only [cma_cSigma, ofRat_rat, ofNat_rat, div_one]
    refine ⟨by positivity, ?_⟩
    rw [div_lt_one (by positivity)]; linarith
  · show 0 < cma_cC F n k.muEff ∧ cma_cC F n k.muEff ≤ 1
    simp only [cma_cC, ofRat_rat, ofNat_rat, div_one]
    refine ⟨by positivity, ?_⟩
    rw [div_le_one (by positivity)]
    have : 0 < k.muEff / (n : Rat) := by positivity
    have e : ((2 : Nat) : Rat) * k.muEff / (n : Rat) = 2 * (k.muEff / n) := by push_cast; ring
    rw [e]; linarith
  · show 1 + k.cSigma ≤ cma_dSigma F n k.muEff k.cSigma
    simp only [cma_dSigma, ofRat_rat, ofNat_rat, smax_rat, div_one]
    have : (0 : Rat) ≤ max 0 (F.sqrt ((k.muEff - 1) / ((n + 1 : Nat) : Rat)) - 1) := le_max_of_le_left (by norm_num)
    linarith

/-- normalised weights sum to one and stay positive (`m_weights /= sum(m_weights)`) -/
theorem weights_normalised (w : List Rat) (hpos : ∀ x ∈ w, 0 < x) (hne : w ≠ []) :
    ((w.map (· / w.sum)).sum = 1) ∧ ∀ x ∈ w.map (· / w.sum), 0 < x := by
  have hs : 0 < w.sum := by
    cases w with
    | nil => exact absurd rfl hne
    | cons a l =>
      have h1 : 0 < a := hpos a (by simp)
      have h2 : 0 ≤ l.sum := List.sum_nonneg fun x hx => (hpos x (by simp [hx])).le
      simp only [List.sum_cons]; linarith
  constructor
  · have : (w.map (· / w.sum)).sum = w.sum / w.sum := by
      have e : (w.map (· / w.sum)) = w.map (· * (w.sum)⁻¹) := by
        apply List.map_congr_left; intro x _; exact div_eq_mul_inv x _
      rw [e, List.sum_map_mul_right, div_eq_mul_inv]
      simp
    rw [this, div_self hs.ne']
  · intro x hx
    obtain ⟨y, hy, rfl⟩ := List.mem_map.mp hx
    exact div_pos (hpos y hy) hs


/-- `log` restricted to what the weights need: strictly increasing on the positive rationals -/
def LogMono (F : Fns Rat) : Prop := ∀ a b : Rat, 0 < a → a < b → F.log a < F.log b

theorem rawWeight_pos (F : Fns Rat) (hlog : LogMono F) (recomb mu i : Nat) (hi : i < mu) :
    0 < cma_rawWeight F recomb mu i := by
  have hi' : (i : Rat) + 1 ≤ mu := by exact_mod_cast hi
  unfold cma_rawWeight
  split
  · simp [cma_w_equal]
  · simp only [cma_w_linear, ofNat_rat]
    have : 0 < mu - i := Nat.sub_pos_of_lt hi
    exact_mod_cast this
  · simp only [cma_w_superlinear, ofNat_rat, ofRat_rat, div_one]
    have : F.log (1 + (i : Rat)) < F.log ((mu : Rat) + 1/2) := hlog _ _ (by positivity) (by linarith)
    linarith

theorem rawWeight_antitone (F : Fns Rat) (hlog : LogMono F) (recomb mu i j : Nat) (hij : i < j) (hj : j < mu) :
    cma_rawWeight F recomb mu j ≤ cma_rawWeight F recomb mu i := by
  have hij' : (i : Rat) < j := by exact_mod_cast hij
  unfold cma_rawWeight
  split
  · simp [cma_w_equal]
  · simp only [cma_w_linear, ofNat_rat]
    have : mu - j ≤ mu - i := by omega
    exact_mod_cast this
  · simp only [cma_w_superlinear, ofNat_rat, ofRat_rat, div_one]
    have : F.log (1 + (i : Rat)) < F.log (1 + (j : Rat)) := hlog _ _ (by positivity) (by linarith)
    linarith

/-- for LINEAR and SUPERLINEAR the weights are strictly decreasing in the rank -/
theorem rawWeight_strictAnti (F : Fns Rat) (hlog : LogMono F) (recomb mu i j : Nat) (hr : 1 ≤ recomb) (hij : i < j) (hj : j < mu) :
    cma_rawWeight F recomb mu j < cma_rawWeight F recomb mu i := by
  have hij' : (i : Rat) < j := by exact_mod_cast hij
  unfold cma_rawWeight
  split
  · omega
  · simp only [cma_w_linear, ofNat_rat]
    have : mu - j < mu - i := by omega
    exact_mod_cast this
  · simp only [cma_w_superlinear, ofNat_rat, ofRat_rat, div_one]
    have : F.log (1 + (i : Rat)) < F.log (1 + (j : Rat)) := hlog _ _ (by positivity) (by linarith)
    linarith


theorem rawWeights_props (F : Fns Rat) (hlog : LogMono F) (recomb mu : Nat) :
    (rawWeights F recomb mu).length = mu ∧ (∀ x ∈ rawWeights F recomb mu, 0 < x) ∧
      (rawWeights F recomb mu).Pairwise (fun a b => b ≤ a) := by
  unfold rawWeights
  refine ⟨by simp, ?_, ?_⟩
  · intro x hx
    obtain ⟨i, hi, rfl⟩ := List.mem_map.mp hx
    exact rawWeight_pos F hlog recomb mu i (List.mem_range.mp hi)
  · rw [List.pairwise_map]
    have := List.pairwise_lt_range (n := mu)
    refine List.Pairwise.imp_of_mem ?_ this
    intro i j _ hj hij
    exact rawWeight_antitone F hlog recomb mu i j hij (List.mem_range.mp hj)

theorem normalise_props (w : List Rat) (hpos : ∀ x ∈ w, 0 < x) (hne : w ≠ []) (hsorted : w.Pairwise (fun a b => b ≤ a)) :
    (normalise w).length = w.length ∧ (∀ x ∈ normalise w, 0 < x) ∧ (normalise w).sum = 1 ∧
      (normalise w).Pairwise (fun a b => b ≤ a) ∧ 0 < sumSq (normalise w) ∧ sumSq (normalise w) ≤ 1 := by
  have hn : normalise w = w.map (· / w.sum) := by unfold normalise; simp only [sum_eq_listSum]
  obtain ⟨h1, h2⟩ := weights_normalised w hpos hne
  have hs : 0 < w.sum := by
    cases w with
    | nil => exact absurd rfl hne
    | cons a l =>
      have h1 : 0 < a := hpos a (by simp)
      have h2 : 0 ≤ l.sum := List.sum_nonneg fun x hx => (hpos x (by simp [hx])).le
      simp only [List.sum_cons]; linarith
  have hne' : w.map (· / w.sum) ≠ [] := by simpa using hne
  rw [hn]
  refine ⟨by simp, h2, h1, ?_, ?_, ?_⟩
  · rw [List.pairwise_map]
    exact hsorted.imp fun {a b} hab => div_le_div_of_nonneg_right hab hs.le
  · unfold sumSq; rw [sum_eq_listSum]; exact sumSq_pos _ h2 hne'
  · unfold sumSq; rw [sum_eq_listSum]
    have := sumSq_le_sq_sum _ (fun x hx => (h2 x hx).le)
    rw [h1] at this; linarith

/-- **doInit_admissible** (end to end).  For every dimension `n ≥ 1`, every parent number `μ ≥ 1` (hence every
`λ ≥ 2` with `1 ≤ μ < λ`) and every recombination type, the weights computed by the modelled `CMA::doInit`
are `μ` positive numbers, non-increasing in the rank, summing to one, and all learning rates are admissible. -/
theorem doInit_admissible (F : Fns Rat) (hlog : LogMono F) (n mu recomb : Nat) (hn : 1 ≤ n) (hmu : 1 ≤ mu) :
    let c := doInitCoeffs F n mu recomb
    (c.weights.length = mu ∧ (∀ x ∈ c.weights, 0 < x) ∧ c.weights.sum = 1 ∧ c.weights.Pairwise (fun a b => b ≤ a)) ∧
      1 ≤ c.muEff ∧ (0 < c.c1 ∧ c.c1 < 1) ∧ (0 < c.cMu ∧ c.cMu ≤ 1 - c.c1 ∧ 0 ≤ 1 - c.c1 - c.cMu) ∧
      (0 < c.cSigma ∧ c.cSigma < 1) ∧ (0 < c.cC ∧ c.cC ≤ 1) ∧ 1 + c.cSigma ≤ c.dSigma := by
  intro c
  obtain ⟨hl, hp, hs⟩ := rawWeights_props F hlog recomb mu
  have hne : rawWeights F recomb mu ≠ [] := by
    intro h; rw [h] at hl; simp at hl; omega
  obtain ⟨nl, np, ns, nsorted, q0, q1⟩ := normalise_props _ hp hne hs
  refine ⟨⟨by show (normalise (rawWeights F recomb mu)).length = mu; rw [nl, hl], np, ns, nsorted⟩, ?_⟩
  exact cma_consts_admissible F n hn _ q0 q1

/-- non-vacuity: a strictly increasing `log` exists (the identity), and the theorem instantiates at `n = 1, μ = 1` -/
def idFns : Fns Rat := { log := id, sqrt := id, exp := id, pow := fun a _ => a }
example : LogMono idFns := fun _ _ _ h => h
example : (doInitCoeffs idFns 1 1 2).weights.sum = 1 :=
  (doInit_admissible idFns (fun _ _ _ h => h) 1 1 2 (le_refl _) (le_refl _)).1.2.2.1

/-! ### CMSA -/
theorem cmsa_consts_admissible (F : Fns Rat) (hsqrt : ∀ x : Rat, 0 < x → 0 < F.sqrt x) (n mu : Nat) (hn : 1 ≤ n) (hmu : 1 ≤ mu) :
    let k := cmsa_consts F n mu
    0 < k.cSigma ∧ 1 < k.cC ∧ (0 < 1 - 1 / k.cC ∧ 0 < 1 / (mu : Rat) * (1 / k.cC)) ∧
      (1 - 1 / k.cC) + (mu : Rat) * (1 / (mu : Rat) * (1 / k.cC)) = 1 := by
  intro k
  have hnn : (1 : Rat) ≤ (n : Rat) := by exact_mod_cast hn
  have hmm : (1 : Rat) ≤ (mu : Rat) := by exact_mod_cast hmu
  have hcC : 1 < k.cC := by
    show 1 < cmsa_cC F n mu
    simp only [cmsa_cC, ofRat_rat, ofNat_rat, div_one]
    have : 0 < (n : Rat) * ((n : Rat) + 1) / (2 * (mu : Rat)) := by positivity
    linarith
  have h0 : 0 < k.cC := by linarith
  refine ⟨?_, hcC, ⟨?_, by positivity⟩, ?_⟩
  · show 0 < cmsa_cSigma F n
    simp only [cmsa_cSigma, ofRat_rat, ofNat_rat, div_one]
    exact div_pos one_pos (hsqrt _ (by positivity))
  · have : 1 / k.cC < 1 := by rw [div_lt_one h0]; exact hcC
    linarith
  · have : (mu : Rat) ≠ 0 := by positivity
    field_simp
    ring

/-! ### VD-CMA -/
/-- for any positive correction factor not larger than `n` the VD-CMA learning rates are admissible -/
theorem vdcma_rates_of_correction (F : Fns Rat) (n : Nat) (hn : 1 ≤ n) (corr muEff : Rat) (hc0 : 0 < corr) (hcn : corr ≤ n)
    (hmu : 1 ≤ muEff) :
    let c1 := vdcma_c1 F n corr muEff
    let cMu := vdcma_cMu F n c1 corr muEff
    (0 < c1 ∧ c1 < 1) ∧ (0 ≤ cMu ∧ cMu ≤ 1 - c1) := by
  intro c1 cMu
  have hnn : (1 : Rat) ≤ (n : Rat) := by exact_mod_cast hn
  have hmu0 : (0 : Rat) < muEff := by linarith
  have hc1 : 0 < c1 ∧ c1 < 1 := by
    show 0 < vdcma_c1 F n corr muEff ∧ vdcma_c1 F n corr muEff < 1
    simp only [vdcma_c1, ofRat_rat, ofNat_rat]
    have hden : 0 < ((n : Rat) + 13/10) * ((n : Rat) + 13/10) + muEff := by positivity
    refine ⟨by positivity, ?_⟩
    rw [div_lt_one hden]; push_cast; nlinarith
  refine ⟨hc1, ?_⟩
  show 0 ≤ vdcma_cMu F n c1 corr muEff ∧ vdcma_cMu F n c1 corr muEff ≤ 1 - c1
  simp only [vdcma_cMu, ofRat_rat, ofNat_rat, smin_rat, div_one]
  refine ⟨le_min (by linarith [hc1.2]) ?_, min_le_left _ _⟩
  have h1 : 0 ≤ muEff - 2 + 1 / muEff := by
    have : 0 ≤ (muEff - 1) ^ 2 / muEff := by positivity
    have e : (muEff - 1) ^ 2 / muEff = muEff + 1 / muEff - 2 := by field_simp; ring
    linarith
  have h2 : (0 : Rat) < (((n + 2) * (n + 2) : Nat) : Rat) + muEff := by positivity
  positivity

/-- the correction factor of the C++ (regenerated: `max((n-5)/6, 1/2)` since the repair of F14) is in `(0, n]` for
every dimension `n ≥ 1`; before the repair this held only from dimension 6 on (`vdcma_head_formula_not_positive`) -/
theorem vdcma_correction_ok (F : Fns Rat) (n : Nat) (hn : 1 ≤ n) :
    0 < vdcma_correction F n ∧ vdcma_correction F n ≤ n := by
  have hnn : (1 : Rat) ≤ (n : Rat) := by exact_mod_cast hn
  simp only [vdcma_correction, ofRat_rat, ofNat_rat, div_one, smax_rat, lt_max_iff, max_le_iff]
  constructor
  · right; norm_num
  · constructor
    · rw [div_le_iff₀ (by norm_num)]; linarith
    · linarith

/-- **the defect F14 as mathematics**: the formula before the repair, `(n-5)/6 · 2/((n+1.3)²+μ_eff)` is negative for n ≤ 4 and zero for n = 5 -/
theorem vdcma_head_formula_not_positive (n : Nat) (hn : n ≤ 5) (muEff : Rat) (hmu : 1 ≤ muEff) :
    (((n : Rat) - 5) / 6) * 2 / (((n : Rat) + 13/10) * ((n : Rat) + 13/10) + muEff) ≤ 0 := by
  have hnn : (n : Rat) ≤ 5 := by exact_mod_cast hn
  have hden : 0 < ((n : Rat) + 13/10) * ((n : Rat) + 13/10) + muEff := by positivity
  apply div_nonpos_of_nonpos_of_nonneg _ hden.le
  linarith

/-! ### elitist CMA chromosome -/
theorem ecma_consts_admissible (F : Fns Rat) (hpow : ∀ x y : Rat, 0 ≤ F.pow x y) (n : Nat) (hn : 1 ≤ n) :
    let k := ecma_consts F n
    (0 < k.pTarget ∧ k.pTarget < 1) ∧ 1 ≤ k.dStep ∧ (0 < k.cP ∧ k.cP < 1) ∧ (0 < k.cPath ∧ k.cPath < 1) ∧
      (0 < k.cCov ∧ k.cCov < 1) ∧ (0 < k.cUnlearn ∧ k.cUnlearn ≤ 2/5) := by
  intro k
  have hnn : (1 : Rat) ≤ (n : Rat) := by exact_mod_cast hn
  have hp : k.pTarget = 2/11 := by
    show ecma_pTarget F = 2/11
    simp only [ecma_pTarget, ofRat_rat, ofNat_rat]; norm_num
  refine ⟨by rw [hp]; norm_num, ?_, ?_, ?_, ?_, ?_⟩
  · show 1 ≤ ecma_dStep F n
    simp only [ecma_dStep, ofRat_rat, ofNat_rat, div_one]
    have : 0 ≤ (n : Rat) / 2 := by positivity
    linarith
  · show 0 < ecma_cP F k.pTarget ∧ ecma_cP F k.pTarget < 1
    rw [hp]; simp only [ecma_cP, ofRat_rat, div_one]; norm_num
  · show 0 < ecma_cPath F n ∧ ecma_cPath F n < 1
    simp only [ecma_cPath, ofRat_rat, ofNat_rat, div_one]
    refine ⟨by positivity, ?_⟩
    rw [div_lt_one (by positivity)]; linarith
  · show 0 < ecma_cCov F n ∧ ecma_cCov F n < 1
    simp only [ecma_cCov, ofRat_rat, ofNat_rat, div_one]
    refine ⟨by positivity, ?_⟩
    rw [div_lt_one (by positivity)]
    have : (0 : Rat) ≤ ((n * n : Nat) : Rat) := by positivity
    linarith
  · show 0 < ecma_cUnlearn F n ∧ ecma_cUnlearn F n ≤ 2/5
    simp only [ecma_cUnlearn, ofRat_rat, ofNat_rat, div_one]
    have := hpow (n : Rat) (8/5)
    refine ⟨by positivity, ?_⟩
    rw [div_le_iff₀ (by positivity)]; nlinarith

/-! ## covariance update -/

open Matrix in
/-- **cov_update_psd.**  `C' = a·C + c₁·p pᵀ + c_μ·Σᵢ wᵢ·yᵢ yᵢᵀ` with `a, c₁, c_μ, wᵢ ≥ 0` and `C`
symmetric positive semidefinite is symmetric positive semidefinite (eq. 43 with
`a = 1 − c₁ − c_μ + c₁·δ(hσ)`, `yᵢ = (xᵢ − m)/σ`). -/
theorem cov_update_psd {n m : ℕ} (a c1 cmu : ℝ) (C : Matrix (Fin n) (Fin n) ℝ) (p : Fin n → ℝ)
    (w : Fin m → ℝ) (y : Fin m → Fin n → ℝ) (ha : 0 ≤ a) (hc1 : 0 ≤ c1) (hcmu : 0 ≤ cmu)
    (hw : ∀ i, 0 ≤ w i) (hC : C.PosSemidef) :
    (a • C + c1 • vecMulVec p p + cmu • ∑ i, w i • vecMulVec (y i) (y i)).PosSemidef := by
  have hv : ∀ v : Fin n → ℝ, (vecMulVec v v).PosSemidef := by
    intro v; simpa using posSemidef_vecMulVec_self_star v
  refine ((hC.smul ha).add ((hv p).smul hc1)).add (PosSemidef.smul ?_ hcmu)
  exact posSemidef_sum _ fun i _ => (hv (y i)).smul (hw i)

open Matrix in
/-- **cov_update_pd.**  If moreover `a > 0` and `C` is positive definite, so is `C'`. -/
theorem cov_update_pd {n m : ℕ} (a c1 cmu : ℝ) (C : Matrix (Fin n) (Fin n) ℝ) (p : Fin n → ℝ)
    (w : Fin m → ℝ) (y : Fin m → Fin n → ℝ) (ha : 0 < a) (hc1 : 0 ≤ c1) (hcmu : 0 ≤ cmu)
    (hw : ∀ i, 0 ≤ w i) (hC : C.PosDef) :
    (a • C + c1 • vecMulVec p p + cmu • ∑ i, w i • vecMulVec (y i) (y i)).PosDef := by
  have hv : ∀ v : Fin n → ℝ, (vecMulVec v v).PosSemidef := by
    intro v; simpa using posSemidef_vecMulVec_self_star v
  refine ((hC.smul ha).add_posSemidef ((hv p).smul hc1)).add_posSemidef (PosSemidef.smul ?_ hcmu)
  exact posSemidef_sum _ fun i _ => (hv (y i)).smul (hw i)

/-! ## elitist variants -/

/-- **elitist_monotone.**  The (1+1) acceptance rule of `ElitistCMA::step` never reports a worse value:
over any sequence of candidates the reported value is non-increasing and always the fitness of the
reported point. -/
theorem elitist_monotone (fit : Vec Rat → Rat) (s : Elitist Rat) (cand : Vec Rat) :
    (elitistStep fit s cand).bestValue ≤ s.bestValue := by
  unfold elitistStep elitistAccept
  split
  · next h => simp only [Bool.not_eq_true', decide_eq_false_iff_not, not_le] at h; exact h.le
  · exact le_refl _

theorem elitist_monotone_run (fit : Vec Rat → Rat) (s : Elitist Rat) (cands : List (Vec Rat)) :
    (cands.foldl (elitistStep fit) s).bestValue ≤ s.bestValue := by
  induction cands generalizing s with
  | nil => exact le_refl _
  | cons c cs ih => exact le_trans (ih _) (elitist_monotone fit s c)

theorem elitist_value_is_f (fit : Vec Rat → Rat) (s : Elitist Rat) (h : s.bestValue = fit s.bestPoint)
    (cand : Vec Rat) : (elitistStep fit s cand).bestValue = fit (elitistStep fit s cand).bestPoint := by
  unfold elitistStep
  split
  · rfl
  · exact h

/-! ## every comparison-based strategy (CMSA, VD-CMA, cross-entropy method, … : `Model/ES.lean`, `Strategy`) -/
section generic
variable {α : Type} [Scalar α] {σ ι : Type}

theorem gselect_relabel (φ : α → α) (hφ : OrderPreserving φ) (off : List (ι × α)) (mu : Nat) :
    gselect (off.map fun p => (p.1, φ p.2)) mu = (gselect off mu).map fun p => (p.1, φ p.2) := by
  unfold gselect
  rw [List.map_take]
  congr 1
  symm
  apply List.map_mergeSort
  intro a _ b _
  exact hφ a.2 b.2

def GRelated (φ : α → α) (s s' : GState σ α) : Prop :=
  s'.state = s.state ∧ s'.gen = s.gen ∧ s'.bestPoint = s.bestPoint ∧ s'.bestValue = φ s.bestValue

theorem gstep_related (S : Strategy σ ι α) (fit : Vec α → α) (φ : α → α) (hφ : OrderPreserving φ)
    (s s' : GState σ α) (h : GRelated φ s s') : GRelated φ (gstep S fit s) (gstep S (φ ∘ fit) s') := by
  obtain ⟨h1, h2, h3, h4⟩ := h
  unfold gstep
  rw [h1, h2]
  have e : ((S.sample s.state s.gen).map fun i => (i, (φ ∘ fit) (S.point i)))
      = ((S.sample s.state s.gen).map fun i => (i, fit (S.point i))).map fun p => (p.1, φ p.2) := by
    simp [List.map_map, Function.comp_def]
  rw [e]
  dsimp only
  rw [gselect_relabel φ hφ]
  generalize gselect ((S.sample s.state s.gen).map fun i => (i, fit (S.point i))) S.mu = sel
  have e2 : (sel.map fun (p : ι × α) => (p.1, φ p.2)).map (·.1) = sel.map (·.1) := by
    simp [List.map_map, Function.comp_def]
  rw [e2]
  cases sel with
  | nil => exact ⟨rfl, rfl, h3, h4⟩
  | cons b bs => exact ⟨rfl, rfl, rfl, rfl⟩

/-- **generic_rank_invariance.**  Any strategy of the shape "sample from the state, evaluate, select the `mu` best by a
stable sort on fitness, update the state from the selected offspring" — whatever its sampling and update functions are —
visits the same points on `φ ∘ f` as on `f` for every order-preserving `φ`, for all numbers of generations. -/
theorem generic_rank_invariance (S : Strategy σ ι α) (fit : Vec α → α) (φ : α → α) (hφ : OrderPreserving φ)
    (s s' : GState σ α) (h : GRelated φ s s') (t : Nat) :
    GRelated φ (grun S fit s t) (grun S (φ ∘ fit) s' t) := by
  induction t with
  | zero => exact h
  | succ t ih => exact gstep_related S fit φ hφ _ _ ih

/-- **generic_value_is_f.**  … and always reports the fitness of the reported point. -/
theorem generic_value_is_f (S : Strategy σ ι α) (fit : Vec α → α) (s : GState σ α)
    (h : s.bestValue = fit s.bestPoint) (t : Nat) :
    (grun S fit s t).bestValue = fit (grun S fit s t).bestPoint := by
  induction t with
  | zero => exact h
  | succ t ih =>
    show (gstep S fit (grun S fit s t)).bestValue = fit (gstep S fit (grun S fit s t)).bestPoint
    generalize grun S fit s t = u at ih
    unfold gstep
    simp only
    split
    · exact ih
    · next b bs hsel =>
      have hmem : b ∈ gselect ((S.sample u.state u.gen).map fun i => (i, fit (S.point i))) S.mu := by rw [hsel]; simp
      unfold gselect at hmem
      have := List.mem_of_mem_take hmem
      rw [List.mem_mergeSort] at this
      obtain ⟨i, _, rfl⟩ := List.mem_map.mp this
      rfl
end generic

/-- the cross-entropy method is such a strategy: its update is `cemUpdate` on the selected points -/
def cemStrategy (sample : Vec Rat × Vec Rat → Nat → List (Vec Rat)) (n mu : Nat) : Strategy (Vec Rat × Vec Rat) (Vec Rat) Rat :=
  { sample := sample, point := id, mu := mu, update := fun _ sel => cemUpdate 0 n sel }

def double : Rat → Rat := fun x => 2 * x
theorem double_orderPreserving : OrderPreserving double :=
  orderPreserving_of_strictMono double (fun a b h => by unfold double; linarith)

/-- non-vacuity: the cross-entropy method on `2·f` visits the points it visits on `f` -/
example (sample : Vec Rat × Vec Rat → Nat → List (Vec Rat)) (n mu : Nat) (fit : Vec Rat → Rat) (s : GState (Vec Rat × Vec Rat) Rat) (t : Nat) :
    GRelated double (grun (cemStrategy sample n mu) fit s t)
      (grun (cemStrategy sample n mu) (double ∘ fit) { s with bestValue := double s.bestValue } t) :=
  generic_rank_invariance (cemStrategy sample n mu) fit double double_orderPreserving s { s with bestValue := double s.bestValue } ⟨rfl, rfl, rfl, rfl⟩ t

/-! ### cross-entropy method -/
theorem foldl_sq_nonneg (l : List (List Rat)) (g : List Rat → Rat) (a : Rat) (ha : 0 ≤ a) :
    0 ≤ l.foldl (fun acc p => acc + g p * g p) a := by
  induction l generalizing a with
  | nil => exact ha
  | cons x xs ih => exact ih _ (by nlinarith [mul_self_nonneg (g x)])

/-- **cem_variance_nonneg**: every coordinate of the variance vector computed by
`CrossEntropyMethod::updateStrategyParameters` is non-negative (noise term `max(noise,0) ≥ 0`), for every selection. -/
theorem cem_variance_nonneg (noise : Rat) (hn : 0 ≤ noise) (n : Nat) (sel : List (List Rat)) :
    ∀ v ∈ (cemUpdate noise n sel).2, 0 ≤ v := by
  intro v hv
  unfold cemUpdate at hv
  simp only at hv
  obtain ⟨j, _, rfl⟩ := List.mem_map.mp hv
  have h1 := foldl_sq_nonneg sel (fun p => Vec.get p j - Vec.get ((List.range n).map fun i => sel.foldl (fun acc p => acc + Vec.get p i) Scalar.zero / ofNat sel.length) j) 0 (le_refl _)
  have h2 : (0 : Rat) ≤ Scalar.one / ofNat sel.length := by
    simp only [sone_rat, ofNat_rat]; positivity
  have := mul_nonneg h1 h2
  simp only [szero_rat] at *
  linarith

/-! ## elitist CMA -/

theorem sigmaStep_pos (F : Fns Rat) (hexp : ∀ x, 0 < F.exp x) (k : EcmaConsts Rat) (sigma p : Rat) (hs : 0 < sigma) :
    0 < sigmaStep F k sigma p := by
  unfold sigmaStep; exact mul_pos hs (hexp _)

theorem updateAsOffspring_sigma (F : Fns Rat) (k : EcmaConsts Rat) (s s' : Ecma Rat) (y : Vec Rat)
    (h : updateAsOffspring F k s y = some s') :
    s'.sigma = sigmaStep F k s.sigma ((1 - k.cP) * s.pSucc + k.cP) ∧ s'.pSucc = (1 - k.cP) * s.pSucc + k.cP ∧
      s'.anc = s.anc ∧ s'.bestValue = s.bestValue ∧ s'.bestPoint = s.bestPoint := by
  unfold updateAsOffspring at h
  simp only [Option.map_eq_some_iff] at h
  obtain ⟨pl, _, rfl⟩ := h
  exact ⟨rfl, rfl, rfl, rfl, rfl⟩

theorem updateAsParent_sigma (F : Fns Rat) (k : EcmaConsts Rat) (s s' : Ecma Rat) (succ : Success) (zz : Rat) (y : Vec Rat)
    (hsucc : succ ≠ Success.successful) (h : updateAsParent F k s succ zz y = some s') :
    s'.sigma = sigmaStep F k s.sigma ((1 - k.cP) * s.pSucc) ∧ s'.pSucc = (1 - k.cP) * s.pSucc ∧
      s'.anc = s.anc ∧ s'.bestValue = s.bestValue ∧ s'.bestPoint = s.bestPoint := by
  unfold updateAsParent at h
  simp only [hsucc, if_false, sone_rat, szero_rat, mul_zero, add_zero] at h
  split at h
  · cases h; exact ⟨rfl, rfl, rfl, rfl, rfl⟩
  · split at h
    · simp only [Option.map_eq_some_iff] at h
      obtain ⟨L', _, rfl⟩ := h
      exact ⟨rfl, rfl, rfl, rfl, rfl⟩
    · simp only [Option.map_eq_some_iff] at h
      obtain ⟨pl, _, rfl⟩ := h
      exact ⟨rfl, rfl, rfl, rfl, rfl⟩

/-- **ecma_sigma_pos**: whenever `ElitistCMA::step` completes (no exception from the Cholesky update), a positive step
size stays positive — for all three outcomes of the success rule. -/
theorem ecma_sigma_pos (F : Fns Rat) (hexp : ∀ x, 0 < F.exp x) (k : EcmaConsts Rat) (s s' : Ecma Rat) (y : Vec Rat) (zz fp fu : Rat)
    (hs : 0 < s.sigma) (h : ecmaStep F k s y zz fp fu = some s') : 0 < s'.sigma := by
  unfold ecmaStep at h
  simp only at h
  split at h
  · simp only [Option.map_eq_some_iff] at h
    obtain ⟨u, hu, rfl⟩ := h
    have := (updateAsOffspring_sigma F k s u y hu).1
    show 0 < u.sigma
    rw [this]; exact sigmaStep_pos F hexp k _ _ hs
  · next succ hne =>
    simp only [Option.map_eq_some_iff] at h
    obtain ⟨u, hu, rfl⟩ := h
    have := (updateAsParent_sigma F k s u _ zz y hne hu).1
    show 0 < u.sigma
    rw [this]; exact sigmaStep_pos F hexp k _ _ hs

/-- the smoothed success probability stays in `[0,1]` (learning rate `0 < c_p < 1`, `ecma_consts_admissible`) -/
theorem ecma_pSucc_unit (F : Fns Rat) (k : EcmaConsts Rat) (hc : 0 < k.cP ∧ k.cP < 1) (s s' : Ecma Rat) (y : Vec Rat) (zz fp fu : Rat)
    (hp : 0 ≤ s.pSucc ∧ s.pSucc ≤ 1) (h : ecmaStep F k s y zz fp fu = some s') : 0 ≤ s'.pSucc ∧ s'.pSucc ≤ 1 := by
  unfold ecmaStep at h
  simp only at h
  split at h
  · simp only [Option.map_eq_some_iff] at h
    obtain ⟨u, hu, rfl⟩ := h
    have := (updateAsOffspring_sigma F k s u y hu).2.1
    show 0 ≤ u.pSucc ∧ u.pSucc ≤ 1
    rw [this]; constructor <;> nlinarith [hc.1, hc.2, hp.1, hp.2]
  · next succ hne =>
    simp only [Option.map_eq_some_iff] at h
    obtain ⟨u, hu, rfl⟩ := h
    have := (updateAsParent_sigma F k s u _ zz y hne hu).2.1
    show 0 ≤ u.pSucc ∧ u.pSucc ≤ 1
    rw [this]; constructor <;> nlinarith [hc.1, hc.2, hp.1, hp.2]

/-- **ecma_elitist_monotone**: with the real three-way success rule and the history of accepted fitness values: if the
last accepted fitness is the reported value (invariant, established by `init`) and the offspring is not penalized
(`fu = fp`, i.e. feasible), the reported value never increases, the reported point changes only together with the value,
and the invariant is preserved. -/
theorem ecma_elitist_monotone (F : Fns Rat) (k : EcmaConsts Rat) (s s' : Ecma Rat) (y : Vec Rat) (zz fp : Rat)
    (hinv : s.anc.getLast? = some s.bestValue) (h : ecmaStep F k s y zz fp fp = some s') :
    s'.bestValue ≤ s.bestValue ∧ s'.anc.getLast? = some s'.bestValue ∧
      (s'.bestValue = s.bestValue → s'.bestPoint = s.bestPoint) := by
  unfold ecmaStep at h
  simp only at h
  split at h
  · next hc =>
    simp only [Option.map_eq_some_iff] at h
    obtain ⟨u, hu, rfl⟩ := h
    -- successful: fp < back = bestValue
    have hlt : fp < s.bestValue := by
      unfold classify at hc
      rw [hinv] at hc
      simp only at hc
      by_contra hge
      have hge' : s.bestValue ≤ fp := not_lt.mp hge
      simp only [hge', if_true] at hc
      split at hc
      · split at hc <;> cases hc
      · cases hc
    refine ⟨hlt.le, by simp, ?_⟩
    intro e; exact absurd e (ne_of_lt hlt)
  · next succ hne =>
    simp only [Option.map_eq_some_iff] at h
    obtain ⟨u, hu, rfl⟩ := h
    obtain ⟨_, _, ha, hv, hp⟩ := updateAsParent_sigma F k s u _ zz y hne hu
    show u.bestValue ≤ s.bestValue ∧ u.anc.getLast? = some u.bestValue ∧ (u.bestValue = s.bestValue → u.bestPoint = s.bestPoint)
    rw [ha, hv, hp]; exact ⟨le_refl _, hinv, fun _ => rfl⟩

/-- the active ("negative") covariance update of `CMAChromosome::updateAsParent` is admissible for every step:
with the rate chosen by the C++ (`rate = c_unlearn`, shortened to `1/(2‖z‖²−1)` when `‖z‖² > 1` and
`1 < c_unlearn (2‖z‖²−1)`), the factor `(1+rate) − rate‖z‖²` of `I` along `z` in
`L((1+rate) I − rate z zᵀ)Lᵀ` is positive, i.e. the updated matrix stays positive definite -/

theorem active_update_admissible (cUnlearn zz : Rat) (hc : 0 < cUnlearn) (hz : 0 ≤ zz) :
    0 < ES.activeRate cUnlearn zz ∧ 0 < (1 + ES.activeRate cUnlearn zz) - ES.activeRate cUnlearn zz * zz := by
  unfold ES.activeRate
  by_cases h0 : (Scalar.one : Rat) < zz ∧ (Scalar.one : Rat) < cUnlearn * (Scalar.two * zz - Scalar.one)
  · rw [if_pos h0]
    have h : 1 < zz ∧ 1 < cUnlearn * (2 * zz - 1) := h0
    simp only [sone_rat, stwo_rat]
    have hd : 0 < 2 * zz - 1 := by linarith [h.1]
    refine ⟨by positivity, ?_⟩
    have : 1 + 1 / (2 * zz - 1) - 1 / (2 * zz - 1) * zz = zz / (2 * zz - 1) := by field_simp; ring
    rw [this]; exact div_pos (by linarith [h.1]) hd
  · rw [if_neg h0]
    have h : ¬ (1 < zz ∧ 1 < cUnlearn * (2 * zz - 1)) := h0
    refine ⟨hc, ?_⟩
    by_cases h1 : 1 < zz
    · have : cUnlearn * (2 * zz - 1) ≤ 1 := by
        by_contra hh; exact h ⟨h1, not_le.mp hh⟩
      nlinarith
    · have : zz ≤ 1 := not_lt.mp h1
      nlinarith

/-! ## CMSA -/
theorem foldl_pos (l : List (CmsaInd Rat)) (c a : Rat) (hc : 0 < c) (ha : 0 ≤ a) (hl : ∀ i ∈ l, 0 < i.sigma) (hne : l ≠ [] ∨ 0 < a) :
    0 < l.foldl (fun acc i => acc + c * i.sigma) a := by
  induction l generalizing a with
  | nil => rcases hne with h | h; exact absurd rfl h; exact h
  | cons x xs ih =>
    have hx : 0 < x.sigma := hl x (by simp)
    exact ih _ (by nlinarith [mul_pos hc hx]) (fun i hi => hl i (by simp [hi])) (Or.inr (by nlinarith [mul_pos hc hx]))

/-- **cmsa_sigma_pos**: the new step size (mean of the selected individuals' step sizes) is positive -/
theorem cmsa_sigma_pos (F : Fns Rat) (cC : Rat) (n mu : Nat) (hmu : 1 ≤ mu) (s s' : Cmsa Rat) (sel : List (CmsaInd Rat))
    (hne : sel ≠ []) (hpos : ∀ i ∈ sel, 0 < i.sigma) (h : cmsaUpdate F cC n mu s sel = some s') : 0 < s'.sigma := by
  unfold cmsaUpdate at h
  simp only [Option.map_eq_some_iff] at h
  obtain ⟨L, _, rfl⟩ := h
  have hm : (0 : Rat) < Scalar.one / ofNat mu := by
    simp only [sone_rat, ofNat_rat]
    have : (1 : Rat) ≤ (mu : Rat) := by exact_mod_cast hmu
    positivity
  exact foldl_pos sel _ _ hm (le_refl _) hpos (Or.inl hne)

/-- relabel the fitness of a CMSA offspring -/
def relabelCmsa (φ : Rat → Rat) (i : CmsaInd Rat) : CmsaInd Rat := { i with fitness := φ i.fitness }

/-- selection in `CMSA::updatePopulation` on relabelled fitness values picks the same offspring in the same order -/
theorem cmsaSelect_relabel (φ : Rat → Rat) (hφ : OrderPreserving φ) (off : List (CmsaInd Rat)) (mu : Nat) :
    cmsaSelect (off.map (relabelCmsa φ)) mu = (cmsaSelect off mu).map (relabelCmsa φ) := by
  unfold cmsaSelect
  rw [List.map_take]
  congr 1
  symm
  apply List.map_mergeSort
  intro a _ b _
  exact hφ a.fitness b.fitness

/-- the CMSA update reads points, steps and step sizes of the selected offspring, never their fitness -/
theorem cmsaUpdate_relabel (F : Fns Rat) (cC : Rat) (n mu : Nat) (s : Cmsa Rat) (sel : List (CmsaInd Rat)) (φ : Rat → Rat) :
    cmsaUpdate F cC n mu s (sel.map (relabelCmsa φ)) = cmsaUpdate F cC n mu s sel := by
  unfold cmsaUpdate
  simp only [List.foldl_map]
  rfl

/-- **cmsa_step_rank_invariant**: one generation of CMSA on `φ ∘ f` with the same offspring (same generator stream) yields
the same step size, mean and covariance factor, and reports the same point, for every order-preserving `φ` -/
theorem cmsa_step_rank_invariant (F : Fns Rat) (cC : Rat) (n mu : Nat) (s : Cmsa Rat) (off : List (CmsaInd Rat))
    (φ : Rat → Rat) (hφ : OrderPreserving φ) :
    cmsaUpdate F cC n mu s (cmsaSelect (off.map (relabelCmsa φ)) mu) = cmsaUpdate F cC n mu s (cmsaSelect off mu) ∧
      ((cmsaSelect (off.map (relabelCmsa φ)) mu).head?.map (·.point)) = ((cmsaSelect off mu).head?.map (·.point)) := by
  rw [cmsaSelect_relabel φ hφ]
  refine ⟨cmsaUpdate_relabel F cC n mu s _ φ, ?_⟩
  rw [List.head?_map, Option.map_map]
  rfl

/-! ## VD-CMA (`Model/ES.lean` `vdUpdate`, tied to `VDCMA::updateStrategyParameters` by one-step refinement) -/

/-- the step size of VD-CMA stays positive: `σ' = σ · exp(…)` -/
theorem vd_sigma_pos (F : Fns Rat) (hexp : ∀ x, 0 < F.exp x) (c : VdConsts Rat) (n : Nat) (d : Vd Rat) (sel : List (VdInd Rat))
    (hs : 0 < d.sigma) : 0 < (vdUpdate F c n d sel).sigma := by
  unfold vdUpdate
  exact mul_pos hs (hexp _)

def relabelVd (φ : Rat → Rat) (i : VdInd Rat) : VdInd Rat := { i with fitness := φ i.fitness }

theorem vdSelect_relabel (φ : Rat → Rat) (hφ : OrderPreserving φ) (off : List (VdInd Rat)) (mu : Nat) :
    vdSelect (off.map (relabelVd φ)) mu = (vdSelect off mu).map (relabelVd φ) := by
  unfold vdSelect
  rw [List.map_take]
  congr 1
  symm
  apply List.map_mergeSort
  intro a _ b _
  exact hφ a.fitness b.fitness

/-- the update reads points and stored steps of the selected offspring, never their fitness -/
theorem vdUpdate_relabel (F : Fns Rat) (c : VdConsts Rat) (n : Nat) (d : Vd Rat) (sel : List (VdInd Rat)) (φ : Rat → Rat) :
    vdUpdate F c n d (sel.map (relabelVd φ)) = vdUpdate F c n d sel := by
  unfold vdUpdate
  simp only [List.map_map, List.zip_map_right, List.foldl_map]
  rfl

/-- **vd_step_rank_invariant**: one generation of VD-CMA on `φ ∘ f` with the same samples gives the same search
distribution and reports the same point -/
theorem vd_step_rank_invariant (F : Fns Rat) (c : VdConsts Rat) (n mu : Nat) (d : Vd Rat) (off : List (VdInd Rat))
    (φ : Rat → Rat) (hφ : OrderPreserving φ) :
    vdUpdate F c n d (vdSelect (off.map (relabelVd φ)) mu) = vdUpdate F c n d (vdSelect off mu) ∧
      ((vdSelect (off.map (relabelVd φ)) mu).head?.map (·.point)) = ((vdSelect off mu).head?.map (·.point)) := by
  rw [vdSelect_relabel φ hφ]
  refine ⟨vdUpdate_relabel F c n d _ φ, ?_⟩
  rw [List.head?_map, Option.map_map]
  rfl

/-! ## simplex downhill -/
theorem track_le (b x : Sol Rat) : (track b x).value ≤ b.value := by
  unfold track; split
  · next h => exact h.le
  · exact le_refl _

theorem foldl_track_le (l : List (Sol Rat)) (b : Sol Rat) : (l.foldl track b).value ≤ b.value := by
  induction l generalizing b with
  | nil => exact le_refl _
  | cons x xs ih => exact le_trans (ih _) (track_le b x)

/-- **simplex_best_monotone**: the reported value of `SimplexDownhill` never increases -/
theorem simplex_best_monotone (f : Vec Rat → Rat) (s : Simplex Rat) : (simplexStep f s).best.value ≤ s.best.value := by
  unfold simplexStep
  simp only
  split
  · split
    · exact track_le _ _
    · split
      · exact le_trans (track_le _ _) (track_le _ _)
      · split
        · exact le_trans (track_le _ _) (track_le _ _)
        · exact le_trans (foldl_track_le _ _) (le_trans (track_le _ _) (track_le _ _))
  · exact le_refl _

theorem simplex_best_monotone_run (f : Vec Rat → Rat) (x0 : Vec Rat) (t u : Nat) (h : t ≤ u) :
    (simplexRun f x0 u).best.value ≤ (simplexRun f x0 t).best.value := by
  induction u with
  | zero => have : t = 0 := by omega
            subst this; exact le_refl _
  | succ u ih =>
    by_cases e : t = u + 1
    · subst e; exact le_refl _
    · exact le_trans (simplex_best_monotone f _) (ih (by omega))

/-- a solution is "honest" when its value is the objective at its point -/
def Honest (f : Vec Rat → Rat) (x : Sol Rat) : Prop := x.value = f x.point

theorem track_honest (f : Vec Rat → Rat) (b x : Sol Rat) (hb : Honest f b) (hx : Honest f x) : Honest f (track b x) := by
  unfold track; split <;> assumption

theorem foldl_track_honest (f : Vec Rat → Rat) (l : List (Sol Rat)) (b : Sol Rat) (hb : Honest f b) (hl : ∀ x ∈ l, Honest f x) :
    Honest f (l.foldl track b) := by
  induction l generalizing b with
  | nil => exact hb
  | cons x xs ih => exact ih _ (track_honest f b x hb (hl x (by simp))) (fun y hy => hl y (by simp [hy]))

/-- **simplex_value_is_f** (step): the reported value stays the objective at the reported point -/
theorem simplex_value_is_f (f : Vec Rat → Rat) (s : Simplex Rat) (h : Honest f s.best) : Honest f (simplexStep f s).best := by
  have he : ∀ p, Honest f (evalAt f p) := fun p => rfl
  unfold simplexStep
  simp only
  split
  · split
    · exact track_honest f _ _ h (he _)
    · split
      · exact track_honest f _ _ (track_honest f _ _ h (he _)) (he _)
      · split
        · exact track_honest f _ _ (track_honest f _ _ h (he _)) (he _)
        · apply foldl_track_honest f _ _ (track_honest f _ _ (track_honest f _ _ h (he _)) (he _))
          intro x hx
          obtain ⟨v, _, rfl⟩ := List.mem_map.mp hx
          exact he _
  · exact h


/-- **simplexInit_honest**: after `init` (as repaired, F16) the reported value is the objective at the reported point, for
EVERY objective -- no bound on its values -/
theorem simplexInit_honest (f : Vec Rat → Rat) (x0 : Vec Rat) : Honest f (simplexInit f x0).best := by
  have he : ∀ p, Honest f (evalAt f p) := fun p => rfl
  have hv : ∀ v ∈ simplexVerts f x0, Honest f v := by
    intro v hv
    unfold simplexVerts at hv
    obtain ⟨j, _, rfl⟩ := List.mem_map.mp hv
    exact he _
  unfold simplexInit
  simp only
  split
  · exact he _
  · next v vs heq =>
    rw [heq] at hv
    exact foldl_track_honest f vs v (hv v (by simp)) (fun x hx => hv x (by simp [hx]))

/-- **simplex_value_is_f_run**: value consistency of the whole run, from `init`, without any hypothesis -/
theorem simplex_value_is_f_run (f : Vec Rat → Rat) (x0 : Vec Rat) (t : Nat) : Honest f (simplexRun f x0 t).best := by
  induction t with
  | zero => exact simplexInit_honest f x0
  | succ t ih => exact simplex_value_is_f f _ ih

/-- the pinned C++ (`m_best.value = 1e100` before the loop) agrees with the repaired `init` when the first vertex value is
below the magic number ... -/
theorem simplexInitMagic_eq_of_small (f : Vec Rat → Rat) (x0 p0 : Vec Rat) (v : Sol Rat) (vs : List (Sol Rat))
    (hverts : simplexVerts f x0 = v :: vs) (hsmall : v.value < 10 ^ 100) :
    (simplexInitMagic f x0 p0).best = (simplexInit f x0).best := by
  unfold simplexInitMagic simplexInit
  simp only [hverts, List.foldl_cons]
  have : track (⟨p0, Scalar.ofRat (10 ^ 100)⟩ : Sol Rat) v = v := by
    unfold track
    simp only [ofRat_rat]
    rw [if_pos hsmall]
  rw [this]

/-- ... and is NOT honest for an objective whose values are all at least `1e100` (witness: the constant `10^100 + 1` in
dimension one, fresh object = empty previous point): the reported value is the magic number, not the objective at the
reported point (F16) -/
theorem simplexInitMagic_not_honest_witness :
    ¬ Honest (fun _ => (10 : Rat) ^ 100 + 1) (simplexInitMagic (fun _ => (10 : Rat) ^ 100 + 1) [0] []).best := by
  unfold Honest simplexInitMagic simplexVerts evalAt track
  simp [List.range, List.range.loop, List.zipIdx]
  norm_num [Scalar.ofRat]

/-! ## Cholesky factor of CMSA and ElitistCMA: the covariance stays symmetric positive definite -/

/-- what `cholColumn` returns for column `j`: the new diagonal entry is `sqrt` of a positive number, lengths are kept -/
theorem cholColumn_spec (F : Fns Rat) (hsqrt : ∀ x : Rat, 0 < x → 0 < F.sqrt x) (a beta : Rat) (j : Nat) (col temp : Vec Rat) (bp : Rat)
    (col' temp' : Vec Rat) (bp' : Rat) (n : Nat) (hj : j < n) (hc : n ≤ col.length) (ht : n ≤ temp.length)
    (h : cholColumn F a beta j col temp bp = some (col', temp', bp')) :
    0 < Vec.get col' j ∧ n ≤ col'.length ∧ n ≤ temp'.length := by
  unfold cholColumn at h
  simp only at h
  split at h
  · cases h
  · next hx =>
    simp only [Option.some.injEq, Prod.mk.injEq] at h
    obtain ⟨rfl, rfl, _⟩ := h
    have hx' := not_le.mp hx
    refine ⟨?_, by simp; omega, by simp; omega⟩
    unfold Vec.get
    have hjl : j < (List.zip col temp).length := by simp; omega
    simp only [List.getD_eq_getElem?_getD, List.getElem?_map, List.getElem?_zipIdx, List.getElem?_eq_getElem hjl]
    simp only [Option.map_some, zero_add, lt_irrefl, if_false, if_true, Option.getD_some]
    exact hsqrt _ hx'

theorem cholCols_diag (F : Fns Rat) (hsqrt : ∀ x : Rat, 0 < x → 0 < F.sqrt x) (a beta : Rat) (n : Nat) :
    ∀ (cols : List (Vec Rat)) (j : Nat) (temp : Vec Rat) (bp : Rat) (cs : List (Vec Rat)),
      j + cols.length ≤ n → (∀ c ∈ cols, n ≤ c.length) → n ≤ temp.length →
      cholCols F a beta j cols temp bp = some cs →
      cs.length = cols.length ∧ ∀ k, k < cs.length → 0 < Vec.get (cs.getD k []) (j + k) := by
  intro cols
  induction cols with
  | nil =>
    intro j temp bp cs _ _ _ h
    simp only [cholCols, Option.some.injEq] at h
    subst h; exact ⟨rfl, fun k hk => absurd hk (by simp)⟩
  | cons col rest ih =>
    intro j temp bp cs hjn hcols ht h
    simp only [cholCols] at h
    split at h
    · cases h
    · next col' temp' bp' hcol =>
      split at h
      · cases h
      · next cs' hrec =>
        simp only [Option.some.injEq] at h
        subst h
        have hlen : (col :: rest).length = rest.length + 1 := rfl
        obtain ⟨hd, _, ht'⟩ := cholColumn_spec F hsqrt a beta j col temp bp col' temp' bp' n (by omega) (hcols col (by simp)) ht hcol
        obtain ⟨hl, hk⟩ := ih (j + 1) temp' bp' cs' (by omega) (fun c hc => hcols c (by simp [hc])) ht' hrec
        refine ⟨by simp [hl], ?_⟩
        intro k hk'
        cases k with
        | zero => simpa using hd
        | succ k =>
          have := hk k (by simpa using hk')
          have e : j + (k + 1) = j + 1 + k := by omega
          rw [e]; simpa using this

/-- the lower factor has a positive diagonal (then `L Lᵀ` is symmetric positive definite) -/
def DiagPos (cols : List (Vec Rat)) : Prop := ∀ k, k < cols.length → 0 < Vec.get (cols.getD k []) k

/-- **cholUpdate_diag_pos**: whenever the rank-one update `L Lᵀ ← alpha·L Lᵀ + beta·v vᵀ` of the C++ completes (it throws
when a pivot is not positive), the new factor has a positive diagonal again — for every `alpha > 0`, every `beta` (positive,
zero or negative: the active update) and every `v`. -/
theorem cholUpdate_diag_pos (F : Fns Rat) (hsqrt : ∀ x : Rat, 0 < x → 0 < F.sqrt x) (alpha beta : Rat) (halpha : 0 < alpha)
    (v : Vec Rat) (cols cs : List (Vec Rat)) (n : Nat) (hn : cols.length = n) (hc : ∀ c ∈ cols, n ≤ c.length)
    (hv : beta ≠ 0 → n ≤ v.length) (hd : DiagPos cols) (h : cholUpdate F alpha beta v cols = some cs) :
    cs.length = n ∧ DiagPos cs := by
  unfold cholUpdate at h
  split at h
  · simp only [Option.some.injEq] at h
    subst h
    refine ⟨by simp [hn], ?_⟩
    intro k hk
    have hk' : k < cols.length := by simpa using hk
    have := hd k hk'
    unfold Vec.get at *
    simp only [List.getD_eq_getElem?_getD, List.getElem?_map, List.getElem?_eq_getElem hk', Option.map_some, Option.getD_some] at *
    have hkc : k < (cols[k]).length := by have := hc cols[k] (List.getElem_mem hk'); omega
    simp only [List.getElem?_eq_getElem hkc, Option.map_some, Option.getD_some] at *
    exact mul_pos this (hsqrt _ halpha)
  · next hb =>
    have hb' : beta ≠ 0 := by
      intro e; apply hb; subst e; unfold Scalar.beq; simp
    obtain ⟨hl, hk⟩ := cholCols_diag F hsqrt (F.sqrt alpha) beta n cols 0 v Scalar.one cs (by omega) hc (hv hb') h
    refine ⟨by omega, ?_⟩
    intro k hk'
    simpa using hk k hk'

/-- a well-formed lower factor of dimension `n` with positive diagonal -/
def ValidFactor (n : Nat) (cols : List (Vec Rat)) : Prop := cols.length = n ∧ (∀ c ∈ cols, n ≤ c.length) ∧ DiagPos cols

theorem cholUpdate_valid (F : Fns Rat) (hsqrt : ∀ x : Rat, 0 < x → 0 < F.sqrt x) (alpha beta : Rat) (halpha : 0 < alpha)
    (v : Vec Rat) (cols cs : List (Vec Rat)) (n : Nat) (hV : ValidFactor n cols) (hv : beta ≠ 0 → n ≤ v.length)
    (h : cholUpdate F alpha beta v cols = some cs) : ValidFactor n cs := by
  obtain ⟨hn, hc, hd⟩ := hV
  obtain ⟨h1, h2⟩ := cholUpdate_diag_pos F hsqrt alpha beta halpha v cols cs n hn hc hv hd h
  refine ⟨h1, ?_, h2⟩
  -- column lengths: every returned column is at least as long as n
  unfold cholUpdate at h
  split at h
  · simp only [Option.some.injEq] at h; subst h
    intro c hcm
    obtain ⟨c0, hc0, rfl⟩ := List.mem_map.mp hcm
    simpa using hc c0 hc0
  · next hb =>
    have hb' : beta ≠ 0 := by
      intro e; apply hb; subst e; unfold Scalar.beq; simp
    have key : ∀ (cols : List (Vec Rat)) (j : Nat) (temp : Vec Rat) (bp : Rat) (cs : List (Vec Rat)),
        j + cols.length ≤ n → (∀ c ∈ cols, n ≤ c.length) → n ≤ temp.length →
        cholCols F (F.sqrt alpha) beta j cols temp bp = some cs → ∀ c ∈ cs, n ≤ c.length := by
      intro cols
      induction cols with
      | nil => intro j temp bp cs _ _ _ h; simp only [cholCols, Option.some.injEq] at h; subst h; simp
      | cons col rest ih =>
        intro j temp bp cs hjn hcols ht h
        simp only [cholCols] at h
        split at h
        · cases h
        · next col' temp' bp' hcol =>
          split at h
          · cases h
          · next cs' hrec =>
            simp only [Option.some.injEq] at h; subst h
            have hlen : (col :: rest).length = rest.length + 1 := rfl
            obtain ⟨_, hcl, ht'⟩ := cholColumn_spec F hsqrt _ beta j col temp bp col' temp' bp' n (by omega) (hcols col (by simp)) ht hcol
            intro c hcm
            rcases List.mem_cons.mp hcm with rfl | hcm
            · exact hcl
            · exact ih (j + 1) temp' bp' cs' (by omega) (fun c hc => hcols c (by simp [hc])) ht' hrec c hcm
    exact key cols 0 v Scalar.one cs (by omega) hc (hv hb') h

/-- **cmsa_factor_valid**: `CMSA::updatePopulation` keeps a valid Cholesky factor (covariance symmetric positive definite)
whenever it completes: shrink by `1 − 1/c_C > 0`, then `μ` rank-one updates with non-negative weight -/
theorem cmsa_factor_valid (F : Fns Rat) (hsqrt : ∀ x : Rat, 0 < x → 0 < F.sqrt x) (cC : Rat) (hcC : 1 < cC) (n mu : Nat)
    (s s' : Cmsa Rat) (sel : List (CmsaInd Rat)) (hsel : ∀ i ∈ sel, n ≤ i.step.length) (hV : ValidFactor n s.L)
    (h : cmsaUpdate F cC n mu s sel = some s') : ValidFactor n s'.L := by
  unfold cmsaUpdate at h
  simp only [Option.map_eq_some_iff] at h
  obtain ⟨L, hL, rfl⟩ := h
  show ValidFactor n L
  have h0 : 0 < cC := by linarith
  have ha : (0 : Rat) < Scalar.one - Scalar.one / cC := by
    simp only [sone_rat]
    have : 1 / cC < 1 := by rw [div_lt_one h0]; exact hcC
    linarith
  have key : ∀ (l : List (CmsaInd Rat)) (acc : Option (List (Vec Rat))) (L : List (Vec Rat)),
      (∀ i ∈ l, n ≤ i.step.length) → (∀ A, acc = some A → ValidFactor n A) →
      l.foldl (fun (acc : Option (List (Vec Rat))) i => acc.bind fun L => cholUpdate F Scalar.one (Scalar.one / ofNat mu * Scalar.one / cC) i.step L) acc = some L →
      ValidFactor n L := by
    intro l
    induction l with
    | nil => intro acc L _ hacc h; exact hacc L h
    | cons x xs ih =>
      intro acc L hl hacc h
      simp only [List.foldl_cons] at h
      refine ih _ L (fun i hi => hl i (by simp [hi])) ?_ h
      intro A hA
      cases acc with
      | none => simp at hA
      | some A0 =>
        simp only [Option.bind_some] at hA
        exact cholUpdate_valid F hsqrt _ _ (by simp) x.step A0 A n (hacc A0 rfl) (fun _ => hl x (by simp)) hA
  refine key sel _ L hsel ?_ hL
  intro A hA
  exact cholUpdate_valid F hsqrt _ _ ha [] s.L A n hV (fun hb => absurd rfl hb) hA

theorem roundUpdate_valid (F : Fns Rat) (hsqrt : ∀ x : Rat, 0 < x → 0 < F.sqrt x) (k : EcmaConsts Rat)
    (hcCov : 0 < k.cCov ∧ k.cCov < 1) (hcPath : 0 < k.cPath ∧ k.cPath ≤ 1) (n : Nat) (path : Vec Rat) (L : List (Vec Rat))
    (pl : Vec Rat × List (Vec Rat)) (hp : n ≤ path.length) (hV : ValidFactor n L) (h : roundUpdate F k path L = some pl) :
    ValidFactor n pl.2 ∧ n ≤ pl.1.length := by
  unfold roundUpdate at h
  simp only [Option.map_eq_some_iff] at h
  obtain ⟨L', hL', rfl⟩ := h
  have hw : (0 : Rat) ≤ k.cPath * (Scalar.two - k.cPath) := by
    simp only [stwo_rat]; nlinarith [hcPath.1, hcPath.2]
  refine ⟨cholUpdate_valid F hsqrt _ _ ?_ _ L L' n hV (fun _ => by simpa using hp) hL', by simpa using hp⟩
  simp only [sone_rat]; linarith [hcCov.2]

/-- **ecma_factor_valid**: whenever `ElitistCMA::step` completes, the Cholesky factor of the covariance is valid again
(positive diagonal ⇒ covariance symmetric positive definite) — for the rank-one update after a success, the "round" update and
the active (negative) update after a failure, with the learning rates in the ranges proved by `ecma_consts_admissible`. -/
theorem ecma_factor_valid (F : Fns Rat) (hsqrt : ∀ x : Rat, 0 < x → 0 < F.sqrt x) (k : EcmaConsts Rat)
    (hcCov : 0 < k.cCov ∧ k.cCov < 1) (hcPath : 0 < k.cPath ∧ k.cPath ≤ 1) (hcU : 0 < k.cUnlearn) (n : Nat)
    (s s' : Ecma Rat) (y : Vec Rat) (zz fp fu : Rat) (hzz : 0 ≤ zz) (hy : n ≤ y.length) (hp : n ≤ s.path.length)
    (hV : ValidFactor n s.L) (h : ecmaStep F k s y zz fp fu = some s') : ValidFactor n s'.L ∧ n ≤ s'.path.length := by
  unfold ecmaStep at h
  simp only at h
  split at h
  · simp only [Option.map_eq_some_iff] at h
    obtain ⟨u, hu, rfl⟩ := h
    show ValidFactor n u.L ∧ n ≤ u.path.length
    unfold updateAsOffspring at hu
    simp only [Option.map_eq_some_iff] at hu
    obtain ⟨pl, hpl, rfl⟩ := hu
    show ValidFactor n pl.2 ∧ n ≤ pl.1.length
    split at hpl
    · simp only [Option.map_eq_some_iff] at hpl
      obtain ⟨L', hL', rfl⟩ := hpl
      have hlen : n ≤ (List.zipWith (fun pi yi => pi * (Scalar.one - k.cPath) + F.sqrt (k.cPath * (Scalar.two - k.cPath)) * yi) s.path y).length := by
        simp; omega
      refine ⟨cholUpdate_valid F hsqrt _ _ ?_ _ s.L L' n hV (fun _ => hlen) hL', hlen⟩
      simp only [sone_rat]; linarith [hcCov.2]
    · exact roundUpdate_valid F hsqrt k hcCov hcPath n s.path s.L pl hp hV hpl
  · next hne =>
    simp only [Option.map_eq_some_iff] at h
    obtain ⟨u, hu, rfl⟩ := h
    show ValidFactor n u.L ∧ n ≤ u.path.length
    unfold updateAsParent at hu
    simp only at hu
    split at hu
    · cases hu; exact ⟨hV, hp⟩
    · split at hu
      · simp only [Option.map_eq_some_iff] at hu
        obtain ⟨L', hL', rfl⟩ := hu
        obtain ⟨hr, _⟩ := active_update_admissible k.cUnlearn zz hcU hzz
        refine ⟨cholUpdate_valid F hsqrt _ _ ?_ y s.L L' n hV (fun _ => hy) hL', hp⟩
        simp only [sone_rat]; linarith
      · simp only [Option.map_eq_some_iff] at hu
        obtain ⟨pl, hpl, rfl⟩ := hu
        exact roundUpdate_valid F hsqrt k hcCov hcPath n s.path s.L pl hp hV hpl

/-- non-vacuity: the identity factor is valid, and a rank-one update of it with the identity `sqrt` completes -/
example : ValidFactor 1 [[1]] := ⟨rfl, by simp, by intro k hk; simp at hk; subst hk; simp [Vec.get]⟩
example : cholUpdate idFns 1 1 [1] [[1]] = some [[2]] := by decide +kernel

/-! ## configuration axes of the public interface: `ElitistCMA::activeUpdate()`, `CMA::setLowerBound`,
`CrossEntropyMethod::setNoiseType` — the theorems hold for EVERY setting, not only for the defaults -/

/-- `ElitistCMA::init` establishes the invariant of `ecma_elitist_monotone` when the starting point is feasible -/
theorem ecmaInit_invariant (sigma pSucc : Rat) (n : Nat) (L : List (Vec Rat)) (x0 : Vec Rat) (f : Rat) :
    (ecmaInit sigma pSucc n L x0 f f).anc.getLast? = some (ecmaInit sigma pSucc n L x0 f f).bestValue := by
  simp [ecmaInit, List.replicate]

/-- **ecma_elitist_monotone_run**: for BOTH settings of `activeUpdate()` (`k.active` is universally quantified), every
number of steps and every sequence of samples and (unpenalized = penalized) fitness values: the value reported after the
run is not worse than the one reported before, and the parent's accepted fitness is still the reported value. -/
theorem ecma_elitist_monotone_run (F : Fns Rat) (k : EcmaConsts Rat) (inputs : List (EcmaInput Rat)) (s s' : Ecma Rat)
    (hfeas : ∀ i ∈ inputs, i.fu = i.fp) (hinv : s.anc.getLast? = some s.bestValue) (h : ecmaRun F k s inputs = some s') :
    s'.bestValue ≤ s.bestValue ∧ s'.anc.getLast? = some s'.bestValue := by
  induction inputs generalizing s with
  | nil =>
    simp only [ecmaRun, Option.some.injEq] at h
    subst h; exact ⟨le_refl _, hinv⟩
  | cons i rest ih =>
    simp only [ecmaRun, Option.bind_eq_some_iff] at h
    obtain ⟨u, hu, hrest⟩ := h
    have hf : i.fu = i.fp := hfeas i (by simp)
    rw [hf] at hu
    obtain ⟨h1, h2, _⟩ := ecma_elitist_monotone F k s u i.y i.zz i.fp hinv hu
    obtain ⟨h3, h4⟩ := ih u (fun j hj => hfeas j (by simp [hj])) h2 hrest
    exact ⟨le_trans h3 h1, h4⟩

/-- every prefix of a run reports a value at least as good as every shorter prefix (monotone after EVERY step) -/
theorem ecma_elitist_monotone_prefix (F : Fns Rat) (k : EcmaConsts Rat) (l1 l2 : List (EcmaInput Rat)) (s s1 s2 : Ecma Rat)
    (hfeas : ∀ i ∈ l1 ++ l2, i.fu = i.fp) (hinv : s.anc.getLast? = some s.bestValue)
    (h1 : ecmaRun F k s l1 = some s1) (h2 : ecmaRun F k s1 l2 = some s2) : s2.bestValue ≤ s1.bestValue := by
  have a := ecma_elitist_monotone_run F k l1 s s1 (fun i hi => hfeas i (by simp [hi])) hinv h1
  exact (ecma_elitist_monotone_run F k l2 s1 s2 (fun i hi => hfeas i (by simp [hi])) a.2 h2).1

/-- **ecma_accepted_monotone**: with penalties (infeasible offspring, `fp ≠ fu`) the REPORTED value is the unpenalized fitness
and need not be monotone, but the accepted penalized fitness — the newest entry of the history, against which offspring are
compared — never increases, for both settings of `activeUpdate()`. -/
theorem ecma_accepted_monotone (F : Fns Rat) (k : EcmaConsts Rat) (s s' : Ecma Rat) (y : Vec Rat) (zz fp fu a : Rat)
    (ha : s.anc.getLast? = some a) (h : ecmaStep F k s y zz fp fu = some s') :
    ∃ a', s'.anc.getLast? = some a' ∧ a' ≤ a := by
  unfold ecmaStep at h
  simp only at h
  split at h
  · next hc =>
    simp only [Option.map_eq_some_iff] at h
    obtain ⟨u, hu, rfl⟩ := h
    refine ⟨fp, by simp, ?_⟩
    unfold classify at hc
    rw [ha] at hc
    simp only at hc
    by_contra hge
    have hge' : a ≤ fp := le_of_lt (not_le.mp hge)
    simp only [hge', if_true] at hc
    split at hc
    · split at hc <;> cases hc
    · cases hc
  · next succ hne =>
    simp only [Option.map_eq_some_iff] at h
    obtain ⟨u, hu, rfl⟩ := h
    obtain ⟨_, _, hanc, _, _⟩ := updateAsParent_sigma F k s u _ zz y hne hu
    exact ⟨a, by show u.anc.getLast? = some a; rw [hanc]; exact ha, le_refl _⟩

/-! ### rank invariance of ElitistCMA (both settings of `activeUpdate()`) -/

/-- the state of a run on `φ ∘ f`: the history of accepted fitness values and the reported value are relabelled,
everything else (step size, success probability, path, Cholesky factor, points) is the same -/
def ecmaRelabel (φ : Rat → Rat) (s : Ecma Rat) : Ecma Rat := { s with anc := s.anc.map φ, bestValue := φ s.bestValue }

theorem lt_iff_of_orderPreserving (φ : Rat → Rat) (hφ : OrderPreserving φ) (a b : Rat) : a < b ↔ φ a < φ b := by
  have h := hφ b a
  rw [← not_le, ← not_le]
  constructor
  · intro h1 h2; exact h1 (of_decide_eq_true (h ▸ decide_eq_true h2))
  · intro h1 h2; exact h1 (of_decide_eq_true (h ▸ decide_eq_true h2))

theorem le_iff_of_orderPreserving (φ : Rat → Rat) (hφ : OrderPreserving φ) (a b : Rat) : a ≤ b ↔ φ a ≤ φ b := by
  have h := hφ a b
  constructor
  · intro h1; exact of_decide_eq_true (h ▸ decide_eq_true h1)
  · intro h1; exact of_decide_eq_true (h.symm ▸ decide_eq_true h1)

/-- the three-way success rule only compares the offspring's fitness with entries of the history -/
theorem classify_relabel (φ : Rat → Rat) (hφ : OrderPreserving φ) (active : Bool) (anc : List Rat) (fp : Rat) :
    classify active (anc.map φ) (φ fp) = classify active anc fp := by
  unfold classify
  rw [List.getLast?_map, List.head?_map]
  cases h1 : anc.getLast? <;> cases h2 : anc.head? <;>
    simp only [Option.map_none, Option.map_some, ← le_iff_of_orderPreserving φ hφ, ← lt_iff_of_orderPreserving φ hφ]

theorem updateAsOffspring_relabel (F : Fns Rat) (k : EcmaConsts Rat) (φ : Rat → Rat) (s : Ecma Rat) (y : Vec Rat) :
    updateAsOffspring F k (ecmaRelabel φ s) y = (updateAsOffspring F k s y).map (ecmaRelabel φ) := by
  unfold updateAsOffspring
  simp only [ecmaRelabel, Option.map_map]
  rfl

theorem updateAsParent_relabel (F : Fns Rat) (k : EcmaConsts Rat) (φ : Rat → Rat) (s : Ecma Rat) (succ : Success) (zz : Rat) (y : Vec Rat) :
    updateAsParent F k (ecmaRelabel φ s) succ zz y = (updateAsParent F k s succ zz y).map (ecmaRelabel φ) := by
  unfold updateAsParent
  simp only [ecmaRelabel]
  repeat' split
  all_goals first | rfl | (simp only [Option.map_map]; rfl)

/-- **ecma_step_rank_invariant**: one `ElitistCMA::step` on `φ ∘ f` (offspring fitness `φ fp`, `φ fu`) from the relabelled
state is the relabelled step on `f`, for every order-preserving `φ` and both settings of `activeUpdate()` -/
theorem ecma_step_rank_invariant (F : Fns Rat) (k : EcmaConsts Rat) (φ : Rat → Rat) (hφ : OrderPreserving φ)
    (s : Ecma Rat) (y : Vec Rat) (zz fp fu : Rat) :
    ecmaStep F k (ecmaRelabel φ s) y zz (φ fp) (φ fu) = (ecmaStep F k s y zz fp fu).map (ecmaRelabel φ) := by
  unfold ecmaStep
  have hc : classify k.active (ecmaRelabel φ s).anc (φ fp) = classify k.active s.anc fp := classify_relabel φ hφ k.active s.anc fp
  simp only [hc]
  cases hcl : classify k.active s.anc fp
  · simp only [updateAsOffspring_relabel, Option.map_map]
    congr 1
    funext u
    simp [ecmaRelabel, List.map_drop]
  · simp only [updateAsParent_relabel, Option.map_map]
    congr 1
  · simp only [updateAsParent_relabel, Option.map_map]
    congr 1

/-- **ecma_rank_invariance**: whole runs.  On `φ ∘ f` with the same samples ElitistCMA visits the same points with the same
step sizes and covariance factors; the reported value and the history are the `φ`-images. -/
theorem ecma_rank_invariance (F : Fns Rat) (k : EcmaConsts Rat) (φ : Rat → Rat) (hφ : OrderPreserving φ)
    (inputs : List (EcmaInput Rat)) (s : Ecma Rat) :
    ecmaRun F k (ecmaRelabel φ s) (inputs.map fun i => { i with fp := φ i.fp, fu := φ i.fu }) =
      (ecmaRun F k s inputs).map (ecmaRelabel φ) := by
  induction inputs generalizing s with
  | nil => simp [ecmaRun]
  | cons i rest ih =>
    simp only [List.map_cons, ecmaRun, ecma_step_rank_invariant F k φ hφ]
    cases h : ecmaStep F k s i.y i.zz i.fp i.fu with
    | none => simp
    | some u => simp [ih u]

/-- the relabelled initial state is the initial state of the run on `φ ∘ f` -/
theorem ecmaInit_relabel (φ : Rat → Rat) (sigma pSucc : Rat) (n : Nat) (L : List (Vec Rat)) (x0 : Vec Rat) (fp fu : Rat) :
    ecmaRelabel φ (ecmaInit sigma pSucc n L x0 fp fu) = ecmaInit sigma pSucc n L x0 (φ fp) (φ fu) := by
  simp [ecmaRelabel, ecmaInit]

example : OrderPreserving (fun x : Rat => 2 * x) := by
  intro a b; simp

/-- non-vacuity with the active update switched OFF: a successful step from the initial state -/
def k0 : EcmaConsts Rat := { pTarget := 2/11, dStep := 3/2, cP := 1/12, cPath := 2/3, cCov := 2/7, cUnlearn := 1/5, threshold := 11/25, active := false }
example : (ecmaRun idFns k0 (ecmaInit 1 (2/11) 1 [[1]] [2] 4 4) [⟨[-1], 1, 1, 1⟩, ⟨[1], 1, 3, 3⟩]).isSome = true := by decide +kernel

/-- the stability clamp of `CMA::updatePopulation` keeps the step size positive for EVERY bound the user may set with
`CMA::setLowerBound` (zero and negative bounds included: the clamp then never fires) -/
theorem clamp_pos_any (F : Fns Rat) (lb sigma ev : Rat) (hs : 0 < sigma)
    (hr : 0 < F.sqrt (Scalar.abs ev)) : 0 < clampSigma F lb sigma ev := by
  unfold clampSigma
  simp only
  split
  · next hlt => exact div_pos (lt_trans (mul_pos hs hr) hlt) hr
  · exact hs

/-- **sigma_pos_any_bound**: `sigma_pos` without the hypothesis `0 < lowerBound` -/
theorem sigma_pos_any_bound (F : Fns Rat) (W : World Rat) (c : Coeffs Rat) (n mu : Nat) (fit : Vec Rat → Rat)
    (hexp : ∀ x, 0 < F.exp x) (hr : ∀ C, 0 < F.sqrt (Scalar.abs (W.lastEig C)))
    (s : State Rat) (hs : 0 < s.dist.sigma) (t : Nat) : 0 < (run F W c n mu fit s t).dist.sigma := by
  induction t with
  | zero => exact hs
  | succ t ih =>
    have key : ∀ s : State Rat, 0 < s.dist.sigma → 0 < (step F W c n mu fit s).dist.sigma := by
      intro s hs
      unfold step finish
      simp only
      have hpos : ∀ sel, 0 < clampSigma F W.lowerBound (update F c n s.dist sel (W.eigVec s.dist.C)).sigma
          (W.lastEig (update F c n s.dist sel (W.eigVec s.dist.C)).C) := by
        intro sel
        apply clamp_pos_any F _ _ _ _ (hr _)
        unfold update
        exact sigma_update_pos F hexp c n _ _ hs
      split <;> exact hpos _
    exact key _ ih

/-- the noise term of the cross-entropy method is non-negative for every noise type and every generation -/
theorem cemNoise_nonneg (nz : CemNoise Rat) (t : Nat) : 0 ≤ cemNoise nz t := by
  unfold cemNoise
  cases nz <;> simp only [smax_rat, szero_rat] <;> exact le_max_right _ _

/-- **cem_variance_nonneg_any_noise**: the variance stays non-negative under every `setNoiseType` configuration -/
theorem cem_variance_nonneg_any_noise (nz : CemNoise Rat) (t n : Nat) (sel : List (List Rat)) :
    ∀ v ∈ (cemUpdate (cemNoise nz t) n sel).2, 0 ≤ v :=
  cem_variance_nonneg _ (cemNoise_nonneg nz t) n sel

/-! ## non-vacuity of the hypotheses used above -/
/-- libm stand-ins satisfying every hypothesis at once: `log`, `sqrt` the identity, `exp`, `pow` the constant 1 -/
def unitFns : Fns Rat := { log := id, sqrt := id, exp := fun _ => 1, pow := fun _ _ => 1 }
example : 1 < (cmsa_consts unitFns 3 2).cC := (cmsa_consts_admissible unitFns (fun _ h => h) 3 2 (by norm_num) (by norm_num)).2.1
example : (ecma_consts unitFns 2).cCov < 1 := (ecma_consts_admissible unitFns (fun _ _ => by simp [unitFns]) 2 (by norm_num)).2.2.2.2.1.2
example : 0 < vdcma_correction unitFns 3 := (vdcma_correction_ok unitFns 3 (by norm_num)).1
example : 0 < (vdcma_c1 unitFns 7 (vdcma_correction unitFns 7) 2) :=
  (vdcma_rates_of_correction unitFns 7 (by norm_num) _ 2 (vdcma_correction_ok unitFns 7 (by norm_num)).1
    (vdcma_correction_ok unitFns 7 (by norm_num)).2 (by norm_num)).1.1
example : (((3 : Nat) : Rat) - 5) / 6 * 2 / ((((3 : Nat) : Rat) + 13/10) * (((3 : Nat) : Rat) + 13/10) + 2) ≤ 0 :=
  vdcma_head_formula_not_positive 3 (by norm_num) 2 (by norm_num)
example : 0 < (1 + ES.activeRate (1/5 : Rat) 9) - ES.activeRate (1/5 : Rat) 9 * 9 :=
  (active_update_admissible (1/5) 9 (by norm_num) (by norm_num)).2
/-- a one-dimensional elitist step that completes: the hypotheses of `ecma_sigma_pos` / `ecma_factor_valid` are satisfiable -/
def k1 : EcmaConsts Rat := { pTarget := 2/11, dStep := 3/2, cP := 1/12, cPath := 2/3, cCov := 2/7, cUnlearn := 1/5, threshold := 11/25, active := true }
def s1 : Ecma Rat := { sigma := 1, pSucc := 2/11, path := [0], L := [[1]], anc := [4, 4, 4, 4, 4], bestPoint := [2], bestValue := 4, x := [2] }
example : (ecmaStep unitFns k1 s1 [-1] 1 1 1).isSome = true := by decide +kernel
example : ValidFactor 1 s1.L := ⟨rfl, by simp [s1], by intro k hk; simp [s1] at hk; subst hk; simp [Vec.get, s1]⟩

open SharkVerif.CMACov

/-! ## covariance of the modelled `CMA::updatePopulation`: symmetric positive (semi)definite after every step, end to end

On the list-based matrices the executable model (and the native driver) computes with (`Lemmas/CMACov.lean`). -/
section covpd

/-- `hSig` of `CMA.update` -/
def updHSig (F : Fns Rat) (c : Coeffs Rat) (n : Nat) (d : CMA.Dist Rat) : Rat :=
  let one : Rat := Scalar.one
  let two : Rat := Scalar.two
  let counter := d.counter + 1
  let chi := expectedChi F n
  let hl := norm2 F d.ps / F.sqrt (one - F.pow (one - c.cSigma) (two * (ofNat counter + one)))
  let hr := (Scalar.ofRat (14/10) + two / (ofNat n + one)) * chi
  if hl < hr then one else Scalar.zero

/-- `deltaHSig` of `CMA.update` -/
def updDelta (F : Fns Rat) (c : Coeffs Rat) (n : Nat) (d : CMA.Dist Rat) : Rat :=
  (Scalar.one - updHSig F c n d * updHSig F c n d) * c.cC * (Scalar.two - c.cC)

/-- the new evolution path `p_c` of `CMA.update` -/
def updPc (F : Fns Rat) (c : Coeffs Rat) (n : Nat) (d : CMA.Dist Rat) (sel : List (Indiv Rat)) : Vec Rat :=
  let m := wsum n c.weights (sel.map (·.point))
  let y := (Vec.sub m d.mean).map (· / d.sigma)
  let k := updHSig F c n d * F.sqrt (c.cC * (Scalar.two - c.cC) * c.muEff)
  List.zipWith (fun p yi => (Scalar.one - c.cC) * p + k * yi) d.pc y

/-- the covariance written by the modelled `updatePopulation` IS eq. (43) applied to the old covariance, the new path
and the rank-μ matrix of the selected points (definitional unfolding of `CMA.update`) -/
theorem update_C (F : Fns Rat) (c : Coeffs Rat) (n : Nat) (d : CMA.Dist Rat) (sel : List (Indiv Rat)) (B : Mat Rat) :
    (update F c n d sel B).C = covUpdate c (updDelta F c n d) d.sigma d.C (updPc F c n d sel)
      (rankMu n c.weights (sel.map (·.point)) d.mean) := rfl

theorem update_pc (F : Fns Rat) (c : Coeffs Rat) (n : Nat) (d : CMA.Dist Rat) (sel : List (Indiv Rat)) (B : Mat Rat) :
    (update F c n d sel B).pc = updPc F c n d sel := rfl

theorem update_mean (F : Fns Rat) (c : Coeffs Rat) (n : Nat) (d : CMA.Dist Rat) (sel : List (Indiv Rat)) (B : Mat Rat) :
    (update F c n d sel B).mean = wsum n c.weights (sel.map (·.point)) := rfl

theorem updHSig_cases (F : Fns Rat) (c : Coeffs Rat) (n : Nat) (d : CMA.Dist Rat) :
    updHSig F c n d = 1 ∨ updHSig F c n d = 0 := by
  unfold updHSig
  dsimp only
  split
  · left; rfl
  · right; rfl

theorem updDelta_nonneg (F : Fns Rat) (c : Coeffs Rat) (n : Nat) (d : CMA.Dist Rat) (hcC : 0 < c.cC ∧ c.cC ≤ 1) :
    0 ≤ updDelta F c n d := by
  unfold updDelta
  simp only [sone_rat, stwo_rat]
  have : 0 ≤ c.cC * (2 - c.cC) := mul_nonneg hcC.1.le (by linarith [hcC.2])
  rcases updHSig_cases F c n d with h | h <;> rw [h] <;> nlinarith

theorem wsum_length (n : Nat) (w : Vec Rat) (vs : List (Vec Rat)) (h : ∀ v ∈ vs, v.length = n) :
    (wsum n w vs).length = n := by
  unfold wsum
  have hl : ∀ wv ∈ List.zip w vs, wv.2.length = n := fun wv hm => h _ (List.of_mem_zip hm).2
  generalize List.zip w vs = l at hl
  have h0 : (Vec.zeros n : Vec Rat).length = n := by simp [Vec.zeros]
  generalize (Vec.zeros n : Vec Rat) = acc at h0
  induction l generalizing acc with
  | nil => exact h0
  | cons a l ih =>
    simp only [List.foldl_cons]
    refine ih (fun wv hm => hl wv (by simp [hm])) _ ?_
    simp [Vec.axpy, h0, hl a (by simp)]

theorem updPc_length (F : Fns Rat) (c : Coeffs Rat) (n : Nat) (d : CMA.Dist Rat) (sel : List (Indiv Rat))
    (hpc : d.pc.length = n) (hmean : d.mean.length = n) (hsel : ∀ i ∈ sel, i.point.length = n) :
    (updPc F c n d sel).length = n := by
  have hm : (wsum n c.weights (sel.map (·.point))).length = n :=
    wsum_length n _ _ (by intro v hv; obtain ⟨i, hi, rfl⟩ := List.mem_map.mp hv; exact hsel i hi)
  unfold updPc
  simp [Vec.sub, hm, hmean, hpc]

/-- the part of `Coeffs` the covariance theorem needs (what `doInit_admissible` proves of `CMA::doInit`) -/
def CovAdmissible (c : Coeffs Rat) : Prop :=
  (∀ x ∈ c.weights, 0 ≤ x) ∧ 0 ≤ c.c1 ∧ 0 ≤ c.cMu ∧ 0 ≤ 1 - c.c1 - c.cMu ∧ (0 < c.cC ∧ c.cC ≤ 1)

/-- **cma_update_cov_psd.**  One modelled `CMA::updatePopulation` with admissible coefficients keeps the covariance
symmetric positive SEMIdefinite — for every dimension, every selection, every step size (even 0), every `hSig`. -/
theorem cma_update_cov_psd (F : Fns Rat) (c : Coeffs Rat) (hc : CovAdmissible c) (n : Nat) (d : CMA.Dist Rat)
    (sel : List (Indiv Rat)) (B : Mat Rat) (hC : PSD n d.C) (hpc : d.pc.length = n) (hmean : d.mean.length = n)
    (hsel : ∀ i ∈ sel, i.point.length = n) : PSD n (update F c n d sel B).C := by
  obtain ⟨hw, hc1, hcmu, ha, hcC⟩ := hc
  rw [update_C]
  have hδ := updDelta_nonneg F c n d hcC
  refine covUpdate_psd n c _ _ _ _ _ hC ?_ (updPc_length F c n d sel hpc hmean hsel) ?_ hc1 hcmu
  · exact rankMu_psd n _ _ _ hw (by intro v hv; obtain ⟨i, hi, rfl⟩ := List.mem_map.mp hv; exact hsel i hi) hmean
  · have := mul_nonneg hc1 hδ; linarith

/-- **cma_update_cov_pd_partial.**  … and symmetric positive DEFINITE, provided the old covariance keeps a positive
weight `1 − c₁ − c_μ > 0`.  `_partial`: `CMA::doInit` caps `c_μ` at `1 − c₁`, and the cap is reached for populations
large relative to the dimension (`cma_cmu_cap_reached`: n = 1, μ = 10, equal weights); there the weight is 0 and the
theorem is FALSE: `cma_cov_collapse_witness` — this is finding F17 on the real code. -/
theorem cma_update_cov_pd_partial (F : Fns Rat) (c : Coeffs Rat) (hc : CovAdmissible c) (hfloor : 0 < 1 - c.c1 - c.cMu)
    (n : Nat) (d : CMA.Dist Rat) (sel : List (Indiv Rat)) (B : Mat Rat) (hC : PD n d.C) (hpc : d.pc.length = n)
    (hmean : d.mean.length = n) (hsel : ∀ i ∈ sel, i.point.length = n) : PD n (update F c n d sel B).C := by
  obtain ⟨hw, hc1, hcmu, _, hcC⟩ := hc
  rw [update_C]
  have hδ := updDelta_nonneg F c n d hcC
  refine covUpdate_pd n c _ _ _ _ _ hC ?_ (updPc_length F c n d sel hpc hmean hsel) ?_ hc1 hcmu
  · exact rankMu_psd n _ _ _ hw (by intro v hv; obtain ⟨i, hi, rfl⟩ := List.mem_map.mp hv; exact hsel i hi) hmean
  · have := mul_nonneg hc1 hδ; linarith

/-- the coefficients computed by the modelled `CMA::doInit` (regenerated formulas) are admissible for the covariance
theorem: every `n ≥ 1`, every `μ ≥ 1` (every admissible user-set `λ > μ`), every recombination type -/
theorem doInit_covAdmissible (F : Fns Rat) (hlog : LogMono F) (n mu recomb : Nat) (hn : 1 ≤ n) (hmu : 1 ≤ mu) :
    CovAdmissible (doInitCoeffs F n mu recomb) := by
  obtain ⟨⟨_, hw, _, _⟩, _, hc1, hcmu, _, hcC, _⟩ := doInit_admissible F hlog n mu recomb hn hmu
  exact ⟨fun x hx => (hw x hx).le, hc1.1.le, hcmu.1.le, hcmu.2.2, hcC⟩

/-- the invariant of a run: covariance SPD (resp. SPSD), path and mean of the right length -/
def DistPD (n : Nat) (d : CMA.Dist Rat) : Prop := PD n d.C ∧ d.pc.length = n ∧ d.mean.length = n
def DistPSD (n : Nat) (d : CMA.Dist Rat) : Prop := PSD n d.C ∧ d.pc.length = n ∧ d.mean.length = n

/-- the sampler returns search points of dimension `n` -/
def SamplesOK (n : Nat) (W : World Rat) : Prop := ∀ d t, ∀ pz ∈ W.sample d t, pz.1.length = n

theorem finish_dist (F : Fns Rat) (W : World Rat) (c : Coeffs Rat) (n : Nat) (s : State Rat) (sel : List (Indiv Rat)) :
    (finish F W c n s sel).dist.C = (update F c n s.dist sel (W.eigVec s.dist.C)).C ∧
    (finish F W c n s sel).dist.pc = (update F c n s.dist sel (W.eigVec s.dist.C)).pc ∧
    (finish F W c n s sel).dist.mean = (update F c n s.dist sel (W.eigVec s.dist.C)).mean := by
  unfold finish
  cases sel <;> exact ⟨rfl, rfl, rfl⟩

theorem selected_shape (W : World Rat) (hW : SamplesOK n W) (fit : Vec Rat → Rat) (s : State Rat) (mu : Nat) :
    ∀ i ∈ select (offspring W fit s) mu, i.point.length = n := by
  intro i hi
  unfold select at hi
  have := List.mem_of_mem_take hi
  rw [List.mem_mergeSort] at this
  unfold offspring at this
  obtain ⟨pz, hpz, rfl⟩ := List.mem_map.mp this
  exact hW _ _ pz hpz

theorem step_distPSD (F : Fns Rat) (W : World Rat) (c : Coeffs Rat) (hc : CovAdmissible c) (n mu : Nat)
    (hW : SamplesOK n W) (fit : Vec Rat → Rat) (s : State Rat) (h : DistPSD n s.dist) :
    DistPSD n (step F W c n mu fit s).dist := by
  unfold step
  obtain ⟨e1, e2, e3⟩ := finish_dist F W c n s (select (offspring W fit s) mu)
  have hsel := selected_shape W hW fit s mu
  unfold DistPSD
  rw [e1, e2, e3, update_pc, update_mean]
  refine ⟨cma_update_cov_psd F c hc n _ _ _ h.1 h.2.1 h.2.2 hsel, updPc_length F c n _ _ h.2.1 h.2.2 hsel, ?_⟩
  exact wsum_length n _ _ (by intro v hv; obtain ⟨i, hi, rfl⟩ := List.mem_map.mp hv; exact hsel i hi)

theorem step_distPD (F : Fns Rat) (W : World Rat) (c : Coeffs Rat) (hc : CovAdmissible c) (hfloor : 0 < 1 - c.c1 - c.cMu)
    (n mu : Nat) (hW : SamplesOK n W) (fit : Vec Rat → Rat) (s : State Rat) (h : DistPD n s.dist) :
    DistPD n (step F W c n mu fit s).dist := by
  unfold step
  obtain ⟨e1, e2, e3⟩ := finish_dist F W c n s (select (offspring W fit s) mu)
  have hsel := selected_shape W hW fit s mu
  unfold DistPD
  rw [e1, e2, e3, update_pc, update_mean]
  refine ⟨cma_update_cov_pd_partial F c hc hfloor n _ _ _ h.1 h.2.1 h.2.2 hsel, updPc_length F c n _ _ h.2.1 h.2.2 hsel, ?_⟩
  exact wsum_length n _ _ (by intro v hv; obtain ⟨i, hi, rfl⟩ := List.mem_map.mp hv; exact hsel i hi)

/-- **cma_run_cov_psd** (end to end).  Whole modelled CMA-ES runs with the coefficients of the modelled `doInit`
(regenerated formulas): for every dimension `n ≥ 1`, every `μ ≥ 1`, every recombination type, every objective, every
variate stream (sampler of `n`-dimensional points), every eigendecomposition, every lower bound, after every number of
generations the covariance matrix is symmetric positive semidefinite. -/
theorem cma_run_cov_psd (F : Fns Rat) (hlog : LogMono F) (W : World Rat) (n mu recomb : Nat) (hn : 1 ≤ n) (hmu : 1 ≤ mu)
    (hW : SamplesOK n W) (fit : Vec Rat → Rat) (s : State Rat) (h : DistPSD n s.dist) (t : Nat) :
    DistPSD n (run F W (doInitCoeffs F n mu recomb) n mu fit s t).dist := by
  induction t with
  | zero => exact h
  | succ t ih => exact step_distPSD F W _ (doInit_covAdmissible F hlog n mu recomb hn hmu) n mu hW fit _ ih

/-- **cma_run_cov_pd_partial** (end to end).  … and symmetric positive definite after every generation, as long as the
`c_μ` of `doInit` stays below its cap `1 − c₁`. -/
theorem cma_run_cov_pd_partial (F : Fns Rat) (hlog : LogMono F) (W : World Rat) (n mu recomb : Nat) (hn : 1 ≤ n) (hmu : 1 ≤ mu)
    (hfloor : 0 < 1 - (doInitCoeffs F n mu recomb).c1 - (doInitCoeffs F n mu recomb).cMu)
    (hW : SamplesOK n W) (fit : Vec Rat → Rat) (s : State Rat) (h : DistPD n s.dist) (t : Nat) :
    DistPD n (run F W (doInitCoeffs F n mu recomb) n mu fit s t).dist := by
  induction t with
  | zero => exact h
  | succ t ih => exact step_distPD F W _ (doInit_covAdmissible F hlog n mu recomb hn hmu) hfloor n mu hW fit _ ih

/-- the identity matrix `CMA::doInit` starts from is symmetric positive definite (non-vacuity of `DistPD`, n = 2) -/
example : PD 2 [[1, 0], [0, 1]] := by
  refine ⟨⟨rfl, by simp⟩, ?_, ?_⟩
  · intro i j hi hj
    have : i = 0 ∨ i = 1 := by omega
    have : j = 0 ∨ j = 1 := by omega
    rcases ‹i = 0 ∨ i = 1› with rfl | rfl <;> rcases ‹j = 0 ∨ j = 1› with rfl | rfl <;> rfl
  · intro x ⟨k, hk, hx⟩
    have e : qf 2 [[1, 0], [0, 1]] x = x 0 * x 0 + x 1 * x 1 := by
      simp [qf, qfE, ent, Finset.sum_range_succ]
    rw [e]
    have : k = 0 ∨ k = 1 := by omega
    rcases this with rfl | rfl
    · have := mul_self_pos.mpr hx; nlinarith [mul_self_nonneg (x 1)]
    · have := mul_self_pos.mpr hx; nlinarith [mul_self_nonneg (x 0)]

/-- the hypothesis of the `_partial` theorems does exclude configurations the real code accepts: for `n = 1`, `μ = 10`
(any `λ ≥ 11`), equal weights, `doInit` caps `c_μ` at `1 − c₁` -/
theorem cma_cmu_cap_reached : (doInitCoeffs idFns 1 10 0).cMu = 1 - (doInitCoeffs idFns 1 10 0).c1 := by decide +kernel

/-- and it is not a default configuration: with the default `μ = 2` of dimension 1 (λ = 5, superlinear) the floor holds -/
example : 0 < 1 - (doInitCoeffs idFns 1 2 0).c1 - (doInitCoeffs idFns 1 2 0).cMu := by decide +kernel

/-- **F17 as mathematics** (`cma_cov_collapse_witness`): with the old-covariance weight 0 (`c_μ = 1 − c₁`), a generation in
which every selected offspring equals the mean (exact convergence: rank-μ matrix 0, path 0) replaces the identity by the
ZERO matrix, which is not positive definite. -/
def capCoeffs : Coeffs Rat := { weights := [1], muEff := 1, cSigma := 1/2, dSigma := 1, cC := 1/2, c1 := 1/4, cMu := 3/4 }
def convergedDist : CMA.Dist Rat := { sigma := 1, mean := [0], pc := [0], ps := [0], C := [[1]], counter := 0 }
theorem cma_cov_collapse_witness :
    CovAdmissible capCoeffs ∧ (update unitFns capCoeffs 1 convergedDist [⟨[0], [0], 0⟩] [[1]]).C = [[0]] ∧ ¬ PD 1 [[0]] := by
  refine ⟨⟨by decide +kernel, by decide +kernel, by decide +kernel, by decide +kernel, by decide +kernel⟩, by decide +kernel, ?_⟩
  intro h
  have := h.2.2 (fun _ => 1) ⟨0, by norm_num, by norm_num⟩
  simp [qf, qfE, ent] at this

end covpd

/-! ## VD-CMA: the restricted covariance `D (I + v vᵀ) D` -/

/-- **vd_cov_pd.**  The covariance VD-CMA samples from, `σ² D (I + v vᵀ) D`, is symmetric positive definite for every
dimension, every vector `v` and every diagonal `D` without zero entry — in particular after `vdUpdate`, whose new `D` is
`Dᵢ(1 + sᵢ)` (`vd_D_update`): no zero entry appears as long as no `sᵢ` equals −1.  (That `sᵢ ≠ −1` is not implied by
the formulas; the per-step oracle on the real VD-CMA checks `D` for zeros.) -/
theorem vd_cov_pd (n : Nat) (D v : Vec Rat) (hD : ∀ i, i < n → D.getD i 0 ≠ 0) :
    SymmE n (vdEnt D v) ∧ ∀ x, NonZero n x → 0 < qfE n (vdEnt D v) x := vdCov_pd n D v hD

/-- a zero entry of `D` is exactly what makes it singular -/
theorem vd_cov_singular_of_zero (n : Nat) (D v : Vec Rat) (k : Nat) (hk : k < n) (h0 : D.getD k 0 = 0) :
    ¬ ∀ x, NonZero n x → 0 < qfE n (vdEnt D v) x := by
  intro h
  have := h (fun i => if i = k then 1 else 0) ⟨k, hk, by simp⟩
  rw [vdCov_singular_of_zero n D v k hk h0] at this
  exact lt_irrefl _ this

example : ∀ x, NonZero 2 x → 0 < qfE 2 (vdEnt [2, -1] [3, 5]) x :=
  (vd_cov_pd 2 [2, -1] [3, 5] (by intro i hi; have : i = 0 ∨ i = 1 := by omega
                                  rcases this with rfl | rfl <;> norm_num)).2

/-! ## constraint handling: `PenalizingEvaluator` -/
section penal

theorem project_spec (K : Constraint Rat) (f : Vec Rat → Rat) (x : Vec Rat) :
    unpenalized K f x = if K.feasible x then f x else f (K.closest x) := by
  unfold unpenalized project; split <;> rfl

/-- **cma_value_is_f_closest_feasible.**  Whole CMA-ES runs on an objective with a feasibility predicate, evaluated as
`PenalizingEvaluator` does (`unpenalizedFitness = f(closest feasible point)`, which is what `FitnessOrdering` ranks by and
what `m_best.value` reports): after every number of generations the reported value is `f` at the reported point if that is
feasible, and `f` at its closest feasible point otherwise. -/
theorem cma_value_is_f_closest_feasible (F : Fns Rat) (W : World Rat) (c : Coeffs Rat) (n mu : Nat) (K : Constraint Rat)
    (f : Vec Rat → Rat) (s : State Rat) (h : s.bestValue = f (project K s.bestPoint)) (t : Nat) :
    (run F W c n mu (unpenalized K f) s t).bestValue =
      if K.feasible (run F W c n mu (unpenalized K f) s t).bestPoint then f (run F W c n mu (unpenalized K f) s t).bestPoint
      else f (K.closest (run F W c n mu (unpenalized K f) s t).bestPoint) := by
  rw [reported_value_is_f_run F W c n mu (unpenalized K f) s h t]
  exact project_spec K f _

/-- the same for every comparison-based strategy of `Model/ES.lean` (CMSA, VD-CMA, cross-entropy method) -/
theorem generic_value_is_f_closest_feasible {σ ι : Type} (S : Strategy σ ι Rat) (K : Constraint Rat) (f : Vec Rat → Rat)
    (s : GState σ Rat) (h : s.bestValue = f (project K s.bestPoint)) (t : Nat) :
    (grun S (unpenalized K f) s t).bestValue =
      if K.feasible (grun S (unpenalized K f) s t).bestPoint then f (grun S (unpenalized K f) s t).bestPoint
      else f (K.closest (grun S (unpenalized K f) s t).bestPoint) := by
  rw [generic_value_is_f S (unpenalized K f) s h t]
  exact project_spec K f _

theorem normSqr_sub_self (x : Vec Rat) : Vec.normSqr (Vec.sub x x) = 0 := by
  unfold Vec.normSqr Vec.dot Vec.sub
  have : ∀ (l : List Rat) (a : Rat), (List.zipWith (· * ·) (List.zipWith (· - ·) l l) (List.zipWith (· - ·) l l)).foldl (· + ·) a = a := by
    intro l
    induction l with
    | nil => intro a; rfl
    | cons b l ih => intro a; simp only [List.zipWith_cons_cons, List.foldl_cons]; rw [sub_self, mul_zero, add_zero]; exact ih a
  exact this x _

theorem normSqr_nonneg (x : Vec Rat) : 0 ≤ Vec.normSqr x := by
  unfold Vec.normSqr Vec.dot
  have : ∀ (l : List Rat) (a : Rat), 0 ≤ a → 0 ≤ (List.zipWith (· * ·) l l).foldl (· + ·) a := by
    intro l
    induction l with
    | nil => intro a ha; exact ha
    | cons b l ih => intro a ha; simp only [List.zipWith_cons_cons, List.foldl_cons]; exact ih _ (by nlinarith [mul_self_nonneg b])
  exact this x _ (le_refl _)

/-- **penalized_feasible / penalized_ge**: a feasible point is not penalized (so on unconstrained objectives, and inside the
feasible region, ranking by either fitness is the same), and an infeasible one is never better than its projection
(penalty factor ≥ 0; `PenalizingEvaluator` uses 1e-6, `ElitistCMA::constrainedPenaltyFactor()` is user-set). -/
theorem penalized_feasible (K : Constraint Rat) (f : Vec Rat → Rat) (factor : Rat) (x : Vec Rat) (hx : K.feasible x = true) :
    penalized K f factor x = unpenalized K f x ∧ unpenalized K f x = f x := by
  unfold penalized unpenalized project
  simp only [hx, if_true, normSqr_sub_self, mul_zero, add_zero, and_self]

theorem penalized_ge (K : Constraint Rat) (f : Vec Rat → Rat) (factor : Rat) (hf : 0 ≤ factor) (x : Vec Rat) :
    unpenalized K f x ≤ penalized K f factor x := by
  unfold penalized unpenalized
  have := mul_nonneg hf (normSqr_nonneg (Vec.sub (project K x) x))
  simp only; linarith

/-- **ecma_value_is_f_closest_feasible.**  `ElitistCMA::step` with the offspring evaluated by `PenalizingEvaluator`
(acceptance on the penalized fitness `fp`, report of the unpenalized one): the reported value stays `f` at the closest
feasible point of the reported point, through all three outcomes of the success rule and both `activeUpdate` settings. -/
theorem ecma_value_is_f_closest_feasible (F : Fns Rat) (k : EcmaConsts Rat) (K : Constraint Rat) (f : Vec Rat → Rat) (factor : Rat)
    (s s' : Ecma Rat) (y : Vec Rat) (zz : Rat)
    (hinv : s.bestValue = unpenalized K f s.bestPoint)
    (h : ecmaStep F k s y zz (penalized K f factor (List.zipWith (fun xi yi => xi + s.sigma * yi) s.x y))
            (unpenalized K f (List.zipWith (fun xi yi => xi + s.sigma * yi) s.x y)) = some s') :
    s'.bestValue = unpenalized K f s'.bestPoint := by
  unfold ecmaStep at h
  simp only at h
  split at h
  · simp only [Option.map_eq_some_iff] at h
    obtain ⟨u, _, rfl⟩ := h
    rfl
  · next succ hne =>
    simp only [Option.map_eq_some_iff] at h
    obtain ⟨u, hu, rfl⟩ := h
    obtain ⟨_, _, _, hv, hp⟩ := updateAsParent_sigma F k s u _ zz y hne hu
    show u.bestValue = unpenalized K f u.bestPoint
    rw [hv, hp]; exact hinv

end penal

/-! ## determinism: a modelled run is a function of (variate stream, objective) -/

/-- the generic strategies (CMSA, VD-CMA, CEM instances of `Strategy`): equal sampler/update, equal objective values on
the sampled points ⇒ equal runs.  Stronger than congruence: only the values of the objective AT THE VISITED POINTS matter. -/
theorem generic_deterministic {σ ι : Type} (S : Strategy σ ι Rat) (fit fit' : Vec Rat → Rat) (s : GState σ Rat)
    (hf : ∀ p, fit p = fit' p) (t : Nat) : grun S fit s t = grun S fit' s t := by
  have : fit = fit' := funext hf
  rw [this]

/-- ElitistCMA: the run is a function of the input stream (steps and the two fitness values of each offspring) -/
theorem ecma_deterministic (F : Fns Rat) (k : EcmaConsts Rat) (s : Ecma Rat) (i i' : List (EcmaInput Rat)) (h : i = i') :
    ecmaRun F k s i = ecmaRun F k s i' := by rw [h]

end SharkVerif.C11
