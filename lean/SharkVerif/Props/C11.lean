/-
C11 — Evolution strategies keep a valid search distribution and are rank-invariant.

Property theorems about the model `Model/CMA.lean` of `src/Algorithms/DirectSearch/CMA.cpp`
(tied to the real code by `checks/c11.py`: the `doInit` coefficients are compared bit for bit,
`updatePopulation` by one-step refinement on the real run's own offspring; the other methods
— CMSA, ElitistCMA, VD-CMA, cross-entropy method, simplex downhill — are covered by the harness
oracle only).

Exact arithmetic over `Rat` with `exp`, `sqrt`, `log`, `pow` as parameters constrained by the
hypotheses written in each statement; the covariance theorem is over `ℝ` with Mathlib's
`Matrix.PosSemidef` / `PosDef`.
-/
import SharkVerif.Model.CMA
import Mathlib.Tactic.Linarith
import Mathlib.Tactic.Positivity
import Mathlib.Tactic.FieldSimp
import Mathlib.Tactic.Ring
import Mathlib.LinearAlgebra.Matrix.PosDef
import Mathlib.Analysis.SpecialFunctions.Exp
import Mathlib.Algebra.Order.Star.Real
namespace SharkVerif.C11
open SharkVerif.Opt SharkVerif.Opt.CMA

/-! ## rank invariance -/

section rank
variable {α : Type} [Scalar α]

/-- relabel the fitness of an individual -/
def relabel (φ : α → α) (i : Indiv α) : Indiv α := { i with fitness := φ i.fitness }

/-- `φ` preserves the only thing selection looks at: the outcome of `a ≤ b` -/
def OrderPreserving (φ : α → α) : Prop := ∀ a b : α, decide (a ≤ b) = decide (φ a ≤ φ b)

/-- key lemma (`sort_by f = sort_by (φ∘f)` for the stable merge sort): selection on relabelled
fitness values selects the same individuals in the same order -/
theorem select_relabel (φ : α → α) (hφ : OrderPreserving φ) (off : List (Indiv α)) (mu : Nat) :
    select (off.map (relabel φ)) mu = (select off mu).map (relabel φ) := by
  unfold select
  rw [List.map_take]
  congr 1
  symm
  apply List.map_mergeSort
  intro a _ b _
  exact hφ a.fitness b.fitness

theorem update_relabel (F : Fns α) (c : Coeffs α) (n : Nat) (d : CMA.Dist α) (sel : List (Indiv α)) (B : Mat α)
    (φ : α → α) : update F c n d (sel.map (relabel φ)) B = update F c n d sel B := by
  unfold update
  simp only [List.map_map]
  have h1 : ((fun i : Indiv α => i.chrom) ∘ relabel φ) = fun i => i.chrom := rfl
  have h2 : ((fun i : Indiv α => i.point) ∘ relabel φ) = fun i => i.point := rfl
  simp only [h1, h2]

/-- the two runs are in the same state up to the reported value, which is relabelled -/
def Related (φ : α → α) (s s' : State α) : Prop :=
  s'.dist = s.dist ∧ s'.bestPoint = s.bestPoint ∧ s'.bestValue = φ s.bestValue

theorem offspring_relabel (W : World α) (fit : Vec α → α) (φ : α → α) (s : State α) :
    offspring W (φ ∘ fit) s = (offspring W fit s).map (relabel φ) := by
  simp [offspring, List.map_map, relabel, Function.comp_def]

theorem finish_related (F : Fns α) (W : World α) (c : Coeffs α) (n : Nat) (φ : α → α)
    (s s' : State α) (h : Related φ s s') (sel : List (Indiv α)) :
    Related φ (finish F W c n s sel) (finish F W c n s' (sel.map (relabel φ))) := by
  obtain ⟨hd, hp, hv⟩ := h
  unfold finish
  rw [hd, update_relabel]
  cases sel with
  | nil => exact ⟨rfl, hp, hv⟩
  | cons b bs => exact ⟨rfl, rfl, rfl⟩

theorem step_related (F : Fns α) (W : World α) (c : Coeffs α) (n mu : Nat) (fit : Vec α → α)
    (φ : α → α) (hφ : OrderPreserving φ) (s s' : State α) (h : Related φ s s') :
    Related φ (step F W c n mu fit s) (step F W c n mu (φ ∘ fit) s') := by
  unfold step
  have hoff : offspring W (φ ∘ fit) s' = (offspring W fit s).map (relabel φ) := by
    rw [offspring_relabel]; unfold offspring; rw [h.1]
  rw [hoff, select_relabel φ hφ]
  exact finish_related F W c n φ s s' h _

/-- **rank_invariance.**  Fitness enters a CMA-ES run only through comparisons: for every
order-preserving `φ` (in particular every strictly increasing one), the run on `φ ∘ f` with the same
variate stream (same `World`) has, after every number of generations, the same search distribution
(σ, mean, evolution paths, covariance), and reports the same point, with value `φ(value)`. -/
theorem rank_invariance (F : Fns α) (W : World α) (c : Coeffs α) (n mu : Nat) (fit : Vec α → α)
    (φ : α → α) (hφ : OrderPreserving φ) (s s' : State α) (h : Related φ s s') (t : Nat) :
    Related φ (run F W c n mu fit s t) (run F W c n mu (φ ∘ fit) s' t) := by
  induction t with
  | zero => exact h
  | succ t ih => exact step_related F W c n mu fit φ hφ _ _ ih

/-- **deterministic.**  A run is a function of (variate stream, objective, initial state): two runs
with equal inputs are equal. (Definitional for a pure model; what the harness checks on the real code
is that nothing *else* — uninitialised memory, a hidden global — enters.) -/
theorem deterministic (F : Fns α) (W W' : World α) (c : Coeffs α) (n mu : Nat) (fit fit' : Vec α → α)
    (s s' : State α) (hW : W = W') (hf : fit = fit') (hs : s = s') (t : Nat) :
    run F W c n mu fit s t = run F W' c n mu fit' s' t := by subst hW hf hs; rfl

/-- **reported_value_is_f.**  After every generation that selected at least one individual, the
reported value is the fitness function evaluated at the reported point (`fit` is the objective at the
closest feasible point, `PenalizingEvaluator`'s `unpenalizedFitness`). -/
theorem reported_value_is_f (F : Fns α) (W : World α) (c : Coeffs α) (n mu : Nat) (fit : Vec α → α)
    (s : State α) (h : s.bestValue = fit s.bestPoint) :
    (step F W c n mu fit s).bestValue = fit (step F W c n mu fit s).bestPoint := by
  unfold step finish
  simp only
  split
  · exact h
  · next b bs hsel =>
    -- the selected individuals are among the evaluated offspring, whose fitness is `fit point`
    have hmem : b ∈ select (offspring W fit s) mu := by rw [hsel]; simp
    unfold select at hmem
    have := List.mem_of_mem_take hmem
    rw [List.mem_mergeSort] at this
    unfold offspring at this
    obtain ⟨pz, _, rfl⟩ := List.mem_map.mp this
    rfl

theorem reported_value_is_f_run (F : Fns α) (W : World α) (c : Coeffs α) (n mu : Nat) (fit : Vec α → α)
    (s : State α) (h : s.bestValue = fit s.bestPoint) (t : Nat) :
    (run F W c n mu fit s t).bestValue = fit (run F W c n mu fit s t).bestPoint := by
  induction t with
  | zero => exact h
  | succ t ih => exact reported_value_is_f F W c n mu fit _ ih

end rank

/-- non-vacuity of `OrderPreserving`: `x ↦ 2x` and `x ↦ x + 1` over `Rat` -/
example : OrderPreserving (fun x : Rat => 2 * x) := by
  intro a b; simp only [decide_eq_decide]; constructor <;> intro h <;> linarith
example : OrderPreserving (fun x : Rat => x + 1) := by
  intro a b; simp only [decide_eq_decide]; constructor <;> intro h <;> linarith

/-- every strictly increasing map is order preserving -/
theorem orderPreserving_of_strictMono (φ : Rat → Rat) (h : StrictMono φ) : OrderPreserving φ := by
  intro a b; simp only [decide_eq_decide]; exact h.le_iff_le.symm

/-! ## step size -/

/-- **sigma_pos** (one update): `σ' = σ·exp(…)` is positive when `σ` is and `exp` is a positive function -/
theorem sigma_update_pos (F : Fns Rat) (hexp : ∀ x, 0 < F.exp x) (c : Coeffs Rat) (n : Nat) (sigma : Rat)
    (ps : Vec Rat) (hs : 0 < sigma) : 0 < sigmaUpdate F c n sigma ps := by
  unfold sigmaUpdate
  exact mul_pos hs (hexp _)

/-- the lower-bound clamp keeps a positive step size positive (`lowerBound = 1e-40 > 0`,
last eigenvalue non-zero so that `sqrt |ev| > 0`) -/
theorem clamp_pos (F : Fns Rat) (lb sigma ev : Rat) (hlb : 0 < lb) (hs : 0 < sigma)
    (hr : 0 < F.sqrt (Scalar.abs ev)) : 0 < clampSigma F lb sigma ev := by
  unfold clampSigma
  simp only
  split
  · exact div_pos hlb hr
  · exact hs

/-- **sigma_pos.**  In every generation of every run the step size is positive, provided the initial
one is, `exp` is positive, and the square root of the last eigenvalue's modulus is positive. -/
theorem sigma_pos (F : Fns Rat) (W : World Rat) (c : Coeffs Rat) (n mu : Nat) (fit : Vec Rat → Rat)
    (hexp : ∀ x, 0 < F.exp x) (hlb : 0 < W.lowerBound) (hr : ∀ C, 0 < F.sqrt (Scalar.abs (W.lastEig C)))
    (s : State Rat) (hs : 0 < s.dist.sigma) (t : Nat) : 0 < (run F W c n mu fit s t).dist.sigma := by
  induction t with
  | zero => exact hs
  | succ t ih =>
    have key : ∀ s : State Rat, 0 < s.dist.sigma → 0 < (step F W c n mu fit s).dist.sigma := by
      intro s hs
      unfold step finish
      simp only
      have hpos : ∀ sel, 0 < clampSigma F W.lowerBound (update F c n s.dist sel (W.eigVec s.dist.C)).sigma
          (W.lastEig (update F c n s.dist sel (W.eigVec s.dist.C)).C) := by
        intro sel
        apply clamp_pos F _ _ _ hlb _ (hr _)
        unfold update
        exact sigma_update_pos F hexp c n _ _ hs
      split <;> exact hpos _
    exact key _ ih

/-- the hypothesis on `exp` is met by the real exponential -/
example : ∀ x : ℝ, 0 < Real.exp x := Real.exp_pos

/-! ## coefficients -/

/-- **coeffs_admissible** (learning rates).  For every dimension `n ≥ 1` and every variance-effective
selection mass `μ_eff ≥ 1` (which is what `1/Σwᵢ²` is for normalised positive weights), the formulas
of `CMA::doInit` give `0 < c₁ < 1`, `0 < c_μ ≤ 1 − c₁` (so the factor `1 − c₁ − c_μ` of the old
covariance is `≥ 0`), `0 < c_σ < 1` and `0 < c_c ≤ 1`. -/
theorem coeffs_admissible (n : Nat) (hn : 1 ≤ n) (muEff : Rat) (hmu : 1 ≤ muEff) :
    let nn : Rat := n
    let c1 := 2 / ((nn + 13/10) * (nn + 13/10) + muEff)
    let cMuRaw := 2 * (3/10 + muEff - 2 + 1 / muEff) / (((n + 2) * (n + 2) : Nat) + 2 * muEff / 2)
    let cMu := min (1 - c1) cMuRaw
    let cSigma := (muEff + 2) / (nn + muEff + 3)
    let cC := (4 + muEff / nn) / (nn + 4 + 2 * muEff / nn)
    (0 < c1 ∧ c1 < 1) ∧ (0 < cMu ∧ cMu ≤ 1 - c1 ∧ 0 ≤ 1 - c1 - cMu) ∧ (0 < cSigma ∧ cSigma < 1) ∧ (0 < cC ∧ cC ≤ 1) := by
  intro nn c1 cMuRaw cMu cSigma cC
  have hnn : (1 : Rat) ≤ nn := by simp only [nn]; exact_mod_cast hn
  have hmu0 : (0 : Rat) < muEff := by linarith
  have hden1 : 0 < (nn + 13/10) * (nn + 13/10) + muEff := by positivity
  have hc1pos : 0 < c1 := by positivity
  have hc1lt : c1 < 1 := by
    simp only [c1]
    rw [div_lt_one hden1]
    nlinarith
  have hraw : 0 < cMuRaw := by
    have h1 : 0 < 3/10 + muEff - 2 + 1 / muEff := by
      have : muEff + 1 / muEff ≥ 2 := by
        have : 0 ≤ (muEff - 1) ^ 2 / muEff := by positivity
        have e : (muEff - 1) ^ 2 / muEff = muEff + 1 / muEff - 2 := by field_simp; ring
        linarith
      linarith
    have h2 : (0 : Rat) < (((n + 2) * (n + 2) : Nat) : Rat) + 2 * muEff / 2 := by positivity
    simp only [cMuRaw]
    positivity
  have hcMu : 0 < cMu ∧ cMu ≤ 1 - c1 := ⟨lt_min (by linarith) hraw, min_le_left _ _⟩
  refine ⟨⟨hc1pos, hc1lt⟩, ⟨hcMu.1, hcMu.2, by linarith [hcMu.2]⟩, ⟨by positivity, ?_⟩, ⟨by positivity, ?_⟩⟩
  · simp only [cSigma]
    rw [div_lt_one (by positivity)]
    linarith
  · simp only [cC]
    rw [div_le_one (by positivity)]
    have : 0 < muEff / nn := by positivity
    have e : 2 * muEff / nn = 2 * (muEff / nn) := by ring
    linarith

/-- normalised weights sum to one and stay positive (`m_weights /= sum(m_weights)`) -/
theorem weights_normalised (w : List Rat) (hpos : ∀ x ∈ w, 0 < x) (hne : w ≠ []) :
    ((w.map (· / w.sum)).sum = 1) ∧ ∀ x ∈ w.map (· / w.sum), 0 < x := by
  have hs : 0 < w.sum := by
    cases w with
    | nil => exact absurd rfl hne
    | cons a l =>
      have h1 : 0 < a := hpos a (by simp)
      have h2 : 0 ≤ l.sum := List.sum_nonneg fun x hx => (hpos x (by simp [hx])).le
      simp only [List.sum_cons]; linarith
  constructor
  · have : (w.map (· / w.sum)).sum = w.sum / w.sum := by
      have e : (w.map (· / w.sum)) = w.map (· * (w.sum)⁻¹) := by
        apply List.map_congr_left; intro x _; exact div_eq_mul_inv x _
      rw [e, List.sum_map_mul_right, div_eq_mul_inv]
      simp
    rw [this, div_self hs.ne']
  · intro x hx
    obtain ⟨y, hy, rfl⟩ := List.mem_map.mp hx
    exact div_pos (hpos y hy) hs

/-! ## covariance update -/

open Matrix in
/-- **cov_update_psd.**  `C' = a·C + c₁·p pᵀ + c_μ·Σᵢ wᵢ·yᵢ yᵢᵀ` with `a, c₁, c_μ, wᵢ ≥ 0` and `C`
symmetric positive semidefinite is symmetric positive semidefinite (eq. 43 with
`a = 1 − c₁ − c_μ + c₁·δ(hσ)`, `yᵢ = (xᵢ − m)/σ`). -/
theorem cov_update_psd {n m : ℕ} (a c1 cmu : ℝ) (C : Matrix (Fin n) (Fin n) ℝ) (p : Fin n → ℝ)
    (w : Fin m → ℝ) (y : Fin m → Fin n → ℝ) (ha : 0 ≤ a) (hc1 : 0 ≤ c1) (hcmu : 0 ≤ cmu)
    (hw : ∀ i, 0 ≤ w i) (hC : C.PosSemidef) :
    (a • C + c1 • vecMulVec p p + cmu • ∑ i, w i • vecMulVec (y i) (y i)).PosSemidef := by
  have hv : ∀ v : Fin n → ℝ, (vecMulVec v v).PosSemidef := by
    intro v; simpa using posSemidef_vecMulVec_self_star v
  refine ((hC.smul ha).add ((hv p).smul hc1)).add (PosSemidef.smul ?_ hcmu)
  exact posSemidef_sum _ fun i _ => (hv (y i)).smul (hw i)

open Matrix in
/-- **cov_update_pd.**  If moreover `a > 0` and `C` is positive definite, so is `C'`. -/
theorem cov_update_pd {n m : ℕ} (a c1 cmu : ℝ) (C : Matrix (Fin n) (Fin n) ℝ) (p : Fin n → ℝ)
    (w : Fin m → ℝ) (y : Fin m → Fin n → ℝ) (ha : 0 < a) (hc1 : 0 ≤ c1) (hcmu : 0 ≤ cmu)
    (hw : ∀ i, 0 ≤ w i) (hC : C.PosDef) :
    (a • C + c1 • vecMulVec p p + cmu • ∑ i, w i • vecMulVec (y i) (y i)).PosDef := by
  have hv : ∀ v : Fin n → ℝ, (vecMulVec v v).PosSemidef := by
    intro v; simpa using posSemidef_vecMulVec_self_star v
  refine ((hC.smul ha).add_posSemidef ((hv p).smul hc1)).add_posSemidef (PosSemidef.smul ?_ hcmu)
  exact posSemidef_sum _ fun i _ => (hv (y i)).smul (hw i)

/-! ## elitist variants -/

/-- **elitist_monotone.**  The (1+1) acceptance rule of `ElitistCMA::step` never reports a worse value:
over any sequence of candidates the reported value is non-increasing and always the fitness of the
reported point. -/
theorem elitist_monotone (fit : Vec Rat → Rat) (s : Elitist Rat) (cand : Vec Rat) :
    (elitistStep fit s cand).bestValue ≤ s.bestValue := by
  unfold elitistStep elitistAccept
  split
  · next h => simp only [Bool.not_eq_true', decide_eq_false_iff_not, not_le] at h; exact h.le
  · exact le_refl _

theorem elitist_monotone_run (fit : Vec Rat → Rat) (s : Elitist Rat) (cands : List (Vec Rat)) :
    (cands.foldl (elitistStep fit) s).bestValue ≤ s.bestValue := by
  induction cands generalizing s with
  | nil => exact le_refl _
  | cons c cs ih => exact le_trans (ih _) (elitist_monotone fit s c)

theorem elitist_value_is_f (fit : Vec Rat → Rat) (s : Elitist Rat) (h : s.bestValue = fit s.bestPoint)
    (cand : Vec Rat) : (elitistStep fit s cand).bestValue = fit (elitistStep fit s cand).bestPoint := by
  unfold elitistStep
  split
  · rfl
  · exact h

end SharkVerif.C11
