/-
C07 — Trained support vector machines are optimal solutions of their dual problem.
(theorems on the solver/trainer model; see checks/c07.py for the tie)
-/
import SharkVerif.Lemmas.WarmStart
import SharkVerif.Props.C08
import SharkVerif.Lemmas.SvmUnpermute
namespace SharkVerif.C07
open SharkVerif.Qp SharkVerif.Smo SharkVerif.SvmTrainer

/-! The recomputed dual objective `lin·α − ½ αᵀKα` (under the current permutation) is `Smo.dualObjective`
(`Lemmas/SmoObjective.lean`); `Smo.dual n Q lin α` is the same function of an arbitrary coefficient vector. -/

/-- **objective_recomputed**: whenever the maintained gradient of every variable is `lin − K·α` (C08 `grad_inv`
with all variables active, i.e. after `unshrink`), the value reported by `functionValue()` =
`0.5·(g+lin)·α` is the recomputed dual objective. -/
theorem objective_recomputed (s : RS) (hg : ∀ k, k < s.n → s.g k = s.lin k - Kalpha s k) :
    s.functionValue = dualObjective s := by
  unfold State.functionValue dualObjective
  simp only [lit05, lit0]
  have : State.sumTo (0 : Rat) (fun k => (s.g k + s.lin k) * s.alpha k) s.n
      = rsum (fun k => 2 * (s.lin k * s.alpha k) - s.alpha k * Kalpha s k) s.n := by
    apply rsum_congr; intro k hk; rw [hg k hk]; ring
  rw [this, rsum_sub, rsum_mul_left]; ring

example : ∃ s : RS, (∀ k, k < s.n → s.g k = s.lin k - Kalpha s k) ∧ 0 < s.n :=
  ⟨State.init 1 (fun _ _ => 1) true false (fun _ => 1) (fun _ => 0) (fun _ => 1),
   fun k _ => by simp [State.init, Kalpha, lit0], by decide⟩

/-- **stop_implies_kkt**: if one pass of the model of `QpSolver::solve` leaves the loop with `AccuracyReached`
(`none`), then the KKT violation `checkKKT` of the un-shrunk state is below `eps` -- and that state is the one
reported (last event). -/
theorem stop_implies_kkt (strategy : Nat) (eps : Rat) (s : RS) (counter : Nat)
    (h : (solveIter strategy eps s counter).2 = none) :
    s.unshrink.checkKKT < eps ∧ (solveIter strategy eps s counter).1 = [(Ev.unshrink, s.unshrink)] := by
  unfold solveIter at h ⊢
  simp only [] at h ⊢
  split_ifs at h ⊢ with h1 h2 <;> simp_all


/-! ## Optimality: a KKT(ε) point is within `ε·Σ(U−L)` of the maximum -/

/-- **kkt_eps_near_optimal** (box problem, no bias): for a symmetric PSD quadratic form, if `α` is feasible and
violates the KKT conditions of `max lin·α − ½αᵀQα, L ≤ α ≤ U` by at most `ε` (`g_k ≤ ε` unless `α_k = U_k`,
`g_k ≥ −ε` unless `α_k = L_k`, with `g = lin − Qα`), then NO feasible `β` has an objective more than
`ε·Σ_k (U_k − L_k)` above that of `α`. -/
theorem kkt_eps_near_optimal_box {n : Nat} {Q : Nat → Nat → Rat} (hsym : ∀ a b, Q a b = Q b a) (hpsd : PSD n Q)
    (lin L U α β : Nat → Rat) (ε : Rat) (hε : 0 ≤ ε)
    (hα : ∀ k, k < n → L k ≤ α k ∧ α k ≤ U k) (hβ : ∀ k, k < n → L k ≤ β k ∧ β k ≤ U k)
    (hup : ∀ k, k < n → α k < U k → lin k - rsum (fun c => Q k c * α c) n ≤ ε)
    (hlo : ∀ k, k < n → L k < α k → -(lin k - rsum (fun c => Q k c * α c) n) ≤ ε) :
    dual n Q lin β - dual n Q lin α ≤ ε * rsum (fun k => U k - L k) n :=
  near_optimal_core hsym hpsd lin L U α β ε 0 hε hα hβ (zero_mul _)
    (fun k hk h => by have := hup k hk h; linarith) (fun k hk h => by have := hlo k hk h; linarith)

/-- **kkt_eps_near_optimal** (with equality constraint, i.e. trained with bias): KKT up to `ε` in the pairwise form
the solver checks -- `g_i − g_j ≤ ε` for every `i` not at its upper and `j` not at its lower bound -- implies that no
feasible `β` with the same coefficient sum is more than `ε·Σ(U−L)` better. -/
theorem kkt_eps_near_optimal {n : Nat} {Q : Nat → Nat → Rat} (hsym : ∀ a b, Q a b = Q b a) (hpsd : PSD n Q)
    (lin L U α β : Nat → Rat) (ε : Rat) (hε : 0 ≤ ε)
    (hα : ∀ k, k < n → L k ≤ α k ∧ α k ≤ U k) (hβ : ∀ k, k < n → L k ≤ β k ∧ β k ≤ U k)
    (hsum : rsum β n = rsum α n)
    (hpair : ∀ i j, i < n → j < n → α i < U i → L j < α j →
      (lin i - rsum (fun c => Q i c * α c) n) - (lin j - rsum (fun c => Q j c * α c) n) ≤ ε) :
    dual n Q lin β - dual n Q lin α ≤ ε * rsum (fun k => U k - L k) n := by
  obtain ⟨b, hb1, hb2⟩ := exists_bias n (fun k => lin k - rsum (fun c => Q k c * α c) n)
    (fun i => α i < U i) (fun j => L j < α j) ε hε hpair
  exact near_optimal_core hsym hpsd lin L U α β ε b hε hα hβ (by rw [hsum, sub_self, mul_zero]) hb1 hb2

example : ∃ (Q : Nat → Nat → Rat), (∀ a b, Q a b = Q b a) ∧ PSD 2 Q :=
  ⟨fun a b => if a = b then 1 else 0, fun a b => by by_cases h : a = b <;> simp [h, eq_comm],
   fun v => by
     simp only [bil, rsum, State.sumTo]
     norm_num
     nlinarith [mul_self_nonneg (v 0), mul_self_nonneg (v 1)]⟩

/-- **configuration independence** (corollary, explicit constant): any two feasible points of the same problem that
both satisfy the pairwise KKT conditions up to `ε` (what the solver guarantees when it reports `AccuracyReached`,
whatever the shrinking / caching / precomputation / warm-start configuration, `stop_implies_kkt` +
`stopped_pairwise_svm`) and have the same coefficient sum have dual objectives within `ε·Σ(U−L)` of each other. -/
theorem config_independence {n : Nat} {Q : Nat → Nat → Rat} (hsym : ∀ a b, Q a b = Q b a) (hpsd : PSD n Q)
    (lin L U α α' : Nat → Rat) (ε : Rat) (hε : 0 ≤ ε)
    (hα : ∀ k, k < n → L k ≤ α k ∧ α k ≤ U k) (hα' : ∀ k, k < n → L k ≤ α' k ∧ α' k ≤ U k)
    (hsum : rsum α' n = rsum α n)
    (hpair : ∀ i j, i < n → j < n → α i < U i → L j < α j →
      (lin i - rsum (fun c => Q i c * α c) n) - (lin j - rsum (fun c => Q j c * α c) n) ≤ ε)
    (hpair' : ∀ i j, i < n → j < n → α' i < U i → L j < α' j →
      (lin i - rsum (fun c => Q i c * α' c) n) - (lin j - rsum (fun c => Q j c * α' c) n) ≤ ε) :
    |dual n Q lin α' - dual n Q lin α| ≤ ε * rsum (fun k => U k - L k) n := by
  have h1 := kkt_eps_near_optimal hsym hpsd lin L U α α' ε hε hα hα' hsum hpair
  have h2 := kkt_eps_near_optimal hsym hpsd lin L U α' α ε hε hα' hα hsum.symm hpair'
  rw [abs_le]; constructor <;> linarith

/-- the same for the problem without bias -/
theorem config_independence_box {n : Nat} {Q : Nat → Nat → Rat} (hsym : ∀ a b, Q a b = Q b a) (hpsd : PSD n Q)
    (lin L U α α' : Nat → Rat) (ε : Rat) (hε : 0 ≤ ε)
    (hα : ∀ k, k < n → L k ≤ α k ∧ α k ≤ U k) (hα' : ∀ k, k < n → L k ≤ α' k ∧ α' k ≤ U k)
    (hup : ∀ k, k < n → α k < U k → lin k - rsum (fun c => Q k c * α c) n ≤ ε)
    (hlo : ∀ k, k < n → L k < α k → -(lin k - rsum (fun c => Q k c * α c) n) ≤ ε)
    (hup' : ∀ k, k < n → α' k < U k → lin k - rsum (fun c => Q k c * α' c) n ≤ ε)
    (hlo' : ∀ k, k < n → L k < α' k → -(lin k - rsum (fun c => Q k c * α' c) n) ≤ ε) :
    |dual n Q lin α' - dual n Q lin α| ≤ ε * rsum (fun k => U k - L k) n := by
  have h1 := kkt_eps_near_optimal_box hsym hpsd lin L U α α' ε hε hα hα' hup hlo
  have h2 := kkt_eps_near_optimal_box hsym hpsd lin L U α' α ε hε hα' hα hup' hlo'
  rw [abs_le]; constructor <;> linarith

/-! ## From the solver's stopping test to the KKT conditions on the coefficients -/

/-- when all variables are active (after `unshrink`), `checkKKT ≤ ε` of the equality-constrained problem is the
pairwise KKT condition on the coefficients themselves (the status bits are the coefficients at their bounds) -/
theorem stopped_pairwise_svm {s : RS} (h : Inv s) (he : s.eqc = true) (hact : s.active = s.n) {ε : Rat}
    (hk : s.checkKKT ≤ ε) :
    ∀ i j, i < s.n → j < s.n → s.alpha i < s.U i → s.L j < s.alpha j → s.g i - s.g j ≤ ε := by
  intro i j hi hj hui hlj
  rw [checkKKT_svm s he, hact] at hk
  obtain ⟨h1, h2⟩ := maxKKT_spec s s.n
  have hup : s.up i = false := by
    cases hx : s.up i
    · rfl
    · have := (h.fup i hi).1 hx; linarith
  have hlo : s.lo j = false := by
    cases hx : s.lo j
    · rfl
    · have := (h.flo j hj).1 hx; linarith
  have := h1 i hi hup
  have := h2 j hj hlo
  linarith

/-- the same for the box problem: every single KKT violation is bounded by `checkKKT` -/
theorem stopped_kkt_box {s : RS} (h : Inv s) (he : s.eqc = false) {ε : Rat} (hk : s.checkKKT ≤ ε) :
    ∀ i, i < s.n → (s.alpha i < s.U i → s.g i ≤ ε) ∧ (s.L i < s.alpha i → - s.g i ≤ ε) := by
  intro i hi
  have hb := h.box i hi
  constructor
  · intro hui
    have hup : s.up i = false := by
      cases hx : s.up i
      · rfl
      · have := (h.fup i hi).1 hx; linarith
    have := (checkKKT_box_spec s he i hi (fun hc => by rw [hup] at hc; exact absurd hc.2 (by simp))).1 hup
    linarith
  · intro hli
    have hlo : s.lo i = false := by
      cases hx : s.lo i
      · rfl
      · have := (h.flo i hi).1 hx; linarith
    have := (checkKKT_box_spec s he i hi (fun hc => by rw [hlo] at hc; exact absurd hc.1 (by simp))).2 hlo
    linarith

/-- **the reported solution is near-optimal** (equality-constrained problem): if the invariant holds (C08
`reachable_inv`), all variables are active and `checkKKT < ε` (which is what `stop_implies_kkt` gives for the state
reported with `AccuracyReached`), then for PSD `K` no feasible `β` with the same coefficient sum has a dual objective
more than `ε·Σ(U−L)` above the reported one. -/
theorem stopped_near_optimal_svm {s : RS} (h : Inv s) (he : s.eqc = true) (hact : s.active = s.n)
    (hpsd : PSD s.n (Qmat s)) {ε : Rat} (hε : 0 ≤ ε) (hk : s.checkKKT < ε)
    (β : Nat → Rat) (hβ : ∀ k, k < s.n → s.L k ≤ β k ∧ β k ≤ s.U k) (hsum : rsum β s.n = alphaSum s) :
    dual s.n (Qmat s) s.lin β - dualObjective s ≤ ε * rsum (fun k => s.U k - s.L k) s.n := by
  rw [dualObjective_eq]
  apply kkt_eps_near_optimal (Qmat_symm h.sym) hpsd s.lin s.L s.U s.alpha β ε hε h.box hβ hsum
  intro i j hi hj hui hlj
  have := stopped_pairwise_svm h he hact (le_of_lt hk) i j hi hj hui hlj
  have gi : s.g i = s.lin i - rsum (fun b => Qmat s i b * s.alpha b) s.n := h.grad i (by rw [hact]; exact hi)
  have gj : s.g j = s.lin j - rsum (fun b => Qmat s j b * s.alpha b) s.n := h.grad j (by rw [hact]; exact hj)
  rw [← gi, ← gj]; exact this

/-- the same for the problem without bias -/
theorem stopped_near_optimal_box {s : RS} (h : Inv s) (he : s.eqc = false) (hact : s.active = s.n)
    (hpsd : PSD s.n (Qmat s)) {ε : Rat} (hε : 0 ≤ ε) (hk : s.checkKKT < ε)
    (β : Nat → Rat) (hβ : ∀ k, k < s.n → s.L k ≤ β k ∧ β k ≤ s.U k) :
    dual s.n (Qmat s) s.lin β - dualObjective s ≤ ε * rsum (fun k => s.U k - s.L k) s.n := by
  rw [dualObjective_eq]
  have hg : ∀ k, k < s.n → s.g k = s.lin k - rsum (fun b => Qmat s k b * s.alpha b) s.n :=
    fun k hk' => h.grad k (by rw [hact]; exact hk')
  apply kkt_eps_near_optimal_box (Qmat_symm h.sym) hpsd s.lin s.L s.U s.alpha β ε hε h.box hβ
  · intro k hk' hu; rw [← hg k hk']; exact (stopped_kkt_box h he (le_of_lt hk) k hk').1 hu
  · intro k hk' hl; rw [← hg k hk']; exact (stopped_kkt_box h he (le_of_lt hk) k hk').2 hl

/-! ## `getUnpermutedAlpha` -/

/-- **unpermute_correct**: `getUnpermutedAlpha` undoes the accumulated coordinate flips: entry `perm i` of the result
is the coefficient of the (permuted) variable `i`, for every injective `perm` (C08 `reachable_inv` keeps it
injective); positions that are not hit keep the initial value. -/
theorem unpermute_correct (s : RS) (z : Rat)
    (hinj : ∀ a b, a < s.n → b < s.n → s.perm a = s.perm b → a = b) :
    (∀ i, i < s.n → unpermutedAlpha s z (s.perm i) = s.alpha i) ∧
    (∀ x, (∀ i, i < s.n → s.perm i ≠ x) → unpermutedAlpha s z x = z) := by
  have key : ∀ m, m ≤ s.n →
      let f := (List.range m).foldl (fun (f : Nat → Rat) i => upd f (s.perm i) (s.alpha i)) (fun _ => z)
      (∀ i, i < m → f (s.perm i) = s.alpha i) ∧ (∀ x, (∀ i, i < m → s.perm i ≠ x) → f x = z) := by
    intro m
    induction m with
    | zero => intro _ f; exact ⟨fun i hi => by omega, fun x _ => rfl⟩
    | succ m ih =>
      intro hm f
      have hf : f = upd ((List.range m).foldl (fun (f : Nat → Rat) i => upd f (s.perm i) (s.alpha i)) (fun _ => z))
          (s.perm m) (s.alpha m) := by
        show (List.range (m + 1)).foldl _ _ = _
        rw [List.range_succ, List.foldl_append]; rfl
      obtain ⟨ih1, ih2⟩ := ih (by omega)
      rw [hf]
      constructor
      · intro i hi
        by_cases him : i = m
        · subst him; exact upd_same _ _ _
        · have hne : s.perm i ≠ s.perm m := fun e => him (hinj i m (by omega) (by omega) e)
          rw [upd_ne _ _ hne]; exact ih1 i (by omega)
      · intro x hx
        have hne : x ≠ s.perm m := fun e => hx m (Nat.lt_succ_self m) e.symm
        rw [upd_ne _ _ hne]; exact ih2 x (fun i hi => hx i (by omega))
  exact key s.n (Nat.le_refl _)

example : ∃ s : RS, (∀ a b, a < s.n → b < s.n → s.perm a = s.perm b → a = b) ∧ 0 < s.n :=
  ⟨State.init 1 (fun _ _ => 1) true false (fun _ => 1) (fun _ => 0) (fun _ => 1), fun _ _ _ _ e => e, by decide⟩


/-! ## `computeBias` -/

theorem lit1e100 : (1.0e100 : Rat) = 10 ^ 100 := by norm_num

theorem mean_le {S c x ε : Rat} (hc : 0 < c) (h : x * c - S ≤ ε * c) : x - S / c ≤ ε := by
  have hS : S / c * c = S := div_mul_cancel₀ S (ne_of_gt hc)
  by_contra hcon
  have := mul_lt_mul_of_pos_right (not_le.mp hcon) hc
  nlinarith

theorem mean_ge {S c x ε : Rat} (hc : 0 < c) (h : S - x * c ≤ ε * c) : S / c - x ≤ ε := by
  have hS : S / c * c = S := div_mul_cancel₀ S (ne_of_gt hc)
  by_contra hcon
  have := mul_lt_mul_of_pos_right (not_le.mp hcon) hc
  nlinarith

/-- FULL STATEMENT (not provable for the code as it is): whenever the reported state satisfies the pairwise KKT
conditions up to `ε`, the bias `b` returned by `computeBias` lies in the interval the optimality conditions allow:
`g_i − b ≤ ε` for every `i` not at its upper bound and `b − g_j ≤ ε` for every `j` not at its lower bound.
PROVED PART: gradients inside the sentinel range `[−1e100, 1e100]` of the C++ (`lowerBound = -1e100`,
`upperBound = 1e100`); the hypothesis is used only when there is no free variable; `bias_sentinel_witness` lies
outside.  Boxes may be degenerate (`L_k = U_k`, e.g. an example weight of 0): since the fix of F-C07-5 such variables
are skipped (`bias_degenerate_box_instance_repaired`).  `s.g` is the maintained gradient, which is `lin − K·α` for all
variables after `unshrink` (C08 `grad_all_after_unshrink`). -/
theorem bias_in_kkt_interval_partial {s : RS} (h : Inv s) {ε : Rat} (hε : 0 ≤ ε)
    (hpair : ∀ i j, i < s.n → j < s.n → s.alpha i < s.U i → s.L j < s.alpha j → s.g i - s.g j ≤ ε)
    (hrange : ∀ k, k < s.n → -(10 : Rat) ^ 100 ≤ s.g k ∧ s.g k ≤ 10 ^ 100) :
    (∀ i, i < s.n → s.alpha i < s.U i → s.g i - computeBias s (fun k => (k : Rat)) ≤ ε) ∧
    (∀ j, j < s.n → s.L j < s.alpha j → computeBias s (fun k => (k : Rat)) - s.g j ≤ ε) := by
  by_cases hn : s.n = 0
  · exact ⟨fun i hi => by omega, fun j hj => by omega⟩
  rw [computeBias_eq, if_neg hn]
  obtain ⟨h1, h2, h3, h4, h5, h6⟩ := biasInv_all s s.n
  -- the bound tests of `computeBias` are tests against the raw box under the invariant
  have hBL : ∀ k, k < s.n → (s.alpha k = s.boxMin k ↔ s.alpha k = s.L k) := fun k hk => by rw [boxMin_eq h hk]
  have hBU : ∀ k, k < s.n → (s.alpha k = s.boxMax k ↔ s.alpha k = s.U k) := fun k hk => by rw [boxMax_eq h hk]
  have hDeg : ∀ k, k < s.n → (s.boxMin k = s.boxMax k ↔ s.L k = s.U k) := fun k hk => by
    rw [boxMin_eq h hk, boxMax_eq h hk]
  have hfree : ∀ k, k < s.n → ¬ atB s k → s.L k < s.alpha k ∧ s.alpha k < s.U k := by
    intro k hk hB
    have hb := h.box k hk
    have n1 : s.alpha k ≠ s.L k := fun e => hB (Or.inr (Or.inl ((hBL k hk).2 e)))
    have n2 : s.alpha k ≠ s.U k := fun e => hB (Or.inr (Or.inr ((hBU k hk).2 e)))
    exact ⟨lt_of_le_of_ne hb.1 (Ne.symm n1), lt_of_le_of_ne hb.2 n2⟩
  generalize biasAcc s s.n = acc at *
  by_cases hc : acc.2.2.2 > 0
  · rw [if_pos hc]
    have hcq : (0 : Rat) < (acc.2.2.2 : Rat) := by exact_mod_cast hc
    constructor
    · intro i hi hui
      have hle : rsum (fun k => if atB s k then 0 else s.g i - s.g k) s.n
          ≤ rsum (fun k => if atB s k then 0 else ε) s.n := by
        apply rsum_le; intro k hk
        by_cases hB : atB s k
        · simp only [hB, if_true]; exact le_refl _
        · simp only [hB, if_false]; exact hpair i k hi hk hui (hfree k hk hB).1
      have e1 : rsum (fun k => if atB s k then 0 else s.g i - s.g k) s.n
          = s.g i * (acc.2.2.2 : Rat) - acc.2.2.1 := by
        rw [h1, h2, ← rsum_mul_left, ← rsum_sub]; apply rsum_congr; intro k _; split <;> ring
      have e2 : rsum (fun k => if atB s k then 0 else ε) s.n = ε * (acc.2.2.2 : Rat) := by
        rw [h2, ← rsum_mul_left]; apply rsum_congr; intro k _; split <;> ring
      rw [e1, e2] at hle
      exact mean_le hcq hle
    · intro j hj hlj
      have hle : rsum (fun k => if atB s k then 0 else s.g k - s.g j) s.n
          ≤ rsum (fun k => if atB s k then 0 else ε) s.n := by
        apply rsum_le; intro k hk
        by_cases hB : atB s k
        · simp only [hB, if_true]; exact le_refl _
        · simp only [hB, if_false]; exact hpair k j hk hj (hfree k hk hB).2 hlj
      have e1 : rsum (fun k => if atB s k then 0 else s.g k - s.g j) s.n
          = acc.2.2.1 - s.g j * (acc.2.2.2 : Rat) := by
        rw [h1, h2, ← rsum_mul_left, ← rsum_sub]; apply rsum_congr; intro k _; split <;> ring
      have e2 : rsum (fun k => if atB s k then 0 else ε) s.n = ε * (acc.2.2.2 : Rat) := by
        rw [h2, ← rsum_mul_left]; apply rsum_congr; intro k _; split <;> ring
      rw [e1, e2] at hle
      exact mean_ge hcq hle
  · rw [if_neg hc, lit05]
    have hz : acc.2.2.2 = 0 := by omega
    have hall : ∀ k, k < s.n → atB s k := count_zero_all_bound s s.n (by rw [← h2, hz]; norm_num)
    rw [lit1e100] at h5 h6
    constructor
    · intro i hi hui
      have hbi := h.box i hi
      have hdi : s.boxMin i ≠ s.boxMax i := fun e => by have := (hDeg i hi).1 e; linarith
      have hiL : s.alpha i = s.boxMin i := by
        rcases hall i hi with e | e | e
        · exact absurd e hdi
        · exact e
        · have := (hBU i hi).1 e; linarith
      have hlb := h3 i hi hdi hiL
      have hub : s.g i - acc.2.1 ≤ ε := by
        rcases h6 with e | ⟨k, hk, _, hk1, hk2, hk3⟩
        · rw [e]; have := (hrange i hi).2; linarith
        · rw [← hk3]
          have hkL : s.L k < s.alpha k :=
            lt_of_le_of_ne (h.box k hk).1 (fun e => hk1 ((hBL k hk).2 e.symm))
          exact hpair i k hi hk hui hkL
      linarith
    · intro j hj hlj
      have hbj := h.box j hj
      have hdj : s.boxMin j ≠ s.boxMax j := fun e => by have := (hDeg j hj).1 e; linarith
      have hjL : s.alpha j ≠ s.boxMin j := fun e => by have := (hBL j hj).1 e; linarith
      have hjU : s.alpha j = s.boxMax j := by
        rcases hall j hj with e | e | e
        · exact absurd e hdj
        · exact absurd e hjL
        · exact e
      have hub := h4 j hj hdj hjL hjU
      have hlb : acc.1 - s.g j ≤ ε := by
        rcases h5 with e | ⟨k, hk, hkd, hk1, hk2⟩
        · rw [e]; have := (hrange j hj).1; linarith
        · rw [← hk2]
          have hkU : s.alpha k < s.U k := by
            rw [(hBL k hk).1 hk1]
            exact lt_of_le_of_ne (le_trans (h.box k hk).1 (h.box k hk).2) (fun e => hkd ((hDeg k hk).2 e))
          exact hpair k j hk hj hkU hlj
      linarith

example : ∃ (s : RS) (ε : Rat), Smo.Inv s ∧ 0 ≤ ε ∧ 0 < s.n ∧
    (∀ i j, i < s.n → j < s.n → s.alpha i < s.U i → s.L j < s.alpha j → s.g i - s.g j ≤ ε) ∧
    (∀ k, k < s.n → -(10 : Rat) ^ 100 ≤ s.g k ∧ s.g k ≤ 10 ^ 100) := by
  refine ⟨State.init 1 (fun _ _ => 1) true false (fun _ => 1) (fun _ => 0) (fun _ => 1), 0, ?_, le_refl _, by decide,
    ?_, ?_⟩
  · refine ⟨fun _ _ => rfl, Nat.le_refl _, fun _ => rfl, fun _ hk => hk, fun _ _ _ _ e => e, fun _ _ => rfl, ?_, ?_, ?_,
      ?_, ?_, fun _ h1 h2 => absurd h2 (Nat.not_lt.mpr h1)⟩
    · intro k _; simp [State.init, lit0]
    · intro k _; simp [State.init, lit0]
    · intro k _; simp [State.init, lit0]
    · intro a _; simp [State.init, Kalpha, rsum, State.sumTo, lit0]
    · intro hs; simp [State.init] at hs
  · intro i j hi hj _ hl; simp [State.init, lit0] at hl
  · intro k _; simp only [State.init]; constructor <;> norm_num

/-- the former defect F-C07-5 (degenerate box): variable 0 has `L = U = 0` and gradient 10, variable 1 sits at its upper
bound of `[0,1]` with gradient 0.  The unrepaired `computeBias` returned `½(10 + 0) = 5`, so `b − g_1 = 5 > 1`; the
current one skips variable 0 and satisfies the bound. -/
def biasWitnessDegenerate : RS where
  n := 2
  K := fun _ _ => 0
  eqc := true
  shrinkOn := false
  unshrinked := false
  active := 2
  perm := fun k => k
  lin := fun k => if k = 0 then 10 else 0
  alpha := fun k => if k = 0 then 0 else 1
  diag := fun _ => 0
  L := fun _ => 0
  U := fun k => if k = 0 then 0 else 1
  g := fun k => if k = 0 then 10 else 0
  gEdge := fun k => if k = 0 then 10 else 0
  lo := fun k => k == 0
  up := fun _ => true

theorem bias_degenerate_box_instance_repaired :
    let s : RS := biasWitnessDegenerate
    (∀ i j, i < s.n → j < s.n → s.alpha i < s.U i → s.L j < s.alpha j → s.g i - s.g j ≤ 1) ∧
    s.L 1 < s.alpha 1 ∧ computeBias s (fun k => (k : Rat)) - s.g 1 ≤ 1 := by
  intro s
  refine ⟨?_, by norm_num [s, biasWitnessDegenerate], ?_⟩
  · intro i j hi hj hui _
    have : i = 0 ∨ i = 1 := by have : i < 2 := hi; omega
    rcases this with e | e <;> subst e <;> norm_num [s, biasWitnessDegenerate] at hui
  · have hb : computeBias s (fun k => (k : Rat)) = -(10 ^ 100) / 2 := by
      rw [computeBias_eq]
      simp only [biasAcc, biasStep, s, biasWitnessDegenerate, State.boxMin, State.boxMax, List.range_succ, List.range_zero,
        List.nil_append, List.foldl_cons, List.foldl_nil, List.cons_append, lit0, lit05, lit1e100]
      norm_num
    rw [hb]; norm_num [s, biasWitnessDegenerate]

/-- witness outside the hypothesis (sentinel range): one variable at its upper bound of `[0,1]` with gradient
`−3e100`: `computeBias` returns `½(−1e100 − 3e100) = −2e100`, and `b − g_0 = 1e100 > 1`. -/
def biasWitnessSentinel : RS where
  n := 1
  K := fun _ _ => 0
  eqc := true
  shrinkOn := false
  unshrinked := false
  active := 1
  perm := fun k => k
  lin := fun _ => -(3 * 10 ^ 100)
  alpha := fun _ => 1
  diag := fun _ => 0
  L := fun _ => 0
  U := fun _ => 1
  g := fun _ => -(3 * 10 ^ 100)
  gEdge := fun _ => -(3 * 10 ^ 100)
  lo := fun _ => false
  up := fun _ => true

theorem bias_sentinel_witness :
    let s : RS := biasWitnessSentinel
    (∀ i j, i < s.n → j < s.n → s.alpha i < s.U i → s.L j < s.alpha j → s.g i - s.g j ≤ 1) ∧
    s.L 0 < s.alpha 0 ∧ ¬ (computeBias s (fun k => (k : Rat)) - s.g 0 ≤ 1) := by
  intro s
  refine ⟨?_, by norm_num [s, biasWitnessSentinel], ?_⟩
  · intro i j _ _ hui _; norm_num [s, biasWitnessSentinel] at hui
  · have hb : computeBias s (fun k => (k : Rat)) = -(2 * 10 ^ 100) := by
      rw [computeBias_eq]
      simp only [biasAcc, biasStep, s, biasWitnessSentinel, State.boxMin, State.boxMax, List.range_succ, List.range_zero, List.nil_append,
        List.foldl_cons, List.foldl_nil, lit0, lit05, lit1e100]
      norm_num
    rw [hb]; norm_num [s, biasWitnessSentinel]


/-! ## The widened trainers: their problems start inside the invariant, and the ε-regression block matrix is PSD

With these, everything proved about reachable states (C08 `reachable_inv`, `sum_inv`, `objective_monotone_svm`) and
about reported states (`stopped_near_optimal_svm`, …) applies to `CSvmTrainer` with class-specific `C` / example
weights, to `EpsilonSvmTrainer` and to `OneClassSvmTrainer`. -/

theorem lit1 : (1.0 : Rat) = 1 := by norm_num

/-- gradient accumulated by the `SvmProblem` constructor for a non-zero start vector -/
theorem initWith_grad (K : Nat → Nat → Rat) (lin a0 : Nat → Rat) : ∀ m (a : Nat),
    (List.range m).foldl (fun (gr : Nat → Rat) i =>
      if a0 i == (0.0 : Rat) then gr else fun k => gr k - K i k * a0 i) lin a
      = lin a - rsum (fun i => K i a * a0 i) m := by
  intro m
  induction m with
  | zero => intro a; simp
  | succ m ih =>
    intro a
    rw [List.range_succ, List.foldl_append, rsum_succ]
    simp only [List.foldl_cons, List.foldl_nil]
    split
    · rename_i h0
      rw [beq_iff_eq, lit0] at h0
      rw [ih a, h0]; ring
    · show (List.range m).foldl _ lin a - K m a * a0 m = _
      rw [ih a]; ring

/-- **the problem constructed with a non-zero start vector satisfies the invariant** provided the start vector lies in
the box and every coefficient that sits at a bound is zero (`m_gradientEdge` is initialised with `linear`); this is the
situation of `BoxedSVMProblem` in the one-class trainer (`alpha = 1/n` strictly inside `[0, 1/(nu n)]`, `nu < 1`). -/
theorem initWith_inv (n : Nat) (K : Nat → Nat → Rat) (eqc sh : Bool) (lin L U a0 : Nat → Rat)
    (hsym : ∀ x y, K x y = K y x) (hbox : ∀ k, k < n → L k ≤ a0 k ∧ a0 k ≤ U k)
    (hedge : ∀ k, k < n → (a0 k = L k ∨ a0 k = U k) → a0 k = 0) :
    Inv (State.initWith n K eqc sh lin L U a0) := by
  refine { sym := hsym, act_le := Nat.le_refl _, noshrink := fun _ => rfl, perm_lt := fun k hk => hk,
           perm_inj := fun a b _ _ e => e, diag := fun k _ => rfl, box := hbox, flo := ?_, fup := ?_,
           grad := ?_, edge := ?_, shrunk := ?_ }
  · intro k _; simp only [State.initWith, beq_iff_eq]
  · intro k _; simp only [State.initWith, beq_iff_eq]
  · intro a _
    show (List.range n).foldl _ lin a = lin a - Kalpha (State.initWith n K eqc sh lin L U a0) a
    rw [initWith_grad]
    simp only [Kalpha, State.initWith]
    congr 1; apply rsum_congr; intro i _; rw [hsym]
  · intro _ a _
    show lin a = lin a - KalphaEdge (State.initWith n K eqc sh lin L U a0) a
    have : KalphaEdge (State.initWith n K eqc sh lin L U a0) a = 0 := by
      have e : KalphaEdge (State.initWith n K eqc sh lin L U a0) a = rsum (fun _ => 0) n := by
        unfold KalphaEdge
        apply rsum_congr; intro b hb
        split
        · rename_i hbd
          have hz : a0 b = 0 := hedge b hb hbd
          show K a b * a0 b = 0
          rw [hz, mul_zero]
        · rfl
      rw [e, rsum_const_zero]
    rw [this, sub_zero]
  · intro k hk1 hk2; exact absurd hk2 (Nat.not_lt.mpr hk1)

/-- the C-SVM problem with class-specific `C` and per-example weights starts in a state satisfying the invariant -/
theorem csvmInit2_inv (n : Nat) (K : Nat → Nat → Rat) (y : Nat → Bool) (Cn Cp : Rat) (w : Nat → Rat) (bias sh : Bool)
    (hsym : ∀ x y, K x y = K y x) (hCn : 0 ≤ Cn) (hCp : 0 ≤ Cp) (hw : ∀ k, k < n → 0 ≤ w k) :
    Inv (csvmInit2 n K y Cn Cp w bias sh) := by
  apply C08.init_inv _ _ _ _ _ _ _ hsym
  intro k hk
  have h1 := mul_nonneg hCn (hw k hk)
  have h2 := mul_nonneg hCp (hw k hk)
  cases y k <;> simp only [lit0, Bool.false_eq_true, if_false, if_true] <;> constructor <;> linarith

/-- the ε-regression problem (2n variables over the block matrix) starts in a state satisfying the invariant -/
theorem epsInit_inv (n : Nat) (K : Nat → Nat → Rat) (y : Nat → Rat) (C tube : Rat) (sh : Bool)
    (hsym : ∀ x y, K x y = K y x) (hC : 0 ≤ C) : Inv (epsInit n K y C tube sh) := by
  apply C08.init_inv _ _ _ _ _ _ _ (fun a b => hsym _ _)
  intro k _
  split <;> simp only [lit0] <;> constructor <;> linarith

/-- the one-class problem (`alpha = 1/n`, box `[0, 1/(nu n)]`, `0 < nu < 1`) starts in a state satisfying the invariant
with coefficient sum 1 -/
theorem oneClassInit_inv (n : Nat) (K : Nat → Nat → Rat) (nu : Rat) (sh : Bool)
    (hsym : ∀ x y, K x y = K y x) (hn : 0 < n) (hnu0 : 0 < nu) (hnu1 : nu < 1) :
    Inv (oneClassInit n K nu (n : Rat) sh) ∧ alphaSum (oneClassInit n K nu (n : Rat) sh) = 1 := by
  have hnq : (0 : Rat) < (n : Rat) := by exact_mod_cast hn
  have hlt : (1 : Rat) / (n : Rat) < 1 / (nu * (n : Rat)) := by
    rw [div_lt_div_iff₀ hnq (mul_pos hnu0 hnq)]
    nlinarith
  have hpos : (0 : Rat) < 1 / (n : Rat) := div_pos one_pos hnq
  constructor
  · unfold oneClassInit
    apply initWith_inv _ _ _ _ _ _ _ _ hsym
    · intro k _; simp only [lit0, lit1]; constructor <;> linarith
    · intro k _ hb; simp only [lit0, lit1] at hb ⊢
      rcases hb with hb | hb <;> linarith
  · simp only [alphaSum, oneClassInit, State.initWith, lit1]
    have : ∀ m : Nat, rsum (fun _ => (1 : Rat) / (n : Rat)) m = (m : Rat) / (n : Rat) := by
      intro m
      induction m with
      | zero => simp
      | succ m ih => rw [rsum_succ, ih]; push_cast; ring
    rw [this n]; exact div_self (ne_of_gt hnq)

/-- `Σ_{a<2n} f a` splits into the two halves -/
theorem rsum_two_mul (f : Nat → Rat) (n : Nat) : rsum f (2 * n) = rsum f n + rsum (fun k => f (n + k)) n := by
  have h : ∀ m, rsum f (n + m) = rsum f n + rsum (fun k => f (n + k)) m := by
    intro m
    induction m with
    | zero => simp
    | succ m ih => rw [← Nat.add_assoc, rsum_succ, ih, rsum_succ]; ring
  rw [two_mul]; exact h n

/-- the 2×2 block matrix `[[Q,Q],[Q,Q]]` of the ε-regression dual is PSD when `Q` is -/
theorem psd_block {n : Nat} {Q : Nat → Nat → Rat} (h : PSD n Q) : PSD (2 * n) (fun a b => Q (a % n) (b % n)) := by
  intro v
  have key : bil (2 * n) (fun a b => Q (a % n) (b % n)) v v
      = bil n Q (fun k => v k + v (n + k)) (fun k => v k + v (n + k)) := by
    unfold bil
    have inner : ∀ a, rsum (fun b => Q (a % n) (b % n) * v b) (2 * n)
        = rsum (fun l => Q (a % n) l * (v l + v (n + l))) n := by
      intro a
      rw [rsum_two_mul, ← rsum_add]
      apply rsum_congr; intro l hl
      rw [Nat.add_mod_left, Nat.mod_eq_of_lt hl]; ring
    rw [rsum_two_mul, ← rsum_add]
    apply rsum_congr; intro k hk
    rw [inner k, inner (n + k), Nat.add_mod_left, Nat.mod_eq_of_lt hk]; ring
  rw [key]; exact h _


example : ∃ (n : Nat) (K : Nat → Nat → Rat) (nu : Rat), (∀ x y, K x y = K y x) ∧ 0 < n ∧ 0 < nu ∧ nu < 1 :=
  ⟨2, fun _ _ => 1, 1 / 2, fun _ _ => rfl, by decide, by norm_num, by norm_num⟩


/-! ## Warm starts -/

/-- **warm start**: `setInitialSolution(a0)` on a state with all variables active yields a state satisfying the
invariant whenever `a0` lies in the box (gradient and edge gradient are rebuilt from scratch) -/
theorem setInitialSolution_inv {s : RS} (h : Inv s) (hact : s.active = s.n) (a0 : Nat → Rat)
    (hbox : ∀ k, k < s.n → s.L k ≤ a0 k ∧ a0 k ≤ s.U k) : Inv (s.setInitialSolution a0) := by
  unfold State.setInitialSolution
  refine { sym := h.sym, act_le := h.act_le, noshrink := h.noshrink, perm_lt := h.perm_lt, perm_inj := h.perm_inj,
           diag := h.diag, box := hbox, flo := ?_, fup := ?_, grad := ?_, edge := ?_, shrunk := ?_ }
  · intro k _; simp only [beq_iff_eq]
  · intro k _; simp only [beq_iff_eq]
  · intro a _
    dsimp only
    rw [foldl_filter_sub (fun i => !(a0 i == (0.0 : Rat))) (fun i k => a0 i * s.q i k) s.lin s.n a]
    show _ = s.lin a - rsum (fun b => s.K (s.perm a) (s.perm b) * a0 b) s.n
    congr 1; apply rsum_congr; intro i _
    by_cases h0 : a0 i = 0
    · simp [h0, lit0]
    · have : (!(a0 i == (0.0 : Rat))) = true := by rw [lit0]; simp [h0]
      rw [this, if_pos rfl]; simp only [State.q]; rw [h.sym]; ring
  · intro _ a _
    dsimp only
    rw [List.filter_filter,
      foldl_filter_sub _ (fun i k => a0 i * s.q i k) s.lin s.n a]
    show _ = s.lin a - rsum (fun b => if a0 b = s.L b ∨ a0 b = s.U b then s.K (s.perm a) (s.perm b) * a0 b else 0) s.n
    congr 1; apply rsum_congr; intro i hi
    rw [boxMin_eq h hi, boxMax_eq h hi]
    by_cases h0 : a0 i = 0
    · simp [h0, lit0]
    · by_cases hb : a0 i = s.L i ∨ a0 i = s.U i
      · have : (((a0 i == s.L i) || (a0 i == s.U i)) && !(a0 i == (0.0 : Rat))) = true := by
          rw [lit0]; rcases hb with e | e <;> simp [e, h0] <;> (rw [← e]; exact h0)
        rw [this, if_pos rfl, if_pos hb]; simp only [State.q]; rw [h.sym]; ring
      · have : (((a0 i == s.L i) || (a0 i == s.U i)) && !(a0 i == (0.0 : Rat))) = false := by
          push_neg at hb; simp [hb.1, hb.2]
        rw [this, if_neg hb]; simp
  · intro k hk1 hk2
    have : s.n ≤ k := by rw [← hact]; exact hk1
    exact absurd hk2 (Nat.not_lt.mpr this)

open Classical in
/-- **the warm-start vector lies in the box** (boxes contain 0, as for every C-SVM problem) -/
theorem warmStart_in_box (s : RS) (a1 : Nat → Rat) (bias : Bool)
    (hbox : ∀ k, k < s.n → s.L k ≤ 0 ∧ 0 ≤ s.U k) :
    ∀ k, k < s.n → s.L k ≤ warmStartVector s a1 bias k ∧ warmStartVector s a1 bias k ≤ s.U k := by
  intro k hk
  have hc := clipv_box s a1 k (le_trans (hbox k hk).1 (hbox k hk).2)
  obtain ⟨hL0, hU0⟩ := hbox k hk
  rw [warmStartVector_apply]
  split
  · exact hc
  split
  · exact hc
  rename_i _ hG
  have hne : warmP s a1 ≠ warmN s a1 := fun e => hG (Or.inr e)
  split
  · obtain ⟨hf0, hf1⟩ := warmF_bounds (warmP_nonneg s a1) (warmN_nonneg s a1) hne
    generalize warmF (warmP s a1) (warmN s a1) = f at hf0 hf1 ⊢
    by_cases hpos : 0 < clipv s a1 k
    · constructor
      · have := mul_nonneg (le_of_lt hpos) hf0; linarith
      · have := mul_le_mul_of_nonneg_left hf1 (le_of_lt hpos); linarith [hc.2]
    · have hle : clipv s a1 k ≤ 0 := not_lt.mp hpos
      constructor
      · have := mul_le_mul_of_nonneg_left hf1 (neg_nonneg.mpr hle)
        nlinarith [hc.1]
      · have := mul_nonneg (neg_nonneg.mpr hle) hf0
        nlinarith
  · exact hc

open Classical in
/-- **with bias the warm-start vector sums to zero whenever clipping changed a coefficient or the two sides of the given
vector differ by more than `1e-12` relative** (`mustBalance`; exactly, in exact arithmetic): this is what the repairs of
F-C07-2 and F-C07-9 establish, and `sum_inv` (C08) keeps it for the whole run -/
theorem warmStart_sum_zero (s : RS) (a1 : Nat → Rat) (hclip : mustBalance s a1) :
    rsum (warmStartVector s a1 true) s.n = 0 := by
  have hsplit : rsum (clipv s a1) s.n = warmP s a1 - warmN s a1 := by
    unfold warmP warmN; rw [← rsum_sub]; apply rsum_congr; intro i _; split <;> ring
  by_cases hPN : warmP s a1 = warmN s a1
  · have : rsum (warmStartVector s a1 true) s.n = rsum (clipv s a1) s.n := by
      apply rsum_congr; intro k _; rw [warmStartVector_apply]; simp [hPN]
    rw [this, hsplit, hPN, sub_self]
  · have hG : ¬ (¬ mustBalance s a1 ∨ warmP s a1 = warmN s a1) := fun h => h.elim (fun h' => h' hclip) hPN
    have hP := warmP_nonneg s a1
    have hN := warmN_nonneg s a1
    by_cases hgt : warmN s a1 < warmP s a1
    · have hPpos : 0 < warmP s a1 := lt_of_le_of_lt hN hgt
      have hF : warmF (warmP s a1) (warmN s a1) = warmN s a1 / warmP s a1 := by unfold warmF; rw [if_pos hgt]
      have : rsum (warmStartVector s a1 true) s.n
          = rsum (fun i => (warmN s a1 / warmP s a1) * (if 0 < clipv s a1 i then clipv s a1 i else 0)
              - (if 0 < clipv s a1 i then 0 else - clipv s a1 i)) s.n := by
        apply rsum_congr; intro k _
        rw [warmStartVector_apply, if_neg (by simp), if_neg hG, hF]
        by_cases hpos : 0 < clipv s a1 k
        · have hne : clipv s a1 k ≠ 0 := ne_of_gt hpos
          rw [if_pos ⟨⟨fun _ => hgt, fun _ => hpos⟩, hne⟩]; simp only [hpos, if_true]; ring
        · rw [if_neg (fun h => hpos (h.1.2 hgt))]; simp only [hpos, if_false]; ring
      rw [this, rsum_sub, rsum_mul_left]
      show warmN s a1 / warmP s a1 * warmP s a1 - warmN s a1 = 0
      rw [div_mul_cancel₀ _ (ne_of_gt hPpos), sub_self]
    · have hlt : warmP s a1 < warmN s a1 := lt_of_le_of_ne (not_lt.mp hgt) hPN
      have hNpos : 0 < warmN s a1 := lt_of_le_of_lt hP hlt
      have hF : warmF (warmP s a1) (warmN s a1) = warmP s a1 / warmN s a1 := by
        unfold warmF; rw [if_neg (not_lt.mpr (le_of_lt hlt))]
      have : rsum (warmStartVector s a1 true) s.n
          = rsum (fun i => (if 0 < clipv s a1 i then clipv s a1 i else 0)
              - (warmP s a1 / warmN s a1) * (if 0 < clipv s a1 i then 0 else - clipv s a1 i)) s.n := by
        apply rsum_congr; intro k _
        rw [warmStartVector_apply, if_neg (by simp), if_neg hG, hF]
        by_cases hpos : 0 < clipv s a1 k
        · rw [if_neg (fun h => hgt (h.1.1 hpos))]; simp only [hpos, if_true]; ring
        · by_cases hz : clipv s a1 k = 0
          · rw [if_neg (fun h => h.2 hz)]; simp [hz]
          · rw [if_pos ⟨⟨fun h => absurd h hpos, fun h => absurd h hgt⟩, hz⟩]; simp only [hpos, if_false]; ring
      rw [this, rsum_sub, rsum_mul_left]
      show warmP s a1 - warmP s a1 / warmN s a1 * warmN s a1 = 0
      rw [div_mul_cancel₀ _ (ne_of_gt hNpos), sub_self]

open Classical in
/-- a start vector that already fits the box and is balanced up to `1e-12` relative is passed through unchanged (refined
repair b8cdd69a: a previous solution of the same problem is not rescaled) -- its coefficient sum is whatever it was, which
is at most `1e-12·(ΣP + ΣN)` in absolute value (`warmStart_sum_small`) -/
theorem warmStart_untouched (s : RS) (a1 : Nat → Rat) (bias : Bool) (h : ¬ mustBalance s a1) :
    ∀ k, k < s.n → warmStartVector s a1 bias k = a1 k := by
  intro k hk
  have hc : clipv s a1 k = a1 k := by
    by_contra hne; exact h (Or.inl ⟨k, hk, hne⟩)
  rw [warmStartVector_apply]
  split
  · exact hc
  · rw [if_pos (Or.inl h)]; exact hc

/-- **a warm-started C-SVM run starts inside the invariant**, whatever coefficients the previous model carries, and
with bias its coefficient sum is exactly 0 as soon as clipping changed a coefficient, the two sides of the previous
coefficients differ by more than `1e-12` relative (`mustBalance`, repair of F-C07-9) or the previous coefficients summed
to 0 (a previous vector that fits the box and is balanced up to the tolerance is passed through as it is; its sum is then at
most `1e-12·(ΣP + ΣN)`: `warm_start_sum_tolerance`) -- so `reachable_inv`, `sum_inv` and `stopped_near_optimal_*` apply to warm
starts as to cold ones (this is the configuration-independence clause for warm starts, given termination). -/
theorem warm_start_inv (n : Nat) (K : Nat → Nat → Rat) (y : Nat → Bool) (Cn Cp : Rat) (w : Nat → Rat) (bias sh : Bool)
    (a1 : Nat → Rat) (hsym : ∀ x y, K x y = K y x) (hCn : 0 ≤ Cn) (hCp : 0 ≤ Cp) (hw : ∀ k, k < n → 0 ≤ w k) :
    let s0 := csvmInit2 n K y Cn Cp w bias sh
    Inv (s0.setInitialSolution (warmStartVector s0 a1 bias)) ∧
    (bias = true → (mustBalance s0 a1 ∨ rsum a1 n = 0) →
      alphaSum (s0.setInitialSolution (warmStartVector s0 a1 bias)) = 0) := by
  intro s0
  have h0 : Inv s0 := csvmInit2_inv n K y Cn Cp w bias sh hsym hCn hCp hw
  have hbox0 : ∀ k, k < s0.n → s0.L k ≤ 0 ∧ 0 ≤ s0.U k := by
    intro k hk
    have := h0.box k hk
    have ha : s0.alpha k = 0 := lit0
    rw [ha] at this; exact this
  refine ⟨setInitialSolution_inv h0 rfl _ (warmStart_in_box s0 a1 bias hbox0), ?_⟩
  intro hb hc
  subst hb
  by_cases hclip : mustBalance s0 a1
  · exact warmStart_sum_zero s0 a1 hclip
  · have hz : rsum a1 n = 0 := hc.resolve_left hclip
    show rsum (warmStartVector s0 a1 true) s0.n = 0
    rw [rsum_congr (warmStart_untouched s0 a1 true hclip)]
    exact hz

example : ∃ (n : Nat) (K : Nat → Nat → Rat) (Cn Cp : Rat) (w : Nat → Rat),
    (∀ x y, K x y = K y x) ∧ 0 ≤ Cn ∧ 0 ≤ Cp ∧ ∀ k, k < n → 0 ≤ w k :=
  ⟨2, fun _ _ => 1, 1, 2, fun _ => 1, fun _ _ => rfl, by norm_num, by norm_num, fun _ _ => by norm_num⟩


open Classical in
/-- **whatever the previous coefficients are, the start vector of a training with bias sums to zero up to the tolerance of
the C++**: exactly 0 when the trainer re-balances (`mustBalance`), otherwise the clipped vector is the given one and
`|Σ| = |ΣP − ΣN| ≤ 1e-12·(ΣP + ΣN)`.  With `sum_inv` (C08) / `solve_sum_svm_partial` this bounds the violation of the
equality constraint of every machine trained from a warm start. -/
theorem warmStart_sum_small (s : RS) (a1 : Nat → Rat) :
    |rsum (warmStartVector s a1 true) s.n| ≤ 1 / 1000000000000 * (warmP s a1 + warmN s a1) := by
  have hP := warmP_nonneg s a1
  have hN := warmN_nonneg s a1
  by_cases hb : mustBalance s a1
  · rw [warmStart_sum_zero s a1 hb, abs_zero]; positivity
  · have hsplit : rsum (clipv s a1) s.n = warmP s a1 - warmN s a1 := by
      unfold warmP warmN; rw [← rsum_sub]; apply rsum_congr; intro i _; split <;> ring
    have hc : ∀ k, k < s.n → clipv s a1 k = a1 k := by
      intro k hk; by_contra hne; exact hb (Or.inl ⟨k, hk, hne⟩)
    rw [rsum_congr (warmStart_untouched s a1 true hb), ← rsum_congr hc, hsplit, ← absDiff_eq_abs]
    exact not_lt.mp (fun h => hb (Or.inr h))

/-- the same for the state the warm-started solver starts from -/
theorem warm_start_sum_tolerance (n : Nat) (K : Nat → Nat → Rat) (y : Nat → Bool) (Cn Cp : Rat) (w : Nat → Rat) (sh : Bool)
    (a1 : Nat → Rat) :
    let s0 := csvmInit2 n K y Cn Cp w true sh
    |alphaSum (s0.setInitialSolution (warmStartVector s0 a1 true))| ≤ 1 / 1000000000000 * (warmP s0 a1 + warmN s0 a1) :=
  warmStart_sum_small (csvmInit2 n K y Cn Cp w true sh) a1

/-! ## The offsets of the ε-regression and one-class machines -/

theorem foldl_range_congr {β : Type} (f g : β → Nat → β) (init : β) : ∀ n, (∀ acc k, k < n → f acc k = g acc k) →
    (List.range n).foldl f init = (List.range n).foldl g init := by
  intro n
  induction n with
  | zero => intro _; rfl
  | succ n ih =>
    intro h
    rw [List.range_succ, List.foldl_append, List.foldl_append, ih (fun acc k hk => h acc k (by omega))]
    simp only [List.foldl_cons, List.foldl_nil]
    exact h _ n (Nat.lt_succ_self n)

/-- for boxes with non-empty interior the offset loop of `EpsilonSvmTrainer` computes what `CSvmTrainer::computeBias`
computes (`std::max(value, bound)` versus `if (value > bound) bound = value`) -/
theorem epsOffset_eq_computeBias (s : RS) (cnt : Nat → Rat) (hnd : ∀ k, k < s.n → s.boxMin k ≠ s.boxMax k) (hn : s.n ≠ 0) :
    epsOffset s cnt = computeBias s cnt := by
  unfold epsOffset computeBias
  rw [if_neg hn]
  dsimp only
  rw [foldl_range_congr _ (fun (acc : Rat × Rat × Rat × Nat) i =>
      if s.boxMin i == s.boxMax i then acc
      else if s.alpha i == s.boxMin i then
        (if s.g i > acc.1 then (s.g i, acc.2.1, acc.2.2.1, acc.2.2.2) else acc)
      else if s.alpha i == s.boxMax i then
        (if s.g i < acc.2.1 then (acc.1, s.g i, acc.2.2.1, acc.2.2.2) else acc)
      else (acc.1, acc.2.1, acc.2.2.1 + s.g i, acc.2.2.2 + 1)) _ s.n]
  intro acc k hk
  have hd : ¬ ((s.boxMin k == s.boxMax k) = true) := by rw [beq_iff_eq]; exact hnd k hk
  rw [if_neg hd]
  split
  · unfold smax; split
    · rename_i h; rw [if_neg (not_lt.mpr (le_of_lt h))]
    · rename_i h
      by_cases hgt : s.g k > acc.1
      · rw [if_pos hgt]
      · rw [if_neg hgt]
        have : s.g k = acc.1 := le_antisymm (not_lt.mp hgt) (not_lt.mp h)
        rw [this]
  · split
    · unfold smin; split
      · rename_i h; rw [if_neg (not_lt.mpr (le_of_lt h))]
      · rename_i h
        by_cases hlt : s.g k < acc.2.1
        · rw [if_pos hlt]
        · rw [if_neg hlt]
          have : s.g k = acc.2.1 := le_antisymm (not_lt.mp h) (not_lt.mp hlt)
          rw [this]
    · rfl

/-- **the offset of the ε-regression machine lies in the KKT interval** (same statement and hypotheses as
`bias_in_kkt_interval_partial`; the boxes `[0,C]`, `[−C,0]` of ε-regression have non-empty interior for `C > 0`) -/
theorem eps_offset_in_kkt_interval_partial {s : RS} (h : Smo.Inv s) {ε : Rat} (hε : 0 ≤ ε)
    (hpair : ∀ i j, i < s.n → j < s.n → s.alpha i < s.U i → s.L j < s.alpha j → s.g i - s.g j ≤ ε)
    (hnd : ∀ k, k < s.n → s.L k < s.U k)
    (hrange : ∀ k, k < s.n → -(10 : Rat) ^ 100 ≤ s.g k ∧ s.g k ≤ 10 ^ 100) :
    (∀ i, i < s.n → s.alpha i < s.U i → s.g i - epsOffset s (fun k => (k : Rat)) ≤ ε) ∧
    (∀ j, j < s.n → s.L j < s.alpha j → epsOffset s (fun k => (k : Rat)) - s.g j ≤ ε) := by
  by_cases hn : s.n = 0
  · exact ⟨fun i hi => by omega, fun j hj => by omega⟩
  rw [epsOffset_eq_computeBias s _ (fun k hk => by
    rw [boxMin_eq h hk, boxMax_eq h hk]; exact ne_of_lt (hnd k hk)) hn]
  exact bias_in_kkt_interval_partial h hε hpair hrange


/-- the offset loop of `OneClassSvmTrainer` (literal tests `alpha == 0`, `alpha == upper`) is the box-based loop when the
box is `[0, upper]` -/
theorem oneClassOffset_eq_epsOffset (s : RS) (upper : Rat) (cnt : Nat → Rat)
    (hb : ∀ k, k < s.n → s.boxMin k = 0 ∧ s.boxMax k = upper) :
    oneClassOffset s upper cnt = epsOffset s cnt := by
  unfold oneClassOffset epsOffset
  dsimp only
  rw [foldl_range_congr _ (fun (acc : Rat × Rat × Rat × Nat) i =>
      if s.alpha i == s.boxMin i then (smax (s.g i) acc.1, acc.2.1, acc.2.2.1, acc.2.2.2)
      else if s.alpha i == s.boxMax i then (acc.1, smin (s.g i) acc.2.1, acc.2.2.1, acc.2.2.2)
      else (acc.1, acc.2.1, acc.2.2.1 + s.g i, acc.2.2.2 + 1)) _ s.n]
  intro acc k hk
  rw [(hb k hk).1, (hb k hk).2, lit0]

/-- **the offset of the one-class machine lies in the KKT interval** -/
theorem oneclass_offset_in_kkt_interval_partial {s : RS} (h : Smo.Inv s) {ε upper : Rat} (hε : 0 ≤ ε) (hup : 0 < upper)
    (hbox : ∀ k, k < s.n → s.L k = 0 ∧ s.U k = upper)
    (hpair : ∀ i j, i < s.n → j < s.n → s.alpha i < s.U i → s.L j < s.alpha j → s.g i - s.g j ≤ ε)
    (hrange : ∀ k, k < s.n → -(10 : Rat) ^ 100 ≤ s.g k ∧ s.g k ≤ 10 ^ 100) :
    (∀ i, i < s.n → s.alpha i < s.U i → s.g i - oneClassOffset s upper (fun k => (k : Rat)) ≤ ε) ∧
    (∀ j, j < s.n → s.L j < s.alpha j → oneClassOffset s upper (fun k => (k : Rat)) - s.g j ≤ ε) := by
  rw [oneClassOffset_eq_epsOffset s upper _ (fun k hk => by
    rw [boxMin_eq h hk, boxMax_eq h hk]; exact hbox k hk)]
  exact eps_offset_in_kkt_interval_partial h hε hpair
    (fun k hk => by rw [(hbox k hk).1, (hbox k hk).2]; exact hup) hrange


/-! ## End to end: what `AccuracyReached` means for the trained machine -/

/-- positive semi-definiteness of a kernel in the usual sense: every finite Gram matrix `K(f a, f b)` is PSD -/
def KernelPSD (K : Nat → Nat → Rat) : Prop :=
  ∀ (m : Nat) (f : Nat → Nat) (v : Nat → Rat), 0 ≤ bil m (fun a b => K (f a) (f b)) v v

theorem KernelPSD.qmat {K : Nat → Nat → Rat} (h : KernelPSD K) (s : RS) (hK : s.K = K) : PSD s.n (Qmat s) := by
  intro v; unfold Qmat; rw [hK]; exact h s.n s.perm v

/-- if the model of `QpSolver::solve` reports `AccuracyReached`, the state it returns has all variables active and a
KKT violation below `eps` -/
theorem solve_acc (strategy : Nat) (eps : Rat) : ∀ (fuel : Nat) (s : RS) (counter it : Nat),
    (solve strategy eps fuel s counter it).2.1 = true →
    (solve strategy eps fuel s counter it).1.checkKKT < eps ∧
    (solve strategy eps fuel s counter it).1.active = (solve strategy eps fuel s counter it).1.n := by
  intro fuel
  induction fuel with
  | zero => intro s _ _ h; simp [solve] at h
  | succ fuel ih =>
    intro s counter it h
    unfold solve at h ⊢
    cases hn : (solveIter strategy eps s counter).2 with
    | none =>
      obtain ⟨hk, hev⟩ := stop_implies_kkt strategy eps s counter hn
      simp only [hev, List.getLast?_singleton, Option.map_some, Option.getD_some]
      exact ⟨hk, unshrink_active s⟩
    | some p =>
      obtain ⟨s', c'⟩ := p
      simp only [hn] at h ⊢
      exact ih s' c' (it + 1) h

/-- the data of the problem never changes during a solver run -/
theorem solveIter_K (strategy : Nat) (eps : Rat) (s : RS) (counter : Nat) :
    (∀ e, e ∈ (solveIter strategy eps s counter).1 → e.2.K = s.K) ∧
    (∀ s' c', (solveIter strategy eps s counter).2 = some (s', c') → s'.K = s.K) := by
  have hun : s.unshrink.K = s.K := by unfold State.unshrink; split <;> rfl
  have hsh : ∀ t : RS, (t.shrink eps).1.K = t.K := by
    intro t
    unfold State.shrink
    split
    · rfl
    · dsimp only
      have hgo : ∀ (lu sd : Rat) (a : Nat) (u : RS), (State.shrinkGo lu sd a u).K = u.K := by
        intro lu sd a
        induction a with
        | zero => intro u; rfl
        | succ a ih => intro u; rw [shrinkGo_succ]; split
                       · rw [ih]; rfl
                       · exact ih u
      split
      · rw [hgo]; unfold State.unshrink; split <;> rfl
      · rw [hgo]
  have hsmo : ∀ (t : RS) (i j : Nat), (t.updateSMO i j).K = t.K := fun t i j => (updateSMO_frame t i j).2.2.1
  unfold solveIter
  by_cases hacc : (s.select strategy 0 0).2.2 < eps
  · simp only [hacc, if_true]
    by_cases hkkt : s.unshrink.checkKKT < eps
    · simp only [hkkt, if_true]
      refine ⟨?_, fun s' c' hn => by simp at hn⟩
      intro e he
      simp only [List.mem_cons, List.not_mem_nil, or_false] at he; rw [he]; exact hun
    · simp only [hkkt, if_false]
      split
      · refine ⟨?_, fun s' c' hn => by
          simp only [Option.some.injEq, Prod.mk.injEq] at hn; rw [← hn.1, hsh, hsmo, hsh, hun]⟩
        intro e he
        simp only [List.cons_append, List.nil_append, List.mem_cons, List.not_mem_nil, or_false] at he
        rcases he with he | he | he | he <;> rw [he]
        · exact hun
        · rw [hsh, hun]
        · rw [hsmo, hsh, hun]
        · rw [hsh, hsmo, hsh, hun]
      · refine ⟨?_, fun s' c' hn => by
          simp only [Option.some.injEq, Prod.mk.injEq] at hn; rw [← hn.1, hsmo, hsh, hun]⟩
        intro e he
        simp only [List.cons_append, List.nil_append, List.mem_cons, List.not_mem_nil, or_false] at he
        rcases he with he | he | he <;> rw [he]
        · exact hun
        · rw [hsh, hun]
        · rw [hsmo, hsh, hun]
  · simp only [hacc, if_false]
    split
    · refine ⟨?_, fun s' c' hn => by
        simp only [Option.some.injEq, Prod.mk.injEq] at hn; rw [← hn.1, hsh, hsmo]⟩
      intro e he
      simp only [List.nil_append, List.cons_append, List.mem_cons, List.not_mem_nil, or_false] at he
      rcases he with he | he <;> rw [he]
      · exact hsmo _ _ _
      · rw [hsh, hsmo]
    · refine ⟨?_, fun s' c' hn => by
        simp only [Option.some.injEq, Prod.mk.injEq] at hn; rw [← hn.1, hsmo]⟩
      intro e he
      simp only [List.nil_append, List.mem_cons, List.not_mem_nil, or_false] at he
      rw [he]; exact hsmo _ _ _

theorem solve_K (strategy : Nat) (eps : Rat) : ∀ (fuel : Nat) (s : RS) (counter it : Nat),
    (solve strategy eps fuel s counter it).1.K = s.K := by
  intro fuel
  induction fuel with
  | zero => intro s _ _; show s.unshrink.K = s.K; unfold State.unshrink; split <;> rfl
  | succ fuel ih =>
    intro s counter it
    obtain ⟨hev, hnext⟩ := solveIter_K strategy eps s counter
    unfold solve
    cases hn : (solveIter strategy eps s counter).2 with
    | none =>
      simp only []
      cases hl : (solveIter strategy eps s counter).1.getLast? with
      | none => simp
      | some e => simpa using hev e (List.mem_of_getLast? hl)
    | some p =>
      obtain ⟨s', c'⟩ := p
      simp only []
      rw [ih s' c' (it + 1)]; exact hnext s' c' hn

/-- the block kernel of ε-regression is a PSD kernel when `K` is -/
theorem KernelPSD.block {K : Nat → Nat → Rat} (h : KernelPSD K) (n : Nat) :
    KernelPSD (fun a b => K (a % n) (b % n)) := fun m f v => h m (fun a => f a % n) v

/-- **end to end, box-constrained problem** (any start state inside the invariant, maximum-gain selection, any
iteration limit and start counter): if the model of `QpSolver::solve` reports `AccuracyReached` for a PSD kernel, then
NO coefficient vector inside the boxes has a dual objective more than `eps·Σ(U−L)` above the returned one.  No
hypothesis about the run is left: `solve_inv_box` covers every selection the solver makes. -/
theorem solve_optimal_box (s0 : RS) (h0 : Inv s0) (he : s0.eqc = false) (hpsd : KernelPSD s0.K)
    (strategy : Nat) (hstr : 2 ≤ strategy) (eps : Rat) (heps : 0 < eps) (fuel counter it : Nat) :
    let r := solve strategy eps fuel s0 counter it
    r.2.1 = true → ∀ β : Nat → Rat, (∀ k, k < r.1.n → r.1.L k ≤ β k ∧ β k ≤ r.1.U k) →
      dual r.1.n (Qmat r.1) r.1.lin β - dualObjective r.1 ≤ eps * rsum (fun k => r.1.U k - r.1.L k) r.1.n := by
  intro r hacc β hβ
  obtain ⟨hI, he'⟩ : Inv r.1 ∧ r.1.eqc = false := C08.solve_inv_box strategy hstr eps heps fuel s0 counter it h0 he
  obtain ⟨hk, hact⟩ := solve_acc strategy eps fuel s0 counter it hacc
  have hK : r.1.K = s0.K := solve_K strategy eps fuel s0 counter it
  exact stopped_near_optimal_box hI he' hact (hpsd.qmat r.1 hK) (le_of_lt heps) hk β hβ

/-- FULL STATEMENT: the same for the equality-constrained problem (LibSVM second-order selection) against every
feasible `β` with the same coefficient sum.  PROVED PART: runs whose gradients stay strictly inside the C++ sentinel
range `(−1e100, 1e100)` at the start of every pass (`C08.selectLibSVM_sentinel_witness` shows what goes wrong outside). -/
theorem solve_optimal_svm_partial (s0 : RS) (h0 : Inv s0) (he : s0.eqc = true) (hpsd : KernelPSD s0.K)
    (eps : Rat) (heps : 0 < eps) (fuel counter it : Nat)
    (hsent : ∀ t, t ∈ C08.passStates 1 eps fuel s0 counter → SentinelOK t) :
    let r := solve 1 eps fuel s0 counter it
    r.2.1 = true → ∀ β : Nat → Rat, (∀ k, k < r.1.n → r.1.L k ≤ β k ∧ β k ≤ r.1.U k) → rsum β r.1.n = alphaSum r.1 →
      dual r.1.n (Qmat r.1) r.1.lin β - dualObjective r.1 ≤ eps * rsum (fun k => r.1.U k - r.1.L k) r.1.n := by
  intro r hacc β hβ hsum
  obtain ⟨hI, he'⟩ : Inv r.1 ∧ r.1.eqc = true := C08.solve_inv_svm_partial eps heps fuel s0 counter it h0 he hsent
  obtain ⟨hk, hact⟩ := solve_acc 1 eps fuel s0 counter it hacc
  have hK : r.1.K = s0.K := solve_K 1 eps fuel s0 counter it
  exact stopped_near_optimal_svm hI he' hact (hpsd.qmat r.1 hK) (le_of_lt heps) hk β hβ hsum

/-- **end to end, C-SVM without bias** (one or class-specific `C`, per-example weights; the model of
`CSvmTrainer::optimize` with the box-constrained problem, any shrinking flag, any iteration limit): if training reports
`AccuracyReached` for a PSD kernel, the returned coefficients are `eps·Σ(U−L)`-optimal for the dual. -/
theorem csvm_nobias_optimal (n : Nat) (K : Nat → Nat → Rat) (y : Nat → Bool) (Cn Cp : Rat) (w : Nat → Rat)
    (eps : Rat) (shrink : Bool) (maxIter : Nat) (hsym : ∀ x y, K x y = K y x) (hpsd : KernelPSD K)
    (hCn : 0 ≤ Cn) (hCp : 0 ≤ Cp) (hw : ∀ k, k < n → 0 ≤ w k) (heps : 0 < eps) :
    let r := train2 n K y Cn Cp w eps false shrink maxIter
    r.2.1 = true → ∀ β : Nat → Rat, (∀ k, k < r.1.n → r.1.L k ≤ β k ∧ β k ≤ r.1.U k) →
      dual r.1.n (Qmat r.1) r.1.lin β - dualObjective r.1 ≤ eps * rsum (fun k => r.1.U k - r.1.L k) r.1.n :=
  solve_optimal_box (csvmInit2 n K y Cn Cp w false shrink)
    (csvmInit2_inv n K y Cn Cp w false shrink hsym hCn hCp hw) rfl hpsd 2 (Nat.le_refl _) eps heps maxIter 0 0

example : KernelPSD (fun _ _ => (1 : Rat)) := by
  intro m f v
  have : bil m (fun _ _ => (1 : Rat)) v v = rsum v m * rsum v m := by
    unfold bil
    have e : (fun a => v a * rsum (fun b => (1 : Rat) * v b) m) = fun a => rsum v m * v a := by
      funext a
      have : rsum (fun b => (1 : Rat) * v b) m = rsum v m := rsum_congr (fun k _ => one_mul _)
      rw [this]; ring
    rw [e, rsum_mul_left]
  rw [this]; exact mul_self_nonneg _

/-! ## End to end on the ORIGINAL data: the coefficient vector the trainer returns

Everything above speaks about the solver's internal state (variables in the order the accumulated coordinate flips
left them).  The trainers hand `getUnpermutedAlpha()` to the model they build.  The theorems below are about that
vector `a := unpermutedAlpha r.1 0`, the ORIGINAL kernel matrix `K`, linear term `lin0` and boxes `L0`, `U0`
(`SvmUnpermute.Tied`: variable `k` of the state carries the data of original variable `perm k`, kept by every solver run,
`SvmUnpermute.solve_tied`).  The true dual gradient of the returned vector is `G x = lin0 x − Σ_y K x y · a y`. -/

section Returned
open SharkVerif.SvmUnpermute

variable {lin0 L0 U0 : Nat → Rat}

/-- with all variables active the maintained gradient of variable `i` is the true dual gradient of the un-permuted
vector at original variable `perm i` -/
theorem returned_grad {t : RS} (h : Inv t) (ht : Tied lin0 L0 U0 t) (hact : t.active = t.n) :
    ∀ i, i < t.n → t.g i = lin0 (t.perm i) - rsum (fun y => t.K (t.perm i) y * unpermutedAlpha t 0 y) t.n := by
  intro i hi
  rw [unperm_Kalpha h i hi, ← (ht.2 i hi).2.1]
  exact h.grad i (by rw [hact]; exact hi)

/-- `functionValue()` of a state with all variables active is the dual objective of the un-permuted vector on the
original data -/
theorem returned_value {t : RS} (h : Inv t) (ht : Tied lin0 L0 U0 t) (hact : t.active = t.n) :
    t.functionValue = dual t.n t.K lin0 (unpermutedAlpha t 0) :=
  (objective_recomputed t (fun k hk => h.grad k (by rw [hact]; exact hk))).trans (unperm_dual h ht).symm

/-- a vector in the original boxes, re-indexed through the permutation, lies in the solver's boxes -/
theorem perm_in_box {t : RS} (h : Inv t) (ht : Tied lin0 L0 U0 t) (β : Nat → Rat)
    (hβ : ∀ x, x < t.n → L0 x ≤ β x ∧ β x ≤ U0 x) :
    ∀ k, k < t.n → t.L k ≤ β (t.perm k) ∧ β (t.perm k) ≤ t.U k := by
  intro k hk
  rw [(ht.2 k hk).2.2.1, (ht.2 k hk).2.2.2]
  exact hβ (t.perm k) (h.perm_lt k hk)

/-- an offset inside the KKT interval of the solver's variables is inside the KKT interval of the original variables -/
theorem returned_offset {t : RS} (h : Inv t) (ht : Tied lin0 L0 U0 t) (hact : t.active = t.n) {n : Nat}
    {K : Nat → Nat → Rat} (hn : t.n = n) (hK : t.K = K) {ε b : Rat}
    (hb : (∀ i, i < t.n → t.alpha i < t.U i → t.g i - b ≤ ε) ∧ (∀ j, j < t.n → t.L j < t.alpha j → b - t.g j ≤ ε)) :
    ∀ x, x < n →
      (unpermutedAlpha t 0 x < U0 x → (lin0 x - rsum (fun y => K x y * unpermutedAlpha t 0 y) n) - b ≤ ε) ∧
      (L0 x < unpermutedAlpha t 0 x → b - (lin0 x - rsum (fun y => K x y * unpermutedAlpha t 0 y) n) ≤ ε) := by
  subst hn hK
  intro x hx
  obtain ⟨i, hi, hix⟩ := perm_surj h.perm_lt h.perm_inj x hx
  subst hix
  rw [unperm_at h i hi, ← (ht.2 i hi).2.2.1, ← (ht.2 i hi).2.2.2, ← returned_grad h ht hact i hi]
  exact ⟨hb.1 i hi, hb.2 i hi⟩

/-- the state reported with `AccuracyReached` of the box-constrained problem, read on the original data -/
theorem returned_box {t : RS} (h : Inv t) (ht : Tied lin0 L0 U0 t) (he : t.eqc = false) (hact : t.active = t.n)
    (hpsd : PSD t.n (Qmat t)) {ε : Rat} (hε : 0 ≤ ε) (hk : t.checkKKT < ε) {n : Nat} {K : Nat → Nat → Rat}
    (hn : t.n = n) (hK : t.K = K) :
    (∀ x, x < n → L0 x ≤ unpermutedAlpha t 0 x ∧ unpermutedAlpha t 0 x ≤ U0 x) ∧
    (∀ x, x < n →
      (unpermutedAlpha t 0 x < U0 x → lin0 x - rsum (fun y => K x y * unpermutedAlpha t 0 y) n ≤ ε) ∧
      (L0 x < unpermutedAlpha t 0 x → -(lin0 x - rsum (fun y => K x y * unpermutedAlpha t 0 y) n) ≤ ε)) ∧
    t.functionValue = dual n K lin0 (unpermutedAlpha t 0) ∧
    (∀ β : Nat → Rat, (∀ x, x < n → L0 x ≤ β x ∧ β x ≤ U0 x) →
      dual n K lin0 β - dual n K lin0 (unpermutedAlpha t 0) ≤ ε * rsum (fun x => U0 x - L0 x) n) := by
  subst hn hK
  refine ⟨unperm_box h ht, ?_, returned_value h ht hact, ?_⟩
  · intro x hx
    obtain ⟨i, hi, hix⟩ := perm_surj h.perm_lt h.perm_inj x hx
    subst hix
    rw [unperm_at h i hi, ← (ht.2 i hi).2.2.1, ← (ht.2 i hi).2.2.2, ← returned_grad h ht hact i hi]
    exact stopped_kkt_box h he (le_of_lt hk) i hi
  · intro β hβ
    have := stopped_near_optimal_box h he hact hpsd hε hk (fun i => β (t.perm i)) (perm_in_box h ht β hβ)
    rw [← dual_perm h ht β, ← unperm_dual h ht, box_widths h ht] at this
    exact this

/-- **end to end on the original data, box-constrained problem** (FULL strength: any start state inside the invariant
and tied to the original data, maximum-gain selection, any accuracy, iteration limit and start counter).  If the model of
`QpSolver::solve` reports `AccuracyReached` for a PSD kernel, then the vector `getUnpermutedAlpha()` returns (i) lies in
the ORIGINAL boxes, (ii) satisfies the KKT conditions of the original problem up to `eps` for its TRUE gradient
`G = lin0 − K·a` (not the maintained one), (iii) has the dual objective `functionValue()` reports, and (iv) no vector in
the original boxes has a dual objective more than `eps·Σ(U0−L0)` above it. -/
theorem solve_returned_optimal_box (s0 : RS) (h0 : Inv s0) (ht0 : Tied lin0 L0 U0 s0) (he : s0.eqc = false)
    (hpsd : KernelPSD s0.K) (strategy : Nat) (hstr : 2 ≤ strategy) (eps : Rat) (heps : 0 < eps)
    (fuel counter it : Nat) :
    let r := solve strategy eps fuel s0 counter it
    let a := unpermutedAlpha r.1 0
    let G : Nat → Rat := fun x => lin0 x - rsum (fun y => s0.K x y * a y) s0.n
    r.2.1 = true →
      (∀ x, x < s0.n → L0 x ≤ a x ∧ a x ≤ U0 x) ∧
      (∀ x, x < s0.n → (a x < U0 x → G x ≤ eps) ∧ (L0 x < a x → -(G x) ≤ eps)) ∧
      r.1.functionValue = dual s0.n s0.K lin0 a ∧
      (∀ β : Nat → Rat, (∀ x, x < s0.n → L0 x ≤ β x ∧ β x ≤ U0 x) →
        dual s0.n s0.K lin0 β - dual s0.n s0.K lin0 a ≤ eps * rsum (fun x => U0 x - L0 x) s0.n) := by
  intro r a G hacc
  obtain ⟨hI, he'⟩ : Inv r.1 ∧ r.1.eqc = false := C08.solve_inv_box strategy hstr eps heps fuel s0 counter it h0 he
  obtain ⟨hk, hact⟩ := solve_acc strategy eps fuel s0 counter it hacc
  have hK : r.1.K = s0.K := solve_K strategy eps fuel s0 counter it
  have hn : r.1.n = s0.n := solve_n strategy eps fuel s0 counter it
  have hT : Tied lin0 L0 U0 r.1 := solve_tied strategy eps fuel s0 counter it ht0
  exact returned_box hI hT he' hact (hpsd.qmat r.1 hK) (le_of_lt heps) hk hn hK

/-- the constant kernel 1 is PSD (used for the non-vacuity examples) -/
theorem kernelPSD_one : KernelPSD (fun _ _ => (1 : Rat)) := by
  intro m f v
  have : bil m (fun _ _ => (1 : Rat)) v v = rsum v m * rsum v m := by
    unfold bil
    have e : (fun a => v a * rsum (fun b => (1 : Rat) * v b) m) = fun a => rsum v m * v a := by
      funext a
      have : rsum (fun b => (1 : Rat) * v b) m = rsum v m := rsum_congr (fun k _ => one_mul _)
      rw [this]; ring
    rw [e, rsum_mul_left]
  rw [this]; exact mul_self_nonneg _

/-- the C-SVM problem carries the data of the original dual: `lin0 = ±1`, boxes `[0, C₊w]` / `[−C₋w, 0]` -/
theorem tied_csvmInit2 (n : Nat) (K : Nat → Nat → Rat) (y : Nat → Bool) (Cn Cp : Rat) (w : Nat → Rat) (bias sh : Bool) :
    Tied (fun k => if y k then 1 else -1) (fun k => if y k then 0 else -(Cn * w k))
      (fun k => if y k then Cp * w k else 0) (csvmInit2 n K y Cn Cp w bias sh) := by
  refine ⟨Nat.le_refl _, fun k hk => ⟨hk, ?_, ?_, ?_⟩⟩
  · show (if y k then (1.0 : Rat) else -(1.0 : Rat)) = if y k then 1 else -1
    rw [lit1]
  · show (if y k then (0.0 : Rat) else -(Cn * w k)) = if y k then 0 else -(Cn * w k)
    rw [lit0]
  · show (if y k then Cp * w k else (0.0 : Rat)) = if y k then Cp * w k else 0
    rw [lit0]

example : ∃ (s0 : RS) (lin0 L0 U0 : Nat → Rat), Inv s0 ∧ Tied lin0 L0 U0 s0 ∧ s0.eqc = false ∧ KernelPSD s0.K ∧
    0 < s0.n :=
  ⟨csvmInit2 2 (fun _ _ => 1) (fun k => k == 0) 1 2 (fun _ => 1) false false, _, _, _,
   csvmInit2_inv 2 (fun _ _ => 1) (fun k => k == 0) 1 2 (fun _ => 1) false false (fun _ _ => rfl) (by norm_num)
     (by norm_num) (fun _ _ => by norm_num),
   tied_csvmInit2 2 (fun _ _ => 1) (fun k => k == 0) 1 2 (fun _ => 1) false false, rfl, kernelPSD_one, by decide⟩

/-- **end to end on the original data, C-SVM without bias** (one or class-specific `C`, per-example weights, cold start;
the model of `CSvmTrainer::optimize` with the box-constrained problem, any shrinking flag, any iteration limit; FULL
strength).  If training reports `AccuracyReached` for a PSD kernel, the coefficients stored in the model
(`getUnpermutedAlpha()`) lie in the boxes `[0, C₊w_k]` / `[−C₋w_k, 0]`, satisfy the KKT conditions of the dual
`max Σ ±a_k − ½ aᵀKa` up to `eps` for their true gradient, `functionValue()` is their dual objective, and no vector in
the boxes is more than `eps·Σ(U0−L0)` better. -/
theorem csvm_nobias_returned_optimal (n : Nat) (K : Nat → Nat → Rat) (y : Nat → Bool) (Cn Cp : Rat) (w : Nat → Rat)
    (eps : Rat) (shrink : Bool) (maxIter : Nat) (hsym : ∀ x y, K x y = K y x) (hpsd : KernelPSD K)
    (hCn : 0 ≤ Cn) (hCp : 0 ≤ Cp) (hw : ∀ k, k < n → 0 ≤ w k) (heps : 0 < eps) :
    let r := train2 n K y Cn Cp w eps false shrink maxIter
    let a := unpermutedAlpha r.1 0
    let lin0 : Nat → Rat := fun k => if y k then 1 else -1
    let L0 : Nat → Rat := fun k => if y k then 0 else -(Cn * w k)
    let U0 : Nat → Rat := fun k => if y k then Cp * w k else 0
    let G : Nat → Rat := fun x => lin0 x - rsum (fun z => K x z * a z) n
    r.2.1 = true →
      (∀ x, x < n → L0 x ≤ a x ∧ a x ≤ U0 x) ∧
      (∀ x, x < n → (a x < U0 x → G x ≤ eps) ∧ (L0 x < a x → -(G x) ≤ eps)) ∧
      r.1.functionValue = dual n K lin0 a ∧
      (∀ β : Nat → Rat, (∀ x, x < n → L0 x ≤ β x ∧ β x ≤ U0 x) →
        dual n K lin0 β - dual n K lin0 a ≤ eps * rsum (fun x => U0 x - L0 x) n) :=
  solve_returned_optimal_box (csvmInit2 n K y Cn Cp w false shrink)
    (csvmInit2_inv n K y Cn Cp w false shrink hsym hCn hCp hw) (tied_csvmInit2 n K y Cn Cp w false shrink) rfl hpsd 2
    (Nat.le_refl _) eps heps maxIter 0 0

example : ∃ (n : Nat) (K : Nat → Nat → Rat) (Cn Cp eps : Rat) (w : Nat → Rat),
    (∀ x y, K x y = K y x) ∧ KernelPSD K ∧ 0 ≤ Cn ∧ 0 ≤ Cp ∧ (∀ k, k < n → 0 ≤ w k) ∧ 0 < eps ∧ 0 < n :=
  ⟨2, fun _ _ => 1, 1, 2, 1 / 1000, fun _ => 1, fun _ _ => rfl, kernelPSD_one, by norm_num, by norm_num,
   fun _ _ => by norm_num, by norm_num, by decide⟩

/-- **the same for a warm-started training without bias**, for EVERY coefficient vector `a1` the previous model carries
(`CSvmTrainer::optimize` clips it to the boxes and calls `setInitialSolution`; `warm_start_inv`): FULL strength. -/
theorem csvm_nobias_warm_returned_optimal (n : Nat) (K : Nat → Nat → Rat) (y : Nat → Bool) (Cn Cp : Rat)
    (w : Nat → Rat) (eps : Rat) (shrink : Bool) (maxIter : Nat) (a1 : Nat → Rat) (hsym : ∀ x y, K x y = K y x)
    (hpsd : KernelPSD K) (hCn : 0 ≤ Cn) (hCp : 0 ≤ Cp) (hw : ∀ k, k < n → 0 ≤ w k) (heps : 0 < eps) :
    let r := train2Warm n K y Cn Cp w eps false shrink maxIter a1
    let a := unpermutedAlpha r.1 0
    let lin0 : Nat → Rat := fun k => if y k then 1 else -1
    let L0 : Nat → Rat := fun k => if y k then 0 else -(Cn * w k)
    let U0 : Nat → Rat := fun k => if y k then Cp * w k else 0
    let G : Nat → Rat := fun x => lin0 x - rsum (fun z => K x z * a z) n
    r.2.1 = true →
      (∀ x, x < n → L0 x ≤ a x ∧ a x ≤ U0 x) ∧
      (∀ x, x < n → (a x < U0 x → G x ≤ eps) ∧ (L0 x < a x → -(G x) ≤ eps)) ∧
      r.1.functionValue = dual n K lin0 a ∧
      (∀ β : Nat → Rat, (∀ x, x < n → L0 x ≤ β x ∧ β x ≤ U0 x) →
        dual n K lin0 β - dual n K lin0 a ≤ eps * rsum (fun x => U0 x - L0 x) n) :=
  solve_returned_optimal_box
    ((csvmInit2 n K y Cn Cp w false shrink).setInitialSolution
      (warmStartVector (csvmInit2 n K y Cn Cp w false shrink) a1 false))
    (warm_start_inv n K y Cn Cp w false shrink a1 hsym hCn hCp hw).1
    (tied_setInitialSolution (tied_csvmInit2 n K y Cn Cp w false shrink) _) rfl hpsd 2
    (Nat.le_refl _) eps heps maxIter 0 0

example : ∃ (n : Nat) (K : Nat → Nat → Rat) (Cn Cp eps : Rat) (w a1 : Nat → Rat),
    (∀ x y, K x y = K y x) ∧ KernelPSD K ∧ 0 ≤ Cn ∧ 0 ≤ Cp ∧ (∀ k, k < n → 0 ≤ w k) ∧ 0 < eps ∧ 0 < n ∧ a1 0 = 7 :=
  ⟨2, fun _ _ => 1, 1, 2, 1 / 1000, fun _ => 1, fun _ => 7, fun _ _ => rfl, kernelPSD_one, by norm_num, by norm_num,
   fun _ _ => by norm_num, by norm_num, by decide, rfl⟩

/-! ### equality-constrained problem (trained with bias / offset) -/

/-- if the model of `QpSolver::solve` reports `AccuracyReached`, the state it returns is the un-shrunk state of the pass
that left the loop -/
theorem solve_acc_pass (strategy : Nat) (eps : Rat) : ∀ (fuel : Nat) (s : RS) (counter it : Nat),
    (solve strategy eps fuel s counter it).2.1 = true →
    ∃ t, t ∈ C08.passStates strategy eps fuel s counter ∧ (solve strategy eps fuel s counter it).1 = t.unshrink := by
  intro fuel
  induction fuel with
  | zero => intro s _ _ h; simp [solve] at h
  | succ fuel ih =>
    intro s counter it h
    unfold solve at h ⊢
    unfold C08.passStates
    cases hn : (solveIter strategy eps s counter).2 with
    | none =>
      obtain ⟨_, hev⟩ := stop_implies_kkt strategy eps s counter hn
      refine ⟨s, List.mem_cons_self .., ?_⟩
      simp only [hev, List.getLast?_singleton, Option.map_some, Option.getD_some]
    | some p =>
      obtain ⟨s', c'⟩ := p
      simp only [hn] at h ⊢
      obtain ⟨t, ht, e⟩ := ih s' c' (it + 1) h
      exact ⟨t, List.mem_cons_of_mem _ ht, e⟩

/-- under the sentinel hypothesis on the passes, the gradients of the state returned with `AccuracyReached` lie inside
the sentinel range (this discharges `hrange` of `bias_in_kkt_interval_partial` for the returned state) -/
theorem solve_acc_range (strategy : Nat) (eps : Rat) (fuel : Nat) (s : RS) (counter it : Nat)
    (hsent : ∀ t, t ∈ C08.passStates strategy eps fuel s counter → SentinelOK t)
    (hacc : (solve strategy eps fuel s counter it).2.1 = true) :
    ∀ k, k < (solve strategy eps fuel s counter it).1.n →
      -(10 : Rat) ^ 100 ≤ (solve strategy eps fuel s counter it).1.g k ∧
      (solve strategy eps fuel s counter it).1.g k ≤ 10 ^ 100 := by
  obtain ⟨t, ht, e⟩ := solve_acc_pass strategy eps fuel s counter it hacc
  intro k hk
  rw [e] at hk ⊢
  rw [orderFree_n.unshrink t] at hk
  have := hsent t ht k hk
  exact ⟨le_of_lt this.1, le_of_lt this.2⟩

/-- the state reported with `AccuracyReached` of the equality-constrained problem, read on the original data; `b` is any
offset inside the KKT interval of the solver's variables (`computeBias`, `epsOffset`, `oneClassOffset`) -/
theorem returned_svm {t : RS} (h : Inv t) (ht : Tied lin0 L0 U0 t) (he : t.eqc = true) (hact : t.active = t.n)
    (hpsd : PSD t.n (Qmat t)) {ε : Rat} (hε : 0 ≤ ε) (hk : t.checkKKT < ε) {n : Nat} {K : Nat → Nat → Rat}
    (hn : t.n = n) (hK : t.K = K) {c : Rat} (hc : alphaSum t = c) :
    (∀ x, x < n → L0 x ≤ unpermutedAlpha t 0 x ∧ unpermutedAlpha t 0 x ≤ U0 x) ∧
    rsum (unpermutedAlpha t 0) n = c ∧
    (∀ x z, x < n → z < n → unpermutedAlpha t 0 x < U0 x → L0 z < unpermutedAlpha t 0 z →
      (lin0 x - rsum (fun y => K x y * unpermutedAlpha t 0 y) n)
        - (lin0 z - rsum (fun y => K z y * unpermutedAlpha t 0 y) n) ≤ ε) ∧
    t.functionValue = dual n K lin0 (unpermutedAlpha t 0) ∧
    (∀ β : Nat → Rat, (∀ x, x < n → L0 x ≤ β x ∧ β x ≤ U0 x) → rsum β n = c →
      dual n K lin0 β - dual n K lin0 (unpermutedAlpha t 0) ≤ ε * rsum (fun x => U0 x - L0 x) n) := by
  subst hn hK hc
  refine ⟨unperm_box h ht, unperm_sum h, ?_, returned_value h ht hact, ?_⟩
  · intro x z hx hz
    obtain ⟨i, hi, hix⟩ := perm_surj h.perm_lt h.perm_inj x hx
    obtain ⟨j, hj, hjz⟩ := perm_surj h.perm_lt h.perm_inj z hz
    subst hix hjz
    rw [unperm_at h i hi, unperm_at h j hj, ← (ht.2 i hi).2.2.2, ← (ht.2 j hj).2.2.1,
      ← returned_grad h ht hact i hi, ← returned_grad h ht hact j hj]
    exact stopped_pairwise_svm h he hact (le_of_lt hk) i j hi hj
  · intro β hβ hsum
    have hs : rsum (fun i => β (t.perm i)) t.n = alphaSum t := (rsum_perm h.perm_lt h.perm_inj β).trans hsum
    have := stopped_near_optimal_svm h he hact hpsd hε hk (fun i => β (t.perm i)) (perm_in_box h ht β hβ) hs
    rw [← dual_perm h ht β, ← unperm_dual h ht, box_widths h ht] at this
    exact this

/-- FULL STATEMENT (not provable for the code as it is): **end to end on the original data, equality-constrained
problem** (LibSVM second-order selection, any start state inside the invariant and tied to the original data).  If the
model of `QpSolver::solve` reports `AccuracyReached` for a PSD kernel, the vector `getUnpermutedAlpha()` returns lies in
the ORIGINAL boxes, has the coefficient sum of the start vector, satisfies the pairwise KKT conditions up to `eps` for
its TRUE gradient `G = lin0 − K·a`, has the dual objective `functionValue()` reports, no vector in the boxes with the
same sum is more than `eps·Σ(U0−L0)` better, and the bias `CSvmTrainer::computeBias` returns lies in the interval the
optimality conditions allow (`G_x − b ≤ eps` unless `a_x` is at its upper, `b − G_x ≤ eps` unless at its lower bound).
PROVED PART: runs whose gradients stay strictly inside the C++ sentinel range `(−1e100, 1e100)` at the start of every
pass (`hsent`); the sentinels `±1e100` are what `LibSVMSelectionCriterion` / `getMaxKKTViolations` and `computeBias`
start their maxima from, `C08.selectLibSVM_sentinel_witness` and `bias_sentinel_witness` show what goes wrong
outside.  The hypothesis also covers the returned state (`solve_acc_range`). -/
theorem solve_returned_optimal_svm_partial (s0 : RS) (h0 : Inv s0) (ht0 : Tied lin0 L0 U0 s0) (he : s0.eqc = true)
    (hpsd : KernelPSD s0.K) (eps : Rat) (heps : 0 < eps) (fuel counter it : Nat)
    (hsent : ∀ t, t ∈ C08.passStates 1 eps fuel s0 counter → SentinelOK t) :
    let r := solve 1 eps fuel s0 counter it
    let a := unpermutedAlpha r.1 0
    let G : Nat → Rat := fun x => lin0 x - rsum (fun y => s0.K x y * a y) s0.n
    r.2.1 = true →
      (∀ x, x < s0.n → L0 x ≤ a x ∧ a x ≤ U0 x) ∧
      rsum a s0.n = alphaSum s0 ∧
      (∀ x z, x < s0.n → z < s0.n → a x < U0 x → L0 z < a z → G x - G z ≤ eps) ∧
      r.1.functionValue = dual s0.n s0.K lin0 a ∧
      (∀ β : Nat → Rat, (∀ x, x < s0.n → L0 x ≤ β x ∧ β x ≤ U0 x) → rsum β s0.n = alphaSum s0 →
        dual s0.n s0.K lin0 β - dual s0.n s0.K lin0 a ≤ eps * rsum (fun x => U0 x - L0 x) s0.n) ∧
      (let b := computeBias r.1 (fun k => (k : Rat))
       ∀ x, x < s0.n → (a x < U0 x → G x - b ≤ eps) ∧ (L0 x < a x → b - G x ≤ eps)) := by
  intro r a G hacc
  obtain ⟨hI, he'⟩ : Inv r.1 ∧ r.1.eqc = true := C08.solve_inv_svm_partial eps heps fuel s0 counter it h0 he hsent
  obtain ⟨hk, hact⟩ := solve_acc 1 eps fuel s0 counter it hacc
  have hK : r.1.K = s0.K := solve_K 1 eps fuel s0 counter it
  have hn : r.1.n = s0.n := solve_n 1 eps fuel s0 counter it
  have hT : Tied lin0 L0 U0 r.1 := solve_tied 1 eps fuel s0 counter it ht0
  have hc : alphaSum r.1 = alphaSum s0 := solve_sum_svm_partial eps heps fuel s0 counter it h0 he hsent
  obtain ⟨c1, c2, c3, c4, c5⟩ := returned_svm hI hT he' hact (hpsd.qmat r.1 hK) (le_of_lt heps) hk hn hK hc
  refine ⟨c1, c2, c3, c4, c5, ?_⟩
  intro b
  have hb := bias_in_kkt_interval_partial hI (le_of_lt heps) (stopped_pairwise_svm hI he' hact (le_of_lt hk))
    (solve_acc_range 1 eps fuel s0 counter it hsent hacc)
  exact returned_offset hI hT hact hn hK hb

/-- with iteration limit 1 the only pass starts from the start state -/
theorem passStates_one (strategy : Nat) (eps : Rat) (s : RS) (counter : Nat) (t : RS)
    (ht : t ∈ C08.passStates strategy eps 1 s counter) : t = s := by
  have e : C08.passStates strategy eps (0 + 1) s counter = [s] := by
    rw [C08.passStates]
    cases (solveIter strategy eps s counter).2 with
    | none => rfl
    | some p => obtain ⟨s', c'⟩ := p; rfl
  rw [show C08.passStates strategy eps 1 s counter = [s] from e] at ht
  simpa using ht

/-- the start state of a C-SVM problem has its gradients (`±1`) inside the sentinel range -/
theorem sentinelOK_csvmInit2 (n : Nat) (K : Nat → Nat → Rat) (y : Nat → Bool) (Cn Cp : Rat) (w : Nat → Rat)
    (bias sh : Bool) : SentinelOK (csvmInit2 n K y Cn Cp w bias sh) := by
  intro a _
  rw [unshrink_of_active (show (csvmInit2 n K y Cn Cp w bias sh).active = (csvmInit2 n K y Cn Cp w bias sh).n from rfl)]
  show -(10 : Rat) ^ 100 < (if y a then (1.0 : Rat) else -(1.0 : Rat)) ∧
    (if y a then (1.0 : Rat) else -(1.0 : Rat)) < 10 ^ 100
  rw [lit1]
  split <;> constructor <;> norm_num

example : ∃ (s0 : RS) (lin0 L0 U0 : Nat → Rat) (eps : Rat), Inv s0 ∧ Tied lin0 L0 U0 s0 ∧ s0.eqc = true ∧
    KernelPSD s0.K ∧ 0 < eps ∧ 0 < s0.n ∧ (∀ t, t ∈ C08.passStates 1 eps 1 s0 0 → SentinelOK t) :=
  ⟨csvmInit2 2 (fun _ _ => 1) (fun k => k == 0) 1 2 (fun _ => 1) true false, _, _, _, 1 / 1000,
   csvmInit2_inv 2 (fun _ _ => 1) (fun k => k == 0) 1 2 (fun _ => 1) true false (fun _ _ => rfl) (by norm_num)
     (by norm_num) (fun _ _ => by norm_num),
   tied_csvmInit2 2 (fun _ _ => 1) (fun k => k == 0) 1 2 (fun _ => 1) true false, rfl, kernelPSD_one, by norm_num,
   by decide, fun t ht => by rw [passStates_one _ _ _ _ t ht]; exact sentinelOK_csvmInit2 _ _ _ _ _ _ _ _⟩

theorem alphaSum_csvmInit2 (n : Nat) (K : Nat → Nat → Rat) (y : Nat → Bool) (Cn Cp : Rat) (w : Nat → Rat)
    (bias sh : Bool) : alphaSum (csvmInit2 n K y Cn Cp w bias sh) = 0 := by
  show rsum (fun _ => (0.0 : Rat)) n = 0
  rw [lit0]; exact rsum_const_zero n

/-- FULL STATEMENT (not provable for the code as it is): **end to end on the original data, C-SVM with bias** (one or
class-specific `C`, per-example weights, cold start; the model of `CSvmTrainer::optimize` with `SvmShrinkingProblem`, any
shrinking flag, any iteration limit).  If training reports `AccuracyReached` for a PSD kernel, the coefficients stored in
the model (`getUnpermutedAlpha()`) lie in the boxes `[0, C₊w_k]` / `[−C₋w_k, 0]`, sum to 0 exactly, satisfy the pairwise
KKT conditions of the dual up to `eps` for their true gradient, `functionValue()` is their dual objective, no vector in the
boxes with sum 0 is more than `eps·Σ(U0−L0)` better, and the bias of `CSvmTrainer::computeBias` lies in the KKT interval.
PROVED PART: runs whose gradients stay strictly inside the C++ sentinel range `(−1e100, 1e100)` at the start of every pass
(`hsent`; witnesses outside: `C08.selectLibSVM_sentinel_witness`, `bias_sentinel_witness`). -/
theorem csvm_bias_returned_optimal_partial (n : Nat) (K : Nat → Nat → Rat) (y : Nat → Bool) (Cn Cp : Rat)
    (w : Nat → Rat) (eps : Rat) (shrink : Bool) (maxIter : Nat) (hsym : ∀ x y, K x y = K y x) (hpsd : KernelPSD K)
    (hCn : 0 ≤ Cn) (hCp : 0 ≤ Cp) (hw : ∀ k, k < n → 0 ≤ w k) (heps : 0 < eps)
    (hsent : ∀ t, t ∈ C08.passStates 1 eps maxIter (csvmInit2 n K y Cn Cp w true shrink) 0 → SentinelOK t) :
    let r := train2 n K y Cn Cp w eps true shrink maxIter
    let a := unpermutedAlpha r.1 0
    let lin0 : Nat → Rat := fun k => if y k then 1 else -1
    let L0 : Nat → Rat := fun k => if y k then 0 else -(Cn * w k)
    let U0 : Nat → Rat := fun k => if y k then Cp * w k else 0
    let G : Nat → Rat := fun x => lin0 x - rsum (fun z => K x z * a z) n
    r.2.1 = true →
      (∀ x, x < n → L0 x ≤ a x ∧ a x ≤ U0 x) ∧
      rsum a n = 0 ∧
      (∀ x z, x < n → z < n → a x < U0 x → L0 z < a z → G x - G z ≤ eps) ∧
      r.1.functionValue = dual n K lin0 a ∧
      (∀ β : Nat → Rat, (∀ x, x < n → L0 x ≤ β x ∧ β x ≤ U0 x) → rsum β n = 0 →
        dual n K lin0 β - dual n K lin0 a ≤ eps * rsum (fun x => U0 x - L0 x) n) ∧
      (let b := computeBias r.1 (fun k => (k : Rat))
       ∀ x, x < n → (a x < U0 x → G x - b ≤ eps) ∧ (L0 x < a x → b - G x ≤ eps)) := by
  intro r a lin0 L0 U0 G hacc
  have h := solve_returned_optimal_svm_partial (csvmInit2 n K y Cn Cp w true shrink)
    (csvmInit2_inv n K y Cn Cp w true shrink hsym hCn hCp hw) (tied_csvmInit2 n K y Cn Cp w true shrink) rfl hpsd
    eps heps maxIter 0 0 hsent hacc
  rw [alphaSum_csvmInit2] at h
  exact h

example : ∃ (n : Nat) (K : Nat → Nat → Rat) (y : Nat → Bool) (Cn Cp eps : Rat) (w : Nat → Rat) (sh : Bool),
    (∀ x y, K x y = K y x) ∧ KernelPSD K ∧ 0 ≤ Cn ∧ 0 ≤ Cp ∧ (∀ k, k < n → 0 ≤ w k) ∧ 0 < eps ∧ 0 < n ∧
    (∀ t, t ∈ C08.passStates 1 eps 1 (csvmInit2 n K y Cn Cp w true sh) 0 → SentinelOK t) :=
  ⟨2, fun _ _ => 1, fun k => k == 0, 1, 2, 1 / 1000, fun _ => 1, false, fun _ _ => rfl, kernelPSD_one, by norm_num,
   by norm_num, fun _ _ => by norm_num, by norm_num, by decide,
   fun t ht => by rw [passStates_one _ _ _ _ t ht]; exact sentinelOK_csvmInit2 _ _ _ _ _ _ _ _⟩

/-- FULL STATEMENT (not provable for the code as it is): **the same for a warm-started training with bias**, for every
coefficient vector `a1` of the previous model that is clipped, unbalanced beyond `1e-12` relative (`mustBalance`) or sums to 0 (`warm_start_inv`: the start vector
`CSvmTrainer::optimize` hands to `setInitialSolution` then sums to 0 exactly): the returned coefficients sum to 0 and are
`eps`-optimal among the vectors in the boxes with sum 0; the bias lies in the KKT interval.
PROVED PART: as for the cold start, runs inside the sentinel range `(−1e100, 1e100)` (`hsent`). -/
theorem csvm_bias_warm_returned_optimal_partial (n : Nat) (K : Nat → Nat → Rat) (y : Nat → Bool) (Cn Cp : Rat)
    (w : Nat → Rat) (eps : Rat) (shrink : Bool) (maxIter : Nat) (a1 : Nat → Rat) (hsym : ∀ x y, K x y = K y x)
    (hpsd : KernelPSD K) (hCn : 0 ≤ Cn) (hCp : 0 ≤ Cp) (hw : ∀ k, k < n → 0 ≤ w k) (heps : 0 < eps)
    (hz : mustBalance (csvmInit2 n K y Cn Cp w true shrink) a1 ∨ rsum a1 n = 0)
    (hsent : ∀ t, t ∈ C08.passStates 1 eps maxIter
      ((csvmInit2 n K y Cn Cp w true shrink).setInitialSolution
        (warmStartVector (csvmInit2 n K y Cn Cp w true shrink) a1 true)) 0 → SentinelOK t) :
    let r := train2Warm n K y Cn Cp w eps true shrink maxIter a1
    let a := unpermutedAlpha r.1 0
    let lin0 : Nat → Rat := fun k => if y k then 1 else -1
    let L0 : Nat → Rat := fun k => if y k then 0 else -(Cn * w k)
    let U0 : Nat → Rat := fun k => if y k then Cp * w k else 0
    let G : Nat → Rat := fun x => lin0 x - rsum (fun z => K x z * a z) n
    r.2.1 = true →
      (∀ x, x < n → L0 x ≤ a x ∧ a x ≤ U0 x) ∧
      rsum a n = 0 ∧
      (∀ x z, x < n → z < n → a x < U0 x → L0 z < a z → G x - G z ≤ eps) ∧
      r.1.functionValue = dual n K lin0 a ∧
      (∀ β : Nat → Rat, (∀ x, x < n → L0 x ≤ β x ∧ β x ≤ U0 x) → rsum β n = 0 →
        dual n K lin0 β - dual n K lin0 a ≤ eps * rsum (fun x => U0 x - L0 x) n) ∧
      (let b := computeBias r.1 (fun k => (k : Rat))
       ∀ x, x < n → (a x < U0 x → G x - b ≤ eps) ∧ (L0 x < a x → b - G x ≤ eps)) := by
  intro r a lin0 L0 U0 G hacc
  have hw0 := warm_start_inv n K y Cn Cp w true shrink a1 hsym hCn hCp hw
  have h := solve_returned_optimal_svm_partial
    ((csvmInit2 n K y Cn Cp w true shrink).setInitialSolution
      (warmStartVector (csvmInit2 n K y Cn Cp w true shrink) a1 true))
    hw0.1 (tied_setInitialSolution (tied_csvmInit2 n K y Cn Cp w true shrink) _) rfl hpsd
    eps heps maxIter 0 0 hsent hacc
  rw [hw0.2 rfl hz] at h
  exact h

example : ∃ (n : Nat) (K : Nat → Nat → Rat) (y : Nat → Bool) (Cn Cp eps : Rat) (w a1 : Nat → Rat) (sh : Bool),
    (∀ x y, K x y = K y x) ∧ KernelPSD K ∧ 0 ≤ Cn ∧ 0 ≤ Cp ∧ (∀ k, k < n → 0 ≤ w k) ∧ 0 < eps ∧ 0 < n ∧
    (mustBalance (csvmInit2 n K y Cn Cp w true sh) a1 ∨ rsum a1 n = 0) ∧
    (∀ t, t ∈ C08.passStates 1 eps 0 ((csvmInit2 n K y Cn Cp w true sh).setInitialSolution
        (warmStartVector (csvmInit2 n K y Cn Cp w true sh) a1 true)) 0 → SentinelOK t) :=
  ⟨2, fun _ _ => 1, fun k => k == 0, 1, 2, 1 / 1000, fun _ => 1, fun _ => 0, false, fun _ _ => rfl, kernelPSD_one,
   by norm_num, by norm_num, fun _ _ => by norm_num, by norm_num, by decide,
   Or.inr (rsum_const_zero 2), fun t ht => by simp [C08.passStates] at ht⟩

/-! ### ε-regression and one-class machines -/

/-- the variable doubling of ε-regression: the kernel expansion over the `2n` variables of the block matrix is the
expansion of the `n` summed coefficients `v_j + v_{n+j}` -/
theorem rsum_block (K : Nat → Nat → Rat) (n m : Nat) (v : Nat → Rat) :
    rsum (fun c => K (m % n) (c % n) * v c) (2 * n) = rsum (fun j => K (m % n) j * (v j + v (n + j))) n := by
  rw [rsum_two_mul, ← rsum_add]
  apply rsum_congr; intro l hl
  rw [Nat.add_mod_left, Nat.mod_eq_of_lt hl]; ring

theorem tied_epsInit (n : Nat) (K : Nat → Nat → Rat) (y : Nat → Rat) (C tube : Rat) (sh : Bool) :
    Tied (fun k => if k < n then y k - tube else y (k - n) + tube) (fun k => if k < n then 0 else -C)
      (fun k => if k < n then C else 0) (epsInit n K y C tube sh) := by
  refine ⟨Nat.le_refl _, fun k hk => ⟨hk, rfl, ?_, ?_⟩⟩
  · show (if k < n then (0.0 : Rat) else -C) = if k < n then 0 else -C
    rw [lit0]
  · show (if k < n then C else (0.0 : Rat)) = if k < n then C else 0
    rw [lit0]

theorem alphaSum_epsInit (n : Nat) (K : Nat → Nat → Rat) (y : Nat → Rat) (C tube : Rat) (sh : Bool) :
    alphaSum (epsInit n K y C tube sh) = 0 := by
  show rsum (fun _ => (0.0 : Rat)) (2 * n) = 0
  rw [lit0]; exact rsum_const_zero _

/-- the statements about the `2n` variables of the ε-regression dual, read per training point -/
theorem eps_unfold (n : Nat) (K : Nat → Nat → Rat) (y : Nat → Rat) (C tube ε b : Rat) (a : Nat → Rat)
    (c1 : ∀ x, x < 2 * n → (if x < n then 0 else -C) ≤ a x ∧ a x ≤ (if x < n then C else 0))
    (c2 : rsum a (2 * n) = 0)
    (hoff : ∀ x, x < 2 * n →
      (a x < (if x < n then C else 0) →
        ((if x < n then y x - tube else y (x - n) + tube) - rsum (fun c => K (x % n) (c % n) * a c) (2 * n)) - b ≤ ε) ∧
      ((if x < n then 0 else -C) < a x →
        b - ((if x < n then y x - tube else y (x - n) + tube) - rsum (fun c => K (x % n) (c % n) * a c) (2 * n)) ≤ ε)) :
    (∀ k, k < n → 0 ≤ a k ∧ a k ≤ C ∧ -C ≤ a (n + k) ∧ a (n + k) ≤ 0) ∧
    rsum (fun k => a k + a (n + k)) n = 0 ∧
    (∀ k, k < n →
      (a k < C → ((y k - rsum (fun j => K k j * (a j + a (n + j))) n) - tube) - b ≤ ε) ∧
      (0 < a k → b - ((y k - rsum (fun j => K k j * (a j + a (n + j))) n) - tube) ≤ ε) ∧
      (a (n + k) < 0 → ((y k - rsum (fun j => K k j * (a j + a (n + j))) n) + tube) - b ≤ ε) ∧
      (-C < a (n + k) → b - ((y k - rsum (fun j => K k j * (a j + a (n + j))) n) + tube) ≤ ε)) := by
  refine ⟨?_, ?_, ?_⟩
  · intro k hk
    have hnk : ¬ (n + k < n) := by omega
    have h1 := c1 k (by omega)
    have h2 := c1 (n + k) (by omega)
    rw [if_pos hk, if_pos hk] at h1
    rw [if_neg hnk, if_neg hnk] at h2
    exact ⟨h1.1, h1.2, h2.1, h2.2⟩
  · exact (rsum_add a (fun k => a (n + k)) n).trans ((rsum_two_mul a n).symm.trans c2)
  · intro k hk
    have hnk : ¬ (n + k < n) := by omega
    have e1 := hoff k (by omega)
    have e2 := hoff (n + k) (by omega)
    rw [rsum_block K n k a, Nat.mod_eq_of_lt hk] at e1
    rw [rsum_block K n (n + k) a, Nat.add_mod_left, Nat.mod_eq_of_lt hk] at e2
    simp only [if_pos hk] at e1
    simp only [if_neg hnk, Nat.add_sub_cancel_left] at e2
    refine ⟨fun h => ?_, fun h => ?_, fun h => ?_, fun h => ?_⟩
    · have := e1.1 h; linarith
    · have := e1.2 h; linarith
    · have := e2.1 h; linarith
    · have := e2.2 h; linarith

/-- FULL STATEMENT (not provable for the code as it is): **end to end on the original data, ε-insensitive regression**
(the model of `EpsilonSvmTrainer::trainSVM`: `2n` variables over the block matrix `[[K,K],[K,K]]`, LibSVM selection, any
shrinking flag and iteration limit).  If training reports `AccuracyReached` for a PSD kernel and `C > 0`, then with
`a = getUnpermutedAlpha()`, the model coefficients `β_k = a_k + a_{n+k}`, the residual without offset
`F_k = y_k − Σ_j K(k,j) β_j` and the offset `b` the trainer computes: `a_k ∈ [0,C]`, `a_{n+k} ∈ [−C,0]`, `Σβ = 0`, and
`b` satisfies the optimality conditions of both halves up to `eps` (`F_k − tube − b ≤ eps` unless `a_k = C`,
`b − (F_k − tube) ≤ eps` unless `a_k = 0`, `F_k + tube − b ≤ eps` unless `a_{n+k} = 0`, `b − (F_k + tube) ≤ eps` unless
`a_{n+k} = −C`) -- i.e. up to `eps` every point with a free coefficient lies on the boundary of the tube and the others on
the correct side.  PROVED PART: runs whose gradients stay strictly inside the C++ sentinel range `(−1e100, 1e100)` at the
start of every pass (`hsent`; `C08.selectLibSVM_sentinel_witness`, `bias_sentinel_witness`). -/
theorem eps_regression_returned_partial (n : Nat) (K : Nat → Nat → Rat) (y : Nat → Rat) (C tube eps : Rat) (sh : Bool)
    (fuel : Nat) (hsym : ∀ x y, K x y = K y x) (hpsd : KernelPSD K) (hC : 0 < C) (heps : 0 < eps)
    (hsent : ∀ t, t ∈ C08.passStates 1 eps fuel (epsInit n K y C tube sh) 0 → SentinelOK t) :
    let r := solve 1 eps fuel (epsInit n K y C tube sh) 0 0
    let a := unpermutedAlpha r.1 0
    let β : Nat → Rat := epsCoefficients n r.1 0
    let F : Nat → Rat := fun k => y k - rsum (fun j => K k j * β j) n
    let b := epsOffset r.1 (fun k => (k : Rat))
    r.2.1 = true →
      (∀ k, k < n → 0 ≤ a k ∧ a k ≤ C ∧ -C ≤ a (n + k) ∧ a (n + k) ≤ 0) ∧
      rsum β n = 0 ∧
      (∀ k, k < n →
        (a k < C → (F k - tube) - b ≤ eps) ∧ (0 < a k → b - (F k - tube) ≤ eps) ∧
        (a (n + k) < 0 → (F k + tube) - b ≤ eps) ∧ (-C < a (n + k) → b - (F k + tube) ≤ eps)) := by
  intro r a β F b hacc
  have h0 : Inv (epsInit n K y C tube sh) := epsInit_inv n K y C tube sh hsym (le_of_lt hC)
  have ht0 := tied_epsInit n K y C tube sh
  have hpsd' : KernelPSD (fun a b => K (a % n) (b % n)) := hpsd.block n
  obtain ⟨hI, he'⟩ : Inv r.1 ∧ r.1.eqc = true :=
    C08.solve_inv_svm_partial eps heps fuel (epsInit n K y C tube sh) 0 0 h0 rfl hsent
  obtain ⟨hk, hact⟩ := solve_acc 1 eps fuel (epsInit n K y C tube sh) 0 0 hacc
  have hK : r.1.K = fun a b => K (a % n) (b % n) := solve_K 1 eps fuel (epsInit n K y C tube sh) 0 0
  have hn : r.1.n = 2 * n := solve_n 1 eps fuel (epsInit n K y C tube sh) 0 0
  have hT := solve_tied 1 eps fuel (epsInit n K y C tube sh) 0 0 ht0
  have hc : alphaSum r.1 = 0 :=
    (solve_sum_svm_partial eps heps fuel (epsInit n K y C tube sh) 0 0 h0 rfl hsent).trans
      (alphaSum_epsInit n K y C tube sh)
  obtain ⟨c1, c2, _, _, _⟩ := returned_svm hI hT he' hact (hpsd'.qmat r.1 hK) (le_of_lt heps) hk hn hK hc
  have hnd : ∀ k, k < r.1.n → r.1.L k < r.1.U k := by
    intro k hk'
    rw [(hT.2 k hk').2.2.1, (hT.2 k hk').2.2.2]
    show (if r.1.perm k < n then (0 : Rat) else -C) < (if r.1.perm k < n then C else 0)
    by_cases hp : r.1.perm k < n
    · rw [if_pos hp, if_pos hp]; exact hC
    · rw [if_neg hp, if_neg hp]; linarith
  have hb := eps_offset_in_kkt_interval_partial hI (le_of_lt heps)
    (stopped_pairwise_svm hI he' hact (le_of_lt hk)) hnd
    (solve_acc_range 1 eps fuel (epsInit n K y C tube sh) 0 0 hsent hacc)
  have hoff := returned_offset hI hT hact hn hK hb
  exact eps_unfold n K y C tube eps b (unpermutedAlpha r.1 0) c1 c2 hoff

/-- the start state of the ε-regression problem has its gradients (`y_k ∓ tube`) inside the sentinel range when the
labels are -/
theorem sentinelOK_epsInit (n : Nat) (K : Nat → Nat → Rat) (y : Nat → Rat) (C tube : Rat) (sh : Bool)
    (hy : ∀ k, -(10 : Rat) ^ 100 < y k - tube ∧ y k + tube < 10 ^ 100) (htube : 0 ≤ tube) :
    SentinelOK (epsInit n K y C tube sh) := by
  intro a _
  rw [unshrink_of_active (show (epsInit n K y C tube sh).active = (epsInit n K y C tube sh).n from rfl)]
  show -(10 : Rat) ^ 100 < (if a < n then y a - tube else y (a - n) + tube) ∧
    (if a < n then y a - tube else y (a - n) + tube) < 10 ^ 100
  split
  · have := hy a; constructor <;> linarith
  · have := hy (a - n); constructor <;> linarith

example : ∃ (n : Nat) (K : Nat → Nat → Rat) (y : Nat → Rat) (C tube eps : Rat) (sh : Bool),
    (∀ x y, K x y = K y x) ∧ KernelPSD K ∧ 0 < C ∧ 0 < eps ∧ 0 < n ∧
    (∀ t, t ∈ C08.passStates 1 eps 1 (epsInit n K y C tube sh) 0 → SentinelOK t) :=
  ⟨2, fun _ _ => 1, fun _ => 1, 1, 1 / 10, 1 / 1000, false, fun _ _ => rfl, kernelPSD_one, by norm_num, by norm_num,
   by decide, fun t ht => by
     rw [passStates_one _ _ _ _ t ht]
     exact sentinelOK_epsInit _ _ _ _ _ _ (fun _ => by constructor <;> norm_num) (by norm_num)⟩

theorem tied_oneClassInit (n : Nat) (K : Nat → Nat → Rat) (nu : Rat) (sh : Bool) :
    Tied (fun _ => 0) (fun _ => 0) (fun _ => 1 / (nu * (n : Rat))) (oneClassInit n K nu (n : Rat) sh) := by
  refine ⟨Nat.le_refl _, fun k hk => ⟨hk, ?_, ?_, ?_⟩⟩
  · show (0.0 : Rat) = 0
    exact lit0
  · show (0.0 : Rat) = 0
    exact lit0
  · show (1.0 : Rat) / (nu * (n : Rat)) = 1 / (nu * (n : Rat))
    rw [lit1]

/-- FULL STATEMENT (not provable for the code as it is): **end to end on the original data, one-class SVM** (the model of
`OneClassSvmTrainer::trainSVM`: `BoxedSVMProblem` with `alpha = 1/n`, zero linear term, box `[0, 1/(nu·n)]`, LibSVM
selection).  If training reports `AccuracyReached` for a PSD kernel, `0 < nu < 1`, then `a = getUnpermutedAlpha()` lies in
`[0, 1/(nu·n)]`, sums to 1 exactly, and the offset `b` the trainer computes satisfies the optimality conditions up to `eps`
for the true gradient `G_x = −Σ_y K(x,y) a_y` (`G_x − b ≤ eps` unless `a_x` is at the upper bound, `b − G_x ≤ eps` unless
`a_x = 0`).  PROVED PART: runs whose gradients stay strictly inside the C++ sentinel range `(−1e100, 1e100)` at the start
of every pass (`hsent`; `C08.selectLibSVM_sentinel_witness`, `bias_sentinel_witness`). -/
theorem oneclass_returned_partial (n : Nat) (K : Nat → Nat → Rat) (nu eps : Rat) (sh : Bool) (fuel : Nat)
    (hsym : ∀ x y, K x y = K y x) (hpsd : KernelPSD K) (hn0 : 0 < n) (hnu0 : 0 < nu) (hnu1 : nu < 1) (heps : 0 < eps)
    (hsent : ∀ t, t ∈ C08.passStates 1 eps fuel (oneClassInit n K nu (n : Rat) sh) 0 → SentinelOK t) :
    let r := solve 1 eps fuel (oneClassInit n K nu (n : Rat) sh) 0 0
    let a := unpermutedAlpha r.1 0
    let G : Nat → Rat := fun x => - rsum (fun z => K x z * a z) n
    let b := oneClassOffset r.1 (1 / (nu * (n : Rat))) (fun k => (k : Rat))
    r.2.1 = true →
      (∀ x, x < n → 0 ≤ a x ∧ a x ≤ 1 / (nu * (n : Rat))) ∧
      rsum a n = 1 ∧
      (∀ x, x < n → (a x < 1 / (nu * (n : Rat)) → G x - b ≤ eps) ∧ (0 < a x → b - G x ≤ eps)) := by
  intro r a G b hacc
  obtain ⟨h0, hs0⟩ := oneClassInit_inv n K nu sh hsym hn0 hnu0 hnu1
  have ht0 := tied_oneClassInit n K nu sh
  obtain ⟨hI, he'⟩ : Inv r.1 ∧ r.1.eqc = true :=
    C08.solve_inv_svm_partial eps heps fuel (oneClassInit n K nu (n : Rat) sh) 0 0 h0 rfl hsent
  obtain ⟨hk, hact⟩ := solve_acc 1 eps fuel (oneClassInit n K nu (n : Rat) sh) 0 0 hacc
  have hK : r.1.K = K := solve_K 1 eps fuel (oneClassInit n K nu (n : Rat) sh) 0 0
  have hn : r.1.n = n := solve_n 1 eps fuel (oneClassInit n K nu (n : Rat) sh) 0 0
  have hT := solve_tied 1 eps fuel (oneClassInit n K nu (n : Rat) sh) 0 0 ht0
  have hc : alphaSum r.1 = 1 :=
    (solve_sum_svm_partial eps heps fuel (oneClassInit n K nu (n : Rat) sh) 0 0 h0 rfl hsent).trans hs0
  obtain ⟨c1, c2, _, _, _⟩ := returned_svm hI hT he' hact (hpsd.qmat r.1 hK) (le_of_lt heps) hk hn hK hc
  have hnq : (0 : Rat) < (n : Rat) := by exact_mod_cast hn0
  have hup : (0 : Rat) < 1 / (nu * (n : Rat)) := div_pos one_pos (mul_pos hnu0 hnq)
  have hbox : ∀ k, k < r.1.n → r.1.L k = 0 ∧ r.1.U k = 1 / (nu * (n : Rat)) :=
    fun k hk' => ⟨(hT.2 k hk').2.2.1, (hT.2 k hk').2.2.2⟩
  have hb := oneclass_offset_in_kkt_interval_partial hI (le_of_lt heps) hup hbox
    (stopped_pairwise_svm hI he' hact (le_of_lt hk))
    (solve_acc_range 1 eps fuel (oneClassInit n K nu (n : Rat) sh) 0 0 hsent hacc)
  have hoff := returned_offset hI hT hact hn hK hb
  refine ⟨c1, c2, ?_⟩
  intro x hx
  have := hoff x hx
  simp only [zero_sub] at this
  exact this

example : ∃ (n : Nat) (K : Nat → Nat → Rat) (nu eps : Rat) (sh : Bool),
    (∀ x y, K x y = K y x) ∧ KernelPSD K ∧ 0 < n ∧ 0 < nu ∧ nu < 1 ∧ 0 < eps ∧
    (∀ t, t ∈ C08.passStates 1 eps 0 (oneClassInit n K nu (n : Rat) sh) 0 → SentinelOK t) :=
  ⟨2, fun _ _ => 1, 1 / 2, 1 / 1000, false, fun _ _ => rfl, kernelPSD_one, by decide, by norm_num, by norm_num,
   by norm_num, fun t ht => by simp [C08.passStates] at ht⟩

/-! ### the premises are reachable

Concrete two-point problems (rank-one PSD kernel `K x y = (x+1)(y+1)`) on which ALL hypotheses of the theorems above hold
-- including the sentinel hypothesis on every pass -- and the run does end with `AccuracyReached`: the runs are evaluated
by the kernel of Lean (`decide +kernel`, exact rational arithmetic), so the theorems are not vacuous. -/

theorem kernelPSD_rank1 (φ : Nat → Rat) : KernelPSD (fun x y => φ x * φ y) := by
  intro m f v
  show 0 ≤ bil m (fun a b => φ (f a) * φ (f b)) v v
  have : bil m (fun a b => φ (f a) * φ (f b)) v v
      = rsum (fun b => φ (f b) * v b) m * rsum (fun b => φ (f b) * v b) m := by
    unfold bil
    have e : (fun a => v a * rsum (fun b => φ (f a) * φ (f b) * v b) m)
        = fun a => rsum (fun b => φ (f b) * v b) m * (φ (f a) * v a) := by
      funext a
      have : rsum (fun b => φ (f a) * φ (f b) * v b) m = φ (f a) * rsum (fun b => φ (f b) * v b) m := by
        rw [← rsum_mul_left]; apply rsum_congr; intro k _; ring
      rw [this]; ring
    rw [e, rsum_mul_left]
  rw [this]; exact mul_self_nonneg _

/-- `csvm_nobias_returned_optimal`, `csvm_nobias_warm_returned_optimal`: hypotheses and premise hold together -/
example : ∃ (n : Nat) (K : Nat → Nat → Rat) (y : Nat → Bool) (Cn Cp eps : Rat) (w a1 : Nat → Rat) (sh : Bool)
    (maxIter : Nat),
    (∀ x y, K x y = K y x) ∧ KernelPSD K ∧ 0 ≤ Cn ∧ 0 ≤ Cp ∧ (∀ k, k < n → 0 ≤ w k) ∧ 0 < eps ∧
    (train2 n K y Cn Cp w eps false sh maxIter).2.1 = true ∧
    (train2Warm n K y Cn Cp w eps false sh maxIter a1).2.1 = true :=
  ⟨2, fun x y => ((x : Rat) + 1) * ((y : Rat) + 1), fun k => k == 0, 1, 2, 1 / 1000, fun _ => 1, fun _ => 7, true, 10,
   fun _ _ => mul_comm _ _, kernelPSD_rank1 (fun x => (x : Rat) + 1), by norm_num, by norm_num,
   fun _ _ => by norm_num, by norm_num, by decide +kernel, by decide +kernel⟩

/-- `csvm_bias_returned_optimal_partial`, `csvm_bias_warm_returned_optimal_partial` -/
example : ∃ (n : Nat) (K : Nat → Nat → Rat) (y : Nat → Bool) (Cn Cp eps : Rat) (w a1 : Nat → Rat) (sh : Bool)
    (maxIter : Nat),
    (∀ x y, K x y = K y x) ∧ KernelPSD K ∧ 0 ≤ Cn ∧ 0 ≤ Cp ∧ (∀ k, k < n → 0 ≤ w k) ∧ 0 < eps ∧
    (∀ t, t ∈ C08.passStates 1 eps maxIter (csvmInit2 n K y Cn Cp w true sh) 0 → SentinelOK t) ∧
    (train2 n K y Cn Cp w eps true sh maxIter).2.1 = true ∧
    (mustBalance (csvmInit2 n K y Cn Cp w true sh) a1 ∨ rsum a1 n = 0) ∧
    (∀ t, t ∈ C08.passStates 1 eps maxIter ((csvmInit2 n K y Cn Cp w true sh).setInitialSolution
        (warmStartVector (csvmInit2 n K y Cn Cp w true sh) a1 true)) 0 → SentinelOK t) ∧
    (train2Warm n K y Cn Cp w eps true sh maxIter a1).2.1 = true :=
  ⟨2, fun x y => ((x : Rat) + 1) * ((y : Rat) + 1), fun k => k == 0, 1, 2, 1 / 1000, fun _ => 1, fun _ => 7, true, 10,
   fun _ _ => mul_comm _ _, kernelPSD_rank1 (fun x => (x : Rat) + 1), by norm_num, by norm_num,
   fun _ _ => by norm_num, by norm_num, by unfold SentinelOK; decide +kernel, by decide +kernel,
   Or.inl (Or.inl ⟨0, by decide, by decide +kernel⟩), by unfold SentinelOK; decide +kernel, by decide +kernel⟩

/-- `eps_regression_returned_partial` -/
example : ∃ (n : Nat) (K : Nat → Nat → Rat) (y : Nat → Rat) (C tube eps : Rat) (sh : Bool) (fuel : Nat),
    (∀ x y, K x y = K y x) ∧ KernelPSD K ∧ 0 < C ∧ 0 < eps ∧
    (∀ t, t ∈ C08.passStates 1 eps fuel (epsInit n K y C tube sh) 0 → SentinelOK t) ∧
    (solve 1 eps fuel (epsInit n K y C tube sh) 0 0).2.1 = true :=
  ⟨2, fun x y => ((x : Rat) + 1) * ((y : Rat) + 1), fun k => (k : Rat), 1, 1 / 10, 1 / 1000, true, 40,
   fun _ _ => mul_comm _ _, kernelPSD_rank1 (fun x => (x : Rat) + 1), by norm_num, by norm_num,
   by unfold SentinelOK; decide +kernel, by decide +kernel⟩

/-- `oneclass_returned_partial` -/
example : ∃ (n : Nat) (K : Nat → Nat → Rat) (nu eps : Rat) (sh : Bool) (fuel : Nat),
    (∀ x y, K x y = K y x) ∧ KernelPSD K ∧ 0 < n ∧ 0 < nu ∧ nu < 1 ∧ 0 < eps ∧
    (∀ t, t ∈ C08.passStates 1 eps fuel (oneClassInit n K nu (n : Rat) sh) 0 → SentinelOK t) ∧
    (solve 1 eps fuel (oneClassInit n K nu (n : Rat) sh) 0 0).2.1 = true :=
  ⟨2, fun x y => ((x : Rat) + 1) * ((y : Rat) + 1), 1 / 2, 1 / 1000, true, 40,
   fun _ _ => mul_comm _ _, kernelPSD_rank1 (fun x => (x : Rat) + 1), by decide, by norm_num, by norm_num,
   by norm_num, by unfold SentinelOK; decide +kernel, by decide +kernel⟩

end Returned

end SharkVerif.C07
