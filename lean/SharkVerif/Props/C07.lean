/-
C07 — Trained support vector machines are optimal solutions of their dual problem.
(theorems on the solver/trainer model; see checks/c07.py for the tie)
-/
import SharkVerif.Lemmas.Smo
namespace SharkVerif.C07
open SharkVerif.Qp SharkVerif.Smo

/-- recomputed dual objective `lin·α − ½ αᵀKα` (under the current permutation) -/
def dualObjective (s : RS) : Rat :=
  rsum (fun k => s.lin k * s.alpha k) s.n - (1 / 2) * rsum (fun k => s.alpha k * Kalpha s k) s.n

/-- **objective_recomputed**: whenever the maintained gradient of every variable is `lin − K·α` (C08 `grad_inv`
with all variables active, i.e. after `unshrink`), the value reported by `functionValue()` =
`0.5·(g+lin)·α` is the recomputed dual objective. -/
theorem objective_recomputed (s : RS) (hg : ∀ k, k < s.n → s.g k = s.lin k - Kalpha s k) :
    s.functionValue = dualObjective s := by
  unfold State.functionValue dualObjective
  simp only [lit05, lit0]
  have : State.sumTo (0 : Rat) (fun k => (s.g k + s.lin k) * s.alpha k) s.n
      = rsum (fun k => 2 * (s.lin k * s.alpha k) - s.alpha k * Kalpha s k) s.n := by
    apply rsum_congr; intro k hk; rw [hg k hk]; ring
  rw [this, rsum_sub, rsum_mul_left]; ring

example : ∃ s : RS, (∀ k, k < s.n → s.g k = s.lin k - Kalpha s k) ∧ 0 < s.n :=
  ⟨State.init 1 (fun _ _ => 1) true false (fun _ => 1) (fun _ => 0) (fun _ => 1),
   fun k _ => by simp [State.init, Kalpha, lit0], by decide⟩

/-- **stop_implies_kkt**: if one pass of the model of `QpSolver::solve` leaves the loop with `AccuracyReached`
(`none`), then the KKT violation `checkKKT` of the un-shrunk state is below `eps` -- and that state is the one
reported (last event). -/
theorem stop_implies_kkt (strategy : Nat) (eps : Rat) (s : RS) (counter : Nat)
    (h : (solveIter strategy eps s counter).2 = none) :
    s.unshrink.checkKKT < eps ∧ (solveIter strategy eps s counter).1 = [(Ev.unshrink, s.unshrink)] := by
  unfold solveIter at h ⊢
  simp only [] at h ⊢
  split_ifs at h ⊢ with h1 h2 <;> simp_all

end SharkVerif.C07
