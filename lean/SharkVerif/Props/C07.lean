/-
C07 — Trained support vector machines are optimal solutions of their dual problem.
(theorems on the solver/trainer model; see checks/c07.py for the tie)
-/
import SharkVerif.Lemmas.WarmStart
import SharkVerif.Props.C08
namespace SharkVerif.C07
open SharkVerif.Qp SharkVerif.Smo SharkVerif.SvmTrainer

/-! The recomputed dual objective `lin·α − ½ αᵀKα` (under the current permutation) is `Smo.dualObjective`
(`Lemmas/SmoObjective.lean`); `Smo.dual n Q lin α` is the same function of an arbitrary coefficient vector. -/

/-- **objective_recomputed**: whenever the maintained gradient of every variable is `lin − K·α` (C08 `grad_inv`
with all variables active, i.e. after `unshrink`), the value reported by `functionValue()` =
`0.5·(g+lin)·α` is the recomputed dual objective. -/
theorem objective_recomputed (s : RS) (hg : ∀ k, k < s.n → s.g k = s.lin k - Kalpha s k) :
    s.functionValue = dualObjective s := by
  unfold State.functionValue dualObjective
  simp only [lit05, lit0]
  have : State.sumTo (0 : Rat) (fun k => (s.g k + s.lin k) * s.alpha k) s.n
      = rsum (fun k => 2 * (s.lin k * s.alpha k) - s.alpha k * Kalpha s k) s.n := by
    apply rsum_congr; intro k hk; rw [hg k hk]; ring
  rw [this, rsum_sub, rsum_mul_left]; ring

example : ∃ s : RS, (∀ k, k < s.n → s.g k = s.lin k - Kalpha s k) ∧ 0 < s.n :=
  ⟨State.init 1 (fun _ _ => 1) true false (fun _ => 1) (fun _ => 0) (fun _ => 1),
   fun k _ => by simp [State.init, Kalpha, lit0], by decide⟩

/-- **stop_implies_kkt**: if one pass of the model of `QpSolver::solve` leaves the loop with `AccuracyReached`
(`none`), then the KKT violation `checkKKT` of the un-shrunk state is below `eps` -- and that state is the one
reported (last event). -/
theorem stop_implies_kkt (strategy : Nat) (eps : Rat) (s : RS) (counter : Nat)
    (h : (solveIter strategy eps s counter).2 = none) :
    s.unshrink.checkKKT < eps ∧ (solveIter strategy eps s counter).1 = [(Ev.unshrink, s.unshrink)] := by
  unfold solveIter at h ⊢
  simp only [] at h ⊢
  split_ifs at h ⊢ with h1 h2 <;> simp_all


/-! ## Optimality: a KKT(ε) point is within `ε·Σ(U−L)` of the maximum -/

/-- **kkt_eps_near_optimal** (box problem, no bias): for a symmetric PSD quadratic form, if `α` is feasible and
violates the KKT conditions of `max lin·α − ½αᵀQα, L ≤ α ≤ U` by at most `ε` (`g_k ≤ ε` unless `α_k = U_k`,
`g_k ≥ −ε` unless `α_k = L_k`, with `g = lin − Qα`), then NO feasible `β` has an objective more than
`ε·Σ_k (U_k − L_k)` above that of `α`. -/
theorem kkt_eps_near_optimal_box {n : Nat} {Q : Nat → Nat → Rat} (hsym : ∀ a b, Q a b = Q b a) (hpsd : PSD n Q)
    (lin L U α β : Nat → Rat) (ε : Rat) (hε : 0 ≤ ε)
    (hα : ∀ k, k < n → L k ≤ α k ∧ α k ≤ U k) (hβ : ∀ k, k < n → L k ≤ β k ∧ β k ≤ U k)
    (hup : ∀ k, k < n → α k < U k → lin k - rsum (fun c => Q k c * α c) n ≤ ε)
    (hlo : ∀ k, k < n → L k < α k → -(lin k - rsum (fun c => Q k c * α c) n) ≤ ε) :
    dual n Q lin β - dual n Q lin α ≤ ε * rsum (fun k => U k - L k) n :=
  near_optimal_core hsym hpsd lin L U α β ε 0 hε hα hβ (zero_mul _)
    (fun k hk h => by have := hup k hk h; linarith) (fun k hk h => by have := hlo k hk h; linarith)

/-- **kkt_eps_near_optimal** (with equality constraint, i.e. trained with bias): KKT up to `ε` in the pairwise form
the solver checks -- `g_i − g_j ≤ ε` for every `i` not at its upper and `j` not at its lower bound -- implies that no
feasible `β` with the same coefficient sum is more than `ε·Σ(U−L)` better. -/
theorem kkt_eps_near_optimal {n : Nat} {Q : Nat → Nat → Rat} (hsym : ∀ a b, Q a b = Q b a) (hpsd : PSD n Q)
    (lin L U α β : Nat → Rat) (ε : Rat) (hε : 0 ≤ ε)
    (hα : ∀ k, k < n → L k ≤ α k ∧ α k ≤ U k) (hβ : ∀ k, k < n → L k ≤ β k ∧ β k ≤ U k)
    (hsum : rsum β n = rsum α n)
    (hpair : ∀ i j, i < n → j < n → α i < U i → L j < α j →
      (lin i - rsum (fun c => Q i c * α c) n) - (lin j - rsum (fun c => Q j c * α c) n) ≤ ε) :
    dual n Q lin β - dual n Q lin α ≤ ε * rsum (fun k => U k - L k) n := by
  obtain ⟨b, hb1, hb2⟩ := exists_bias n (fun k => lin k - rsum (fun c => Q k c * α c) n)
    (fun i => α i < U i) (fun j => L j < α j) ε hε hpair
  exact near_optimal_core hsym hpsd lin L U α β ε b hε hα hβ (by rw [hsum, sub_self, mul_zero]) hb1 hb2

example : ∃ (Q : Nat → Nat → Rat), (∀ a b, Q a b = Q b a) ∧ PSD 2 Q :=
  ⟨fun a b => if a = b then 1 else 0, fun a b => by by_cases h : a = b <;> simp [h, eq_comm],
   fun v => by
     simp only [bil, rsum, State.sumTo]
     norm_num
     nlinarith [mul_self_nonneg (v 0), mul_self_nonneg (v 1)]⟩

/-- **configuration independence** (corollary, explicit constant): any two feasible points of the same problem that
both satisfy the pairwise KKT conditions up to `ε` (what the solver guarantees when it reports `AccuracyReached`,
whatever the shrinking / caching / precomputation / warm-start configuration, `stop_implies_kkt` +
`stopped_pairwise_svm`) and have the same coefficient sum have dual objectives within `ε·Σ(U−L)` of each other. -/
theorem config_independence {n : Nat} {Q : Nat → Nat → Rat} (hsym : ∀ a b, Q a b = Q b a) (hpsd : PSD n Q)
    (lin L U α α' : Nat → Rat) (ε : Rat) (hε : 0 ≤ ε)
    (hα : ∀ k, k < n → L k ≤ α k ∧ α k ≤ U k) (hα' : ∀ k, k < n → L k ≤ α' k ∧ α' k ≤ U k)
    (hsum : rsum α' n = rsum α n)
    (hpair : ∀ i j, i < n → j < n → α i < U i → L j < α j →
      (lin i - rsum (fun c => Q i c * α c) n) - (lin j - rsum (fun c => Q j c * α c) n) ≤ ε)
    (hpair' : ∀ i j, i < n → j < n → α' i < U i → L j < α' j →
      (lin i - rsum (fun c => Q i c * α' c) n) - (lin j - rsum (fun c => Q j c * α' c) n) ≤ ε) :
    |dual n Q lin α' - dual n Q lin α| ≤ ε * rsum (fun k => U k - L k) n := by
  have h1 := kkt_eps_near_optimal hsym hpsd lin L U α α' ε hε hα hα' hsum hpair
  have h2 := kkt_eps_near_optimal hsym hpsd lin L U α' α ε hε hα' hα hsum.symm hpair'
  rw [abs_le]; constructor <;> linarith

/-- the same for the problem without bias -/
theorem config_independence_box {n : Nat} {Q : Nat → Nat → Rat} (hsym : ∀ a b, Q a b = Q b a) (hpsd : PSD n Q)
    (lin L U α α' : Nat → Rat) (ε : Rat) (hε : 0 ≤ ε)
    (hα : ∀ k, k < n → L k ≤ α k ∧ α k ≤ U k) (hα' : ∀ k, k < n → L k ≤ α' k ∧ α' k ≤ U k)
    (hup : ∀ k, k < n → α k < U k → lin k - rsum (fun c => Q k c * α c) n ≤ ε)
    (hlo : ∀ k, k < n → L k < α k → -(lin k - rsum (fun c => Q k c * α c) n) ≤ ε)
    (hup' : ∀ k, k < n → α' k < U k → lin k - rsum (fun c => Q k c * α' c) n ≤ ε)
    (hlo' : ∀ k, k < n → L k < α' k → -(lin k - rsum (fun c => Q k c * α' c) n) ≤ ε) :
    |dual n Q lin α' - dual n Q lin α| ≤ ε * rsum (fun k => U k - L k) n := by
  have h1 := kkt_eps_near_optimal_box hsym hpsd lin L U α α' ε hε hα hα' hup hlo
  have h2 := kkt_eps_near_optimal_box hsym hpsd lin L U α' α ε hε hα' hα hup' hlo'
  rw [abs_le]; constructor <;> linarith

/-! ## From the solver's stopping test to the KKT conditions on the coefficients -/

/-- when all variables are active (after `unshrink`), `checkKKT ≤ ε` of the equality-constrained problem is the
pairwise KKT condition on the coefficients themselves (the status bits are the coefficients at their bounds) -/
theorem stopped_pairwise_svm {s : RS} (h : Inv s) (he : s.eqc = true) (hact : s.active = s.n) {ε : Rat}
    (hk : s.checkKKT ≤ ε) :
    ∀ i j, i < s.n → j < s.n → s.alpha i < s.U i → s.L j < s.alpha j → s.g i - s.g j ≤ ε := by
  intro i j hi hj hui hlj
  rw [checkKKT_svm s he, hact] at hk
  obtain ⟨h1, h2⟩ := maxKKT_spec s s.n
  have hup : s.up i = false := by
    cases hx : s.up i
    · rfl
    · have := (h.fup i hi).1 hx; linarith
  have hlo : s.lo j = false := by
    cases hx : s.lo j
    · rfl
    · have := (h.flo j hj).1 hx; linarith
  have := h1 i hi hup
  have := h2 j hj hlo
  linarith

/-- the same for the box problem: every single KKT violation is bounded by `checkKKT` -/
theorem stopped_kkt_box {s : RS} (h : Inv s) (he : s.eqc = false) {ε : Rat} (hk : s.checkKKT ≤ ε) :
    ∀ i, i < s.n → (s.alpha i < s.U i → s.g i ≤ ε) ∧ (s.L i < s.alpha i → - s.g i ≤ ε) := by
  intro i hi
  have hb := h.box i hi
  constructor
  · intro hui
    have hup : s.up i = false := by
      cases hx : s.up i
      · rfl
      · have := (h.fup i hi).1 hx; linarith
    have := (checkKKT_box_spec s he i hi (fun hc => by rw [hup] at hc; exact absurd hc.2 (by simp))).1 hup
    linarith
  · intro hli
    have hlo : s.lo i = false := by
      cases hx : s.lo i
      · rfl
      · have := (h.flo i hi).1 hx; linarith
    have := (checkKKT_box_spec s he i hi (fun hc => by rw [hlo] at hc; exact absurd hc.1 (by simp))).2 hlo
    linarith

/-- **the reported solution is near-optimal** (equality-constrained problem): if the invariant holds (C08
`reachable_inv`), all variables are active and `checkKKT < ε` (which is what `stop_implies_kkt` gives for the state
reported with `AccuracyReached`), then for PSD `K` no feasible `β` with the same coefficient sum has a dual objective
more than `ε·Σ(U−L)` above the reported one. -/
theorem stopped_near_optimal_svm {s : RS} (h : Inv s) (he : s.eqc = true) (hact : s.active = s.n)
    (hpsd : PSD s.n (Qmat s)) {ε : Rat} (hε : 0 ≤ ε) (hk : s.checkKKT < ε)
    (β : Nat → Rat) (hβ : ∀ k, k < s.n → s.L k ≤ β k ∧ β k ≤ s.U k) (hsum : rsum β s.n = alphaSum s) :
    dual s.n (Qmat s) s.lin β - dualObjective s ≤ ε * rsum (fun k => s.U k - s.L k) s.n := by
  rw [dualObjective_eq]
  apply kkt_eps_near_optimal (Qmat_symm h.sym) hpsd s.lin s.L s.U s.alpha β ε hε h.box hβ hsum
  intro i j hi hj hui hlj
  have := stopped_pairwise_svm h he hact (le_of_lt hk) i j hi hj hui hlj
  have gi : s.g i = s.lin i - rsum (fun b => Qmat s i b * s.alpha b) s.n := h.grad i (by rw [hact]; exact hi)
  have gj : s.g j = s.lin j - rsum (fun b => Qmat s j b * s.alpha b) s.n := h.grad j (by rw [hact]; exact hj)
  rw [← gi, ← gj]; exact this

/-- the same for the problem without bias -/
theorem stopped_near_optimal_box {s : RS} (h : Inv s) (he : s.eqc = false) (hact : s.active = s.n)
    (hpsd : PSD s.n (Qmat s)) {ε : Rat} (hε : 0 ≤ ε) (hk : s.checkKKT < ε)
    (β : Nat → Rat) (hβ : ∀ k, k < s.n → s.L k ≤ β k ∧ β k ≤ s.U k) :
    dual s.n (Qmat s) s.lin β - dualObjective s ≤ ε * rsum (fun k => s.U k - s.L k) s.n := by
  rw [dualObjective_eq]
  have hg : ∀ k, k < s.n → s.g k = s.lin k - rsum (fun b => Qmat s k b * s.alpha b) s.n :=
    fun k hk' => h.grad k (by rw [hact]; exact hk')
  apply kkt_eps_near_optimal_box (Qmat_symm h.sym) hpsd s.lin s.L s.U s.alpha β ε hε h.box hβ
  · intro k hk' hu; rw [← hg k hk']; exact (stopped_kkt_box h he (le_of_lt hk) k hk').1 hu
  · intro k hk' hl; rw [← hg k hk']; exact (stopped_kkt_box h he (le_of_lt hk) k hk').2 hl

/-! ## `getUnpermutedAlpha` -/

/-- **unpermute_correct**: `getUnpermutedAlpha` undoes the accumulated coordinate flips: entry `perm i` of the result
is the coefficient of the (permuted) variable `i`, for every injective `perm` (C08 `reachable_inv` keeps it
injective); positions that are not hit keep the initial value. -/
theorem unpermute_correct (s : RS) (z : Rat)
    (hinj : ∀ a b, a < s.n → b < s.n → s.perm a = s.perm b → a = b) :
    (∀ i, i < s.n → unpermutedAlpha s z (s.perm i) = s.alpha i) ∧
    (∀ x, (∀ i, i < s.n → s.perm i ≠ x) → unpermutedAlpha s z x = z) := by
  have key : ∀ m, m ≤ s.n →
      let f := (List.range m).foldl (fun (f : Nat → Rat) i => upd f (s.perm i) (s.alpha i)) (fun _ => z)
      (∀ i, i < m → f (s.perm i) = s.alpha i) ∧ (∀ x, (∀ i, i < m → s.perm i ≠ x) → f x = z) := by
    intro m
    induction m with
    | zero => intro _ f; exact ⟨fun i hi => by omega, fun x _ => rfl⟩
    | succ m ih =>
      intro hm f
      have hf : f = upd ((List.range m).foldl (fun (f : Nat → Rat) i => upd f (s.perm i) (s.alpha i)) (fun _ => z))
          (s.perm m) (s.alpha m) := by
        show (List.range (m + 1)).foldl _ _ = _
        rw [List.range_succ, List.foldl_append]; rfl
      obtain ⟨ih1, ih2⟩ := ih (by omega)
      rw [hf]
      constructor
      · intro i hi
        by_cases him : i = m
        · subst him; exact upd_same _ _ _
        · have hne : s.perm i ≠ s.perm m := fun e => him (hinj i m (by omega) (by omega) e)
          rw [upd_ne _ _ hne]; exact ih1 i (by omega)
      · intro x hx
        have hne : x ≠ s.perm m := fun e => hx m (Nat.lt_succ_self m) e.symm
        rw [upd_ne _ _ hne]; exact ih2 x (fun i hi => hx i (by omega))
  exact key s.n (Nat.le_refl _)

example : ∃ s : RS, (∀ a b, a < s.n → b < s.n → s.perm a = s.perm b → a = b) ∧ 0 < s.n :=
  ⟨State.init 1 (fun _ _ => 1) true false (fun _ => 1) (fun _ => 0) (fun _ => 1), fun _ _ _ _ e => e, by decide⟩


/-! ## `computeBias` -/

theorem lit1e100 : (1.0e100 : Rat) = 10 ^ 100 := by norm_num

theorem mean_le {S c x ε : Rat} (hc : 0 < c) (h : x * c - S ≤ ε * c) : x - S / c ≤ ε := by
  have hS : S / c * c = S := div_mul_cancel₀ S (ne_of_gt hc)
  by_contra hcon
  have := mul_lt_mul_of_pos_right (not_le.mp hcon) hc
  nlinarith

theorem mean_ge {S c x ε : Rat} (hc : 0 < c) (h : S - x * c ≤ ε * c) : S / c - x ≤ ε := by
  have hS : S / c * c = S := div_mul_cancel₀ S (ne_of_gt hc)
  by_contra hcon
  have := mul_lt_mul_of_pos_right (not_le.mp hcon) hc
  nlinarith

/-- FULL STATEMENT (not provable for the code as it is): whenever the reported state satisfies the pairwise KKT
conditions up to `ε`, the bias `b` returned by `computeBias` lies in the interval the optimality conditions allow:
`g_i − b ≤ ε` for every `i` not at its upper bound and `b − g_j ≤ ε` for every `j` not at its lower bound.
PROVED PART: gradients inside the sentinel range `[−1e100, 1e100]` of the C++ (`lowerBound = -1e100`,
`upperBound = 1e100`); the hypothesis is used only when there is no free variable; `bias_sentinel_witness` lies
outside.  Boxes may be degenerate (`L_k = U_k`, e.g. an example weight of 0): since the fix of F-C07-5 such variables
are skipped (`bias_degenerate_box_instance_repaired`).  `s.g` is the maintained gradient, which is `lin − K·α` for all
variables after `unshrink` (C08 `grad_all_after_unshrink`). -/
theorem bias_in_kkt_interval_partial {s : RS} (h : Inv s) {ε : Rat} (hε : 0 ≤ ε)
    (hpair : ∀ i j, i < s.n → j < s.n → s.alpha i < s.U i → s.L j < s.alpha j → s.g i - s.g j ≤ ε)
    (hrange : ∀ k, k < s.n → -(10 : Rat) ^ 100 ≤ s.g k ∧ s.g k ≤ 10 ^ 100) :
    (∀ i, i < s.n → s.alpha i < s.U i → s.g i - computeBias s (fun k => (k : Rat)) ≤ ε) ∧
    (∀ j, j < s.n → s.L j < s.alpha j → computeBias s (fun k => (k : Rat)) - s.g j ≤ ε) := by
  by_cases hn : s.n = 0
  · exact ⟨fun i hi => by omega, fun j hj => by omega⟩
  rw [computeBias_eq, if_neg hn]
  obtain ⟨h1, h2, h3, h4, h5, h6⟩ := biasInv_all s s.n
  -- the bound tests of `computeBias` are tests against the raw box under the invariant
  have hBL : ∀ k, k < s.n → (s.alpha k = s.boxMin k ↔ s.alpha k = s.L k) := fun k hk => by rw [boxMin_eq h hk]
  have hBU : ∀ k, k < s.n → (s.alpha k = s.boxMax k ↔ s.alpha k = s.U k) := fun k hk => by rw [boxMax_eq h hk]
  have hDeg : ∀ k, k < s.n → (s.boxMin k = s.boxMax k ↔ s.L k = s.U k) := fun k hk => by
    rw [boxMin_eq h hk, boxMax_eq h hk]
  have hfree : ∀ k, k < s.n → ¬ atB s k → s.L k < s.alpha k ∧ s.alpha k < s.U k := by
    intro k hk hB
    have hb := h.box k hk
    have n1 : s.alpha k ≠ s.L k := fun e => hB (Or.inr (Or.inl ((hBL k hk).2 e)))
    have n2 : s.alpha k ≠ s.U k := fun e => hB (Or.inr (Or.inr ((hBU k hk).2 e)))
    exact ⟨lt_of_le_of_ne hb.1 (Ne.symm n1), lt_of_le_of_ne hb.2 n2⟩
  generalize biasAcc s s.n = acc at *
  by_cases hc : acc.2.2.2 > 0
  · rw [if_pos hc]
    have hcq : (0 : Rat) < (acc.2.2.2 : Rat) := by exact_mod_cast hc
    constructor
    · intro i hi hui
      have hle : rsum (fun k => if atB s k then 0 else s.g i - s.g k) s.n
          ≤ rsum (fun k => if atB s k then 0 else ε) s.n := by
        apply rsum_le; intro k hk
        by_cases hB : atB s k
        · simp only [hB, if_true]; exact le_refl _
        · simp only [hB, if_false]; exact hpair i k hi hk hui (hfree k hk hB).1
      have e1 : rsum (fun k => if atB s k then 0 else s.g i - s.g k) s.n
          = s.g i * (acc.2.2.2 : Rat) - acc.2.2.1 := by
        rw [h1, h2, ← rsum_mul_left, ← rsum_sub]; apply rsum_congr; intro k _; split <;> ring
      have e2 : rsum (fun k => if atB s k then 0 else ε) s.n = ε * (acc.2.2.2 : Rat) := by
        rw [h2, ← rsum_mul_left]; apply rsum_congr; intro k _; split <;> ring
      rw [e1, e2] at hle
      exact mean_le hcq hle
    · intro j hj hlj
      have hle : rsum (fun k => if atB s k then 0 else s.g k - s.g j) s.n
          ≤ rsum (fun k => if atB s k then 0 else ε) s.n := by
        apply rsum_le; intro k hk
        by_cases hB : atB s k
        · simp only [hB, if_true]; exact le_refl _
        · simp only [hB, if_false]; exact hpair k j hk hj (hfree k hk hB).2 hlj
      have e1 : rsum (fun k => if atB s k then 0 else s.g k - s.g j) s.n
          = acc.2.2.1 - s.g j * (acc.2.2.2 : Rat) := by
        rw [h1, h2, ← rsum_mul_left, ← rsum_sub]; apply rsum_congr; intro k _; split <;> ring
      have e2 : rsum (fun k => if atB s k then 0 else ε) s.n = ε * (acc.2.2.2 : Rat) := by
        rw [h2, ← rsum_mul_left]; apply rsum_congr; intro k _; split <;> ring
      rw [e1, e2] at hle
      exact mean_ge hcq hle
  · rw [if_neg hc, lit05]
    have hz : acc.2.2.2 = 0 := by omega
    have hall : ∀ k, k < s.n → atB s k := count_zero_all_bound s s.n (by rw [← h2, hz]; norm_num)
    rw [lit1e100] at h5 h6
    constructor
    · intro i hi hui
      have hbi := h.box i hi
      have hdi : s.boxMin i ≠ s.boxMax i := fun e => by have := (hDeg i hi).1 e; linarith
      have hiL : s.alpha i = s.boxMin i := by
        rcases hall i hi with e | e | e
        · exact absurd e hdi
        · exact e
        · have := (hBU i hi).1 e; linarith
      have hlb := h3 i hi hdi hiL
      have hub : s.g i - acc.2.1 ≤ ε := by
        rcases h6 with e | ⟨k, hk, _, hk1, hk2, hk3⟩
        · rw [e]; have := (hrange i hi).2; linarith
        · rw [← hk3]
          have hkL : s.L k < s.alpha k :=
            lt_of_le_of_ne (h.box k hk).1 (fun e => hk1 ((hBL k hk).2 e.symm))
          exact hpair i k hi hk hui hkL
      linarith
    · intro j hj hlj
      have hbj := h.box j hj
      have hdj : s.boxMin j ≠ s.boxMax j := fun e => by have := (hDeg j hj).1 e; linarith
      have hjL : s.alpha j ≠ s.boxMin j := fun e => by have := (hBL j hj).1 e; linarith
      have hjU : s.alpha j = s.boxMax j := by
        rcases hall j hj with e | e | e
        · exact absurd e hdj
        · exact absurd e hjL
        · exact e
      have hub := h4 j hj hdj hjL hjU
      have hlb : acc.1 - s.g j ≤ ε := by
        rcases h5 with e | ⟨k, hk, hkd, hk1, hk2⟩
        · rw [e]; have := (hrange j hj).1; linarith
        · rw [← hk2]
          have hkU : s.alpha k < s.U k := by
            rw [(hBL k hk).1 hk1]
            exact lt_of_le_of_ne (le_trans (h.box k hk).1 (h.box k hk).2) (fun e => hkd ((hDeg k hk).2 e))
          exact hpair k j hk hj hkU hlj
      linarith

example : ∃ (s : RS) (ε : Rat), Smo.Inv s ∧ 0 ≤ ε ∧ 0 < s.n ∧
    (∀ i j, i < s.n → j < s.n → s.alpha i < s.U i → s.L j < s.alpha j → s.g i - s.g j ≤ ε) ∧
    (∀ k, k < s.n → -(10 : Rat) ^ 100 ≤ s.g k ∧ s.g k ≤ 10 ^ 100) := by
  refine ⟨State.init 1 (fun _ _ => 1) true false (fun _ => 1) (fun _ => 0) (fun _ => 1), 0, ?_, le_refl _, by decide,
    ?_, ?_⟩
  · refine ⟨fun _ _ => rfl, Nat.le_refl _, fun _ => rfl, fun _ hk => hk, fun _ _ _ _ e => e, fun _ _ => rfl, ?_, ?_, ?_,
      ?_, ?_, fun _ h1 h2 => absurd h2 (Nat.not_lt.mpr h1)⟩
    · intro k _; simp [State.init, lit0]
    · intro k _; simp [State.init, lit0]
    · intro k _; simp [State.init, lit0]
    · intro a _; simp [State.init, Kalpha, rsum, State.sumTo, lit0]
    · intro hs; simp [State.init] at hs
  · intro i j hi hj _ hl; simp [State.init, lit0] at hl
  · intro k _; simp only [State.init]; constructor <;> norm_num

/-- the former defect F-C07-5 (degenerate box): variable 0 has `L = U = 0` and gradient 10, variable 1 sits at its upper
bound of `[0,1]` with gradient 0.  The unrepaired `computeBias` returned `½(10 + 0) = 5`, so `b − g_1 = 5 > 1`; the
current one skips variable 0 and satisfies the bound. -/
def biasWitnessDegenerate : RS where
  n := 2
  K := fun _ _ => 0
  eqc := true
  shrinkOn := false
  unshrinked := false
  active := 2
  perm := fun k => k
  lin := fun k => if k = 0 then 10 else 0
  alpha := fun k => if k = 0 then 0 else 1
  diag := fun _ => 0
  L := fun _ => 0
  U := fun k => if k = 0 then 0 else 1
  g := fun k => if k = 0 then 10 else 0
  gEdge := fun k => if k = 0 then 10 else 0
  lo := fun k => k == 0
  up := fun _ => true

theorem bias_degenerate_box_instance_repaired :
    let s : RS := biasWitnessDegenerate
    (∀ i j, i < s.n → j < s.n → s.alpha i < s.U i → s.L j < s.alpha j → s.g i - s.g j ≤ 1) ∧
    s.L 1 < s.alpha 1 ∧ computeBias s (fun k => (k : Rat)) - s.g 1 ≤ 1 := by
  intro s
  refine ⟨?_, by norm_num [s, biasWitnessDegenerate], ?_⟩
  · intro i j hi hj hui _
    have : i = 0 ∨ i = 1 := by have : i < 2 := hi; omega
    rcases this with e | e <;> subst e <;> norm_num [s, biasWitnessDegenerate] at hui
  · have hb : computeBias s (fun k => (k : Rat)) = -(10 ^ 100) / 2 := by
      rw [computeBias_eq]
      simp only [biasAcc, biasStep, s, biasWitnessDegenerate, State.boxMin, State.boxMax, List.range_succ, List.range_zero,
        List.nil_append, List.foldl_cons, List.foldl_nil, List.cons_append, lit0, lit05, lit1e100]
      norm_num
    rw [hb]; norm_num [s, biasWitnessDegenerate]

/-- witness outside the hypothesis (sentinel range): one variable at its upper bound of `[0,1]` with gradient
`−3e100`: `computeBias` returns `½(−1e100 − 3e100) = −2e100`, and `b − g_0 = 1e100 > 1`. -/
def biasWitnessSentinel : RS where
  n := 1
  K := fun _ _ => 0
  eqc := true
  shrinkOn := false
  unshrinked := false
  active := 1
  perm := fun k => k
  lin := fun _ => -(3 * 10 ^ 100)
  alpha := fun _ => 1
  diag := fun _ => 0
  L := fun _ => 0
  U := fun _ => 1
  g := fun _ => -(3 * 10 ^ 100)
  gEdge := fun _ => -(3 * 10 ^ 100)
  lo := fun _ => false
  up := fun _ => true

theorem bias_sentinel_witness :
    let s : RS := biasWitnessSentinel
    (∀ i j, i < s.n → j < s.n → s.alpha i < s.U i → s.L j < s.alpha j → s.g i - s.g j ≤ 1) ∧
    s.L 0 < s.alpha 0 ∧ ¬ (computeBias s (fun k => (k : Rat)) - s.g 0 ≤ 1) := by
  intro s
  refine ⟨?_, by norm_num [s, biasWitnessSentinel], ?_⟩
  · intro i j _ _ hui _; norm_num [s, biasWitnessSentinel] at hui
  · have hb : computeBias s (fun k => (k : Rat)) = -(2 * 10 ^ 100) := by
      rw [computeBias_eq]
      simp only [biasAcc, biasStep, s, biasWitnessSentinel, State.boxMin, State.boxMax, List.range_succ, List.range_zero, List.nil_append,
        List.foldl_cons, List.foldl_nil, lit0, lit05, lit1e100]
      norm_num
    rw [hb]; norm_num [s, biasWitnessSentinel]


/-! ## The widened trainers: their problems start inside the invariant, and the ε-regression block matrix is PSD

With these, everything proved about reachable states (C08 `reachable_inv`, `sum_inv`, `objective_monotone_svm`) and
about reported states (`stopped_near_optimal_svm`, …) applies to `CSvmTrainer` with class-specific `C` / example
weights, to `EpsilonSvmTrainer` and to `OneClassSvmTrainer`. -/

theorem lit1 : (1.0 : Rat) = 1 := by norm_num

/-- gradient accumulated by the `SvmProblem` constructor for a non-zero start vector -/
theorem initWith_grad (K : Nat → Nat → Rat) (lin a0 : Nat → Rat) : ∀ m (a : Nat),
    (List.range m).foldl (fun (gr : Nat → Rat) i =>
      if a0 i == (0.0 : Rat) then gr else fun k => gr k - K i k * a0 i) lin a
      = lin a - rsum (fun i => K i a * a0 i) m := by
  intro m
  induction m with
  | zero => intro a; simp
  | succ m ih =>
    intro a
    rw [List.range_succ, List.foldl_append, rsum_succ]
    simp only [List.foldl_cons, List.foldl_nil]
    split
    · rename_i h0
      rw [beq_iff_eq, lit0] at h0
      rw [ih a, h0]; ring
    · show (List.range m).foldl _ lin a - K m a * a0 m = _
      rw [ih a]; ring

/-- **the problem constructed with a non-zero start vector satisfies the invariant** provided the start vector lies in
the box and every coefficient that sits at a bound is zero (`m_gradientEdge` is initialised with `linear`); this is the
situation of `BoxedSVMProblem` in the one-class trainer (`alpha = 1/n` strictly inside `[0, 1/(nu n)]`, `nu < 1`). -/
theorem initWith_inv (n : Nat) (K : Nat → Nat → Rat) (eqc sh : Bool) (lin L U a0 : Nat → Rat)
    (hsym : ∀ x y, K x y = K y x) (hbox : ∀ k, k < n → L k ≤ a0 k ∧ a0 k ≤ U k)
    (hedge : ∀ k, k < n → (a0 k = L k ∨ a0 k = U k) → a0 k = 0) :
    Inv (State.initWith n K eqc sh lin L U a0) := by
  refine { sym := hsym, act_le := Nat.le_refl _, noshrink := fun _ => rfl, perm_lt := fun k hk => hk,
           perm_inj := fun a b _ _ e => e, diag := fun k _ => rfl, box := hbox, flo := ?_, fup := ?_,
           grad := ?_, edge := ?_, shrunk := ?_ }
  · intro k _; simp only [State.initWith, beq_iff_eq]
  · intro k _; simp only [State.initWith, beq_iff_eq]
  · intro a _
    show (List.range n).foldl _ lin a = lin a - Kalpha (State.initWith n K eqc sh lin L U a0) a
    rw [initWith_grad]
    simp only [Kalpha, State.initWith]
    congr 1; apply rsum_congr; intro i _; rw [hsym]
  · intro _ a _
    show lin a = lin a - KalphaEdge (State.initWith n K eqc sh lin L U a0) a
    have : KalphaEdge (State.initWith n K eqc sh lin L U a0) a = 0 := by
      have e : KalphaEdge (State.initWith n K eqc sh lin L U a0) a = rsum (fun _ => 0) n := by
        unfold KalphaEdge
        apply rsum_congr; intro b hb
        split
        · rename_i hbd
          have hz : a0 b = 0 := hedge b hb hbd
          show K a b * a0 b = 0
          rw [hz, mul_zero]
        · rfl
      rw [e, rsum_const_zero]
    rw [this, sub_zero]
  · intro k hk1 hk2; exact absurd hk2 (Nat.not_lt.mpr hk1)

/-- the C-SVM problem with class-specific `C` and per-example weights starts in a state satisfying the invariant -/
theorem csvmInit2_inv (n : Nat) (K : Nat → Nat → Rat) (y : Nat → Bool) (Cn Cp : Rat) (w : Nat → Rat) (bias sh : Bool)
    (hsym : ∀ x y, K x y = K y x) (hCn : 0 ≤ Cn) (hCp : 0 ≤ Cp) (hw : ∀ k, k < n → 0 ≤ w k) :
    Inv (csvmInit2 n K y Cn Cp w bias sh) := by
  apply C08.init_inv _ _ _ _ _ _ _ hsym
  intro k hk
  have h1 := mul_nonneg hCn (hw k hk)
  have h2 := mul_nonneg hCp (hw k hk)
  cases y k <;> simp only [lit0, Bool.false_eq_true, if_false, if_true] <;> constructor <;> linarith

/-- the ε-regression problem (2n variables over the block matrix) starts in a state satisfying the invariant -/
theorem epsInit_inv (n : Nat) (K : Nat → Nat → Rat) (y : Nat → Rat) (C tube : Rat) (sh : Bool)
    (hsym : ∀ x y, K x y = K y x) (hC : 0 ≤ C) : Inv (epsInit n K y C tube sh) := by
  apply C08.init_inv _ _ _ _ _ _ _ (fun a b => hsym _ _)
  intro k _
  split <;> simp only [lit0] <;> constructor <;> linarith

/-- the one-class problem (`alpha = 1/n`, box `[0, 1/(nu n)]`, `0 < nu < 1`) starts in a state satisfying the invariant
with coefficient sum 1 -/
theorem oneClassInit_inv (n : Nat) (K : Nat → Nat → Rat) (nu : Rat) (sh : Bool)
    (hsym : ∀ x y, K x y = K y x) (hn : 0 < n) (hnu0 : 0 < nu) (hnu1 : nu < 1) :
    Inv (oneClassInit n K nu (n : Rat) sh) ∧ alphaSum (oneClassInit n K nu (n : Rat) sh) = 1 := by
  have hnq : (0 : Rat) < (n : Rat) := by exact_mod_cast hn
  have hlt : (1 : Rat) / (n : Rat) < 1 / (nu * (n : Rat)) := by
    rw [div_lt_div_iff₀ hnq (mul_pos hnu0 hnq)]
    nlinarith
  have hpos : (0 : Rat) < 1 / (n : Rat) := div_pos one_pos hnq
  constructor
  · unfold oneClassInit
    apply initWith_inv _ _ _ _ _ _ _ _ hsym
    · intro k _; simp only [lit0, lit1]; constructor <;> linarith
    · intro k _ hb; simp only [lit0, lit1] at hb ⊢
      rcases hb with hb | hb <;> linarith
  · simp only [alphaSum, oneClassInit, State.initWith, lit1]
    have : ∀ m : Nat, rsum (fun _ => (1 : Rat) / (n : Rat)) m = (m : Rat) / (n : Rat) := by
      intro m
      induction m with
      | zero => simp
      | succ m ih => rw [rsum_succ, ih]; push_cast; ring
    rw [this n]; exact div_self (ne_of_gt hnq)

/-- `Σ_{a<2n} f a` splits into the two halves -/
theorem rsum_two_mul (f : Nat → Rat) (n : Nat) : rsum f (2 * n) = rsum f n + rsum (fun k => f (n + k)) n := by
  have h : ∀ m, rsum f (n + m) = rsum f n + rsum (fun k => f (n + k)) m := by
    intro m
    induction m with
    | zero => simp
    | succ m ih => rw [← Nat.add_assoc, rsum_succ, ih, rsum_succ]; ring
  rw [two_mul]; exact h n

/-- the 2×2 block matrix `[[Q,Q],[Q,Q]]` of the ε-regression dual is PSD when `Q` is -/
theorem psd_block {n : Nat} {Q : Nat → Nat → Rat} (h : PSD n Q) : PSD (2 * n) (fun a b => Q (a % n) (b % n)) := by
  intro v
  have key : bil (2 * n) (fun a b => Q (a % n) (b % n)) v v
      = bil n Q (fun k => v k + v (n + k)) (fun k => v k + v (n + k)) := by
    unfold bil
    have inner : ∀ a, rsum (fun b => Q (a % n) (b % n) * v b) (2 * n)
        = rsum (fun l => Q (a % n) l * (v l + v (n + l))) n := by
      intro a
      rw [rsum_two_mul, ← rsum_add]
      apply rsum_congr; intro l hl
      rw [Nat.add_mod_left, Nat.mod_eq_of_lt hl]; ring
    rw [rsum_two_mul, ← rsum_add]
    apply rsum_congr; intro k hk
    rw [inner k, inner (n + k), Nat.add_mod_left, Nat.mod_eq_of_lt hk]; ring
  rw [key]; exact h _


example : ∃ (n : Nat) (K : Nat → Nat → Rat) (nu : Rat), (∀ x y, K x y = K y x) ∧ 0 < n ∧ 0 < nu ∧ nu < 1 :=
  ⟨2, fun _ _ => 1, 1 / 2, fun _ _ => rfl, by decide, by norm_num, by norm_num⟩


/-! ## Warm starts -/

/-- **warm start**: `setInitialSolution(a0)` on a state with all variables active yields a state satisfying the
invariant whenever `a0` lies in the box (gradient and edge gradient are rebuilt from scratch) -/
theorem setInitialSolution_inv {s : RS} (h : Inv s) (hact : s.active = s.n) (a0 : Nat → Rat)
    (hbox : ∀ k, k < s.n → s.L k ≤ a0 k ∧ a0 k ≤ s.U k) : Inv (s.setInitialSolution a0) := by
  unfold State.setInitialSolution
  refine { sym := h.sym, act_le := h.act_le, noshrink := h.noshrink, perm_lt := h.perm_lt, perm_inj := h.perm_inj,
           diag := h.diag, box := hbox, flo := ?_, fup := ?_, grad := ?_, edge := ?_, shrunk := ?_ }
  · intro k _; simp only [beq_iff_eq]
  · intro k _; simp only [beq_iff_eq]
  · intro a _
    dsimp only
    rw [foldl_filter_sub (fun i => !(a0 i == (0.0 : Rat))) (fun i k => a0 i * s.q i k) s.lin s.n a]
    show _ = s.lin a - rsum (fun b => s.K (s.perm a) (s.perm b) * a0 b) s.n
    congr 1; apply rsum_congr; intro i _
    by_cases h0 : a0 i = 0
    · simp [h0, lit0]
    · have : (!(a0 i == (0.0 : Rat))) = true := by rw [lit0]; simp [h0]
      rw [this, if_pos rfl]; simp only [State.q]; rw [h.sym]; ring
  · intro _ a _
    dsimp only
    rw [List.filter_filter,
      foldl_filter_sub _ (fun i k => a0 i * s.q i k) s.lin s.n a]
    show _ = s.lin a - rsum (fun b => if a0 b = s.L b ∨ a0 b = s.U b then s.K (s.perm a) (s.perm b) * a0 b else 0) s.n
    congr 1; apply rsum_congr; intro i hi
    rw [boxMin_eq h hi, boxMax_eq h hi]
    by_cases h0 : a0 i = 0
    · simp [h0, lit0]
    · by_cases hb : a0 i = s.L i ∨ a0 i = s.U i
      · have : (((a0 i == s.L i) || (a0 i == s.U i)) && !(a0 i == (0.0 : Rat))) = true := by
          rw [lit0]; rcases hb with e | e <;> simp [e, h0] <;> (rw [← e]; exact h0)
        rw [this, if_pos rfl, if_pos hb]; simp only [State.q]; rw [h.sym]; ring
      · have : (((a0 i == s.L i) || (a0 i == s.U i)) && !(a0 i == (0.0 : Rat))) = false := by
          push_neg at hb; simp [hb.1, hb.2]
        rw [this, if_neg hb]; simp
  · intro k hk1 hk2
    have : s.n ≤ k := by rw [← hact]; exact hk1
    exact absurd hk2 (Nat.not_lt.mpr this)

open Classical in
/-- **the warm-start vector lies in the box** (boxes contain 0, as for every C-SVM problem) -/
theorem warmStart_in_box (s : RS) (a1 : Nat → Rat) (bias : Bool)
    (hbox : ∀ k, k < s.n → s.L k ≤ 0 ∧ 0 ≤ s.U k) :
    ∀ k, k < s.n → s.L k ≤ warmStartVector s a1 bias k ∧ warmStartVector s a1 bias k ≤ s.U k := by
  intro k hk
  have hc := clipv_box s a1 k (le_trans (hbox k hk).1 (hbox k hk).2)
  obtain ⟨hL0, hU0⟩ := hbox k hk
  rw [warmStartVector_apply]
  split
  · exact hc
  split
  · exact hc
  rename_i _ hG
  have hne : warmP s a1 ≠ warmN s a1 := fun e => hG (Or.inr e)
  split
  · obtain ⟨hf0, hf1⟩ := warmF_bounds (warmP_nonneg s a1) (warmN_nonneg s a1) hne
    generalize warmF (warmP s a1) (warmN s a1) = f at hf0 hf1 ⊢
    by_cases hpos : 0 < clipv s a1 k
    · constructor
      · have := mul_nonneg (le_of_lt hpos) hf0; linarith
      · have := mul_le_mul_of_nonneg_left hf1 (le_of_lt hpos); linarith [hc.2]
    · have hle : clipv s a1 k ≤ 0 := not_lt.mp hpos
      constructor
      · have := mul_le_mul_of_nonneg_left hf1 (neg_nonneg.mpr hle)
        nlinarith [hc.1]
      · have := mul_nonneg (neg_nonneg.mpr hle) hf0
        nlinarith
  · exact hc

open Classical in
/-- **with bias the warm-start vector sums to zero whenever clipping changed a coefficient** (exactly, in exact
arithmetic): this is what the repair of F-C07-2 establishes, and `sum_inv` (C08) keeps it for the whole run -/
theorem warmStart_sum_zero (s : RS) (a1 : Nat → Rat) (hclip : anyClip s a1) :
    rsum (warmStartVector s a1 true) s.n = 0 := by
  have hsplit : rsum (clipv s a1) s.n = warmP s a1 - warmN s a1 := by
    unfold warmP warmN; rw [← rsum_sub]; apply rsum_congr; intro i _; split <;> ring
  by_cases hPN : warmP s a1 = warmN s a1
  · have : rsum (warmStartVector s a1 true) s.n = rsum (clipv s a1) s.n := by
      apply rsum_congr; intro k _; rw [warmStartVector_apply]; simp [hPN]
    rw [this, hsplit, hPN, sub_self]
  · have hG : ¬ (¬ anyClip s a1 ∨ warmP s a1 = warmN s a1) := fun h => h.elim (fun h' => h' hclip) hPN
    have hP := warmP_nonneg s a1
    have hN := warmN_nonneg s a1
    by_cases hgt : warmN s a1 < warmP s a1
    · have hPpos : 0 < warmP s a1 := lt_of_le_of_lt hN hgt
      have hF : warmF (warmP s a1) (warmN s a1) = warmN s a1 / warmP s a1 := by unfold warmF; rw [if_pos hgt]
      have : rsum (warmStartVector s a1 true) s.n
          = rsum (fun i => (warmN s a1 / warmP s a1) * (if 0 < clipv s a1 i then clipv s a1 i else 0)
              - (if 0 < clipv s a1 i then 0 else - clipv s a1 i)) s.n := by
        apply rsum_congr; intro k _
        rw [warmStartVector_apply, if_neg (by simp), if_neg hG, hF]
        by_cases hpos : 0 < clipv s a1 k
        · have hne : clipv s a1 k ≠ 0 := ne_of_gt hpos
          rw [if_pos ⟨⟨fun _ => hgt, fun _ => hpos⟩, hne⟩]; simp only [hpos, if_true]; ring
        · rw [if_neg (fun h => hpos (h.1.2 hgt))]; simp only [hpos, if_false]; ring
      rw [this, rsum_sub, rsum_mul_left]
      show warmN s a1 / warmP s a1 * warmP s a1 - warmN s a1 = 0
      rw [div_mul_cancel₀ _ (ne_of_gt hPpos), sub_self]
    · have hlt : warmP s a1 < warmN s a1 := lt_of_le_of_ne (not_lt.mp hgt) hPN
      have hNpos : 0 < warmN s a1 := lt_of_le_of_lt hP hlt
      have hF : warmF (warmP s a1) (warmN s a1) = warmP s a1 / warmN s a1 := by
        unfold warmF; rw [if_neg (not_lt.mpr (le_of_lt hlt))]
      have : rsum (warmStartVector s a1 true) s.n
          = rsum (fun i => (if 0 < clipv s a1 i then clipv s a1 i else 0)
              - (warmP s a1 / warmN s a1) * (if 0 < clipv s a1 i then 0 else - clipv s a1 i)) s.n := by
        apply rsum_congr; intro k _
        rw [warmStartVector_apply, if_neg (by simp), if_neg hG, hF]
        by_cases hpos : 0 < clipv s a1 k
        · rw [if_neg (fun h => hgt (h.1.1 hpos))]; simp only [hpos, if_true]; ring
        · by_cases hz : clipv s a1 k = 0
          · rw [if_neg (fun h => h.2 hz)]; simp [hz]
          · rw [if_pos ⟨⟨fun h => absurd h hpos, fun h => absurd h hgt⟩, hz⟩]; simp only [hpos, if_false]; ring
      rw [this, rsum_sub, rsum_mul_left]
      show warmP s a1 - warmP s a1 / warmN s a1 * warmN s a1 = 0
      rw [div_mul_cancel₀ _ (ne_of_gt hNpos), sub_self]

open Classical in
/-- a start vector that already fits the box is passed through unchanged (refined repair b8cdd69a: a feasible solution
is not rescaled) -- in particular its coefficient sum is whatever it was -/
theorem warmStart_untouched (s : RS) (a1 : Nat → Rat) (bias : Bool) (h : ¬ anyClip s a1) :
    ∀ k, k < s.n → warmStartVector s a1 bias k = a1 k := by
  intro k hk
  have hc : clipv s a1 k = a1 k := by
    by_contra hne; exact h ⟨k, hk, hne⟩
  rw [warmStartVector_apply]
  split
  · exact hc
  · rw [if_pos (Or.inl h)]; exact hc

/-- **a warm-started C-SVM run starts inside the invariant**, whatever coefficients the previous model carries, and
with bias its coefficient sum is exactly 0 as soon as clipping changed a coefficient or the previous coefficients summed
to 0 (a previous vector that fits the box is passed through as it is) -- so `reachable_inv`, `sum_inv` and `stopped_near_optimal_*` apply to warm
starts as to cold ones (this is the configuration-independence clause for warm starts, given termination). -/
theorem warm_start_inv (n : Nat) (K : Nat → Nat → Rat) (y : Nat → Bool) (Cn Cp : Rat) (w : Nat → Rat) (bias sh : Bool)
    (a1 : Nat → Rat) (hsym : ∀ x y, K x y = K y x) (hCn : 0 ≤ Cn) (hCp : 0 ≤ Cp) (hw : ∀ k, k < n → 0 ≤ w k) :
    let s0 := csvmInit2 n K y Cn Cp w bias sh
    Inv (s0.setInitialSolution (warmStartVector s0 a1 bias)) ∧
    (bias = true → (anyClip s0 a1 ∨ rsum a1 n = 0) →
      alphaSum (s0.setInitialSolution (warmStartVector s0 a1 bias)) = 0) := by
  intro s0
  have h0 : Inv s0 := csvmInit2_inv n K y Cn Cp w bias sh hsym hCn hCp hw
  have hbox0 : ∀ k, k < s0.n → s0.L k ≤ 0 ∧ 0 ≤ s0.U k := by
    intro k hk
    have := h0.box k hk
    have ha : s0.alpha k = 0 := lit0
    rw [ha] at this; exact this
  refine ⟨setInitialSolution_inv h0 rfl _ (warmStart_in_box s0 a1 bias hbox0), ?_⟩
  intro hb hc
  subst hb
  by_cases hclip : anyClip s0 a1
  · exact warmStart_sum_zero s0 a1 hclip
  · have hz : rsum a1 n = 0 := hc.resolve_left hclip
    show rsum (warmStartVector s0 a1 true) s0.n = 0
    rw [rsum_congr (warmStart_untouched s0 a1 true hclip)]
    exact hz

example : ∃ (n : Nat) (K : Nat → Nat → Rat) (Cn Cp : Rat) (w : Nat → Rat),
    (∀ x y, K x y = K y x) ∧ 0 ≤ Cn ∧ 0 ≤ Cp ∧ ∀ k, k < n → 0 ≤ w k :=
  ⟨2, fun _ _ => 1, 1, 2, fun _ => 1, fun _ _ => rfl, by norm_num, by norm_num, fun _ _ => by norm_num⟩


/-! ## The offsets of the ε-regression and one-class machines -/

theorem foldl_range_congr {β : Type} (f g : β → Nat → β) (init : β) : ∀ n, (∀ acc k, k < n → f acc k = g acc k) →
    (List.range n).foldl f init = (List.range n).foldl g init := by
  intro n
  induction n with
  | zero => intro _; rfl
  | succ n ih =>
    intro h
    rw [List.range_succ, List.foldl_append, List.foldl_append, ih (fun acc k hk => h acc k (by omega))]
    simp only [List.foldl_cons, List.foldl_nil]
    exact h _ n (Nat.lt_succ_self n)

/-- for boxes with non-empty interior the offset loop of `EpsilonSvmTrainer` computes what `CSvmTrainer::computeBias`
computes (`std::max(value, bound)` versus `if (value > bound) bound = value`) -/
theorem epsOffset_eq_computeBias (s : RS) (cnt : Nat → Rat) (hnd : ∀ k, k < s.n → s.boxMin k ≠ s.boxMax k) (hn : s.n ≠ 0) :
    epsOffset s cnt = computeBias s cnt := by
  unfold epsOffset computeBias
  rw [if_neg hn]
  dsimp only
  rw [foldl_range_congr _ (fun (acc : Rat × Rat × Rat × Nat) i =>
      if s.boxMin i == s.boxMax i then acc
      else if s.alpha i == s.boxMin i then
        (if s.g i > acc.1 then (s.g i, acc.2.1, acc.2.2.1, acc.2.2.2) else acc)
      else if s.alpha i == s.boxMax i then
        (if s.g i < acc.2.1 then (acc.1, s.g i, acc.2.2.1, acc.2.2.2) else acc)
      else (acc.1, acc.2.1, acc.2.2.1 + s.g i, acc.2.2.2 + 1)) _ s.n]
  intro acc k hk
  have hd : ¬ ((s.boxMin k == s.boxMax k) = true) := by rw [beq_iff_eq]; exact hnd k hk
  rw [if_neg hd]
  split
  · unfold smax; split
    · rename_i h; rw [if_neg (not_lt.mpr (le_of_lt h))]
    · rename_i h
      by_cases hgt : s.g k > acc.1
      · rw [if_pos hgt]
      · rw [if_neg hgt]
        have : s.g k = acc.1 := le_antisymm (not_lt.mp hgt) (not_lt.mp h)
        rw [this]
  · split
    · unfold smin; split
      · rename_i h; rw [if_neg (not_lt.mpr (le_of_lt h))]
      · rename_i h
        by_cases hlt : s.g k < acc.2.1
        · rw [if_pos hlt]
        · rw [if_neg hlt]
          have : s.g k = acc.2.1 := le_antisymm (not_lt.mp h) (not_lt.mp hlt)
          rw [this]
    · rfl

/-- **the offset of the ε-regression machine lies in the KKT interval** (same statement and hypotheses as
`bias_in_kkt_interval_partial`; the boxes `[0,C]`, `[−C,0]` of ε-regression have non-empty interior for `C > 0`) -/
theorem eps_offset_in_kkt_interval_partial {s : RS} (h : Smo.Inv s) {ε : Rat} (hε : 0 ≤ ε)
    (hpair : ∀ i j, i < s.n → j < s.n → s.alpha i < s.U i → s.L j < s.alpha j → s.g i - s.g j ≤ ε)
    (hnd : ∀ k, k < s.n → s.L k < s.U k)
    (hrange : ∀ k, k < s.n → -(10 : Rat) ^ 100 ≤ s.g k ∧ s.g k ≤ 10 ^ 100) :
    (∀ i, i < s.n → s.alpha i < s.U i → s.g i - epsOffset s (fun k => (k : Rat)) ≤ ε) ∧
    (∀ j, j < s.n → s.L j < s.alpha j → epsOffset s (fun k => (k : Rat)) - s.g j ≤ ε) := by
  by_cases hn : s.n = 0
  · exact ⟨fun i hi => by omega, fun j hj => by omega⟩
  rw [epsOffset_eq_computeBias s _ (fun k hk => by
    rw [boxMin_eq h hk, boxMax_eq h hk]; exact ne_of_lt (hnd k hk)) hn]
  exact bias_in_kkt_interval_partial h hε hpair hrange


/-- the offset loop of `OneClassSvmTrainer` (literal tests `alpha == 0`, `alpha == upper`) is the box-based loop when the
box is `[0, upper]` -/
theorem oneClassOffset_eq_epsOffset (s : RS) (upper : Rat) (cnt : Nat → Rat)
    (hb : ∀ k, k < s.n → s.boxMin k = 0 ∧ s.boxMax k = upper) :
    oneClassOffset s upper cnt = epsOffset s cnt := by
  unfold oneClassOffset epsOffset
  dsimp only
  rw [foldl_range_congr _ (fun (acc : Rat × Rat × Rat × Nat) i =>
      if s.alpha i == s.boxMin i then (smax (s.g i) acc.1, acc.2.1, acc.2.2.1, acc.2.2.2)
      else if s.alpha i == s.boxMax i then (acc.1, smin (s.g i) acc.2.1, acc.2.2.1, acc.2.2.2)
      else (acc.1, acc.2.1, acc.2.2.1 + s.g i, acc.2.2.2 + 1)) _ s.n]
  intro acc k hk
  rw [(hb k hk).1, (hb k hk).2, lit0]

/-- **the offset of the one-class machine lies in the KKT interval** -/
theorem oneclass_offset_in_kkt_interval_partial {s : RS} (h : Smo.Inv s) {ε upper : Rat} (hε : 0 ≤ ε) (hup : 0 < upper)
    (hbox : ∀ k, k < s.n → s.L k = 0 ∧ s.U k = upper)
    (hpair : ∀ i j, i < s.n → j < s.n → s.alpha i < s.U i → s.L j < s.alpha j → s.g i - s.g j ≤ ε)
    (hrange : ∀ k, k < s.n → -(10 : Rat) ^ 100 ≤ s.g k ∧ s.g k ≤ 10 ^ 100) :
    (∀ i, i < s.n → s.alpha i < s.U i → s.g i - oneClassOffset s upper (fun k => (k : Rat)) ≤ ε) ∧
    (∀ j, j < s.n → s.L j < s.alpha j → oneClassOffset s upper (fun k => (k : Rat)) - s.g j ≤ ε) := by
  rw [oneClassOffset_eq_epsOffset s upper _ (fun k hk => by
    rw [boxMin_eq h hk, boxMax_eq h hk]; exact hbox k hk)]
  exact eps_offset_in_kkt_interval_partial h hε hpair
    (fun k hk => by rw [(hbox k hk).1, (hbox k hk).2]; exact hup) hrange


/-! ## End to end: what `AccuracyReached` means for the trained machine -/

/-- positive semi-definiteness of a kernel in the usual sense: every finite Gram matrix `K(f a, f b)` is PSD -/
def KernelPSD (K : Nat → Nat → Rat) : Prop :=
  ∀ (m : Nat) (f : Nat → Nat) (v : Nat → Rat), 0 ≤ bil m (fun a b => K (f a) (f b)) v v

theorem KernelPSD.qmat {K : Nat → Nat → Rat} (h : KernelPSD K) (s : RS) (hK : s.K = K) : PSD s.n (Qmat s) := by
  intro v; unfold Qmat; rw [hK]; exact h s.n s.perm v

/-- if the model of `QpSolver::solve` reports `AccuracyReached`, the state it returns has all variables active and a
KKT violation below `eps` -/
theorem solve_acc (strategy : Nat) (eps : Rat) : ∀ (fuel : Nat) (s : RS) (counter it : Nat),
    (solve strategy eps fuel s counter it).2.1 = true →
    (solve strategy eps fuel s counter it).1.checkKKT < eps ∧
    (solve strategy eps fuel s counter it).1.active = (solve strategy eps fuel s counter it).1.n := by
  intro fuel
  induction fuel with
  | zero => intro s _ _ h; simp [solve] at h
  | succ fuel ih =>
    intro s counter it h
    unfold solve at h ⊢
    cases hn : (solveIter strategy eps s counter).2 with
    | none =>
      obtain ⟨hk, hev⟩ := stop_implies_kkt strategy eps s counter hn
      simp only [hev, List.getLast?_singleton, Option.map_some, Option.getD_some]
      exact ⟨hk, unshrink_active s⟩
    | some p =>
      obtain ⟨s', c'⟩ := p
      simp only [hn] at h ⊢
      exact ih s' c' (it + 1) h

/-- the data of the problem never changes during a solver run -/
theorem solveIter_K (strategy : Nat) (eps : Rat) (s : RS) (counter : Nat) :
    (∀ e, e ∈ (solveIter strategy eps s counter).1 → e.2.K = s.K) ∧
    (∀ s' c', (solveIter strategy eps s counter).2 = some (s', c') → s'.K = s.K) := by
  have hun : s.unshrink.K = s.K := by unfold State.unshrink; split <;> rfl
  have hsh : ∀ t : RS, (t.shrink eps).1.K = t.K := by
    intro t
    unfold State.shrink
    split
    · rfl
    · dsimp only
      have hgo : ∀ (lu sd : Rat) (a : Nat) (u : RS), (State.shrinkGo lu sd a u).K = u.K := by
        intro lu sd a
        induction a with
        | zero => intro u; rfl
        | succ a ih => intro u; rw [shrinkGo_succ]; split
                       · rw [ih]; rfl
                       · exact ih u
      split
      · rw [hgo]; unfold State.unshrink; split <;> rfl
      · rw [hgo]
  have hsmo : ∀ (t : RS) (i j : Nat), (t.updateSMO i j).K = t.K := fun t i j => (updateSMO_frame t i j).2.2.1
  unfold solveIter
  by_cases hacc : (s.select strategy 0 0).2.2 < eps
  · simp only [hacc, if_true]
    by_cases hkkt : s.unshrink.checkKKT < eps
    · simp only [hkkt, if_true]
      refine ⟨?_, fun s' c' hn => by simp at hn⟩
      intro e he
      simp only [List.mem_cons, List.not_mem_nil, or_false] at he; rw [he]; exact hun
    · simp only [hkkt, if_false]
      split
      · refine ⟨?_, fun s' c' hn => by
          simp only [Option.some.injEq, Prod.mk.injEq] at hn; rw [← hn.1, hsh, hsmo, hsh, hun]⟩
        intro e he
        simp only [List.cons_append, List.nil_append, List.mem_cons, List.not_mem_nil, or_false] at he
        rcases he with he | he | he | he <;> rw [he]
        · exact hun
        · rw [hsh, hun]
        · rw [hsmo, hsh, hun]
        · rw [hsh, hsmo, hsh, hun]
      · refine ⟨?_, fun s' c' hn => by
          simp only [Option.some.injEq, Prod.mk.injEq] at hn; rw [← hn.1, hsmo, hsh, hun]⟩
        intro e he
        simp only [List.cons_append, List.nil_append, List.mem_cons, List.not_mem_nil, or_false] at he
        rcases he with he | he | he <;> rw [he]
        · exact hun
        · rw [hsh, hun]
        · rw [hsmo, hsh, hun]
  · simp only [hacc, if_false]
    split
    · refine ⟨?_, fun s' c' hn => by
        simp only [Option.some.injEq, Prod.mk.injEq] at hn; rw [← hn.1, hsh, hsmo]⟩
      intro e he
      simp only [List.nil_append, List.cons_append, List.mem_cons, List.not_mem_nil, or_false] at he
      rcases he with he | he <;> rw [he]
      · exact hsmo _ _ _
      · rw [hsh, hsmo]
    · refine ⟨?_, fun s' c' hn => by
        simp only [Option.some.injEq, Prod.mk.injEq] at hn; rw [← hn.1, hsmo]⟩
      intro e he
      simp only [List.nil_append, List.mem_cons, List.not_mem_nil, or_false] at he
      rw [he]; exact hsmo _ _ _

theorem solve_K (strategy : Nat) (eps : Rat) : ∀ (fuel : Nat) (s : RS) (counter it : Nat),
    (solve strategy eps fuel s counter it).1.K = s.K := by
  intro fuel
  induction fuel with
  | zero => intro s _ _; rfl
  | succ fuel ih =>
    intro s counter it
    obtain ⟨hev, hnext⟩ := solveIter_K strategy eps s counter
    unfold solve
    cases hn : (solveIter strategy eps s counter).2 with
    | none =>
      simp only []
      cases hl : (solveIter strategy eps s counter).1.getLast? with
      | none => simp
      | some e => simpa using hev e (List.mem_of_getLast? hl)
    | some p =>
      obtain ⟨s', c'⟩ := p
      simp only []
      rw [ih s' c' (it + 1)]; exact hnext s' c' hn

/-- the block kernel of ε-regression is a PSD kernel when `K` is -/
theorem KernelPSD.block {K : Nat → Nat → Rat} (h : KernelPSD K) (n : Nat) :
    KernelPSD (fun a b => K (a % n) (b % n)) := fun m f v => h m (fun a => f a % n) v

/-- **end to end, box-constrained problem** (any start state inside the invariant, maximum-gain selection, any
iteration limit and start counter): if the model of `QpSolver::solve` reports `AccuracyReached` for a PSD kernel, then
NO coefficient vector inside the boxes has a dual objective more than `eps·Σ(U−L)` above the returned one.  No
hypothesis about the run is left: `solve_inv_box` covers every selection the solver makes. -/
theorem solve_optimal_box (s0 : RS) (h0 : Inv s0) (he : s0.eqc = false) (hpsd : KernelPSD s0.K)
    (strategy : Nat) (hstr : 2 ≤ strategy) (eps : Rat) (heps : 0 < eps) (fuel counter it : Nat) :
    let r := solve strategy eps fuel s0 counter it
    r.2.1 = true → ∀ β : Nat → Rat, (∀ k, k < r.1.n → r.1.L k ≤ β k ∧ β k ≤ r.1.U k) →
      dual r.1.n (Qmat r.1) r.1.lin β - dualObjective r.1 ≤ eps * rsum (fun k => r.1.U k - r.1.L k) r.1.n := by
  intro r hacc β hβ
  obtain ⟨hI, he'⟩ : Inv r.1 ∧ r.1.eqc = false := C08.solve_inv_box strategy hstr eps heps fuel s0 counter it h0 he
  obtain ⟨hk, hact⟩ := solve_acc strategy eps fuel s0 counter it hacc
  have hK : r.1.K = s0.K := solve_K strategy eps fuel s0 counter it
  exact stopped_near_optimal_box hI he' hact (hpsd.qmat r.1 hK) (le_of_lt heps) hk β hβ

/-- FULL STATEMENT: the same for the equality-constrained problem (LibSVM second-order selection) against every
feasible `β` with the same coefficient sum.  PROVED PART: runs whose gradients stay strictly inside the C++ sentinel
range `(−1e100, 1e100)` at the start of every pass (`C08.selectLibSVM_sentinel_witness` shows what goes wrong outside). -/
theorem solve_optimal_svm_partial (s0 : RS) (h0 : Inv s0) (he : s0.eqc = true) (hpsd : KernelPSD s0.K)
    (eps : Rat) (heps : 0 < eps) (fuel counter it : Nat)
    (hsent : ∀ t, t ∈ C08.passStates 1 eps fuel s0 counter → SentinelOK t) :
    let r := solve 1 eps fuel s0 counter it
    r.2.1 = true → ∀ β : Nat → Rat, (∀ k, k < r.1.n → r.1.L k ≤ β k ∧ β k ≤ r.1.U k) → rsum β r.1.n = alphaSum r.1 →
      dual r.1.n (Qmat r.1) r.1.lin β - dualObjective r.1 ≤ eps * rsum (fun k => r.1.U k - r.1.L k) r.1.n := by
  intro r hacc β hβ hsum
  obtain ⟨hI, he'⟩ : Inv r.1 ∧ r.1.eqc = true := C08.solve_inv_svm_partial eps heps fuel s0 counter it h0 he hsent
  obtain ⟨hk, hact⟩ := solve_acc 1 eps fuel s0 counter it hacc
  have hK : r.1.K = s0.K := solve_K 1 eps fuel s0 counter it
  exact stopped_near_optimal_svm hI he' hact (hpsd.qmat r.1 hK) (le_of_lt heps) hk β hβ hsum

/-- **end to end, C-SVM without bias** (one or class-specific `C`, per-example weights; the model of
`CSvmTrainer::optimize` with the box-constrained problem, any shrinking flag, any iteration limit): if training reports
`AccuracyReached` for a PSD kernel, the returned coefficients are `eps·Σ(U−L)`-optimal for the dual. -/
theorem csvm_nobias_optimal (n : Nat) (K : Nat → Nat → Rat) (y : Nat → Bool) (Cn Cp : Rat) (w : Nat → Rat)
    (eps : Rat) (shrink : Bool) (maxIter : Nat) (hsym : ∀ x y, K x y = K y x) (hpsd : KernelPSD K)
    (hCn : 0 ≤ Cn) (hCp : 0 ≤ Cp) (hw : ∀ k, k < n → 0 ≤ w k) (heps : 0 < eps) :
    let r := train2 n K y Cn Cp w eps false shrink maxIter
    r.2.1 = true → ∀ β : Nat → Rat, (∀ k, k < r.1.n → r.1.L k ≤ β k ∧ β k ≤ r.1.U k) →
      dual r.1.n (Qmat r.1) r.1.lin β - dualObjective r.1 ≤ eps * rsum (fun k => r.1.U k - r.1.L k) r.1.n :=
  solve_optimal_box (csvmInit2 n K y Cn Cp w false shrink)
    (csvmInit2_inv n K y Cn Cp w false shrink hsym hCn hCp hw) rfl hpsd 2 (Nat.le_refl _) eps heps maxIter 0 0

example : KernelPSD (fun _ _ => (1 : Rat)) := by
  intro m f v
  have : bil m (fun _ _ => (1 : Rat)) v v = rsum v m * rsum v m := by
    unfold bil
    have e : (fun a => v a * rsum (fun b => (1 : Rat) * v b) m) = fun a => rsum v m * v a := by
      funext a
      have : rsum (fun b => (1 : Rat) * v b) m = rsum v m := rsum_congr (fun k _ => one_mul _)
      rw [this]; ring
    rw [e, rsum_mul_left]
  rw [this]; exact mul_self_nonneg _

end SharkVerif.C07
