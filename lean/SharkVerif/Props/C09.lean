/-
C09 — Kernel-matrix caches return the true entries and respect their memory bound.

Property theorems about the models in `Model/Cache.lean` (tied to
`shark::LRUCache` / `shark::CachedMatrix` by the correspondence check
`checks/c09.py`).  Helper lemmas live in `Lemmas/Cache.lean`,
`Lemmas/CachedMatrix.lean`.

All statements quantify over *every* finite history of valid operations, every
matrix size `n`, every capacity `cap` (the validity predicate demands
`stop ≤ cap` for a row request of length `stop`, which is the C++
`SIZE_CHECK(size <= m_maxSize)`; "minimum admissible capacity").
-/
import SharkVerif.Lemmas.CachedMatrixG
import SharkVerif.Model.KernelMatrices
namespace SharkVerif.C09
open SharkVerif.Cache

variable {V : Type}

/-- the operations of `CachedMatrix` a client can perform -/
inductive Op where
  | row (k stop : Nat)              -- row(k, 0, stop): cached prefix request
  | flip (i j : Nat)                -- flipColumnsAndRows
  | maxidx (n' : Nat)               -- setMaxCachedIndex
  | clear
  deriving Repr, DecidableEq

/-- preconditions stated by the C++ (`SIZE_CHECK`s and index ranges) -/
def Op.valid (n cap : Nat) : Op → Prop
  | .row k stop => k < n ∧ 0 < stop ∧ stop ≤ n ∧ stop ≤ cap
  | .flip i j => i < n ∧ j < n
  | .maxidx n' => n' ≤ n
  | .clear => True

instance (n cap : Nat) (op : Op) : Decidable (op.valid n cap) := by
  cases op <;> (simp only [Op.valid]; infer_instance)

def apply (m : CM V) : Op → CM V
  | .row k stop => m.row k 0 stop
  | .flip i j => m.flip i j
  | .maxidx n' => m.setMaxCachedIndex n'
  | .clear => m.clear

def run (m : CM V) (ops : List Op) : CM V := ops.foldl apply m

theorem flip_n (m : CM V) (i j : Nat) : (m.flip i j).n = m.n := by
  unfold CM.flip; split
  · rfl
  · split <;> rfl

theorem flip_base (m : CM V) (i j : Nat) : (m.flip i j).base = m.base := by
  unfold CM.flip; split
  · rfl
  · split <;> rfl

theorem apply_base (m : CM V) (op : Op) : (apply m op).base = m.base := by
  cases op <;> simp [apply, CM.row, flip_base, CM.setMaxCachedIndex, CM.clear]

theorem run_base (ops : List Op) : ∀ (m : CM V), (run m ops).base = m.base := by
  induction ops with
  | nil => intro m; rfl
  | cons op ops ih => intro m; simp only [run, List.foldl_cons]; exact (ih _).trans (apply_base m op)

theorem apply_n (m : CM V) (op : Op) : (apply m op).n = m.n := by
  cases op <;> simp [apply, CM.row, flip_n, CM.setMaxCachedIndex, CM.clear]

theorem markFold_maxSize (ds : List Nat) (n' : Nat) : ∀ (c : LRU V),
    (ds.foldl (fun c d => c.markForDeletion (n' + d)) c).maxSize = c.maxSize := by
  induction ds with
  | nil => intro c; rfl
  | cons d ds ih =>
    intro c; simp only [List.foldl_cons]; rw [ih]
    unfold LRU.markForDeletion; split <;> rfl

theorem flip_maxSize (m : CM V) (i j : Nat) : (m.flip i j).cache.maxSize = m.cache.maxSize := by
  unfold CM.flip; split
  · rfl
  · split <;> (simp only [LRU.swapLineIndices]; split <;> rfl)

theorem apply_maxSize (m : CM V) (op : Op) : (apply m op).cache.maxSize = m.cache.maxSize := by
  cases op with
  | row k stop => simp [apply, CM.row, getCacheLine_maxSize]
  | flip i j => exact flip_maxSize m i j
  | maxidx n' => simp [apply, CM.setMaxCachedIndex, markFold_maxSize]
  | clear => simp [apply, CM.clear, LRU.clear, ensureFree_maxSize]

theorem apply_inv {m : CM V} (h : CMInv m) {op : Op} (hv : op.valid m.n m.cache.maxSize) :
    CMInv (apply m op) := by
  cases op with
  | row k stop => exact cmInv_row h 0 hv.1 (Or.inl hv.2.1) hv.2.2.1 hv.2.2.2
  | flip i j => exact cmInv_flip h hv.1 hv.2
  | maxidx n' => exact cmInv_setMaxCachedIndex h n'
  | clear => exact cmInv_clear h

/-- **Invariant for every reachable state**: any finite history of valid
operations from the empty cache keeps the `CachedMatrix` invariant. -/
theorem reachable_inv (n cap : Nat) (base : Nat → Nat → V) (ops : List Op)
    (hv : ∀ op ∈ ops, op.valid n cap) :
    CMInv (run (CM.init n base cap) ops) ∧ (run (CM.init n base cap) ops).n = n ∧
      (run (CM.init n base cap) ops).cache.maxSize = cap := by
  suffices H : ∀ (m : CM V), CMInv m → m.n = n → m.cache.maxSize = cap →
      CMInv (run m ops) ∧ (run m ops).n = n ∧ (run m ops).cache.maxSize = cap from
    H _ (cmInv_init n base cap) rfl rfl
  induction ops with
  | nil => intro m h hn hc; exact ⟨h, hn, hc⟩
  | cons op ops ih =>
    intro m h hn hc
    have hop : op.valid m.n m.cache.maxSize := by rw [hn, hc]; exact hv op (by simp)
    exact ih (fun o ho => hv o (by simp [ho])) (apply m op) (apply_inv h hop)
      (by rw [apply_n, hn]) (by rw [apply_maxSize, hc])

/-- **C09 (entries are true)**: after any history, every value the cache holds
is the entry of the underlying matrix under the *current* variable order. -/
theorem cache_entries_true (n cap : Nat) (base : Nat → Nat → V) (ops : List Op)
    (hv : ∀ op ∈ ops, op.valid n cap) (k c : Nat) (v : V) :
    let m := run (CM.init n base cap) ops
    (m.cache.lines k)[c]? = some v → v = base (m.perm k) (m.perm c) := by
  intro m hvv
  have := (reachable_inv n cap base ops hv).1.truth k c v hvv
  simp only [CM.entry, run_base] at this
  exact this

/-- **C09 (returned rows)**: a row request after any history returns a line
that covers the requested prefix and whose every entry (the whole line, not
only the requested prefix) is the true matrix entry. -/
theorem returned_row_true (n cap : Nat) (base : Nat → Nat → V) (ops : List Op)
    (hv : ∀ op ∈ ops, op.valid n cap) (k stop : Nat) (hr : (Op.row k stop).valid n cap) :
    let m := run (CM.init n base cap) ops
    stop ≤ (m.rowResult k 0 stop).length ∧
    ∀ c (hc : c < (m.rowResult k 0 stop).length), (m.rowResult k 0 stop)[c] = m.entry k c := by
  intro m
  obtain ⟨hinv, hn, hcap⟩ := reachable_inv n cap base ops hv
  have hinv' : CMInv (m.row k 0 stop) :=
    cmInv_row hinv 0 (by rw [hn]; exact hr.1) (Or.inl hr.2.1) (by rw [hn]; exact hr.2.2.1) (by rw [hcap]; exact hr.2.2.2)
  constructor
  · show stop ≤ ((m.row k 0 stop).cache.lines k).length
    rw [row_line_self]
    split
    · rename_i h; exact h.2
    · rw [resized_length]; exact Nat.le_refl _
  · intro c hc
    have := hinv'.truth k c _ (List.getElem?_eq_getElem hc)
    exact this

/-- **C09 (out-of-order read into external storage)**: `row(k,start,stop,storage)`
fills exactly `stop - start` values (no write outside the buffer *in the model*)
and each equals the true entry. -/
theorem storage_row_true {m : CM V} (h : CMInv m) (k start stop : Nat) (hs : start ≤ stop) :
    m.rowStorage k start stop = (List.range (stop - start)).map fun t => m.entry k (start + t) := by
  apply List.ext_getElem?
  intro t
  have htr := h.truth k
  simp only [CM.rowStorage]
  by_cases ht : t < stop - start
  · rw [List.getElem?_map, List.getElem?_range ht]
    simp only [Option.map_some]
    by_cases hcached : start + t < (m.cache.lines k).length
    · -- value comes from the cached line
      have h1 : t < ((m.cache.lines k).drop start |>.take (min (m.cache.lines k).length stop - start)).length := by
        simp; omega
      rw [List.getElem?_append_left h1, List.getElem?_take_of_lt (by omega), List.getElem?_drop]
      have hg := List.getElem?_eq_getElem hcached
      rw [hg, htr _ _ hg]
    · have hlen : ((m.cache.lines k).drop start |>.take (min (m.cache.lines k).length stop - start)).length
          = min (m.cache.lines k).length stop - start := by simp; omega
      have h1 : ((m.cache.lines k).drop start |>.take (min (m.cache.lines k).length stop - start)).length ≤ t := by
        rw [hlen]; omega
      rw [List.getElem?_append_right h1, hlen, List.getElem?_map]
      have h2 : t - (min (m.cache.lines k).length stop - start) < stop - max (m.cache.lines k).length start := by omega
      rw [List.getElem?_range h2]
      simp only [Option.map_some]
      congr 2
      omega
  · have hlen : (((m.cache.lines k).drop start |>.take (min (m.cache.lines k).length stop - start)) ++
        ((List.range (stop - max (m.cache.lines k).length start)).map
          fun d => m.entry k (max (m.cache.lines k).length start + d))).length = stop - start := by
      simp; omega
    rw [List.getElem?_eq_none (by rw [hlen]; omega), List.getElem?_eq_none (by simp; omega)]

/-- **C09 (size accounting and capacity)** after any history: the stored size
counter equals the total length of the lines held, the LRU list holds exactly
the cached lines without duplicates, and the capacity is respected. -/
theorem size_accounting (n cap : Nat) (base : Nat → Nat → V) (ops : List Op)
    (hv : ∀ op ∈ ops, op.valid n cap) :
    let c := (run (CM.init n base cap) ops).cache
    c.size = total c.lines c.lru ∧ c.lru.Nodup ∧ (∀ i, i ∈ c.lru ↔ c.lines i ≠ []) ∧
    c.size ≤ cap ∧ (∀ k, (c.lines k).length ≤ n) := by
  intro c
  obtain ⟨hinv, hn, hcap⟩ := reachable_inv n cap base ops hv
  refine ⟨hinv.lru.acc, hinv.lru.nodup, hinv.lru.mem, ?_, ?_⟩
  · have := hinv.lru.cap; rw [hcap] at this; exact this
  · intro k; have := hinv.short k; rw [hn] at this; exact this

/-- **C09 (two most recent rows stay valid if capacity allows)**: if `b` and `a`
are the two most recently requested rows and their lengths plus the new request
fit into the capacity, fetching a third row `c` neither evicts nor reallocates
them (their contents — and in C++ their pointers — are unchanged). -/
theorem two_recent_rows_valid {m : CM V} (h : CMInv m) {a b c stop : Nat} {rest : List Nat}
    (hl : m.cache.lru = b :: a :: rest) (hca : c ≠ a) (hcb : c ≠ b)
    (hfit : (m.cache.lines a).length + (m.cache.lines b).length + stop ≤ m.cache.maxSize) :
    (m.row c 0 stop).cache.lines a = m.cache.lines a ∧
    (m.row c 0 stop).cache.lines b = m.cache.lines b := by
  have hnd := h.lru.nodup
  have key : ∀ k, k = a ∨ k = b → (m.row c 0 stop).cache.lines k = m.cache.lines k := by
    intro k hk
    have hkc : k ≠ c := by rcases hk with e | e <;> (subst e; exact Ne.symm ‹_›)
    have hkp : k ∈ [b, a] := by rcases hk with e | e <;> simp [e]
    simp only [CM.row, LRU.getCacheLine]
    split
    · -- not cached: createRow
      simp only [LRU.createRow]
      rw [upd_ne _ _ hkc]
      have hp := LRU.ensureFree.eq_1 m.cache ((List.range stop).map fun c_1 => m.entry c c_1).length
      have := (ensureFreeGo_protects (V := V) ((List.range stop).map fun c_1 => m.entry c c_1).length
        m.cache.lru.length m.cache [b, a] rest h.lru (by rw [hl]; rfl)
        (by simp [total]; omega)).1 k hkp
      rw [hp]; exact this
    · split
      · rfl
      · -- resize: remove c first, then evict
        simp only [LRU.resizeLine]
        rw [upd_ne _ _ hkc]
        have hc_notin : c ∉ [b, a] := by simp [hca, hcb]
        have hl' : (m.cache.removeRow c).lru = [b, a] ++ rest.erase c := by
          show m.cache.lru.erase c = _
          rw [hl]
          show ([b, a] ++ rest).erase c = _
          rw [List.erase_append_right _ hc_notin]
        have hlines : ∀ k' ∈ [b, a], (m.cache.removeRow c).lines k' = m.cache.lines k' := by
          intro k' hk'
          exact upd_ne _ _ (fun e => hc_notin (e ▸ hk'))
        have htot : total (m.cache.removeRow c).lines [b, a] = total m.cache.lines [b, a] :=
          total_congr hlines
        have := (ensureFreeGo_protects (V := V) stop (m.cache.removeRow c).lru.length
          (m.cache.removeRow c) [b, a] (rest.erase c) (inv_removeRow h.lru c) hl'
          (by rw [htot]; simp [total]; show _ ≤ m.cache.maxSize; omega)).1 k hkp
        rw [LRU.ensureFree, this, hlines k hkp]
  exact ⟨key a (Or.inl rfl), key b (Or.inr rfl)⟩

/-! ### Non-vacuity and the "only if capacity allows" witnesses -/

def demoBase (a b : Nat) : Nat := a * 1000 + b + 1

/-- a concrete non-trivial valid history -/
def demoOps : List Op := [.row 0 2, .row 1 3, .flip 0 2, .row 2 3, .maxidx 1, .row 1 1]

example : ∀ op ∈ demoOps, op.valid 3 6 := by decide

/-- premises of `two_recent_rows_valid` are satisfiable: capacity 6 holds three rows of length 2 -/
example :
    let m := run (CM.init 3 demoBase 6) [.row 0 2, .row 1 2]
    m.cache.lru = [1, 0] ∧ (m.cache.lines 0).length + (m.cache.lines 1).length + 2 ≤ m.cache.maxSize ∧
    (m.row 2 0 2).cache.lines 0 = [1, 2] := by decide

/-- … and with capacity 5 < 2+2+2 the oldest of the two rows *is* evicted: the
hypothesis `hfit` of `two_recent_rows_valid` cannot be dropped. -/
theorem two_recent_rows_evicted_when_too_small :
    let m := run (CM.init 3 demoBase 5) [.row 0 2, .row 1 2]
    m.cache.lru = [1, 0] ∧ (m.row 2 0 2).cache.lines 0 = [] := by decide

end SharkVerif.C09

/-! ## Wrapper matrices agree entry-wise with direct kernel evaluation

For every history of variable flips, each wrapper's `entry`/`row` equals the
defining formula evaluated directly on the kernel `k` at the *original* indices
`π a`, `π b`, where `π` is the composition of the transpositions performed so
far. -/
namespace SharkVerif.C09.Wrappers
open SharkVerif.Cache (swapIdx)
open SharkVerif.KM

/-- the permutation accumulated by a history of flips (first flip innermost) -/
def permOf : List (Nat × Nat) → Nat → Nat
  | [] => id
  | (i, j) :: fs => fun a => swapIdx i j (permOf fs a)

/-- apply flips in history order -/
def flips {W : Type} (flip : W → Nat → Nat → W) (w : W) (fs : List (Nat × Nat)) : W :=
  fs.foldl (fun w p => flip w p.1 p.2) w

/-- generic lifting: a one-step equivariance law gives the law for all histories -/
theorem entry_flips {W V : Type} (entry : W → Nat → Nat → V) (flip : W → Nat → Nat → W)
    (h1 : ∀ w i j a b, entry (flip w i j) a b = entry w (swapIdx i j a) (swapIdx i j b)) :
    ∀ (fs : List (Nat × Nat)) (w : W) (a b : Nat),
      entry (flips flip w fs) a b = entry w (permOf fs a) (permOf fs b) := by
  intro fs
  induction fs with
  | nil => intro w a b; rfl
  | cons p fs ih =>
    intro w a b
    obtain ⟨i, j⟩ := p
    show entry (flips flip (flip w i j) fs) a b = _
    rw [ih, h1]
    rfl

variable {V : Type}

/-- `KernelMatrix`: after any flips, `entry a b = k (π a) (π b)` -/
theorem kernel_entry_true (k : Nat → Nat → V) (fs : List (Nat × Nat)) (a b : Nat) :
    (flips Kernel.flip (Kernel.init k) fs).entry a b = k (permOf fs a) (permOf fs b) := by
  rw [entry_flips Kernel.entry Kernel.flip (fun _ _ _ _ _ => rfl)]
  rfl

/-- the aux vector swapped alongside follows the same permutation -/
theorem regularized_diag_after_flips [Add V] :
    ∀ (fs : List (Nat × Nat)) (m : Regularized V) (a : Nat),
      (flips Regularized.flip m fs).diag a = m.diag (permOf fs a) ∧
      (flips Regularized.flip m fs).base.x a = m.base.x (permOf fs a) ∧
      (flips Regularized.flip m fs).base.k = m.base.k := by
  intro fs
  induction fs with
  | nil => intro m a; exact ⟨rfl, rfl, rfl⟩
  | cons p fs ih =>
    intro m a
    obtain ⟨i, j⟩ := p
    have := ih (m.flip i j) a
    exact ⟨this.1, this.2.1, this.2.2⟩

/-- `RegularizedKernelMatrix`: `entry a b = k (π a) (π b) + [a = b]·diag₀ (π a)` after any flips -/
theorem regularized_entry_true [Add V] (k : Nat → Nat → V) (d : Nat → V) (fs : List (Nat × Nat)) (a b : Nat) :
    (flips Regularized.flip (Regularized.init k d) fs).entry a b =
      if a = b then k (permOf fs a) (permOf fs b) + d (permOf fs a) else k (permOf fs a) (permOf fs b) := by
  have h := regularized_diag_after_flips fs (Regularized.init k d)
  simp only [Regularized.entry, Kernel.entry]
  rw [(h a).1, (h a).2.1, (h b).2.1, (h a).2.2]
  rfl

/-- its `row` (separate code path: base row, then one in-place addition) equals the entries -/
theorem regularized_row_eq_entries [Add V] (m : Regularized V) (r start stop : Nat) :
    m.row r start stop = (List.range (stop - start)).map fun t => m.entry r (start + t) := by
  apply List.ext_getElem?
  intro t
  simp only [Regularized.row, Kernel.row]
  by_cases ht : t < stop - start
  · rw [List.getElem?_map, List.getElem?_range ht]
    simp only [Option.map_some]
    split
    · rename_i hk
      by_cases e : t = r - start
      · subst e
        rw [List.getElem?_set_self (by simp; omega)]
        simp only [Regularized.entry]
        have : start + (r - start) = r := by omega
        rw [this]
        simp only [↓reduceIte]
        congr 2
        rw [List.getD_eq_getElem?_getD, List.getElem?_map, List.getElem?_range (by omega)]
        simp [this]
      · rw [List.getElem?_set_ne (Ne.symm e), List.getElem?_map, List.getElem?_range ht]
        simp only [Option.map_some, Regularized.entry]
        have : r ≠ start + t := by omega
        simp [this]
    · rename_i hk
      rw [List.getElem?_map, List.getElem?_range ht]
      simp only [Option.map_some, Regularized.entry]
      have : r ≠ start + t := by omega
      simp [this]
  · have h1 : ((List.range (stop - start)).map fun t => m.entry r (start + t))[t]? = none := by
      simp; omega
    rw [h1]
    split <;> simp <;> omega

theorem modified_after_flips [Mul V] :
    ∀ (fs : List (Nat × Nat)) (m : Modified V) (a : Nat),
      (flips Modified.flip m fs).labels a = m.labels (permOf fs a) ∧
      (flips Modified.flip m fs).base.x a = m.base.x (permOf fs a) ∧
      (flips Modified.flip m fs).modEq = m.modEq ∧ (flips Modified.flip m fs).modNe = m.modNe ∧
      (flips Modified.flip m fs).base.k = m.base.k := by
  intro fs
  induction fs with
  | nil => intro m a; exact ⟨rfl, rfl, rfl, rfl, rfl⟩
  | cons p fs ih =>
    intro m a
    obtain ⟨i, j⟩ := p
    have := ih (m.flip i j) a
    exact ⟨this.1, this.2.1, this.2.2.1, this.2.2.2.1, this.2.2.2.2⟩

/-- `ModifiedKernelMatrix`: entries are the kernel value times the factor chosen by
equality of the *original* labels, after any flips -/
theorem modified_entry_true [Mul V] (k : Nat → Nat → V) (lab : Nat → Nat) (e n : V)
    (fs : List (Nat × Nat)) (a b : Nat) :
    (flips Modified.flip (Modified.init k lab e n) fs).entry a b =
      (if lab (permOf fs a) = lab (permOf fs b) then e else n) * k (permOf fs a) (permOf fs b) := by
  have h := modified_after_flips fs (Modified.init k lab e n)
  simp only [Modified.entry, Modified.modifier, Kernel.entry]
  rw [(h a).1, (h b).1, (h a).2.1, (h b).2.1, (h a).2.2.1, (h a).2.2.2.1, (h a).2.2.2.2]
  rfl

/-- `PrecomputedMatrix` built from any base and the base itself stay equal under the same flips -/
theorem precomputed_entry_true (k : Nat → Nat → V) (fs : List (Nat × Nat)) (a b : Nat) :
    (flips Precomputed.flip (Precomputed.init (Kernel.init k).entry) fs).entry a b =
      (flips Kernel.flip (Kernel.init k) fs).entry a b := by
  rw [kernel_entry_true, entry_flips Precomputed.entry Precomputed.flip (fun _ _ _ _ _ => rfl)]
  rfl

/-- `BlockMatrix2x2`: entry = base entry at the mapped indices, mapping follows the flips -/
theorem block2_entry_true (be : Nat → Nat → V) (n : Nat) (fs : List (Nat × Nat)) (a b : Nat) :
    (flips Block2.flip (Block2.init be n) fs).entry a b =
      be ((Block2.init be n).mapping (permOf fs a)) ((Block2.init be n).mapping (permOf fs b)) := by
  rw [entry_flips Block2.entry Block2.flip (fun _ _ _ _ _ => rfl)]
  rfl

/-- `DifferenceKernelMatrix`: `entry a b = k(g,g') − k(g,s') − k(s,g') + k(s,s')` for the
pairs originally at `π a`, `π b` -/
theorem difference_entry_true [Add V] [Sub V] (k : Nat → Nat → V) (pairs : Nat → Nat × Nat)
    (fs : List (Nat × Nat)) (a b : Nat) :
    (flips Difference.flip (Difference.init k pairs) fs).entry a b =
      k (pairs (permOf fs a)).2 (pairs (permOf fs b)).2 - k (pairs (permOf fs a)).2 (pairs (permOf fs b)).1
        - k (pairs (permOf fs a)).1 (pairs (permOf fs b)).2 + k (pairs (permOf fs a)).1 (pairs (permOf fs b)).1 := by
  rw [entry_flips Difference.entry Difference.flip (fun _ _ _ _ _ => rfl)]
  rfl

/-- `PartlyPrecomputedMatrix`: stored rows and on-demand rows both give the base entry -/
theorem partly_entry_true (be : Nat → Nat → V) (n bytes sz i j : Nat) :
    (Partly.init be n bytes sz).entry i j = be i j := by
  simp only [Partly.entry, Partly.init]; exact ite_self _

/-- non-vacuity: a concrete flip history moves entries as stated -/
example : (flips Kernel.flip (Kernel.init fun a b => a * 10 + b) [(0, 2), (1, 2)]).entry 1 2 = 1 := by decide

end SharkVerif.C09.Wrappers


/-! ## End-to-end refinement: `CachedMatrix<Matrix>` (statement-level model) ⊑ `(i,j) ↦ base(π i, π j)`

`CMG` (`Model/Cache.lean`) is the model the correspondence check runs against the real
`CachedMatrix<Matrix>`: junk-filled fresh buffers that `base->row` overwrites, explicit bounds checks
on every buffer access (`none` = access outside a buffer), the intrusive-list `swapLineIndices` of the
C++ case by case, buffer identities.  The guards are exactly the `SIZE_CHECK`s of the C++. -/
namespace SharkVerif.C09.G
open SharkVerif.Cache

variable {W V : Type}

inductive GOp where
  | row (k stop : Nat)            -- row(k,0,stop)
  | rows (k start stop : Nat)     -- row(k,start,stop,storage)
  | entry (i j : Nat)
  | flip (i j : Nat)
  | maxidx (n' : Nat)
  | clear
  deriving Repr, DecidableEq

inductive Obs (V : Type) where
  | line (l : List V)
  | val (v : V)
  | unit

/-- the guards of the C++, evaluated in the current state: index ranges, `SIZE_CHECK(size <= m_maxSize)`
(`ensureFreeMemory`), `SIZE_CHECK(size > 0)` (`cacheCreateRow`: only reached for a line that is not
cached), `SIZE_CHECK(start <= end)`, `SIZE_CHECK(end <= size())`, `SIZE_CHECK(n <= size())` -/
def GOp.valid (g : CMG W V) : GOp → Prop
  | .row k stop => k < g.n ∧ stop ≤ g.n ∧ stop ≤ g.cache.core.maxSize ∧
      (0 < stop ∨ g.cache.core.isCached k = true)
  | .rows k start stop => k < g.n ∧ start ≤ stop ∧ stop ≤ g.n
  | .entry i j => i < g.n ∧ j < g.n
  | .flip i j => i < g.n ∧ j < g.n
  | .maxidx n' => n' ≤ g.n
  | .clear => True

/-- one client call; `none` = some access left its buffer -/
def step (ops : BaseOps W V) (junk : Nat → V) (g : CMG W V) : GOp → Option (CMG W V × Obs V)
  | .row k stop => (CMG.row ops junk g k 0 stop).map fun g' => (g', .line ((g'.cache.core.lines k).take stop))
  | .rows k s e => (CMG.rowStorage ops junk g k s e).map fun l => (g, .line l)
  | .entry i j => some (g, .val (ops.entry g.w i j))
  | .flip i j => (CMG.flip ops g i j).map fun g' => (g', .unit)
  | .maxidx n' => some (g.setMaxCachedIndex n', .unit)
  | .clear => some (g.clear, .unit)

def run (ops : BaseOps W V) (junk : Nat → V) : CMG W V → List GOp → Option (CMG W V × List (Obs V))
  | g, [] => some (g, [])
  | g, op :: rest =>
    match step ops junk g op with
    | none => none
    | some (g', o) =>
      match run ops junk g' rest with
      | none => none
      | some (g'', os) => some (g'', o :: os)

/-- every call of the history meets its guard in the state it is issued in -/
def ValidHist (ops : BaseOps W V) (junk : Nat → V) : CMG W V → List GOp → Prop
  | _, [] => True
  | g, op :: rest => op.valid g ∧ ∀ g' o, step ops junk g op = some (g', o) → ValidHist ops junk g' rest

/-- the abstract specification: only the variable order `π` is state -/
def specStep (base : Nat → Nat → V) (π : Nat → Nat) : GOp → (Nat → Nat) × Obs V
  | .row k stop => (π, .line ((List.range stop).map fun c => base (π k) (π c)))
  | .rows k s e => (π, .line ((List.range (e - s)).map fun t => base (π k) (π (s + t))))
  | .entry i j => (π, .val (base (π i) (π j)))
  | .flip i j => (fun k => π (swapIdx i j k), .unit)
  | .maxidx _ => (π, .unit)
  | .clear => (π, .unit)

def specRun (base : Nat → Nat → V) : (Nat → Nat) → List GOp → (Nat → Nat) × List (Obs V)
  | π, [] => (π, [])
  | π, op :: rest =>
    let (π', o) := specStep base π op
    let (π'', os) := specRun base π' rest
    (π'', o :: os)

/-- size/capacity accounting and truth of everything the cache holds -/
structure Accounting (g : CMG W V) (n cap : Nat) (base : Nat → Nat → V) (π : Nat → Nat) : Prop where
  n_eq    : g.n = n
  cap_eq  : g.cache.core.maxSize = cap
  size_eq : g.cache.core.size = total g.cache.core.lines g.cache.core.lru
  nodup   : g.cache.core.lru.Nodup
  mem     : ∀ i, i ∈ g.cache.core.lru ↔ g.cache.core.lines i ≠ []
  bound   : g.cache.core.size ≤ cap
  short   : ∀ k, (g.cache.core.lines k).length ≤ n
  inside  : ∀ k, n ≤ k → g.cache.core.lines k = []
  truth   : ∀ k c v, (g.cache.core.lines k)[c]? = some v → v = base (π k) (π c)

/-- the coupling used in the induction -/
structure Coupled (ops : BaseOps W V) (g : CMG W V) (m : CM V) (base : Nat → Nat → V) (π : Nat → Nat) : Prop where
  sim  : Sim ops g m
  inv  : CMInv m
  base : m.base = base
  perm : ∀ k, m.perm k = π k

theorem Coupled.entry {ops : BaseOps W V} {g : CMG W V} {m : CM V} {base : Nat → Nat → V} {π : Nat → Nat}
    (h : Coupled ops g m base π) (a b : Nat) : m.entry a b = base (π a) (π b) := by
  simp only [CM.entry, h.base, h.perm]

theorem Coupled.accounting {ops : BaseOps W V} {g : CMG W V} {m : CM V} {base : Nat → Nat → V}
    {π : Nat → Nat} (h : Coupled ops g m base π) : Accounting g m.n m.cache.maxSize base π := by
  have hc := h.sim.cache
  refine ⟨h.sim.n, by rw [hc], by rw [hc]; exact h.inv.lru.acc, by rw [hc]; exact h.inv.lru.nodup,
    by rw [hc]; exact h.inv.lru.mem, by rw [hc]; exact h.inv.lru.cap, by rw [hc]; exact h.inv.short,
    by rw [hc]; exact h.inv.inside, ?_⟩
  intro k c v hv
  rw [hc] at hv
  rw [← h.entry]; exact h.inv.truth k c v hv

theorem flip_perm (m : CM V) (i j k : Nat) : (m.flip i j).perm k = m.perm (swapIdx i j k) := by
  rcases Nat.lt_trichotomy i j with h | h | h
  · rw [flip_ordered m h]
  · subst h
    have : m.flip i i = m := by unfold CM.flip; simp
    rw [this]; congr 1; unfold swapIdx; split <;> simp_all
  · rw [flip_swap m h, flip_ordered m h, swapIdx_comm]

/-- one call: no buffer is left, the observation is the specified one, the coupling is kept -/
theorem step_refines {ops : BaseOps W V} (hl : Lawful ops) (junk : Nat → V) {g : CMG W V} {m : CM V}
    {base : Nat → Nat → V} {π : Nat → Nat} (h : Coupled ops g m base π) {op : GOp} (hv : op.valid g) :
    ∃ g' m', step ops junk g op = some (g', (specStep base π op).2) ∧
      Coupled ops g' m' base (specStep base π op).1 ∧ m'.n = m.n ∧ m'.cache.maxSize = m.cache.maxSize := by
  have hn := h.sim.n
  have hc := h.sim.cache
  cases op with
  | row k stop =>
    obtain ⟨hk, hs, hcap, hpos⟩ := hv
    rw [hn] at hk hs; rw [hc] at hcap hpos
    obtain ⟨g', hrow, hsim, _, _, _⟩ := row_sim hl junk h.sim k 0 stop
    have hinv' := cmInv_row h.inv 0 hk hpos hs hcap
    refine ⟨g', m.row k 0 stop, ?_, ⟨hsim, hinv', h.base, h.perm⟩, rfl, getCacheLine_maxSize _ _ _ _⟩
    simp only [step, hrow, Option.map_some, specStep]
    congr 3
    rw [hsim.cache]
    have hlen : stop ≤ ((m.row k 0 stop).cache.lines k).length := by
      rw [row_line_self]
      split
      · rename_i hh; exact hh.2
      · rw [resized_length]; exact Nat.le_refl _
    have := trueLine_segment (hinv'.truth k) 0 stop hlen
    simp only [List.drop_zero, Nat.sub_zero, Nat.zero_add] at this
    rw [this]
    apply List.map_congr_left
    intro c _
    rw [row_entry]; exact h.entry k c
  | rows k s e =>
    obtain ⟨_, hse, _⟩ := hv
    refine ⟨g, m, ?_, h, rfl, rfl⟩
    simp only [step, rowStorage_sim hl junk h.sim h.inv k s e hse, Option.map_some, specStep]
    congr 3
    apply List.map_congr_left
    intro t _; exact h.entry _ _
  | entry i j =>
    refine ⟨g, m, ?_, h, rfl, rfl⟩
    simp only [step, specStep, h.sim.entry, h.entry]
  | flip i j =>
    obtain ⟨hi, hj⟩ := hv
    rw [hn] at hi hj
    obtain ⟨g', hflip, hsim, _⟩ := flip_sim hl h.sim h.inv i j
    refine ⟨g', m.flip i j, ?_, ⟨hsim, cmInv_flip h.inv hi hj, by rw [flip_base]; exact h.base, ?_⟩,
      flip_n m i j, flip_maxSize m i j⟩
    · simp only [step, hflip, Option.map_some, specStep]
    · intro k; rw [flip_perm]; exact h.perm _
  | maxidx n' =>
    refine ⟨g.setMaxCachedIndex n', m.setMaxCachedIndex n', rfl,
      ⟨setMaxCachedIndex_sim h.sim n', cmInv_setMaxCachedIndex h.inv n', h.base, h.perm⟩, rfl, ?_⟩
    simp [CM.setMaxCachedIndex, markFold_maxSize]
  | clear =>
    refine ⟨g.clear, m.clear, rfl, ⟨clear_sim h.sim, cmInv_clear h.inv, h.base, h.perm⟩, rfl, ?_⟩
    simp [CM.clear, LRU.clear, ensureFree_maxSize]

theorem run_refines {ops : BaseOps W V} (hl : Lawful ops) (junk : Nat → V) (base : Nat → Nat → V)
    (hist : List GOp) : ∀ (g : CMG W V) (m : CM V) (π : Nat → Nat), Coupled ops g m base π →
    ValidHist ops junk g hist →
    ∃ g' m', run ops junk g hist = some (g', (specRun base π hist).2) ∧
      Coupled ops g' m' base (specRun base π hist).1 ∧ m'.n = m.n ∧ m'.cache.maxSize = m.cache.maxSize := by
  induction hist with
  | nil => intro g m π h _; exact ⟨g, m, rfl, h, rfl, rfl⟩
  | cons op rest ih =>
    intro g m π h hv
    obtain ⟨g1, m1, hstep, hc1, hn1, hcap1⟩ := step_refines hl junk h hv.1
    obtain ⟨g2, m2, hrun, hc2, hn2, hcap2⟩ := ih g1 m1 _ hc1 (hv.2 g1 _ hstep)
    refine ⟨g2, m2, ?_, hc2, by rw [hn2, hn1], by rw [hcap2, hcap1]⟩
    simp only [run, hstep, hrun, specRun]

/-- **C09, end to end.**  For every base-matrix class whose `row` writes its entries and whose
`flipColumnsAndRows` exchanges two variables (`Lawful`), every matrix size `n`, every capacity `cap`,
every junk content of freshly allocated buffers and every finite history of calls that meet the
guards of the C++ in the state they are issued in:
* no call reads or writes outside a cache line or the caller's storage (`run … = some …`),
* the sequence of observations (returned row prefixes, filled storages, entries) is exactly that of
  the specification `(i,j) ↦ entry₀(π i, π j)` for the current variable order `π`,
* in the state reached (hence in every reachable state) the size counter equals the total length of
  the lines held, the LRU list holds exactly the cached lines once each, the capacity is respected,
  no line is longer than the matrix, and every value held is the true entry under `π`. -/
theorem cachedMatrix_refines_spec {ops : BaseOps W V} (hl : Lawful ops) (junk : Nat → V)
    (n cap : Nat) (w0 : W) (hist : List GOp)
    (hv : ValidHist ops junk (CMG.init n w0 cap) hist) :
    ∃ g, run ops junk (CMG.init n w0 cap) hist = some (g, (specRun (ops.entry w0) id hist).2) ∧
      Accounting g n cap (ops.entry w0) (specRun (ops.entry w0) id hist).1 := by
  have h0 : Coupled ops (CMG.init n w0 cap) (CM.init n (ops.entry w0) cap) (ops.entry w0) id :=
    ⟨init_sim ops n w0 cap, cmInv_init _ _ _, rfl, fun _ => rfl⟩
  obtain ⟨g, m, hrun, hc, hn, hcap⟩ := run_refines hl junk (ops.entry w0) hist _ _ _ h0 hv
  refine ⟨g, hrun, ?_⟩
  have := hc.accounting
  rw [hn, hcap] at this
  exact this

instance (g : CMG W V) (op : GOp) : Decidable (op.valid g) := by
  cases op <;> (simp only [GOp.valid]; infer_instance)

/-- executable form of `ValidHist` (used for the non-vacuity examples) -/
def checkHist (ops : BaseOps W V) (junk : Nat → V) : CMG W V → List GOp → Bool
  | _, [] => true
  | g, op :: rest =>
    decide (op.valid g) &&
      match step ops junk g op with
      | some (g', _) => checkHist ops junk g' rest
      | none => true

theorem validHist_of_check (ops : BaseOps W V) (junk : Nat → V) (hist : List GOp) :
    ∀ g : CMG W V, checkHist ops junk g hist = true → ValidHist ops junk g hist := by
  induction hist with
  | nil => intro _ _; trivial
  | cons op rest ih =>
    intro g h
    simp only [checkHist, Bool.and_eq_true, decide_eq_true_eq] at h
    refine ⟨h.1, ?_⟩
    intro g' o hstep
    have h2 := h.2
    rw [hstep] at h2
    exact ih g' h2

/-- the guards cannot be dropped — capacity: a request longer than the capacity makes
`ensureFreeMemory` run out of lines to evict (C++: `m_lruList.back()` of an empty list) while memory is
still missing; the model stops with the request unsatisfied -/
theorem request_beyond_capacity_is_stuck {s : LRU V} (h : Inv s) {need : Nat} (hn : s.maxSize < need) :
    (s.ensureFree need).lru = [] ∧ (s.ensureFree need).maxSize - (s.ensureFree need).size < need := by
  have key : ∀ (f : Nat) (s : LRU V), Inv s → s.lru.length ≤ f → s.maxSize < need →
      (LRU.ensureFreeGo need f s).lru = [] := by
    intro f
    induction f with
    | zero => intro s _ hf _; exact List.eq_nil_of_length_eq_zero (Nat.le_zero.1 hf)
    | succ f ih =>
      intro s hs hf hn
      unfold LRU.ensureFreeGo
      have : s.maxSize - s.size < need := by omega
      simp only [this, ↓reduceIte]
      split
      · rename_i hnone; exact List.getLast?_eq_none_iff.1 hnone
      · rename_i o hsome
        have ho : o ∈ s.lru := List.mem_of_getLast? hsome
        apply ih _ (inv_removeRow hs o)
        · show (s.lru.erase o).length ≤ f
          rw [List.length_erase_of_mem ho]; omega
        · exact hn
  have h1 := key s.lru.length s h (Nat.le_refl _) hn
  refine ⟨h1, ?_⟩
  rw [ensureFree_maxSize]; omega

/-! ### buffer identities: the rows of an SMO step stay the same buffers -/

theorem getCacheLine_lru_protects {s : LRU V} (h : Inv s) {p rest : List Nat} {c size : Nat}
    (f : Nat → V) (hl : s.lru = p ++ rest) (hc : c ∉ p) (hfit : total s.lines p + size ≤ s.maxSize) :
    (∀ k ∈ p, (s.getCacheLine c size f).lines k = s.lines k) ∧
    ∃ rest', (s.getCacheLine c size f).lru = c :: (p ++ rest') := by
  have hne : ∀ k ∈ p, k ≠ c := fun k hk e => hc (e ▸ hk)
  unfold LRU.getCacheLine
  split
  · simp only [LRU.createRow, List.length_map, List.length_range]
    obtain ⟨h1, r', h2⟩ := ensureFreeGo_protects (V := V) size s.lru.length s p rest h hl hfit
    refine ⟨?_, r', ?_⟩
    · intro k hk; rw [upd_ne _ _ (hne k hk)]; exact h1 k hk
    · show c :: (LRU.ensureFree s size).lru = _
      rw [LRU.ensureFree, h2]
  · split
    · refine ⟨fun _ _ => rfl, rest.erase c, ?_⟩
      show c :: s.lru.erase c = _
      rw [hl, List.erase_append_right _ hc]
    · simp only [LRU.resizeLine]
      have hl' : (s.removeRow c).lru = p ++ rest.erase c := by
        show s.lru.erase c = _
        rw [hl, List.erase_append_right _ hc]
      have hlines : ∀ k ∈ p, (s.removeRow c).lines k = s.lines k :=
        fun k hk => upd_ne _ _ (hne k hk)
      have htot : total (s.removeRow c).lines p = total s.lines p := total_congr hlines
      obtain ⟨h1, r', h2⟩ := ensureFreeGo_protects (V := V) size (s.removeRow c).lru.length
        (s.removeRow c) p (rest.erase c) (inv_removeRow h c) hl' (by rw [htot]; exact hfit)
      refine ⟨?_, r', ?_⟩
      · intro k hk; rw [upd_ne _ _ (hne k hk)]
        show (LRU.ensureFree (s.removeRow c) size).lines k = _
        rw [LRU.ensureFree, h1 k hk, hlines k hk]
      · show c :: (LRU.ensureFree (s.removeRow c) size).lru = _
        rw [LRU.ensureFree, h2]

theorem LRUP.getCacheLine_ids_other (s : LRUP V) {i k : Nat} (size : Nat) (f : Nat → V) (hk : k ≠ i) :
    (s.getCacheLine i size f).ids k = s.ids k := by
  unfold LRUP.getCacheLine; split
  · rfl
  · exact upd_ne _ _ hk

/-- **a row request keeps the most recently used rows that still fit**: same contents, same buffer
(the pointer returned earlier stays valid), and they stay in front of the LRU list behind the new row -/
theorem row_keeps_recent {ops : BaseOps W V} (hl : Lawful ops) (junk : Nat → V) {g : CMG W V} {m : CM V}
    (hs : Sim ops g m) (hinv : CMInv m) {p rest : List Nat} {c stop : Nat}
    (hlru : g.cache.core.lru = p ++ rest) (hc : c ∉ p)
    (hfit : total g.cache.core.lines p + stop ≤ g.cache.core.maxSize)
    {g' : CMG W V} (hrow : CMG.row ops junk g c 0 stop = some g') :
    (∀ k ∈ p, g'.cache.core.lines k = g.cache.core.lines k ∧ g'.cache.bufferOf k = g.cache.bufferOf k) ∧
    (∃ rest', g'.cache.core.lru = c :: (p ++ rest')) ∧ Sim ops g' (m.row c 0 stop) := by
  obtain ⟨g2, hrow2, hsim, _, hids, _⟩ := row_sim hl junk hs c 0 stop
  rw [hrow] at hrow2
  cases hrow2
  rw [hs.cache] at hlru hfit
  obtain ⟨h1, h2⟩ := getCacheLine_lru_protects hinv.lru (fun c_1 => m.entry c c_1) hlru hc hfit
  have hcore : g'.cache.core = m.cache.getCacheLine c stop (fun c_1 => m.entry c c_1) := hsim.cache
  refine ⟨?_, by rw [hcore]; exact h2, hsim⟩
  intro k hk
  have hlines : g'.cache.core.lines k = g.cache.core.lines k := by rw [hcore, hs.cache]; exact h1 k hk
  refine ⟨hlines, ?_⟩
  have hkc : k ≠ c := fun e => hc (e ▸ hk)
  simp only [LRUP.bufferOf, LRU.isCached, hlines, hids, LRUP.getCacheLine_ids_other _ _ _ hkc]
  try rfl

/-- **C09 (the two most recent rows stay valid while a third is fetched, if capacity allows)** for the
access pattern of an SMO step: rows `i`, `j`, then a third row `c`.  If row `i` and the request for `j`
fit together, and rows `i`, `j` and the request for `c` fit together, then the buffer returned for row
`i` is the same buffer with the same contents after both later requests, and likewise the buffer of
row `j` after the third — so both pointers may be used while row `c` is being fetched. -/
theorem smo_three_rows_valid {ops : BaseOps W V} (hl : Lawful ops) (junk : Nat → V) {g0 : CMG W V} {m0 : CM V}
    (hs : Sim ops g0 m0) (hinv : CMInv m0) {i j c si sj sc : Nat} (hij : i ≠ j) (hci : c ≠ i) (hcj : c ≠ j)
    (hvi : (GOp.row i si).valid g0) {g1 g2 g3 : CMG W V}
    (h1 : CMG.row ops junk g0 i 0 si = some g1)
    (hvj : (GOp.row j sj).valid g1) (h2 : CMG.row ops junk g1 j 0 sj = some g2)
    (h3 : CMG.row ops junk g2 c 0 sc = some g3)
    (hfit2 : (g1.cache.core.lines i).length + sj ≤ g1.cache.core.maxSize)
    (hfit3 : (g2.cache.core.lines i).length + (g2.cache.core.lines j).length + sc ≤ g2.cache.core.maxSize) :
    g2.cache.core.lines i = g1.cache.core.lines i ∧ g3.cache.core.lines i = g1.cache.core.lines i ∧
    g2.cache.bufferOf i = g1.cache.bufferOf i ∧ g3.cache.bufferOf i = g1.cache.bufferOf i ∧
    g3.cache.core.lines j = g2.cache.core.lines j ∧ g3.cache.bufferOf j = g2.cache.bufferOf j := by
  -- after the first request row i is the newest
  obtain ⟨hki, hsi, hcapi, hposi⟩ := hvi
  rw [hs.n] at hki hsi; rw [hs.cache] at hcapi hposi
  have hinv1 := cmInv_row hinv 0 hki hposi hsi hcapi
  obtain ⟨_, ⟨r1, hl1⟩, hs1⟩ := row_keeps_recent hl junk hs hinv (p := []) (rest := g0.cache.core.lru)
    (c := i) (stop := si) rfl (by simp) (by simp [total]; rw [hs.cache]; exact hcapi) h1
  -- the second request keeps it
  obtain ⟨hkj, hsj, hcapj, hposj⟩ := hvj
  rw [hs1.n] at hkj hsj; rw [hs1.cache] at hcapj hposj
  have hinv2 := cmInv_row hinv1 0 hkj hposj hsj hcapj
  obtain ⟨hk2, ⟨r2, hl2⟩, hs2⟩ := row_keeps_recent hl junk hs1 hinv1 (p := [i]) (rest := r1)
    (c := j) (stop := sj) (by simpa using hl1) (by simp [Ne.symm hij]) (by simpa [total] using hfit2) h2
  -- the third keeps both
  obtain ⟨hk3, _, _⟩ := row_keeps_recent hl junk hs2 hinv2 (p := [j, i]) (rest := r2)
    (c := c) (stop := sc) (by simpa using hl2) (by simp [hci, hcj])
    (by simp only [total, List.map_cons, List.map_nil, List.sum_cons, List.sum_nil]; omega) h3
  have a2 := hk2 i (by simp)
  have a3i := hk3 i (by simp)
  have a3j := hk3 j (by simp)
  exact ⟨a2.1, by rw [a3i.1, a2.1], a2.2, by rw [a3i.2, a2.2], a3j.1, a3j.2⟩

end SharkVerif.C09.G

/-! ## The wrapper classes as base matrices of a `CachedMatrix`

Each wrapper gives a `BaseOps` instance (its `entry`, ranged `row`, `flipColumnsAndRows`); `Lawful` is the
obligation that the ranged `row` — a separate code path in `RegularizedKernelMatrix`,
`ModifiedKernelMatrix`, `GaussianKernelMatrix` — writes exactly the entries for EVERY range
(`start > 0`, `end = k`, `end = k+1`, `start = end`, whole row are all instances) and that a flip exchanges
the two variables.  `cachedMatrix_refines_spec` then applies to the cache over the wrapper. -/
namespace SharkVerif.C09.Wrappers
open SharkVerif.Cache (swapIdx BaseOps Lawful swapIdx_inj)
open SharkVerif.KM

variable {V : Type}

/-- for a lawful base matrix: `row(k,start,end,storage)` after any flip history writes the initial
entries at the permuted indices, for every range -/
theorem lawful_row_true {W : Type} {ops : BaseOps W V} (hl : Lawful ops) (fs : List (Nat × Nat)) (w : W)
    (k s e : Nat) :
    ops.row (flips ops.flip w fs) k s e =
      (List.range (e - s)).map fun d => ops.entry w (permOf fs k) (permOf fs (s + d)) := by
  rw [hl.row_eq]
  apply List.map_congr_left
  intro d _
  exact entry_flips ops.entry ops.flip hl.flip_entry fs w k (s + d)

def kernelOps : BaseOps (Kernel V) V := ⟨Kernel.entry, Kernel.row, Kernel.flip⟩
theorem kernel_lawful : Lawful (kernelOps (V := V)) := ⟨fun _ _ _ _ => rfl, fun _ _ _ _ _ => rfl⟩

def regularizedOps [Add V] : BaseOps (Regularized V) V := ⟨Regularized.entry, Regularized.row, Regularized.flip⟩
theorem regularized_lawful [Add V] : Lawful (regularizedOps (V := V)) := by
  refine ⟨fun m k s e => regularized_row_eq_entries m k s e, ?_⟩
  intro m i j a b
  show (m.flip i j).entry a b = m.entry (swapIdx i j a) (swapIdx i j b)
  simp only [Regularized.entry, Regularized.flip, Kernel.entry, Kernel.flip, swapVec]
  by_cases hab : a = b
  · subst hab; simp
  · have : swapIdx i j a ≠ swapIdx i j b := fun e => hab (swapIdx_inj i j e)
    simp [hab, this]

def modifiedOps [Mul V] : BaseOps (Modified V) V := ⟨Modified.entry, Modified.row, Modified.flip⟩
/-- `ModifiedKernelMatrix::row` multiplies from the right (`storage[j] *= modifier`), `entry` from the
left (`modifier*ret`): they agree for a commutative multiplication (`float`, `double`) -/
theorem modified_lawful [Mul V] (hcomm : ∀ a b : V, a * b = b * a) : Lawful (modifiedOps (V := V)) := by
  refine ⟨?_, fun _ _ _ _ _ => rfl⟩
  intro m k s e
  show m.row k s e = _
  simp only [Modified.row, modifiedOps, Modified.entry]
  apply List.map_congr_left
  intro d _; exact hcomm _ _

def precomputedOps : BaseOps (Precomputed V) V := ⟨Precomputed.entry, Precomputed.row, Precomputed.flip⟩
theorem precomputed_lawful : Lawful (precomputedOps (V := V)) := ⟨fun _ _ _ _ => rfl, fun _ _ _ _ _ => rfl⟩

def block2Ops : BaseOps (Block2 V) V := ⟨Block2.entry, Block2.row, Block2.flip⟩
theorem block2_lawful : Lawful (block2Ops (V := V)) := ⟨fun _ _ _ _ => rfl, fun _ _ _ _ _ => rfl⟩

def differenceOps [Add V] [Sub V] : BaseOps (Difference V) V := ⟨Difference.entry, Difference.row, Difference.flip⟩
theorem difference_lawful [Add V] [Sub V] : Lawful (differenceOps (V := V)) :=
  ⟨fun _ _ _ _ => rfl, fun _ _ _ _ _ => rfl⟩

section gaussian
variable [Add V] [Sub V] [Mul V] [OfNat V 2]
def gaussianOps : BaseOps (Gaussian V) V := ⟨Gaussian.entry, Gaussian.row, Gaussian.flip⟩
theorem gaussian_lawful : Lawful (gaussianOps (V := V)) := ⟨fun _ _ _ _ => rfl, fun _ _ _ _ _ => rfl⟩

/-- `GaussianKernelMatrix`: after any flips `entry a b = post(⟨x,x⟩ − 2⟨x,y⟩ + ⟨y,y⟩)` for the points
`x`, `y` originally at `π a`, `π b` — the precomputed norms follow the flips -/
theorem gaussian_entry_true (ip : Nat → Nat → V) (post : V → V) (fs : List (Nat × Nat)) (a b : Nat) :
    (flips Gaussian.flip (Gaussian.init ip post) fs).entry a b =
      post (ip (permOf fs a) (permOf fs a) - 2 * ip (permOf fs a) (permOf fs b) + ip (permOf fs b) (permOf fs b)) := by
  rw [entry_flips Gaussian.entry Gaussian.flip (fun _ _ _ _ _ => rfl)]
  rfl

/-- its `matrix()` is assembled from rows and therefore honours flips -/
theorem gaussian_matrix_true (ip : Nat → Nat → V) (post : V → V) (fs : List (Nat × Nat)) (n i : Nat) :
    (flips Gaussian.flip (Gaussian.init ip post) fs).matrix n i =
      (List.range n).map fun j => (flips Gaussian.flip (Gaussian.init ip post) fs).entry i j := by
  simp [Gaussian.matrix, Gaussian.row, Gaussian.entry]
end gaussian

section exmod
variable [Mul V]
def exmodOps (swapsScale : Bool) : BaseOps (ExMod V) V := ⟨ExMod.entry, ExMod.row, ExMod.flip swapsScale⟩

/-- with the scaling coefficients exchanged by `flipColumnsAndRows` the class is a lawful base matrix … -/
theorem exmod_lawful : Lawful (exmodOps (V := V) true) := ⟨fun _ _ _ _ => rfl, fun _ _ _ _ _ => rfl⟩

/-- … and `entry a b = K(x,y)·(1/s_x)·(1/s_y)` for the examples originally at `π a`, `π b` -/
theorem exmod_entry_true (k : Nat → Nat → V) (sc : Nat → V) (fs : List (Nat × Nat)) (a b : Nat) :
    (flips (ExMod.flip true) (ExMod.init k sc) fs).entry a b =
      k (permOf fs a) (permOf fs b) * sc (permOf fs a) * sc (permOf fs b) := by
  rw [entry_flips ExMod.entry (ExMod.flip true) (fun _ _ _ _ _ => rfl)]
  rfl

omit [Mul V] in
theorem exmod_asCoded_after_flips : ∀ (fs : List (Nat × Nat)) (m : ExMod V) (a : Nat),
    (flips (ExMod.flip false) m fs).x a = m.x (permOf fs a) ∧ (flips (ExMod.flip false) m fs).scale = m.scale ∧
    (flips (ExMod.flip false) m fs).k = m.k := by
  intro fs
  induction fs with
  | nil => intro m a; exact ⟨rfl, rfl, rfl⟩
  | cons p fs ih =>
    intro m a
    obtain ⟨i, j⟩ := p
    have := ih (ExMod.flip false m i j) a
    exact ⟨this.1, this.2.1, this.2.2⟩

/-- finding F-C09-1, as a theorem about the code as written (scaling coefficients NOT exchanged): the
kernel value is that of the flipped examples but the coefficients are those of the positions -/
theorem exmod_entry_asCoded (k : Nat → Nat → V) (sc : Nat → V) (fs : List (Nat × Nat)) (a b : Nat) :
    (flips (ExMod.flip false) (ExMod.init k sc) fs).entry a b =
      k (permOf fs a) (permOf fs b) * sc a * sc b := by
  have h := exmod_asCoded_after_flips fs (ExMod.init k sc)
  simp only [ExMod.entry]
  rw [(h a).1, (h b).1, (h a).2.1, (h a).2.2]
  rfl
end exmod

/-- F-C09-1 witness: two examples with coefficients 1 and 2, one flip; the code as written is not a
lawful base matrix -/
theorem exmod_asCoded_differs :
    (flips (ExMod.flip false) (ExMod.init (fun a b => (a + 1) * (b + 1)) (fun i => i + 1)) [(0, 1)]).entry 0 0 = 4 ∧
    (flips (ExMod.flip true) (ExMod.init (fun a b => (a + 1) * (b + 1)) (fun i => i + 1)) [(0, 1)]).entry 0 0 = 16 := by
  decide

/-! ### `matrix()` -/

/-- `KernelMatrix::matrix` as written (`false`) is the Gram matrix in the ORIGINAL order whatever flips
were applied (finding K2); evaluated under the current order (`true`, the proposed repair) it is `entry` -/
theorem kernel_matrix_asCoded (k : Nat → Nat → V) (fs : List (Nat × Nat)) (a b : Nat) :
    (flips Kernel.flip (Kernel.init k) fs).matrix false a b = k a b ∧
    (flips Kernel.flip (Kernel.init k) fs).matrix true a b = (flips Kernel.flip (Kernel.init k) fs).entry a b := by
  have hk : ∀ (fs : List (Nat × Nat)) (m : Kernel V), (flips Kernel.flip m fs).k = m.k := by
    intro fs
    induction fs with
    | nil => intro m; rfl
    | cons p fs ih => intro m; exact ih _
  exact ⟨by simp only [Kernel.matrix]; rw [hk]; rfl, rfl⟩

/-- before the first flip `matrix()` and `entry` agree (all library callers precompute then) -/
theorem kernel_matrix_true_unflipped (k : Nat → Nat → V) (hf : Bool) (a b : Nat) :
    (Kernel.init k).matrix hf a b = (Kernel.init k).entry a b := by
  cases hf <;> rfl

/-- K2 witness: after one flip `matrix()` as written differs from `entry` -/
theorem kernel_matrix_asCoded_differs :
    (flips Kernel.flip (Kernel.init fun a b => a * 10 + b) [(0, 2)]).matrix false 0 0 = 0 ∧
    (flips Kernel.flip (Kernel.init fun a b => a * 10 + b) [(0, 2)]).entry 0 0 = 22 := by decide

/-- with the repaired `KernelMatrix::matrix`, `RegularizedKernelMatrix::matrix` and
`ModifiedKernelMatrix::matrix` (which apply the CURRENT diagonal / labels on top) equal `entry` -/
theorem regularized_matrix_true [Add V] (m : Regularized V) (a b : Nat) :
    m.matrix true a b = m.entry a b := rfl

theorem modified_matrix_true [Mul V] (hcomm : ∀ a b : V, a * b = b * a) (m : Modified V) (a b : Nat) :
    m.matrix true a b = m.entry a b := by
  simp only [Modified.matrix, Kernel.matrix, Modified.entry, ↓reduceIte]; exact hcomm _ _

/-- `PartlyPrecomputedMatrix::row` (whole rows only) returns the base row, stored or not -/
theorem partly_row_true (be : Nat → Nat → V) (n bytes sz k : Nat) :
    (Partly.init be n bytes sz).row n k = (List.range n).map fun j => be k j := by
  simp only [Partly.row, Partly.init]; exact ite_self _

/-! ### the cache over a wrapper, end to end (instances of `cachedMatrix_refines_spec`) -/
open SharkVerif.Cache (CMG) in
open SharkVerif.C09.G in
/-- `CachedMatrix<RegularizedKernelMatrix>`: all observations are those of
`(a,b) ↦ K(π a, π b) + [a = b]·diag(π a)`; accounting holds in every reachable state -/
theorem cached_regularized_refines [Add V] (k : Nat → Nat → V) (d : Nat → V) (junk : Nat → V) (n cap : Nat)
    (hist : List G.GOp) (hv : G.ValidHist regularizedOps junk (CMG.init n (Regularized.init k d) cap) hist) :
    ∃ g, G.run regularizedOps junk (CMG.init n (Regularized.init k d) cap) hist =
        some (g, (G.specRun (fun a b => if a = b then k a b + d a else k a b) id hist).2) ∧
      G.Accounting g n cap (fun a b => if a = b then k a b + d a else k a b)
        (G.specRun (fun a b => if a = b then k a b + d a else k a b) id hist).1 :=
  cachedMatrix_refines_spec regularized_lawful junk n cap (Regularized.init k d) hist hv

open SharkVerif.Cache (CMG) in
open SharkVerif.C09.G in
/-- `CachedMatrix<ModifiedKernelMatrix>` -/
theorem cached_modified_refines [Mul V] (hcomm : ∀ a b : V, a * b = b * a) (k : Nat → Nat → V)
    (lab : Nat → Nat) (e ne : V) (junk : Nat → V) (n cap : Nat) (hist : List G.GOp)
    (hv : G.ValidHist modifiedOps junk (CMG.init n (Modified.init k lab e ne) cap) hist) :
    ∃ g, G.run modifiedOps junk (CMG.init n (Modified.init k lab e ne) cap) hist =
        some (g, (G.specRun (fun a b => (if lab a = lab b then e else ne) * k a b) id hist).2) ∧
      G.Accounting g n cap (fun a b => (if lab a = lab b then e else ne) * k a b)
        (G.specRun (fun a b => (if lab a = lab b then e else ne) * k a b) id hist).1 :=
  cachedMatrix_refines_spec (modified_lawful hcomm) junk n cap (Modified.init k lab e ne) hist hv

open SharkVerif.Cache (CMG) in
open SharkVerif.C09.G in
/-- `CachedMatrix<GaussianKernelMatrix>` -/
theorem cached_gaussian_refines [Add V] [Sub V] [Mul V] [OfNat V 2] (ip : Nat → Nat → V) (post : V → V)
    (junk : Nat → V) (n cap : Nat) (hist : List G.GOp)
    (hv : G.ValidHist gaussianOps junk (CMG.init n (Gaussian.init ip post) cap) hist) :
    ∃ g, G.run gaussianOps junk (CMG.init n (Gaussian.init ip post) cap) hist =
        some (g, (G.specRun (fun a b => post (ip a a - 2 * ip a b + ip b b)) id hist).2) ∧
      G.Accounting g n cap (fun a b => post (ip a a - 2 * ip a b + ip b b))
        (G.specRun (fun a b => post (ip a a - 2 * ip a b + ip b b)) id hist).1 :=
  cachedMatrix_refines_spec gaussian_lawful junk n cap (Gaussian.init ip post) hist hv

/-! ### non-vacuity -/
open SharkVerif.Cache (CMG) in
open SharkVerif.C09.G in
/-- a concrete valid history over a cached regularised matrix (capacity 4 < two full rows): requests
of length 0 on a cached line, `end = k`, `end = k+1`, `start = end`, shrink, clear, eviction -/
def demoHist : List G.GOp :=
  [.row 0 3, .row 0 0, .rows 1 1 1, .rows 2 1 2, .rows 2 1 3, .flip 2 0, .row 1 2, .entry 0 2, .maxidx 1,
   .row 2 3, .clear, .rows 0 0 3]

open SharkVerif.Cache (CMG) in
open SharkVerif.C09.G in
example : (G.run (regularizedOps (V := Int)) (fun _ => -1)
      (CMG.init 3 (Regularized.init (fun a b => (a * 10 + b : Nat)) (fun a => (100 * (a + 1) : Nat))) 4) demoHist).isSome = true := by
  decide

/-- … and it meets every guard, so `cached_regularized_refines` applies to it -/
example : G.ValidHist (regularizedOps (V := Int)) (fun _ => -1)
    (SharkVerif.Cache.CMG.init 3 (Regularized.init (fun a b => (a * 10 + b : Nat)) (fun a => (100 * (a + 1) : Nat))) 4) demoHist :=
  G.validHist_of_check _ _ _ _ (by decide)

/-- the premises of `smo_three_rows_valid` are satisfiable: three rows of length 2 under capacity 6 -/
example :
    (match SharkVerif.Cache.CMG.row (kernelOps (V := Int)) (fun _ => -1) (SharkVerif.Cache.CMG.init 3 (Kernel.init fun a b => (a * 10 + b : Nat)) 6) 0 0 2 with
     | some g1 =>
       match SharkVerif.Cache.CMG.row kernelOps (fun _ => -1) g1 1 0 2 with
       | some g2 =>
         decide ((g1.cache.core.lines 0).length + 2 ≤ g1.cache.core.maxSize ∧
           (g2.cache.core.lines 0).length + (g2.cache.core.lines 1).length + 2 ≤ g2.cache.core.maxSize ∧
           g2.cache.bufferOf 0 = 1 ∧ g2.cache.bufferOf 1 = 2) &&
         (SharkVerif.Cache.CMG.row kernelOps (fun _ => -1) g2 2 0 2).isSome
       | none => false
     | none => false) = true := by decide

example : (flips Gaussian.flip (Gaussian.init (fun a b => ((a + 1) * (b + 1) : Int)) id) [(0, 2)]).entry 0 1 = 1 := by
  decide

end SharkVerif.C09.Wrappers
